(* Lemmas about Model/Sample.v (C14), part 1: the samplers that read a TT-tensor
   (sample, sample_square).  Integer samplers and row utilities are in Proofs/SampleIntP.v. *)
From Coq Require Import List Arith Lia Ring PeanoNat ZArith Bool Permutation.
From TV Require Import Num.Ops Lin.Tab Lin.BigSum TT.Chain Model.Sample Proofs.SampleIntP.
Import ListNotations.

(* ---------- result plumbing ---------- *)
Lemma rbind_ok {A B} (r : result A) (f : A -> result B) y :
  rbind r f = Ok y -> exists x, r = Ok x /\ f x = Ok y.
Proof. destruct r; simpl; intros H; [eauto|discriminate]. Qed.
Lemma rmap_ok {A B} (f : A -> B) r y : rmap f r = Ok y -> exists x, r = Ok x /\ y = f x.
Proof. destruct r; simpl; intros H; inversion H; eauto. Qed.
Lemma rall_ok {A} (l : list (result A)) rows : rall l = Ok rows ->
  length rows = length l /\ forall j dr d, j < length l -> nth j l dr = Ok (nth j rows d).
Proof.
  revert rows; induction l as [|x l IH]; intros rows H; simpl in H.
  - inversion H; subst. split; [reflexivity|]. intros; simpl in *; lia.
  - apply rbind_ok in H as (a & -> & H). apply rbind_ok in H as (r & Hr & H). inversion H; subst.
    destruct (IH _ Hr) as (L & N). split; [simpl; lia|].
    intros [|j] dr d Hj; simpl; [reflexivity|]. apply N. simpl in Hj. lia.
Qed.

(* errors other than the out-of-fuel marker *)
Definition no_oof {A} (r : result A) : Prop := r <> Err OutOfFuel.
Lemma rbind_no_oof {A B} (r : result A) (f : A -> result B) :
  no_oof r -> (forall x, no_oof (f x)) -> no_oof (rbind r f).
Proof. unfold no_oof. destruct r; simpl; auto. intros H _ E. inversion E; subst. now apply H. Qed.
Lemma rall_no_oof {A} (l : list (result A)) : Forall no_oof l -> no_oof (rall l).
Proof.
  induction 1 as [|x l Hx Hl IH]; simpl; [discriminate|].
  apply rbind_no_oof; [exact Hx|]. intros a. apply rbind_no_oof; [exact IH|]. intros; discriminate.
Qed.

Section SampleP.
Context {T : Type} (K : ops T).
Notation "0" := (o0 K). Notation "1" := (o1 K).
Infix "+" := (oadd K). Infix "*" := (omul K). Infix "-" := (osub K). Infix "/" := (odiv K).
Hypothesis Rth : rng K.
Add Ring RrSampleP : Rth.

Local Notation cget := (cget K). Local Notation vstep := (vstep K). Local Notation run := (run K).
Local Notation get := (get K). Local Notation bsum := (bsum K). Local Notation msum := (msum K).
Local Notation lsum := (lsum K).

(* v . w over the first r entries;  |v|^2 over the first r entries *)
Definition dot (r : nat) (v w : list T) : T := bsum r (fun a => nth a v 0 * nth a w 0).
Definition nrm2 (r : nat) (v : list T) : T := bsum r (fun a => nth a v 0 * nth a v 0).

Lemma lsum_tab n f : lsum (tab n f) = bsum n f.
Proof. unfold tab. symmetry. apply bsum_lsum. exact Rth. Qed.
Lemma lsum_map_tab n (f : nat -> T) g : lsum (map g (tab n f)) = bsum n (fun i => g (f i)).
Proof. rewrite map_tab. apply lsum_tab. Qed.

(* ---------- right marginals: summing a chain over all its indices = contracting with np.sum(G, axis=1) ---------- *)
Lemma sum_dot_vstep G v w :
  bsum (cn G) (fun i => dot (cr2 G) (vstep v G i) w) = dot (cr1 G) v (rsum_step K G w).
Proof.
  unfold dot.
  rewrite (bsum_ext K (cn G) _
    (fun i => bsum (cr1 G) (fun a => bsum (cr2 G) (fun b => nth a v 0 * cget G a i b * nth b w 0)))).
  2:{ intros i Hi.
      rewrite (bsum_ext K (cr2 G) _ (fun b => bsum (cr1 G) (fun a => nth a v 0 * cget G a i b * nth b w 0))).
      2:{ intros b Hb. rewrite nth_vstep by auto. now rewrite <- bsum_mul_r by auto. }
      now rewrite bsum_swap by auto. }
  rewrite bsum_swap by auto.
  apply bsum_ext; intros a Ha. unfold rsum_step. rewrite nth_tab by auto.
  rewrite <- bsum_mul_l by auto. rewrite bsum_swap by auto. apply bsum_ext; intros b Hb.
  rewrite (bsum_ext K (cn G) _ (fun i => (nth a v 0 * nth b w 0) * cget G a i b)) by (intros; ring).
  rewrite bsum_mul_l by auto. ring.
Qed.

Lemma phis_cons (Y : list (core T)) : phis K Y = hd [] (phis K Y) :: tl (phis K Y).
Proof. destruct Y; reflexivity. Qed.
Lemma tl_phis G (Y : list (core T)) : tl (phis K (G :: Y)) = phis K Y.
Proof. reflexivity. Qed.
Lemma hd_phis G (Y : list (core T)) : hd [] (phis K (G :: Y)) = rsum_step K G (hd [] (phis K Y)).
Proof. reflexivity. Qed.

(* the lemma the telescoping rests on (a suffix version of "sum Y = msum (shape Y) (get Y)") *)
Lemma marg_right Ys : forall r v, chain r Ys 1 -> length v = r ->
  msum (shape Ys) (fun idx => nth O (run v Ys idx) 0) = dot r v (hd [] (phis K Ys)).
Proof.
  induction Ys as [|G Ys IH]; intros r v Hc L.
  - simpl in Hc. subst r. cbn. unfold dot. simpl. ring.
  - destruct Hc as [Hr Hc]. cbn [shape map]. cbn [Chain.msum]. rewrite hd_phis. subst r.
    rewrite <- sum_dot_vstep. apply bsum_ext; intros i Hi. cbn [Chain.run].
    apply (IH (cr2 G)); [exact Hc | apply vstep_length].
Qed.

(* one row of einsum('ma,aib,b->mi') is the family of dot products of the advanced row with phi[i+1] *)
Lemma nth_pvec v G w i : i < cn G -> nth i (pvec K v G w) 0 = dot (cr2 G) (vstep v G i) w.
Proof.
  intros Hi. unfold pvec. rewrite nth_tab by auto. unfold dot.
  rewrite bsum_swap by auto. apply bsum_ext; intros b Hb. rewrite nth_vstep by auto.
  now rewrite <- bsum_mul_r by auto.
Qed.
Lemma pvec_length v G w : length (pvec K v G w) = cn G. Proof. apply tab_length. Qed.
Lemma lsum_pvec v G w : lsum (pvec K v G w) = dot (cr1 G) v (rsum_step K G w).
Proof.
  rewrite <- sum_dot_vstep. unfold pvec at 1. rewrite lsum_tab. apply bsum_ext; intros i Hi.
  rewrite <- nth_pvec by auto. unfold pvec. now rewrite nth_tab by auto.
Qed.
(* the first core: row vector [1] *)
Lemma vstep_one G i : cr1 G = 1%nat -> vstep [1] G i = crow K G i.
Proof.
  intros H. unfold Chain.vstep, crow. apply tab_ext; intros b Hb. rewrite H. simpl. ring.
Qed.
Lemma pvec0_pvec G w : cr1 G = 1%nat -> pvec0 K G w = pvec K [1] G w.
Proof.
  intros H. unfold pvec0, pvec. apply tab_ext; intros i Hi. rewrite H. simpl.
  rewrite (bsum_ext K (cr2 G) _ (fun b => 1 * cget G O i b * nth b w 0)) by (intros; ring).
  ring_simplify. apply bsum_ext; intros; ring.
Qed.


(* ---------- laws of the number structure used from here on (hypotheses; Qc and R satisfy them) ---------- *)
Hypothesis Hdiv : forall a b, a / b = a * (1 / b).
Hypothesis Hinv : forall b, b <> 0 -> b * (1 / b) = 1.
Hypothesis Heqb : forall a b, oeqb K a b = true <-> a = b.

Lemma div_mul_cancel a s : s <> 0 -> (a / s) * s = a.
Proof. intros H. rewrite Hdiv. transitivity (a * (s * (1 / s))); [ring|]. rewrite Hinv by auto. ring. Qed.
Lemma div_0_l s : 0 / s = 0. Proof. rewrite Hdiv. ring. Qed.

Lemma normalise_ok p q : normalise K p = Ok q -> lsum p <> 0 /\ q = map (fun x => x / lsum p) p.
Proof.
  unfold normalise. destruct (oeqb K (lsum p) 0) eqn:E; [discriminate|]. intros H; inversion H; subst.
  split; auto. intros Hs. apply Heqb in Hs. congruence.
Qed.
Lemma normalise_no_oof p : no_oof (normalise K p).
Proof. unfold normalise, no_oof. destruct (oeqb K (lsum p) 0); discriminate. Qed.
Lemma nth_map0 (g : T -> T) l i : g 0 = 0 -> nth i (map g l) 0 = g (nth i l 0).
Proof. intros E. transitivity (nth i (map g l) (g 0)); [now rewrite E | apply map_nth]. Qed.
Lemma nth_normalised p i : nth i (map (fun x => x / lsum p) p) 0 = nth i p 0 / lsum p.
Proof. apply (nth_map0 (fun x => x / lsum p)). apply div_0_l. Qed.
Lemma lsum_scaled p s : lsum (map (fun x => x / s) p) = lsum p * (1 / s).
Proof. induction p as [|x p IH]; simpl; [ring|]. rewrite IH, Hdiv. ring. Qed.
Lemma lsum_normalised p : lsum p <> 0 -> lsum (map (fun x => x / lsum p) p) = 1.
Proof. intros H. rewrite lsum_scaled. now apply Hinv. Qed.
Lemma lsum_nil_ne (p : list T) : lsum p <> 0 -> p <> [].
Proof. intros H E. subst. now apply H. Qed.

(* ---------- the loops: mode-major over rows = each row walked on its own ---------- *)
Definition callno (base m k j : nat) : nat := (base + 1 + (k - 1) * m + j)%nat.
Notation stepT := (nat -> @rowst T -> result (@rowst T)).
Fixpoint walk (base m j k : nat) (steps : list stepT) (s : result (@rowst T))
  : result (@rowst T) :=
  match steps with
  | [] => s
  | st :: steps' => walk base m j (S k) steps' (rbind s (st (callno base m k j)))
  end.
Lemma modes_length base m (steps : list stepT) : forall k st, length st = m -> length (modes base m k steps st) = m.
Proof. induction steps as [|s steps IH]; intros k st L; simpl; auto. apply IH. apply tab_length. Qed.
Lemma modes_nth base m (steps : list stepT) : forall k st j, j < m -> length st = m ->
  nth j (modes base m k steps st) (Err OtherError) = walk base m j k steps (nth j st (Err OtherError)).
Proof.
  induction steps as [|s steps IH]; intros k st j Hj L; simpl; auto.
  rewrite IH; [|auto|apply tab_length]. f_equal. unfold mode_step. now rewrite nth_tab by auto.
Qed.
Lemma walk_err base m j (steps : list stepT) : forall k e, walk base m j k steps (Err e) = Err e.
Proof. induction steps as [|s steps IH]; intros; simpl; auto. Qed.
Lemma walk_no_oof base m j (steps : list stepT) : (forall st c s, In st steps -> no_oof (st c s)) ->
  forall k s, no_oof s -> no_oof (walk base m j k steps s).
Proof.
  induction steps as [|st steps IH]; intros H k s Hs; simpl; auto.
  apply IH; [intros; apply H; now right|]. apply rbind_no_oof; auto. intros x. apply H. now left.
Qed.

Definition rowst0 : @rowst T := mk_rowst [] [] [].

(* ---------- sample: order laws ---------- *)
Definition nn (x : T) : Prop := oleb K 0 x = true.
Hypothesis Hnn0 : nn 0.
Hypothesis Hnn_add : forall a b, nn a -> nn b -> nn (a + b).

Lemma bsum_nn n f : (forall i, i < n -> nn (f i)) -> nn (bsum n f).
Proof. induction n; intros H; simpl; [exact Hnn0|]. apply Hnn_add; [apply IHn; intros; apply H; lia | apply H; lia]. Qed.
Lemma msum_nn ns : forall f, (forall idx, inb ns idx -> nn (f idx)) -> nn (msum ns f).
Proof.
  induction ns as [|n ns IH]; intros f H; simpl.
  - apply H. constructor.
  - apply bsum_nn. intros i Hi. apply IH. intros idx Hidx. apply H. constructor; auto.
Qed.
Lemma clip_nn p : Forall nn p -> clip K p = p.
Proof. induction 1 as [|x p Hx Hp IH]; simpl; [reflexivity|]. unfold nn in Hx. rewrite Hx. f_equal. exact IH. Qed.

(* rand.choice(n, p=p) returns an index below n = len(p) *)
Variable ch : nat -> nat -> list T -> nat.
Hypothesis Hch : forall c t p, p <> [] -> ch c t p < length p.

(* the partial-product row v entering the cores Ys: all completions are non-negative *)
Definition nn_tail (v : list T) (Ys : list (core T)) : Prop :=
  forall idx, inb (shape Ys) idx -> nn (nth O (run v Ys idx) 0).

Lemma pvec_nn v G Ys : chain (cr2 G) Ys 1 -> nn_tail v (G :: Ys) ->
  Forall nn (pvec K v G (hd [] (phis K Ys))).
Proof.
  intros Hc Hn. apply Forall_forall. intros x Hx. unfold pvec in Hx. apply in_tab in Hx as (i & Hi & ->).
  fold (pvec K v G (hd [] (phis K Ys))).
  change (nn (nth i (tab (cn G) (fun i => bsum (cr1 G) (fun a => bsum (cr2 G) (fun b =>
     nth a v 0 * cget G a i b * nth b (hd [] (phis K Ys)) 0)))) 0)) || idtac.
  assert (E : bsum (cr1 G) (fun a => bsum (cr2 G) (fun b => nth a v 0 * cget G a i b * nth b (hd [] (phis K Ys)) 0))
              = nth i (pvec K v G (hd [] (phis K Ys))) 0) by (unfold pvec; now rewrite nth_tab by auto).
  rewrite E, nth_pvec by auto. rewrite <- (marg_right Ys (cr2 G)); [|exact Hc|apply vstep_length].
  apply msum_nn. intros idx Hidx. apply (Hn (i :: idx)). constructor; auto.
Qed.

Lemma row_step_eq G w c s :
  row_step K ch G w c s = rbind (normalise K (clip K (pvec K (rv s) G w))) (fun p =>
    Ok (mk_rowst (vstep (rv s) G (ch c O p)) (ridx s ++ [ch c O p]) (rP s ++ [p]))).
Proof. reflexivity. Qed.

Lemma row_chain_sample base m j : forall Ys r v s0 k s1,
  chain r Ys 1 -> length v = r -> rv s0 = v -> nn_tail v Ys ->
  walk base m j k (zipw (row_step K ch) Ys (tl (phis K Ys))) (Ok s0) = Ok s1 ->
  exists idx Pn, ridx s1 = ridx s0 ++ idx /\ rP s1 = rP s0 ++ Pn /\ inb (shape Ys) idx /\
    length Pn = length Ys /\ Forall (fun p => lsum p = 1) Pn /\
    lprod K (along 0 idx Pn) * dot r v (hd [] (phis K Ys)) = nth O (run v Ys idx) 0 /\
    (Ys <> [] -> dot r v (hd [] (phis K Ys)) <> 0).
Proof.
  induction Ys as [|G Ys IH]; intros r v s0 k s1 Hc L Hv Hn Hw.
  - simpl in Hw. inversion Hw; subst s1. exists [], []. rewrite !app_nil_r. repeat split; auto.
    + constructor.
    + simpl in Hc. subst r. unfold dot. simpl. ring.
  - destruct Hc as [Hr Hc]. rewrite tl_phis in Hw. rewrite (phis_cons Ys) in Hw. cbn [zipw walk] in Hw.
    set (w := hd [] (phis K Ys)) in *. cbn [rbind] in Hw. rewrite row_step_eq in Hw.
    rewrite Hv in Hw.
    assert (Hclip : clip K (pvec K v G w) = pvec K v G w) by (apply clip_nn, pvec_nn; auto).
    rewrite Hclip in Hw.
    destruct (normalise K (pvec K v G w)) as [p|e] eqn:En; [|cbn [rbind] in Hw; now rewrite walk_err in Hw].
    cbn [rbind] in Hw. apply normalise_ok in En as [Hs Hp].
    set (s := lsum (pvec K v G w)) in *.
    assert (Hpl : length p = cn G) by (rewrite Hp, map_length; apply pvec_length).
    assert (Hpne : p <> []).
    { intros E. apply (lsum_nil_ne _ Hs). apply length_zero_iff_nil. rewrite pvec_length.
      rewrite <- Hpl, E. reflexivity. }
    set (i := ch (callno base m k j) O p) in *.
    assert (Hi : i < cn G) by (rewrite <- Hpl; apply Hch; exact Hpne).
    assert (Hn' : nn_tail (vstep v G i) Ys).
    { intros idx Hidx. apply (Hn (i :: idx)). constructor; auto. }
    destruct (IH (cr2 G) (vstep v G i) (mk_rowst (vstep v G i) (ridx s0 ++ [i]) (rP s0 ++ [p])) (S k) s1
                 Hc (vstep_length _ _ _ _) eq_refl Hn' Hw)
      as (idx & Pn & E1 & E2 & Hb & HL & HF & Hprod & _).
    cbn [ridx rP] in E1, E2.
    exists (i :: idx), (p :: Pn). rewrite <- !app_assoc in E1, E2. cbn [app] in E1, E2.
    assert (Hsum : s = dot r v (hd [] (phis K (G :: Ys)))).
    { unfold s. rewrite lsum_pvec, hd_phis. subst r. reflexivity. }
    repeat split; auto.
    + cbn [shape map]. constructor; auto.
    + simpl. now rewrite HL.
    + constructor; [|exact HF]. rewrite Hp. now apply lsum_normalised.
    + cbn [along lprod fold_right Chain.run]. fold (lprod K (along 0 idx Pn)). rewrite <- Hsum.
      assert (Hnp : forall t, t < cn G -> nth t p 0 = dot (cr2 G) (vstep v G t) w / s).
      { intros t Ht. rewrite Hp. unfold s. rewrite nth_normalised. now rewrite nth_pvec. }
      rewrite Hnp by auto. rewrite <- Hprod.
      set (Mi := dot (cr2 G) (vstep v G i) w). set (L' := lprod K (along 0 idx Pn)).
      transitivity (L' * ((Mi / s) * s)); [ring|]. rewrite div_mul_cancel by auto. ring.
    + intros _. rewrite <- Hsum. exact Hs.
Qed.


(* ---------- sample: the theorem ---------- *)
Definition total (Y : list (core T)) : T := msum (shape Y) (get Y).
(* marginal of the first mode: sum of the entries with first index i0 *)
Definition marg0 (Y : list (core T)) (i0 : nat) : T := msum (shape (tl Y)) (fun idx' => get Y (i0 :: idx')).

Lemma nth_map_in {A B} (g : A -> B) l i d d' : i < length l -> nth i (map g l) d = g (nth i l d').
Proof. intros H. rewrite (nth_indep _ d (g d')) by (now rewrite map_length). apply map_nth. Qed.
Lemma lsum_map_add_const l u : lsum (map (fun x => x + u) l) = lsum l + bsum (length l) (fun _ => u).
Proof. induction l as [|x l IH]; simpl; [ring|]. rewrite IH. ring. Qed.

Lemma pvec1_marg0 G0 Y' i : cr1 G0 = 1%nat -> chain (cr2 G0) Y' 1 -> i < cn G0 ->
  nth i (pvec K [1] G0 (hd [] (phis K Y'))) 0 = marg0 (G0 :: Y') i.
Proof.
  intros H1 Hc Hi. rewrite nth_pvec by auto.
  rewrite <- (marg_right Y' (cr2 G0)); [|exact Hc|apply vstep_length]. reflexivity.
Qed.
Lemma total_dot G0 Y' : cr1 G0 = 1%nat -> chain (cr2 G0) Y' 1 ->
  lsum (pvec K [1] G0 (hd [] (phis K Y'))) = total (G0 :: Y').
Proof.
  intros H1 Hc. rewrite lsum_pvec. unfold total. rewrite H1.
  rewrite <- hd_phis. symmetry. apply (marg_right (G0 :: Y') 1%nat [1]); [split; auto|reflexivity].
Qed.

Theorem sample_spec Y m u II P :
  chain 1 Y 1 -> (forall idx, inb (shape Y) idx -> nn (get Y idx)) -> nn u ->
  sample K ch Y m u = Ok (II, P) ->
  length II = m /\ length P = m /\
  forall j, j < m ->
    let idx := nth j II [] in let Pj := nth j P [] in
    inb (shape Y) idx /\ length Pj = length Y /\ Forall (fun p => lsum p = 1) Pj /\
    lprod K (along 0 idx Pj) * marg0 Y (hd O idx) =
      ((marg0 Y (hd O idx) + u) / (total Y + bsum (hd O (shape Y)) (fun _ => u))) * get Y idx /\
    (u = 0 -> lprod K (along 0 idx Pj) = get Y idx / total Y) /\
    (tl Y <> [] -> marg0 Y (hd O idx) <> 0).
Proof.
  intros Hc Hnn Hu H. destruct Y as [|G0 Y']; [discriminate|]. destruct Hc as [H1 Hc].
  unfold sample in H. set (w1 := hd [] (phis K Y')) in *.
  apply rbind_ok in H as (p0 & Hp0 & H). rewrite (pvec0_pvec _ _ H1) in Hp0.
  set (pv := pvec K [1] G0 w1) in *.
  assert (Hpv : forall i, i < cn G0 -> nth i pv 0 = marg0 (G0 :: Y') i) by (intros; now apply pvec1_marg0).
  assert (Hm0nn : forall i, i < cn G0 -> nn (marg0 (G0 :: Y') i)).
  { intros i Hi. unfold marg0. apply msum_nn. intros idx Hidx. apply Hnn. constructor; auto. }
  assert (Hclip : clip K (map (fun x => x + u) pv) = map (fun x => x + u) pv).
  { apply clip_nn. apply Forall_forall. intros x Hx. apply in_map_iff in Hx as (y & <- & Hy).
    apply Hnn_add; [|exact Hu]. unfold pv, pvec in Hy. apply in_tab in Hy as (i & Hi & ->).
    specialize (Hpv i Hi). unfold pv, pvec in Hpv. rewrite nth_tab in Hpv by auto. rewrite Hpv. now apply Hm0nn. }
  rewrite Hclip in Hp0. apply normalise_ok in Hp0 as [Hs Hp0].
  set (q := map (fun x => x + u) pv) in *. set (s := lsum q) in *.
  assert (Hsv : s = total (G0 :: Y') + bsum (cn G0) (fun _ => u)).
  { unfold s, q. rewrite lsum_map_add_const. unfold pv, w1. rewrite total_dot by auto. now rewrite pvec_length. }
  assert (Hql : length q = cn G0) by (unfold q; rewrite map_length; apply pvec_length).
  assert (Hp0l : length p0 = cn G0) by (rewrite Hp0, map_length; exact Hql).
  assert (Hp0ne : p0 <> []).
  { intros E. apply (lsum_nil_ne _ Hs). apply length_zero_iff_nil. rewrite Hql, <- Hp0l, E. reflexivity. }
  assert (Hnp0 : forall t, t < cn G0 -> nth t p0 0 = (marg0 (G0 :: Y') t + u) / s).
  { intros t Ht. rewrite Hp0. fold s. unfold s. rewrite nth_normalised. fold s. f_equal.
    unfold q. rewrite (nth_map_in _ _ _ _ 0) by (unfold pv; now rewrite pvec_length). now rewrite Hpv. }
  apply rmap_ok in H as (rows & Hrows & E). inversion E; subst II P. clear E.
  set (st0 := tab m (fun j => Ok (mk_rowst (crow K G0 (ch O j p0)) [ch O j p0] [p0]))) in *.
  apply rall_ok in Hrows as [HL HN]. rewrite (modes_length _ _ _ _ st0) in HL, HN by apply tab_length.
  rewrite !map_length. split; [exact HL|]. split; [exact HL|]. intros j Hj. cbv zeta.
  specialize (HN j (Err OtherError) rowst0 Hj). rewrite modes_nth in HN by (auto; apply tab_length).
  unfold st0 in HN. rewrite nth_tab in HN by auto.
  set (i0 := ch O j p0) in *.
  assert (Hi0 : i0 < cn G0) by (rewrite <- Hp0l; apply Hch; exact Hp0ne).
  assert (Hnt : nn_tail (crow K G0 i0) Y').
  { intros idx Hidx. rewrite <- (vstep_one _ _ H1). apply (Hnn (i0 :: idx)). constructor; auto. }
  destruct (row_chain_sample O m j Y' (cr2 G0) (crow K G0 i0) (mk_rowst (crow K G0 i0) [i0] [p0]) 1%nat _
                Hc (tab_length _ _) eq_refl Hnt HN)
      as (idx & Pn & E1 & E2 & Hb & HLn & HF & Hprod & Hne).
  cbn [ridx rP app] in E1, E2.
  assert (EI : nth j (map ridx rows) [] = i0 :: idx)
    by (change (@nil nat) with (ridx rowst0); rewrite map_nth; exact E1).
  assert (EP : nth j (map rP rows) [] = p0 :: Pn)
    by (change (@nil (list T)) with (rP rowst0); rewrite map_nth; exact E2).
  rewrite EI, EP. split; [|split; [|split; [|split; [|split]]]].
  - cbn [shape map]. constructor; auto.
  - simpl. now rewrite HLn.
  - constructor; [|exact HF]. rewrite Hp0. fold s. unfold s. now apply lsum_normalised.
  - cbn [along lprod fold_right hd shape map]. fold (lprod K (along 0 idx Pn)). rewrite Hnp0 by auto.
    rewrite <- Hsv. rewrite <- (vstep_one _ _ H1) in Hprod.
    rewrite <- (nth_pvec _ _ _ _ Hi0) in Hprod. fold w1 pv in Hprod. rewrite Hpv in Hprod by auto.
    change (get (G0 :: Y') (i0 :: idx)) with (nth O (run (vstep [1] G0 i0) Y' idx) 0). rewrite <- Hprod. ring.
  - intros ->. cbn [along lprod fold_right hd]. fold (lprod K (along 0 idx Pn)). rewrite Hnp0 by auto.
    rewrite <- (vstep_one _ _ H1) in Hprod.
    rewrite <- (nth_pvec _ _ _ _ Hi0) in Hprod. fold w1 pv in Hprod. rewrite Hpv in Hprod by auto.
    change (get (G0 :: Y') (i0 :: idx)) with (nth O (run (vstep [1] G0 i0) Y' idx) 0). rewrite <- Hprod.
    assert (Es : s = total (G0 :: Y')) by (rewrite Hsv, bsum_0 by auto; ring). rewrite <- Es.
    replace (marg0 (G0 :: Y') i0 + 0) with (marg0 (G0 :: Y') i0) by ring.
    rewrite (Hdiv (marg0 (G0 :: Y') i0) s), (Hdiv (lprod K (along 0 idx Pn) * marg0 (G0 :: Y') i0) s). ring.
  - cbn [tl hd]. intros Hne'. specialize (Hne Hne'). rewrite <- (vstep_one _ _ H1) in Hne.
    rewrite <- (nth_pvec _ _ _ _ Hi0) in Hne. fold w1 pv in Hne. now rewrite Hpv in Hne by auto.
Qed.

(* ====================================================================================================== *)
(* ---------- sample: shape and bounds for ANY tensor (signed entries, any ranks): only the generator contract ---------- *)
Lemma normalise_shape p q : normalise K p = Ok q -> length q = length p /\ q <> [].
Proof.
  intros H. apply normalise_ok in H as [Hs ->]. split; [apply map_length|].
  intros E. apply map_eq_nil in E. now apply (lsum_nil_ne _ Hs).
Qed.
Lemma clip_length p : length (clip K p) = length p. Proof. apply map_length. Qed.
Lemma phis_length (Y : list (core T)) : length (phis K Y) = S (length Y).
Proof. induction Y as [|G Y IH]; simpl; auto. Qed.

Lemma walk_bounds base m j : forall Ys ws s0 k s1, length ws = length Ys ->
  walk base m j k (zipw (row_step K ch) Ys ws) (Ok s0) = Ok s1 ->
  exists idx, ridx s1 = ridx s0 ++ idx /\ inb (shape Ys) idx.
Proof.
  induction Ys as [|G Ys IH]; intros ws s0 k s1 L Hw.
  - destruct ws; [|discriminate]. simpl in Hw. inversion Hw; subst. exists []. rewrite app_nil_r. split; [auto|constructor].
  - destruct ws as [|w ws]; [discriminate|]. cbn [zipw walk rbind] in Hw. rewrite row_step_eq in Hw.
    destruct (normalise K (clip K (pvec K (rv s0) G w))) as [p|e] eqn:En;
      [|cbn [rbind] in Hw; now rewrite walk_err in Hw].
    cbn [rbind] in Hw. apply normalise_shape in En as [Lp Hne].
    rewrite clip_length, pvec_length in Lp.
    apply IH in Hw as (idx & E & Hb); [|simpl in L; lia]. cbn [ridx] in E.
    exists (ch (callno base m k j) O p :: idx). rewrite <- app_assoc in E. split; [exact E|].
    cbn [shape map]. constructor; [|exact Hb]. rewrite <- Lp. now apply Hch.
Qed.

Theorem sample_bounds Y m u II P : sample K ch Y m u = Ok (II, P) ->
  length II = m /\ Forall (inb (shape Y)) II.
Proof.
  intros H. destruct Y as [|G0 Y']; [discriminate|]. unfold sample in H.
  apply rbind_ok in H as (p0 & Hp0 & H). apply normalise_shape in Hp0 as [Lp0 Hne0].
  rewrite clip_length, map_length in Lp0. unfold pvec0 in Lp0. rewrite tab_length in Lp0.
  apply rmap_ok in H as (rows & Hrows & E). inversion E; subst II P. clear E.
  set (st0 := tab m (fun j => Ok (mk_rowst (crow K G0 (ch O j p0)) [ch O j p0] [p0]))) in *.
  apply rall_ok in Hrows as [HL HN]. rewrite (modes_length _ _ _ _ st0) in HL, HN by apply tab_length.
  rewrite map_length. split; [exact HL|].
  apply Forall_forall. intros x Hx. apply (In_nth _ _ []) in Hx as (j & Hj & <-).
  rewrite map_length, HL in Hj.
  specialize (HN j (Err OtherError) rowst0 Hj). rewrite modes_nth in HN by (auto; apply tab_length).
  unfold st0 in HN. rewrite nth_tab in HN by auto.
  apply walk_bounds in HN as (idx & E & Hb).
  2:{ pose proof (phis_length Y') as HP. destruct (phis K Y'); simpl in *; lia. }
  change (@nil nat) with (ridx rowst0). rewrite map_nth, E. cbn [ridx app shape map].
  constructor; [|exact Hb]. rewrite <- Lp0. now apply Hch.
Qed.

(* ====================================================================================================== *)
(* ---------- sample_square ---------- *)
Definition sq (x : T) : T := x * x.
(* the rows of the right unfolding G[a, (i,b)] are orthonormal: what orthogonalize(Y, 0) establishes for cores 1..d-1 *)
Definition row_orth (G : core T) : Prop :=
  forall a a', a < cr1 G -> a' < cr1 G ->
    bsum (cn G) (fun i => bsum (cr2 G) (fun b => cget G a i b * cget G a' i b)) = if Nat.eqb a a' then 1 else 0.
(* squared Frobenius norm of the tensor *)
Definition total2 (Y : list (core T)) : T := msum (shape Y) (fun idx => sq (get Y idx)).

Lemma bsum_mul_bsum n m f g : bsum n f * bsum m g = bsum n (fun a => bsum m (fun a' => f a * g a')).
Proof. rewrite <- bsum_mul_r by auto. apply bsum_ext; intros a Ha. now rewrite <- bsum_mul_l by auto. Qed.

(* isometry: summing the squared norms of v.G[:, i, :] over i gives the squared norm of v *)
Lemma nrm2_vstep_sum G v : row_orth G ->
  bsum (cn G) (fun i => nrm2 (cr2 G) (vstep v G i)) = nrm2 (cr1 G) v.
Proof.
  intros HO. unfold nrm2.
  transitivity (bsum (cr1 G) (fun a => bsum (cr1 G) (fun a' => (nth a v 0 * nth a' v 0) *
       bsum (cn G) (fun i => bsum (cr2 G) (fun b => cget G a i b * cget G a' i b))))).
  - rewrite (bsum_ext K (cn G) _ (fun i => bsum (cr1 G) (fun a => bsum (cr1 G) (fun a' => bsum (cr2 G) (fun b =>
               (nth a v 0 * nth a' v 0) * (cget G a i b * cget G a' i b)))))).
    2:{ intros i Hi.
        rewrite (bsum_ext K (cr2 G) _ (fun b => bsum (cr1 G) (fun a => bsum (cr1 G) (fun a' =>
                   (nth a v 0 * nth a' v 0) * (cget G a i b * cget G a' i b))))).
        2:{ intros b Hb. rewrite nth_vstep by auto. rewrite bsum_mul_bsum.
            apply bsum_ext; intros a Ha. apply bsum_ext; intros a' Ha'. ring. }
        rewrite bsum_swap by auto. apply bsum_ext; intros a Ha. now rewrite bsum_swap by auto. }
    rewrite bsum_swap by auto. apply bsum_ext; intros a Ha. rewrite bsum_swap by auto.
    apply bsum_ext; intros a' Ha'.
    rewrite <- bsum_mul_l by auto. apply bsum_ext; intros i Hi. now rewrite <- bsum_mul_l by auto.
  - apply bsum_ext; intros a Ha. rewrite (bsum_single K Rth (cr1 G) a); auto.
    + rewrite HO by auto. rewrite Nat.eqb_refl. ring.
    + intros a' Ha' Hne. rewrite HO by auto. destruct (Nat.eqb_spec a a'); [congruence|ring].
Qed.

(* squared right marginal: summing the squared completions of a partial product gives its squared norm *)
Lemma marg2_right Ys : forall r v, chain r Ys 1 -> length v = r -> Forall row_orth Ys ->
  msum (shape Ys) (fun idx => sq (nth O (run v Ys idx) 0)) = nrm2 r v.
Proof.
  induction Ys as [|G Ys IH]; intros r v Hc L HO.
  - simpl in Hc. subst r. cbn. unfold nrm2, sq. simpl. ring.
  - destruct Hc as [Hr Hc]. inversion HO as [|? ? HG HO']; subst. cbn [shape map]. cbn [Chain.msum].
    rewrite <- nrm2_vstep_sum by auto. apply bsum_ext; intros i Hi. cbn [Chain.run].
    apply (IH (cr2 G)); [exact Hc | apply vstep_length | exact HO'].
Qed.

Lemma lsum_map_tabA {A} n (f : nat -> A) (g : A -> T) : lsum (map g (tab n f)) = bsum n (fun i => g (f i)).
Proof. rewrite map_tab. apply lsum_tab. Qed.
Lemma lsum_sq_nrm2 q : lsum (map (fun x => x * x) q) = nrm2 (length q) q.
Proof. rewrite <- (tab_nth 0 q) at 1. rewrite lsum_map_tab. reflexivity. Qed.
Definition qrows (v : list T) (G : core T) : list (list T) := tab (cn G) (fun i => vstep v G i).
Lemma sqnorms_length rows : length (sqnorms K rows) = length rows. Proof. apply map_length. Qed.
Lemma nth_sqnorms_qrows v G i : i < cn G -> nth i (sqnorms K (qrows v G)) 0 = nrm2 (cr2 G) (vstep v G i).
Proof.
  intros Hi. unfold sqnorms, qrows. rewrite map_tab, nth_tab by auto.
  rewrite lsum_sq_nrm2. now rewrite vstep_length.
Qed.
Lemma lsum_sqnorms_qrows v G : lsum (sqnorms K (qrows v G)) = bsum (cn G) (fun i => nrm2 (cr2 G) (vstep v G i)).
Proof.
  unfold sqnorms, qrows. rewrite lsum_map_tabA. apply bsum_ext; intros i Hi.
  rewrite lsum_sq_nrm2. now rewrite vstep_length.
Qed.

Lemma sq_row_step_eq G c s :
  sq_row_step K ch G c s = rbind (normalise K (sqnorms K (qrows (rv s) G))) (fun p =>
    Ok (mk_rowst (nth (ch c O p) (qrows (rv s) G) []) (ridx s ++ [ch c O p]) (rP s ++ [p]))).
Proof. reflexivity. Qed.

(* telescoping for the modes 1..d-1 of one row *)
Lemma row_chain_sq base m j : forall Ys r v s0 k s1,
  chain r Ys 1 -> length v = r -> rv s0 = v -> Forall row_orth Ys ->
  walk base m j k (map (sq_row_step K ch) Ys) (Ok s0) = Ok s1 ->
  exists idx Pn, ridx s1 = ridx s0 ++ idx /\ rP s1 = rP s0 ++ Pn /\ inb (shape Ys) idx /\
    length Pn = length Ys /\ Forall (fun p => lsum p = 1) Pn /\
    lprod K (along 0 idx Pn) * nrm2 r v = sq (nth O (run v Ys idx) 0) /\
    (Ys <> [] -> nrm2 r v <> 0).
Proof.
  induction Ys as [|G Ys IH]; intros r v s0 k s1 Hc L Hv HO Hw.
  - simpl in Hw. inversion Hw; subst s1. exists [], []. rewrite !app_nil_r. repeat split; auto.
    + constructor.
    + simpl in Hc. subst r. unfold nrm2, sq. simpl. ring.
  - destruct Hc as [Hr Hc]. inversion HO as [|? ? HG HO']; subst. cbn [map walk rbind] in Hw.
    rewrite sq_row_step_eq in Hw. set (v := rv s0) in *.
    destruct (normalise K (sqnorms K (qrows v G))) as [p|e] eqn:En; [|cbn [rbind] in Hw; now rewrite walk_err in Hw].
    cbn [rbind] in Hw. apply normalise_ok in En as [Hs Hp].
    set (s := lsum (sqnorms K (qrows v G))) in *.
    assert (Hsum : s = nrm2 (cr1 G) v) by (unfold s; rewrite lsum_sqnorms_qrows; now apply nrm2_vstep_sum).
    assert (Hpl : length p = cn G) by (rewrite Hp, map_length, sqnorms_length; apply tab_length).
    assert (Hpne : p <> []).
    { intros E. apply (lsum_nil_ne _ Hs). apply length_zero_iff_nil.
      rewrite sqnorms_length. unfold qrows. rewrite tab_length, <- Hpl, E. reflexivity. }
    set (i := ch (callno base m k j) O p) in *.
    assert (Hi : i < cn G) by (rewrite <- Hpl; apply Hch; exact Hpne).
    assert (Eq : nth i (qrows v G) [] = vstep v G i) by (unfold qrows; now rewrite nth_tab).
    rewrite Eq in Hw.
    destruct (IH (cr2 G) (vstep v G i) (mk_rowst (vstep v G i) (ridx s0 ++ [i]) (rP s0 ++ [p])) (S k) s1
                 Hc (vstep_length _ _ _ _) eq_refl HO' Hw)
      as (idx & Pn & E1 & E2 & Hb & HL & HF & Hprod & _).
    cbn [ridx rP] in E1, E2.
    exists (i :: idx), (p :: Pn). rewrite <- !app_assoc in E1, E2. cbn [app] in E1, E2.
    repeat split; auto.
    + cbn [shape map]. constructor; auto.
    + simpl. now rewrite HL.
    + constructor; [|exact HF]. rewrite Hp. now apply lsum_normalised.
    + cbn [along lprod fold_right Chain.run]. fold (lprod K (along 0 idx Pn)). rewrite <- Hsum.
      assert (Hnp : nth i p 0 = nrm2 (cr2 G) (vstep v G i) / s).
      { rewrite Hp. unfold s. rewrite nth_normalised. now rewrite nth_sqnorms_qrows. }
      rewrite Hnp. rewrite <- Hprod.
      set (Mi := nrm2 (cr2 G) (vstep v G i)). set (L' := lprod K (along 0 idx Pn)).
      transitivity (L' * ((Mi / s) * s)); [ring|]. rewrite div_mul_cancel by auto. ring.
    + intros _. rewrite <- Hsum. exact Hs.
Qed.

Lemma mul_div_cancel a b s : s <> 0 -> a * s = b -> a = b / s.
Proof.
  intros Hs E. rewrite <- E, Hdiv. transitivity (a * (s * (1 / s))); [|ring]. rewrite Hinv by auto. ring.
Qed.

Lemma total2_first G0 Zt' : cr1 G0 = 1%nat -> chain (cr2 G0) Zt' 1 -> Forall row_orth Zt' ->
  lsum (sqnorms K (tab (cn G0) (crow K G0))) = total2 (G0 :: Zt').
Proof.
  intros H1 Hc HO. unfold sqnorms. rewrite lsum_map_tabA. unfold total2. cbn [shape map]. cbn [Chain.msum].
  apply bsum_ext; intros i Hi. rewrite lsum_sq_nrm2. unfold crow at 1. rewrite tab_length.
  rewrite <- (marg2_right Zt' (cr2 G0)); [|exact Hc|apply tab_length|exact HO].
  apply msum_ext. intros idx _. unfold Chain.get. cbn [Chain.run]. now rewrite (vstep_one _ _ H1).
Qed.

(* the property of one drawn row: inside the bounds, d distributions, product of the conditionals = entry^2 / ||Z||^2 *)
Definition sq_row_ok (Zt : list (core T)) (idx : list nat) (Pj : list (list T)) : Prop :=
  inb (shape Zt) idx /\ length Pj = length Zt /\ Forall (fun p => lsum p = 1) Pj /\
  total2 Zt <> 0 /\
  lprod K (along 0 idx Pj) * total2 Zt = sq (get Zt idx) /\
  lprod K (along 0 idx Pj) = sq (get Zt idx) / total2 Zt.

Theorem sq_draw_spec base Zt m1 rows :
  chain 1 Zt 1 -> Forall row_orth (tl Zt) ->
  sq_draw K ch base Zt m1 = Ok rows ->
  length rows = m1 /\ forall j, j < m1 -> sq_row_ok Zt (ridx (nth j rows rowst0)) (rP (nth j rows rowst0)).
Proof.
  intros Hc HO H. destruct Zt as [|G0 Zt']; [discriminate|]. destruct Hc as [H1 Hc]. cbn [tl] in HO.
  unfold sq_draw in H. apply rbind_ok in H as (p0 & Hp0 & Hrows).
  apply normalise_ok in Hp0 as [Hs Hp0].
  set (q := sqnorms K (tab (cn G0) (crow K G0))) in *. set (s := lsum q) in *.
  assert (Hsv : s = total2 (G0 :: Zt')) by (now apply total2_first).
  assert (Hql : length q = cn G0) by (unfold q; rewrite sqnorms_length; apply tab_length).
  assert (Hp0l : length p0 = cn G0) by (rewrite Hp0, map_length; exact Hql).
  assert (Hp0ne : p0 <> []).
  { intros E. apply (lsum_nil_ne _ Hs). apply length_zero_iff_nil. rewrite Hql, <- Hp0l, E. reflexivity. }
  assert (Hnp0 : forall t, t < cn G0 -> nth t p0 0 = nrm2 (cr2 G0) (crow K G0 t) / s).
  { intros t Ht. rewrite Hp0. fold s. unfold s. rewrite nth_normalised. fold s. f_equal.
    unfold q, sqnorms. rewrite map_tab, nth_tab by auto. rewrite lsum_sq_nrm2. unfold crow at 1. now rewrite tab_length. }
  set (st0 := tab m1 (fun j => Ok (mk_rowst (crow K G0 (ch base j p0)) [ch base j p0] [p0]))) in *.
  apply rall_ok in Hrows as [HL HN]. rewrite (modes_length _ _ _ _ st0) in HL, HN by apply tab_length.
  split; [exact HL|]. intros j Hj.
  specialize (HN j (Err OtherError) rowst0 Hj). rewrite modes_nth in HN by (auto; apply tab_length).
  unfold st0 in HN. rewrite nth_tab in HN by auto.
  set (i0 := ch base j p0) in *.
  assert (Hi0 : i0 < cn G0) by (rewrite <- Hp0l; apply Hch; exact Hp0ne).
  destruct (row_chain_sq base m1 j Zt' (cr2 G0) (crow K G0 i0) (mk_rowst (crow K G0 i0) [i0] [p0]) 1%nat _
                Hc (tab_length _ _) eq_refl HO HN)
      as (idx & Pn & E1 & E2 & Hb & HLn & HF & Hprod & _).
  cbn [ridx rP app] in E1, E2. rewrite E1, E2.
  assert (Hmul : lprod K (along 0 (i0 :: idx) (p0 :: Pn)) * total2 (G0 :: Zt') = sq (get (G0 :: Zt') (i0 :: idx))).
  { cbn [along lprod fold_right]. fold (lprod K (along 0 idx Pn)). rewrite Hnp0 by auto. rewrite <- Hsv.
    change (get (G0 :: Zt') (i0 :: idx)) with (nth O (run (vstep [1] G0 i0) Zt' idx) 0).
    rewrite (vstep_one _ _ H1). rewrite <- Hprod.
    set (Mi := nrm2 (cr2 G0) (crow K G0 i0)). set (L' := lprod K (along 0 idx Pn)).
    transitivity (L' * ((Mi / s) * s)); [ring|]. rewrite div_mul_cancel by auto. ring. }
  unfold sq_row_ok. split; [|split; [|split; [|split; [|split]]]].
  - cbn [shape map]. constructor; auto.
  - simpl. now rewrite HLn.
  - constructor; [|exact HF]. rewrite Hp0. fold s. unfold s. now apply lsum_normalised.
  - rewrite <- Hsv. exact Hs.
  - exact Hmul.
  - apply mul_div_cancel; [rewrite <- Hsv; exact Hs | exact Hmul].
Qed.

(* the same statement about the tensor Y that was orthogonalised: Y = c * Z entrywise (c = 2^p of use_stab) *)
Lemma total2_scaled Y Zt c : shape Y = shape Zt ->
  (forall idx, inb (shape Zt) idx -> get Y idx = c * get Zt idx) -> total2 Y = (c * c) * total2 Zt.
Proof.
  intros Hsh HY. unfold total2. rewrite Hsh, <- msum_mul_l by auto. apply msum_ext. intros idx Hidx.
  rewrite HY by auto. unfold sq. ring.
Qed.
Theorem sq_row_ok_scaled Y Zt c idx Pj : shape Y = shape Zt ->
  (forall idx, inb (shape Zt) idx -> get Y idx = c * get Zt idx) ->
  sq_row_ok Zt idx Pj ->
  lprod K (along 0 idx Pj) * total2 Y = sq (get Y idx) /\
  (total2 Y <> 0 -> lprod K (along 0 idx Pj) = sq (get Y idx) / total2 Y).
Proof.
  intros Hsh HY (Hb & _ & _ & _ & Hm & _).
  assert (E : lprod K (along 0 idx Pj) * total2 Y = sq (get Y idx)).
  { rewrite (total2_scaled Y Zt c Hsh HY), HY by auto. unfold sq in *.
    transitivity ((c * c) * (lprod K (along 0 idx Pj) * total2 Zt)); [ring|]. rewrite Hm. unfold sq. ring. }
  split; [exact E|]. intros Hne. now apply mul_div_cancel.
Qed.

(* ---------- sample_square: the restart loop ---------- *)
Variable shufr : nat -> list (list nat) -> list (list nat).
Hypothesis Hshufr : forall c l, Permutation l (shufr c l).

Lemma take_m_ok {A} m (l : list A) r : take_m m l = Ok r -> r = firstn m l /\ length r = m.
Proof.
  unfold take_m. destruct (length (firstn m l) =? m) eqn:E; [|discriminate]. intros H; inversion H; subst.
  split; auto. now apply Nat.eqb_eq.
Qed.

(* one attempt as it is reported: (drawn rows, their probability vectors) *)
Definition attempt_ok (Zt : list (core T)) (att : list (list nat) * list (list (list T))) : Prop :=
  length (fst att) = length (snd att) /\
  forall j, j < length (fst att) -> sq_row_ok Zt (nth j (fst att) []) (nth j (snd att) []).

Lemma sq_draw_attempt base Zt m1 rows : chain 1 Zt 1 -> Forall row_orth (tl Zt) ->
  sq_draw K ch base Zt m1 = Ok rows ->
  attempt_ok Zt (map ridx rows, map rP rows) /\ Forall (inb (shape Zt)) (map ridx rows).
Proof.
  intros Hc HO H. destruct (sq_draw_spec _ _ _ _ Hc HO H) as [HL HR].
  assert (Hrow : forall j, j < m1 -> sq_row_ok Zt (nth j (map ridx rows) []) (nth j (map rP rows) [])).
  { intros j Hj. change (@nil nat) with (ridx rowst0). change (@nil (list T)) with (rP rowst0).
    rewrite !map_nth. now apply HR. }
  split.
  - split; cbn [fst snd]; [now rewrite !map_length|]. rewrite map_length, HL. exact Hrow.
  - apply Forall_forall. intros x Hx. apply (In_nth _ _ []) in Hx as (j & Hj & <-).
    rewrite map_length, HL in Hj. apply (Hrow j Hj).
Qed.

Theorem sq_loop_spec Zt m unique : chain 1 Zt 1 -> Forall row_orth (tl Zt) ->
  forall fuel base m_fact max_rep II atts,
  sq_loop K ch shufr fuel base Zt m unique m_fact max_rep = Ok (II, atts) ->
  length II = m /\ Forall (inb (shape Zt)) II /\ (unique = true -> NoDup II) /\
  atts <> [] /\ Forall (attempt_ok Zt) atts /\
  (forall x, In x II -> In x (fst (last atts ([], [])))).
Proof.
  intros Hc HO. induction fuel as [|fuel IH]; intros base m_fact max_rep II atts H; [discriminate|].
  cbn [sq_loop] in H. apply rbind_ok in H as (rows & Hd & H).
  destruct (sq_draw_attempt _ _ _ _ Hc HO Hd) as [Hatt Hinb].
  set (I0 := map ridx rows) in *. set (att := (I0, map rP rows)) in *.
  destruct unique.
  - destruct (length (uniq_rows I0) <? m) eqn:Elt.
    + destruct ((max_rep <? 0)%Z || (1000000 <? Z.of_nat m_fact)%Z)%bool; [discriminate|].
      apply rmap_ok in H as ([I1 atts1] & Hrec & E). inversion E; subst II atts. clear E. cbn [fst snd].
      destruct (IH _ _ _ _ _ Hrec) as (A1 & A2 & A3 & A4 & A5 & A6).
      repeat split; auto; [discriminate|].
      intros x Hx. destruct atts1 as [|a1 atts1]; [congruence|]. apply A6 in Hx. exact Hx.
    + apply rmap_ok in H as (I' & Ht & E). inversion E; subst II atts. clear E.
      apply take_m_ok in Ht as [-> HLm].
      assert (Hin : forall x, In x (firstn m (shufr O (uniq_rows I0))) -> In x I0).
      { intros x Hx. apply firstn_in in Hx. apply (Permutation_in _ (Permutation_sym (Hshufr O _))) in Hx.
        exact (proj1 (uniq_rows_in _ _) Hx). }
      repeat split; auto; try discriminate.
      * apply Forall_forall. intros x Hx. rewrite Forall_forall in Hinb. apply Hinb, Hin, Hx.
      * intros _. apply firstn_nodup. eapply Permutation_NoDup; [apply Hshufr|]. apply uniq_rows_nodup.
  - apply rmap_ok in H as (I' & Ht & E). inversion E; subst II atts. clear E.
    apply take_m_ok in Ht as [-> HLm].
    repeat split; auto; try discriminate.
    + apply Forall_forall. intros x Hx. apply firstn_in in Hx. rewrite Forall_forall in Hinb. now apply Hinb.
    + intros x Hx. cbn. now apply firstn_in in Hx.
Qed.

(* the fuel handed to the loop is enough: the out-of-fuel marker is never returned *)
Lemma modes_no_oof base m (steps : list stepT) k st : length st = m ->
  (forall stp c s, In stp steps -> no_oof (stp c s)) -> Forall no_oof st -> Forall no_oof (modes base m k steps st).
Proof.
  intros L Hs Hst. apply Forall_forall. intros x Hx. apply (In_nth _ _ (Err OtherError)) in Hx as (j & Hj & <-).
  rewrite modes_length in Hj by auto. rewrite modes_nth by auto. apply walk_no_oof; auto.
  rewrite Forall_forall in Hst. apply Hst. apply nth_In. lia.
Qed.
Lemma sq_draw_no_oof base Zt m1 : no_oof (sq_draw K ch base Zt m1).
Proof.
  unfold sq_draw. destruct Zt as [|G0 Zt']; [discriminate|].
  apply rbind_no_oof; [apply normalise_no_oof|]. intros p0. apply rall_no_oof. apply modes_no_oof.
  - apply tab_length.
  - intros stp c s Hin. apply in_map_iff in Hin as (G & <- & _). unfold sq_row_step.
    apply rbind_no_oof; [apply normalise_no_oof|]. intros; discriminate.
  - apply Forall_forall. intros x Hx. apply in_tab in Hx as (j & _ & ->). discriminate.
Qed.
Lemma rmap_no_oof {A B} (f : A -> B) r : no_oof r -> no_oof (rmap f r).
Proof. unfold no_oof. destruct r; simpl; [discriminate|]. intros H E. inversion E; subst. now apply H. Qed.
Lemma take_m_no_oof {A} m (l : list A) : no_oof (take_m m l).
Proof. unfold take_m, no_oof. destruct (length (firstn m l) =? m); discriminate. Qed.
Lemma sq_loop_no_oof Zt m unique : forall fuel base m_fact max_rep,
  (1 <= fuel)%nat -> (max_rep + 2 <= Z.of_nat fuel)%Z ->
  no_oof (sq_loop K ch shufr fuel base Zt m unique m_fact max_rep).
Proof.
  induction fuel as [|fuel IH]; intros base m_fact max_rep H1 H2; [lia|].
  cbn [sq_loop]. apply rbind_no_oof; [apply sq_draw_no_oof|]. intros rows.
  destruct unique; [|apply rmap_no_oof, take_m_no_oof].
  destruct (length (uniq_rows (map ridx rows)) <? m); [|apply rmap_no_oof, take_m_no_oof].
  destruct (max_rep <? 0)%Z eqn:E; cbn [orb]; [discriminate|].
  destruct (1000000 <? Z.of_nat m_fact)%Z; [discriminate|].
  apply Z.ltb_ge in E. apply rmap_no_oof, IH; lia.
Qed.
Theorem sample_square_terminates Zt m unique m_fact max_rep :
  sample_square K ch shufr Zt m unique m_fact max_rep <> Err OutOfFuel.
Proof. unfold sample_square. apply sq_loop_no_oof; lia. Qed.

Theorem sample_square_spec Zt m unique m_fact max_rep II atts : chain 1 Zt 1 -> Forall row_orth (tl Zt) ->
  sample_square K ch shufr Zt m unique m_fact max_rep = Ok (II, atts) ->
  length II = m /\ Forall (inb (shape Zt)) II /\ (unique = true -> NoDup II) /\
  atts <> [] /\ Forall (attempt_ok Zt) atts /\
  (forall x, In x II -> In x (fst (last atts ([], [])))).
Proof. intros Hc HO H. exact (sq_loop_spec Zt m unique Hc HO _ _ _ _ _ _ H). Qed.


(* ====================================================================================================== *)
(* ---------- sample returns (progress): unsert = 0, total <> 0, the generator never draws a zero-probability index ---------- *)
Hypothesis Hpos : forall c t p, lsum p = 1 -> nth (ch c t p) p 0 <> 0.

Lemma normalise_intro p : lsum p <> 0 -> normalise K p = Ok (map (fun x => x / lsum p) p).
Proof.
  intros H. unfold normalise. destruct (oeqb K (lsum p) 0) eqn:E; [|reflexivity].
  apply Heqb in E. contradiction.
Qed.
Lemma rall_intro {A} (l : list (result A)) : (forall x, In x l -> exists a, x = Ok a) -> exists rows, rall l = Ok rows.
Proof.
  induction l as [|x l IH]; intros H; simpl; [eauto|].
  destruct (H x (or_introl eq_refl)) as (a & ->). destruct IH as (rows & ->); [intros; apply H; now right|].
  simpl. eauto.
Qed.

Lemma walk_succeeds base m j : forall Ys r v s0 k,
  chain r Ys 1 -> length v = r -> rv s0 = v -> nn_tail v Ys ->
  (Ys <> [] -> dot r v (hd [] (phis K Ys)) <> 0) ->
  exists s1, walk base m j k (zipw (row_step K ch) Ys (tl (phis K Ys))) (Ok s0) = Ok s1.
Proof.
  induction Ys as [|G Ys IH]; intros r v s0 k Hc L Hv Hn Hne.
  - simpl. eauto.
  - destruct Hc as [Hr Hc]. rewrite tl_phis. rewrite (phis_cons Ys). cbn [zipw walk].
    set (w := hd [] (phis K Ys)) in *. cbn [rbind]. rewrite row_step_eq. rewrite Hv.
    assert (Hclip : clip K (pvec K v G w) = pvec K v G w) by (apply clip_nn, pvec_nn; auto).
    rewrite Hclip.
    assert (Hs : lsum (pvec K v G w) <> 0).
    { rewrite lsum_pvec. unfold w. rewrite <- hd_phis. subst r. apply Hne. discriminate. }
    rewrite (normalise_intro _ Hs). cbn [rbind].
    set (s := lsum (pvec K v G w)) in *. set (p := map (fun x => x / s) (pvec K v G w)) in *.
    assert (Hpl : length p = cn G) by (unfold p; rewrite map_length; apply pvec_length).
    assert (Hpne : p <> []).
    { intros E. apply (lsum_nil_ne _ Hs). apply length_zero_iff_nil. rewrite pvec_length.
      rewrite <- Hpl, E. reflexivity. }
    set (i := ch (callno base m k j) O p) in *.
    assert (Hi : i < cn G) by (rewrite <- Hpl; apply Hch; exact Hpne).
    assert (Hp1 : lsum p = 1) by (unfold p, s; now apply lsum_normalised).
    assert (Hnz : dot (cr2 G) (vstep v G i) w <> 0).
    { intros Z. apply (Hpos (callno base m k j) O p Hp1). fold i. unfold p, s. rewrite nth_normalised.
      rewrite nth_pvec by auto. rewrite Z. apply div_0_l. }
    apply (IH (cr2 G) (vstep v G i)); auto.
    + apply vstep_length.
    + intros idx Hidx. apply (Hn (i :: idx)). constructor; auto.
Qed.

Theorem sample_succeeds Y m : Y <> [] ->
  chain 1 Y 1 -> (forall idx, inb (shape Y) idx -> nn (get Y idx)) -> total Y <> 0 ->
  exists II P, sample K ch Y m 0 = Ok (II, P).
Proof.
  intros HY Hc Hnn Ht. destruct Y as [|G0 Y']; [congruence|]. destruct Hc as [H1 Hc].
  unfold sample. set (w1 := hd [] (phis K Y')). rewrite (pvec0_pvec _ _ H1).
  set (pv := pvec K [1] G0 w1).
  assert (Hpv : forall i, i < cn G0 -> nth i pv 0 = marg0 (G0 :: Y') i) by (intros; now apply pvec1_marg0).
  assert (Hm0nn : forall i, i < cn G0 -> nn (marg0 (G0 :: Y') i)).
  { intros i Hi. unfold marg0. apply msum_nn. intros idx Hidx. apply Hnn. constructor; auto. }
  assert (Hclip : clip K (map (fun x => x + 0) pv) = map (fun x => x + 0) pv).
  { apply clip_nn. apply Forall_forall. intros x Hx. apply in_map_iff in Hx as (y & <- & Hy).
    apply Hnn_add; [|exact Hnn0]. unfold pv, pvec in Hy. apply in_tab in Hy as (i & Hi & ->).
    specialize (Hpv i Hi). unfold pv, pvec in Hpv. rewrite nth_tab in Hpv by auto. rewrite Hpv. now apply Hm0nn. }
  rewrite Hclip. set (q := map (fun x => x + 0) pv) in *.
  assert (Hsv : lsum q = total (G0 :: Y')).
  { unfold q. rewrite lsum_map_add_const. unfold pv, w1. rewrite total_dot by auto. rewrite bsum_0 by auto. ring. }
  assert (Hs : lsum q <> 0) by (now rewrite Hsv).
  rewrite (normalise_intro _ Hs). cbn [rbind]. set (p0 := map (fun x => x / lsum q) q).
  assert (Hql : length q = cn G0) by (unfold q; rewrite map_length; apply pvec_length).
  assert (Hp0l : length p0 = cn G0) by (unfold p0; rewrite map_length; exact Hql).
  assert (Hp0ne : p0 <> []).
  { intros E. apply (lsum_nil_ne _ Hs). apply length_zero_iff_nil. rewrite Hql, <- Hp0l, E. reflexivity. }
  assert (Hp01 : lsum p0 = 1) by (unfold p0; now apply lsum_normalised).
  set (st0 := tab m (fun j => Ok (mk_rowst (crow K G0 (ch O j p0)) [ch O j p0] [p0]))).
  destruct (rall_intro (modes O m 1 (zipw (row_step K ch) Y' (tl (phis K Y'))) st0)) as (rows & Hrows).
  2:{ rewrite Hrows. cbn [rmap]. eauto. }
  intros x Hx. apply (In_nth _ _ (Err OtherError)) in Hx as (j & Hj & <-).
  rewrite modes_length in Hj by apply tab_length. rewrite modes_nth by (auto; apply tab_length).
  unfold st0. rewrite nth_tab by auto. set (i0 := ch O j p0).
  assert (Hi0 : i0 < cn G0) by (rewrite <- Hp0l; apply Hch; exact Hp0ne).
  apply (walk_succeeds O m j Y' (cr2 G0) (crow K G0 i0)); auto.
  - apply tab_length.
  - intros idx Hidx. rewrite <- (vstep_one _ _ H1). apply (Hnn (i0 :: idx)). constructor; auto.
  - intros _. rewrite <- (vstep_one _ _ H1). rewrite <- (nth_pvec _ _ _ _ Hi0). fold w1 pv.
    intros Z. apply (Hpos O j p0 Hp01). fold i0. unfold p0. rewrite nth_normalised. unfold q.
    rewrite (nth_map_in _ _ _ _ 0) by (unfold pv; now rewrite pvec_length). rewrite Z.
    replace (0 + 0) with 0 by ring. apply div_0_l.
Qed.

(* ====================================================================================================== *)
(* ---------- every vector handed to choice has non-negative entries (any tensor: np.maximum(p, 0) / squares) ---------- *)
Hypothesis Hnn_div : forall a b, nn a -> nn b -> nn (a / b).
Hypothesis Hnn_sq : forall a, nn (a * a).

Lemma clip_all_nn p : Forall nn (clip K p).
Proof.
  unfold clip. apply Forall_forall. intros y Hy. apply in_map_iff in Hy as (x & <- & _).
  destruct (oleb K 0 x) eqn:E; [exact E | exact Hnn0].
Qed.
Lemma lsum_nn p : Forall nn p -> nn (lsum p).
Proof. induction 1; simpl; [exact Hnn0 | now apply Hnn_add]. Qed.
Lemma normalise_nn p q : Forall nn p -> normalise K p = Ok q -> Forall nn q.
Proof.
  intros Hp H. apply normalise_ok in H as [_ ->]. apply Forall_forall. intros y Hy.
  apply in_map_iff in Hy as (x & <- & Hx). apply Hnn_div; [|now apply lsum_nn].
  rewrite Forall_forall in Hp. now apply Hp.
Qed.
Lemma sqnorms_nn rows : Forall nn (sqnorms K rows).
Proof.
  unfold sqnorms. apply Forall_forall. intros y Hy. apply in_map_iff in Hy as (qv & <- & _).
  apply lsum_nn. apply Forall_forall. intros z Hz. apply in_map_iff in Hz as (x & <- & _). apply Hnn_sq.
Qed.

Definition allnn (P : list (list T)) : Prop := Forall (Forall nn) P.
Definition step_nn (stp : stepT) : Prop := forall c s s', stp c s = Ok s' -> allnn (rP s) -> allnn (rP s').
Lemma row_step_nn G w : step_nn (row_step K ch G w).
Proof.
  intros c s s' H Hs. unfold row_step in H. apply rbind_ok in H as (p & Hp & E). inversion E; subst s'. cbn [rP].
  apply Forall_app. split; [exact Hs|]. constructor; [|constructor].
  eapply normalise_nn; [|exact Hp]. apply clip_all_nn.
Qed.
Lemma sq_row_step_nn G : step_nn (sq_row_step K ch G).
Proof.
  intros c s s' H Hs. unfold sq_row_step in H. apply rbind_ok in H as (p & Hp & E). inversion E; subst s'. cbn [rP].
  apply Forall_app. split; [exact Hs|]. constructor; [|constructor].
  eapply normalise_nn; [|exact Hp]. apply sqnorms_nn.
Qed.
Lemma walk_nn base m j : forall (steps : list stepT) k s0 s1, Forall step_nn steps ->
  walk base m j k steps (Ok s0) = Ok s1 -> allnn (rP s0) -> allnn (rP s1).
Proof.
  induction steps as [|stp steps IH]; intros k s0 s1 HF Hw H0; simpl in Hw.
  - now inversion Hw; subst.
  - inversion HF as [|? ? Hstp HF']; subst. cbn [rbind] in Hw.
    destruct (stp (callno base m k j) s0) as [s'|e] eqn:E; [|now rewrite walk_err in Hw].
    apply (IH _ _ _ HF' Hw). now apply (Hstp _ _ _ E).
Qed.
Lemma zipw_Forall {A B C} (P : C -> Prop) (f : A -> B -> C) l1 : forall l2,
  (forall x y, P (f x y)) -> Forall P (zipw f l1 l2).
Proof. induction l1 as [|x l1 IH]; intros [|y l2] H; simpl; constructor; auto. Qed.

Theorem sample_probs_nn Y m u II P : sample K ch Y m u = Ok (II, P) -> Forall allnn P.
Proof.
  intros H. destruct Y as [|G0 Y']; [discriminate|]. unfold sample in H.
  apply rbind_ok in H as (p0 & Hp0 & H). apply normalise_nn in Hp0; [|apply clip_all_nn].
  apply rmap_ok in H as (rows & Hrows & E). inversion E; subst II P. clear E.
  set (st0 := tab m (fun j => Ok (mk_rowst (crow K G0 (ch O j p0)) [ch O j p0] [p0]))) in *.
  apply rall_ok in Hrows as [HL HN]. rewrite (modes_length _ _ _ _ st0) in HL, HN by apply tab_length.
  apply Forall_forall. intros x Hx. apply (In_nth _ _ []) in Hx as (j & Hj & <-).
  rewrite map_length, HL in Hj.
  specialize (HN j (Err OtherError) rowst0 Hj). rewrite modes_nth in HN by (auto; apply tab_length).
  unfold st0 in HN. rewrite nth_tab in HN by auto.
  change (@nil (list T)) with (rP rowst0). rewrite map_nth.
  eapply walk_nn; [|exact HN|].
  - apply zipw_Forall. intros; apply row_step_nn.
  - cbn [rP]. constructor; [exact Hp0|constructor].
Qed.

Lemma sq_draw_probs_nn base Zt m1 rows : sq_draw K ch base Zt m1 = Ok rows -> Forall allnn (map rP rows).
Proof.
  intros H. destruct Zt as [|G0 Zt']; [discriminate|]. unfold sq_draw in H.
  apply rbind_ok in H as (p0 & Hp0 & Hrows). apply normalise_nn in Hp0; [|apply sqnorms_nn].
  set (st0 := tab m1 (fun j => Ok (mk_rowst (crow K G0 (ch base j p0)) [ch base j p0] [p0]))) in *.
  apply rall_ok in Hrows as [HL HN]. rewrite (modes_length _ _ _ _ st0) in HL, HN by apply tab_length.
  apply Forall_forall. intros x Hx. apply (In_nth _ _ []) in Hx as (j & Hj & <-).
  rewrite map_length, HL in Hj.
  specialize (HN j (Err OtherError) rowst0 Hj). rewrite modes_nth in HN by (auto; apply tab_length).
  unfold st0 in HN. rewrite nth_tab in HN by auto.
  change (@nil (list T)) with (rP rowst0). rewrite map_nth.
  eapply walk_nn; [|exact HN|].
  - apply Forall_forall. intros stp Hin. apply in_map_iff in Hin as (G & <- & _). apply sq_row_step_nn.
  - cbn [rP]. constructor; [exact Hp0|constructor].
Qed.
Theorem square_probs_nn Zt m unique : forall fuel base m_fact max_rep II atts,
  sq_loop K ch shufr fuel base Zt m unique m_fact max_rep = Ok (II, atts) ->
  Forall (fun att => Forall allnn (snd att)) atts.
Proof.
  induction fuel as [|fuel IH]; intros base m_fact max_rep II atts H; [discriminate|].
  cbn [sq_loop] in H. apply rbind_ok in H as (rows & Hd & H). apply sq_draw_probs_nn in Hd.
  destruct unique.
  - destruct (length (uniq_rows (map ridx rows)) <? m).
    + destruct ((max_rep <? 0)%Z || (1000000 <? Z.of_nat m_fact)%Z)%bool; [discriminate|].
      apply rmap_ok in H as ([I1 atts1] & Hrec & E). inversion E; subst II atts. clear E. cbn [snd].
      constructor; [exact Hd|]. exact (IH _ _ _ _ _ Hrec).
    + apply rmap_ok in H as (I' & _ & E). inversion E; subst. constructor; [exact Hd|constructor].
  - apply rmap_ok in H as (I' & _ & E). inversion E; subst. constructor; [exact Hd|constructor].
Qed.

(* ====================================================================================================== *)
(* ---------- sample_square returns or raises ValueError (progress), generator never draws a zero-probability index ---------- *)
Lemma walk_sq_succeeds base m j : forall Ys r v s0 k,
  chain r Ys 1 -> length v = r -> rv s0 = v -> Forall row_orth Ys -> (Ys <> [] -> nrm2 r v <> 0) ->
  exists s1, walk base m j k (map (sq_row_step K ch) Ys) (Ok s0) = Ok s1.
Proof.
  induction Ys as [|G Ys IH]; intros r v s0 k Hc L Hv HO Hne.
  - simpl. eauto.
  - destruct Hc as [Hr Hc]. inversion HO as [|? ? HG HO']; subst. cbn [map walk rbind].
    rewrite sq_row_step_eq. set (v := rv s0) in *.
    assert (Hsum : lsum (sqnorms K (qrows v G)) = nrm2 (cr1 G) v)
      by (rewrite lsum_sqnorms_qrows; now apply nrm2_vstep_sum).
    assert (Hs : lsum (sqnorms K (qrows v G)) <> 0) by (rewrite Hsum; apply Hne; discriminate).
    rewrite (normalise_intro _ Hs). cbn [rbind].
    set (s := lsum (sqnorms K (qrows v G))) in *. set (p := map (fun x => x / s) (sqnorms K (qrows v G))) in *.
    assert (Hpl : length p = cn G) by (unfold p; rewrite map_length, sqnorms_length; apply tab_length).
    assert (Hpne : p <> []).
    { intros E. apply (lsum_nil_ne _ Hs). apply length_zero_iff_nil.
      rewrite sqnorms_length. unfold qrows. rewrite tab_length, <- Hpl, E. reflexivity. }
    set (i := ch (callno base m k j) O p) in *.
    assert (Hi : i < cn G) by (rewrite <- Hpl; apply Hch; exact Hpne).
    assert (Hp1 : lsum p = 1) by (unfold p, s; now apply lsum_normalised).
    assert (Eq : nth i (qrows v G) [] = vstep v G i) by (unfold qrows; now rewrite nth_tab).
    rewrite Eq.
    apply (IH (cr2 G) (vstep v G i)); auto; [apply vstep_length|].
    intros _ Z. apply (Hpos (callno base m k j) O p Hp1). fold i. unfold p, s. rewrite nth_normalised.
    rewrite nth_sqnorms_qrows by auto. rewrite Z. apply div_0_l.
Qed.

Lemma sq_draw_succeeds base Zt m1 : Zt <> [] -> chain 1 Zt 1 -> Forall row_orth (tl Zt) -> total2 Zt <> 0 ->
  exists rows, sq_draw K ch base Zt m1 = Ok rows.
Proof.
  intros HZ Hc HO Ht. destruct Zt as [|G0 Zt']; [congruence|]. destruct Hc as [H1 Hc]. cbn [tl] in HO.
  unfold sq_draw. set (q := sqnorms K (tab (cn G0) (crow K G0))).
  assert (Hsv : lsum q = total2 (G0 :: Zt')) by (now apply total2_first).
  assert (Hs : lsum q <> 0) by (now rewrite Hsv).
  rewrite (normalise_intro _ Hs). cbn [rbind]. set (p0 := map (fun x => x / lsum q) q).
  assert (Hql : length q = cn G0) by (unfold q; rewrite sqnorms_length; apply tab_length).
  assert (Hp0l : length p0 = cn G0) by (unfold p0; rewrite map_length; exact Hql).
  assert (Hp0ne : p0 <> []).
  { intros E. apply (lsum_nil_ne _ Hs). apply length_zero_iff_nil. rewrite Hql, <- Hp0l, E. reflexivity. }
  assert (Hp01 : lsum p0 = 1) by (unfold p0; now apply lsum_normalised).
  set (st0 := tab m1 (fun j => Ok (mk_rowst (crow K G0 (ch base j p0)) [ch base j p0] [p0]))).
  apply rall_intro. intros x Hx. apply (In_nth _ _ (Err OtherError)) in Hx as (j & Hj & <-).
  rewrite modes_length in Hj by apply tab_length. rewrite modes_nth by (auto; apply tab_length).
  unfold st0. rewrite nth_tab by auto. set (i0 := ch base j p0).
  assert (Hi0 : i0 < cn G0) by (rewrite <- Hp0l; apply Hch; exact Hp0ne).
  apply (walk_sq_succeeds base m1 j Zt' (cr2 G0) (crow K G0 i0)); auto; [apply tab_length|].
  intros _ Z. apply (Hpos base j p0 Hp01). fold i0. unfold p0. rewrite nth_normalised.
  unfold q, sqnorms. rewrite map_tab, nth_tab by auto. rewrite lsum_sq_nrm2. unfold crow at 1. rewrite tab_length.
  rewrite Z. apply div_0_l.
Qed.

Definition ok_or_value_error {A} (r : result A) : Prop := (exists x, r = Ok x) \/ r = Err ValueError \/ r = Err OutOfFuel.
Lemma take_m_outcome {A B} m (l : list A) (f : list A -> B) : ok_or_value_error (rmap f (take_m m l)).
Proof. unfold take_m. destruct (length (firstn m l) =? m); simpl; [left; eauto | right; now left]. Qed.
Lemma sq_loop_outcome Zt m unique : Zt <> [] -> chain 1 Zt 1 -> Forall row_orth (tl Zt) -> total2 Zt <> 0 ->
  forall fuel base m_fact max_rep, ok_or_value_error (sq_loop K ch shufr fuel base Zt m unique m_fact max_rep).
Proof.
  intros HZ Hc HO Ht. induction fuel as [|fuel IH]; intros base m_fact max_rep; [right; now right|].
  cbn [sq_loop]. destruct (sq_draw_succeeds base Zt (if unique then (m_fact * m)%nat else m) HZ Hc HO Ht) as (rows & ->).
  cbn [rbind]. destruct unique; [|apply take_m_outcome].
  destruct (length (uniq_rows (map ridx rows)) <? m); [|apply take_m_outcome].
  destruct ((max_rep <? 0)%Z || (1000000 <? Z.of_nat m_fact)%Z)%bool; [right; now left|].
  destruct (IH (base + 1 + (length Zt - 1) * (m_fact * m))%nat (2 * m_fact)%nat (max_rep - 1)%Z) as [(x & ->)|[->| ->]];
    simpl; [left; eauto | right; now left | right; now right].
Qed.
Theorem sample_square_outcome Zt m unique m_fact max_rep :
  Zt <> [] -> chain 1 Zt 1 -> Forall row_orth (tl Zt) -> total2 Zt <> 0 ->
  (exists II atts, sample_square K ch shufr Zt m unique m_fact max_rep = Ok (II, atts)) \/
  sample_square K ch shufr Zt m unique m_fact max_rep = Err ValueError.
Proof.
  intros HZ Hc HO Ht. pose proof (sample_square_terminates Zt m unique m_fact max_rep) as Hno.
  unfold sample_square in *.
  destruct (sq_loop_outcome Zt m unique HZ Hc HO Ht (S (Z.to_nat (max_rep + 1))) O m_fact max_rep) as [([II atts] & E)|[E|E]].
  - left. eauto.
  - now right.
  - contradiction.
Qed.

End SampleP.

(* ---------- packaging of the laws, and their instance at Qc (non-vacuity; the correspondence runs at Qc) ---------- *)
Definition field_laws {T} (K : ops T) : Prop :=
  (forall a b, odiv K a b = omul K a (odiv K (o1 K) b)) /\
  (forall b, b <> o0 K -> omul K b (odiv K (o1 K) b) = o1 K) /\
  (forall a b, oeqb K a b = true <-> a = b).
Definition order_laws {T} (K : ops T) : Prop :=
  nn K (o0 K) /\ (forall a b, nn K a -> nn K b -> nn K (oadd K a b)).
(* rand.choice(n, p=p) returns an index below n = len(p) *)
Definition choice_ok {T} (ch : nat -> nat -> list T -> nat) : Prop :=
  forall c t p, p <> [] -> ch c t p < length p.

Theorem sample_chain {T} (K : ops T) : rng K -> field_laws K -> order_laws K ->
  forall ch, choice_ok ch -> forall Y m u II P,
  chain 1 Y 1 -> (forall idx, inb (shape Y) idx -> nn K (get K Y idx)) -> nn K u ->
  sample K ch Y m u = Ok (II, P) ->
  length II = m /\ length P = m /\
  forall j, j < m ->
    let idx := nth j II [] in let Pj := nth j P [] in
    inb (shape Y) idx /\ length Pj = length Y /\ Forall (fun p => lsum K p = o1 K) Pj /\
    omul K (lprod K (along (o0 K) idx Pj)) (marg0 K Y (hd O idx)) =
      omul K (odiv K (oadd K (marg0 K Y (hd O idx)) u)
                     (oadd K (total K Y) (bsum K (hd O (shape Y)) (fun _ => u)))) (get K Y idx) /\
    (u = o0 K -> lprod K (along (o0 K) idx Pj) = odiv K (get K Y idx) (total K Y)) /\
    (tl Y <> [] -> marg0 K Y (hd O idx) <> o0 K).
Proof.
  intros Rth (F1 & F2 & F3) (O1 & O2) ch Hch. exact (sample_spec K Rth F1 F2 F3 O1 O2 ch Hch).
Qed.

From Coq Require Import QArith Qcanon.
Local Open Scope nat_scope.
Lemma OQc_field_laws : field_laws OQc.
Proof.
  repeat split.
  - intros a b. cbn. unfold Qcdiv. ring.
  - intros b Hb. cbn. unfold Qcdiv. rewrite Qcmult_1_l. now apply Qcmult_inv_r.
  - cbn. unfold Qc_eqb. intros H. apply Qeq_bool_iff in H. now apply Qc_is_canon.
  - cbn. unfold Qc_eqb. intros ->. apply Qeq_bool_iff. reflexivity.
Qed.
Lemma Qc_nn_iff (a : Qc) : nn OQc a <-> (0 <= a)%Qc.
Proof.
  unfold nn. cbn. unfold Qc_leb. change (Q2Qc 0) with 0%Qc.
  unfold Qcle. rewrite Qle_alt. change (0 ?= a)%Qc with (0%Qc ?= a)%Q.
  destruct (0%Qc ?= a)%Q; split; intros H; try discriminate; try reflexivity; try (intros E; discriminate).
  now contradiction H.
Qed.
Lemma OQc_order_laws : order_laws OQc.
Proof.
  split.
  - apply Qc_nn_iff. apply Qcle_refl.
  - intros a b Ha Hb. apply Qc_nn_iff in Ha, Hb. apply Qc_nn_iff. cbn.
    replace 0%Qc with (0 + 0)%Qc by ring. now apply Qcplus_le_compat.
Qed.

(* ---------- closed forms of the remaining theorems ---------- *)
Definition shuffle_ok (shufr : nat -> list (list nat) -> list (list nat)) : Prop :=
  forall c l, Permutation l (shufr c l).

Theorem sample_in_bounds {T} (K : ops T) : field_laws K -> forall ch, choice_ok ch ->
  forall Y m u II P, sample K ch Y m u = Ok (II, P) -> length II = m /\ Forall (inb (shape Y)) II.
Proof. intros (_ & _ & F3) ch Hch. exact (sample_bounds K F3 ch Hch). Qed.

Theorem square_chain {T} (K : ops T) : rng K -> field_laws K -> forall ch, choice_ok ch ->
  forall shufr, shuffle_ok shufr -> forall Zt m unique m_fact max_rep II atts,
  chain 1 Zt 1 -> Forall (row_orth K) (tl Zt) ->
  sample_square K ch shufr Zt m unique m_fact max_rep = Ok (II, atts) ->
  length II = m /\ Forall (inb (shape Zt)) II /\ (unique = true -> NoDup II) /\
  atts <> [] /\ Forall (attempt_ok K Zt) atts /\
  (forall x, In x II -> In x (fst (last atts ([], [])))).
Proof. intros Rth (F1 & F2 & F3) ch Hch shufr Hsh. exact (sample_square_spec K Rth F1 F2 F3 ch Hch shufr Hsh). Qed.

Theorem square_chain_scaled {T} (K : ops T) : rng K -> field_laws K ->
  forall Y Zt c idx Pj, shape Y = shape Zt ->
  (forall idx0, inb (shape Zt) idx0 -> get K Y idx0 = omul K c (get K Zt idx0)) ->
  sq_row_ok K Zt idx Pj ->
  omul K (lprod K (along (o0 K) idx Pj)) (total2 K Y) = sq K (get K Y idx) /\
  (total2 K Y <> o0 K -> lprod K (along (o0 K) idx Pj) = odiv K (sq K (get K Y idx)) (total2 K Y)).
Proof. intros Rth (F1 & F2 & F3). exact (sq_row_ok_scaled K Rth F1 F2). Qed.


(* progress: with unsert = 0 and a generator that never returns an index of probability zero, sample returns *)
Definition choice_pos {T} (K : ops T) (ch : nat -> nat -> list T -> nat) : Prop :=
  forall c t p, lsum K p = o1 K -> nth (ch c t p) p (o0 K) <> o0 K.
Theorem sample_returns {T} (K : ops T) : rng K -> field_laws K -> order_laws K ->
  forall ch, choice_ok ch -> choice_pos K ch -> forall Y m, Y <> [] ->
  chain 1 Y 1 -> (forall idx, inb (shape Y) idx -> nn K (get K Y idx)) -> total K Y <> o0 K ->
  exists II P, sample K ch Y m (o0 K) = Ok (II, P).
Proof.
  intros Rth (F1 & F2 & F3) (O1 & O2) ch Hch Hpos. exact (sample_succeeds K Rth F1 F2 F3 O1 O2 ch Hch Hpos).
Qed.

(* a generator meeting both contracts exists: the first index whose probability is not zero *)
Fixpoint first_nz' {T} (K : ops T) (p : list T) : nat :=
  match p with [] => O | x :: p' => if oeqb K x (o0 K) then S (first_nz' K p') else O end.
Definition first_nz {T} (K : ops T) (p : list T) : nat :=
  if first_nz' K p <? length p then first_nz' K p else O.
Lemma first_nz_spec {T} (K : ops T) : rng K -> field_laws K -> forall p,
  first_nz' K p <= length p /\ (first_nz' K p < length p -> nth (first_nz' K p) p (o0 K) <> o0 K) /\
  (first_nz' K p = length p -> lsum K p = o0 K).
Proof.
  intros Rth (_ & _ & F3) p. induction p as [|x p (I1 & I2 & I3)]; simpl.
  - repeat split; auto. intros; lia.
  - destruct (oeqb K x (o0 K)) eqn:E.
    + apply F3 in E. subst x. repeat split; [lia| |].
      * intros H. apply I2. lia.
      * intros H. rewrite I3 by lia. apply (Radd_0_l Rth).
    + repeat split; [lia| |intros; lia]. intros _ Z. subst x.
      assert (oeqb K (o0 K) (o0 K) = true) by (now apply F3). congruence.
Qed.
Lemma first_nz_contract {T} (K : ops T) : rng K -> field_laws K -> o1 K <> o0 K ->
  choice_ok (fun _ _ : nat => first_nz K) /\ choice_pos K (fun _ _ : nat => first_nz K).
Proof.
  intros Rth FL H10. split.
  - intros c t p Hp. unfold first_nz. destruct (first_nz' K p <? length p) eqn:E.
    + now apply Nat.ltb_lt.
    + destruct p; [congruence|simpl; lia].
  - intros c t p Hs. destruct (first_nz_spec K Rth FL p) as (I1 & I2 & I3). unfold first_nz.
    destruct (first_nz' K p <? length p) eqn:E.
    + apply I2. now apply Nat.ltb_lt.
    + apply Nat.ltb_ge in E. rewrite I3 in Hs by lia. congruence.
Qed.


(* every vector handed to choice has non-negative entries: any tensor, any generator *)
Definition order_laws2 {T} (K : ops T) : Prop :=
  order_laws K /\ (forall a b, nn K a -> nn K b -> nn K (odiv K a b)) /\ (forall a, nn K (omul K a a)).
Theorem sample_probs_nonneg {T} (K : ops T) : field_laws K -> order_laws2 K ->
  forall ch Y m u II P, sample K ch Y m u = Ok (II, P) -> Forall (Forall (Forall (nn K))) P.
Proof. intros (_ & _ & F3) ((O1 & O2) & O3 & _) ch. exact (sample_probs_nn K F3 O1 O2 ch O3). Qed.
Theorem square_probs_nonneg {T} (K : ops T) : field_laws K -> order_laws2 K ->
  forall ch shufr Zt m unique m_fact max_rep II atts,
  sample_square K ch shufr Zt m unique m_fact max_rep = Ok (II, atts) ->
  Forall (fun att => Forall (Forall (Forall (nn K))) (snd att)) atts.
Proof.
  intros (_ & _ & F3) ((O1 & O2) & O3 & O4) ch shufr Zt m unique m_fact max_rep II atts H.
  exact (square_probs_nn K F3 O1 O2 ch shufr O3 O4 Zt m unique _ _ _ _ _ _ H).
Qed.


Theorem square_returns {T} (K : ops T) : rng K -> field_laws K ->
  forall ch, choice_ok ch -> choice_pos K ch -> forall shufr Zt m unique m_fact max_rep,
  Zt <> [] -> chain 1 Zt 1 -> Forall (row_orth K) (tl Zt) -> total2 K Zt <> o0 K ->
  (exists II atts, sample_square K ch shufr Zt m unique m_fact max_rep = Ok (II, atts)) \/
  sample_square K ch shufr Zt m unique m_fact max_rep = Err ValueError.
Proof.
  intros Rth (F1 & F2 & F3) ch Hch Hpos shufr. exact (sample_square_outcome K Rth F1 F2 F3 ch Hch shufr Hpos).
Qed.

(* ---------- non-vacuity: concrete runs over Qc ---------- *)
Definition exq (z : Z) : Qc := Q2Qc (inject_Z z).
Definition exqq (a b : Z) : Qc := (exq a / exq b)%Qc.
Definition qshow (x : Qc) : Z * Z := (Qnum (this x), Zpos (Qden (this x))).
(* a non-negative 2 x 3 tensor of rank 2: [[3, 2, 2], [3, 3, 0]], total 13 *)
Definition ex_Y : list (core Qc) :=
  [ mk_core 1 2 2 [[[exq 1; exq 2]; [exq 0; exq 3]]];
    mk_core 2 3 1 [[[exq 1]; [exq 0]; [exq 2]]; [[exq 1]; [exq 1]; [exq 0]]] ].
Definition ex_ch (rec : list (list nat)) (c t : nat) (p : list Qc) : nat := nth t (nth c rec []) O.
Lemma sample_example :
  chain 1 ex_Y 1 /\ (forall idx, inb (shape ex_Y) idx -> nn OQc (get OQc ex_Y idx)) /\
  exists P : list (list (list Qc)),
    sample OQc (ex_ch [[1; 1; 0]; [2]; [1]; [0]]) ex_Y 3 (exq 0) = Ok ([[1; 2]; [1; 1]; [0; 0]], P) /\
    map (fun r => qshow (lprod OQc (along (exq 0) (fst r) (snd r)))) (combine [[1; 2]; [1; 1]; [0; 0]] P)
      = [(0, 1); (3, 13); (3, 13)]%Z /\
    qshow (total OQc ex_Y) = (13, 1)%Z.
Proof.
  split; [repeat split|]. split.
  - intros idx H. inversion H as [|i n idx1 ns Hi H1]; subst. inversion H1 as [|i2 n2 idx2 ns2 Hi2 H2]; subst.
    inversion H2; subst. simpl in Hi, Hi2.
    destruct i as [|[|i]]; try lia; destruct i2 as [|[|[|i2]]]; try lia; vm_compute; reflexivity.
  - eexists. split; [vm_compute; reflexivity|]. split; vm_compute; reflexivity.
Qed.

(* a tensor whose second core has orthonormal rows (3/5, 4/5), (-4/5, 3/5); squared norm 6 *)
Definition ex_Z : list (core Qc) :=
  [ mk_core 1 2 2 [[[exq 1; exq 2]; [exq 0; exq (-1)]]];
    mk_core 2 2 1 [[[exqq 3 5]; [exqq 4 5]]; [[exqq (-4) 5]; [exqq 3 5]]] ].
Lemma square_example :
  chain 1 ex_Z 1 /\ Forall (row_orth OQc) (tl ex_Z) /\ qshow (total2 OQc ex_Z) = (6, 1)%Z /\
  (exists atts, sample_square OQc (ex_ch [[0; 1; 1; 0]; [0]; [0]; [1]; [0]]) (fun _ l => rev l) ex_Z 2 true 2 0%Z
               = Ok ([[1; 1]; [1; 0]], atts)) /\
  sample_square OQc (ex_ch [[0; 0]; [0]; [0]; [0; 0; 0; 0]; [0]; [0]; [0]; [0]]) (fun _ l => l) ex_Z 2 true 1 0%Z
               = Err ValueError.
Proof.
  split; [repeat split|]. split; [|split; [vm_compute; reflexivity|]].
  - constructor; [|constructor]. intros a a' Ha Ha'. cbn in Ha, Ha'.
    destruct a as [|[|a]]; try lia; destruct a' as [|[|a']]; try lia; apply Qc_is_canon; vm_compute; reflexivity.
  - split; [eexists|]; vm_compute; reflexivity.
Qed.
Lemma first_nz_contract_Qc :
  choice_ok (fun _ _ : nat => first_nz OQc) /\ choice_pos OQc (fun _ _ : nat => first_nz OQc) /\
  ex_Y <> [] /\ total OQc ex_Y <> o0 OQc.
Proof.
  destruct (first_nz_contract OQc OQc_rng OQc_field_laws) as [A B]; [discriminate|].
  repeat split; auto; discriminate.
Qed.
From Coq Require Import Lqa.
Lemma OQc_order_laws2 : order_laws2 OQc.
Proof.
  split; [exact OQc_order_laws|]. split.
  - intros a b Ha Hb. apply Qc_nn_iff in Ha, Hb. apply Qc_nn_iff. cbn.
    unfold Qcle in *. unfold Qcdiv, Qcmult, Qcinv. cbn [this Q2Qc] in *. rewrite !Qred_correct.
    apply Qmult_le_0_compat; [exact Ha | now apply Qinv_le_0_compat].
  - intros a. apply Qc_nn_iff. cbn. unfold Qcle, Qcmult. cbn [this Q2Qc].
    generalize (this a). intros x. rewrite ?Qred_correct. change (0 <= x * x)%Q.
    destruct (Qlt_le_dec x 0) as [Hx|Hx]; [|now apply Qmult_le_0_compat].
    setoid_replace (x * x)%Q with ((- x) * (- x))%Q by ring.
    apply Qmult_le_0_compat; apply Qlt_le_weak; lra.
Qed.
