(* Lemmas about Model/Sample.v (C14). *)
From Coq Require Import List Arith Lia PeanoNat ZArith Bool Permutation.
From TV Require Import Num.Ops Lin.Tab Lin.BigSum TT.Chain Model.Sample.
Import ListNotations.

Lemma transpose_length {A} (d0 : A) m cols : length (transpose d0 m cols) = m.
Proof. apply tab_length. Qed.
