(* Lemmas about Model/Sample.v (C14), part 1: the samplers that read a TT-tensor
   (sample, sample_square).  Integer samplers are in Proofs/SampleIntP.v. *)
From Coq Require Import List Arith Lia Ring PeanoNat ZArith Bool Permutation.
From TV Require Import Num.Ops Lin.Tab Lin.BigSum TT.Chain Model.Sample.
Import ListNotations.

(* ---------- result plumbing ---------- *)
Lemma rbind_ok {A B} (r : result A) (f : A -> result B) y :
  rbind r f = Ok y -> exists x, r = Ok x /\ f x = Ok y.
Proof. destruct r; simpl; intros H; [eauto|discriminate]. Qed.
Lemma rmap_ok {A B} (f : A -> B) r y : rmap f r = Ok y -> exists x, r = Ok x /\ y = f x.
Proof. destruct r; simpl; intros H; inversion H; eauto. Qed.
Lemma rall_ok {A} (l : list (result A)) rows : rall l = Ok rows ->
  length rows = length l /\ forall j dr d, j < length l -> nth j l dr = Ok (nth j rows d).
Proof.
  revert rows; induction l as [|x l IH]; intros rows H; simpl in H.
  - inversion H; subst. split; [reflexivity|]. intros; simpl in *; lia.
  - apply rbind_ok in H as (a & -> & H). apply rbind_ok in H as (r & Hr & H). inversion H; subst.
    destruct (IH _ Hr) as (L & N). split; [simpl; lia|].
    intros [|j] dr d Hj; simpl; [reflexivity|]. apply N. simpl in Hj. lia.
Qed.

(* errors other than the out-of-fuel marker *)
Definition no_oof {A} (r : result A) : Prop := r <> Err OutOfFuel.
Lemma rbind_no_oof {A B} (r : result A) (f : A -> result B) :
  no_oof r -> (forall x, no_oof (f x)) -> no_oof (rbind r f).
Proof. unfold no_oof. destruct r; simpl; auto. intros H _ E. inversion E; subst. now apply H. Qed.
Lemma rall_no_oof {A} (l : list (result A)) : Forall no_oof l -> no_oof (rall l).
Proof.
  induction 1 as [|x l Hx Hl IH]; simpl; [discriminate|].
  apply rbind_no_oof; [exact Hx|]. intros a. apply rbind_no_oof; [exact IH|]. intros; discriminate.
Qed.

Section SampleP.
Context {T : Type} (K : ops T).
Notation "0" := (o0 K). Notation "1" := (o1 K).
Infix "+" := (oadd K). Infix "*" := (omul K). Infix "-" := (osub K). Infix "/" := (odiv K).
Hypothesis Rth : rng K.
Add Ring RrSampleP : Rth.

Local Notation cget := (cget K). Local Notation vstep := (vstep K). Local Notation run := (run K).
Local Notation get := (get K). Local Notation bsum := (bsum K). Local Notation msum := (msum K).
Local Notation lsum := (lsum K).

(* v . w over the first r entries;  |v|^2 over the first r entries *)
Definition dot (r : nat) (v w : list T) : T := bsum r (fun a => nth a v 0 * nth a w 0).
Definition nrm2 (r : nat) (v : list T) : T := bsum r (fun a => nth a v 0 * nth a v 0).

Lemma lsum_tab n f : lsum (tab n f) = bsum n f.
Proof. unfold tab. symmetry. apply bsum_lsum. exact Rth. Qed.
Lemma lsum_map_tab n (f : nat -> T) g : lsum (map g (tab n f)) = bsum n (fun i => g (f i)).
Proof. rewrite map_tab. apply lsum_tab. Qed.

(* ---------- right marginals: summing a chain over all its indices = contracting with np.sum(G, axis=1) ---------- *)
Lemma sum_dot_vstep G v w :
  bsum (cn G) (fun i => dot (cr2 G) (vstep v G i) w) = dot (cr1 G) v (rsum_step K G w).
Proof.
  unfold dot.
  rewrite (bsum_ext K (cn G) _
    (fun i => bsum (cr1 G) (fun a => bsum (cr2 G) (fun b => nth a v 0 * cget G a i b * nth b w 0)))).
  2:{ intros i Hi.
      rewrite (bsum_ext K (cr2 G) _ (fun b => bsum (cr1 G) (fun a => nth a v 0 * cget G a i b * nth b w 0))).
      2:{ intros b Hb. rewrite nth_vstep by auto. now rewrite <- bsum_mul_r by auto. }
      now rewrite bsum_swap by auto. }
  rewrite bsum_swap by auto.
  apply bsum_ext; intros a Ha. unfold rsum_step. rewrite nth_tab by auto.
  rewrite <- bsum_mul_l by auto. rewrite bsum_swap by auto. apply bsum_ext; intros b Hb.
  rewrite (bsum_ext K (cn G) _ (fun i => (nth a v 0 * nth b w 0) * cget G a i b)) by (intros; ring).
  rewrite bsum_mul_l by auto. ring.
Qed.

Lemma phis_cons (Y : list (core T)) : phis K Y = hd [] (phis K Y) :: tl (phis K Y).
Proof. destruct Y; reflexivity. Qed.
Lemma tl_phis G (Y : list (core T)) : tl (phis K (G :: Y)) = phis K Y.
Proof. reflexivity. Qed.
Lemma hd_phis G (Y : list (core T)) : hd [] (phis K (G :: Y)) = rsum_step K G (hd [] (phis K Y)).
Proof. reflexivity. Qed.

(* the lemma the telescoping rests on (a suffix version of "sum Y = msum (shape Y) (get Y)") *)
Lemma marg_right Ys : forall r v, chain r Ys 1 -> length v = r ->
  msum (shape Ys) (fun idx => nth O (run v Ys idx) 0) = dot r v (hd [] (phis K Ys)).
Proof.
  induction Ys as [|G Ys IH]; intros r v Hc L.
  - simpl in Hc. subst r. cbn. unfold dot. simpl. ring.
  - destruct Hc as [Hr Hc]. cbn [shape map]. cbn [Chain.msum]. rewrite hd_phis. subst r.
    rewrite <- sum_dot_vstep. apply bsum_ext; intros i Hi. cbn [Chain.run].
    apply (IH (cr2 G)); [exact Hc | apply vstep_length].
Qed.

(* one row of einsum('ma,aib,b->mi') is the family of dot products of the advanced row with phi[i+1] *)
Lemma nth_pvec v G w i : i < cn G -> nth i (pvec K v G w) 0 = dot (cr2 G) (vstep v G i) w.
Proof.
  intros Hi. unfold pvec. rewrite nth_tab by auto. unfold dot.
  rewrite bsum_swap by auto. apply bsum_ext; intros b Hb. rewrite nth_vstep by auto.
  now rewrite <- bsum_mul_r by auto.
Qed.
Lemma pvec_length v G w : length (pvec K v G w) = cn G. Proof. apply tab_length. Qed.
Lemma lsum_pvec v G w : lsum (pvec K v G w) = dot (cr1 G) v (rsum_step K G w).
Proof.
  rewrite <- sum_dot_vstep. unfold pvec at 1. rewrite lsum_tab. apply bsum_ext; intros i Hi.
  rewrite <- nth_pvec by auto. unfold pvec. now rewrite nth_tab by auto.
Qed.
(* the first core: row vector [1] *)
Lemma vstep_one G i : cr1 G = 1%nat -> vstep [1] G i = crow K G i.
Proof.
  intros H. unfold Chain.vstep, crow. apply tab_ext; intros b Hb. rewrite H. simpl. ring.
Qed.
Lemma pvec0_pvec G w : cr1 G = 1%nat -> pvec0 K G w = pvec K [1] G w.
Proof.
  intros H. unfold pvec0, pvec. apply tab_ext; intros i Hi. rewrite H. simpl.
  rewrite (bsum_ext K (cr2 G) _ (fun b => 1 * cget G O i b * nth b w 0)) by (intros; ring).
  ring_simplify. apply bsum_ext; intros; ring.
Qed.


(* ---------- laws of the number structure used from here on (hypotheses; Qc and R satisfy them) ---------- *)
Hypothesis Hdiv : forall a b, a / b = a * (1 / b).
Hypothesis Hinv : forall b, b <> 0 -> b * (1 / b) = 1.
Hypothesis Heqb : forall a b, oeqb K a b = true <-> a = b.

Lemma div_mul_cancel a s : s <> 0 -> (a / s) * s = a.
Proof. intros H. rewrite Hdiv. transitivity (a * (s * (1 / s))); [ring|]. rewrite Hinv by auto. ring. Qed.
Lemma div_0_l s : 0 / s = 0. Proof. rewrite Hdiv. ring. Qed.

Lemma normalise_ok p q : normalise K p = Ok q -> lsum p <> 0 /\ q = map (fun x => x / lsum p) p.
Proof.
  unfold normalise. destruct (oeqb K (lsum p) 0) eqn:E; [discriminate|]. intros H; inversion H; subst.
  split; auto. intros Hs. apply Heqb in Hs. congruence.
Qed.
Lemma normalise_no_oof p : no_oof (normalise K p).
Proof. unfold normalise, no_oof. destruct (oeqb K (lsum p) 0); discriminate. Qed.
Lemma nth_map0 (g : T -> T) l i : g 0 = 0 -> nth i (map g l) 0 = g (nth i l 0).
Proof. intros E. transitivity (nth i (map g l) (g 0)); [now rewrite E | apply map_nth]. Qed.
Lemma nth_normalised p i : nth i (map (fun x => x / lsum p) p) 0 = nth i p 0 / lsum p.
Proof. apply (nth_map0 (fun x => x / lsum p)). apply div_0_l. Qed.
Lemma lsum_scaled p s : lsum (map (fun x => x / s) p) = lsum p * (1 / s).
Proof. induction p as [|x p IH]; simpl; [ring|]. rewrite IH, Hdiv. ring. Qed.
Lemma lsum_normalised p : lsum p <> 0 -> lsum (map (fun x => x / lsum p) p) = 1.
Proof. intros H. rewrite lsum_scaled. now apply Hinv. Qed.
Lemma lsum_nil_ne (p : list T) : lsum p <> 0 -> p <> [].
Proof. intros H E. subst. now apply H. Qed.

(* ---------- the loops: mode-major over rows = each row walked on its own ---------- *)
Definition callno (base m k j : nat) : nat := (base + 1 + (k - 1) * m + j)%nat.
Notation stepT := (nat -> @rowst T -> result (@rowst T)).
Fixpoint walk (base m j k : nat) (steps : list stepT) (s : result (@rowst T))
  : result (@rowst T) :=
  match steps with
  | [] => s
  | st :: steps' => walk base m j (S k) steps' (rbind s (st (callno base m k j)))
  end.
Lemma modes_length base m (steps : list stepT) : forall k st, length st = m -> length (modes base m k steps st) = m.
Proof. induction steps as [|s steps IH]; intros k st L; simpl; auto. apply IH. apply tab_length. Qed.
Lemma modes_nth base m (steps : list stepT) : forall k st j, j < m -> length st = m ->
  nth j (modes base m k steps st) (Err OtherError) = walk base m j k steps (nth j st (Err OtherError)).
Proof.
  induction steps as [|s steps IH]; intros k st j Hj L; simpl; auto.
  rewrite IH; [|auto|apply tab_length]. f_equal. unfold mode_step. now rewrite nth_tab by auto.
Qed.
Lemma walk_err base m j (steps : list stepT) : forall k e, walk base m j k steps (Err e) = Err e.
Proof. induction steps as [|s steps IH]; intros; simpl; auto. Qed.
Lemma walk_no_oof base m j (steps : list stepT) : (forall st c s, In st steps -> no_oof (st c s)) ->
  forall k s, no_oof s -> no_oof (walk base m j k steps s).
Proof.
  induction steps as [|st steps IH]; intros H k s Hs; simpl; auto.
  apply IH; [intros; apply H; now right|]. apply rbind_no_oof; auto. intros x. apply H. now left.
Qed.

Definition rowst0 : @rowst T := mk_rowst [] [] [].

(* ---------- sample: order laws ---------- *)
Definition nn (x : T) : Prop := oleb K 0 x = true.
Hypothesis Hnn0 : nn 0.
Hypothesis Hnn_add : forall a b, nn a -> nn b -> nn (a + b).

Lemma bsum_nn n f : (forall i, i < n -> nn (f i)) -> nn (bsum n f).
Proof. induction n; intros H; simpl; [exact Hnn0|]. apply Hnn_add; [apply IHn; intros; apply H; lia | apply H; lia]. Qed.
Lemma msum_nn ns : forall f, (forall idx, inb ns idx -> nn (f idx)) -> nn (msum ns f).
Proof.
  induction ns as [|n ns IH]; intros f H; simpl.
  - apply H. constructor.
  - apply bsum_nn. intros i Hi. apply IH. intros idx Hidx. apply H. constructor; auto.
Qed.
Lemma clip_nn p : Forall nn p -> clip K p = p.
Proof. induction 1 as [|x p Hx Hp IH]; simpl; [reflexivity|]. unfold nn in Hx. rewrite Hx. f_equal. exact IH. Qed.

(* rand.choice(n, p=p) returns an index below n = len(p) *)
Variable ch : nat -> nat -> list T -> nat.
Hypothesis Hch : forall c t p, p <> [] -> ch c t p < length p.

(* the partial-product row v entering the cores Ys: all completions are non-negative *)
Definition nn_tail (v : list T) (Ys : list (core T)) : Prop :=
  forall idx, inb (shape Ys) idx -> nn (nth O (run v Ys idx) 0).

Lemma pvec_nn v G Ys : chain (cr2 G) Ys 1 -> nn_tail v (G :: Ys) ->
  Forall nn (pvec K v G (hd [] (phis K Ys))).
Proof.
  intros Hc Hn. apply Forall_forall. intros x Hx. unfold pvec in Hx. apply in_tab in Hx as (i & Hi & ->).
  fold (pvec K v G (hd [] (phis K Ys))).
  change (nn (nth i (tab (cn G) (fun i => bsum (cr1 G) (fun a => bsum (cr2 G) (fun b =>
     nth a v 0 * cget G a i b * nth b (hd [] (phis K Ys)) 0)))) 0)) || idtac.
  assert (E : bsum (cr1 G) (fun a => bsum (cr2 G) (fun b => nth a v 0 * cget G a i b * nth b (hd [] (phis K Ys)) 0))
              = nth i (pvec K v G (hd [] (phis K Ys))) 0) by (unfold pvec; now rewrite nth_tab by auto).
  rewrite E, nth_pvec by auto. rewrite <- (marg_right Ys (cr2 G)); [|exact Hc|apply vstep_length].
  apply msum_nn. intros idx Hidx. apply (Hn (i :: idx)). constructor; auto.
Qed.

Lemma row_step_eq G w c s :
  row_step K ch G w c s = rbind (normalise K (clip K (pvec K (rv s) G w))) (fun p =>
    Ok (mk_rowst (vstep (rv s) G (ch c O p)) (ridx s ++ [ch c O p]) (rP s ++ [p]))).
Proof. reflexivity. Qed.

Lemma row_chain_sample base m j : forall Ys r v s0 k s1,
  chain r Ys 1 -> length v = r -> rv s0 = v -> nn_tail v Ys ->
  walk base m j k (zipw (row_step K ch) Ys (tl (phis K Ys))) (Ok s0) = Ok s1 ->
  exists idx Pn, ridx s1 = ridx s0 ++ idx /\ rP s1 = rP s0 ++ Pn /\ inb (shape Ys) idx /\
    length Pn = length Ys /\ Forall (fun p => lsum p = 1) Pn /\
    lprod K (along 0 idx Pn) * dot r v (hd [] (phis K Ys)) = nth O (run v Ys idx) 0 /\
    (Ys <> [] -> dot r v (hd [] (phis K Ys)) <> 0).
Proof.
  induction Ys as [|G Ys IH]; intros r v s0 k s1 Hc L Hv Hn Hw.
  - simpl in Hw. inversion Hw; subst s1. exists [], []. rewrite !app_nil_r. repeat split; auto.
    + constructor.
    + simpl in Hc. subst r. unfold dot. simpl. ring.
  - destruct Hc as [Hr Hc]. rewrite tl_phis in Hw. rewrite (phis_cons Ys) in Hw. cbn [zipw walk] in Hw.
    set (w := hd [] (phis K Ys)) in *. cbn [rbind] in Hw. rewrite row_step_eq in Hw.
    rewrite Hv in Hw.
    assert (Hclip : clip K (pvec K v G w) = pvec K v G w) by (apply clip_nn, pvec_nn; auto).
    rewrite Hclip in Hw.
    destruct (normalise K (pvec K v G w)) as [p|e] eqn:En; [|cbn [rbind] in Hw; now rewrite walk_err in Hw].
    cbn [rbind] in Hw. apply normalise_ok in En as [Hs Hp].
    set (s := lsum (pvec K v G w)) in *.
    assert (Hpl : length p = cn G) by (rewrite Hp, map_length; apply pvec_length).
    assert (Hpne : p <> []).
    { intros E. apply (lsum_nil_ne _ Hs). apply length_zero_iff_nil. rewrite pvec_length.
      rewrite <- Hpl, E. reflexivity. }
    set (i := ch (callno base m k j) O p) in *.
    assert (Hi : i < cn G) by (rewrite <- Hpl; apply Hch; exact Hpne).
    assert (Hn' : nn_tail (vstep v G i) Ys).
    { intros idx Hidx. apply (Hn (i :: idx)). constructor; auto. }
    destruct (IH (cr2 G) (vstep v G i) (mk_rowst (vstep v G i) (ridx s0 ++ [i]) (rP s0 ++ [p])) (S k) s1
                 Hc (vstep_length _ _ _ _) eq_refl Hn' Hw)
      as (idx & Pn & E1 & E2 & Hb & HL & HF & Hprod & _).
    cbn [ridx rP] in E1, E2.
    exists (i :: idx), (p :: Pn). rewrite <- !app_assoc in E1, E2. cbn [app] in E1, E2.
    assert (Hsum : s = dot r v (hd [] (phis K (G :: Ys)))).
    { unfold s. rewrite lsum_pvec, hd_phis. subst r. reflexivity. }
    repeat split; auto.
    + cbn [shape map]. constructor; auto.
    + simpl. now rewrite HL.
    + constructor; [|exact HF]. rewrite Hp. now apply lsum_normalised.
    + cbn [along lprod fold_right Chain.run]. fold (lprod K (along 0 idx Pn)). rewrite <- Hsum.
      assert (Hnp : forall t, t < cn G -> nth t p 0 = dot (cr2 G) (vstep v G t) w / s).
      { intros t Ht. rewrite Hp. unfold s. rewrite nth_normalised. now rewrite nth_pvec. }
      rewrite Hnp by auto. rewrite <- Hprod.
      set (Mi := dot (cr2 G) (vstep v G i) w). set (L' := lprod K (along 0 idx Pn)).
      transitivity (L' * ((Mi / s) * s)); [ring|]. rewrite div_mul_cancel by auto. ring.
    + intros _. rewrite <- Hsum. exact Hs.
Qed.


(* ---------- sample: the theorem ---------- *)
Definition total (Y : list (core T)) : T := msum (shape Y) (get Y).
(* marginal of the first mode: sum of the entries with first index i0 *)
Definition marg0 (Y : list (core T)) (i0 : nat) : T := msum (shape (tl Y)) (fun idx' => get Y (i0 :: idx')).

Lemma nth_map_in {A B} (g : A -> B) l i d d' : i < length l -> nth i (map g l) d = g (nth i l d').
Proof. intros H. rewrite (nth_indep _ d (g d')) by (now rewrite map_length). apply map_nth. Qed.
Lemma lsum_map_add_const l u : lsum (map (fun x => x + u) l) = lsum l + bsum (length l) (fun _ => u).
Proof. induction l as [|x l IH]; simpl; [ring|]. rewrite IH. ring. Qed.

Lemma pvec1_marg0 G0 Y' i : cr1 G0 = 1%nat -> chain (cr2 G0) Y' 1 -> i < cn G0 ->
  nth i (pvec K [1] G0 (hd [] (phis K Y'))) 0 = marg0 (G0 :: Y') i.
Proof.
  intros H1 Hc Hi. rewrite nth_pvec by auto.
  rewrite <- (marg_right Y' (cr2 G0)); [|exact Hc|apply vstep_length]. reflexivity.
Qed.
Lemma total_dot G0 Y' : cr1 G0 = 1%nat -> chain (cr2 G0) Y' 1 ->
  lsum (pvec K [1] G0 (hd [] (phis K Y'))) = total (G0 :: Y').
Proof.
  intros H1 Hc. rewrite lsum_pvec. unfold total. rewrite H1.
  rewrite <- hd_phis. symmetry. apply (marg_right (G0 :: Y') 1%nat [1]); [split; auto|reflexivity].
Qed.

Theorem sample_spec Y m u II P :
  chain 1 Y 1 -> (forall idx, inb (shape Y) idx -> nn (get Y idx)) -> nn u ->
  sample K ch Y m u = Ok (II, P) ->
  length II = m /\ length P = m /\
  forall j, j < m ->
    let idx := nth j II [] in let Pj := nth j P [] in
    inb (shape Y) idx /\ length Pj = length Y /\ Forall (fun p => lsum p = 1) Pj /\
    lprod K (along 0 idx Pj) * marg0 Y (hd O idx) =
      ((marg0 Y (hd O idx) + u) / (total Y + bsum (hd O (shape Y)) (fun _ => u))) * get Y idx /\
    (u = 0 -> lprod K (along 0 idx Pj) = get Y idx / total Y) /\
    (tl Y <> [] -> marg0 Y (hd O idx) <> 0).
Proof.
  intros Hc Hnn Hu H. destruct Y as [|G0 Y']; [discriminate|]. destruct Hc as [H1 Hc].
  unfold sample in H. set (w1 := hd [] (phis K Y')) in *.
  apply rbind_ok in H as (p0 & Hp0 & H). rewrite (pvec0_pvec _ _ H1) in Hp0.
  set (pv := pvec K [1] G0 w1) in *.
  assert (Hpv : forall i, i < cn G0 -> nth i pv 0 = marg0 (G0 :: Y') i) by (intros; now apply pvec1_marg0).
  assert (Hm0nn : forall i, i < cn G0 -> nn (marg0 (G0 :: Y') i)).
  { intros i Hi. unfold marg0. apply msum_nn. intros idx Hidx. apply Hnn. constructor; auto. }
  assert (Hclip : clip K (map (fun x => x + u) pv) = map (fun x => x + u) pv).
  { apply clip_nn. apply Forall_forall. intros x Hx. apply in_map_iff in Hx as (y & <- & Hy).
    apply Hnn_add; [|exact Hu]. unfold pv, pvec in Hy. apply in_tab in Hy as (i & Hi & ->).
    specialize (Hpv i Hi). unfold pv, pvec in Hpv. rewrite nth_tab in Hpv by auto. rewrite Hpv. now apply Hm0nn. }
  rewrite Hclip in Hp0. apply normalise_ok in Hp0 as [Hs Hp0].
  set (q := map (fun x => x + u) pv) in *. set (s := lsum q) in *.
  assert (Hsv : s = total (G0 :: Y') + bsum (cn G0) (fun _ => u)).
  { unfold s, q. rewrite lsum_map_add_const. unfold pv, w1. rewrite total_dot by auto. now rewrite pvec_length. }
  assert (Hql : length q = cn G0) by (unfold q; rewrite map_length; apply pvec_length).
  assert (Hp0l : length p0 = cn G0) by (rewrite Hp0, map_length; exact Hql).
  assert (Hp0ne : p0 <> []).
  { intros E. apply (lsum_nil_ne _ Hs). apply length_zero_iff_nil. rewrite Hql, <- Hp0l, E. reflexivity. }
  assert (Hnp0 : forall t, t < cn G0 -> nth t p0 0 = (marg0 (G0 :: Y') t + u) / s).
  { intros t Ht. rewrite Hp0. fold s. unfold s. rewrite nth_normalised. fold s. f_equal.
    unfold q. rewrite (nth_map_in _ _ _ _ 0) by (unfold pv; now rewrite pvec_length). now rewrite Hpv. }
  apply rmap_ok in H as (rows & Hrows & E). inversion E; subst II P. clear E.
  set (st0 := tab m (fun j => Ok (mk_rowst (crow K G0 (ch O j p0)) [ch O j p0] [p0]))) in *.
  apply rall_ok in Hrows as [HL HN]. rewrite (modes_length _ _ _ _ st0) in HL, HN by apply tab_length.
  rewrite !map_length. split; [exact HL|]. split; [exact HL|]. intros j Hj. cbv zeta.
  specialize (HN j (Err OtherError) rowst0 Hj). rewrite modes_nth in HN by (auto; apply tab_length).
  unfold st0 in HN. rewrite nth_tab in HN by auto.
  set (i0 := ch O j p0) in *.
  assert (Hi0 : i0 < cn G0) by (rewrite <- Hp0l; apply Hch; exact Hp0ne).
  assert (Hnt : nn_tail (crow K G0 i0) Y').
  { intros idx Hidx. rewrite <- (vstep_one _ _ H1). apply (Hnn (i0 :: idx)). constructor; auto. }
  destruct (row_chain_sample O m j Y' (cr2 G0) (crow K G0 i0) (mk_rowst (crow K G0 i0) [i0] [p0]) 1%nat _
                Hc (tab_length _ _) eq_refl Hnt HN)
      as (idx & Pn & E1 & E2 & Hb & HLn & HF & Hprod & Hne).
  cbn [ridx rP app] in E1, E2.
  assert (EI : nth j (map ridx rows) [] = i0 :: idx)
    by (change (@nil nat) with (ridx rowst0); rewrite map_nth; exact E1).
  assert (EP : nth j (map rP rows) [] = p0 :: Pn)
    by (change (@nil (list T)) with (rP rowst0); rewrite map_nth; exact E2).
  rewrite EI, EP. split; [|split; [|split; [|split; [|split]]]].
  - cbn [shape map]. constructor; auto.
  - simpl. now rewrite HLn.
  - constructor; [|exact HF]. rewrite Hp0. fold s. unfold s. now apply lsum_normalised.
  - cbn [along lprod fold_right hd shape map]. fold (lprod K (along 0 idx Pn)). rewrite Hnp0 by auto.
    rewrite <- Hsv. rewrite <- (vstep_one _ _ H1) in Hprod.
    rewrite <- (nth_pvec _ _ _ _ Hi0) in Hprod. fold w1 pv in Hprod. rewrite Hpv in Hprod by auto.
    change (get (G0 :: Y') (i0 :: idx)) with (nth O (run (vstep [1] G0 i0) Y' idx) 0). rewrite <- Hprod. ring.
  - intros ->. cbn [along lprod fold_right hd]. fold (lprod K (along 0 idx Pn)). rewrite Hnp0 by auto.
    rewrite <- (vstep_one _ _ H1) in Hprod.
    rewrite <- (nth_pvec _ _ _ _ Hi0) in Hprod. fold w1 pv in Hprod. rewrite Hpv in Hprod by auto.
    change (get (G0 :: Y') (i0 :: idx)) with (nth O (run (vstep [1] G0 i0) Y' idx) 0). rewrite <- Hprod.
    assert (Es : s = total (G0 :: Y')) by (rewrite Hsv, bsum_0 by auto; ring). rewrite <- Es.
    replace (marg0 (G0 :: Y') i0 + 0) with (marg0 (G0 :: Y') i0) by ring.
    rewrite (Hdiv (marg0 (G0 :: Y') i0) s), (Hdiv (lprod K (along 0 idx Pn) * marg0 (G0 :: Y') i0) s). ring.
  - cbn [tl hd]. intros Hne'. specialize (Hne Hne'). rewrite <- (vstep_one _ _ H1) in Hne.
    rewrite <- (nth_pvec _ _ _ _ Hi0) in Hne. fold w1 pv in Hne. now rewrite Hpv in Hne by auto.
Qed.

End SampleP.

(* ---------- packaging of the laws, and their instance at Qc (non-vacuity; the correspondence runs at Qc) ---------- *)
Definition field_laws {T} (K : ops T) : Prop :=
  (forall a b, odiv K a b = omul K a (odiv K (o1 K) b)) /\
  (forall b, b <> o0 K -> omul K b (odiv K (o1 K) b) = o1 K) /\
  (forall a b, oeqb K a b = true <-> a = b).
Definition order_laws {T} (K : ops T) : Prop :=
  nn K (o0 K) /\ (forall a b, nn K a -> nn K b -> nn K (oadd K a b)).
(* rand.choice(n, p=p) returns an index below n = len(p) *)
Definition choice_ok {T} (ch : nat -> nat -> list T -> nat) : Prop :=
  forall c t p, p <> [] -> ch c t p < length p.

Theorem sample_chain {T} (K : ops T) : rng K -> field_laws K -> order_laws K ->
  forall ch, choice_ok ch -> forall Y m u II P,
  chain 1 Y 1 -> (forall idx, inb (shape Y) idx -> nn K (get K Y idx)) -> nn K u ->
  sample K ch Y m u = Ok (II, P) ->
  length II = m /\ length P = m /\
  forall j, j < m ->
    let idx := nth j II [] in let Pj := nth j P [] in
    inb (shape Y) idx /\ length Pj = length Y /\ Forall (fun p => lsum K p = o1 K) Pj /\
    omul K (lprod K (along (o0 K) idx Pj)) (marg0 K Y (hd O idx)) =
      omul K (odiv K (oadd K (marg0 K Y (hd O idx)) u)
                     (oadd K (total K Y) (bsum K (hd O (shape Y)) (fun _ => u)))) (get K Y idx) /\
    (u = o0 K -> lprod K (along (o0 K) idx Pj) = odiv K (get K Y idx) (total K Y)) /\
    (tl Y <> [] -> marg0 K Y (hd O idx) <> o0 K).
Proof.
  intros Rth (F1 & F2 & F3) (O1 & O2) ch Hch. exact (sample_spec K Rth F1 F2 F3 O1 O2 ch Hch).
Qed.

From Coq Require Import QArith Qcanon.
Lemma OQc_field_laws : field_laws OQc.
Proof.
  repeat split.
  - intros a b. cbn. unfold Qcdiv. ring.
  - intros b Hb. cbn. unfold Qcdiv. rewrite Qcmult_1_l. now apply Qcmult_inv_r.
  - cbn. unfold Qc_eqb. intros H. apply Qeq_bool_iff in H. now apply Qc_is_canon.
  - cbn. unfold Qc_eqb. intros ->. apply Qeq_bool_iff. reflexivity.
Qed.
Lemma Qc_nn_iff (a : Qc) : nn OQc a <-> (0 <= a)%Qc.
Proof.
  unfold nn. cbn. unfold Qc_leb. change (Q2Qc 0) with 0%Qc.
  unfold Qcle. rewrite Qle_alt. change (0 ?= a)%Qc with (0%Qc ?= a)%Q.
  destruct (0%Qc ?= a)%Q; split; intros H; try discriminate; try reflexivity; try (intros E; discriminate).
  now contradiction H.
Qed.
Lemma OQc_order_laws : order_laws OQc.
Proof.
  split.
  - apply Qc_nn_iff. apply Qcle_refl.
  - intros a b Ha Hb. apply Qc_nn_iff in Ha, Hb. apply Qc_nn_iff. cbn.
    replace 0%Qc with (0 + 0)%Qc by ring. now apply Qcplus_le_compat.
Qed.
