(* C12, one variable: func_sum / func_sum_full return the exact integral over [a, b] of the interpolated polynomial
   (Newton integral: difference of an antiderivative at the end points), any box a < b, any degree. *)
From Coq Require Import List Arith Lia PeanoNat ZArith Bool Reals Lra Psatz.
From TV Require Import Num.Ops Lin.Tab Lin.BigSum Lin.Mat TT.Chain Model.Func Model.FuncFull
  Proofs.FuncP Proofs.FuncFullP Proofs.FuncTrigP Proofs.FuncExactP Proofs.FuncWeightsP.
Import ListNotations.
Local Open Scope R_scope.

Lemma aff_deriv a b x : a < b -> derivable_pt_lim (fun x => aff x a b) x (2 / (b - a)).
Proof.
  intros Hab. unfold aff.
  apply (dlim_ext _ (mult_real_fct (2 / (b - a)) (id - fct_cte ((b + a) / 2)))%F).
  { intros y. unfold mult_real_fct, minus_fct, fct_cte, id. ring. }
  replace (2 / (b - a)) with (2 / (b - a) * (1 - 0)) at 2 by ring.
  apply derivable_pt_lim_scal. apply derivable_pt_lim_minus; [apply derivable_pt_lim_id | apply derivable_pt_lim_const].
Qed.
Lemma aff_at_b a b : a < b -> aff b a b = 1. Proof. intros. unfold aff. field. lra. Qed.
Lemma aff_at_a a b : a < b -> aff a a b = -1. Proof. intros. unfold aff. field. lra. Qed.

(* sum_k c_k T_k(scaled x) has an antiderivative whose increment over [a, b] is (b-a)/2 sum_k w_k c_k *)
Lemma cheb_series_integral a b (c : nat -> R) : a < b -> forall n, exists F : R -> R,
  (forall x, derivable_pt_lim F x (rsum n (fun k => c k * chebT OR (aff x a b) k))) /\
  F b - F a = (b - a) / 2 * rsum n (fun k => wsum OR Cheb k * c k).
Proof.
  intros Hab. induction n as [|n (F & HF1 & HF2)].
  - exists (fct_cte 0). split; [intros x; apply derivable_pt_lim_const | unfold fct_cte; cbn [bsum]; ror; ring].
  - destruct (cheb_weights n) as (P & HP1 & HP2).
    exists (F + mult_real_fct (c n * ((b - a) / 2)) (comp P (fun x => aff x a b)))%F. split.
    + intros x. rewrite rsum_S.
      replace (c n * chebT OR (aff x a b) n) with (c n * ((b - a) / 2) * (chebT OR (aff x a b) n * (2 / (b - a)))) by (field; lra).
      apply derivable_pt_lim_plus; [apply HF1|]. apply derivable_pt_lim_scal.
      apply derivable_pt_lim_comp; [now apply aff_deriv | apply HP1].
    + rewrite rsum_S. unfold plus_fct, mult_real_fct, comp. rewrite aff_at_a, aff_at_b by auto.
      transitivity ((F b - F a) + c n * ((b - a) / 2) * (P 1 - P (-1))); [ring|]. rewrite HF2, HP2. ring.
Qed.

Lemma cpoly_1d n c a b x : cpoly [n] c [a] [b] [x] = rsum n (fun k => c [k] * chebT OR (aff x a b) k).
Proof.
  unfold cpoly, polyv. cbn [affs msum]. apply rsum_ext; intros k Hk. cbn [tprod]. ror. ring.
Qed.
(* TT format, one variable: func_sum is the exact integral over [a, b] of the polynomial func_get evaluates *)
Theorem sum_exact_1d G a b : chain 1 [G] 1 -> a < b -> exists F : R -> R,
  (forall x, derivable_pt_lim F x (cpoly [cn G] (get OR [G]) [a] [b] [x])) /\
  F b - F a = func_sum OR [G] [a] [b] Cheb.
Proof.
  intros HC Hab. destruct (cheb_series_integral a b (fun k => get OR [G] [k]) Hab (cn G)) as (F & H1 & H2).
  exists F. split.
  - intros x. rewrite cpoly_1d. apply H1.
  - rewrite H2. rewrite (func_sum_msum OR OR_rng) by auto. cbn [shape map msum vol]. ror.
    rewrite Rmult_1_r. f_equal. apply rsum_ext; intros k Hk. cbn [wsprod]. ror. ring.
Qed.
(* dense format, one variable, symmetric box [-h, h] *)
Theorem sum_full_exact_1d tol16 n A h : 0 <= tol16 -> 0 < h -> exists (v : R) (F : R -> R),
  func_sum_full OR tol16 [n] A [- h] [h] = Ok v /\
  (forall x, derivable_pt_lim F x (cpoly [n] (tget OR A) [- h] [h] [x])) /\ F h - F (- h) = v.
Proof.
  intros Ht Hh. assert (Hab : - h < h) by lra.
  destruct (cheb_series_integral (- h) h (fun k => tget OR A [k]) Hab n) as (F & H1 & H2).
  exists ((h - - h) / 2 * rsum n (fun k => wsum OR Cheb k * tget OR A [k])), F. split; [|split].
  - pose proof (sum_full_accepts_symmetric tol16 [n] A [h] Ht eq_refl) as E. cbn [map] in E. rewrite E. f_equal.
    cbn [msum vol]. ror. rewrite Rmult_1_r. f_equal. apply rsum_ext; intros k Hk. cbn [wsprod]. ror. ring.
  - intros x. rewrite cpoly_1d. apply H1.
  - exact H2.
Qed.
