(* Lemmas for C03, part 5: the three give_to variants of matrix_skeleton give the same product; the index
   interleaving of svd_matrix and full_matrix are inverse to each other (all q). *)
From Coq Require Import List Arith Lia PeanoNat ZArith Bool Ring.
From TV Require Import Num.Ops Lin.Tab Lin.BigSum Lin.Mat TT.Chain Model.ActOne Model.Transformation
  Model.Svd Model.SvdMatrix Proofs.ActOneP Proofs.ActOneP2 Proofs.SvdP Proofs.SvdP2.
Import ListNotations.

(* ---------------------------------------------------------------- give_to variants *)
Section Variants.
Context {T : Type} (K : ops T).
Notation "0" := (o0 K). Notation "1" := (o1 K).
Infix "+" := (oadd K). Infix "*" := (omul K). Infix "-" := (osub K).
Notation bsum := (bsum K).
Hypothesis Rth : rng K.
Add Ring RrSvdP5 : Rth.
Variable svdo : nat -> mat T -> mat T * list T * mat T.

Lemma mget_mul_diag_r U w q i c : length w = q -> i < mr U -> c < q ->
  mget K (mmul K (mtakec K U q) (diagl K w)) i c = mget K U i c * nth c w 0.
Proof.
  intros L Hi Hc. rewrite mget_mmul by (cbn [mr mc mtakec diagl mkmat]; lia).
  cbn [mc mtakec mkmat]. rewrite (bsum_single K Rth q c); auto.
  - unfold mtakec, diagl. rewrite L, !mget_mk by lia. rewrite Nat.eqb_refl. reflexivity.
  - intros k Hk Hne. unfold diagl. rewrite L, mget_mk by lia. destruct (Nat.eqb_spec k c); [congruence|ring].
Qed.
Lemma mget_mul_diag_l V w q c j : length w = q -> c < q -> j < mc V ->
  mget K (mmul K (diagl K w) (mtaker K V q)) c j = nth c w 0 * mget K V c j.
Proof.
  intros L Hc Hj. rewrite mget_mmul by (cbn [mr mc mtaker diagl mkmat]; lia).
  cbn [mc diagl mkmat]. rewrite L. rewrite (bsum_single K Rth q c); auto.
  - unfold mtaker, diagl. rewrite L, !mget_mk by lia. rewrite Nat.eqb_refl. reflexivity.
  - intros k Hk Hne. unfold diagl. rewrite L, mget_mk by lia. destruct (Nat.eqb_spec c k); [congruence|ring].
Qed.

(* the inner size chosen by matrix_skeleton: rel = True measures the tail relative to the largest singular value *)
Definition skel_rank (s : list T) (e : T) (rcap : Z) (rel : bool) : nat :=
  rank_select K (map (fun x => x * x) (if rel then map (fun x => odiv K x (nth O s 0)) s else s)) (e * e) rcap.

(* skeleton_variants: inner size q independent of give_to; factor shapes m x q, q x n; the product is
   U_q diag(s_q) V_q in all three cases (give_to = 'm' under the sqrt law on the retained singular values) *)
Theorem skeleton_variants k A e rcap rel g U s V : svdo k A = (U, s, V) ->
  let q := skel_rank s e rcap rel in
  let P := matrix_skeleton K svdo k A e rcap rel g in
  q <= length s ->
  (g = GiveM -> forall c, c < q -> osqrt K (nth c s 0) * osqrt K (nth c s 0) = nth c s 0) ->
  mr (fst P) = mr U /\ mc (fst P) = q /\ mr (snd P) = q /\ mc (snd P) = mc V /\
  forall i j, i < mr U -> j < mc V ->
    mget K (mmul K (fst P) (snd P)) i j = bsum q (fun c => mget K U i c * (nth c s 0 * mget K V c j)).
Proof.
  intros E q P Hq Hs. unfold P, matrix_skeleton. rewrite E. fold (skel_rank s e rcap rel). fold q.
  assert (L : length (firstn q s) = q) by (rewrite firstn_length; lia).
  destruct g; cbn [fst snd].
  - repeat split; try (cbn [mr mc mmul mtakec mtaker diagl mkmat]; rewrite ?L; reflexivity).
    intros i j Hi Hj. rewrite mget_mmul by (cbn [mr mc mmul mtakec mtaker diagl mkmat]; lia).
    cbn [mc mmul diagl mkmat]. rewrite L. apply bsum_ext; intros c Hc.
    rewrite mget_mul_diag_r by auto. unfold mtaker. rewrite mget_mk by lia. rewrite nth_firstn_lt' by lia. ring.
  - repeat split; try (cbn [mr mc mmul mtakec mtaker diagl mkmat]; rewrite ?L; reflexivity).
    intros i j Hi Hj. rewrite mget_mmul by (cbn [mr mc mmul mtakec mtaker diagl mkmat]; lia).
    cbn [mc mtakec mkmat]. apply bsum_ext; intros c Hc.
    rewrite mget_mul_diag_l by auto. unfold mtakec. rewrite mget_mk by lia. rewrite nth_firstn_lt' by lia. ring.
  - assert (L' : length (map (osqrt K) (firstn q s)) = q) by now rewrite map_length.
    repeat split; try (cbn [mr mc mmul mtakec mtaker diagl mkmat]; rewrite ?L'; reflexivity).
    intros i j Hi Hj. rewrite mget_mmul by (cbn [mr mc mmul mtakec mtaker diagl mkmat]; lia).
    cbn [mc mmul diagl mkmat]. rewrite L'. apply bsum_ext; intros c Hc.
    rewrite mget_mul_diag_r, mget_mul_diag_l by auto.
    rewrite (nth_indep _ 0 (osqrt K 0)) by (rewrite L'; lia). rewrite map_nth, nth_firstn_lt' by lia.
    rewrite <- (Hs eq_refl c Hc) at 3. ring.
Qed.
End Variants.

(* ---------------------------------------------------------------- index interleaving: pure arithmetic *)
From Coq Require Import ZifyNat.
Ltac Zify.zify_post_hook ::= Z.div_mod_to_equations.

Lemma bit_lt2 k i : bit k i < 2.
Proof. unfold bit. apply Nat.mod_upper_bound. lia. Qed.
Lemma bit_0 i : bit 0 i = i mod 2.
Proof. unfold bit. cbn [Nat.pow]. now rewrite Nat.div_1_r. Qed.
Lemma bit_S k i : bit (S k) i = bit k (i / 2).
Proof. unfold bit. cbn [Nat.pow]. rewrite Nat.div_div by (try lia; apply Nat.pow_nonzero; lia). reflexivity. Qed.
Lemma modes_of_S o q i j :
  modes_of o (S q) i j = (if o then i mod 2 + 2 * (j mod 2) else 2 * (i mod 2) + j mod 2) :: modes_of o q (i / 2) (j / 2).
Proof.
  unfold modes_of. rewrite tab_cons. rewrite !bit_0. f_equal.
  apply tab_ext; intros k Hk. now rewrite !bit_S.
Qed.
Lemma modes_of_length o q i j : length (modes_of o q i j) = q.
Proof. apply tab_length. Qed.
Lemma modes_of_lt4 o q i j : Forall (fun t => t < 4) (modes_of o q i j).
Proof.
  apply Forall_forall. intros t Ht. apply in_tab in Ht as (k & Hk & ->).
  pose proof (bit_lt2 k i). pose proof (bit_lt2 k j). destruct o; cbv beta iota; lia.
Qed.
(* svd_matrix decodes exactly what full_matrix (order='F') encodes *)
Lemma row_col_modes q : forall i j, row_of (modes_of true q i j) = i mod 2 ^ q /\ col_of (modes_of true q i j) = j mod 2 ^ q.
Proof.
  induction q as [|q IH]; intros i j.
  - cbn. split; reflexivity.
  - rewrite modes_of_S. cbn [row_of col_of].
    assert (A1 : (i mod 2 + 2 * (j mod 2)) mod 2 = i mod 2) by lia.
    assert (A2 : (i mod 2 + 2 * (j mod 2)) / 2 = j mod 2) by lia.
    rewrite A1, A2. clear A1 A2. destruct (IH (i / 2) (j / 2)) as [E1 E2]. rewrite E1, E2.
    cbn [Nat.pow]. rewrite !Nat.mod_mul_r by (try lia; apply Nat.pow_nonzero; lia). split; reflexivity.
Qed.

Lemma prodn_repeat4 q : prodn (repeat 4 q) = 4 ^ q.
Proof. induction q as [|q IH]; [reflexivity|]. cbn [repeat prodn fold_right Nat.pow]. fold (prodn (repeat 4 q)). now rewrite IH. Qed.
Lemma inb_repeat4 ts : Forall (fun t => t < 4) ts -> inb (repeat 4 (length ts)) ts.
Proof. induction 1; cbn; constructor; auto. Qed.

Lemma digits4_cons q t c : t < 4 -> c < 4 ^ q -> digits4 (S q) (t * 4 ^ q + c) = t :: digits4 q c.
Proof.
  intros Ht Hc. unfold digits4. rewrite tab_cons.
  assert (N4 : forall m, 4 ^ m <> 0) by (intros; apply Nat.pow_nonzero; lia).
  f_equal.
  - replace (S q - 1 - 0) with q by lia. rewrite Nat.div_add_l by auto. rewrite (Nat.div_small c) by auto.
    rewrite Nat.add_0_r. now apply Nat.mod_small.
  - apply tab_ext; intros k Hk. replace (S q - 1 - S k) with (q - 1 - k) by lia.
    set (m := q - 1 - k). replace (4 ^ q) with (4 ^ S k * 4 ^ m) by (rewrite <- Nat.pow_add_r; f_equal; lia).
    rewrite Nat.mul_assoc, Nat.div_add_l by auto. cbn [Nat.pow].
    replace (t * (4 * 4 ^ k) + c / 4 ^ m) with (c / 4 ^ m + (t * 4 ^ k) * 4) by lia.
    now rewrite Nat.mod_add by lia.
Qed.
Lemma digits4_cpos q : forall ts, length ts = q -> Forall (fun t => t < 4) ts ->
  digits4 q (cpos (repeat 4 q) ts 0) = ts /\ cpos (repeat 4 q) ts 0 < 4 ^ q.
Proof.
  induction q as [|q IH]; intros ts L H.
  - destruct ts; [|discriminate]. cbn. split; [reflexivity|lia].
  - destruct ts as [|t ts]; [discriminate|]. inversion H as [|? ? Ht H']; subst. injection L as L.
    destruct (IH ts L H') as [E1 E2].
    cbn [repeat cpos]. rewrite Nat.mul_0_l, Nat.add_0_l.
    destruct (cpos_acc (repeat 4 q) ts t) as [P1 _]; [rewrite <- L; now apply inb_repeat4|].
    rewrite P1, prodn_repeat4. rewrite digits4_cons by auto. rewrite E1. split; [reflexivity|].
    cbn [Nat.pow]. nia.
Qed.

Lemma unravelF_fpos4 ts : Forall (fun t => t < 4) ts -> unravelF (repeat 4 (length ts)) (fpos4 ts) = ts.
Proof.
  induction 1 as [|t ts Ht H IH]; [reflexivity|]. cbn [length repeat fpos4 unravelF].
  replace ((t + 4 * fpos4 ts) mod 4) with t by lia. replace ((t + 4 * fpos4 ts) / 4) with (fpos4 ts) by lia.
  now rewrite IH.
Qed.
Lemma cpos4_cpos_acc ts : forall acc, fold_left (fun a t => a * 4 + t) ts acc = cpos (repeat 4 (length ts)) ts acc.
Proof. induction ts as [|t ts IH]; intros acc; [reflexivity|]. cbn [fold_left length repeat cpos]. apply IH. Qed.
Lemma cpos4_cpos ts : cpos4 ts = cpos (repeat 4 (length ts)) ts 0.
Proof. apply cpos4_cpos_acc. Qed.

(* ---------------------------------------------------------------- svd_matrix / full_matrix *)
Section Interleave.
Context {T : Type} (K : ops T).
Notation "0" := (o0 K).

(* interleave_get: the array handed to svd holds Y[i, j] at the C-order position of t_k = bit_k(i) + 2 bit_k(j) *)
Theorem interleave_get q Y i j : i < 2 ^ q -> j < 2 ^ q ->
  cpos (repeat 4 q) (modes_of true q i j) 0 < 4 ^ q /\
  nth (cpos (repeat 4 q) (modes_of true q i j) 0) (interleaved K q Y) 0 = mget K Y i j.
Proof.
  intros Hi Hj.
  destruct (digits4_cpos q (modes_of true q i j) (modes_of_length _ _ _ _) (modes_of_lt4 _ _ _ _)) as [E L].
  split; [exact L|]. unfold interleaved. rewrite nth_tab by exact L. cbv zeta. rewrite E.
  destruct (row_col_modes q i j) as [R C]. rewrite R, C. now rewrite !Nat.mod_small by auto.
Qed.

Lemma chain_last (Y : list (core T)) : forall r rl d, Y <> [] -> chain r Y rl -> cr2 (last Y d) = rl.
Proof.
  induction Y as [|G Y IH]; intros r rl d Hne H; [contradiction|].
  destruct Y as [|G' Y]; cbn in *; [intuition congruence|]. destruct H as [_ H]. apply (IH (cr2 G) rl d); [discriminate|exact H].
Qed.
Lemma map_cn_repeat (Y : list (core T)) : Forall (fun G => cn G = 4) Y -> map cn Y = repeat 4 (length Y).
Proof. induction 1; cbn; congruence. Qed.

(* full_matrix_get: both orders; entry (i, j) is the tensor entry at the interleaved multi-index *)
Theorem full_matrix_get (Y : list (core T)) o : Y <> [] -> chain 1 Y 1 -> Forall (fun G => cn G = 4) Y ->
  exists M, full_matrix K Y o = Ok M /\ mr M = 2 ^ length Y /\ mc M = 2 ^ length Y /\
    forall i j, i < 2 ^ length Y -> j < 2 ^ length Y -> mget K M i j = get K Y (modes_of o (length Y) i j).
Proof.
  intros Hne Hc H4. destruct Y as [|G0 Y']; [contradiction|].
  unfold full_matrix. set (Y := G0 :: Y') in *.
  assert (E1 : cr1 G0 = 1) by (destruct Hc; assumption).
  assert (E2 : cr2 (last Y G0) = 1) by (apply (chain_last Y 1 1 G0 Hne Hc)).
  assert (Es : map cn Y = repeat 4 (length Y)) by now apply map_cn_repeat.
  rewrite E1, E2, Es. cbn [Nat.eqb andb negb]. fold (prodn (repeat 4 (length Y))).
  rewrite prodn_repeat4, Nat.eqb_refl. cbn [negb].
  eexists. split; [reflexivity|]. split; [reflexivity|]. split; [reflexivity|].
  intros i j Hi Hj. rewrite mget_mk by auto. cbv zeta.
  pose proof (modes_of_lt4 o (length Y) i j) as F. pose proof (modes_of_length o (length Y) i j) as L.
  assert (Hin : inb (shape Y) (modes_of o (length Y) i j)).
  { unfold shape. rewrite Es. rewrite <- L at 1. now apply inb_repeat4. }
  destruct o.
  - rewrite <- L at 2. rewrite unravelF_fpos4 by exact F. rewrite <- Es. apply (full_get K Y _ Hin).
  - rewrite cpos4_cpos, L. rewrite <- Es. apply (full_get K Y _ Hin).
Qed.

(* interleave_inv: full_matrix (order='F') after svd_matrix: every entry of the result is the entry of the produced
   TT-tensor at the position where svd_matrix had put Y[i, j]; an exact decomposition gives Y back *)
Variable svdo : nat -> mat T -> mat T * list T * mat T.
Theorem interleave_inv q Y e rcap : 1 <= q -> mr Y = 2 ^ q -> mc Y = 2 ^ q ->
  exists Yt M, svd_matrix K svdo Y e rcap = Ok Yt /\ Yt = svd K svdo (repeat 4 q) (interleaved K q Y) e rcap /\
    full_matrix K Yt true = Ok M /\ mr M = 2 ^ q /\ mc M = 2 ^ q /\
    forall i j, i < 2 ^ q -> j < 2 ^ q ->
      let ts := modes_of true q i j in
      inb (repeat 4 q) ts /\ mget K M i j = get K Yt ts /\ nth (cpos (repeat 4 q) ts 0) (interleaved K q Y) 0 = mget K Y i j.
Proof.
  intros Hq Hr Hc. unfold svd_matrix. rewrite Hr, Hc.
  assert (P : 2 ^ q <> 0%nat) by (apply Nat.pow_nonzero; lia).
  rewrite Nat.log2_pow2 by lia.
  destruct (Nat.eqb_spec (2 ^ q) 0%nat) as [|_]; [contradiction|].
  replace (2 ^ q * 2 ^ q) with (4 ^ q) by (change 4 with (2 * 2); now rewrite Nat.pow_mul_l).
  rewrite Nat.eqb_refl. cbn [negb]. destruct (Nat.eqb_spec q 0%nat) as [|_]; [lia|].
  set (Yt := svd K svdo (repeat 4 q) (interleaved K q Y) e rcap).
  assert (Hne : repeat 4 q <> []) by (destruct q; [lia|discriminate]).
  destruct (svd_wf K svdo (repeat 4 q) (interleaved K q Y) e rcap Hne) as (W1 & W2 & _). fold Yt in W1, W2.
  assert (Lq : length Yt = q). { rewrite <- (map_length cn). fold (shape Yt). rewrite W2. apply repeat_length. }
  assert (H4 : Forall (fun G => cn G = 4) Yt).
  { apply Forall_forall. intros G HG. assert (In (cn G) (shape Yt)) by (unfold shape; now apply in_map).
    rewrite W2 in H. now apply repeat_spec in H. }
  assert (Hne' : Yt <> []) by (intros ->; cbn in Lq; lia).
  destruct (full_matrix_get Yt true Hne' W1 H4) as (M & F1 & F2 & F3 & F4). rewrite Lq in *.
  exists Yt, M. repeat split; auto.
  - pose proof (modes_of_length true q i j) as L. rewrite <- L at 1. apply inb_repeat4, modes_of_lt4.
  - apply (interleave_get q Y i j); auto.
Qed.
End Interleave.
