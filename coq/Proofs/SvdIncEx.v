(* C20: non-vacuity.  A concrete instance over Qc (2 x 2 x 2 target of TT-rank 2, expected rank 2, cap 2) on which
   EVERY hypothesis of the recovery theorem [incomplete_exact_run] holds: a generator meeting its contract, the layout,
   an exact SVD of the first block (singular values 4, 1), exact solves of the systems the run forms, the one-sided
   inverses of the sampled interface matrices.  The conclusion is also confirmed by computation. *)
From Coq Require Import List Arith Lia PeanoNat ZArith QArith Qcanon Bool.
From TV Require Import Num.Ops Lin.Tab Lin.BigSum Lin.Mat TT.Chain Model.Transformation Model.Svd Model.Sample
  Model.SvdInc Proofs.SvdIncP Proofs.SvdIncP2 Proofs.SvdIncP3 Proofs.SvdIncP4 Proofs.SvdIncP5.
Import ListNotations.
Open Scope nat_scope.

Definition q (a : Z) (b : positive) : Qc := Q2Qc (a # b).
Ltac qc_eq := apply Qc_is_canon; vm_compute; reflexivity.
Ltac two_cases i := destruct i as [|[|i]]; [| |exfalso; simpl in *; lia].

(* generator: choice(k, s, replace=False) = the first s indices, shuffle = identity *)
Definition chnr_ex (c k s : nat) : list nat := firstn s (seq 0 k).
Definition shuf_ex (c : nat) (l : list nat) : list nat := l.
Lemma chnr_ex_ok : forall c k s, Forall (fun x => x < k) (chnr_ex c k s).
Proof.
  intros c k s. unfold chnr_ex. apply Forall_firstn'. apply Forall_forall. intros x Hx. apply in_seq in Hx. lia.
Qed.
Lemma shuf_ex_ok : forall c l (Q : nat -> Prop), Forall Q l -> Forall Q (shuf_ex c l).
Proof. intros c l Q H. exact H. Qed.

Definition ns_ex : list nat := [2; 2; 2].
Definition II_ex := fst (fst (sample_tt chnr_ex shuf_ex ns_ex 2)).
Definition idx_ex := snd (fst (sample_tt chnr_ex shuf_ex ns_ex 2)).
Definition idm_ex := snd (sample_tt chnr_ex shuf_ex ns_ex 2).
Definition PS_ex := tt_PS chnr_ex shuf_ex 0 [] ns_ex 2.
Lemma layout_ex : layout ns_ex II_ex idx_ex idm_ex PS_ex.
Proof.
  apply (sample_tt_layout chnr_ex shuf_ex chnr_ex_ok shuf_ex_ok ns_ex 2); [simpl; lia | repeat constructor | lia].
Qed.
Lemma samples_ex : length II_ex = 16 /\ idx_ex = [0; 4; 12; 16] /\ idm_ex = [2; 2; 1] /\
  PS_ex = [([[]], [[0; 0]; [1; 1]]); ([[0]; [1]], [[0]; [1]]); ([[0; 0]; [1; 1]], [[]])].
Proof. vm_compute. auto. Qed.

(* target: cores G0 = identity (1 x 2 x 2), G1 (2 x 2 x 2) below, G2 = identity (2 x 2 x 1) *)
Definition G1tab : list (list (list Qc)) :=
  [[[q 4 1; q 1 1]; [q 2 1; q 0 1]]; [[q 0 1; q 5 1]; [q 1 1; q 1 1]]].
Definition Tg_ex : list (core Qc) :=
  [ mkcore 1 2 2 (fun _ i b => if Nat.eqb i b then q 1 1 else q 0 1);
    mk_core 2 2 2 G1tab;
    mkcore 2 2 1 (fun a i _ => if Nat.eqb a i then q 1 1 else q 0 1) ].
Definition F_ex := get OQc Tg_ex.

(* svd: the first block is diag(4, 1) = I diag(4, 1) I *)
Definition eye (m n : nat) : mat Qc := mkmat m n (fun i j => if Nat.eqb i j then q 1 1 else q 0 1).
Definition svd_ex (c : nat) (A : mat Qc) : mat Qc * list Qc * mat Qc := (eye (mr A) 2, [q 4 1; q 1 1], eye 2 (mc A)).
Lemma svd_ex_rows : forall c A, mr (fst (fst (svd_ex c A))) = mr A.
Proof. reflexivity. Qed.
(* lstsq: Cramer's rule for systems with a 2 x 2 matrix (all the run forms) *)
Definition lsq_ex (c : nat) (A b : mat Qc) : mat Qc :=
  let a00 := mget OQc A 0 0 in let a01 := mget OQc A 0 1 in
  let a10 := mget OQc A 1 0 in let a11 := mget OQc A 1 1 in
  let det := (a00 * a11 - a01 * a10)%Qc in
  mkmat 2 (mc b) (fun i j => if Nat.eqb i 0 then ((a11 * mget OQc b 0 j - a01 * mget OQc b 1 j) / det)%Qc
                             else ((a00 * mget OQc b 1 j - a10 * mget OQc b 0 j) / det)%Qc).

Definition run_ex := svd_incomplete_st OQc svd_ex lsq_ex II_ex (map F_ex II_ex) idx_ex idm_ex (q 0 1) 2%Z.
Definition sfin_ex : @st Qc := match run_ex with Ok s => s | Err _ => mk_st [] 0 0 [] end.

Lemma run_ex_ok : run_ex = Ok sfin_ex.
Proof. vm_compute. reflexivity. Qed.
Lemma reach_ex : reach OQc svd_ex lsq_ex ns_ex II_ex idx_ex idm_ex (map F_ex II_ex) (q 0 1) 2%Z (length ns_ex - 1) sfin_ex.
Proof. unfold reach. vm_compute. reflexivity. Qed.

Lemma lsq_ex_ok : forall A b, In (CLsq A b) (trace sfin_ex) -> forall c, lstsq_solves_at OQc lsq_ex c A b.
Proof.
  intros A b Hin c. vm_compute in Hin.
  repeat (destruct Hin as [Hin|Hin]; [try discriminate Hin; injection Hin as <- <-; intros _ _ i j Hi Hj;
                                      cbn [mr mc] in Hi, Hj; two_cases i; two_cases j; qc_eq|]).
  contradiction.
Qed.

Lemma skel_ex : forall c k, k < length ns_ex -> skel_used ns_ex PS_ex 2%Z k = true ->
  skel_exact_at OQc svd_ex ns_ex II_ex idx_ex PS_ex F_ex (q 0 1) 2%Z c k.
Proof.
  intros c k Hk Hu. destruct k as [|[|[|k]]]; [| vm_compute in Hu; discriminate | vm_compute in Hu; discriminate | simpl in Hk; lia].
  unfold skel_exact_at. cbv zeta.
  exists (fun b j => if Nat.eqb b j then (if Nat.eqb b 0 then q 2 1 else q 1 1) else q 0 1),
         (fun j b => if Nat.eqb j b then (if Nat.eqb b 0 then q 1 2 else q 1 1) else q 0 1).
  split.
  - intros i j Hi Hj. change (i < 2) in Hi. change (j < 2) in Hj. two_cases i; two_cases j; qc_eq.
  - intros i b Hi Hb. change (i < 2) in Hi.
    assert (Hb' : b < 2) by (revert Hb; vm_compute; auto). two_cases i; two_cases b; qc_eq.
Qed.

Definition tab2 (t : list (list Qc)) (a i : nat) : Qc := nth i (nth a t []) (q 0 1).
Lemma tt_hyp_ex : forall k, 1 <= k -> k < length ns_ex -> tt_rank_hyp OQc PS_ex Tg_ex k.
Proof.
  intros k H1 Hk. destruct k as [|[|[|k]]]; [lia| | |simpl in Hk; lia].
  - exists 2, (tab2 [[q 1 1; q 0 1]; [q 0 1; q 1 1]]), (tab2 [[q 1 4; q 0 1]; [q 0 1; q 1 1]]).
    split; [vm_compute; auto|]. split; [vm_compute; auto|]. split.
    + intros a a' Ha Ha'. two_cases a; two_cases a'; qc_eq.
    + intros a a' Ha Ha'. two_cases a; two_cases a'; qc_eq.
  - exists 2, (tab2 [[q 1 3; q (-1) 3]; [q (-1) 3; q 4 3]]), (tab2 [[q 1 1; q 0 1]; [q 0 1; q 1 1]]).
    split; [vm_compute; auto|]. split; [vm_compute; auto|]. split.
    + intros a a' Ha Ha'. two_cases a; two_cases a'; qc_eq.
    + intros a a' Ha Ha'. two_cases a; two_cases a'; qc_eq.
Qed.

(* all hypotheses hold, hence the conclusion: the run recovers the target at every multi-index *)
Lemma recover_ex : forall i, inb ns_ex i -> get OQc (cores sfin_ex) i = F_ex i.
Proof.
  assert (Hd : 2 <= length ns_ex) by (simpl; lia).
  assert (Hpos : Forall (fun n => 0 < n) ns_ex) by (repeat constructor).
  assert (Hsh : shape Tg_ex = ns_ex) by reflexivity.
  apply (incomplete_exact_run OQc OQc_rng svd_ex lsq_ex svd_ex_rows ns_ex II_ex idx_ex idm_ex PS_ex layout_ex Hd Hpos
           F_ex (q 0 1) 2%Z sfin_ex reach_ex lsq_ex_ok skel_ex).
  - intros k H1 Hk. apply (rank_hyp_HA OQc OQc_rng ns_ex II_ex idx_ex idm_ex PS_ex layout_ex); auto.
    apply (tt_rank_hyp_rank OQc OQc_rng ns_ex PS_ex Tg_ex Hsh); [lia|]. now apply tt_hyp_ex.
  - intros k H1 Hk. apply (rank_hyp_HC OQc OQc_rng ns_ex II_ex idx_ex idm_ex PS_ex layout_ex Hd); auto.
    apply (tt_rank_hyp_rank OQc OQc_rng ns_ex PS_ex Tg_ex Hsh); [lia|]. now apply tt_hyp_ex.
Qed.
(* the same by direct computation, with the ranks of the result *)
Lemma recover_ex_computed :
  ranks (cores sfin_ex) = [1; 2; 2; 1] /\
  get OQc (cores sfin_ex) [0; 0; 1] = q 1 1 /\ get OQc (cores sfin_ex) [1; 0; 1] = q 5 1 /\
  F_ex [0; 0; 1] = q 1 1 /\ F_ex [1; 0; 1] = q 5 1.
Proof. split; [vm_compute; reflexivity|]. repeat split; qc_eq. Qed.

(* the SVD used above meets the full SVD contract [svd_exact_on] on the block it is applied to *)
Lemma svd_exact_ex : forall c k, k < length ns_ex -> skel_used ns_ex PS_ex 2%Z k = true ->
  svd_exact_on OQc svd_ex c (blockmat OQc ns_ex idx_ex PS_ex (map F_ex II_ex) k) (q 0 1) (skel_r ns_ex 2%Z k).
Proof.
  intros c k Hk Hu. destruct k as [|[|[|k]]]; [| vm_compute in Hu; discriminate | vm_compute in Hu; discriminate | simpl in Hk; lia].
  unfold svd_exact_on. cbv zeta. split; [vm_compute; lia|]. split; [reflexivity|]. split; [|split; [|split]].
  - intros i j Hi Hj. change (i < 2) in Hi. change (j < 2) in Hj. two_cases i; two_cases j; qc_eq.
  - intros a b Ha Hb. change (a < 2) in Ha. change (b < 2) in Hb. two_cases a; two_cases b; qc_eq.
  - intros a Hq Ha. exfalso. revert Hq Ha. vm_compute. lia.
  - exists (fun a => if Nat.eqb a 0 then q 1 2 else q 1 1). intros a Ha.
    assert (Ha' : a < 2) by (revert Ha; vm_compute; auto). two_cases a; split; qc_eq.
Qed.
