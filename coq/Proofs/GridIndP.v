From Coq Require Import List Arith Lia PeanoNat Bool.
From TV Require Import Num.Ops Lin.Tab Model.GridInd.
Import ListNotations.

Lemma bits_le_length q i : length (bits_le q i) = q.
Proof. revert i; induction q; intros; simpl; auto. Qed.
Lemma bits_le_bit q i : Forall (fun b => b < 2) (bits_le q i).
Proof.
  revert i; induction q; intros i; cbn [bits_le]; constructor; auto.
  apply Nat.mod_upper_bound; lia.
Qed.
Lemma unbits_bits q : forall i, i < 2 ^ q -> unbits_le (bits_le q i) = i.
Proof.
  induction q; intros i Hi; cbn [bits_le unbits_le].
  - simpl in Hi. lia.
  - rewrite Nat.pow_succ_r' in Hi. rewrite IHq.
    + rewrite (Nat.div_mod i 2) at 3 by lia. lia.
    + apply Nat.div_lt_upper_bound; lia.
Qed.
Lemma bits_unbits l : Forall (fun b => b < 2) l -> bits_le (length l) (unbits_le l) = l.
Proof.
  induction l as [|b l IH]; intros H; cbn [bits_le unbits_le length]; auto. inversion H as [|? ? Hb Hl]; subst.
  f_equal.
  - rewrite (Nat.mul_comm 2), Nat.mod_add by lia. apply Nat.mod_small; lia.
  - rewrite (Nat.mul_comm 2), Nat.div_add by lia.
    rewrite (Nat.div_small b 2) by lia. rewrite Nat.add_0_l. apply IH; auto.
Qed.
Lemma unbits_lt l : Forall (fun b => b < 2) l -> unbits_le l < 2 ^ length l.
Proof.
  induction l as [|b l IH]; intros H; cbn [unbits_le length]; [simpl; lia|]. inversion H as [|? ? Hb Hl]; subst.
  specialize (IH Hl). rewrite Nat.pow_succ_r'. lia.
Qed.

Lemma log2_exact_pow q : log2_exact (2 ^ q) = Some q.
Proof. unfold log2_exact. rewrite Nat.log2_pow2 by lia. now rewrite Nat.eqb_refl. Qed.
Lemma log2_exact_some n q : log2_exact n = Some q -> n = 2 ^ q.
Proof.
  unfold log2_exact. destruct (Nat.eqb_spec (2 ^ Nat.log2 n) n); [|discriminate].
  intros H; injection H as <-. auto.
Qed.
Lemma log2_exact_none n : (forall q, n <> 2 ^ q) -> log2_exact n = None.
Proof.
  intros H. destruct (log2_exact n) eqn:E; auto. apply log2_exact_some in E. exfalso. eapply H; eauto.
Qed.

Lemma chunks_flat_map q idx : chunks q (length idx) (flat_map (bits_le q) idx) = map (bits_le q) idx.
Proof.
  induction idx as [|i idx IH]; simpl; auto.
  rewrite firstn_app, bits_le_length, Nat.sub_diag, firstn_O, app_nil_r.
  rewrite firstn_all2 by (rewrite bits_le_length; lia).
  rewrite skipn_app, bits_le_length, Nat.sub_diag. simpl.
  rewrite skipn_all2 by (rewrite bits_le_length; lia). simpl. now rewrite IH.
Qed.
Lemma flat_map_length_const {A B} (f : A -> list B) q l : (forall x, length (f x) = q) ->
  length (flat_map f l) = length l * q.
Proof. intros H. induction l; simpl; auto. rewrite app_length, H, IHl. lia. Qed.
Lemma forallb_lt2_bits q idx : forallb (fun x => x <? 2) (flat_map (bits_le q) idx) = true.
Proof.
  apply forallb_forall. intros x Hx. apply in_flat_map in Hx as (i & _ & Hx).
  pose proof (bits_le_bit q i) as F. rewrite Forall_forall in F. apply Nat.ltb_lt. auto.
Qed.

(* TT -> QTT -> TT is the identity on in-range multi-indices (every d, every q >= 1) *)
Lemma tt_qtt_tt q idx : 1 <= q -> Forall (fun i => i < 2 ^ q) idx ->
  exists b, ind_tt_to_qtt1 (2 ^ q) idx = Ok b /\ length b = length idx * q /\
            Forall (fun x => x < 2) b /\ ind_qtt_to_tt1 q b = Ok idx.
Proof.
  intros Hq Hidx. unfold ind_tt_to_qtt1. rewrite log2_exact_pow.
  assert (E : forallb (fun i => i <? 2 ^ q) idx = true).
  { apply forallb_forall. intros x Hx. rewrite Forall_forall in Hidx. apply Nat.ltb_lt. auto. }
  rewrite E. eexists; split; [reflexivity|].
  assert (L : length (flat_map (bits_le q) idx) = length idx * q)
    by (apply flat_map_length_const; intros; apply bits_le_length).
  split; [exact L|]. split.
  { apply Forall_forall. intros x Hx. apply in_flat_map in Hx as (i & _ & Hx).
    pose proof (bits_le_bit q i) as F. rewrite Forall_forall in F. auto. }
  unfold ind_qtt_to_tt1. rewrite L, Nat.div_mul by lia.
  rewrite firstn_all2 by lia. rewrite forallb_lt2_bits. f_equal.
  rewrite chunks_flat_map, map_map.
  rewrite <- (map_id idx) at 2. apply map_ext_in. intros i Hi. apply unbits_bits.
  rewrite Forall_forall in Hidx. auto.
Qed.

Lemma chunks_spec q : forall d b, length b = d * q ->
  length (chunks q d b) = d /\ Forall (fun c => length c = q) (chunks q d b) /\ concat (chunks q d b) = b.
Proof.
  induction d; intros b L; simpl in *.
  - destruct b; [|discriminate]. repeat split; constructor.
  - destruct (IHd (skipn q b)) as (A & B & C). { rewrite skipn_length. lia. }
    repeat split.
    + now rewrite A.
    + constructor; auto. rewrite firstn_length. lia.
    + rewrite C. apply firstn_skipn.
Qed.

(* QTT -> TT -> QTT is the identity on bit strings of length d*q *)
Lemma qtt_tt_qtt q d b : 1 <= q -> length b = d * q -> Forall (fun x => x < 2) b ->
  exists idx, ind_qtt_to_tt1 q b = Ok idx /\ length idx = d /\ Forall (fun i => i < 2 ^ q) idx /\
              ind_tt_to_qtt1 (2 ^ q) idx = Ok b.
Proof.
  intros Hq L Hb. unfold ind_qtt_to_tt1. rewrite L, Nat.div_mul by lia.
  rewrite firstn_all2 by lia.
  assert (E : forallb (fun x => x <? 2) b = true).
  { apply forallb_forall. intros x Hx. rewrite Forall_forall in Hb. apply Nat.ltb_lt. auto. }
  rewrite E. eexists; split; [reflexivity|].
  destruct (chunks_spec q d b L) as (A & B & C).
  assert (Hbits : Forall (fun c => Forall (fun x => x < 2) c) (chunks q d b)).
  { apply Forall_forall. intros c Hc. apply Forall_forall. intros x Hx.
    rewrite Forall_forall in Hb. apply Hb. rewrite <- C. apply in_concat. eauto. }
  split; [now rewrite map_length|]. split.
  { apply Forall_forall. intros i Hi. apply in_map_iff in Hi as (c & <- & Hc).
    rewrite Forall_forall in B, Hbits. rewrite <- (B c Hc). apply unbits_lt. auto. }
  unfold ind_tt_to_qtt1. rewrite log2_exact_pow.
  assert (E2 : forallb (fun i => i <? 2 ^ q) (map unbits_le (chunks q d b)) = true).
  { apply forallb_forall. intros i Hi. apply in_map_iff in Hi as (c & <- & Hc). apply Nat.ltb_lt.
    rewrite Forall_forall in B, Hbits. rewrite <- (B c Hc). apply unbits_lt. auto. }
  rewrite E2. f_equal. rewrite flat_map_concat_map, map_map. rewrite <- C at 2. f_equal.
  rewrite <- (map_id (chunks q d b)) at 2. apply map_ext_in. intros c Hc.
  rewrite Forall_forall in B, Hbits. rewrite <- (B c Hc). apply bits_unbits. auto.
Qed.

Lemma tt_to_qtt_rejects n idx : (forall q, n <> 2 ^ q) -> ind_tt_to_qtt1 n idx = Err ValueError.
Proof. intros H. unfold ind_tt_to_qtt1. now rewrite log2_exact_none. Qed.
Lemma tt_to_qtt_rejects_range q idx : Exists (fun i => 2 ^ q <= i) idx -> ind_tt_to_qtt1 (2 ^ q) idx = Err ValueError.
Proof.
  intros H. unfold ind_tt_to_qtt1. rewrite log2_exact_pow.
  assert (E : forallb (fun i => i <? 2 ^ q) idx = false).
  { apply Exists_exists in H as (i & Hi & Hge). apply not_true_is_false. intros F.
    rewrite forallb_forall in F. specialize (F i Hi). apply Nat.ltb_lt in F. lia. }
  now rewrite E.
Qed.

(* batches: sequence of Ok's *)
Lemma sequence_ok {A} (l : list (result A)) (r : list A) :
  Forall2 (fun x a => x = Ok a) l r -> sequence l = Ok r.
Proof. induction 1; simpl; auto. subst. rewrite IHForall2. reflexivity. Qed.
Lemma sequence_err {A} (l : list (result A)) e :
  (exists pre a post, l = map Ok pre ++ Err e :: post /\ a = e) -> sequence l = Err e.
Proof.
  intros (pre & a & post & -> & _). induction pre; simpl; auto. now rewrite IHpre.
Qed.
