(* C16 at the reals: size of the mantissa, half-integer exponent of the norm, branches of accuracy,
   the shift law, the d-th root.  [ilog2] is any oracle meeting the contract of floor(log2 .). *)
From Coq Require Import List Arith Lia PeanoNat ZArith Ring Bool Reals Lra.
From TV Require Import Num.Ops Lin.Tab Lin.BigSum TT.Chain Model.ActOne Model.Stab Proofs.StabP.
Import ListNotations.
Local Open Scope R_scope.

(* ---------- the instance ---------- *)
Definition Rleb (a b : R) : bool := if Rle_dec a b then true else false.
Definition Rltb (a b : R) : bool := if Rlt_dec a b then true else false.
Definition Reqb (a b : R) : bool := if Req_EM_T a b then true else false.
Definition OR : ops R :=
  mkops R 0 1 Rplus Rmult Rminus Ropp Rdiv sqrt Rabs Rleb Rltb Reqb IZR (powerRZ 2).
Lemma OR_rng : rng OR. Proof. exact RTheory. Qed.
Lemma two_neq0 : 2 <> 0. Proof. lra. Qed.
Lemma p2_pos z : 0 < powerRZ 2 z. Proof. apply powerRZ_lt. lra. Qed.
Lemma OR_laws : stab_laws OR.
Proof.
  split; [exact OR_rng|]. split; [|split]; cbn.
  - intros a b. apply powerRZ_add. exact two_neq0.
  - reflexivity.
  - intros x p. field. apply Rgt_not_eq. apply p2_pos.
Qed.
Lemma Rleb_true a b : Rleb a b = true <-> a <= b.
Proof. unfold Rleb. destruct (Rle_dec a b); split; auto; discriminate. Qed.
Lemma Rleb_false a b : Rleb a b = false <-> b < a.
Proof. unfold Rleb. destruct (Rle_dec a b); split; try discriminate; auto; lra. Qed.
Lemma Rltb_true a b : Rltb a b = true <-> a < b.
Proof. unfold Rltb. destruct (Rlt_dec a b); split; auto; discriminate. Qed.
Lemma Rltb_false a b : Rltb a b = false <-> b <= a.
Proof. unfold Rltb. destruct (Rlt_dec a b); split; try discriminate; auto; lra. Qed.

(* ---------- powers of two ---------- *)
Lemma p2_succ z : powerRZ 2 (z + 1) = 2 * powerRZ 2 z.
Proof. rewrite powerRZ_add by exact two_neq0. rewrite powerRZ_1. ring. Qed.
Lemma p2_ge1 n : 1 <= powerRZ 2 (Z.of_nat n).
Proof. rewrite <- pow_powerRZ. apply pow_R1_Rle. lra. Qed.
Lemma p2_mono a b : (a <= b)%Z -> powerRZ 2 a <= powerRZ 2 b.
Proof.
  intros H. replace b with (a + Z.of_nat (Z.to_nat (b - a)))%Z by lia.
  rewrite powerRZ_add by exact two_neq0. pose proof (p2_ge1 (Z.to_nat (b - a))). pose proof (p2_pos a). nra.
Qed.
(* the contract determines the oracle *)
Lemma ilog2_unique v a b : powerRZ 2 a <= v < powerRZ 2 (a + 1) -> powerRZ 2 b <= v < powerRZ 2 (b + 1) -> a = b.
Proof.
  intros [A1 A2] [B1 B2]. destruct (Z.lt_trichotomy a b) as [H|[H|H]]; auto; exfalso.
  - pose proof (p2_mono (a + 1) b ltac:(lia)). lra.
  - pose proof (p2_mono (b + 1) a ltac:(lia)). lra.
Qed.

(* contract of floor(log2 .), with a slack factor lo <= 1 on the lower side
   (lo = 1: the exact contract; np.log2 meets it with lo = 1 - 2^-53, see the harness) *)
Definition ilog2_ok (lo : R) (ilog2 : R -> Z) : Prop :=
  forall v, 0 < v -> lo * powerRZ 2 (ilog2 v) <= v < powerRZ 2 (ilog2 v + 1).
Lemma ilog2_shift ilog2 v s : ilog2_ok 1 ilog2 -> 0 < v -> ilog2 (powerRZ 2 s * v) = (ilog2 v + s)%Z.
Proof.
  intros H Hv. pose proof (p2_pos s) as Hs. assert (Hsv : 0 < powerRZ 2 s * v) by nra.
  destruct (H v Hv) as [A1 A2]. destruct (H _ Hsv) as [B1 B2].
  apply (ilog2_unique (powerRZ 2 s * v)); [lra|].
  replace (ilog2 v + s + 1)%Z with ((ilog2 v + 1) + s)%Z by ring.
  rewrite !(powerRZ_add 2 _ s) by exact two_neq0. split; nra.
Qed.

(* ---------- max of absolute values ---------- *)
Definition fmax (m : R) (l : list R) : R := fold_left (fun m x => omax OR m (oabs OR x)) l m.
Lemma vmax_fmax l : vmax OR l = fmax 0 l. Proof. reflexivity. Qed.
Lemma omax_Rmax a b : omax OR a b = Rmax a b.
Proof. unfold omax, Rmax. cbn. unfold Rleb. destruct (Rle_dec a b); reflexivity. Qed.
Lemma fmax_cons m x l : fmax m (x :: l) = fmax (Rmax m (Rabs x)) l.
Proof. unfold fmax. cbn [fold_left]. now rewrite omax_Rmax. Qed.
Lemma fmax_ge_acc l : forall m, m <= fmax m l.
Proof.
  induction l as [|x l IH]; intros m; [unfold fmax; cbn; lra|]. rewrite fmax_cons.
  eapply Rle_trans; [apply Rmax_l|apply IH].
Qed.
Lemma fmax_ge_in l : forall m x, In x l -> Rabs x <= fmax m l.
Proof.
  induction l as [|y l IH]; intros m x H; [destruct H|]. destruct H as [->|H]; rewrite fmax_cons.
  - eapply Rle_trans; [apply Rmax_r|apply fmax_ge_acc].
  - now apply IH.
Qed.
Lemma fmax_attained l : forall m, fmax m l = m \/ exists x, In x l /\ fmax m l = Rabs x.
Proof.
  induction l as [|y l IH]; intros m; [left; reflexivity|]. rewrite fmax_cons.
  destruct (IH (Rmax m (Rabs y))) as [E|(x & Hx & E)].
  - rewrite E. unfold Rmax. destruct (Rle_dec m (Rabs y)); [right; exists y; split; [left|]; auto|left; auto].
  - right. exists x. split; [right|]; auto.
Qed.
Lemma fmax_scale c l : 0 <= c -> forall m, fmax (c * m) (map (fun x => c * x) l) = c * fmax m l.
Proof.
  intros Hc. induction l as [|y l IH]; intros m; [reflexivity|]. cbn [map]. rewrite !fmax_cons.
  rewrite Rabs_mult, (Rabs_pos_eq c) by exact Hc. rewrite RmaxRmult by exact Hc. apply IH.
Qed.
Lemma vmax_scale c l : 0 <= c -> vmax OR (map (fun x => c * x) l) = c * vmax OR l.
Proof. intros Hc. rewrite !vmax_fmax. rewrite <- (fmax_scale c l Hc 0). now rewrite Rmult_0_r. Qed.
Lemma vmax_nonneg l : 0 <= vmax OR l. Proof. rewrite vmax_fmax. apply fmax_ge_acc. Qed.
Lemma vmax_ge l x : In x l -> Rabs x <= vmax OR l. Proof. rewrite vmax_fmax. apply fmax_ge_in. Qed.
Lemma vmax_zero l : vmax OR l = 0 -> forall x, In x l -> x = 0.
Proof.
  intros E x Hx. pose proof (vmax_ge l x Hx). rewrite E in H. pose proof (Rabs_pos x).
  destruct (Req_dec x 0); auto. pose proof (Rabs_pos_lt x H1). lra.
Qed.
Lemma vmax_single x : vmax OR [x] = Rabs x.
Proof. rewrite vmax_fmax, fmax_cons. unfold fmax; cbn. apply Rmax_right. apply Rabs_pos. Qed.

Section StabR.
Variable ilog2 : R -> Z.
Variable thr : R.

(* ---------- core_stab_spec: mantissa in [lo, 2) by max-modulus ---------- *)
Definition mant_ok (lo : R) (l : list R) : Prop := lo <= vmax OR l < 2.
Lemma div_as_scale p l : map (fun x => x / powerRZ 2 p) l = map (fun x => / powerRZ 2 p * x) l.
Proof. apply map_ext. intros x. unfold Rdiv. ring. Qed.
Lemma stab_entries_mantissa lo l p0 : ilog2_ok lo ilog2 -> 0 <= thr -> thr < vmax OR l ->
  mant_ok lo (fst (stab_entries OR ilog2 thr l p0)) /\
  (forall q, In q (fst (stab_entries OR ilog2 thr l p0)) -> Rabs q < 2) /\
  snd (stab_entries OR ilog2 thr l p0) = (p0 + ilog2 (vmax OR l))%Z.
Proof.
  intros Hl Ht Hv. unfold stab_entries. cbn [oleb OR].
  destruct (Rleb (vmax OR l) thr) eqn:E; [apply Rleb_true in E; lra|]. cbn [fst snd odiv opow2 OR].
  assert (Hpos : 0 < vmax OR l) by lra. destruct (Hl _ Hpos) as [A1 A2].
  set (p := ilog2 (vmax OR l)) in *. pose proof (p2_pos p) as Hp.
  assert (Hip : 0 < / powerRZ 2 p) by (apply Rinv_0_lt_compat; exact Hp).
  assert (M : vmax OR (map (fun x => x / powerRZ 2 p) l) = / powerRZ 2 p * vmax OR l).
  { rewrite div_as_scale. apply vmax_scale. lra. }
  assert (B : mant_ok lo (map (fun x => x / powerRZ 2 p) l)).
  { unfold mant_ok. rewrite M. rewrite p2_succ in A2. split.
    - apply (Rmult_le_reg_l (powerRZ 2 p)); [exact Hp|]. rewrite <- Rmult_assoc, Rinv_r by lra. lra.
    - apply (Rmult_lt_reg_l (powerRZ 2 p)); [exact Hp|]. rewrite <- Rmult_assoc, Rinv_r by lra. lra. }
  split; [exact B|]. split; [|reflexivity].
  intros q Hq. pose proof (vmax_ge _ q Hq). destruct B. lra.
Qed.
(* below the threshold nothing happens (restated at R for the property file) *)
Lemma stab_entries_below_R l p0 : vmax OR l <= thr -> stab_entries OR ilog2 thr l p0 = (l, p0).
Proof. intros H. apply stab_entries_below. cbn. now apply Rleb_true. Qed.

Lemma centries_cmap f (G : core R) : centries (cmap f G) = map f (centries G).
Proof.
  unfold centries, cmap; cbn [dat]. rewrite !concat_map. reflexivity.
Qed.
(* core_stab_spec on a 3-dimensional core: G = 2^p Q exactly (every entry), max|Q| in [lo, 2), p = p0 + ilog2 *)
Theorem core_stab_spec lo (G : core R) p0 : ilog2_ok lo ilog2 -> 0 <= thr -> wfdat G ->
  let Q := fst (core_stab OR ilog2 thr G p0) in let p := snd (core_stab OR ilog2 thr G p0) in
  (forall a i b, (a < cr1 G)%nat -> (i < cn G)%nat -> (b < cr2 G)%nat ->
     cget OR G a i b * powerRZ 2 p0 = cget OR Q a i b * powerRZ 2 p) /\
  (vmax OR (centries G) <= thr -> Q = G /\ p = p0) /\
  (thr < vmax OR (centries G) -> lo <= vmax OR (centries Q) < 2 /\ p = (p0 + ilog2 (vmax OR (centries G)))%Z).
Proof.
  intros Hl Ht W. cbv zeta. destruct OR_laws as (R_ & A_ & Z_ & D_). split; [|split].
  - intros a i b Ha Hi Hb. symmetry. exact (core_stab_exact OR ilog2 thr R_ A_ D_ G p0 a i b W Ha Hi Hb).
  - intros H. rewrite core_stab_below by (cbn; now apply Rleb_true). auto.
  - intros H. unfold core_stab. cbn [oleb OR].
    destruct (Rleb (vmax OR (centries G)) thr) eqn:E; [apply Rleb_true in E; lra|]. cbn [fst snd].
    rewrite centries_cmap.
    pose proof (stab_entries_mantissa lo (centries G) p0 Hl Ht H) as (B & _ & _).
    unfold stab_entries in B. cbn [oleb OR] in B. rewrite E in B. cbn [fst] in B. split; [exact B|reflexivity].
Qed.

(* ---------- mul_scalar(use_stab): the mantissa is below the threshold or in [lo, 2) ---------- *)
Definition state_ok (lo : R) (l : list R) : Prop := vmax OR l <= thr \/ mant_ok lo l.
Lemma stab_entries_state lo l p0 : ilog2_ok lo ilog2 -> 0 <= thr ->
  state_ok lo (fst (stab_entries OR ilog2 thr l p0)).
Proof.
  intros Hl Ht. destruct (Rle_dec (vmax OR l) thr) as [H|H].
  - left. now rewrite stab_entries_below_R.
  - right. apply stab_entries_mantissa; auto. lra.
Qed.
Lemma run2s_state lo Y1 : forall Y2 v p, ilog2_ok lo ilog2 -> 0 <= thr -> Y1 <> [] -> Y2 <> [] ->
  state_ok lo (fst (run2s OR ilog2 thr v p Y1 Y2)).
Proof.
  induction Y1 as [|G1 Y1 IH]; intros [|G2 Y2] v p Hl Ht N1 N2; try congruence. cbn [run2s].
  destruct Y1 as [|G1' Y1]; [cbn [run2s fst snd]; now apply stab_entries_state|].
  destruct Y2 as [|G2' Y2]; [cbn [run2s fst snd]; now apply stab_entries_state|].
  apply IH; auto; discriminate.
Qed.
Lemma run2s_length Y1 : forall Y2 v p d1 d2, Y1 <> [] -> length Y1 = length Y2 ->
  length (fst (run2s OR ilog2 thr v p Y1 Y2)) = (cr2 (last Y1 d1) * cr2 (last Y2 d2))%nat.
Proof.
  induction Y1 as [|G1 Y1 IH]; intros [|G2 Y2] v p d1 d2 N L; try congruence; try discriminate L.
  cbn [run2s]. destruct Y1 as [|G1' Y1]; destruct Y2 as [|G2' Y2]; try discriminate L.
  - cbn [run2s last fst snd]. rewrite stab_entries_length. apply tab_length.
  - change (last (G1 :: G1' :: Y1) d1) with (last (G1' :: Y1) d1).
    change (last (G2 :: G2' :: Y2) d2) with (last (G2' :: Y2) d2).
    apply IH; [discriminate|]. cbn [length] in L |- *. lia.
Qed.
(* the scalar returned by mul_scalar(use_stab): |v| <= thr (with the repaired default thr = 0: v = 0) or lo <= |v| < 2 *)
Theorem mul_scalar_stab_mantissa lo Y1 Y2 d1 d2 : ilog2_ok lo ilog2 -> 0 <= thr ->
  Y1 <> [] -> length Y1 = length Y2 -> cr2 (last Y1 d1) = 1%nat -> cr2 (last Y2 d2) = 1%nat ->
  let v := fst (mul_scalar_stab OR ilog2 thr Y1 Y2) in Rabs v <= thr \/ lo <= Rabs v < 2.
Proof.
  intros Hl Ht N L E1 E2. cbv zeta. unfold mul_scalar_stab. cbn [fst].
  assert (N2 : Y2 <> []) by (destruct Y1, Y2; try congruence; discriminate L).
  pose proof (run2s_state lo Y1 Y2 [o1 OR] 0%Z Hl Ht N N2) as S.
  pose proof (run2s_length Y1 Y2 [o1 OR] 0%Z d1 d2 N L) as Ln. rewrite E1, E2 in Ln.
  destruct (fst (run2s OR ilog2 thr [o1 OR] 0%Z Y1 Y2)) as [|x [|y l]]; try discriminate Ln.
  cbn [nth]. unfold state_ok, mant_ok in S. rewrite vmax_single in S. exact S.
Qed.

(* ---------- norm(use_stab): (sqrt v, p/2), half-integer exponent ---------- *)
Lemma Rpower_half h : Rpower 2 (IZR h / 2) = sqrt (powerRZ 2 h).
Proof.
  rewrite <- Rpower_sqrt by apply p2_pos. rewrite powerRZ_Rpower by lra. rewrite Rpower_mult. reflexivity.
Qed.
(* z * 2^(h/2) = ||Y||  where ||Y|| = sqrt <Y, Y> and <Y, Y> is the plain scalar product of Model/ActOne *)
Theorem norm_stab_spec Y :
  let z := fst (norm_stab OR ilog2 thr Y) in let h := snd (norm_stab OR ilog2 thr Y) in
  0 <= z /\ z * Rpower 2 (IZR h / 2) = sqrt (mul_scalar OR Y Y) /\
  (0 <= mul_scalar OR Y Y -> z * z * powerRZ 2 h = mul_scalar OR Y Y).
Proof.
  cbv zeta. unfold norm_stab. cbn [fst snd].
  destruct OR_laws as (R_ & A_ & Z_ & D_).
  pose proof (mul_scalar_stab_exact OR ilog2 thr R_ A_ Z_ D_ Y Y) as E. cbn [omul opow2 OR] in E.
  set (v := fst (mul_scalar_stab OR ilog2 thr Y Y)) in *. set (h := snd (mul_scalar_stab OR ilog2 thr Y Y)) in *.
  cbn [oltb osqrt o0 OR]. pose proof (p2_pos h) as Hp. rewrite Rpower_half.
  destruct (Rltb 0 v) eqn:B.
  - apply Rltb_true in B. split; [apply sqrt_pos|]. split.
    + rewrite <- E. rewrite <- sqrt_mult_alt by lra. f_equal. ring.
    + intros _. rewrite <- E. rewrite sqrt_sqrt by lra. ring.
  - apply Rltb_false in B. split; [lra|]. split.
    + rewrite Rmult_0_l. symmetry. apply sqrt_neg_0. rewrite <- E. nra.
    + intros H. rewrite <- E in H |- *. assert (v = 0) by nra. subst v. rewrite H0. ring.
Qed.

(* ---------- accuracy: all branches ---------- *)
Variable isinf : R -> bool.
Hypothesis isinf_false : forall x, isinf x = false.      (* exact arithmetic has no infinities *)
Lemma pow2h_Rpower h : pow2h OR h = Rpower 2 (IZR h / 2).
Proof.
  unfold pow2h. cbn [opow2 omul osqrt oadd o1 OR]. destruct (Z.even h) eqn:Ev.
  - apply Z.even_spec in Ev. destruct Ev as [k ->]. rewrite Z.mul_comm, Z.div_mul by lia.
    rewrite powerRZ_Rpower by lra. f_equal. rewrite mult_IZR. field.
  - assert (Od : Z.odd h = true) by (rewrite <- Z.negb_even, Ev; reflexivity).
    apply Z.odd_spec in Od. destruct Od as [k ->].
    replace (2 * k + 1 - 1)%Z with (k * 2)%Z by ring. rewrite Z.div_mul by lia.
    rewrite powerRZ_Rpower by lra. rewrite <- Rpower_sqrt by lra. rewrite <- Rpower_plus. f_equal.
    rewrite plus_IZR, mult_IZR. field.
Qed.
Lemma Rpower_half_sub h1 h2 :
  Rpower 2 (IZR (h1 - h2) / 2) = Rpower 2 (IZR h1 / 2) / Rpower 2 (IZR h2 / 2).
Proof.
  replace (IZR (h1 - h2) / 2) with (IZR h1 / 2 + - (IZR h2 / 2)) by (rewrite minus_IZR; field).
  rewrite Rpower_plus, Rpower_Ropp. reflexivity.
Qed.
Definition nrm2 (Y : list (core R)) : R := sqrt (mul_scalar OR Y Y).   (* ||Y|| *)
Lemma Reqb_true a b : Reqb a b = true <-> a = b.
Proof. unfold Reqb. destruct (Req_EM_T a b); split; auto; discriminate. Qed.
(* the first test of accuracy (commit 0f9009d): z1 == 0 and |z2| >= tiny *)
Lemma guard_true (tiny z1 z2 : R) :
  oeqb OR z1 (o0 OR) && oleb OR tiny (oabs OR z2) = true <-> z1 = 0 /\ tiny <= Rabs z2.
Proof.
  cbn [oeqb oleb oabs o0 OR]. rewrite andb_true_iff, Reqb_true, Rleb_true. tauto.
Qed.
(* the tail of accuracy (= the whole function before 0f9009d): its four branches *)
Lemma accuracy_tail_spec big tiny Y1 Y2 : 0 < tiny ->
  let zp1 := norm_stab OR ilog2 thr (sub OR Y1 Y2) in
  let zp2 := norm_stab OR ilog2 thr Y2 in
  let r := accuracy_tail OR isinf big tiny (fst zp1) (snd zp1) (fst zp2) (snd zp2) in
  ((snd zp1 - snd zp2 > 1000)%Z -> r = big) /\
  ((snd zp1 - snd zp2 < -1000)%Z -> r = 0) /\
  ((-1000 <= snd zp1 - snd zp2 <= 1000)%Z -> Rabs (fst zp2) < tiny -> r = -1) /\
  ((-1000 <= snd zp1 - snd zp2 <= 1000)%Z -> tiny <= Rabs (fst zp2) -> r = nrm2 (sub OR Y1 Y2) / nrm2 Y2).
Proof.
  intros Ht. cbv zeta. unfold accuracy_tail.
  pose proof (norm_stab_spec (sub OR Y1 Y2)) as (P1 & N1 & _). pose proof (norm_stab_spec Y2) as (P2 & N2 & _).
  cbv zeta in N1, N2, P1, P2.
  set (zp1 := norm_stab OR ilog2 thr (sub OR Y1 Y2)) in *. set (zp2 := norm_stab OR ilog2 thr Y2) in *.
  rewrite !isinf_false. cbn [orb oltb oabs oopp o1 o0 omul odiv OR].
  repeat split.
  - intros H. destruct (Z.gtb_spec (snd zp1 - snd zp2) 1000); [reflexivity|lia].
  - intros H. destruct (Z.gtb_spec (snd zp1 - snd zp2) 1000); [lia|].
    destruct (Z.ltb_spec (snd zp1 - snd zp2) (-1000)); [reflexivity|lia].
  - intros [Ha Hb] Hz. destruct (Z.gtb_spec (snd zp1 - snd zp2) 1000); [lia|].
    destruct (Z.ltb_spec (snd zp1 - snd zp2) (-1000)); [lia|].
    apply Rltb_true in Hz. now rewrite Hz.
  - intros [Ha Hb] Hz. destruct (Z.gtb_spec (snd zp1 - snd zp2) 1000); [lia|].
    destruct (Z.ltb_spec (snd zp1 - snd zp2) (-1000)); [lia|].
    pose proof Hz as Hz'. apply Rltb_false in Hz'. rewrite Hz'. unfold nrm2. rewrite <- N1, <- N2. rewrite pow2h_Rpower.
    rewrite Rpower_half_sub.
    assert (fst zp2 <> 0). { intros E0. rewrite E0, Rabs_R0 in Hz. lra. }
    assert (0 < Rpower 2 (IZR (snd zp2) / 2)) by (unfold Rpower; apply exp_pos).
    field. split; lra.
Qed.
(* accuracy (Model/Stab.accuracy, current code): every branch.
   z1 = 0 (the difference vanishes) with a reference of non-negligible mantissa gives 0, which IS the relative distance;
   otherwise the exponent difference decides between the saturation values and the quotient. *)
Theorem accuracy_spec big tiny Y1 Y2 : 0 < tiny ->
  let z1 := fst (norm_stab OR ilog2 thr (sub OR Y1 Y2)) in
  let h1 := snd (norm_stab OR ilog2 thr (sub OR Y1 Y2)) in
  let h2 := snd (norm_stab OR ilog2 thr Y2) in
  let z2 := fst (norm_stab OR ilog2 thr Y2) in
  let r := accuracy OR ilog2 isinf thr big tiny Y1 Y2 in
  (z1 = 0 -> tiny <= Rabs z2 -> r = 0 /\ nrm2 (sub OR Y1 Y2) = 0) /\
  (~ (z1 = 0 /\ tiny <= Rabs z2) -> (h1 - h2 > 1000)%Z -> r = big) /\
  (~ (z1 = 0 /\ tiny <= Rabs z2) -> (h1 - h2 < -1000)%Z -> r = 0) /\
  ((-1000 <= h1 - h2 <= 1000)%Z -> Rabs z2 < tiny -> r = -1) /\
  ((-1000 <= h1 - h2 <= 1000)%Z -> tiny <= Rabs z2 -> r = nrm2 (sub OR Y1 Y2) / nrm2 Y2).
Proof.
  intros Ht. cbv zeta. pose proof (accuracy_tail_spec big tiny Y1 Y2 Ht) as T. cbv zeta in T.
  destruct T as (T1 & T2 & T3 & T4).
  pose proof (norm_stab_spec (sub OR Y1 Y2)) as (_ & N1 & _). cbv zeta in N1.
  unfold accuracy, accuracy_of.
  set (zp1 := norm_stab OR ilog2 thr (sub OR Y1 Y2)) in *. set (zp2 := norm_stab OR ilog2 thr Y2) in *.
  assert (Z0 : fst zp1 = 0 -> nrm2 (sub OR Y1 Y2) = 0).
  { intros E. unfold nrm2. rewrite <- N1, E. ring. }
  destruct (oeqb OR (fst zp1) (o0 OR) && oleb OR tiny (oabs OR (fst zp2))) eqn:G.
  - apply guard_true in G. destruct G as [G1 G2]. cbn [o0 OR]. split; [|split; [|split; [|split]]].
    + intros _ _. split; [reflexivity|exact (Z0 G1)].
    + intros N. exfalso. apply N. auto.
    + intros N. exfalso. apply N. auto.
    + intros _ Hz. lra.
    + intros _ _. rewrite (Z0 G1). unfold Rdiv. ring.
  - assert (NG : ~ (fst zp1 = 0 /\ tiny <= Rabs (fst zp2))).
    { intros H. apply guard_true in H. rewrite H in G. discriminate. }
    split; [|split; [|split; [|split]]].
    + intros A B. exfalso. apply NG. auto.
    + intros _ H. apply T1. exact H.
    + intros _ H. apply T2. exact H.
    + intros H Hz. apply T3; assumption.
    + intros H Hz. apply T4; assumption.
Qed.
(* equal tensors (more generally ||Y1 - Y2|| = 0) against a reference with a non-negligible mantissa: the result is 0,
   whatever exponent the vanishing product was left with *)
Theorem accuracy_zero_difference big tiny Y1 Y2 : 0 < tiny ->
  tiny <= Rabs (fst (norm_stab OR ilog2 thr Y2)) -> nrm2 (sub OR Y1 Y2) = 0 ->
  accuracy OR ilog2 isinf thr big tiny Y1 Y2 = 0.
Proof.
  intros Ht Hz Hn. pose proof (accuracy_spec big tiny Y1 Y2 Ht) as S. cbv zeta in S. destruct S as (S1 & _).
  apply S1; [|exact Hz].
  pose proof (norm_stab_spec (sub OR Y1 Y2)) as (_ & N1 & _). cbv zeta in N1. unfold nrm2 in Hn. rewrite Hn in N1.
  assert (0 < Rpower 2 (IZR (snd (norm_stab OR ilog2 thr (sub OR Y1 Y2))) / 2)) by (unfold Rpower; apply exp_pos).
  nra.
Qed.
End StabR.

(* ---------- stab_shift: rescaling a core by 2^s shifts the exponent by s and nothing else ---------- *)
(* stated for the repaired default threshold thr = 0 (for thr > 0 the threshold decision itself is not
   scale invariant) and for the exact contract of floor(log2 .) *)
Section Shift.
Variable ilog2 : R -> Z.
Hypothesis Hlog : ilog2_ok 1 ilog2.

Lemma stab_entries_shift w q s : 0 < vmax OR w ->
  stab_entries OR ilog2 0%R (vscale OR (powerRZ 2 s) w) q =
  (fst (stab_entries OR ilog2 0%R w q), (snd (stab_entries OR ilog2 0%R w q) + s)%Z).
Proof.
  intros Hw. pose proof (p2_pos s) as Hs. unfold vscale. cbn [omul OR].
  assert (M : vmax OR (map (fun x => powerRZ 2 s * x) w) = powerRZ 2 s * vmax OR w) by (apply vmax_scale; lra).
  unfold stab_entries. cbn [oleb odiv opow2 OR]. rewrite M.
  destruct (Rleb (powerRZ 2 s * vmax OR w) 0) eqn:E1; [apply Rleb_true in E1; nra|].
  destruct (Rleb (vmax OR w) 0) eqn:E2; [apply Rleb_true in E2; lra|]. cbn [fst snd].
  rewrite (ilog2_shift ilog2 _ s Hlog Hw). f_equal; [|lia].
  rewrite map_map. apply map_ext. intros x. rewrite powerRZ_add by exact two_neq0.
  pose proof (p2_pos (ilog2 (vmax OR w))). field. split; lra.
Qed.

(* general form: the step at one position is multiplied by 2^s (whichever of the two cores carries it) *)
Theorem run2s_shift A A2 G1 G2 G1' G2' B B2 s : length A = length A2 ->
  let st := run2s OR ilog2 0%R [1] 0%Z A A2 in
  vstep2 OR (fst st) G1' G2' = vscale OR (powerRZ 2 s) (vstep2 OR (fst st) G1 G2) ->
  0 < vmax OR (vstep2 OR (fst st) G1 G2) ->
  mul_scalar_stab OR ilog2 0%R (A ++ G1' :: B) (A2 ++ G2' :: B2) =
  (fst (mul_scalar_stab OR ilog2 0%R (A ++ G1 :: B) (A2 ++ G2 :: B2)),
   (snd (mul_scalar_stab OR ilog2 0%R (A ++ G1 :: B) (A2 ++ G2 :: B2)) + s)%Z).
Proof.
  intros L st Hstep Hnz. unfold mul_scalar_stab. cbn [o1 o0 OR].
  rewrite !(run2s_app OR ilog2 0%R A A2) by exact L. fold st. cbn [run2s].
  rewrite Hstep, stab_entries_shift by exact Hnz. cbn [fst snd].
  set (se := stab_entries OR ilog2 0%R (vstep2 OR (fst st) G1 G2) (snd st)).
  rewrite (run2s_p0 OR ilog2 0%R B B2 (fst se) (snd se + s)%Z).
  rewrite (run2s_p0 OR ilog2 0%R B B2 (fst se) (snd se)). cbn [fst snd]. f_equal. lia.
Qed.
(* one core of the first tensor rescaled by 2^s: mantissa identical, exponent + s *)
Theorem stab_shift A A2 G1 G2 B B2 s : length A = length A2 ->
  0 < vmax OR (vstep2 OR (fst (run2s OR ilog2 0%R [1] 0%Z A A2)) G1 G2) ->
  mul_scalar_stab OR ilog2 0%R (A ++ core_scale OR (powerRZ 2 s) G1 :: B) (A2 ++ G2 :: B2) =
  (fst (mul_scalar_stab OR ilog2 0%R (A ++ G1 :: B) (A2 ++ G2 :: B2)),
   (snd (mul_scalar_stab OR ilog2 0%R (A ++ G1 :: B) (A2 ++ G2 :: B2)) + s)%Z).
Proof.
  intros L Hnz. apply run2s_shift; auto. apply (vstep2_core_scale_l OR OR_rng).
Qed.
(* norm: the core is rescaled in both arguments: mantissa identical, half-exponent numerator + 2 s, i.e.
   the exponent p/2 of the norm moves by s *)
Theorem stab_shift_norm A G B s :
  0 < vmax OR (vstep2 OR (fst (run2s OR ilog2 0%R [1] 0%Z A A)) G G) ->
  norm_stab OR ilog2 0%R (A ++ core_scale OR (powerRZ 2 s) G :: B) =
  (fst (norm_stab OR ilog2 0%R (A ++ G :: B)), (snd (norm_stab OR ilog2 0%R (A ++ G :: B)) + 2 * s)%Z).
Proof.
  intros Hnz. unfold norm_stab.
  rewrite (run2s_shift A A G G (core_scale OR (powerRZ 2 s) G) (core_scale OR (powerRZ 2 s) G) B B (s + s)).
  - cbn [fst snd]. f_equal. lia.
  - reflexivity.
  - cbv zeta. rewrite (vstep2_core_scale_l OR OR_rng). rewrite (vstep2_core_scale_r OR OR_rng) by reflexivity.
    unfold vscale. rewrite map_map. apply map_ext. intros x. cbn [omul OR].
    rewrite powerRZ_add by exact two_neq0. ring.
  - exact Hnz.
Qed.
End Shift.

(* ---------- the d-th root used by truncate(use_stab): (2^(p/d))^d = 2^p ---------- *)
Definition rootR (p : Z) (d : nat) : R := Rpower 2 (IZR p / INR d).
Lemma opow_pow c d : opow OR c d = c ^ d.
Proof. induction d; cbn [opow pow omul o1 OR]; [reflexivity|now rewrite IHd]. Qed.
Lemma rootR_spec p d : (0 < d)%nat -> opow OR (rootR p d) d = powerRZ 2 p.
Proof.
  intros Hd. rewrite opow_pow. unfold rootR. rewrite <- Rpower_pow by (unfold Rpower; apply exp_pos).
  rewrite Rpower_mult. rewrite powerRZ_Rpower by lra. f_equal. field.
  apply not_0_INR. lia.
Qed.

(* ---------- the contract of floor(log2 .) is satisfiable (non-vacuity of [ilog2_ok 1]) ---------- *)
Definition ilog2R (v : R) : Z := (up (ln v / ln 2) - 1)%Z.
Lemma ln2_pos : 0 < ln 2. Proof. pose proof ln_lt_2. lra. Qed.
Lemma ilog2R_ok : ilog2_ok 1 ilog2R.
Proof.
  intros v Hv. unfold ilog2R. set (r := ln v / ln 2). destruct (archimed r) as [U1 U2].
  pose proof ln2_pos as L2.
  assert (Ev : v = exp (r * ln 2)).
  { unfold r. replace (ln v / ln 2 * ln 2) with (ln v) by (field; lra). symmetry. now apply exp_ln. }
  replace (up r - 1 + 1)%Z with (up r) by ring.
  rewrite !powerRZ_Rpower by lra. unfold Rpower. rewrite minus_IZR. split.
  - rewrite Rmult_1_l. rewrite Ev at 1. destruct (Req_dec ((IZR (up r) - 1) * ln 2) (r * ln 2)) as [E|E].
    + rewrite E. lra.
    + left. apply exp_increasing. nra.
  - rewrite Ev at 1. apply exp_increasing. nra.
Qed.

(* ---------- the mantissa of norm(use_stab) (default threshold 0): 0 or in [sqrt lo, sqrt 2) ---------- *)
Theorem norm_stab_mantissa (ilog2 : R -> Z) lo (Y : list (core R)) d0 : ilog2_ok lo ilog2 ->
  Y <> [] -> cr2 (last Y d0) = 1%nat ->
  let z := fst (norm_stab OR ilog2 0 Y) in z = 0 \/ (0 < z /\ lo <= z * z < 2).
Proof.
  intros Hl N E. cbv zeta.
  pose proof (mul_scalar_stab_mantissa ilog2 0 lo Y Y d0 d0 Hl (Rle_refl 0) N eq_refl E E) as M. cbv zeta in M.
  unfold norm_stab. cbn [fst]. set (v := fst (mul_scalar_stab OR ilog2 0 Y Y)) in *.
  cbn [oltb osqrt o0 OR]. destruct (Rltb 0 v) eqn:B; [|left; reflexivity].
  apply Rltb_true in B. right. split; [apply sqrt_lt_R0; exact B|].
  rewrite sqrt_sqrt by lra. destruct M as [M|M].
  - pose proof (Rabs_pos_lt v ltac:(lra)). lra.
  - rewrite Rabs_right in M by lra. exact M.
Qed.

(* ---------- the saturation branches of accuracy are taken only beyond 2^+-500 ----------
   value = z * 2^(h/2) with a mantissa 1 <= z^2 < 2 (what norm(use_stab) returns for a non-zero tensor):
   h1 - h2 > 1000 forces value1 / value2 > 2^500, h1 - h2 < -1000 forces value1 / value2 < 2^-500 *)
Lemma half_pow_sq z h : 0 < z -> z * Rpower 2 (IZR h / 2) = sqrt (z * z * powerRZ 2 h).
Proof.
  intros Hz. rewrite Rpower_half. rewrite sqrt_mult_alt by nra. rewrite sqrt_square by lra. reflexivity.
Qed.
Theorem saturation_sound z1 h1 z2 h2 : 0 < z1 -> 1 <= z1 * z1 < 2 -> 0 < z2 -> 1 <= z2 * z2 < 2 ->
  ((h1 - h2 > 1000)%Z -> powerRZ 2 500 < (z1 * Rpower 2 (IZR h1 / 2)) / (z2 * Rpower 2 (IZR h2 / 2))) /\
  ((h1 - h2 < -1000)%Z -> (z1 * Rpower 2 (IZR h1 / 2)) / (z2 * Rpower 2 (IZR h2 / 2)) < powerRZ 2 (-500)).
Proof.
  intros P1 M1 P2 M2. rewrite !half_pow_sq by assumption.
  pose proof (p2_pos h1) as A1. pose proof (p2_pos h2) as A2.
  set (a := z1 * z1 * powerRZ 2 h1). set (b := z2 * z2 * powerRZ 2 h2).
  assert (Ha : 0 < a) by (unfold a; nra). assert (Hb : 0 < b) by (unfold b; nra).
  rewrite <- sqrt_div_alt by exact Hb.
  assert (S500 : powerRZ 2 500 = sqrt (powerRZ 2 1000)).
  { replace 1000%Z with (500 + 500)%Z by reflexivity. rewrite powerRZ_add by exact two_neq0.
    rewrite sqrt_square; [reflexivity|]. pose proof (p2_pos 500). lra. }
  assert (Sm500 : powerRZ 2 (-500) = sqrt (powerRZ 2 (-1000))).
  { replace (-1000)%Z with (-500 + -500)%Z by reflexivity. rewrite powerRZ_add by exact two_neq0.
    rewrite sqrt_square; [reflexivity|]. pose proof (p2_pos (-500)). lra. }
  split; intros H.
  - rewrite S500. apply sqrt_lt_1_alt. split; [pose proof (p2_pos 1000); lra|].
    apply (Rmult_lt_reg_r b); [exact Hb|]. unfold Rdiv. rewrite Rmult_assoc, Rinv_l by lra. rewrite Rmult_1_r.
    assert (E : powerRZ 2 h1 = powerRZ 2 (h1 - h2 - 1001) * (powerRZ 2 1001 * powerRZ 2 h2)).
    { rewrite <- !powerRZ_add by exact two_neq0. f_equal. lia. }
    pose proof (p2_mono 0 (h1 - h2 - 1001) ltac:(lia)) as G. rewrite powerRZ_O in G.
    assert (T : powerRZ 2 1001 = 2 * powerRZ 2 1000).
    { replace 1001%Z with (1000 + 1)%Z by reflexivity. apply p2_succ. }
    pose proof (p2_pos 1000) as Q. unfold a, b. rewrite E, T.
    set (g := powerRZ 2 (h1 - h2 - 1001)) in *. set (q := powerRZ 2 1000) in *. set (c := powerRZ 2 h2) in *.
    set (w := q * c). assert (Hw : 0 < w) by (unfold w; nra).
    assert (W1 : z2 * z2 * w < 2 * w) by nra.
    assert (W2 : 2 * w <= g * (2 * w)) by nra.
    assert (W3 : g * (2 * w) <= z1 * z1 * (g * (2 * w))) by (assert (0 < g * (2 * w)) by nra; nra).
    replace (q * (z2 * z2 * c)) with (z2 * z2 * w) by (unfold w; ring).
    replace (z1 * z1 * (g * (2 * q * c))) with (z1 * z1 * (g * (2 * w))) by (unfold w; ring).
    lra.
  - rewrite Sm500. apply sqrt_lt_1_alt. split; [apply Rlt_le; apply Rdiv_lt_0_compat; assumption|].
    apply (Rmult_lt_reg_r b); [exact Hb|]. unfold Rdiv. rewrite Rmult_assoc, Rinv_l by lra. rewrite Rmult_1_r.
    assert (E : powerRZ 2 h2 = powerRZ 2 (h2 - h1 - 1001) * (powerRZ 2 1001 * powerRZ 2 h1)).
    { rewrite <- !powerRZ_add by exact two_neq0. f_equal. lia. }
    pose proof (p2_mono 0 (h2 - h1 - 1001) ltac:(lia)) as G. rewrite powerRZ_O in G.
    assert (T : powerRZ 2 1001 = 2 * powerRZ 2 1000).
    { replace 1001%Z with (1000 + 1)%Z by reflexivity. apply p2_succ. }
    assert (I : powerRZ 2 (-1000) * powerRZ 2 1000 = 1).
    { rewrite <- powerRZ_add by exact two_neq0. reflexivity. }
    pose proof (p2_pos 1000) as Q. pose proof (p2_pos (-1000)) as Qm. unfold a, b. rewrite E, T.
    set (g := powerRZ 2 (h2 - h1 - 1001)) in *. set (q := powerRZ 2 1000) in *. set (qm := powerRZ 2 (-1000)) in *.
    set (c := powerRZ 2 h1) in *.
    (* z1^2 c < 2 c = qm * (2 q c) <= qm * z2^2 * g * 2 q c *)
    set (u := 2 * q * c). assert (Hu : 0 < u) by (unfold u; nra).
    assert (V1 : z1 * z1 * c < 2 * c) by nra.
    assert (V2 : 2 * c = qm * u) by (unfold u; replace (qm * (2 * q * c)) with (2 * c * (qm * q)) by ring; rewrite I; ring).
    assert (V3 : u <= g * u) by nra.
    assert (V4 : g * u <= z2 * z2 * (g * u)) by (assert (0 < g * u) by nra; nra).
    assert (V5 : qm * u <= qm * (z2 * z2 * (g * u))) by (apply Rmult_le_compat_l; lra).
    lra.
Qed.
(* on tensors: whenever accuracy takes a saturation branch on mantissas of the kind norm(use_stab) returns for non-zero
   tensors (norm_stab_mantissa with the exact log2 contract), the true relative distance is beyond 2^+-500 *)
Theorem accuracy_saturation_sound (ilog2 : R -> Z) (thr : R) (Y1 Y2 : list (core R)) :
  let z1 := fst (norm_stab OR ilog2 thr (sub OR Y1 Y2)) in
  let h1 := snd (norm_stab OR ilog2 thr (sub OR Y1 Y2)) in
  let z2 := fst (norm_stab OR ilog2 thr Y2) in
  let h2 := snd (norm_stab OR ilog2 thr Y2) in
  0 < z1 -> 1 <= z1 * z1 < 2 -> 0 < z2 -> 1 <= z2 * z2 < 2 ->
  ((h1 - h2 > 1000)%Z -> powerRZ 2 500 < nrm2 (sub OR Y1 Y2) / nrm2 Y2) /\
  ((h1 - h2 < -1000)%Z -> nrm2 (sub OR Y1 Y2) / nrm2 Y2 < powerRZ 2 (-500)).
Proof.
  cbv zeta. intros P1 M1 P2 M2.
  pose proof (norm_stab_spec ilog2 thr (sub OR Y1 Y2)) as (_ & N1 & _).
  pose proof (norm_stab_spec ilog2 thr Y2) as (_ & N2 & _). cbv zeta in N1, N2.
  unfold nrm2. rewrite <- N1, <- N2. apply saturation_sound; assumption.
Qed.
