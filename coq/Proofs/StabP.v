(* C16, ring-generic part: exactness of the power-of-two bookkeeping.
   Every lemma holds for EVERY oracle [ilog2] (the contract of floor(log2) is only needed for the size
   of the mantissa, Proofs/StabRP.v) and every carrier with a commutative-ring structure and
     pow2 (a + b) = pow2 a * pow2 b,  pow2 0 = 1,  (x / pow2 p) * pow2 p = x. *)
From Coq Require Import List Arith Lia PeanoNat ZArith Ring Bool.
From TV Require Import Num.Ops Lin.Tab Lin.BigSum TT.Chain Model.ActOne Model.Stab.
Import ListNotations.

Section StabRing.
Context {T : Type} (K : ops T).
Notation "0" := (o0 K). Notation "1" := (o1 K).
Infix "+" := (oadd K). Infix "*" := (omul K). Infix "-" := (osub K). Infix "/" := (odiv K).
Notation pow2 := (opow2 K).

Variable ilog2 : T -> Z.
Variable thr : T.

Hypothesis Rth : rng K.
Add Ring RrStab : Rth.
Hypothesis Hpow_add : forall a b : Z, pow2 (a + b) = pow2 a * pow2 b.
Hypothesis Hpow_0 : pow2 0%Z = 1.
Hypothesis Hdiv : forall x p, (x / pow2 p) * pow2 p = x.

Lemma pow2_inv a : pow2 a * pow2 (- a) = 1.
Proof. rewrite <- Hpow_add, Z.add_opp_diag_r. exact Hpow_0. Qed.
Lemma pow2_cancel a x y : x * pow2 a = y * pow2 a -> x = y.
Proof.
  intros H. assert (E : x * pow2 a * pow2 (- a) = y * pow2 a * pow2 (- a)) by now rewrite H.
  replace (x * pow2 a * pow2 (- a)) with (x * (pow2 a * pow2 (- a))) in E by ring.
  replace (y * pow2 a * pow2 (- a)) with (y * (pow2 a * pow2 (- a))) in E by ring.
  rewrite pow2_inv in E. replace x with (x * 1) by ring. replace y with (y * 1) by ring. exact E.
Qed.
Lemma pow2_neq0 a : 1 <> 0 -> pow2 a <> 0.
Proof. intros H10 E. apply H10. rewrite <- (pow2_inv a), E. ring. Qed.
Lemma div_pow2_0 x : x / pow2 0%Z = x.
Proof. rewrite <- (Hdiv x 0%Z) at 2. rewrite Hpow_0. ring. Qed.
Lemma div_pow2_eq x p : x / pow2 p = x * pow2 (- p).
Proof.
  apply (pow2_cancel p). rewrite Hdiv.
  replace (x * pow2 (- p) * pow2 p) with (x * (pow2 p * pow2 (- p))) by ring. rewrite pow2_inv. ring.
Qed.

(* ---------- core_stab on a flat list: G = 2^p Q, exactly ---------- *)
Lemma stab_entries_exact l p0 :
  vscale K (pow2 (snd (stab_entries K ilog2 thr l p0))) (fst (stab_entries K ilog2 thr l p0))
  = vscale K (pow2 p0) l.
Proof.
  unfold stab_entries. destruct (oleb K (vmax K l) thr); cbn [fst snd]; [reflexivity|].
  unfold vscale. rewrite map_map. apply map_ext. intros x.
  rewrite Hpow_add. rewrite <- (Hdiv x (ilog2 (vmax K l))) at 2. ring.
Qed.
Lemma stab_entries_length l p0 : length (fst (stab_entries K ilog2 thr l p0)) = length l.
Proof.
  unfold stab_entries. destruct (oleb K (vmax K l) thr); cbn [fst]; [reflexivity|apply map_length].
Qed.
(* below the threshold nothing happens *)
Lemma stab_entries_below l p0 : oleb K (vmax K l) thr = true -> stab_entries K ilog2 thr l p0 = (l, p0).
Proof. intros H. unfold stab_entries. now rewrite H. Qed.
Lemma stab_entries_above l p0 : oleb K (vmax K l) thr = false ->
  stab_entries K ilog2 thr l p0 =
  (map (fun x => x / pow2 (ilog2 (vmax K l))) l, (p0 + ilog2 (vmax K l))%Z).
Proof. intros H. unfold stab_entries. now rewrite H. Qed.

(* ---------- core_stab on a core ---------- *)
Lemma cget_cmap f (G : core T) a i b : wfdat G -> (a < cr1 G)%nat -> (i < cn G)%nat -> (b < cr2 G)%nat ->
  cget K (cmap f G) a i b = f (cget K G a i b).
Proof.
  intros (L1 & F) Ha Hi Hb. unfold cget, cmap; cbn [dat].
  rewrite Forall_forall in F.
  assert (Hin : In (nth a (dat G) []) (dat G)) by (apply nth_In; lia).
  destruct (F _ Hin) as (L2 & F2). rewrite Forall_forall in F2.
  assert (Hin2 : In (nth i (nth a (dat G) []) []) (nth a (dat G) [])) by (apply nth_In; lia).
  pose proof (F2 _ Hin2) as L3.
  rewrite (nth_indep _ [] (map (map f) [])) by (rewrite map_length; lia). rewrite map_nth.
  rewrite (nth_indep _ [] (map f [])) by (rewrite map_length; lia). rewrite map_nth.
  rewrite (nth_indep _ 0 (f 0)) by (rewrite map_length; lia). now rewrite map_nth.
Qed.
Lemma wfdat_cmap f (G : core T) : wfdat G -> wfdat (cmap f G).
Proof.
  intros (L1 & F). split; cbn [cmap dat cr1 cn cr2]; [now rewrite map_length|].
  rewrite Forall_forall in *. intros row Hr. apply in_map_iff in Hr as (row0 & <- & Hr0).
  destruct (F _ Hr0) as (L2 & F2). split; [now rewrite map_length|].
  rewrite Forall_forall in *. intros v Hv. apply in_map_iff in Hv as (v0 & <- & Hv0).
  rewrite map_length. now apply F2.
Qed.
Lemma core_stab_dims G p0 : let Q := fst (core_stab K ilog2 thr G p0) in
  cr1 Q = cr1 G /\ cn Q = cn G /\ cr2 Q = cr2 G.
Proof. unfold core_stab. destruct (oleb K _ thr); cbn [fst]; auto. Qed.
Lemma core_stab_wfdat G p0 : wfdat G -> wfdat (fst (core_stab K ilog2 thr G p0)).
Proof. intros H. unfold core_stab. destruct (oleb K _ thr); cbn [fst]; auto using wfdat_cmap. Qed.
(* G = 2^p Q: every entry, exactly *)
Lemma core_stab_exact G p0 a i b : wfdat G -> (a < cr1 G)%nat -> (i < cn G)%nat -> (b < cr2 G)%nat ->
  cget K (fst (core_stab K ilog2 thr G p0)) a i b * pow2 (snd (core_stab K ilog2 thr G p0))
  = cget K G a i b * pow2 p0.
Proof.
  intros W Ha Hi Hb. unfold core_stab. destruct (oleb K _ thr); cbn [fst snd]; [reflexivity|].
  rewrite cget_cmap by auto. rewrite Hpow_add.
  rewrite <- (Hdiv (cget K G a i b) (ilog2 (vmax K (centries G)))) at 2. ring.
Qed.
Lemma core_stab_below G p0 : oleb K (vmax K (centries G)) thr = true -> core_stab K ilog2 thr G p0 = (G, p0).
Proof. intros H. unfold core_stab. now rewrite H. Qed.

(* ---------- mul_scalar(use_stab): the invariant along the chain ---------- *)
Lemma vstep2_length v G1 G2 : length (vstep2 K v G1 G2) = (cr2 G1 * cr2 G2)%nat.
Proof. apply tab_length. Qed.
Lemma vstep2_scale c v G1 G2 : vstep2 K (vscale K c v) G1 G2 = vscale K c (vstep2 K v G1 G2).
Proof.
  apply (list_eq_nth 0).
  - unfold vscale. now rewrite map_length, !vstep2_length.
  - rewrite vstep2_length. intros b Hb. rewrite (nth_vscale K Rth). unfold vstep2.
    rewrite !nth_tab by auto. rewrite <- bsum_mul_l by auto. apply bsum_ext; intros a Ha.
    rewrite (nth_vscale K Rth). ring.
Qed.
Lemma run2_scale c v Y1 Y2 : run2 K (vscale K c v) Y1 Y2 = vscale K c (run2 K v Y1 Y2).
Proof.
  revert v Y2; induction Y1 as [|G1 Y1 IH]; intros v [|G2 Y2]; cbn [run2]; auto.
  rewrite vstep2_scale. apply IH.
Qed.

(* the state (v, p) after any number of cores denotes the true partial product v * 2^p *)
Theorem run2s_invariant Y1 : forall Y2 v p,
  vscale K (pow2 (snd (run2s K ilog2 thr v p Y1 Y2))) (fst (run2s K ilog2 thr v p Y1 Y2))
  = run2 K (vscale K (pow2 p) v) Y1 Y2.
Proof.
  induction Y1 as [|G1 Y1 IH]; intros [|G2 Y2] v p; cbn [run2s run2 fst snd]; auto.
  rewrite IH. rewrite stab_entries_exact. now rewrite vstep2_scale.
Qed.
(* run2s over a concatenation continues from the state reached on the prefix *)
Lemma run2s_app A1 : forall A2 B1 B2 v p, length A1 = length A2 ->
  run2s K ilog2 thr v p (A1 ++ B1) (A2 ++ B2) =
  run2s K ilog2 thr (fst (run2s K ilog2 thr v p A1 A2)) (snd (run2s K ilog2 thr v p A1 A2)) B1 B2.
Proof.
  induction A1 as [|G1 A1 IH]; intros [|G2 A2] B1 B2 v p L; try discriminate L; [reflexivity|].
  cbn [app run2s]. apply IH. now injection L.
Qed.
Lemma vscale_one v : vscale K 1 v = v.
Proof. unfold vscale. rewrite <- (map_id v) at 2. apply map_ext. intros x. ring. Qed.

(* mul_scalar(use_stab) returns (v, p) with v * 2^p = the plain scalar product of Model/ActOne *)
Theorem mul_scalar_stab_exact Y1 Y2 :
  pow2 (snd (mul_scalar_stab K ilog2 thr Y1 Y2)) * fst (mul_scalar_stab K ilog2 thr Y1 Y2)
  = mul_scalar K Y1 Y2.
Proof.
  unfold mul_scalar_stab, mul_scalar. cbn [fst snd].
  rewrite <- (nth_vscale K Rth). rewrite run2s_invariant. now rewrite Hpow_0, vscale_one.
Qed.
(* the same for every prefix of the chain (the invariant the property speaks about) *)
Theorem mul_scalar_stab_prefix Y1 Y2 k :
  let vp := run2s K ilog2 thr [1] 0%Z (firstn k Y1) (firstn k Y2) in
  vscale K (pow2 (snd vp)) (fst vp) = run2 K [1] (firstn k Y1) (firstn k Y2).
Proof. cbv zeta. rewrite run2s_invariant. now rewrite Hpow_0, vscale_one. Qed.

(* exponent accumulation is additive in the initial exponent *)
Lemma stab_entries_p0 l p0 :
  stab_entries K ilog2 thr l p0 =
  (fst (stab_entries K ilog2 thr l 0%Z), (p0 + snd (stab_entries K ilog2 thr l 0%Z))%Z).
Proof.
  unfold stab_entries. destruct (oleb K (vmax K l) thr); cbn [fst snd]; f_equal; lia.
Qed.
Lemma run2s_p0 Y1 : forall Y2 v p,
  run2s K ilog2 thr v p Y1 Y2 =
  (fst (run2s K ilog2 thr v 0%Z Y1 Y2), (p + snd (run2s K ilog2 thr v 0%Z Y1 Y2))%Z).
Proof.
  induction Y1 as [|G1 Y1 IH]; intros [|G2 Y2] v p; cbn [run2s fst snd]; try (f_equal; lia).
  rewrite (stab_entries_p0 _ p). cbn [fst snd].
  set (s := stab_entries K ilog2 thr (vstep2 K v G1 G2) 0%Z).
  rewrite (IH Y2 (fst s) (p + snd s)%Z). rewrite (IH Y2 (fst s) (snd s)). cbn [fst snd]. f_equal. lia.
Qed.

(* ---------- stab_eq_plain: when no scaling is needed, stabilised = plain ---------- *)
(* "no scaling needed": at every core the running vector is below the threshold or has floor(log2) = 0 *)
Fixpoint noscale (v : list T) (Y1 Y2 : list (core T)) : Prop :=
  match Y1, Y2 with
  | G1 :: Y1', G2 :: Y2' =>
      let w := vstep2 K v G1 G2 in
      (oleb K (vmax K w) thr = true \/ ilog2 (vmax K w) = 0%Z) /\ noscale w Y1' Y2'
  | _, _ => True
  end.
Lemma run2s_noscale Y1 : forall Y2 v p, noscale v Y1 Y2 ->
  run2s K ilog2 thr v p Y1 Y2 = (run2 K v Y1 Y2, p).
Proof.
  induction Y1 as [|G1 Y1 IH]; intros [|G2 Y2] v p; cbn [run2s run2 noscale]; auto.
  intros [Hs Hn].
  assert (E : stab_entries K ilog2 thr (vstep2 K v G1 G2) p = (vstep2 K v G1 G2, p)).
  { destruct Hs as [Hs|Hs]; [now apply stab_entries_below|].
    unfold stab_entries. destruct (oleb K _ thr); [reflexivity|]. rewrite Hs. f_equal; [|lia].
    rewrite <- (map_id (vstep2 K v G1 G2)) at 2. apply map_ext. intros x. apply div_pow2_0. }
  rewrite E. cbn [fst snd]. now apply IH.
Qed.
Theorem stab_eq_plain_noscale Y1 Y2 : noscale [1] Y1 Y2 ->
  mul_scalar_stab K ilog2 thr Y1 Y2 = (mul_scalar K Y1 Y2, 0%Z).
Proof. intros H. unfold mul_scalar_stab, mul_scalar. now rewrite run2s_noscale. Qed.
(* and in general: a zero exponent means the mantissa IS the plain result *)
Theorem stab_eq_plain_p0 Y1 Y2 : snd (mul_scalar_stab K ilog2 thr Y1 Y2) = 0%Z ->
  fst (mul_scalar_stab K ilog2 thr Y1 Y2) = mul_scalar K Y1 Y2.
Proof. intros H. rewrite <- mul_scalar_stab_exact, H, Hpow_0. ring. Qed.

End StabRing.

Section StabLin.
Context {T : Type} (K : ops T).
Notation "0" := (o0 K). Notation "1" := (o1 K).
Infix "+" := (oadd K). Infix "*" := (omul K). Infix "-" := (osub K).
Hypothesis Rth : rng K.
Add Ring RrStabLin : Rth.

(* ---------- multilinearity of the chain in one core ---------- *)
Lemma core_scale_dims c G : cr1 (core_scale K c G) = cr1 G /\ cn (core_scale K c G) = cn G /\
  cr2 (core_scale K c G) = cr2 G.
Proof. unfold core_scale. auto. Qed.
Lemma vstep_core_scale c v G i : (i < cn G)%nat -> vstep K v (core_scale K c G) i = vscale K c (vstep K v G i).
Proof.
  intros Hi. apply (list_eq_nth 0).
  - unfold vscale. rewrite map_length, !vstep_length. reflexivity.
  - rewrite vstep_length. unfold core_scale at 1. rewrite cr2_mk. intros b Hb.
    rewrite (nth_vscale K Rth). rewrite !nth_vstep by (unfold core_scale; rewrite ?cr2_mk; auto).
    unfold core_scale at 1. rewrite cr1_mk. rewrite <- bsum_mul_l by auto. apply bsum_ext; intros a Ha.
    unfold core_scale. rewrite cget_mk by auto. ring.
Qed.
(* scaling every core of a chain by c scales the result by c^d *)
Lemma run_rescale_all c Y : forall v idx r rl, wfo r Y idx rl ->
  run K v (rescale_all K c Y) idx = vscale K (opow K c (length Y)) (run K v Y idx).
Proof.
  induction Y as [|G Y IH]; intros v [|i idx] r rl; cbn [wfo]; try tauto.
  - intros _. cbn [rescale_all map run length opow]. now rewrite vscale_one.
  - intros (A & B & C). cbn [rescale_all map run length opow].
    rewrite vstep_core_scale by auto. fold (rescale_all K c Y).
    rewrite (IH _ _ _ _ C). rewrite (run_scale K Rth). unfold vscale. rewrite map_map.
    apply map_ext. intros x. ring.
Qed.
Theorem get_rescale_all c Y idx : wf 1 Y idx ->
  get K (rescale_all K c Y) idx = opow K c (length Y) * get K Y idx.
Proof.
  intros W. apply wf_wfo in W. unfold get. rewrite (run_rescale_all c Y _ _ _ _ W).
  apply (nth_vscale K Rth).
Qed.
(* scaling ONE core (at any position) scales the result by c *)
Lemma run_scale_one c A G B : forall v idx r rl, wfo r (A ++ G :: B) idx rl ->
  run K v (A ++ core_scale K c G :: B) idx = vscale K c (run K v (A ++ G :: B) idx).
Proof.
  induction A as [|H A IH]; intros v [|i idx] r rl; cbn [app wfo]; try tauto.
  - intros (E & Hi & W). cbn [run]. rewrite vstep_core_scale by auto. apply (run_scale K Rth).
  - intros (E & Hi & W). cbn [run]. apply (IH _ _ _ _ W).
Qed.
Theorem get_scale_one c A G B idx : wf 1 (A ++ G :: B) idx ->
  get K (A ++ core_scale K c G :: B) idx = c * get K (A ++ G :: B) idx.
Proof.
  intros W. apply wf_wfo in W. unfold get. rewrite (run_scale_one c A G B _ _ _ _ W).
  apply (nth_vscale K Rth).
Qed.

(* mul_scalar's step is linear in each of the two cores *)
Lemma div_bound a p q : (a < p * q)%nat -> (a / q < p)%nat.
Proof.
  intros H. destruct q as [|q]; [lia|]. apply Nat.div_lt_upper_bound; lia.
Qed.
Lemma mod_bound a p q : (a < p * q)%nat -> (a mod q < q)%nat.
Proof. intros H. destruct q as [|q]; [lia|]. apply Nat.mod_upper_bound. lia. Qed.
Lemma vstep2_core_scale_l c v G1 G2 :
  vstep2 K v (core_scale K c G1) G2 = vscale K c (vstep2 K v G1 G2).
Proof.
  apply (list_eq_nth 0).
  - unfold vscale, vstep2. now rewrite map_length, !tab_length.
  - unfold vstep2 at 1. rewrite tab_length. change (cr2 (core_scale K c G1)) with (cr2 G1).
    change (cr1 (core_scale K c G1)) with (cr1 G1). change (cn (core_scale K c G1)) with (cn G1).
    intros b Hb. rewrite (nth_vscale K Rth). unfold vstep2. rewrite !nth_tab by auto.
    rewrite <- bsum_mul_l by auto. apply bsum_ext; intros a Ha.
    transitivity (nth a v 0 * (c * bsum K (cn G1) (fun i => cget K (core_kron K G1 G2) a i b))); [|ring].
    f_equal. rewrite <- bsum_mul_l by auto. apply bsum_ext; intros i Hi.
    unfold core_kron. change (cr2 (core_scale K c G1)) with (cr2 G1).
    change (cr1 (core_scale K c G1)) with (cr1 G1). change (cn (core_scale K c G1)) with (cn G1).
    rewrite !cget_mk by auto. unfold core_scale.
    rewrite cget_mk by (auto using div_bound). ring.
Qed.
Lemma vstep2_core_scale_r c v G1 G2 : cn G2 = cn G1 ->
  vstep2 K v G1 (core_scale K c G2) = vscale K c (vstep2 K v G1 G2).
Proof.
  intros En.
  apply (list_eq_nth 0).
  - unfold vscale, vstep2. now rewrite map_length, !tab_length.
  - unfold vstep2 at 1. rewrite tab_length. change (cr2 (core_scale K c G2)) with (cr2 G2).
    change (cr1 (core_scale K c G2)) with (cr1 G2).
    intros b Hb. rewrite (nth_vscale K Rth). unfold vstep2. rewrite !nth_tab by auto.
    rewrite <- bsum_mul_l by auto. apply bsum_ext; intros a Ha.
    transitivity (nth a v 0 * (c * bsum K (cn G1) (fun i => cget K (core_kron K G1 G2) a i b))); [|ring].
    f_equal. rewrite <- bsum_mul_l by auto. apply bsum_ext; intros i Hi.
    unfold core_kron. change (cr2 (core_scale K c G2)) with (cr2 G2).
    change (cr1 (core_scale K c G2)) with (cr1 G2).
    rewrite !cget_mk by auto. unfold core_scale.
    rewrite cget_mk by (try rewrite En; eauto using mod_bound). ring.
Qed.
Lemma wfo_scale_one c A G B : forall idx r rl, wfo r (A ++ G :: B) idx rl <-> wfo r (A ++ core_scale K c G :: B) idx rl.
Proof.
  induction A as [|H A IH]; intros [|i idx] r rl; cbn [app wfo]; try tauto.
  rewrite (IH idx). tauto.
Qed.
End StabLin.


(* ---------- packaged statements (hypotheses bundled as [stab_laws]) ---------- *)
(* the laws a carrier must satisfy: commutative ring + exact powers of two
   (instances: the exact dyadics ODy, the reals, any field of characteristic <> 2) *)
Definition stab_laws {T} (K : ops T) : Prop :=
  rng K /\
  (forall a b : Z, opow2 K (a + b) = omul K (opow2 K a) (opow2 K b)) /\
  opow2 K 0%Z = o1 K /\
  (forall x p, omul K (odiv K x (opow2 K p)) (opow2 K p) = x).

Section Packaged.
Context {T : Type} (K : ops T) (ilog2 : T -> Z) (thr : T).
Hypothesis L : stab_laws K.
Let R := proj1 L. Let A := proj1 (proj2 L). Let Z0 := proj1 (proj2 (proj2 L)). Let D := proj2 (proj2 (proj2 L)).

Lemma P_stab_entries_exact l p0 :
  vscale K (opow2 K (snd (stab_entries K ilog2 thr l p0))) (fst (stab_entries K ilog2 thr l p0))
  = vscale K (opow2 K p0) l.
Proof. exact (stab_entries_exact K ilog2 thr R A D l p0). Qed.
Lemma P_core_stab_exact (G : core T) p0 a i b :
  wfdat G -> (a < cr1 G)%nat -> (i < cn G)%nat -> (b < cr2 G)%nat ->
  omul K (cget K (fst (core_stab K ilog2 thr G p0)) a i b) (opow2 K (snd (core_stab K ilog2 thr G p0)))
  = omul K (cget K G a i b) (opow2 K p0).
Proof. exact (core_stab_exact K ilog2 thr R A D G p0 a i b). Qed.
Lemma P_mul_scalar_stab_exact Y1 Y2 :
  omul K (opow2 K (snd (mul_scalar_stab K ilog2 thr Y1 Y2))) (fst (mul_scalar_stab K ilog2 thr Y1 Y2))
  = mul_scalar K Y1 Y2.
Proof. exact (mul_scalar_stab_exact K ilog2 thr R A Z0 D Y1 Y2). Qed.
Lemma P_mul_scalar_stab_prefix Y1 Y2 k :
  let vp := run2s K ilog2 thr [o1 K] 0%Z (firstn k Y1) (firstn k Y2) in
  vscale K (opow2 K (snd vp)) (fst vp) = run2 K [o1 K] (firstn k Y1) (firstn k Y2).
Proof. exact (mul_scalar_stab_prefix K ilog2 thr R A Z0 D Y1 Y2 k). Qed.
Lemma P_stab_eq_plain_noscale Y1 Y2 : noscale K ilog2 thr [o1 K] Y1 Y2 ->
  mul_scalar_stab K ilog2 thr Y1 Y2 = (mul_scalar K Y1 Y2, 0%Z).
Proof. exact (stab_eq_plain_noscale K ilog2 thr R Z0 D Y1 Y2). Qed.
Lemma P_stab_eq_plain_p0 Y1 Y2 : snd (mul_scalar_stab K ilog2 thr Y1 Y2) = 0%Z ->
  fst (mul_scalar_stab K ilog2 thr Y1 Y2) = mul_scalar K Y1 Y2.
Proof. exact (stab_eq_plain_p0 K ilog2 thr R A Z0 D Y1 Y2). Qed.
End Packaged.
