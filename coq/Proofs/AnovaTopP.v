(* Lemmas about Model/Anova.v (C13), part 3: statements about the entry point teneva.anova (order 1), the pair
   statistics of build_2, and the cores with noise. *)
From Coq Require Import List Arith Lia PeanoNat ZArith Bool Ring Sorted.
From TV Require Import Num.Ops Lin.Tab Lin.BigSum Lin.Mat TT.Chain Model.ActOne Model.Anova
  Proofs.AnovaP Proofs.Anova2P.
Import ListNotations.

Section Top1.
Context {T : Type} (K : ops T).
Notation "0" := (o0 K). Notation "1" := (o1 K).
Infix "+" := (oadd K). Infix "*" := (omul K). Infix "-" := (osub K). Infix "/" := (odiv K).
Hypothesis Rth : rng K.
Add Ring RrAnovaT1 : Rth.

Lemma ANOVA_inv I y order (M : anova T) : ANOVA K I y order = Ok M ->
  (order = 1%nat \/ order = 2%nat) /\
  M = mk_anova order (domain I) (build_0 K y) (build_1 K (domain I) I y (build_0 K y))
        (if (2 <=? order)%nat then build_2 K (domain I) I y (build_0 K y) (build_1 K (domain I) I y (build_0 K y)) else []).
Proof.
  unfold ANOVA. destruct (Nat.eqb_spec order 1) as [->|H1]; cbn [orb negb].
  - intros E. injection E as <-. split; [now left|reflexivity].
  - destruct (Nat.eqb_spec order 2) as [->|H2]; cbn [negb]; [|discriminate].
    intros E. injection E as <-. split; [now right|reflexivity].
Qed.

Lemma ANOVA_f1_len I y order (M : anova T) k : ANOVA K I y order = Ok M -> (k < dimI I)%nat ->
  length (nth k (a_f1 M) []) = nth k (shapes (domain I)) O.
Proof.
  intros HM Hk. apply ANOVA_inv in HM as [_ ->]. cbn [a_f1].
  pose proof (build_1_shape K (domain I) I y (build_0 K y)) as E.
  apply (f_equal (fun l => nth k l O)) in E.
  rewrite nth_indep with (d' := length (@nil T)) in E by (rewrite map_length, build_1_length, domain_length; lia).
  now rewrite map_nth in E.
Qed.

(* teneva.anova(I, y, r, order=1, noise=0): the result is cores_1 of the fitted model, its mode sizes are the
   observed ones, every TT-rank is r, and its entry at every multi-index (positions in the sorted observed domain)
   is f0 + sum_k f1[k][x_k], which is also what ANOVA.calc returns *)
Theorem anova_order1 I y r g skel trunc (M : anova T) :
  ANOVA K I y 1 = Ok M -> (2 <= r)%nat -> (2 <= dimI I)%nat ->
  let Y := cores_1 K M r 0 g in
  anova_tt K I y r 1 0 g skel trunc = Ok Y /\
  shape Y = shapes (domain I) /\
  ranks Y = 1%nat :: repeat r (dimI I - 1) ++ [1%nat] /\
  forall idx, length idx = dimI I -> (forall k, (k < dimI I)%nat -> (nth k idx O < nth k (shapes (domain I)) O)%nat) ->
    wf 1 Y idx /\
    get K Y idx = a_f0 M + bsum K (dimI I) (fun k => nth (nth k idx O) (nth k (a_f1 M) []) 0) /\
    get K Y idx = calc_pos K M idx.
Proof.
  intros HM Hr Hd Y.
  pose proof (ANOVA_inv I y 1 M HM) as [_ EM].
  assert (HdM : a_d M = dimI I) by (rewrite EM; unfold a_d; cbn [a_dom]; apply domain_length).
  assert (Ho : a_order M = 1%nat) by (rewrite EM; reflexivity).
  assert (Lf1 : length (a_f1 M) = a_d M).
  { rewrite EM. cbn [a_f1]. rewrite build_1_length. reflexivity. }
  split; [|split; [|split]].
  - unfold anova_tt. rewrite HM. cbn [rbind]. unfold cores. rewrite Ho.
    destruct (Nat.ltb_spec r 2); [lia|]. reflexivity.
  - unfold Y. rewrite cores_1_shape by (auto; lia). rewrite EM. cbn [a_f1]. apply build_1_shape.
  - unfold Y. rewrite cores_1_ranks by lia. now rewrite HdM.
  - intros idx L Hidx.
    assert (Hf1 : forall k, (k < a_d M)%nat -> (nth k idx O < length (nth k (a_f1 M) []))%nat).
    { intros k Hk. rewrite HdM in Hk. rewrite (ANOVA_f1_len I y 1 M k HM Hk). now apply Hidx. }
    split; [|split].
    + apply cores_1_wf; auto; lia.
    + unfold Y. rewrite (cores_1_get K Rth) by (auto; lia). now rewrite HdM.
    + unfold Y. rewrite (cores_1_get K Rth) by (auto; lia). unfold calc_pos. rewrite Ho. cbn [Nat.leb].
      unfold calc_1_pos. now rewrite L, HdM.
Qed.

(* rejected arguments of teneva.anova *)
Lemma anova_bad_order I y r order noise g skel trunc : order <> 1%nat -> order <> 2%nat ->
  anova_tt K I y r order noise g skel trunc = Err ValueError.
Proof.
  intros H1 H2. unfold anova_tt, ANOVA.
  destruct (Nat.eqb_spec order 1); [contradiction|]. destruct (Nat.eqb_spec order 2); [contradiction|]. reflexivity.
Qed.
Lemma anova_bad_rank I y r order noise g skel trunc : (order = 1%nat \/ order = 2%nat) -> (r < 2)%nat ->
  anova_tt K I y r order noise g skel trunc = Err IndexError.
Proof.
  intros Ho Hr. unfold anova_tt, ANOVA.
  destruct Ho as [-> | ->]; cbn [Nat.eqb orb negb rbind]; unfold cores; cbn [a_order];
    destruct (Nat.ltb_spec r 2); try lia; reflexivity.
Qed.

(* calc on index values: a dictionary lookup per mode, then calc_pos; lookups finds the position of the value *)
Lemma zindex_nth x l p : zindex x l = Some p -> (p < length l)%nat /\ nth p l 0%Z = x.
Proof.
  revert p. induction l as [|y l IH]; intros p; cbn [zindex]; [discriminate|].
  destruct (Z.eqb_spec x y) as [->|Hne].
  - intros E. injection E as <-. cbn. split; [lia|reflexivity].
  - destruct (zindex x l) as [q|]; cbn [option_map]; [|discriminate]. intros E. injection E as <-.
    destruct (IH q eq_refl) as [A B]. cbn [length nth]. split; [lia|exact B].
Qed.
Lemma zindex_In x l : In x l -> exists p, zindex x l = Some p.
Proof.
  induction l as [|y l IH]; intros H; [destruct H|]. cbn [zindex].
  destruct (Z.eqb_spec x y) as [->|Hne]; [now exists O|].
  destruct H as [->|H]; [contradiction|]. destruct (IH H) as [p ->]. now exists (S p).
Qed.
Lemma lookups_spec : forall dom x pos, lookups dom x = Ok pos ->
  length pos = length x /\
  forall k, (k < length x)%nat -> (nth k pos O < length (nth k dom []))%nat /\ nth (nth k pos O) (nth k dom []) 0%Z = nth k x 0%Z.
Proof.
  induction dom as [|dm dom IH]; intros [|v x] pos; cbn [lookups]; intros E; try discriminate.
  - injection E as <-. split; [reflexivity|cbn; lia].
  - injection E as <-. split; [reflexivity|cbn; lia].
  - destruct (zindex v dm) as [p|] eqn:Ez; [|discriminate].
    destruct (lookups dom x) as [ps|] eqn:El; cbn [rmap] in E; [|discriminate]. injection E as <-.
    destruct (IH x ps El) as [L H]. split; [cbn; lia|].
    intros [|k] Hk; cbn [nth]; [now apply zindex_nth|]. apply H. cbn in Hk. lia.
Qed.
Theorem calc_spec (M : anova T) x v : calc K M x = Ok v ->
  exists pos, length pos = length x /\
    (forall k, (k < length x)%nat -> (nth k pos O < length (nth k (a_dom M) []))%nat /\
                                    nth (nth k pos O) (nth k (a_dom M) []) 0%Z = nth k x 0%Z) /\
    v = calc_pos K M pos.
Proof.
  unfold calc. destruct (lookups (a_dom M) x) as [pos|] eqn:E; cbn [rmap]; [|discriminate].
  intros Ev. injection Ev as <-. exists pos. destruct (lookups_spec _ _ _ E) as [L H]. auto.
Qed.
End Top1.

Section Stats2.
Context {T : Type} (K : ops T).
Notation "0" := (o0 K). Notation "1" := (o1 K).
Infix "+" := (oadd K). Infix "*" := (omul K). Infix "-" := (osub K). Infix "/" := (odiv K).
Hypothesis Rth : rng K.
Add Ring RrAnovaS2 : Rth.
Hypothesis Hdiv : forall a b, b <> 0 -> (a / b) * b = a.
Hypothesis Hnat : forall n, natT K (S n) <> 0.

(* the pair statistics of build_2: the entry of the matrix of the pair (k1, k2) (number pair_num_to_num(k1, k2)) at
   the positions (a, b) of the two domains is 0 when no sample has both index values, and otherwise the mean of
   those samples minus f0 minus the two univariate terms *)
Theorem anova_stats2 I y (M : anova T) k1 k2 a b : ANOVA K I y 2 = Ok M ->
  (k1 < k2 < dimI I)%nat -> (a < length (nth k1 (a_dom M) []))%nat -> (b < length (nth k2 (a_dom M) []))%nat ->
  let A := nth (pair_num_nat (a_d M) k1 k2) (a_f2 M) (mk_mat O O []) in
  let s := sel (fun row => at_ k1 (nth a (nth k1 (a_dom M) []) 0%Z) row && at_ k2 (nth b (nth k2 (a_dom M) []) 0%Z) row) I y in
  length (a_f2 M) = length (pairs (dimI I)) /\
  mr A = length (nth k1 (a_dom M) []) /\ mc A = length (nth k2 (a_dom M) []) /\
  (s = [] -> mget K A a b = 0) /\
  (s <> [] -> (mget K A a b + a_f0 M + nth a (nth k1 (a_f1 M) []) 0 + nth b (nth k2 (a_f1 M) []) 0)
              * natT K (length s) = lsum K s).
Proof.
  intros HM Hk Ha Hb. apply (ANOVA_inv K) in HM as [_ ->]. cbn [Nat.leb a_f2 a_dom a_f0 a_f1] in *.
  unfold a_d. cbn [a_dom]. rewrite domain_length.
  set (dom := domain I) in *. set (f0 := build_0 K y). set (f1 := build_1 K dom I y f0).
  destruct (pair_num_bijection (dimI I)) as (_ & Bij & _). destruct (Bij k1 k2 Hk) as [Hn En].
  assert (Ld : length dom = dimI I) by apply domain_length.
  cbn zeta. split; [unfold build_2; now rewrite map_length, Ld|].
  unfold build_2. rewrite Ld.
  match goal with |- context [map ?Fb _] => set (Fb' := Fb) end.
  rewrite nth_indep with (d' := Fb' (O, O)) by (now rewrite map_length). rewrite map_nth, En. unfold Fb'.
  cbn [mr mc mkmat]. split; [reflexivity|]. split; [reflexivity|].
  rewrite mget_mk by auto.
  set (s := sel _ I y). split.
  - intros ->. reflexivity.
  - intros Hs. destruct s as [|v s'] eqn:Es; [congruence|]. rewrite <- Es in *.
    match goal with |- (?m - ?f - ?u - ?w + ?f + ?u + ?w) * _ = _ => replace (m - f - u - w + f + u + w) with m by ring end.
    now apply (mean_spec K Hdiv Hnat).
Qed.
End Stats2.

Section Noise.
Context {T : Type} (K : ops T).
Notation "0" := (o0 K). Notation "1" := (o1 K).
Infix "+" := (oadd K). Infix "*" := (omul K). Infix "-" := (osub K).
Hypothesis Rth : rng K.
Add Ring RrAnovaN : Rth.

(* the positions of core number k (of d) that cores_1 overwrites with the pattern *)
Definition in_pattern (d k a b : nat) : bool :=
  if (k =? 0)%nat then (b <? 2)%nat
  else if (k <? d - 1)%nat then ((a =? 0) && (b =? 0)) || ((a =? 1) && (b =? 1)) || ((a =? 0) && (b =? 1))
  else (a <? 2)%nat.
(* the generator call that fills core number k *)
Definition gcall (d k : nat) : nat := if (k <? d - 1)%nat then k else S (d - 2).

(* cores_1 with noise: every entry is the entry of the noise-free cores plus noise * (the normal draw) outside the
   pattern, and exactly the noise-free entry on the pattern *)
Theorem cores_1_noise_entries (M : anova T) r noise g k a i b : (2 <= a_d M)%nat -> (k < a_d M)%nat ->
  let G := nth k (cores_1 K M r noise g) (core_ones K O) in
  let G0 := nth k (cores_1 K M r 0 g) (core_ones K O) in
  cr1 G = cr1 G0 /\ cn G = cn G0 /\ cr2 G = cr2 G0 /\
  ((a < cr1 G)%nat -> (i < cn G)%nat -> (b < cr2 G)%nat ->
   cget K G a i b = cget K G0 a i b + (if in_pattern (a_d M) k a b then 0 else noise * g (gcall (a_d M) k) a i b)).
Proof.
  intros Hd Hk. cbn zeta. rewrite !cores_1_tab, !nth_tab by auto. unfold core1_at, in_pattern, gcall.
  destruct (Nat.eqb_spec k 0) as [->|Hk0].
  - destruct (Nat.ltb_spec 0 (a_d M - 1)); [|lia].
    unfold core1_first, ncore. rewrite !cr1_mk, !cn_mk, !cr2_mk. repeat split; auto.
    intros Ha Hi Hb. rewrite !cget_mk by auto.
    destruct b as [|[|b]]; cbn [Nat.eqb Nat.ltb Nat.leb]; ring.
  - destruct (Nat.ltb_spec k (a_d M - 1)).
    + unfold core1_mid, ncore. rewrite !cr1_mk, !cn_mk, !cr2_mk. repeat split; auto.
      intros Ha Hi Hb. rewrite !cget_mk by auto.
      destruct a as [|[|a]], b as [|[|b]]; cbn [Nat.eqb andb orb]; ring.
    + unfold core1_last, ncore. rewrite !cr1_mk, !cn_mk, !cr2_mk. repeat split; auto.
      intros Ha Hi Hb. rewrite !cget_mk by auto.
      destruct a as [|[|a]]; cbn [Nat.eqb Nat.ltb Nat.leb]; ring.
Qed.
End Noise.
