(* Lemmas about Model/Sample.v (C14), part 2: the integer samplers sample_lhs, sample_rand, sample_tt
   (shape, bounds, Latin-hypercube counts, block layout) and the row utilities used by sample_square
   (uniq_rows = sorted distinct rows). *)
From Coq Require Import List Arith Lia PeanoNat Bool Permutation.
From TV Require Import Num.Ops Lin.Tab TT.Chain Model.Sample.
Import ListNotations.

(* ---------- transpose / mapi_from ---------- *)
Lemma nth_map_lt {A B} (g : A -> B) l i d d' : i < length l -> nth i (map g l) d = g (nth i l d').
Proof. intros H. rewrite (nth_indep _ d (g d')) by (now rewrite map_length). apply map_nth. Qed.
Lemma transpose_length {A} (d0 : A) m cols : length (transpose d0 m cols) = m.
Proof. apply tab_length. Qed.
Lemma transpose_nth {A} (d0 : A) m cols j : j < m ->
  nth j (transpose d0 m cols) [] = map (fun col => nth j col d0) cols.
Proof. intros H. unfold transpose. now rewrite nth_tab. Qed.
Lemma transpose_row_length {A} (d0 : A) m cols j : j < m -> length (nth j (transpose d0 m cols) []) = length cols.
Proof. intros H. rewrite transpose_nth by auto. apply map_length. Qed.
Lemma transpose_entry {A} (d0 : A) m cols j i : j < m -> i < length cols ->
  nth i (nth j (transpose d0 m cols) []) d0 = nth j (nth i cols []) d0.
Proof.
  intros Hj Hi. rewrite transpose_nth by auto.
  now rewrite (nth_map_lt _ _ _ _ []) by auto.
Qed.
(* column i of the transposed array is the i-th column that went in *)
Lemma transpose_column {A} (d0 : A) m cols i : i < length cols -> length (nth i cols []) = m ->
  map (fun row => nth i row d0) (transpose d0 m cols) = nth i cols [].
Proof.
  intros Hi L. apply (list_eq_nth d0).
  - now rewrite map_length, transpose_length.
  - rewrite map_length, transpose_length. intros j Hj.
    rewrite (nth_map_lt _ _ _ _ []) by (now rewrite transpose_length). now apply transpose_entry.
Qed.

Lemma mapi_from_length {A B} (f : nat -> A -> B) l : forall c, length (mapi_from c f l) = length l.
Proof. induction l as [|x l IH]; intros c; simpl; auto. Qed.
Lemma mapi_from_nth {A B} (f : nat -> A -> B) l dB dA : forall c i, i < length l ->
  nth i (mapi_from c f l) dB = f (c + i) (nth i l dA).
Proof.
  induction l as [|x l IH]; intros c [|i] H; simpl in *; try lia.
  - now rewrite Nat.add_0_r.
  - rewrite IH by lia. f_equal. lia.
Qed.
Lemma mapi_from_Forall2 {A B} (R : B -> A -> Prop) (f : nat -> A -> B) l :
  (forall c x, In x l -> R (f c x) x) -> forall c, Forall2 R (mapi_from c f l) l.
Proof.
  induction l as [|x l IH]; intros H c; simpl; constructor.
  - apply H. now left.
  - apply IH. intros; apply H. now right.
Qed.

(* a row of the transposed array is inside the bounds when every column is *)
Definition col_ok (m : nat) (col : list nat) (n : nat) : Prop := length col = m /\ Forall (fun x => x < n) col.
Lemma row_inb m cols ns j : Forall2 (col_ok m) cols ns -> j < m -> inb ns (map (fun col => nth j col O) cols).
Proof.
  intros H Hj. induction H as [|col n cols ns [L F] _ IH]; simpl; constructor; auto.
  rewrite Forall_forall in F. apply F. apply nth_In. lia.
Qed.
Lemma inb_length ns idx : inb ns idx -> length idx = length ns.
Proof. induction 1; simpl; auto. Qed.
Lemma inb_nth ns idx i : inb ns idx -> i < length ns -> nth i idx O < nth i ns O.
Proof. intros H; revert i; induction H; intros [|i] Hi; simpl in *; try lia; auto. apply IHForall2. lia. Qed.
Lemma inb_app ns1 ns2 i1 i2 : inb ns1 i1 -> inb ns2 i2 -> inb (ns1 ++ ns2) (i1 ++ i2).
Proof. intros H1 H2. now apply Forall2_app. Qed.

(* ---------- counting ---------- *)
Notation cnt := (count_occ Nat.eq_dec).
Lemma cnt_repeat v x t : cnt (repeat x t) v = if Nat.eq_dec x v then t else O.
Proof. induction t as [|t IH]; simpl; destruct (Nat.eq_dec x v); auto; try contradiction. Qed.
Lemma cnt_repeat_each_from k t v : forall s,
  cnt (flat_map (fun x => repeat x t) (seq s k)) v = if (s <=? v) && (v <? s + k) then t else O.
Proof.
  induction k as [|k IH]; intros s; simpl.
  - destruct (s <=? v) eqn:E1, (v <? s + 0) eqn:E2; simpl; auto.
    apply Nat.leb_le in E1. apply Nat.ltb_lt in E2. lia.
  - rewrite count_occ_app, cnt_repeat, IH.
    destruct (Nat.eq_dec s v) as [->|Hne].
    + replace (S v <=? v) with false by (symmetry; apply Nat.leb_gt; lia). simpl.
      rewrite Nat.leb_refl. replace (v <? v + S k) with true by (symmetry; apply Nat.ltb_lt; lia). simpl. lia.
    + destruct (S s <=? v) eqn:E1, (v <? S s + k) eqn:E2; simpl;
        destruct (s <=? v) eqn:E3, (v <? s + S k) eqn:E4; simpl; auto;
        repeat match goal with
               | H : (_ <=? _) = true |- _ => apply Nat.leb_le in H
               | H : (_ <=? _) = false |- _ => apply Nat.leb_gt in H
               | H : (_ <? _) = true |- _ => apply Nat.ltb_lt in H
               | H : (_ <? _) = false |- _ => apply Nat.ltb_ge in H
               end; lia.
Qed.
Lemma cnt_repeat_each k t v : v < k -> cnt (repeat_each k t) v = t.
Proof.
  intros H. unfold repeat_each. rewrite cnt_repeat_each_from. simpl.
  now replace (v <? k) with true by (symmetry; apply Nat.ltb_lt; lia).
Qed.
Lemma repeat_each_length k t : length (repeat_each k t) = k * t.
Proof.
  unfold repeat_each. generalize O. induction k as [|k IH]; intros s; simpl; auto.
  rewrite app_length, repeat_length, IH. lia.
Qed.
Lemma repeat_each_lt k t : Forall (fun x => x < k) (repeat_each k t).
Proof.
  apply Forall_forall. intros x Hx. unfold repeat_each in Hx. apply in_flat_map in Hx as (y & Hy & Hx).
  apply repeat_spec in Hx. subst. apply in_seq in Hy. lia.
Qed.
Lemma cnt_perm l1 l2 v : Permutation l1 l2 -> cnt l1 v = cnt l2 v.
Proof. intros H. revert v. now apply (Permutation_count_occ Nat.eq_dec). Qed.
Lemma cnt_nodup l v : NoDup l -> cnt l v = O \/ cnt l v = 1.
Proof.
  intros H. destruct (in_dec Nat.eq_dec v l) as [Hi|Hn].
  - right. now apply (NoDup_count_occ' Nat.eq_dec).
  - left. now apply count_occ_not_In.
Qed.

(* ---------- sample_lhs ---------- *)
Section LhsP.
Variable chnr : nat -> nat -> nat -> list nat.
Variable shuf1 : nat -> list nat -> list nat.
(* rand.choice(k, s, replace=False) for s <= k: s distinct indices below k;  rand.shuffle: a permutation *)
Hypothesis Hchnr : forall c k s, s <= k ->
  length (chnr c k s) = s /\ NoDup (chnr c k s) /\ Forall (fun x => x < k) (chnr c k s).
Hypothesis Hshuf : forall c l, Permutation l (shuf1 c l).

Lemma lhs_rem k m : 1 <= k -> m - length (repeat_each k (m / k)) = m mod k.
Proof. intros H. rewrite repeat_each_length. pose proof (Nat.div_mod m k). lia. Qed.

Lemma lhs_col_length c k m : 1 <= k -> length (lhs_col chnr shuf1 c k m) = m.
Proof.
  intros H. unfold lhs_col. rewrite <- (Permutation_length (Hshuf c _)), app_length, lhs_rem by auto.
  destruct (Hchnr c k (m mod k)) as (L & _); [pose proof (Nat.mod_upper_bound m k); lia|].
  rewrite L, repeat_each_length. pose proof (Nat.div_mod m k). lia.
Qed.
Lemma lhs_col_lt c k m : 1 <= k -> Forall (fun x => x < k) (lhs_col chnr shuf1 c k m).
Proof.
  intros H. unfold lhs_col. eapply Permutation_Forall; [apply Hshuf|]. apply Forall_app. split.
  - apply repeat_each_lt.
  - rewrite lhs_rem by auto. apply Hchnr. pose proof (Nat.mod_upper_bound m k). lia.
Qed.
(* every index of the mode is used floor(m/k) or ceil(m/k) times *)
Lemma lhs_col_counts c k m v : 1 <= k -> v < k ->
  cnt (lhs_col chnr shuf1 c k m) v = m / k \/
  (cnt (lhs_col chnr shuf1 c k m) v = S (m / k) /\ m mod k <> O).
Proof.
  intros H Hv. unfold lhs_col. rewrite <- (cnt_perm _ _ v (Hshuf c _)), count_occ_app, cnt_repeat_each by auto.
  rewrite lhs_rem by auto.
  destruct (Hchnr c k (m mod k)) as (L & ND & _); [pose proof (Nat.mod_upper_bound m k); lia|].
  destruct (cnt_nodup _ v ND) as [E|E]; rewrite E.
  - left. lia.
  - right. split; [lia|]. intros Z. rewrite Z in *. apply length_zero_iff_nil in L. rewrite L in E. discriminate.
Qed.

Lemma lhs_cols_ok base ns m : Forall (fun k => 1 <= k) ns ->
  Forall2 (col_ok m) (lhs_cols chnr shuf1 base ns m) ns.
Proof.
  intros H. unfold lhs_cols. apply mapi_from_Forall2. intros c k Hk.
  rewrite Forall_forall in H. split; [apply lhs_col_length | apply lhs_col_lt]; auto.
Qed.

(* shape [m, d] and bounds *)
Theorem sample_lhs_shape base ns m : Forall (fun k => 1 <= k) ns ->
  length (sample_lhs chnr shuf1 base ns m) = m /\
  forall j, j < m -> inb ns (nth j (sample_lhs chnr shuf1 base ns m) []).
Proof.
  intros H. unfold sample_lhs. split; [apply transpose_length|].
  intros j Hj. rewrite transpose_nth by auto. apply (row_inb m); [now apply lhs_cols_ok | exact Hj].
Qed.
Lemma sample_lhs_length base ns m : length (sample_lhs chnr shuf1 base ns m) = m.
Proof. apply transpose_length. Qed.

(* column i of the result is the shuffled column built for mode i *)
Lemma sample_lhs_column base ns m i : Forall (fun k => 1 <= k) ns -> i < length ns ->
  map (fun row => nth i row O) (sample_lhs chnr shuf1 base ns m) = lhs_col chnr shuf1 (base + i) (nth i ns O) m.
Proof.
  intros H Hi. unfold sample_lhs, lhs_cols.
  assert (E : nth i (mapi_from base (fun c k => lhs_col chnr shuf1 c k m) ns) [] =
              lhs_col chnr shuf1 (base + i) (nth i ns O) m)
    by (now rewrite (mapi_from_nth (fun c k => lhs_col chnr shuf1 c k m) ns [] O) by auto).
  rewrite <- E. apply transpose_column.
  - now rewrite mapi_from_length.
  - rewrite E. apply lhs_col_length. rewrite Forall_forall in H. apply H. now apply nth_In.
Qed.

(* the Latin-hypercube property of sample_lhs *)
Theorem lhs_counts base ns m i v : Forall (fun k => 1 <= k) ns -> i < length ns -> v < nth i ns O ->
  let col := map (fun row => nth i row O) (sample_lhs chnr shuf1 base ns m) in
  length col = m /\
  (cnt col v = m / nth i ns O \/ (cnt col v = S (m / nth i ns O) /\ m mod nth i ns O <> O)).
Proof.
  intros H Hi Hv. cbv zeta. rewrite sample_lhs_column by auto.
  assert (Hk : 1 <= nth i ns O) by lia.
  split; [now apply lhs_col_length | now apply lhs_col_counts].
Qed.

(* ---------- sample_tt ---------- *)
(* the two Latin-hypercube blocks of mode i (a single empty row where the code has no block) *)
Definition tt_L1 (base : nat) (sh1 sh2 : list nat) (r : nat) : list (list nat) :=
  match sh2, sh1 with
  | [], _ => sample_lhs chnr shuf1 base sh1 r
  | _, [] => [[]]
  | _, _ => sample_lhs chnr shuf1 base sh1 r
  end.
Definition tt_L2 (base : nat) (sh1 sh2 : list nat) (r : nat) : list (list nat) :=
  match sh2 with [] => [[]] | _ => sample_lhs chnr shuf1 (base + length sh1) sh2 r end.

Lemma flat_map_const_length {A B} (f : A -> list B) l L : (forall x, In x l -> length (f x) = L) ->
  length (flat_map f l) = length l * L.
Proof.
  induction l as [|x l IH]; intros H; simpl; auto. rewrite app_length, IH, H; auto; [now left|].
  intros; apply H; now right.
Qed.
Lemma flat_map_const_nth {A B} (f : A -> list B) l L dA dB : (forall x, In x l -> length (f x) = L) ->
  forall v c, v < length l -> c < L -> nth (v * L + c) (flat_map f l) dB = nth c (f (nth v l dA)) dB.
Proof.
  induction l as [|x l IH]; intros H v c Hv Hc; simpl in *; [lia|].
  assert (Hx : length (f x) = L) by (apply H; now left).
  destruct v as [|v].
  - simpl. rewrite app_nth1 by lia. reflexivity.
  - rewrite app_nth2 by (rewrite Hx; nia). rewrite Hx.
    replace (S v * L + c - L) with (v * L + c) by nia. apply IH; auto; try lia.
Qed.

Lemma one_mode_layout base sh1 sh2 rng r :
  let L1 := tt_L1 base sh1 sh2 r in let L2 := tt_L2 base sh1 sh2 r in
  let '(rows, l1, l2) := one_mode chnr shuf1 base sh1 sh2 rng r in
  l1 = length L1 /\ l2 = length L2 /\ length rows = rng * (length L1 * length L2) /\
  forall v a c, v < rng -> a < length L1 -> c < length L2 ->
    nth ((v * length L1 + a) * length L2 + c) rows [] = nth a L1 [] ++ v :: nth c L2 [].
Proof.
  cbv zeta. unfold one_mode, tt_L1, tt_L2.
  destruct sh2 as [|k2 sh2].
  - (* last mode: rows i ++ [n] *)
    set (L1 := sample_lhs chnr shuf1 base sh1 r).
    assert (Hlen : forall x, In x (seq 0 rng) -> length (map (fun a : list nat => a ++ [x]) L1) = length L1)
      by (intros; apply map_length).
    repeat split; auto.
    + rewrite (flat_map_const_length _ _ _ Hlen), seq_length. simpl. lia.
    + intros v a c Hv Ha Hc. simpl in Hc. assert (c = 0) by lia. subst c.
      simpl. rewrite Nat.mul_1_r, Nat.add_0_r.
      rewrite (flat_map_const_nth _ _ _ O [] Hlen) by (rewrite ?seq_length; auto).
      rewrite seq_nth by auto. simpl.
      now rewrite (nth_map_lt _ _ _ _ []) by auto.
  - destruct sh1 as [|k1 sh1].
    + (* first mode: rows [n] ++ j *)
      set (L2 := sample_lhs chnr shuf1 (base + length (@nil nat)) (k2 :: sh2) r).
      assert (E : sample_lhs chnr shuf1 base (k2 :: sh2) r = L2) by (unfold L2; simpl; now rewrite Nat.add_0_r).
      rewrite E.
      assert (Hlen : forall x, In x (seq 0 rng) -> length (map (fun c : list nat => x :: c) L2) = length L2)
        by (intros; apply map_length).
      repeat split; auto.
      * rewrite (flat_map_const_length _ _ _ Hlen), seq_length. simpl. lia.
      * intros v a c Hv Ha Hc. simpl in Ha. assert (a = 0) by lia. subst a.
        simpl. rewrite Nat.mul_1_r, Nat.add_0_r.
        rewrite (flat_map_const_nth _ _ _ O [] Hlen) by (rewrite ?seq_length; auto).
        rewrite seq_nth by auto. simpl.
        now rewrite (nth_map_lt _ _ _ _ []) by auto.
    + (* inner mode: product order *)
      set (L1 := sample_lhs chnr shuf1 base (k1 :: sh1) r).
      set (L2 := sample_lhs chnr shuf1 (base + length (k1 :: sh1)) (k2 :: sh2) r).
      assert (Hin : forall v x, In x L1 -> length (map (fun c : list nat => x ++ v :: c) L2) = length L2)
        by (intros; apply map_length).
      assert (Hlen : forall v, In v (seq 0 rng) ->
                length (flat_map (fun a => map (fun c : list nat => a ++ v :: c) L2) L1) = length L1 * length L2).
      { intros v _. now apply flat_map_const_length, Hin. }
      repeat split; auto.
      * now rewrite (flat_map_const_length _ _ _ Hlen), seq_length.
      * intros v a c Hv Ha Hc.
        replace ((v * length L1 + a) * length L2 + c) with (v * (length L1 * length L2) + (a * length L2 + c)) by nia.
        rewrite (flat_map_const_nth _ _ _ O [] Hlen) by (rewrite ?seq_length; auto; nia).
        rewrite seq_nth by auto. simpl.
        rewrite (flat_map_const_nth _ _ _ [] [] (Hin v)) by auto.
        now rewrite (nth_map_lt _ _ _ _ []) by auto.
Qed.

Definition mode_dflt : list (list nat) * nat * nat := ([], O, O).
Lemma tt_modes_length r : forall post base pre, length (tt_modes chnr shuf1 base pre post r) = length post.
Proof. induction post as [|k post IH]; intros; simpl; auto. Qed.
Lemma tt_modes_nth r : forall post base pre i, i < length post ->
  nth i (tt_modes chnr shuf1 base pre post r) mode_dflt =
  one_mode chnr shuf1 (base + i * (length pre + length post - 1)) (pre ++ firstn i post) (skipn (S i) post)
           (nth i post O) r.
Proof.
  induction post as [|k post IH]; intros base pre i Hi; simpl in Hi; [lia|].
  destruct i as [|i].
  - cbn [tt_modes nth firstn skipn]. now rewrite app_nil_r, Nat.mul_0_l, Nat.add_0_r.
  - cbn [tt_modes nth firstn]. rewrite IH by lia. rewrite app_length. cbn [length skipn].
    rewrite <- app_assoc. cbn [app]. f_equal. nia.
Qed.

Lemma offsets_length lens : forall acc, length (offsets acc lens) = S (length lens).
Proof. induction lens as [|l lens IH]; intros; simpl; auto. Qed.
Lemma offsets_0 lens acc : nth O (offsets acc lens) O = acc.
Proof. destruct lens; reflexivity. Qed.
Lemma offsets_S lens : forall acc i, i < length lens ->
  nth (S i) (offsets acc lens) O = nth i (offsets acc lens) O + nth i lens O.
Proof.
  induction lens as [|l lens IH]; intros acc i Hi; simpl in Hi; [lia|].
  destruct i as [|i].
  - cbn [offsets nth]. now rewrite offsets_0.
  - cbn [offsets]. change (nth (S (S i)) (acc :: ?t) O) with (nth (S i) t O).
    change (nth (S i) (acc :: ?t) O) with (nth i t O). cbn [nth]. apply IH. lia.
Qed.
Lemma offsets_ge lens : forall acc i, i <= length lens -> acc <= nth i (offsets acc lens) O.
Proof.
  induction lens as [|l lens IH]; intros acc [|i] Hi; simpl in *; try lia.
  specialize (IH (acc + l) i). lia.
Qed.
(* block i of a concatenation starts at the i-th offset *)
Lemma concat_block {A} (Ls : list (list A)) (d : A) : forall acc i t, i < length Ls -> t < length (nth i Ls []) ->
  nth (nth i (offsets acc (map (@length A) Ls)) O - acc + t) (concat Ls) d = nth t (nth i Ls []) d.
Proof.
  induction Ls as [|L Ls IH]; intros acc i t Hi Ht; simpl in Hi; [lia|].
  destruct i as [|i].
  - cbn [map offsets nth concat] in *. rewrite Nat.sub_diag. simpl. now rewrite app_nth1.
  - cbn [map offsets concat]. change (nth (S i) (acc :: ?x) O) with (nth i x O).
    change (nth (S i) (L :: Ls) []) with (nth i Ls []) in *.
    assert (Hge : acc + length L <= nth i (offsets (acc + length L) (map (@length A) Ls)) O).
    { apply offsets_ge. rewrite map_length. lia. }
    rewrite app_nth2 by lia.
    replace (nth i (offsets (acc + length L) (map (@length A) Ls)) O - acc + t - length L)
      with (nth i (offsets (acc + length L) (map (@length A) Ls)) O - (acc + length L) + t) by lia.
    apply IH; auto; lia.
Qed.
Lemma offsets_end {A} (Ls : list (list A)) : forall acc,
  nth (length Ls) (offsets acc (map (@length A) Ls)) O = acc + length (concat Ls).
Proof.
  induction Ls as [|L Ls IH]; intros acc; simpl; [lia|]. rewrite app_length, IH. lia.
Qed.

Lemma idx3_lt n l1 l2 v a c : v < n -> a < l1 -> c < l2 -> (v * l1 + a) * l2 + c < n * (l1 * l2).
Proof.
  intros Hv Ha Hc. assert (H1 : (v * l1 + a) * l2 + c < (v * l1 + a + 1) * l2) by nia.
  assert (H2 : v * l1 + a + 1 <= (v + 1) * l1) by nia.
  assert (H3 : (v * l1 + a + 1) * l2 <= (v + 1) * l1 * l2) by (apply Nat.mul_le_mono_r; exact H2).
  assert (H4 : (v + 1) * l1 * l2 <= n * l1 * l2) by (apply Nat.mul_le_mono_r, Nat.mul_le_mono_r; lia).
  lia.
Qed.
Theorem tt_layout ns r I idx many : sample_tt chnr shuf1 ns r = (I, idx, many) ->
  let d := length ns in
  length idx = S d /\ length many = d /\ nth O idx O = O /\ nth d idx O = length I /\
  forall i, i < d ->
    let L1 := tt_L1 (i * (d - 1)) (firstn i ns) (skipn (S i) ns) r in
    let L2 := tt_L2 (i * (d - 1)) (firstn i ns) (skipn (S i) ns) r in
    nth i many O = length L2 /\
    nth (S i) idx O = nth i idx O + nth i ns O * (length L1 * length L2) /\
    forall v a c, v < nth i ns O -> a < length L1 -> c < length L2 ->
      nth (nth i idx O + (v * length L1 + a) * length L2 + c) I [] = nth a L1 [] ++ v :: nth c L2 [].
Proof.
  unfold sample_tt. intros E. inversion E; subst I idx many; clear E. cbv zeta.
  set (B := tt_modes chnr shuf1 0 [] ns r).
  assert (HB : length B = length ns) by apply tt_modes_length.
  set (Ls := map (fun b : list (list nat) * nat * nat => fst (fst b)) B).
  assert (EL : map (fun b : list (list nat) * nat * nat => length (fst (fst b))) B = map (@length _) Ls)
    by (unfold Ls; now rewrite map_map).
  rewrite EL.
  assert (HLs : length Ls = length ns) by (unfold Ls; now rewrite map_length).
  split; [now rewrite offsets_length, map_length, HLs|].
  split; [now rewrite map_length|].
  split; [apply offsets_0|].
  split; [rewrite <- HLs, offsets_end; lia|].
  intros i Hi.
  assert (Hm : nth i B mode_dflt =
               one_mode chnr shuf1 (i * (length ns - 1)) (firstn i ns) (skipn (S i) ns) (nth i ns O) r).
  { unfold B. rewrite tt_modes_nth by auto. reflexivity. }
  pose proof (one_mode_layout (i * (length ns - 1)) (firstn i ns) (skipn (S i) ns) (nth i ns O) r) as HL.
  cbv zeta in HL. rewrite <- Hm in HL. destruct (nth i B mode_dflt) as [[rows l1] l2] eqn:EB.
  destruct HL as (E1 & E2 & Hlen & Hrows).
  assert (Hrow_i : nth i Ls [] = rows).
  { unfold Ls. change (@nil (list nat)) with ((fun b : list (list nat) * nat * nat => fst (fst b)) mode_dflt).
    now rewrite map_nth, EB. }
  split.
  { change O with ((@snd (list (list nat) * nat) nat) mode_dflt) at 1. now rewrite map_nth, EB. }
  split.
  { rewrite offsets_S by (now rewrite map_length, HLs).
    f_equal. change O with (@length (list nat) []) at 1. now rewrite map_nth, Hrow_i. }
  intros v a c Hv Ha Hc. rewrite <- Hrows by auto. rewrite <- Hrow_i.
  rewrite <- (concat_block Ls [] O i) by (rewrite ?HLs, ?Hrow_i, ?Hlen; auto; now apply idx3_lt).
  f_equal. lia.
Qed.

(* every row of sample_tt is inside the bounds *)
Lemma one_mode_inb base sh1 sh2 rng r :
  Forall (fun k => 1 <= k) sh1 -> Forall (fun k => 1 <= k) sh2 ->
  Forall (inb (sh1 ++ rng :: sh2)) (fst (fst (one_mode chnr shuf1 base sh1 sh2 rng r))).
Proof.
  intros H1 H2.
  assert (HL : forall b sh, Forall (fun k => 1 <= k) sh -> Forall (inb sh) (sample_lhs chnr shuf1 b sh r)).
  { intros b sh Hsh. apply Forall_forall. intros x Hx. apply (In_nth _ _ []) in Hx as (j & Hj & <-).
    rewrite sample_lhs_length in Hj. now apply sample_lhs_shape. }
  assert (Hone : forall v, v < rng -> inb [rng] [v]) by (intros; constructor; [auto|constructor]).
  unfold one_mode. destruct sh2 as [|k2 sh2]; [|destruct sh1 as [|k1 sh1]]; cbn [fst];
    apply Forall_forall; intros x Hx; apply in_flat_map in Hx as (v & Hv & Hx); apply in_seq in Hv.
  - apply in_map_iff in Hx as (a & <- & Ha). apply inb_app; [|apply Hone; lia].
    specialize (HL base sh1 H1). rewrite Forall_forall in HL. now apply HL.
  - apply in_map_iff in Hx as (c & <- & Hc). apply (inb_app [] _ [] (v :: c)); [constructor|].
    constructor; [lia|]. specialize (HL base (k2 :: sh2) H2). rewrite Forall_forall in HL. now apply HL.
  - apply in_flat_map in Hx as (a & Ha & Hx). apply in_map_iff in Hx as (c & <- & Hc).
    apply inb_app.
    + specialize (HL base (k1 :: sh1) H1). rewrite Forall_forall in HL. now apply HL.
    + constructor; [lia|]. specialize (HL (base + length (k1 :: sh1)) (k2 :: sh2) H2).
      rewrite Forall_forall in HL. now apply HL.
Qed.
Lemma tt_modes_inb r : forall post base pre,
  Forall (fun k => 1 <= k) pre -> Forall (fun k => 1 <= k) post ->
  Forall (fun b => Forall (inb (pre ++ post)) (fst (fst b))) (tt_modes chnr shuf1 base pre post r).
Proof.
  induction post as [|k post IH]; intros base pre Hpre Hpost; simpl; constructor.
  - inversion Hpost; subst. now apply one_mode_inb.
  - inversion Hpost; subst. replace (pre ++ k :: post) with ((pre ++ [k]) ++ post) by (now rewrite <- app_assoc).
    apply IH; auto. apply Forall_app. split; auto.
Qed.
Theorem tt_bounds ns r : Forall (fun k => 1 <= k) ns ->
  Forall (inb ns) (fst (fst (sample_tt chnr shuf1 ns r))).
Proof.
  intros H. unfold sample_tt. cbn [fst]. pose proof (tt_modes_inb r ns 0 [] (Forall_nil _) H) as HB.
  cbn [app] in HB. apply Forall_forall. intros x Hx. apply in_concat in Hx as (L & HL & Hx).
  apply in_map_iff in HL as (b & <- & Hb). rewrite Forall_forall in HB. specialize (HB b Hb).
  rewrite Forall_forall in HB. now apply HB.
Qed.
End LhsP.

(* ---------- sample_rand ---------- *)
Section RandP.
Variable chu : nat -> nat -> nat -> list nat.
Hypothesis Hchu : forall c k m, 1 <= k -> length (chu c k m) = m /\ Forall (fun x => x < k) (chu c k m).
Theorem sample_rand_shape ns m : Forall (fun k => 1 <= k) ns ->
  match sample_rand chu ns m with
  | Ok rows => ns <> [] /\ length rows = m /\ forall j, j < m -> inb ns (nth j rows [])
  | Err e => ns = [] /\ e = ValueError
  end.
Proof.
  intros H. unfold sample_rand. destruct ns as [|k ns]; [auto|].
  split; [discriminate|]. split; [apply transpose_length|].
  intros j Hj. rewrite transpose_nth by auto. apply (row_inb m); auto.
  apply mapi_from_Forall2. intros c x Hx. rewrite Forall_forall in H. apply Hchu. now apply H.
Qed.
End RandP.

(* ---------- rows: np.unique(I, axis=0) ---------- *)
Lemma ins_row_perm x l : Permutation (x :: l) (ins_row x l).
Proof.
  induction l as [|y l IH]; simpl; auto. destruct (lex_leb x y); auto.
  eapply perm_trans; [apply perm_swap|]. now constructor.
Qed.
Lemma sort_rows_perm l : Permutation l (sort_rows l).
Proof.
  induction l as [|x l IH]; simpl; auto. unfold sort_rows in *. simpl.
  eapply perm_trans; [|apply ins_row_perm]. now constructor.
Qed.
Lemma uniq_rows_nodup l : NoDup (uniq_rows l).
Proof. unfold uniq_rows. eapply Permutation_NoDup; [apply sort_rows_perm|]. apply NoDup_nodup. Qed.
Lemma uniq_rows_in l x : In x (uniq_rows l) <-> In x l.
Proof.
  unfold uniq_rows. split; intros H.
  - apply (nodup_In (list_eq_dec Nat.eq_dec)). eapply Permutation_in; [symmetry; apply sort_rows_perm|exact H].
  - eapply Permutation_in; [apply sort_rows_perm|]. now apply nodup_In.
Qed.
Lemma firstn_in {A} n (l : list A) x : In x (firstn n l) -> In x l.
Proof.
  revert n; induction l as [|y l IH]; intros [|n]; simpl; auto; try tauto.
  intros [->|H]; auto. right. eapply IH. exact H.
Qed.
Lemma firstn_nodup {A} n (l : list A) : NoDup l -> NoDup (firstn n l).
Proof.
  revert n; induction l as [|x l IH]; intros [|n] H; simpl; try constructor.
  - inversion H; subst. intros Hin. apply H2. eapply firstn_in. exact Hin.
  - inversion H; subst. now apply IH.
Qed.

(* ---------- non-vacuity: a generator meeting the contracts, and what the samplers compute with it ---------- *)
Lemma int_samplers_example :
  let chnr := fun (c k s : nat) => seq 0 s in
  let shuf1 := fun (c : nat) (l : list nat) => rev l in
  let chu := fun (c k m : nat) => repeat (k - 1) m in
  (forall c k s, s <= k -> length (chnr c k s) = s /\ NoDup (chnr c k s) /\ Forall (fun x => x < k) (chnr c k s)) /\
  (forall c l, Permutation l (shuf1 c l)) /\
  (forall c k m, 1 <= k -> length (chu c k m) = m /\ Forall (fun x => x < k) (chu c k m)) /\
  sample_lhs chnr shuf1 0 [2; 3] 5 = [[0; 1]; [1; 0]; [1; 2]; [0; 1]; [0; 0]] /\
  sample_tt chnr shuf1 [2; 3; 2] 2 =
    ([[0; 1; 1]; [0; 0; 0]; [1; 1; 1]; [1; 0; 0];
      [1; 0; 1]; [1; 0; 0]; [0; 0; 1]; [0; 0; 0]; [1; 1; 1]; [1; 1; 0]; [0; 1; 1]; [0; 1; 0];
      [1; 2; 1]; [1; 2; 0]; [0; 2; 1]; [0; 2; 0];
      [1; 1; 0]; [0; 0; 0]; [1; 1; 1]; [0; 0; 1]], [0; 4; 16; 20], [2; 2; 1]) /\
  sample_rand chu [2; 3] 2 = Ok [[1; 2]; [1; 2]].
Proof.
  cbv zeta. split; [|split; [|split]].
  - intros c k s Hs. split; [apply seq_length|]. split; [apply seq_NoDup|].
    apply Forall_forall. intros x Hx. apply in_seq in Hx. lia.
  - intros c l. apply Permutation_rev.
  - intros c k m Hk. split; [apply repeat_length|]. apply Forall_forall. intros x Hx.
    apply repeat_spec in Hx. lia.
  - repeat split; vm_compute; reflexivity.
Qed.

(* ---------- sample_rand_poi: shape [m, d]; entry (j, i) is a value uniform(a_i, b_i) returned ---------- *)
Section PoiP.
Context {T : Type} (K : ops T).
Variable unif : nat -> T -> T -> nat -> list T.
Variable inside : T -> T -> T -> Prop.      (* inside lo hi x: what rand.uniform(lo, hi) promises about x *)
Hypothesis Hunif : forall c lo hi m, length (unif c lo hi m) = m /\ Forall (inside lo hi) (unif c lo hi m).
Theorem sample_rand_poi_shape a b m : length a = length b ->
  match sample_rand_poi K unif a b m with
  | Ok X => a <> [] /\ length X = m /\
            forall j, j < m -> length (nth j X []) = length a /\
              forall i, i < length a -> inside (nth i a (o0 K)) (nth i b (o0 K)) (nth i (nth j X []) (o0 K))
  | Err e => a = [] /\ e = ValueError
  end.
Proof.
  intros L. unfold sample_rand_poi. destruct a as [|a0 a']; [auto|]. set (a := a0 :: a') in *.
  split; [discriminate|]. split; [apply transpose_length|]. intros j Hj.
  assert (Lc : length (combine a b) = length a) by (rewrite combine_length; lia).
  split; [rewrite transpose_row_length by auto; now rewrite mapi_from_length|].
  intros i Hi. rewrite transpose_entry by (auto; now rewrite mapi_from_length, Lc).
  rewrite (mapi_from_nth (fun c ab => unif c (fst ab) (snd ab) m) (combine a b) [] (o0 K, o0 K)) by lia.
  rewrite combine_nth by auto. cbn [fst snd].
  destruct (Hunif (0 + i) (nth i a (o0 K)) (nth i b (o0 K)) m) as [Lu Fu].
  rewrite Forall_forall in Fu. apply Fu. apply nth_In. lia.
Qed.
End PoiP.
