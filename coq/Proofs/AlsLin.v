(* C07, part 1: list utilities, the ridge identity (commutative ring), right partial products,
   linearity of [get] in one slice of one core. *)
From Coq Require Import List Arith Lia Ring PeanoNat Bool Permutation.
From TV Require Import Num.Ops Lin.Tab Lin.BigSum Lin.Solve TT.Chain Model.Als.
Import ListNotations.

(* ------------------------------------------------------------------ upd / firstn / skipn / combine *)
Section Lists.
Context {A : Type}.
Lemma upd_length k (x : A) l : length (upd k x l) = length l.
Proof. revert k; induction l as [|y l IH]; intros [|k]; simpl; auto. Qed.
Lemma nth_upd_eq k (x : A) l d : k < length l -> nth k (upd k x l) d = x.
Proof. revert k; induction l as [|y l IH]; intros [|k]; simpl; intros H; try lia; auto. apply IH; lia. Qed.
Lemma nth_upd_neq k k' (x : A) l d : k' <> k -> nth k' (upd k x l) d = nth k' l d.
Proof.
  revert k k'; induction l as [|y l IH]; intros [|k] [|k']; simpl; intros H; auto; try lia;
  try (apply IH; lia).
Qed.
Lemma upd_app l1 (y x : A) l2 k : length l1 = k -> upd k x (l1 ++ y :: l2) = l1 ++ x :: l2.
Proof. revert k; induction l1 as [|z l1 IH]; intros k H; simpl in *; subst; simpl; auto. f_equal. auto. Qed.
Lemma firstn_upd k k' (x : A) l : k' <= k -> firstn k' (upd k x l) = firstn k' l.
Proof.
  revert k k'; induction l as [|y l IH]; intros [|k] [|k']; simpl; intros H; auto; try lia.
  f_equal. apply IH; lia.
Qed.
Lemma skipn_upd k k' (x : A) l : k < k' -> skipn k' (upd k x l) = skipn k' l.
Proof.
  revert k k'; induction l as [|y l IH]; intros [|k] [|k']; simpl; intros H; auto; try lia.
  apply IH; lia.
Qed.
Lemma firstn_S_nth k (l : list A) d : k < length l -> firstn (S k) l = firstn k l ++ [nth k l d].
Proof.
  revert k; induction l as [|y l IH]; intros [|k]; simpl; intros H; try lia; auto.
  f_equal. apply IH; lia.
Qed.
Lemma skipn_nth_cons k (l : list A) d : k < length l -> skipn k l = nth k l d :: skipn (S k) l.
Proof.
  revert k; induction l as [|y l IH]; intros [|k]; simpl; intros H; try lia; auto.
  apply IH; lia.
Qed.
Lemma split_nth k (l : list A) d : k < length l -> l = firstn k l ++ nth k l d :: skipn (S k) l.
Proof. intros H. rewrite <- (skipn_nth_cons k l d H). symmetry. apply firstn_skipn. Qed.
Lemma upd_split k (x : A) l : k < length l -> upd k x l = firstn k l ++ x :: skipn (S k) l.
Proof.
  revert k; induction l as [|y l IH]; intros [|k]; simpl; intros H; try lia; auto.
  f_equal. apply IH; lia.
Qed.
Lemma repeat_map {B} (x : A) (l : list B) : repeat x (length l) = map (fun _ => x) l.
Proof. induction l; simpl; congruence. Qed.
End Lists.

Lemma combine_map_r {A B} (f : A -> B) (l : list A) : combine l (map f l) = map (fun x => (x, f x)) l.
Proof. induction l; simpl; congruence. Qed.
Lemma combine_map_map {A B C} (f : A -> B) (g : A -> C) (l : list A) :
  combine (map f l) (map g l) = map (fun x => (f x, g x)) l.
Proof. induction l; simpl; congruence. Qed.
Lemma filter_map_swap {A B} (f : A -> B) (p : B -> bool) (l : list A) :
  filter p (map f l) = map f (filter (fun x => p (f x)) l).
Proof. induction l as [|x l IH]; simpl; auto. destruct (p (f x)); simpl; congruence. Qed.
Lemma Permutation_filter' {A} (p : A -> bool) (l l' : list A) :
  Permutation l l' -> Permutation (filter p l) (filter p l').
Proof.
  induction 1; simpl; auto.
  - destruct (p x); auto.
  - destruct (p x), (p y); auto. apply perm_swap.
  - eapply perm_trans; eauto.
Qed.

Section Lin.
Context {T : Type} (K : ops T).
Notation "0" := (o0 K). Notation "1" := (o1 K).
Infix "+" := (oadd K). Infix "*" := (omul K). Infix "-" := (osub K).
Hypothesis Rth : rng K.
Add Ring RrAlsLin : Rth.

(* ------------------------------------------------------------------ sums over lists *)
Lemma lsum_perm (l l' : list T) : Permutation l l' -> lsum K l = lsum K l'.
Proof. induction 1; simpl; try congruence. - ring. Qed.
Lemma lsum_map_ext {A} (f g : A -> T) (l : list A) :
  (forall x, In x l -> f x = g x) -> lsum K (map f l) = lsum K (map g l).
Proof. induction l as [|x l IH]; simpl; intros H; auto. rewrite H, IH; auto. Qed.
Lemma lsum_map_0 {A} (l : list A) : lsum K (map (fun _ => 0) l) = 0.
Proof. induction l; simpl; [reflexivity | rewrite IHl; ring]. Qed.
Lemma lsum_map_mul_r {A} (l : list A) c f : lsum K (map (fun x => f x * c) l) = lsum K (map f l) * c.
Proof. induction l; simpl; [ring | rewrite IHl; ring]. Qed.
Lemma lsum_map_sub {A} (l : list A) f g :
  lsum K (map (fun x => f x - g x) l) = lsum K (map f l) - lsum K (map g l).
Proof. induction l; simpl; [ring | rewrite IHl; ring]. Qed.
Lemma bsum_lsum_swap {A} n (l : list A) (f : A -> nat -> T) :
  bsum K n (fun q => lsum K (map (fun r => f r q) l)) = lsum K (map (fun r => bsum K n (fun q => f r q)) l).
Proof.
  induction l as [|x l IH]; simpl.
  - apply bsum_0; auto.
  - rewrite bsum_add by auto. now rewrite IH.
Qed.
(* grouping a sum over samples by a key below n *)
Lemma lsum_partition {A} (key : A -> nat) (f : A -> T) n (l : list A) :
  (forall x, In x l -> key x < n) ->
  lsum K (map f l) = bsum K n (fun i => lsum K (map f (filter (fun x => Nat.eqb (key x) i) l))).
Proof.
  induction l as [|x l IH]; simpl; intros H.
  - symmetry. apply bsum_0; auto.
  - rewrite (bsum_ext K n _ (fun i => (if Nat.eqb (key x) i then f x else 0)
                                      + lsum K (map f (filter (fun x0 => Nat.eqb (key x0) i) l)))).
    2:{ intros i Hi. destruct (Nat.eqb (key x) i); simpl; ring. }
    rewrite bsum_add by auto. rewrite <- IH by auto. f_equal.
    rewrite (bsum_single K Rth n (key x)); [now rewrite Nat.eqb_refl | auto |].
    intros i Hi Hne. destruct (Nat.eqb_spec (key x) i); [congruence | reflexivity].
Qed.

(* ------------------------------------------------------------------ dot products *)
Lemma dot_ext p x x' y y' : (forall a, a < p -> nth a x 0 = nth a x' 0) ->
  (forall a, a < p -> nth a y 0 = nth a y' 0) -> dot K p x y = dot K p x' y'.
Proof. intros H1 H2. apply bsum_ext; intros a Ha. now rewrite H1, H2. Qed.
Lemma dot_comm p x y : dot K p x y = dot K p y x.
Proof. apply bsum_ext; intros; ring. Qed.
Lemma nth_mulmv p N x a : a < p -> nth a (mulmv K p N x) 0 = dot K p (nth a N []) x.
Proof. intros. unfold mulmv. now rewrite nth_tab. Qed.

(* ------------------------------------------------------------------ the ridge identity *)
Section Ridge.
Variables (p : nat) (lamb : T) (rows : list (lrow (T:=T))).
Let N := normal_mat K p lamb rows.
Let g := normal_rhs K p rows.

Lemma nth_normal_mat a b : a < p -> b < p ->
  nth b (nth a N []) 0 = lsum K (map (fun row => nth a (ra row) 0 * (rw row * nth b (ra row) 0)) rows)
                         + lamb * (if Nat.eqb a b then 1 else 0).
Proof. intros. unfold N, normal_mat. now rewrite !nth_tab. Qed.
Lemma nth_normal_rhs a : a < p ->
  nth a g 0 = lsum K (map (fun row => (rw row * nth a (ra row) 0) * ry row) rows).
Proof. intros. unfold g, normal_rhs. now rewrite nth_tab. Qed.
Lemma normal_mat_sym a b : a < p -> b < p -> nth b (nth a N []) 0 = nth a (nth b N []) 0.
Proof.
  intros. rewrite !nth_normal_mat by auto. f_equal.
  - apply lsum_map_ext; intros; ring.
  - rewrite (Nat.eqb_sym b a). reflexivity.
Qed.
(* (N x)_a = sum_rows a_a w (a . x) + lamb x_a *)
Lemma normal_mulmv x a : a < p ->
  nth a (mulmv K p N x) 0
  = lsum K (map (fun row => nth a (ra row) 0 * (rw row * dot K p (ra row) x)) rows) + lamb * nth a x 0.
Proof.
  intros Ha. rewrite nth_mulmv by auto. unfold dot.
  rewrite (bsum_ext K p _ (fun b =>
     lsum K (map (fun row => nth a (ra row) 0 * (rw row * (nth b (ra row) 0 * nth b x 0))) rows)
     + lamb * ((if Nat.eqb a b then 1 else 0) * nth b x 0))).
  2:{ intros b Hb. rewrite nth_normal_mat by auto.
      rewrite (Rdistr_l Rth).
      rewrite <- lsum_map_mul_r. f_equal; [|ring]. apply lsum_map_ext; intros; ring. }
  rewrite bsum_add by auto. f_equal.
  - rewrite bsum_lsum_swap. apply lsum_map_ext; intros row _.
    rewrite <- bsum_mul_l by auto. rewrite <- bsum_mul_l by auto. reflexivity.
  - rewrite bsum_mul_l by auto. f_equal.
    rewrite (bsum_single K Rth p a); auto.
    + rewrite Nat.eqb_refl. ring.
    + intros b Hb Hne. destruct (Nat.eqb_spec a b); [congruence | ring].
Qed.
(* h . (N x) = sum_rows w (a.h)(a.x) + lamb h.x *)
Lemma normal_quad h x :
  dot K p h (mulmv K p N x)
  = lsum K (map (fun row => rw row * (dot K p (ra row) h * dot K p (ra row) x)) rows) + lamb * dot K p h x.
Proof.
  unfold dot at 1.
  rewrite (bsum_ext K p _ (fun a =>
    lsum K (map (fun row => nth a (ra row) 0 * nth a h 0 * (rw row * dot K p (ra row) x)) rows)
    + lamb * (nth a h 0 * nth a x 0))).
  2:{ intros a Ha. rewrite normal_mulmv by auto. rewrite (Rmul_comm Rth (nth a h 0)), (Rdistr_l Rth).
      rewrite <- lsum_map_mul_r. f_equal; [|ring]. apply lsum_map_ext; intros; ring. }
  rewrite bsum_add by auto. f_equal.
  - rewrite bsum_lsum_swap. apply lsum_map_ext; intros row _.
    rewrite bsum_mul_r by auto. unfold dot. ring.
  - rewrite bsum_mul_l by auto. reflexivity.
Qed.
Lemma normal_rhs_dot h :
  dot K p h g = lsum K (map (fun row => rw row * (dot K p (ra row) h * ry row)) rows).
Proof.
  unfold dot at 1.
  rewrite (bsum_ext K p _ (fun a => lsum K (map (fun row => nth a (ra row) 0 * nth a h 0 * (rw row * ry row)) rows))).
  2:{ intros a Ha. rewrite nth_normal_rhs by auto. rewrite (Rmul_comm Rth (nth a h 0)).
      rewrite <- lsum_map_mul_r. apply lsum_map_ext; intros; ring. }
  rewrite bsum_lsum_swap. apply lsum_map_ext; intros row _.
  rewrite bsum_mul_r by auto. unfold dot. ring.
Qed.

Definition vplus (x h : list T) : list T := tab p (fun a => nth a x 0 + nth a h 0).
Lemma dot_vplus_r a x h : dot K p a (vplus x h) = dot K p a x + dot K p a h.
Proof.
  unfold dot. rewrite <- bsum_add by auto. apply bsum_ext; intros c Hc.
  unfold vplus. rewrite nth_tab by auto. ring.
Qed.
Lemma dot_vplus_l a x h : dot K p (vplus x h) a = dot K p x a + dot K p h a.
Proof. rewrite dot_comm, dot_vplus_r, (dot_comm p a x), (dot_comm p a h). reflexivity. Qed.

(* core_optimal, algebraic part: for EVERY x and h,
   J(x+h) = J(x) + 2 h.(N x - g) + sum_j w_j (a_j.h)^2 + lamb |h|^2 *)
Lemma ridge_expand x h :
  Jrows K p lamb rows (vplus x h)
  = Jrows K p lamb rows x
    + (1 + 1) * (dot K p h (mulmv K p N x) - dot K p h g)
    + (lsum K (map (fun row => rw row * sq K (dot K p (ra row) h)) rows) + lamb * dot K p h h).
Proof.
  unfold Jrows. rewrite normal_quad, normal_rhs_dot.
  rewrite dot_vplus_l, !dot_vplus_r.
  rewrite (lsum_map_ext (fun row => rw row * sq K (dot K p (ra row) (vplus x h) - ry row))
    (fun row => (rw row * sq K (dot K p (ra row) x - ry row)
                + (1 + 1) * (rw row * (dot K p (ra row) h * dot K p (ra row) x)
                             - rw row * (dot K p (ra row) h * ry row)))
                + rw row * sq K (dot K p (ra row) h))).
  2:{ intros row _. rewrite dot_vplus_r. unfold sq. ring. }
  rewrite !lsum_map_add by auto. rewrite lsum_map_mul_l by auto. rewrite lsum_map_sub.
  rewrite (dot_comm p x h). ring.
Qed.
(* a solution of the normal equations the code forms is the exact minimiser *)
Lemma ridge_identity x h : (forall a, a < p -> nth a (mulmv K p N x) 0 = nth a g 0) ->
  Jrows K p lamb rows (vplus x h)
  = Jrows K p lamb rows x
    + (lsum K (map (fun row => rw row * sq K (dot K p (ra row) h)) rows) + lamb * dot K p h h).
Proof.
  intros H. rewrite ridge_expand.
  rewrite (dot_ext p h h (mulmv K p N x) g) by auto. ring.
Qed.
Lemma Jrows_ext x x' : (forall a, a < p -> nth a x 0 = nth a x' 0) ->
  Jrows K p lamb rows x = Jrows K p lamb rows x'.
Proof.
  intros H. unfold Jrows. f_equal.
  - apply lsum_map_ext; intros row _. now rewrite (dot_ext p (ra row) (ra row) x x').
  - now rewrite (dot_ext p x x' x x').
Qed.
End Ridge.

(* the normal equations are sums over the rows: they do not depend on the order of the rows *)
Lemma normal_mat_perm p lamb rows rows' : Permutation rows rows' ->
  normal_mat K p lamb rows = normal_mat K p lamb rows'.
Proof.
  intros H. unfold normal_mat. apply tab_ext; intros a Ha. apply tab_ext; intros b Hb. f_equal.
  apply lsum_perm. now apply Permutation_map.
Qed.
Lemma normal_rhs_perm p rows rows' : Permutation rows rows' -> normal_rhs K p rows = normal_rhs K p rows'.
Proof.
  intros H. unfold normal_rhs. apply tab_ext; intros a Ha. apply lsum_perm. now apply Permutation_map.
Qed.

(* ------------------------------------------------------------------ right partial products *)
Lemma rstep_length G i v : length (rstep K G i v) = cr1 G.
Proof. apply tab_length. Qed.
Lemma nth_rstep G i v a : a < cr1 G ->
  nth a (rstep K G i v) 0 = bsum K (cr2 G) (fun b => cget K G a i b * nth b v 0).
Proof. intros. unfold rstep. now rewrite nth_tab. Qed.

(* <v, rrun Y idx> is the first entry of the run of v through the chain *)
Lemma run_rrun Y : forall v idx r, wfo r Y idx 1 -> length v = r ->
  nth O (run K v Y idx) 0 = dot K r v (rrun K Y idx).
Proof.
  induction Y as [|G Y IH]; intros v [|i idx] r; simpl; try tauto.
  - intros -> _. unfold dot. simpl. ring.
  - intros (A & B & C) L. rewrite (IH _ _ _ C (vstep_length K v G i)). unfold dot.
    rewrite (bsum_ext K (cr2 G) _ (fun b => bsum K r (fun a => nth a v 0 * (cget K G a i b * nth b (rrun K Y idx) 0)))).
    2:{ intros b Hb. rewrite nth_vstep by auto. rewrite A, <- bsum_mul_r by auto.
        apply bsum_ext; intros a Ha. ring. }
    rewrite bsum_swap by auto. apply bsum_ext; intros a Ha.
    rewrite nth_rstep by lia. now rewrite bsum_mul_l by auto.
Qed.

(* the slice i of a core as a vector, in the order of the code's reshape (a*r2 + b) *)
Definition svec (G : core T) (i : nat) : list T :=
  tab (cr1 G * cr2 G) (fun c => cget K G (c / cr2 G) i (c mod cr2 G)).

Lemma divmod_lin a b r2 : b < r2 -> (a * r2 + b) / r2 = a /\ (a * r2 + b) mod r2 = b.
Proof.
  intros H. split.
  - rewrite Nat.div_add_l by lia. rewrite Nat.div_small by lia. lia.
  - rewrite Nat.add_comm, Nat.mod_add by lia. apply Nat.mod_small; lia.
Qed.

(* get_linear_in_slice: with the k-th core X between Y1 and Y2,
   get (Y1 ++ X :: Y2) (i1 ++ i :: i2) = a . vec(X[:, i, :]),  a = kron_row (left vector) (right vector) *)
Lemma get_slice Y1 X Y2 i1 i i2 :
  length i1 = length Y1 -> wfo 1 Y1 i1 (cr1 X) -> i < cn X -> wfo (cr2 X) Y2 i2 1 ->
  get K (Y1 ++ X :: Y2) (i1 ++ i :: i2)
  = dot K (cr1 X * cr2 X) (kron_row K (cr1 X) (cr2 X) (run K [1] Y1 i1) (rrun K Y2 i2)) (svec X i).
Proof.
  intros HL W1 Hi W2. unfold get. rewrite run_app by auto. simpl.
  rewrite (run_rrun Y2 _ _ _ W2 (vstep_length K _ X i)).
  unfold dot. rewrite bsum_prod by auto.
  rewrite (bsum_ext K (cr2 X) _ (fun b => bsum K (cr1 X) (fun a =>
     nth a (run K [1] Y1 i1) 0 * cget K X a i b * nth b (rrun K Y2 i2) 0))).
  2:{ intros b Hb. rewrite nth_vstep by auto. now rewrite bsum_mul_r by auto. }
  rewrite bsum_swap by auto. apply bsum_ext; intros a Ha. apply bsum_ext; intros b Hb.
  assert (Hab : a * cr2 X + b < cr1 X * cr2 X) by nia.
  unfold kron_row, svec. rewrite !nth_tab by auto.
  destruct (divmod_lin a b (cr2 X) Hb) as [-> ->]. ring.
Qed.

(* |G|_F^2 as a sum over slices of |vec(slice)|^2 *)
Lemma frobc_slices G : frobc K G = bsum K (cn G) (fun i => dot K (cr1 G * cr2 G) (svec G i) (svec G i)).
Proof.
  unfold frobc. rewrite bsum_swap by auto. apply bsum_ext; intros i Hi.
  unfold dot. rewrite bsum_prod by auto. apply bsum_ext; intros a Ha. apply bsum_ext; intros b Hb.
  assert (Hab : a * cr2 G + b < cr1 G * cr2 G) by nia.
  unfold svec. rewrite nth_tab by auto. destruct (divmod_lin a b (cr2 G) Hb) as [-> ->]. reflexivity.
Qed.
End Lin.
