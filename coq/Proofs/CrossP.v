(* Lemmas about Model/Cross.v *)
From Coq Require Import List Arith Lia PeanoNat Bool.
From TV Require Import Num.Ops Lin.Tab Model.Cross Proofs.CrossIdx Proofs.CrossGeo.
Import ListNotations.

Section CrossArgs.
Context {T : Type} (K : ops T) {P : Type}.
Variable isinf : T -> bool.
Variable f : nat -> rows -> option (list T).
Variable cb : option (nat -> bool).
Variable pones : P.
Variable pdotL pdotR : P -> P -> P.
Variable pvals : nat -> nat -> nat -> list T -> P.
Variable pick : nat -> bool -> nat -> nat -> nat -> P -> nat -> nat -> list nat.
Variable pcoreG pfacR : bool -> nat -> nat -> nat -> P -> list nat -> P.
Variable erank : nat -> list (@mcore P) -> T.
Variable accuracy : nat -> list (@mcore P) -> list (@mcore P) -> T.
Variable accdata : nat -> list (@mcore P) -> T.
Variable C : @cfg T P.

Notation crossm := (cross_m K isinf f cb pones pdotL pdotR pvals pick pcoreG pfacR erank accuracy accdata C).

(* no stop criterion (or e_vld without validation data): ValueError, whatever the objective is *)
Lemma args_rejected fuel :
  (c_m C = None /\ c_e C = None /\ c_nswp C = None /\ (c_hasI C && c_hasy C = false \/ c_evld C = None))
  \/ (c_evld C <> None /\ c_hasI C && c_hasy C = false) ->
  crossm fuel = Err ValueError.
Proof.
  unfold cross_m, args_ok. intros [(A & B & D & E)|(A & B)].
  - rewrite A, B, D. simpl. destruct E as [E|E]; rewrite E; simpl; auto.
    destruct (c_hasI C && c_hasy C); reflexivity.
  - rewrite B. destruct (c_evld C); [|congruence]. simpl. rewrite andb_false_r. reflexivity.
Qed.
Lemma args_accepted fuel :
  crossm fuel <> Err ValueError ->
  (c_m C <> None \/ c_e C <> None \/ c_nswp C <> None \/ (c_hasI C && c_hasy C = true /\ c_evld C <> None))
  /\ (c_evld C <> None -> c_hasI C && c_hasy C = true).
Proof.
  unfold cross_m, args_ok. destruct (c_m C), (c_e C), (c_nswp C), (c_evld C), (c_hasI C && c_hasy C); simpl;
    intros H; try congruence; split; intros; try congruence; auto;
    try (left; congruence); try (right; left; congruence); try (right; right; left; congruence);
    try (right; right; right; split; congruence);
    destruct (s_pc _); congruence.
Qed.

Notation stepm := (step K isinf f cb pones pdotL pdotR pvals pick pcoreG pfacR erank accuracy accdata C).
Notation runm := (run K isinf f cb pones pdotL pdotR pvals pick pcoreG pfacR erank accuracy accdata C).

Lemma iterate_add {A} (g : A -> A) a b x : iterate g (a + b) x = iterate g b (iterate g a x).
Proof. revert x; induction a; intros x; simpl; auto. Qed.
Lemma iterate_iterate {A} (g : A -> A) n k x : iterate (iterate g n) k x = iterate g (k * n) x.
Proof. revert x; induction k; intros x; cbn [iterate Nat.mul]; auto. rewrite IHk, iterate_add. reflexivity. Qed.
Lemma run_as_steps fuel : runm fuel = iterate stepm (2 * d C + fuel * (2 * d C)) (init K pones erank C).
Proof.
  unfold run, pre_done, sweep. generalize (2 * d C) as n. intros n.
  rewrite iterate_iterate, iterate_add. reflexivity.
Qed.

(* every exit returns a well-formed tensor of the original shape *)
Lemma interrupted_wf fuel s :
  Y0_ok pones C -> pick_ok pick -> crossm fuel = Ok s -> tt_wf pones C (sY s).
Proof.
  intros HY Hp. unfold cross_m. destruct (args_ok C); [|discriminate].
  rewrite run_as_steps. set (k := 2 * d C + fuel * (2 * d C)).
  pose proof (iterate_inv stepm (Geo pones C)
                (geo_step K isinf f cb pones pdotL pdotR pvals pick pcoreG pfacR erank accuracy accdata C HY Hp)
                k _ (geo_init K pones erank C HY)) as G.
  destruct (s_pc (iterate stepm k (init K pones erank C))) eqn:Epc; [discriminate|].
  intros H; injection H as <-. destruct G as (_ & _ & _ & _ & G). rewrite Epc in G. exact G.
Qed.
End CrossArgs.
