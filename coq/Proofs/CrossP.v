(* Lemmas about Model/Cross.v *)
From Coq Require Import List Arith Lia PeanoNat Bool.
From TV Require Import Num.Ops Lin.Tab Model.Cross.
Import ListNotations.

Section CrossArgs.
Context {T : Type} (K : ops T) {P : Type}.
Variable isinf : T -> bool.
Variable f : nat -> rows -> option (list T).
Variable cb : option (nat -> bool).
Variable pones : P.
Variable pdotL pdotR : P -> P -> P.
Variable pvals : nat -> nat -> nat -> list T -> P.
Variable pick : nat -> bool -> nat -> nat -> nat -> P -> nat -> nat -> list nat.
Variable pcoreG pfacR : bool -> nat -> nat -> nat -> P -> list nat -> P.
Variable erank : nat -> list (@mcore P) -> T.
Variable accuracy : nat -> list (@mcore P) -> list (@mcore P) -> T.
Variable accdata : nat -> list (@mcore P) -> T.
Variable C : @cfg T P.

Notation crossm := (cross_m K isinf f cb pones pdotL pdotR pvals pick pcoreG pfacR erank accuracy accdata C).

(* no stop criterion (or e_vld without validation data): ValueError, whatever the objective is *)
Lemma args_rejected fuel :
  (c_m C = None /\ c_e C = None /\ c_nswp C = None /\ (c_hasI C && c_hasy C = false \/ c_evld C = None))
  \/ (c_evld C <> None /\ c_hasI C && c_hasy C = false) ->
  crossm fuel = Err ValueError.
Proof.
  unfold cross_m, args_ok. intros [(A & B & D & E)|(A & B)].
  - rewrite A, B, D. simpl. destruct E as [E|E]; rewrite E; simpl; auto.
    destruct (c_hasI C && c_hasy C); reflexivity.
  - rewrite B. destruct (c_evld C); [|congruence]. simpl. rewrite andb_false_r. reflexivity.
Qed.
Lemma args_accepted fuel :
  crossm fuel <> Err ValueError ->
  (c_m C <> None \/ c_e C <> None \/ c_nswp C <> None \/ (c_hasI C && c_hasy C = true /\ c_evld C <> None))
  /\ (c_evld C <> None -> c_hasI C && c_hasy C = true).
Proof.
  unfold cross_m, args_ok. destruct (c_m C), (c_e C), (c_nswp C), (c_evld C), (c_hasI C && c_hasy C); simpl;
    intros H; try congruence; split; intros; try congruence; auto;
    try (left; congruence); try (right; left; congruence); try (right; right; left; congruence);
    try (right; right; right; split; congruence);
    destruct (s_pc _); congruence.
Qed.
End CrossArgs.
