(* Lemmas about Model/Cross.v *)
From Coq Require Import List Arith Lia PeanoNat Bool.
From TV Require Import Num.Ops Lin.Tab Model.Cross Proofs.CrossIdx Proofs.CrossGeo Proofs.CrossInvA Proofs.CrossInvB
  Proofs.CrossInvC.
Import ListNotations.

Section CrossArgs.
Context {T : Type} (K : ops T) {P : Type}.
Variable isinf : T -> bool.
Variable f : nat -> rows -> option (list T).
Variable cb : option (nat -> bool).
Variable pones : P.
Variable pdotL pdotR : P -> P -> P.
Variable pvals : nat -> nat -> nat -> list T -> P.
Variable pick : nat -> bool -> nat -> nat -> nat -> P -> nat -> nat -> list nat.
Variable pcoreG pfacR : bool -> nat -> nat -> nat -> P -> list nat -> P.
Variable erank : nat -> list (@mcore P) -> T.
Variable accuracy : nat -> list (@mcore P) -> list (@mcore P) -> T.
Variable accdata : nat -> list (@mcore P) -> T.
Variable C : @cfg T P.

Notation crossm := (cross_m K isinf f cb pones pdotL pdotR pvals pick pcoreG pfacR erank accuracy accdata C).

(* no stop criterion (or e_vld without validation data): ValueError, whatever the objective is *)
Lemma args_rejected fuel :
  (c_m C = None /\ c_e C = None /\ c_nswp C = None /\ (c_hasI C && c_hasy C = false \/ c_evld C = None))
  \/ (c_evld C <> None /\ c_hasI C && c_hasy C = false) ->
  crossm fuel = Err ValueError.
Proof.
  unfold cross_m, args_ok. intros [(A & B & D & E)|(A & B)].
  - rewrite A, B, D. simpl. destruct E as [E|E]; rewrite E; simpl; auto.
    destruct (c_hasI C && c_hasy C); reflexivity.
  - rewrite B. destruct (c_evld C); [|congruence]. simpl. rewrite andb_false_r. reflexivity.
Qed.
Lemma args_accepted fuel :
  crossm fuel <> Err ValueError ->
  (c_m C <> None \/ c_e C <> None \/ c_nswp C <> None \/ (c_hasI C && c_hasy C = true /\ c_evld C <> None))
  /\ (c_evld C <> None -> c_hasI C && c_hasy C = true).
Proof.
  unfold cross_m, args_ok. destruct (c_m C), (c_e C), (c_nswp C), (c_evld C), (c_hasI C && c_hasy C); simpl;
    intros H; try congruence; split; intros; try congruence; auto;
    try (left; congruence); try (right; left; congruence); try (right; right; left; congruence);
    try (right; right; right; split; congruence);
    destruct (s_pc _); congruence.
Qed.

Notation stepm := (step K isinf f cb pones pdotL pdotR pvals pick pcoreG pfacR erank accuracy accdata C).
Notation runm := (run K isinf f cb pones pdotL pdotR pvals pick pcoreG pfacR erank accuracy accdata C).

Lemma iterate_add {A} (g : A -> A) a b x : iterate g (a + b) x = iterate g b (iterate g a x).
Proof. revert x; induction a; intros x; simpl; auto. Qed.
Lemma iterate_iterate {A} (g : A -> A) n k x : iterate (iterate g n) k x = iterate g (k * n) x.
Proof. revert x; induction k; intros x; cbn [iterate Nat.mul]; auto. rewrite IHk, iterate_add. reflexivity. Qed.
Lemma run_as_steps fuel : runm fuel = iterate stepm (2 * d C + fuel * (2 * d C)) (init K pones erank C).
Proof.
  unfold run, pre_done, sweep. generalize (2 * d C) as n. intros n.
  rewrite iterate_iterate, iterate_add. reflexivity.
Qed.

(* every exit returns a well-formed tensor of the original shape *)
Lemma interrupted_wf fuel s :
  Y0_ok pones C -> pick_ok pick -> crossm fuel = Ok s -> tt_wf pones C (sY s).
Proof.
  intros HY Hp. unfold cross_m. destruct (args_ok C); [|discriminate].
  rewrite run_as_steps. set (k := 2 * d C + fuel * (2 * d C)).
  pose proof (iterate_inv stepm (Geo pones C)
                (geo_step K isinf f cb pones pdotL pdotR pvals pick pcoreG pfacR erank accuracy accdata C HY Hp)
                k _ (geo_init K pones erank C HY)) as G.
  destruct (s_pc (iterate stepm k (init K pones erank C))) eqn:Epc; [discriminate|].
  intros H; injection H as <-. destruct G as (_ & _ & _ & _ & G). rewrite Epc in G. exact G.
Qed.
End CrossArgs.

(* ------------------------------------------------------------------------------------------------------------
   The contract of property C06, read off the joint invariant (Proofs/CrossInvC.v: Inv) at every reachable state
   ("anytime": after any number of steps, also of a run that is cut by the fuel) and at every exit. *)
Section CrossRun.
Context {T : Type} (K : ops T) {P : Type}.
Variable isinf : T -> bool.
Variable f : nat -> rows -> option (list T).
Variable cb : option (nat -> bool).
Variable pones : P.
Variable pdotL pdotR : P -> P -> P.
Variable pvals : nat -> nat -> nat -> list T -> P.
Variable pick : nat -> bool -> nat -> nat -> nat -> P -> nat -> nat -> list nat.
Variable pcoreG pfacR : bool -> nat -> nat -> nat -> P -> list nat -> P.
Variable erank : nat -> list (@mcore P) -> T.
Variable accuracy : nat -> list (@mcore P) -> list (@mcore P) -> T.
Variable accdata : nat -> list (@mcore P) -> T.
Variable C : @cfg T P.
Hypothesis HY0 : Y0_ok pones C.
Hypothesis Hpick : pick_ok pick.

Notation crossm := (cross_m K isinf f cb pones pdotL pdotR pvals pick pcoreG pfacR erank accuracy accdata C).
Notation stepm := (step K isinf f cb pones pdotL pdotR pvals pick pcoreG pfacR erank accuracy accdata C).
Notation runm := (run K isinf f cb pones pdotL pdotR pvals pick pcoreG pfacR erank accuracy accdata C).
Notation initm := (init K pones erank C).
Notation invm := (Inv K isinf cb pones accdata C).
Notation hitm := (hit K isinf).
Notation accd := (accdata_m K accdata C).

(* the states the theorems speak about: reached from the initial state by any number of steps *)
Definition reach (s : @st T P) : Prop := exists k, s = iterate stepm k initm.

Lemma reach_inv s : reach s -> invm s.
Proof.
  intros (k & ->). apply (inv_steps K isinf f cb pones pdotL pdotR pvals pick pcoreG pfacR erank accuracy accdata C HY0 Hpick).
Qed.

Lemma cross_ok_reach fuel s : crossm fuel = Ok s -> reach s /\ s_pc s = Done.
Proof.
  unfold cross_m. destruct (args_ok C); [|discriminate].
  destruct (s_pc (runm fuel)) eqn:E; [discriminate|]. intros H. injection H as <-. split; [|exact E].
  exists (2 * d C + fuel * (2 * d C)).
  apply (run_steps K isinf f cb pones pdotL pdotR pvals pick pcoreG pfacR erank accuracy accdata C).
Qed.

(* ---- index domain *)
Definition requests_ok (c : @cnt T) : Prop :=
  Forall (fun e => rows_ok (ns C) (ev_I e)) (k_log c) /\
  Forall (fun q => fst q <> [] /\ NoDup (fst q) /\ Forall (fun r => Forall2 lt r (ns C)) (fst q)) (fcalls c).

Lemma requests_in_domain_anytime s : reach s -> requests_ok (sK s).
Proof.
  intros R. pose proof (inv_dom _ _ _ _ _ _ _ (reach_inv s R)) as HD. split.
  - unfold dom in HD. rewrite Forall_forall in *. intros e He. destruct (HD e He) as (A & _). exact A.
  - rewrite fcalls_lcalls. apply dom_calls. exact HD.
Qed.
Lemma requests_in_domain fuel s : crossm fuel = Ok s -> requests_ok (sK s).
Proof. intros H. apply requests_in_domain_anytime. apply (cross_ok_reach fuel s H). Qed.

(* ---- budget and counters *)
Definition budget_ok (c : @cnt T) : Prop :=
  k_m c = length (evald (fcalls c)) /\ k_nf c = length (fcalls c) /\ k_mc c = hits (k_log c) /\
  (forall mm, m_max C = Some mm -> k_m c <= mm).

Lemma budget_anytime s : reach s -> budget_ok (sK s).
Proof. intros R. exact (inv_base _ _ _ _ _ _ _ (reach_inv s R)). Qed.
Lemma budget fuel s : crossm fuel = Ok s -> budget_ok (sK s).
Proof. intros H. apply budget_anytime. apply (cross_ok_reach fuel s H). Qed.

Definition nocache_ok (c : @cnt T) : Prop :=
  k_cache c = None /\ k_mc c = 0 /\ Forall (fun e => ev_new e = ev_I e /\ ev_out e <> Skipped) (k_log c).

Lemma budget_nocache_anytime s : c_cache C = None -> reach s -> nocache_ok (sK s).
Proof.
  intros Ec R. pose proof (reach_inv s R) as I.
  destruct (inv_nc _ _ _ _ _ _ _ I Ec) as (A & B). destruct (inv_base _ _ _ _ _ _ _ I) as (_ & _ & D & _).
  split; [exact A|]. split; [|exact B]. rewrite D. apply acc_nc_hits. exact B.
Qed.
Lemma budget_nocache fuel s : c_cache C = None -> crossm fuel = Ok s -> nocache_ok (sK s).
Proof. intros Ec H. apply budget_nocache_anytime; auto. apply (cross_ok_reach fuel s H). Qed.

Section WithCache.
Hypothesis Hlen : forall k I y, f k I = Some y -> length y = length I.
Variable ch0 : @cachet T.
Hypothesis Hch : c_cache C = Some ch0.

Definition cache_ok (c : @cnt T) : Prop :=
  exists ch, k_cache c = Some ch /\
    log_split ch0 (k_log c) /\
    NoDup (evald (fcalls c)) /\ (forall i, In i (evald (fcalls c)) -> cmem i ch0 = false) /\
    (forall i, cmem i ch = cmem i ch0 || rmem i (evald (fcalls c))) /\
    (forall i, cmem i ch0 = true -> cget0 K i ch = cget0 K i ch0) /\
    (forall I y, In (I, Some y) (fcalls c) -> forall k, k < length I -> cget0 K (nth k I []) ch = nth k y (o0 K)).

Lemma budget_cache_anytime s : reach s -> cache_ok (sK s).
Proof.
  intros R. pose proof (reach_inv s R) as I. destruct R as (k & ->).
  destruct (acc_cache_steps K isinf f cb pones pdotL pdotR pvals pick pcoreG pfacR erank accuracy accdata C
              HY0 Hpick Hlen ch0 Hch k) as ((ch & A & B & D) & V).
  destruct (V ch A) as (V1 & V2). exists ch. split; [exact A|]. split; [exact D|].
  assert (HN : Forall (fun e : @ev T => NoDup (ev_I e)) (k_log (sK (iterate stepm k initm)))).
  { pose proof (inv_dom _ _ _ _ _ _ _ I) as HD. unfold dom in HD. rewrite Forall_forall in *.
    intros e He. destruct (HD e He) as ((_ & N & _) & _). exact N. }
  destruct (log_split_nodup ch0 _ D HN) as (N1 & N2). rewrite fcalls_lcalls.
  split; [exact N1|]. split; [exact N2|]. split; [exact B|]. split; [exact V1|exact V2].
Qed.
Lemma budget_cache fuel s : crossm fuel = Ok s -> cache_ok (sK s).
Proof. intros H. apply budget_cache_anytime. apply (cross_ok_reach fuel s H). Qed.
End WithCache.

(* ---- stop contract *)
Definition all_good (l : list (@ev T)) : Prop := Forall (fun e => ev_good e = true) l.

Definition stop_ok (s : @st T P) : Prop :=
  let c := sK s in
  exists r, k_stop c = Some r /\
  match r with
  | Sm => exists mm e l, m_max C = Some mm /\ k_log c = e :: l /\ ev_out e = Refused /\
                         mm < k_m c + length (ev_new e) /\ all_good l
  | Sfunc => exists e l, k_log c = e :: l /\ ev_out e = Called None /\ all_good l /\
                         (forall mm, m_max C = Some mm -> k_m c + length (ev_new e) <= mm)
  | Se => hitm (s_e s) (c_e C) = true \/ (s_nswp s = 0 /\ hitm (minus1 K) (c_e C) = true)
  | Sevld => hitm (s_evld s) (c_evld C) = true \/
             (s_nswp s = 0 /\ hitm (accd 0 (sYold s)) (c_evld C) = true)
  | Snswp => c_nswp C = Some (s_nswp s)
  | Scb => exists g, cb = Some g /\ g (s_nswp s) = true /\ conv C c = false
  | Sconv => conv C c = true
  end.

Lemma stop_contract fuel s : crossm fuel = Ok s -> stop_ok s.
Proof.
  intros H. destruct (cross_ok_reach fuel s H) as (R & D).
  pose proof (inv_ctl _ _ _ _ _ _ _ (reach_inv s R)) as Ct.
  unfold stop_ok. cbv zeta. destruct (k_stop (sK s)) as [r|] eqn:Es.
  2:{ exfalso. exact (ctl_done _ _ _ _ _ _ Ct D Es). }
  exists r. split; [reflexivity|].
  pose proof (ctl_head _ _ _ _ _ _ Ct) as Hh. unfold head_ok in Hh. cbv zeta in Hh. rewrite Es in Hh.
  destruct r.
  - destruct (k_log (sK s)) as [|e l]; [destruct Hh as [A _]; congruence|]. destruct Hh as (G & Hh).
    destruct (ev_out e) as [| |[y|]] eqn:Eo; try (destruct Hh as [A _]; congruence).
    destruct Hh as (_ & _ & Ov). unfold over in Ov. destruct (m_max C) as [mm|] eqn:Em; [|discriminate].
    apply Nat.ltb_lt in Ov. exists mm, e, l. auto.
  - destruct (k_log (sK s)) as [|e l]; [destruct Hh as [_ A]; congruence|]. destruct Hh as (G & Hh).
    destruct (ev_out e) as [| |[y|]] eqn:Eo; try (destruct Hh as [A B]; congruence).
    destruct Hh as (_ & _ & Ov). exists e, l. split; [auto|]. split; [auto|]. split; [auto|].
    intros mm Em. unfold over in Ov. rewrite Em in Ov. now apply Nat.ltb_ge in Ov.
  - destruct (ctl_e _ _ _ _ _ _ Ct Es) as [[_ A]|A]; auto.
  - destruct (ctl_evld _ _ _ _ _ _ Ct Es) as [[_ A]|A]; auto.
  - exact (ctl_nswp _ _ _ _ _ _ Ct Es).
  - destruct (ctl_cb _ _ _ _ _ _ Ct Es) as (_ & A). exact A.
  - destruct (ctl_conv _ _ _ _ _ _ Ct Es) as (_ & A). exact A.
Qed.

(* with an order in which 0 <= -1 is false (floats, Z, Q), "e" cannot be pending from the pre-iteration *)
Lemma stop_e fuel s : oleb K (o0 K) (minus1 K) = false ->
  crossm fuel = Ok s -> k_stop (sK s) = Some Se -> hitm (s_e s) (c_e C) = true.
Proof.
  intros Hneg H Es. destruct (stop_contract fuel s H) as (r & Er & Hr). rewrite Es in Er. injection Er as <-.
  destruct Hr as [A|[_ A]]; [exact A|]. unfold hit, tle in A. destruct (c_e C); [|discriminate].
  rewrite Hneg in A. discriminate.
Qed.

Lemma hit_spec v thr : hitm v thr = true ->
  exists t, thr = Some t /\ oleb K (o0 K) v = true /\ oleb K v t = true /\ isinf v = false.
Proof.
  unfold hit, tle. destruct thr as [t|]; [|discriminate]. intros H.
  apply andb_true_iff in H as [H H3]. apply andb_true_iff in H as [H1 H2]. apply negb_true_iff in H3. eauto.
Qed.

(* the shape of the log: only the newest request can be a refusal / a None; "func" and "m" are reported exactly then *)
Definition log_shape (c : @cnt T) : Prop :=
  match k_log c with
  | [] => k_stop c <> Some Sm /\ k_stop c <> Some Sfunc
  | e :: l => all_good l /\
      (k_stop c = Some Sfunc <-> ev_out e = Called None) /\ (k_stop c = Some Sm <-> ev_out e = Refused)
  end.
Lemma stop_log_shape s : reach s -> log_shape (sK s).
Proof.
  intros R. pose proof (ctl_head _ _ _ _ _ _ (inv_ctl _ _ _ _ _ _ _ (reach_inv s R))) as Hh.
  unfold head_ok in Hh. cbv zeta in Hh. unfold log_shape. destruct (k_log (sK s)) as [|e l]; [exact Hh|].
  destruct Hh as (G & Hh). split; [exact G|].
  destruct (ev_out e) as [| |[y|]].
  - destruct Hh as (A & _). rewrite A. split; split; congruence.
  - destruct Hh as (A & B). split; split; congruence.
  - destruct Hh as (A & B). split; split; congruence.
  - destruct Hh as (A & _). rewrite A. split; split; congruence.
Qed.

(* priority of the criteria in _info_appr (e_vld > e > nswp): after at least one sweep "e" is reported only when the
   e_vld criterion is not met by the reported value, "nswp" only when neither e nor e_vld is met *)
Lemma stop_priority fuel s : crossm fuel = Ok s -> 1 <= s_nswp s ->
  (k_stop (sK s) = Some Se -> hitm (s_evld s) (c_evld C) = false) /\
  (k_stop (sK s) = Some Snswp -> hitm (s_e s) (c_e C) = false /\ hitm (s_evld s) (c_evld C) = false).
Proof.
  intros H. destruct (cross_ok_reach fuel s H) as (R & D).
  exact (ctl_prio _ _ _ _ _ _ (inv_ctl _ _ _ _ _ _ _ (reach_inv s R))).
Qed.

(* everything the objective was ever asked for (also in a call that returned None) fits into the budget *)
Definition asked (c : @cnt T) : rows := flat_map fst (fcalls c).
Lemma asked_bound_anytime s mm : reach s -> m_max C = Some mm -> length (asked (sK s)) <= mm.
Proof.
  intros R Em. pose proof (reach_inv s R) as I.
  pose proof (ctl_head _ _ _ _ _ _ (inv_ctl _ _ _ _ _ _ _ I)) as Hh.
  destruct (inv_base _ _ _ _ _ _ _ I) as (Hm & _ & _ & Hb). specialize (Hb mm Em).
  unfold head_ok in Hh. cbv zeta in Hh. unfold asked. rewrite fcalls_lcalls. rewrite Hm in *.
  destruct (k_log (sK s)) as [|e l]; [simpl; lia|]. destruct Hh as (G & Hh).
  rewrite evald_cons, app_length in *. rewrite lcalls_cons, flat_map_app, app_length. pose proof (lcalls_good l G) as HG.
  unfold rows in *. rewrite HG.
  unfold call_of, ev_eval in *. destruct (ev_out e) as [| |[y|]]; cbn [flat_map fst length app] in *;
    rewrite ?app_nil_r; try lia.
  destruct Hh as (_ & _ & Ov). unfold over in Ov. rewrite Em in Ov. apply Nat.ltb_ge in Ov. lia.
Qed.

(* never more sweeps than nswp *)
Lemma nswp_bound s t : reach s -> c_nswp C = Some t -> s_nswp s <= t.
Proof. intros R Et. exact (ctl_nswp_le _ _ _ _ _ _ (inv_ctl _ _ _ _ _ _ _ (reach_inv s R)) t Et). Qed.

(* ---- termination *)
Lemma done_ok fuel : args_ok C = true -> s_pc (runm fuel) = Done -> exists s, crossm fuel = Ok s.
Proof. intros A D. unfold cross_m. rewrite A, D. eauto. Qed.

(* a hole in the stop contract: with e as the only stop argument (no cache, no callback), an objective that always
   answers, and an accuracy value that never meets the criterion at any sweep (e.g. the sentinel -1 that accuracy returns
   for 0/0 when the objective is identically zero), the run never returns, whatever the fuel *)
Lemma e_only_never_returns fuel s :
  m_max C = None -> c_nswp C = None -> c_evld C = None -> cb = None -> c_cache C = None ->
  (forall k I, f k I <> None) ->
  (forall k Y Yo, hitm (accuracy k Y Yo) (c_e C) = false) -> hitm (minus1 K) (c_e C) = false ->
  crossm fuel <> Ok s.
Proof.
  intros Hm Hn Hv Hcb Hca Hf Ha Hneg H. destruct (cross_ok_reach fuel s H) as (_ & D).
  unfold cross_m in H. destruct (args_ok C); [|discriminate].
  destruct (s_pc (runm fuel)) eqn:E; [discriminate|]. injection H as <-.
  exact (e_only_never_done K isinf f cb pones pdotL pdotR pvals pick pcoreG pfacR erank accuracy accdata C HY0 Hpick
           Hm Hn Hv Hcb Hca Hf Ha Hneg fuel E).
Qed.

Lemma terminates_nswp_ok t fuel : args_ok C = true -> c_nswp C = Some t -> t < fuel -> exists s, crossm fuel = Ok s.
Proof.
  intros A Et Hf. apply done_ok; auto.
  apply (terminates_nswp K isinf f cb pones pdotL pdotR pvals pick pcoreG pfacR erank accuracy accdata C HY0 Hpick t); auto.
Qed.
Lemma terminates_m_ok mm fuel :
  args_ok C = true -> m_max C = Some mm -> (c_scale C + 1) * mm < fuel -> exists s, crossm fuel = Ok s.
Proof.
  intros A Em Hf. apply done_ok; auto.
  apply (terminates_m K isinf f cb pones pdotL pdotR pvals pick pcoreG pfacR erank accuracy accdata C HY0 Hpick mm); auto.
Qed.
Lemma terminates_m_nocache_ok mm fuel :
  args_ok C = true -> c_cache C = None -> m_max C = Some mm -> mm < fuel -> exists s, crossm fuel = Ok s.
Proof.
  intros A Ec Em Hf. apply done_ok; auto.
  apply (terminates_m_nc K isinf f cb pones pdotL pdotR pvals pick pcoreG pfacR erank accuracy accdata C HY0 Hpick mm); auto.
Qed.
End CrossRun.
