(* C17: the hypotheses of the whole-tensor error theorem are satisfiable on a run that genuinely truncates (reals).
   Y = [G1 (1 x 2 x 2); G2 (2 x 2 x 1)], mode size 2 (q = 0, one factorisation call per core).
   Core 0: the 2 x 2 unfolding [[5, 0], [0, 5]] is projected on the row (3/5, 4/5): residual 25 = e^2 with e = 5.
   Core 1: the 4 x 1 unfolding is kept (V = [1]): residual 0. *)
From Coq Require Import List Arith Lia PeanoNat ZArith Reals Lra.
From TV Require Import Num.Ops Lin.Tab Lin.BigSum Lin.Mat TT.Chain Model.GridInd Model.Qtt Proofs.StabRP Proofs.FrobP
  Proofs.QttErrP Proofs.QttErrTotP.
Import ListNotations.
Local Open Scope R_scope.

Definition exG1 : core R := mk_core 1 2 2 [[[5; 0]; [0; 5]]].
Definition exG2 : core R := mk_core 2 2 1 [[[1]; [2]]; [[3]; [4]]].
Definition exY : list (core R) := [exG1; exG2].
Definition exVr : mat R := mk_mat 1 2 [[3 / 5; 4 / 5]].
Definition exsvd2 (k : nat) : nat -> mat R -> mat R * mat R := proj_oracle OR (nth k [[exVr]] []).

Lemma exVr_orth c c' : (c < mr exVr)%nat -> (c' < mr exVr)%nat ->
  bsum OR (mc exVr) (fun t => omul OR (mget OR exVr c t) (mget OR exVr c' t)) = if Nat.eqb c c' then o1 OR else o0 OR.
Proof.
  cbn [mr exVr]. intros Hc Hc'. destruct c as [|c]; [|lia]. destruct c' as [|c']; [|lia]. cbn. field.
Qed.
Lemma mid1_orth c c' : (c < mr (mid OR 1))%nat -> (c' < mr (mid OR 1))%nat ->
  bsum OR (mc (mid OR 1)) (fun t => omul OR (mget OR (mid OR 1) c t) (mget OR (mid OR 1) c' t)) =
  if Nat.eqb c c' then o1 OR else o0 OR.
Proof.
  cbn [mr mid mkmat]. intros Hc Hc'. destruct c as [|c]; [|lia]. destruct c' as [|c']; [|lia]. cbn. ring.
Qed.

Example tot_example :
  chain 1 exY 1 /\
  cores_all exsvd2 (core_hyp (fun M U V => trunc_ok OR M U V /\ res2 OR M U V <= 5 * 5) 0) 0 exY /\
  res2 OR (unfold_rows OR exG1) (fst (exsvd2 0 0%nat (unfold_rows OR exG1))) (snd (exsvd2 0 0%nat (unfold_rows OR exG1))) = 25 /\
  exists Z, tt_to_qtt OR exsvd2 exY = Ok Z.
Proof.
  split; [cbn; auto|]. split; [|split].
  - cbn [cores_all exY]. split; [|split; [|exact I]].
    + split; [reflexivity|]. split; [cbn; lia|]. split; [|exact I]. split.
      * apply (trunc_ok_proj OR (unfold_rows OR exG1) exVr); [reflexivity|exact exVr_orth].
      * unfold res2, sq. cbn. lra.
    + split; [reflexivity|]. split; [cbn; lia|]. split; [|exact I]. split.
      * apply (trunc_ok_proj OR (unfold_rows OR exG2) (mid OR 1)); [reflexivity|exact mid1_orth].
      * unfold res2, sq. cbn. lra.
  - unfold res2, sq. cbn. lra.
  - apply (tt_to_qtt_ok exsvd2 0 exY). repeat constructor.
Qed.
