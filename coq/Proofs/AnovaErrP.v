(* Lemmas about Model/Anova.v and Model/AnovaFunc.v (C13), part 7, at the reals: the rounding inside add_many (order 2)
   and inside ANOVA_func.cores (default e) is the real model of teneva.truncate (Model/Svd.v), so the error and rank
   theorems of property C02 (Proofs/TruncP5.v) apply to the ANOVA results. *)
From Coq Require Import List Arith Lia PeanoNat ZArith Bool Reals Lra Permutation.
From TV Require Import Num.Ops Lin.Tab Lin.BigSum Lin.Mat TT.Chain Model.ActOne Model.Transformation Model.Svd
  Model.ActMany Model.Wf Model.Anova Model.AnovaFunc
  Proofs.StabRP Proofs.ActOneP Proofs.ActOneP3 Proofs.TransformationP Proofs.OrthP Proofs.FrobP Proofs.TruncP4 Proofs.TruncP5
  Proofs.WfP Proofs.WfPMany Proofs.AnovaP Proofs.Anova2P Proofs.AnovaTopP Proofs.AnovaFuncP.
Import ListNotations.

(* what the Python code does with the value returned by teneva.truncate (an exception propagates; the theorems below
   show that none is raised) *)
Definition unwrap {A} (dflt : A) (r : result A) : A := match r with Ok x => x | Err _ => dflt end.

Section Generic.
Context {T : Type} (K : ops T).
Hypothesis Rth : rng K.

(* fewer than 15 summands after the first: add_many rounds exactly once, at the end *)
Lemma add_many_loop_small trunc : forall rest i nc (Y : list (core T)), (i + length rest < 15)%nat ->
  add_many_loop K trunc i nc Y rest = (fold_left (add K) rest Y, nc).
Proof.
  induction rest as [|Yc rest IH]; intros i nc Y H; [reflexivity|]. cbn [Anova.add_many_loop length fold_left] in *.
  rewrite (Nat.mod_small (S i) 15) by lia. cbn [Nat.eqb]. apply IH. lia.
Qed.
Lemma add_many_small trunc (Y0 : list (core T)) rest : (length rest < 15)%nat ->
  Anova.add_many K trunc (Y0 :: rest) = trunc O (fold_left (add K) rest Y0).
Proof. intros H. unfold Anova.add_many, copy. rewrite add_many_loop_small by lia. reflexivity. Qed.

Lemma fold_add_get idx shp : (2 <= length shp)%nat -> forall rest (Y : list (core T)), okY idx shp Y -> Forall (okY idx shp) rest ->
  okY idx shp (fold_left (add K) rest Y) /\
  get K (fold_left (add K) rest Y) idx = oadd K (get K Y idx) (lsum K (map (fun Yc => get K Yc idx) rest)).
Proof.
  intros Hd. induction rest as [|Yc rest IH]; intros Y HY HR; cbn [fold_left map lsum].
  - split; [exact HY|]. rewrite (Radd_comm Rth). symmetry. apply (Radd_0_l Rth).
  - inversion HR as [|? ? HYc HR']; subst. destruct HY as [W S]. destruct HYc as [Wc Sc].
    destruct (add_get K Rth Y Yc idx) as (G & W' & S'); auto; try congruence.
    { rewrite <- (map_length (@cn T)). fold (shape Y). rewrite S. exact Hd. }
    destruct (IH (add K Y Yc)) as [A B]; [split; congruence|exact HR'|].
    split; [exact A|]. rewrite B, G. symmetry. apply (Radd_assoc Rth).
Qed.

(* ranks bounded by m *)
Definition rb (m : nat) (Y : list (core T)) : Prop := Forall (fun G => (cr1 G <= m)%nat) Y.
Lemma add_tail_rb m1 m2 : forall Y1 Y2 : list (core T), rb m1 Y1 -> rb m2 Y2 -> rb (m1 + m2) (add_tail K Y1 Y2).
Proof.
  induction Y1 as [|G1 Y1 IH]; intros Y2 H1 H2; [constructor|].
  destruct Y2 as [|G2 Y2]; [destruct Y1; constructor|].
  inversion H1 as [|? ? a1 b1]; inversion H2 as [|? ? a2 b2]; subst.
  destruct Y1 as [|G1' Y1], Y2 as [|G2' Y2].
  - cbn [add_tail]. constructor; [|constructor]. unfold core_last. rewrite cr1_mk. lia.
  - cbn [add_tail]. constructor; [|constructor]. unfold core_mid. rewrite cr1_mk. lia.
  - cbn [add_tail]. constructor; [unfold core_mid; rewrite cr1_mk; lia|]. destruct Y1; constructor.
  - change (add_tail K (G1 :: G1' :: Y1) (G2 :: G2' :: Y2)) with (core_mid K G1 G2 :: add_tail K (G1' :: Y1) (G2' :: Y2)).
    constructor; [unfold core_mid; rewrite cr1_mk; lia|]. now apply IH.
Qed.
Lemma add_rb m1 m2 (Y1 Y2 : list (core T)) : rb m1 Y1 -> rb m2 Y2 -> rb (m1 + m2) (add K Y1 Y2).
Proof.
  intros H1 H2. destruct Y1 as [|G1 Y1]; [constructor|]. destruct Y2 as [|G2 Y2]; [constructor|].
  inversion H1; inversion H2; subst. cbn [add]. constructor.
  - unfold core_first. rewrite cr1_mk. lia.
  - now apply add_tail_rb.
Qed.
Lemma rb_nth m (Y : list (core T)) k : rb m Y -> (k < length Y)%nat -> (cr1 (nth k Y dcore) <= m)%nat.
Proof. intros H Hk. unfold rb in H. rewrite Forall_forall in H. apply H. now apply nth_In. Qed.

Lemma fold_add_valid ns : (2 <= length ns)%nat -> forall rest (Y : list (core T)), valid ns Y -> Forall (valid ns) rest ->
  valid ns (fold_left (add K) rest Y).
Proof.
  intros Hd. induction rest as [|Yc rest IH]; intros Y HY HR; [exact HY|]. cbn [fold_left].
  inversion HR; subst. apply IH; auto. now apply add_valid.
Qed.

(* a delta tensor is valid and has ranks 1 *)
Lemma delta_sw_valid ns idx (s w : T) : (1 <= length ns)%nat -> Forall (fun n => (1 <= n)%nat) ns ->
  valid ns (delta_sw K ns idx s w) /\ rb 1 (delta_sw K ns idx s w).
Proof.
  intros Hd Hp. unfold delta_sw. split.
  - apply wfI_iff. apply wfI_tab; try lia.
    + now rewrite cr1_mk.
    + now rewrite cr2_mk.
    + intros i Hi. now rewrite cr1_mk, cr2_mk.
    + intros i Hi. rewrite cn_mk, cr2_mk. split; [reflexivity|]. split; [apply wfdat_mk|].
      split; [|lia]. apply (proj1 (Forall_nth _ _) Hp). exact Hi.
  - apply Forall_forall. intros G HG. apply in_tab in HG as (k & _ & ->). rewrite cr1_mk. lia.
Qed.

Lemma cores_pre_valid (split : T -> T * T) d n c0 cfs : (2 <= d)%nat -> (1 <= n)%nat ->
  valid (repeat n d) (cores_pre K split d n c0 cfs) /\ rb (1 + length (terms K cfs)) (cores_pre K split d n c0 cfs).
Proof.
  intros Hd Hn. unfold cores_pre. set (ns := repeat n d).
  assert (Ln : length ns = d) by apply repeat_length.
  assert (Hp : Forall (fun m => (1 <= m)%nat) ns) by (apply Forall_forall; intros m Hm; apply repeat_spec in Hm; lia).
  assert (HD : forall idx v, valid ns (delta K split ns idx v) /\ rb 1 (delta K split ns idx v)).
  { intros idx v. unfold delta. destruct (split v) as [s w]. apply delta_sw_valid; [lia|exact Hp]. }
  destruct (HD (repeat O d) c0) as [V0 R0]. revert V0 R0.
  generalize (delta K split ns (repeat O d) c0) as A0. generalize 1%nat as m.
  generalize (terms K cfs) as ts. induction ts as [|[[i p] v] ts IH]; intros m A0 V0 R0; cbn [fold_left length].
  - split; [exact V0|]. now rewrite Nat.add_0_r.
  - destruct (HD (unit_idx d i p) v) as [Vt Rt].
    destruct (IH (m + 1)%nat (add K A0 (delta K split ns (unit_idx d i p) v))) as [A B].
    + apply add_valid; auto. lia.
    + now apply add_rb.
    + split; [exact A|]. replace (m + S (length ts))%nat with (m + 1 + length ts)%nat by lia. exact B.
Qed.
End Generic.

Lemma domain_nonempty I k : (k < dimI I)%nat -> (1 <= length (nth k (domain I) []))%nat.
Proof.
  intros Hk. rewrite domain_nth by exact Hk. destruct I as [|r0 I0]; [cbn in Hk; lia|].
  assert (H : In (nth k r0 0%Z) (unique (column k (r0 :: I0)))) by (apply unique_In; now left).
  destruct (unique (column k (r0 :: I0))); [destruct H|cbn; lia].
Qed.
Lemma shapes_pos I : Forall (fun n => (1 <= n)%nat) (shapes (domain I)).
Proof.
  apply Forall_forall. intros n Hn. unfold shapes in Hn. apply in_map_iff in Hn as (dm & <- & Hin).
  apply (In_nth _ _ []) in Hin as (k & Hk & <-). rewrite domain_length in Hk. now apply domain_nonempty.
Qed.

Local Open Scope R_scope.

(* ---------- order 2 ---------- *)
Section Order2Err.
Variable svdo : nat -> nat -> mat R -> mat R * list R * mat R.
Variable eigh : nat -> nat -> mat R -> list R * mat R.
Variable argsort : nat -> nat -> list R -> list nat.
Variable qr rq : nat -> nat -> mat R -> mat R * mat R.
Variable ilog2 : nat -> nat -> R -> Z.
Variable pow2frac : Z -> nat -> R.
Hypothesis qr_spec : forall c k A, qr_ok OR A (fst (qr c k A)) (snd (qr c k A)).
Hypothesis rq_spec : forall c k A, rq_ok OR A (fst (rq c k A)) (snd (rq c k A)).
Hypothesis eigh_spec : forall c k C, msym C -> eigh_ok C (fst (eigh c k C)) (snd (eigh c k C)).
Hypothesis argsort_spec : forall c k l, argsort_ok l (argsort c k l).
Variable skel : nat -> mat R -> mat R * mat R.
(* the skeleton routine used for the pair matrices is EXACT here (U V = A, at least one column) *)
Hypothesis Hskel : forall num A, let (U, V) := skel num A in mc U = mr V /\ meq OR (mmul OR U V) A.
Hypothesis Hskel1 : forall num A, (1 <= mc (fst (skel num A)))%nat.

(* the truncate routine add_many calls: the c-th call is teneva.truncate(Y, e, cap c) with the default flags *)
Definition trunc_real (e : R) (cap : nat -> Z) (c : nat) (Y : list (core R)) : list (core R) :=
  unwrap Y (trunc_call OR svdo eigh argsort qr rq ilog2 pow2frac c Y e (cap c)).

(* ANOVA(order=2).cores(r, noise=0) with fewer than 15 pairs (d <= 5): one rounding call truncate(e, rcap).  The call
   succeeds; the result has the observed mode sizes, a valid rank profile with every rank <= max(1, rcap); and when no
   rank reaches the cap ("the requested rank is large enough"), its Frobenius distance from the tensor
   constant + univariate + pair terms is at most e times the Frobenius norm of that tensor *)
Theorem anova_order2_error I y (M : anova R) r g e (cap : nat -> Z) :
  ANOVA OR I y 2 = Ok M -> (2 <= r)%nat -> (2 <= dimI I)%nat -> (length (pairs (dimI I)) < 15)%nat -> 0 <= e ->
  exists W, cores OR M r 0 false g skel (trunc_real e cap) = Ok W /\
    length W = dimI I /\ chain 1 W 1 /\ shape W = shapes (domain I) /\
    (forall k, (1 <= k < dimI I)%nat ->
       (1 <= cr1 (nth k W dcore))%nat /\ (Z.of_nat (cr1 (nth k W dcore)) <= Z.max 1 (cap O))%Z) /\
    ((forall k, (1 <= k < dimI I)%nat -> (Z.of_nat (cr1 (nth k W dcore)) < cap O)%Z) ->
     msum OR (shapes (domain I)) (fun idx => sq OR (calc_pos OR M idx - get OR W idx))
     <= e * e * msum OR (shapes (domain I)) (fun idx => sq OR (calc_pos OR M idx))).
Proof.
  intros HM Hr Hd Hsmall He.
  destruct (anova_order2_struct OR OR_rng skel Hskel I y M r g HM Hr Hd) as (Ps & LP & HC & HPs & HI).
  set (shp := shapes (domain I)) in *.
  assert (Lshp : length shp = dimI I) by (unfold shp, shapes; now rewrite map_length, domain_length).
  assert (Hpos : Forall (fun n => (1 <= n)%nat) shp) by apply shapes_pos.
  set (Y1 := cores_1 OR M r 0 g) in *.
  set (Ypre := fold_left (add OR) Ps Y1).
  (* validity of the summands *)
  pose proof (ANOVA_inv OR I y 2 M HM) as [_ EM].
  assert (HdM : a_d M = dimI I) by (rewrite EM; unfold a_d; cbn [a_dom]; apply domain_length).
  assert (Ef1 : map (@length R) (a_f1 M) = shp) by (rewrite EM; cbn [a_f1]; apply build_1_shape).
  assert (V1 : valid shp Y1).
  { rewrite <- Ef1. apply cores_1_valid; try lia.
    - rewrite HdM, EM. cbn [a_f1]. rewrite build_1_length. apply domain_length.
    - apply Forall_forall. intros f Hf. assert (Hin : In (length f) (map (@length R) (a_f1 M))) by now apply in_map.
      rewrite Ef1 in Hin. unfold shp in Hpos. rewrite Forall_forall in Hpos. now apply Hpos. }
  assert (VP : Forall (valid shp) Ps).
  { apply Forall_forall. intros Yc Hin. apply (In_nth _ _ []) in Hin as (num & Hnum & <-).
    destruct (HPs num Hnum) as (A & i & j & Hij & EA1 & EA2 & ->).
    specialize (Hskel num A). specialize (Hskel1 num A). destruct (skel num A) as [U V] eqn:ES.
    destruct Hskel as (HUV & E1 & E2 & _). cbn [mmul mr mc mkmat] in E1, E2. cbn [fst] in Hskel1.
    apply pair_valid; rewrite ?ES; cbn [fst snd]; try rewrite Lshp; auto; try congruence. }
  assert (Vpre : valid shp Ypre) by (apply fold_add_valid; auto; lia).
  assert (Spre : shape Ypre = shp) by apply Vpre.
  assert (Wpre : wfI (shape Ypre) Ypre) by (rewrite Spre; now apply wfI_iff).
  assert (Lpre : length Ypre = dimI I) by (rewrite <- shape_length, Spre; exact Lshp).
  destruct (add_many_step svdo eigh argsort qr rq ilog2 pow2frac qr_spec rq_spec eigh_spec argsort_spec
              O (cap O) Ypre e Wpre ltac:(lia) He) as (W & EW & LW & CW & SW & RW & DW).
  exists W. rewrite Lpre in *.
  split.
  { rewrite HC. rewrite add_many_small by lia. unfold trunc_real.
    change (Ok (unwrap Ypre (trunc_call OR svdo eigh argsort qr rq ilog2 pow2frac O Ypre e (cap O))) = Ok W).
    rewrite EW. reflexivity. }
  split; [exact LW|]. split; [exact CW|]. split; [congruence|]. split.
  { intros k Hk. destruct (RW k Hk) as (A & _ & B). split; assumption. }
  intros Hcap. specialize (DW Hcap). unfold dist2, tnorm2 in DW. rewrite Spre in DW.
  (* entries of Ypre *)
  assert (Eg : forall idx, inb shp idx -> get OR Ypre idx = calc_pos OR M idx).
  { intros idx Hin. apply inb_nth in Hin as [L Hin]. rewrite Lshp in L, Hin.
    destruct (HI idx L Hin) as (H1 & H2 & HS).
    destruct (fold_add_get OR OR_rng idx shp ltac:(lia) Ps Y1 H1 H2) as [_ G]. unfold Ypre. rewrite G. exact HS. }
  rewrite (msum_ext OR shp _ (fun idx => sq OR (get OR Ypre idx - get OR W idx)))
    by (intros idx Hin; now rewrite Eg).
  rewrite (msum_ext OR shp (fun idx => sq OR (calc_pos OR M idx)) (fun idx => get OR Ypre idx * get OR Ypre idx))
    by (intros idx Hin; rewrite Eg by exact Hin; reflexivity).
  exact DW.
Qed.
End Order2Err.

(* ---------- anova_func with rounding ---------- *)
Section FuncErr.
Variable svdo : nat -> mat R -> mat R * list R * mat R.
Variable eigh : nat -> mat R -> list R * mat R.
Variable argsort : nat -> list R -> list nat.
Variable qr rq : nat -> mat R -> mat R * mat R.
Variable ilog2 : nat -> R -> Z.
Variable pow2frac : Z -> nat -> R.
Hypothesis qr_spec : forall k A, qr_ok OR A (fst (qr k A)) (snd (qr k A)).
Hypothesis rq_spec : forall k A, rq_ok OR A (fst (rq k A)) (snd (rq k A)).
Hypothesis svd_spec : forall k A, svd_ok OR A (fst (fst (svdo k A))) (snd (fst (svdo k A))) (snd (svdo k A)).
Hypothesis eigh_spec : forall k C, msym C -> eigh_ok C (fst (eigh k C)) (snd (eigh k C)).
Hypothesis argsort_spec : forall k l, argsort_ok l (argsort k l).

(* teneva.truncate(A, e): r = 1e12, orth, no stabilisation, eigen-decomposition mode *)
Definition trunc_func (e : R) (Y : list (core R)) : list (core R) :=
  unwrap Y (truncate OR svdo eigh argsort qr rq ilog2 pow2frac Y e default_cap true false true).

(* anova_func(X, y, n, a, b, lamb, e): the rounding succeeds, keeps the mode sizes n, and the returned coefficient
   tensor is within e ||A||_F of the unrounded tensor A of anova_func_denote (fewer than 10^12 coefficients) *)
Theorem anova_func_error X y n a b lamb solve (split : R -> R * R) e :
  (2 <= dimX X)%nat -> (1 <= n)%nat -> 0 <= e ->
  let pre := anova_func OR X y n a b lamb solve split None in
  (Z.of_nat (1 + length (terms OR (snd (coeffs OR X y n a b lamb solve)))) < default_cap)%Z ->
  exists W, anova_func OR X y n a b lamb solve split (Some (trunc_func e)) = W /\
    truncate OR svdo eigh argsort qr rq ilog2 pow2frac pre e default_cap true false true = Ok W /\
    length W = dimX X /\ chain 1 W 1 /\ shape W = repeat n (dimX X) /\
    dist2 OR pre W <= e * e * tnorm2 OR pre.
Proof.
  intros Hd Hn He pre Hcap.
  assert (Epre : pre = cores_pre OR split (dimX X) n (fst (coeffs OR X y n a b lamb solve)) (snd (coeffs OR X y n a b lamb solve))).
  { unfold pre, anova_func. now destruct (coeffs OR X y n a b lamb solve). }
  destruct (cores_pre_valid OR split (dimX X) n (fst (coeffs OR X y n a b lamb solve))
              (snd (coeffs OR X y n a b lamb solve)) Hd Hn) as [V Rb]. rewrite <- Epre in V, Rb.
  assert (Spre : shape pre = repeat n (dimX X)) by apply V.
  assert (Lpre : length pre = dimX X) by (rewrite <- shape_length, Spre; apply repeat_length).
  assert (Wpre : wfI (shape pre) pre) by (rewrite Spre; now apply wfI_iff).
  destruct (truncate_error svdo eigh argsort qr rq ilog2 pow2frac qr_spec rq_spec svd_spec eigh_spec argsort_spec
              default_cap true pre e Wpre ltac:(lia) He) as (W & EW & LW & CW & SW & RW & DW).
  exists W. split.
  { rewrite (anova_func_rounded OR split). fold pre. unfold trunc_func. now rewrite EW. }
  split; [exact EW|]. split; [congruence|]. split; [exact CW|]. split; [congruence|].
  apply DW. intros k Hk. destruct (RW k Hk) as (_ & B & _).
  pose proof (rb_nth _ _ k Rb ltac:(lia)) as B'. lia.
Qed.
End FuncErr.
