(* C12 at the reals, d dimensions: exactness of the Chebyshev interpolation routines on polynomials of degree < n_k
   (TT and dense), re-sampling inverts the coefficient transform (Chebyshev and sine kind), points in / out of
   the box, agreement of func_gets with func_gets_full.  Everything rests on the 1-D identities of FuncTrigP.v
   (DCT-I / DST-I orthogonality for every N) and on the mode-wise linear-map lemmas of FuncP.v / FuncFullP.v. *)
From Coq Require Import List Arith Lia PeanoNat ZArith Bool Reals Lra Psatz.
From TV Require Import Num.Ops Lin.Tab Lin.BigSum Lin.Mat TT.Chain Model.Func Model.FuncFull
  Proofs.FuncP Proofs.FuncFullP Proofs.FuncTrigP.
Import ListNotations.
Local Open Scope R_scope.

(* ---------------------------------------------------------------- the cosine table at R meets the dense-routine hypotheses *)
Lemma cs0_R N : csR N O = o1 OR.
Proof. unfold csR. cbn [INR]. ror. unfold Rdiv. rewrite Rmult_0_r, Rmult_0_l. apply cos_0. Qed.
Lemma csN_R N k : (1 <= N)%nat -> csR N (N * k) = pm OR k.
Proof.
  intros HN. pose proof (INR_N_pos N HN). rewrite pm_R. unfold csR. rewrite mult_INR. f_equal. field. lra.
Qed.
Lemma cs_sym_R N j k : (j <= 2 * N)%nat -> csR N ((2 * N - j) * k) = csR N (j * k).
Proof.
  intros Hj. destruct N as [|N].
  - assert (j = O) by lia. subst. reflexivity.
  - assert (HP : 0 < INR (S N)) by (apply INR_N_pos; lia). unfold csR.
    rewrite !mult_INR, minus_INR, mult_INR by lia. change (INR 2) with 2.
    replace (PI * ((2 * INR (S N) - INR j) * INR k) / INR (S N))
      with (- (PI * (INR j * INR k) / INR (S N)) + 2 * INR k * PI) by (field; lra).
    rewrite cos_period. apply cos_neg.
Qed.
Lemma ofZ_w_R i : oofZ OR (1 - Z.of_nat i * Z.of_nat i)%Z = osub OR (o1 OR) (omul OR (fnat OR i) (fnat OR i)).
Proof. unfold fnat. ror. now rewrite minus_IZR, mult_IZR. Qed.

(* ---------------------------------------------------------------- boxes, affine scaling, grid points *)
Definition aff (x a b : R) : R := (x - (b + a) / 2) * (2 / (b - a)).
Fixpoint affs (x a b : list R) : list R :=
  match x, a, b with
  | xk :: x', ak :: a', bk :: b' => aff xk ak bk :: affs x' a' b'
  | _, _, _ => []
  end.
Fixpoint in_box (x a b : list R) : Prop :=
  match x, a, b with
  | xk :: x', ak :: a', bk :: b' => ak <= xk <= bk /\ in_box x' a' b'
  | _, _, _ => True
  end.
(* the Chebyshev grid point with multi-index jdx of the grid with sizes ms on the box [a, b] *)
Fixpoint gridpt (a b : list R) (ms jdx : list nat) : list R :=
  match a, b, ms, jdx with
  | ak :: a', bk :: b', m :: ms', j :: jdx' => ind_to_poi_cheb OR csR j ak bk m :: gridpt a' b' ms' jdx'
  | _, _, _, _ => []
  end.
(* the polynomial with Chebyshev coefficient tensor c (degree < n_k in variable k) on the box [a, b] *)
Definition cpoly (ns : list nat) (c : list nat -> R) (a b x : list R) : R := polyv OR ns c (affs x a b).

Lemma aff_bounds x a b : a < b -> a <= x <= b -> -1 <= aff x a b <= 1.
Proof.
  intros Hab [H1 H2]. unfold aff.
  assert (E1 : (x - (b + a) / 2) * (2 / (b - a)) + 1 = 2 * (x - a) * / (b - a)) by (field; lra).
  assert (E2 : 1 - (x - (b + a) / 2) * (2 / (b - a)) = 2 * (b - x) * / (b - a)) by (field; lra).
  assert (P : 0 < / (b - a)) by (apply Rinv_0_lt_compat; lra).
  assert (0 <= 2 * (x - a) * / (b - a)) by (apply Rmult_le_pos; lra).
  assert (0 <= 2 * (b - x) * / (b - a)) by (apply Rmult_le_pos; lra).
  lra.
Qed.
Lemma poi_scale_in x a b : a < b -> a <= x <= b -> poi_scale_cheb OR x a b = aff x a b.
Proof.
  intros Hab Hx. pose proof (aff_bounds x a b Hab Hx) as [B1 B2]. unfold aff in *.
  unfold poi_scale_cheb, fm1, ftwo. ror.
  destruct (Rltb ((x - (b + a) / (1 + 1)) * ((1 + 1) / (b - a))) (- (1))) eqn:E1.
  - apply Rltb_true in E1. replace (1 + 1) with 2 in E1 by ring. lra.
  - destruct (Rltb 1 ((x - (b + a) / (1 + 1)) * ((1 + 1) / (b - a)))) eqn:E2.
    + apply Rltb_true in E2. replace (1 + 1) with 2 in E2 by ring. lra.
    + replace (1 + 1) with 2 by ring. reflexivity.
Qed.
Lemma scaled_in : forall x a b, Forall2 Rlt a b -> in_box x a b -> scaled OR x a b = affs x a b.
Proof.
  induction x as [|xk x IH]; intros [|ak a] [|bk b] HF Hin; try reflexivity; try (inversion HF; fail).
  inversion HF as [|? ? ? ? Hab HF']; subst. destruct Hin as [Hx Hin]. cbn [scaled affs]. rewrite poi_scale_in by auto. f_equal. auto.
Qed.
Lemma existsb_combine_false (f : R * R -> bool) : forall u v : list R,
  (forall k, (k < length u)%nat -> (k < length v)%nat -> f (nth k u 0, nth k v 0) = false) ->
  existsb f (combine u v) = false.
Proof.
  induction u as [|uk u IH]; intros [|vk v] H; try reflexivity. cbn [combine existsb].
  pose proof (H O ltac:(cbn [length]; lia) ltac:(cbn [length]; lia)) as H0. cbn [nth] in H0. rewrite H0. cbn [orb]. apply IH. intros k A B. apply (H (S k)); cbn [length]; lia.
Qed.
Lemma in_box_nth : forall x a b k, in_box x a b -> (k < length x)%nat -> (k < length a)%nat -> (k < length b)%nat ->
  nth k a 0 <= nth k x 0 <= nth k b 0.
Proof.
  induction x as [|xk x IH]; intros [|ak a] [|bk b] k Hin Hx Ha Hb; cbn [length] in *; try lia.
  destruct Hin as [H1 H2]. destruct k; cbn [nth]; auto. apply IH; auto; lia.
Qed.
(* a point of the box is never skipped (any tolerance >= 0; the code uses 1e-99) *)
Lemma out_box_in tol x a b : 0 <= tol -> length a = length x -> length b = length x -> in_box x a b ->
  out_box OR tol x a b = false.
Proof.
  intros Ht La Lb Hin. unfold out_box. apply orb_false_intro; apply existsb_combine_false; intros k A B; cbn [fst snd]; ror;
    apply Rltb_false; pose proof (in_box_nth x a b k Hin) as H; lra || (specialize (H ltac:(lia) ltac:(lia) ltac:(lia)); lra).
Qed.
(* a point that leaves the box by more than the tolerance in some coordinate is skipped *)
Lemma existsb_combine_true (f : R * R -> bool) : forall (u v : list R) k,
  (k < length u)%nat -> (k < length v)%nat -> f (nth k u 0, nth k v 0) = true -> existsb f (combine u v) = true.
Proof.
  induction u as [|uk u IH]; intros [|vk v] k A B H; cbn [length] in *; try lia. cbn [combine existsb].
  destruct k; cbn [nth] in H; [now rewrite H|]. rewrite (IH v k) by (auto; lia). apply orb_true_r.
Qed.
Lemma out_box_out tol x a b k : (k < length x)%nat -> (k < length a)%nat -> (k < length b)%nat ->
  tol < nth k a 0 - nth k x 0 \/ tol < nth k x 0 - nth k b 0 -> out_box OR tol x a b = true.
Proof.
  intros Hx Ha Hb [H|H]; unfold out_box; apply orb_true_intro; [left|right];
    apply (existsb_combine_true _ _ _ k); auto; cbn [fst snd]; ror; now apply Rltb_true.
Qed.

Lemma aff_gridpt j ak bk m : ak < bk -> aff (ind_to_poi_cheb OR csR j ak bk m) ak bk = nodeU OR csR m j.
Proof. intros H. unfold aff, nodeU, ind_to_poi_cheb, fm1, ftwo. ror. field. lra. Qed.
Lemma affs_gridpt : forall ms a b jdx, Forall2 Rlt a b -> length a = length ms ->
  affs (gridpt a b ms jdx) a b = nodesU OR csR ms jdx.
Proof.
  induction ms as [|m ms IH]; intros [|ak a] [|bk b] jdx HF L; cbn [length] in L; try discriminate; try (inversion HF; fail).
  - reflexivity.
  - inversion HF; subst. destruct jdx as [|j jdx]; [reflexivity|]. cbn [gridpt affs nodesU].
    rewrite aff_gridpt by auto. f_equal. apply IH; auto.
Qed.
Lemma tprod_nodes_gprod : forall ns jdx m,
  tprod OR (nodesU OR csR ns jdx) m = gprod OR (getsM OR csR snR Cheb) ns jdx m.
Proof.
  induction ns as [|n ns IH]; intros [|j jdx] [|i m]; cbn [nodesU tprod gprod]; try reflexivity.
  rewrite IH. reflexivity.
Qed.

(* ---------------------------------------------------------------- 1-D identities in the form the d-dimensional lemmas ask *)
Lemma dmat_gets_id ns : Forall (fun n => 2 <= n)%nat ns -> forall n i k, In n ns -> (i < n)%nat -> (k < n)%nat ->
  bsum OR n (fun j => omul OR (dmat OR csR n i j) (getsM OR csR snR Cheb n j k)) = delta OR i k.
Proof.
  intros Hn n i k Hin Hi Hk. rewrite Forall_forall in Hn. specialize (Hn n Hin).
  destruct n as [|N]; [lia|]. apply dmat_gets_R; lia.
Qed.
Lemma gets_dmat_id ns : Forall (fun n => 2 <= n)%nat ns -> forall n i k, In n ns -> (i < n)%nat -> (k < n)%nat ->
  bsum OR n (fun j => omul OR (getsM OR csR snR Cheb n i j) (dmat OR csR n j k)) = delta OR i k.
Proof.
  intros Hn n i k Hin Hi Hk. rewrite Forall_forall in Hn. specialize (Hn n Hin).
  destruct n as [|N]; [lia|]. apply gets_dmat_R; lia.
Qed.

Lemma int_core_dims kind G : cr1 (int_core OR csR snR kind G) = cr1 G /\ cr2 (int_core OR csR snR kind G) = cr2 G.
Proof. destruct kind; split; reflexivity. Qed.
Lemma int_core_cn kind G : cn (int_core OR csR snR kind G) = cn G.
Proof. destruct kind; reflexivity. Qed.
Lemma chain_int kind Y : chain 1 Y 1 -> chain 1 (map (int_core OR csR snR kind) Y) 1.
Proof. apply chain_map_cores. apply int_core_dims. Qed.
Lemma shape_int kind Y : shape (map (int_core OR csR snR kind) Y) = shape Y.
Proof. apply shape_map_cores. apply int_core_cn. Qed.

(* ================================================================ TT routines *)
(* func_int returns the coefficients of any polynomial of degree < n_k sampled at the Chebyshev nodes *)
Theorem int_exact_nodes Y c : chain 1 Y 1 -> Forall (fun n => 2 <= n)%nat (shape Y) ->
  (forall jdx, inb (shape Y) jdx -> get OR Y jdx = polyv OR (shape Y) c (nodesU OR csR (shape Y) jdx)) ->
  forall idx, inb (shape Y) idx -> get OR (map (int_core OR csR snR Cheb) Y) idx = c idx.
Proof.
  intros HC Hn HY idx Hi.
  rewrite (get_int_cheb OR OR_rng csR snR Hdiv_R) by (auto; now apply Forall_shape).
  rewrite (msum_ext OR (shape Y) _ (fun jdx => omul OR (gprod OR (dmat OR csR) (shape Y) idx jdx)
            (msum OR (shape Y) (fun m => omul OR (gprod OR (getsM OR csR snR Cheb) (shape Y) jdx m) (c m))))).
  2:{ intros jdx Hj. rewrite HY by auto. unfold polyv. f_equal. apply msum_ext; intros m Hm.
      rewrite tprod_nodes_gprod. ror. ring. }
  apply (msum_two_maps OR OR_rng); auto. now apply dmat_gets_id.
Qed.
(* re-sampling on the same grid inverts the coefficient transform, for ARBITRARY data Y (Chebyshev kind) *)
Theorem resample_inverse_cheb Y jdx : chain 1 Y 1 -> Forall (fun n => 2 <= n)%nat (shape Y) -> inb (shape Y) jdx ->
  get OR (func_gets OR csR snR (map (int_core OR csR snR Cheb) Y) (shape Y) Cheb) jdx = get OR Y jdx.
Proof.
  intros HC Hn Hj. rewrite <- (shape_int Cheb Y) at 1.
  rewrite (get_gets_same OR OR_rng) by (rewrite ?shape_int; auto using chain_int). rewrite shape_int.
  rewrite (msum_ext OR (shape Y) _ (fun idx => omul OR (gprod OR (getsM OR csR snR Cheb) (shape Y) jdx idx)
            (msum OR (shape Y) (fun m => omul OR (gprod OR (dmat OR csR) (shape Y) idx m) (get OR Y m))))).
  2:{ intros idx Hi. rewrite (get_int_cheb OR OR_rng csR snR Hdiv_R) by (auto; now apply Forall_shape). reflexivity. }
  apply (msum_two_maps OR OR_rng); auto. now apply gets_dmat_id.
Qed.
(* the same for the sine kind: func_gets(func_int(Y, 'sin'), kind='sin') on the same grid is Y (any mode sizes) *)
Theorem resample_inverse_sin Y jdx : chain 1 Y 1 -> inb (shape Y) jdx ->
  get OR (func_gets OR csR snR (map (int_core OR csR snR Sin) Y) (shape Y) Sin) jdx = get OR Y jdx.
Proof.
  intros HC Hj. rewrite <- (shape_int Sin Y) at 1.
  rewrite (get_gets_same OR OR_rng) by (rewrite ?shape_int; auto using chain_int). rewrite shape_int.
  rewrite (msum_ext OR (shape Y) _ (fun idx => omul OR (gprod OR (getsM OR csR snR Sin) (shape Y) jdx idx)
            (msum OR (shape Y) (fun m => omul OR (gprod OR (smat OR snR) (shape Y) idx m) (get OR Y m))))).
  2:{ intros idx Hi. rewrite (get_int_sin OR OR_rng csR snR Hdiv_R) by auto. reflexivity. }
  apply (msum_two_maps OR OR_rng); auto. intros n i k _ Hi Hk. now apply gets_smat_R.
Qed.

(* evaluation: a coefficient TT-tensor A with entries c gives the polynomial at every point of the box *)
Theorem get_exact tol x A c a b z skip : chain 1 A 1 -> 0 <= tol ->
  length x = length A -> length a = length A -> length b = length A -> Forall2 Rlt a b -> in_box x a b ->
  (forall idx, inb (shape A) idx -> get OR A idx = c idx) ->
  func_get1 OR tol x A a b z skip = cpoly (shape A) c a b x.
Proof.
  intros HC Ht Lx La Lb Hab Hin Hc.
  rewrite (func_get1_in OR OR_rng) by (auto; rewrite out_box_in by (auto; lia); apply andb_false_r).
  rewrite scaled_in by auto. unfold cpoly. now apply polyv_ext.
Qed.
(* a point outside the box (by more than the tolerance) receives the fill value z *)
Theorem get_fill tol x A a b z k : (k < length x)%nat -> (k < length a)%nat -> (k < length b)%nat ->
  tol < nth k a 0 - nth k x 0 \/ tol < nth k x 0 - nth k b 0 -> func_get1 OR tol x A a b z true = z.
Proof. intros Hx Ha Hb H. apply func_get1_out. now apply (out_box_out tol x a b k). Qed.
(* re-sampling on ANY new grid (sizes ms) returns the values of the polynomial at the nodes of that grid *)
Theorem gets_exact A c a b ms jdx : chain 1 A 1 -> length a = length A -> Forall2 Rlt a b ->
  length ms = length A -> inb ms jdx -> (forall idx, inb (shape A) idx -> get OR A idx = c idx) ->
  get OR (func_gets OR csR snR A ms Cheb) jdx = cpoly (shape A) c a b (gridpt a b ms jdx).
Proof.
  intros HC La Hab Lm Hj Hc. rewrite (get_gets_cheb OR OR_rng) by auto. unfold cpoly.
  rewrite affs_gridpt by (auto; lia). now apply polyv_ext.
Qed.

(* the headline, TT format (d = length Y >= 0; teneva needs d >= 2 only for its TT containers) *)
Theorem interp_exact Y c a b : chain 1 Y 1 -> Forall (fun n => 2 <= n)%nat (shape Y) ->
  length a = length Y -> length b = length Y -> Forall2 Rlt a b ->
  (forall jdx, inb (shape Y) jdx -> get OR Y jdx = cpoly (shape Y) c a b (gridpt a b (shape Y) jdx)) ->
  exists A, func_int OR csR snR Y Cheb = Ok A /\ chain 1 A 1 /\ shape A = shape Y /\
    (forall idx, inb (shape Y) idx -> get OR A idx = c idx) /\
    (forall tol x z skip, 0 <= tol -> length x = length Y -> in_box x a b ->
       func_get1 OR tol x A a b z skip = cpoly (shape Y) c a b x) /\
    (forall ms jdx, length ms = length Y -> inb ms jdx ->
       get OR (func_gets OR csR snR A ms Cheb) jdx = cpoly (shape Y) c a b (gridpt a b ms jdx)) /\
    (forall jdx, inb (shape Y) jdx -> get OR (func_gets OR csR snR A (shape Y) Cheb) jdx = get OR Y jdx).
Proof.
  intros HC Hn La Lb Hab HY. exists (map (int_core OR csR snR Cheb) Y).
  assert (LS : length (shape Y) = length Y) by (unfold shape; apply map_length).
  assert (Hc : forall idx, inb (shape Y) idx -> get OR (map (int_core OR csR snR Cheb) Y) idx = c idx).
  { apply int_exact_nodes; auto. intros jdx Hj. rewrite HY by auto. unfold cpoly.
    rewrite affs_gridpt by (auto; lia). reflexivity. }
  assert (LA : length (map (int_core OR csR snR Cheb) Y) = length Y) by apply map_length.
  split; [apply (func_int_cheb_ok OR); now apply Forall_shape|].
  split; [now apply chain_int|]. split; [apply shape_int|]. split; [exact Hc|]. split; [|split].
  - intros tol x z skip Ht Lx Hin. rewrite <- (shape_int Cheb Y).
    apply get_exact; auto using chain_int; try lia. now rewrite shape_int.
  - intros ms jdx Lm Hj. rewrite <- (shape_int Cheb Y).
    apply gets_exact; auto using chain_int; try lia. now rewrite shape_int.
  - intros jdx Hj. now apply resample_inverse_cheb.
Qed.

(* ================================================================ dense routines *)
Theorem int_full_exact_nodes ns Y c : Forall (fun n => 2 <= n)%nat ns ->
  (forall jdx, inb ns jdx -> tget OR Y jdx = polyv OR ns c (nodesU OR csR ns jdx)) ->
  forall idx, inb ns idx -> tget OR (func_int_full OR csR ns Y) idx = c idx.
Proof.
  intros Hn HY idx Hi.
  rewrite (func_int_full_spec OR OR_rng csR Hdiv_R cs0_R csN_R cs_sym_R) by auto.
  rewrite (msum_ext OR ns _ (fun jdx => omul OR (gprod OR (dmat OR csR) ns idx jdx)
            (msum OR ns (fun m => omul OR (gprod OR (getsM OR csR snR Cheb) ns jdx m) (c m))))).
  2:{ intros jdx Hj. rewrite HY by auto. unfold polyv. f_equal. apply msum_ext; intros m Hm.
      rewrite tprod_nodes_gprod. ror. ring. }
  apply (msum_two_maps OR OR_rng); auto. now apply dmat_gets_id.
Qed.
Theorem get_full_exact tol x ns A c a b z skip : 0 <= tol ->
  length x = length ns -> length a = length ns -> length b = length ns -> Forall2 Rlt a b -> in_box x a b ->
  (forall idx, inb ns idx -> tget OR A idx = c idx) ->
  func_get_full1 OR tol x ns A a b z skip = cpoly ns c a b x.
Proof.
  intros Ht Lx La Lb Hab Hin Hc.
  rewrite (func_get_full1_in OR OR_rng) by (auto; rewrite out_box_in by (auto; lia); apply andb_false_r).
  rewrite scaled_in by auto. unfold cpoly. now apply polyv_ext.
Qed.
Theorem get_full_fill tol x ns A a b z k : (k < length x)%nat -> (k < length a)%nat -> (k < length b)%nat ->
  tol < nth k a 0 - nth k x 0 \/ tol < nth k x 0 - nth k b 0 -> func_get_full1 OR tol x ns A a b z true = z.
Proof. intros Hx Ha Hb H. apply func_get_full1_out. now apply (out_box_out tol x a b k). Qed.

(* the nodes func_gets_full evaluates at: inside [-1, 1]^d, and scaling them with a = -1, b = 1 changes nothing *)
Lemma nodes_of_nodesU : forall jdx ms, nodes_of OR csR jdx ms = nodesU OR csR ms jdx.
Proof. induction jdx as [|j jdx IH]; intros [|m ms]; cbn [nodes_of nodesU]; try reflexivity. now rewrite IH. Qed.
Lemma nodeU_range m j : -1 <= nodeU OR csR m j <= 1.
Proof.
  unfold nodeU, ind_to_poi_cheb, fm1, ftwo. ror. pose proof (COS_bound (PI * INR j / INR (m - 1))) as [B1 B2].
  unfold csR. lra.
Qed.
Lemma scaled_unit_nodes : forall ms jdx d, length ms = d ->
  scaled OR (nodesU OR csR ms jdx) (repeat (fm1 OR) d) (repeat (o1 OR) d) = nodesU OR csR ms jdx.
Proof.
  induction ms as [|m ms IH]; intros [|j jdx] [|d] L; cbn [length] in L; try discriminate; try reflexivity.
  cbn [nodesU repeat scaled]. rewrite IH by lia. f_equal.
  unfold fm1. ror. rewrite poi_scale_in by (try lra; apply nodeU_range). unfold aff. field.
Qed.
Lemma out_box_unit_nodes tol : 0 <= tol -> forall ms jdx d, length ms = d -> length jdx = d ->
  out_box OR tol (nodesU OR csR ms jdx) (repeat (fm1 OR) d) (repeat (o1 OR) d) = false.
Proof.
  intros Ht ms jdx d Lm Lj.
  assert (LN : forall ms jdx, length jdx = length ms -> length (nodesU OR csR ms jdx) = length ms).
  { clear. induction ms as [|m ms IH]; intros [|j jdx] L; cbn [length] in L; try discriminate; cbn [nodesU length]; auto. }
  apply out_box_in; auto; rewrite ?repeat_length, ?LN by lia; try lia.
  subst d. revert jdx Lj. induction ms as [|m ms IH]; intros [|j jdx] Lj; cbn [length] in Lj; try discriminate; cbn [nodesU repeat in_box length]; auto.
  split; [unfold fm1; ror; apply nodeU_range|]. apply IH. lia.
Qed.
(* func_gets_full returns the polynomial with coefficient tensor A at the nodes of the new grid *)
Theorem gets_full_spec tol ns A ms jdx : 0 <= tol -> length ms = length ns -> inb ms jdx ->
  tget OR (func_gets_full OR csR tol ns A ms) jdx = polyv OR ns (tget OR A) (nodesU OR csR ms jdx).
Proof.
  intros Ht Lm Hj. pose proof (inb_length _ _ Hj) as Lj. unfold func_gets_full. rewrite (tget_mk OR) by auto.
  rewrite nodes_of_nodesU.
  assert (LN : forall ms jdx, length jdx = length ms -> length (nodesU OR csR ms jdx) = length ms).
  { clear. induction ms as [|m ms IH]; intros [|j jdx] L; cbn [length] in L; try discriminate; cbn [nodesU length]; auto. }
  rewrite (func_get_full1_in OR OR_rng); rewrite ?repeat_length, ?LN by lia; try lia.
  - rewrite scaled_unit_nodes by lia. reflexivity.
  - rewrite out_box_unit_nodes by (auto; lia). reflexivity.
Qed.
(* tt_eq_dense for re-sampling *)
Theorem func_gets_tt_eq_dense tol A ms jdx : chain 1 A 1 -> 0 <= tol -> length ms = length A -> inb ms jdx ->
  tget OR (func_gets_full OR csR tol (shape A) (tfull OR A) ms) jdx = get OR (func_gets OR csR snR A ms Cheb) jdx.
Proof.
  intros HC Ht Lm Hj. assert (LS : length (shape A) = length A) by (unfold shape; apply map_length).
  rewrite gets_full_spec by (auto; lia). rewrite (get_gets_cheb OR OR_rng) by auto.
  apply polyv_ext. intros m Hm. now apply (tget_tfull OR).
Qed.
Theorem gets_full_exact tol ns A c a b ms jdx : 0 <= tol -> length a = length ns -> Forall2 Rlt a b ->
  length ms = length ns -> inb ms jdx -> (forall idx, inb ns idx -> tget OR A idx = c idx) ->
  tget OR (func_gets_full OR csR tol ns A ms) jdx = cpoly ns c a b (gridpt a b ms jdx).
Proof.
  intros Ht La Hab Lm Hj Hc. rewrite gets_full_spec by auto. unfold cpoly.
  rewrite affs_gridpt by (auto; lia). now apply polyv_ext.
Qed.
(* the headline, dense format (any d >= 0, in particular d = 1) *)
Theorem interp_exact_full ns Y c a b : Forall (fun n => 2 <= n)%nat ns ->
  length a = length ns -> length b = length ns -> Forall2 Rlt a b ->
  (forall jdx, inb ns jdx -> tget OR Y jdx = cpoly ns c a b (gridpt a b ns jdx)) ->
  let A := func_int_full OR csR ns Y in
    (forall idx, inb ns idx -> tget OR A idx = c idx) /\
    (forall tol x z skip, 0 <= tol -> length x = length ns -> in_box x a b ->
       func_get_full1 OR tol x ns A a b z skip = cpoly ns c a b x) /\
    (forall tol ms jdx, 0 <= tol -> length ms = length ns -> inb ms jdx ->
       tget OR (func_gets_full OR csR tol ns A ms) jdx = cpoly ns c a b (gridpt a b ms jdx)).
Proof.
  intros Hn La Lb Hab HY A.
  assert (Hc : forall idx, inb ns idx -> tget OR A idx = c idx).
  { apply int_full_exact_nodes; auto. intros jdx Hj. rewrite HY by auto. unfold cpoly.
    rewrite affs_gridpt by (auto; lia). reflexivity. }
  split; [exact Hc|]. split.
  - intros tol x z skip Ht Lx Hin. apply get_full_exact; auto.
  - intros tol ms jdx Ht Lm Hj. apply gets_full_exact; auto.
Qed.

(* ================================================================ instances at R of the ring-level theorems *)
Theorem func_int_tt_eq_dense_R Y idx : chain 1 Y 1 -> Forall (fun n => 2 <= n)%nat (shape Y) -> inb (shape Y) idx ->
  tget OR (func_int_full OR csR (shape Y) (tfull OR Y)) idx = get OR (map (int_core OR csR snR Cheb) Y) idx.
Proof.
  intros HC Hn Hi. apply (func_int_tt_eq_dense OR OR_rng csR snR Hdiv_R cs0_R csN_R cs_sym_R); auto. now apply Forall_shape.
Qed.
Theorem func_sum_tt_eq_dense_R tol16 A a b : chain 1 A 1 -> length a = length A -> length b = length A ->
  existsb (fun p => asym OR tol16 (fst p) (snd p)) (combine a b) = false ->
  func_sum_full OR tol16 (shape A) (tfull OR A) a b = Ok (func_sum OR A a b Cheb).
Proof. apply (func_sum_tt_eq_dense OR OR_rng Hdiv_R ofZ_w_R). Qed.
Theorem int_cheb_linear_R Y Y1 Y2 al be idx :
  chain 1 Y 1 -> chain 1 Y1 1 -> chain 1 Y2 1 -> shape Y1 = shape Y -> shape Y2 = shape Y ->
  Forall (fun n => 2 <= n)%nat (shape Y) -> inb (shape Y) idx ->
  (forall jdx, inb (shape Y) jdx -> get OR Y jdx = al * get OR Y1 jdx + be * get OR Y2 jdx) ->
  get OR (map (int_core OR csR snR Cheb) Y) idx =
  al * get OR (map (int_core OR csR snR Cheb) Y1) idx + be * get OR (map (int_core OR csR snR Cheb) Y2) idx.
Proof. apply (int_cheb_linear OR OR_rng csR snR Hdiv_R). Qed.

(* ================================================================ non-vacuity of the hypotheses of interp_exact:
   every tensor of samples of a polynomial, written as func_gets of its coefficient tensor C, satisfies them *)
Lemma chain_gets kind : forall A ms, length ms = length A -> chain 1 A 1 -> chain 1 (func_gets OR csR snR A ms kind) 1.
Proof.
  intros A ms L HC. rewrite (func_gets_tmode OR OR_rng). apply (chain_tmode OR (getsMs OR csR snR kind A ms) A 1%nat 1%nat); [now apply getsMs_length | exact HC].
Qed.
Lemma shape_gets kind : forall A ms, length ms = length A -> shape (func_gets OR csR snR A ms kind) = ms.
Proof.
  intros A ms L. rewrite (func_gets_tmode OR OR_rng). rewrite (shape_tmode OR) by (now apply getsMs_length). now apply getsMs_fst.
Qed.
Lemma interp_hyp_sat C a b : chain 1 C 1 -> length a = length C -> Forall2 Rlt a b ->
  let Y := func_gets OR csR snR C (shape C) Cheb in
  chain 1 Y 1 /\ shape Y = shape C /\
  forall jdx, inb (shape Y) jdx -> get OR Y jdx = cpoly (shape Y) (get OR C) a b (gridpt a b (shape Y) jdx).
Proof.
  intros HC La Hab Y. assert (LS : length (shape C) = length C) by (unfold shape; apply map_length).
  assert (SY : shape Y = shape C) by (apply shape_gets; auto).
  split; [apply chain_gets; auto|]. split; [exact SY|]. intros jdx Hj. rewrite SY in *.
  apply gets_exact; auto.
Qed.
(* a concrete instance: d = 2, grid 2 x 3, ranks (1, 2, 1), box [0, 3] x [-1, 1/2] *)
Definition exC : list (core R) :=
  [mkcore 1 2 2 (fun _ i q => INR (i + 2 * q + 1)); mkcore 2 3 1 (fun r i _ => INR (3 * r + i) - 2)].
Lemma interp_hyp_example : exists Y c a b,
  chain 1 Y 1 /\ Forall (fun n => 2 <= n)%nat (shape Y) /\ length a = length Y /\ length b = length Y /\ Forall2 Rlt a b /\
  (forall jdx, inb (shape Y) jdx -> get OR Y jdx = cpoly (shape Y) c a b (gridpt a b (shape Y) jdx)).
Proof.
  assert (HC : chain 1 exC 1) by (cbn; auto).
  assert (Hab : Forall2 Rlt [0; -1] [3; / 2]) by (repeat constructor; lra).
  destruct (interp_hyp_sat exC [0; -1] [3; / 2] HC eq_refl Hab) as (A1 & A2 & A3).
  exists (func_gets OR csR snR exC (shape exC) Cheb), (get OR exC), [0; -1], [3; / 2].
  split; [exact A1|]. split; [rewrite A2; cbn; repeat constructor; lia|].
  split; [reflexivity|]. split; [reflexivity|]. split; [exact Hab|exact A3].
Qed.

(* ================================================================ func_sum_full accepts every symmetric box *)
Lemma asym_symmetric tol16 bk : 0 <= tol16 -> asym OR tol16 (- bk) bk = false.
Proof. intros Ht. unfold asym. ror. apply Rltb_false. rewrite Rabs_Ropp, Rminus_diag_eq, Rabs_R0 by reflexivity. exact Ht. Qed.
Theorem sum_full_accepts_symmetric tol16 ns A b : 0 <= tol16 -> length b = length ns ->
  func_sum_full OR tol16 ns A (map Ropp b) b =
  Ok (omul OR (vol OR (map Ropp b) b) (msum OR ns (fun m => omul OR (wsprod OR Cheb m) (tget OR A m)))).
Proof.
  intros Ht Lb. apply (func_sum_full_ok OR OR_rng Hdiv_R ofZ_w_R); auto; [now rewrite map_length|].
  clear Lb. induction b as [|bk b IH]; [reflexivity|]. cbn [map combine existsb fst snd].
  rewrite asym_symmetric by auto. exact IH.
Qed.

(* ================================================================ func_get with optional arguments *)
Lemma nth_repeat_lt {A} (a d : A) : forall m k, (k < m)%nat -> nth k (repeat a m) d = a.
Proof. induction m as [|m IH]; intros [|k] H; cbn [repeat nth]; auto; try lia. apply IH. lia. Qed.
(* default box [-1, 1]^d, explicit skip_out=True: a point outside by more than the tolerance gets the fill value *)
Theorem get_opt_default_fill tol x A z k : (k < length x)%nat -> (k < length A)%nat ->
  tol < -1 - nth k x 0 \/ tol < nth k x 0 - 1 -> func_get_opt OR tol [x] A None None z (Some true) = [z].
Proof.
  intros Hx HA H. unfold func_get_opt, func_get, get_skip. cbn [map]. f_equal.
  apply (get_fill tol x A _ _ z k); rewrite ?repeat_length; auto.
  rewrite !nth_repeat_lt by auto. unfold fm1. ror. exact H.
Qed.
