(* C07, part 4: the training objective splits over the slices of one core (commutative ring); at R: every core
   update decreases it, a fully covered core is left at the exact minimiser given the other cores. *)
From Coq Require Import List Arith Lia Ring PeanoNat Bool Permutation Reals Lra.
From TV Require Import Num.Ops Lin.Tab Lin.BigSum Lin.Solve TT.Chain Model.Als Proofs.AlsLin Proofs.AlsSim Proofs.AlsTop.
Import ListNotations.

Lemma upd_nth_same {A} k (l : list A) d : upd k (nth k l d) l = l.
Proof. revert k; induction l as [|y l IH]; intros [|k]; simpl; auto. f_equal. apply IH. Qed.
Lemma upd_upd {A} k (x y : A) l : upd k x (upd k y l) = upd k x l.
Proof. revert k; induction l as [|z l IH]; intros [|k]; simpl; auto. f_equal. apply IH. Qed.
Lemma fold_left_snoc {A B} (f : A -> B -> A) l x a : fold_left f (l ++ [x]) a = f (fold_left f l a) x.
Proof. now rewrite fold_left_app. Qed.

Section Split.
Context {T : Type} (K : ops T).
Notation "0" := (o0 K). Notation "1" := (o1 K).
Infix "+" := (oadd K). Infix "*" := (omul K). Infix "-" := (osub K).
Hypothesis Rth : rng K.
Add Ring RrAlsDesc : Rth.

(* every sample indexes the tensor properly *)
Definition Sok (Sm : list (@sample T)) (Y : list (core T)) : Prop := forall sm, In sm Sm -> wfo 1 Y (sidx sm) 1.

Lemma wfo_split (Y : list (core T)) : forall r idx rl k, wfo r Y idx rl -> k < length Y ->
  length (firstn k idx) = length (firstn k Y) /\
  wfo r (firstn k Y) (firstn k idx) (cr1 (nth k Y dcore)) /\ nth k idx O < cn (nth k Y dcore) /\
  wfo (cr2 (nth k Y dcore)) (skipn (S k) Y) (skipn (S k) idx) rl.
Proof.
  induction Y as [|G Y IH]; intros r [|i idx] rl k W Hk; cbn [wfo length] in *; try tauto; try lia.
  destruct W as (A & B & C). destruct k as [|k].
  - cbn. auto.
  - cbn [firstn skipn nth length wfo]. destruct (IH _ _ _ k C ltac:(lia)) as (L & W1 & I1 & W2).
    repeat split; auto.
Qed.

(* the objective as a function of core k alone *)
Definition Jslices (lamb : T) (Sm : list sample) (Y : list (core T)) (k : nat) (X : core T) : T :=
  bsum K (cn X) (fun i => Jrows K (cr1 X * cr2 X) lamb (slice_rows K k i (cr1 X) (cr2 X) (zref K Sm Y k)) (svec K X i)).
Definition Jrest (lamb : T) (Y : list (core T)) (k : nat) : T :=
  lamb * (lsum K (map (frobc K) (firstn k Y)) + lsum K (map (frobc K) (skipn (S k) Y))).

Lemma zref_upd Sm Y k X : zref K Sm (upd k X Y) k = zref K Sm Y k.
Proof. unfold zref. apply map_ext. intros sm. now rewrite lvec_upd, rvec_upd by lia. Qed.

Lemma J_decomp lamb Sm Y k X : k < length Y -> dims X = dims (nth k Y dcore) -> Sok Sm Y ->
  Jobj K lamb Sm (upd k X Y) = Jslices lamb Sm Y k X + Jrest lamb Y k.
Proof.
  intros Hk D HS. apply dims_eq in D. destruct D as (D1 & D2 & D3).
  unfold Jobj, Jslices, Jrest. rewrite (upd_split k X Y Hk).
  rewrite map_app, lsum_app by auto. cbn [map lsum].
  rewrite (frobc_slices K Rth X).
  (* the data term *)
  assert (E : lsum K (map (fun s => sw s * sq K (get K (firstn k Y ++ X :: skipn (S k) Y) (sidx s) - sy s)) Sm)
              = bsum K (cn X) (fun i => lsum K (map (fun row => rw row * sq K (dot K (cr1 X * cr2 X) (ra row) (svec K X i) - ry row))
                                                   (slice_rows K k i (cr1 X) (cr2 X) (zref K Sm Y k))))).
  { transitivity (lsum K (map (fun z : zipped => sw (fst z) * sq K (get K (firstn k Y ++ X :: skipn (S k) Y) (sidx (fst z)) - sy (fst z)))
                              (zref K Sm Y k))).
    { unfold zref. rewrite map_map. reflexivity. }
    rewrite (lsum_partition K Rth (fun z : zipped => nth k (sidx (fst z)) O) _ (cn X)).
    2:{ intros z Hz. unfold zref in Hz. apply in_map_iff in Hz. destruct Hz as (sm & <- & Hin). cbn [fst].
        destruct (wfo_split Y _ _ _ k (HS sm Hin) Hk) as (_ & _ & I1 & _). now rewrite D2. }
    apply bsum_ext. intros i Hi. unfold slice_rows. rewrite map_map.
    apply lsum_map_ext. intros z Hz. apply filter_In in Hz. destruct Hz as [Hz Hi'].
    unfold in_slice in Hi'. apply Nat.eqb_eq in Hi'.
    unfold zref in Hz. apply in_map_iff in Hz. destruct Hz as (sm & <- & Hin). cbn [fst snd] in *.
    unfold row_of, rw, ry, ra. cbn [fst snd]. f_equal. f_equal. f_equal.
    destruct (wfo_split Y _ _ _ k (HS sm Hin) Hk) as (L & W1 & I1 & W2).
    rewrite (split_nth k (sidx sm) O) at 1.
    2:{ rewrite (wfo_length _ _ _ _ (HS sm Hin)). exact Hk. }
    rewrite Hi'. rewrite (get_slice K Rth); auto.
    - now rewrite D1.
    - now rewrite D3. }
  rewrite E.
  rewrite (bsum_ext K (cn X) (fun i => Jrows K (cr1 X * cr2 X) lamb (slice_rows K k i (cr1 X) (cr2 X) (zref K Sm Y k)) (svec K X i))
             (fun i => lsum K (map (fun row => rw row * sq K (dot K (cr1 X * cr2 X) (ra row) (svec K X i) - ry row))
                                   (slice_rows K k i (cr1 X) (cr2 X) (zref K Sm Y k)))
                       + lamb * dot K (cr1 X * cr2 X) (svec K X i) (svec K X i))) by (intros; reflexivity).
  rewrite bsum_add by auto. rewrite bsum_mul_l by auto. ring.
Qed.

(* slices of the updated core *)
Lemma svec_opt_core lamb solve Q k Z i c : i < cn Q -> c < cr1 Q * cr2 Q ->
  nth c (svec K (opt_core K solve lamb Q k Z) i) 0
  = match slice_sol K solve lamb k (cr1 Q) (cr2 Q) Z i with
    | None => nth c (svec K Q i) 0
    | Some x => nth c x 0
    end.
Proof.
  intros Hi Hc. unfold opt_core, put_slices, svec. cbn [cr1 cr2 cn mkcore].
  rewrite !nth_tab by auto.
  assert (H2 : 0 < cr2 Q) by (destruct (cr2 Q); lia).
  assert (Hd : c / cr2 Q < cr1 Q) by (apply Nat.div_lt_upper_bound; lia).
  assert (Hm : c mod cr2 Q < cr2 Q) by (apply Nat.mod_upper_bound; lia).
  rewrite cget_mk by auto. rewrite nth_tab by auto.
  destruct (slice_sol K solve lamb k (cr1 Q) (cr2 Q) Z i); auto.
  f_equal. rewrite (Nat.div_mod c (cr2 Q)) at 3 by lia. lia.
Qed.
End Split.

(* ------------------------------------------------------------------ order: the instance R *)
Local Open Scope R_scope.
Definition Rleb7 (a b : R) : bool := if Rle_dec a b then true else false.
Definition Rltb7 (a b : R) : bool := if Rlt_dec a b then true else false.
Definition Reqb7 (a b : R) : bool := if Req_EM_T a b then true else false.
Definition ORa : ops R := mkops R 0 1 Rplus Rmult Rminus Ropp Rdiv sqrt Rabs Rleb7 Rltb7 Reqb7 IZR (powerRZ 2).
Lemma ORa_rng : rng ORa. Proof. exact RTheory. Qed.

Lemma bsumR_le n f g : (forall i, (i < n)%nat -> f i <= g i) -> bsum ORa n f <= bsum ORa n g.
Proof.
  induction n as [|n IH]; intros H; cbn [bsum]; [cbn; lra|].
  assert (A := IH (fun i Hi => H i (Nat.lt_lt_succ_r _ _ Hi))). assert (B := H n (Nat.lt_succ_diag_r n)). cbn in *. lra.
Qed.
Lemma bsumR_nonneg n f : (forall i, (i < n)%nat -> 0 <= f i) -> 0 <= bsum ORa n f.
Proof.
  intros H. replace 0 with (bsum ORa n (fun _ => 0)).
  - apply bsumR_le. exact H.
  - apply (bsum_0 ORa ORa_rng).
Qed.
Lemma lsumR_nonneg {A} (f : A -> R) l : (forall x, In x l -> 0 <= f x) -> 0 <= lsum ORa (map f l).
Proof.
  induction l as [|x l IH]; intros H; cbn [map lsum]; [cbn; lra|].
  assert (A1 := H x (or_introl eq_refl)). assert (A2 := IH (fun y Hy => H y (or_intror Hy))). cbn in *. lra.
Qed.
Lemma dotR_self_nonneg p h : 0 <= dot ORa p h h.
Proof. unfold dot. apply bsumR_nonneg. intros i _. cbn. nra. Qed.
Lemma dotR_self_pos p h a : (a < p)%nat -> nth a h 0 <> 0 -> 0 < dot ORa p h h.
Proof.
  intros Ha Hn. unfold dot.
  assert (L : bsum ORa p (fun i => if Nat.eqb i a then nth a h 0 * nth a h 0 else 0)
              <= bsum ORa p (fun i => nth i h 0 * nth i h 0)).
  { apply bsumR_le. intros i _. destruct (Nat.eqb_spec i a) as [->|_]; cbn; nra. }
  rewrite (bsum_single ORa ORa_rng p a) in L; auto.
  - rewrite Nat.eqb_refl in L. cbn in *. nra.
  - intros i _ Hne. destruct (Nat.eqb_spec i a); [contradiction|reflexivity].
Qed.

Section DescR.
Variable solve : list (list R) -> list R -> list R.
(* contract of scipy.linalg.lstsq(N, g, lapack_driver='gelsy')[0] on a symmetric positive definite system *)
Definition spd_solver : Prop := forall p N g,
  length N = p -> (forall a, (a < p)%nat -> length (nth a N []) = p) -> length g = p ->
  (forall a b, (a < p)%nat -> (b < p)%nat -> nth b (nth a N []) 0 = nth a (nth b N []) 0) ->
  (forall h, (exists a, (a < p)%nat /\ nth a h 0 <> 0) -> 0 < dot ORa p h (mulmv ORa p N h)) ->
  forall a, (a < p)%nat -> nth a (mulmv ORa p N (solve N g)) 0 = nth a g 0.
Hypothesis solve_ok : spd_solver.
Variable lamb : R.
Hypothesis Hlamb : 0 < lamb.

Definition Wrows (rows : list (@lrow R)) : Prop := forall row, In row rows -> 0 <= rw row.

Lemma quadR_nonneg p rows h : Wrows rows ->
  0 <= lsum ORa (map (fun row => rw row * sq ORa (dot ORa p (ra row) h)) rows) + lamb * dot ORa p h h.
Proof.
  intros W.
  assert (A : 0 <= lsum ORa (map (fun row => rw row * sq ORa (dot ORa p (ra row) h)) rows)).
  { apply lsumR_nonneg. intros row Hr. specialize (W row Hr). unfold sq. cbn [omul ORa].
    assert (0 <= dot ORa p (ra row) h * dot ORa p (ra row) h) by nra. nra. }
  assert (B := dotR_self_nonneg p h).
  set (u := lsum ORa _) in *. set (v := dot ORa p h h) in *. nra.
Qed.
(* the system the code forms is symmetric positive definite, so the solver returns a solution of it *)
Lemma lstsq_solves p rows : Wrows rows -> forall a, (a < p)%nat ->
  nth a (mulmv ORa p (normal_mat ORa p lamb rows) (lstsq ORa solve p lamb rows)) 0 = nth a (normal_rhs ORa p rows) 0.
Proof.
  intros W. unfold lstsq. apply solve_ok.
  - apply tab_length.
  - intros a Ha. unfold normal_mat. rewrite nth_tab by auto. apply tab_length.
  - apply tab_length.
  - intros a b Ha Hb. now apply (normal_mat_sym ORa ORa_rng).
  - intros h (a & Ha & Hn). rewrite (normal_quad ORa ORa_rng).
    assert (A := lsumR_nonneg (fun row => rw row * (dot ORa p (ra row) h * dot ORa p (ra row) h)) rows).
    assert (B := dotR_self_pos p h a Ha Hn). cbn in *.
    assert (0 <= lsum ORa (map (fun row => rw row * (dot ORa p (ra row) h * dot ORa p (ra row) h)) rows)).
    { apply A. intros row Hr. specialize (W row Hr). cbn. nra. }
    nra.
Qed.
(* core_optimal: a solution of the normal equations minimises the slice objective *)
Lemma ridge_min p rows x x' : Wrows rows ->
  (forall a, (a < p)%nat -> nth a (mulmv ORa p (normal_mat ORa p lamb rows) x) 0 = nth a (normal_rhs ORa p rows) 0) ->
  Jrows ORa p lamb rows x <= Jrows ORa p lamb rows x'.
Proof.
  intros W H. set (h := tab p (fun a => nth a x' 0 - nth a x 0)).
  rewrite (Jrows_ext ORa p lamb rows x' (vplus ORa p x h)).
  2:{ intros a Ha. unfold vplus, h. rewrite !nth_tab by auto. cbn. ring. }
  rewrite (ridge_identity ORa ORa_rng p lamb rows x h H).
  assert (Q := quadR_nonneg p rows h W). cbn in *. lra.
Qed.

Definition Wok (Sm : list (@sample R)) : Prop := forall sm, In sm Sm -> 0 <= sw sm.
Lemma slice_rows_W Sm Y k i r1 r2 : Wok Sm -> Wrows (slice_rows ORa k i r1 r2 (zref ORa Sm Y k)).
Proof.
  intros W row Hr. unfold slice_rows in Hr. apply in_map_iff in Hr. destruct Hr as (z & <- & Hz).
  apply filter_In in Hz. destruct Hz as [Hz _]. unfold zref in Hz. apply in_map_iff in Hz.
  destruct Hz as (sm & <- & Hin). unfold row_of, rw. cbn [fst snd]. auto.
Qed.

(* the updated core against any core X of the same shape that agrees with the old core on slices without sample *)
Lemma Jslices_opt_le Sm Y k X : (k < length Y)%nat -> Wok Sm -> dims X = dims (nth k Y dcore) ->
  (forall i, (i < cn X)%nat -> slice_rows ORa k i (cr1 X) (cr2 X) (zref ORa Sm Y k) = [] ->
     forall c, (c < cr1 X * cr2 X)%nat -> nth c (svec ORa X i) 0 = nth c (svec ORa (nth k Y dcore) i) 0) ->
  Jslices ORa lamb Sm Y k (opt_core ORa solve lamb (nth k Y dcore) k (zref ORa Sm Y k)) <= Jslices ORa lamb Sm Y k X.
Proof.
  intros Hk W D HX. apply dims_eq in D. destruct D as (D1 & D2 & D3).
  set (Q := nth k Y dcore) in *. unfold Jslices.
  change (cn (opt_core ORa solve lamb Q k (zref ORa Sm Y k))) with (cn Q).
  change (cr1 (opt_core ORa solve lamb Q k (zref ORa Sm Y k))) with (cr1 Q).
  change (cr2 (opt_core ORa solve lamb Q k (zref ORa Sm Y k))) with (cr2 Q).
  rewrite D1, D2, D3 in *. apply bsumR_le. intros i Hi.
  set (rows := slice_rows ORa k i (cr1 Q) (cr2 Q) (zref ORa Sm Y k)) in *.
  set (p := (cr1 Q * cr2 Q)%nat) in *.
  assert (SV := fun c Hc => svec_opt_core ORa lamb solve Q k (zref ORa Sm Y k) i c Hi Hc).
  unfold slice_sol in SV. fold rows in SV. fold p in SV.
  destruct rows as [|row rows'] eqn:Er.
  - rewrite (Jrows_ext ORa p lamb [] _ (svec ORa Q i)) by (intros a Ha; now apply SV).
    rewrite (Jrows_ext ORa p lamb [] (svec ORa X i) (svec ORa Q i)).
    + apply Rle_refl.
    + intros a Ha. apply (HX i Hi); auto.
  - rewrite (Jrows_ext ORa p lamb (row :: rows') _ (lstsq ORa solve p lamb (row :: rows'))) by (intros a Ha; now apply SV).
    apply ridge_min.
    + rewrite <- Er. apply slice_rows_W; auto.
    + apply lstsq_solves. rewrite <- Er. apply slice_rows_W; auto.
Qed.

Lemma ref_step_eq Sm Y k : ref_step ORa solve lamb Sm Y k = upd k (opt_core ORa solve lamb (nth k Y dcore) k (zref ORa Sm Y k)) Y.
Proof. reflexivity. Qed.

(* als_descends, one core update *)
Lemma ref_step_descent Sm Y k : (k < length Y)%nat -> Sok Sm Y -> Wok Sm ->
  Jobj ORa lamb Sm (ref_step ORa solve lamb Sm Y k) <= Jobj ORa lamb Sm Y.
Proof.
  intros Hk HS W. rewrite ref_step_eq.
  replace (Jobj ORa lamb Sm Y) with (Jobj ORa lamb Sm (upd k (nth k Y dcore) Y)) by now rewrite upd_nth_same.
  rewrite (J_decomp ORa ORa_rng lamb Sm Y k _ Hk (opt_core_dims ORa solve lamb _ k _) HS).
  rewrite (J_decomp ORa ORa_rng lamb Sm Y k (nth k Y dcore) Hk eq_refl HS).
  assert (L := Jslices_opt_le Sm Y k (nth k Y dcore) Hk W eq_refl (fun _ _ _ _ _ => eq_refl)). cbn in *. lra.
Qed.
(* core_optimal, one core update: when every slice of core k has a sample, the updated core minimises the
   objective over ALL cores of that shape, the other cores being fixed *)
Definition covered (Sm : list (@sample R)) (k n : nat) : Prop :=
  forall i, (i < n)%nat -> exists sm, In sm Sm /\ nth k (sidx sm) O = i.
Lemma covered_rows Sm Y k i r1 r2 n : covered Sm k n -> (i < n)%nat -> slice_rows ORa k i r1 r2 (zref ORa Sm Y k) <> [].
Proof.
  intros C Hi E. destruct (C i Hi) as (sm & Hin & Hs).
  assert (In (row_of ORa r1 r2 (sm, (lvec ORa Y k (sidx sm), rvec ORa Y k (sidx sm))))
             (slice_rows ORa k i r1 r2 (zref ORa Sm Y k))).
  { unfold slice_rows. apply in_map. apply filter_In. split.
    - unfold zref. apply in_map_iff. exists sm. auto.
    - unfold in_slice. cbn [fst]. now apply Nat.eqb_eq. }
  rewrite E in H. contradiction.
Qed.
Lemma ref_step_optimal Sm Y k X : (k < length Y)%nat -> Sok Sm Y -> Wok Sm ->
  covered Sm k (cn (nth k Y dcore)) -> dims X = dims (nth k Y dcore) ->
  Jobj ORa lamb Sm (ref_step ORa solve lamb Sm Y k) <= Jobj ORa lamb Sm (upd k X (ref_step ORa solve lamb Sm Y k)).
Proof.
  intros Hk HS W C D. rewrite ref_step_eq, upd_upd.
  rewrite (J_decomp ORa ORa_rng lamb Sm Y k _ Hk (opt_core_dims ORa solve lamb _ k _) HS).
  rewrite (J_decomp ORa ORa_rng lamb Sm Y k X Hk D HS).
  assert (L := Jslices_opt_le Sm Y k X Hk W D). cbn in *.
  assert (Jslices ORa lamb Sm Y k (opt_core ORa solve lamb (nth k Y dcore) k (zref ORa Sm Y k)) <= Jslices ORa lamb Sm Y k X).
  { apply L. intros i Hi E. exfalso. apply dims_eq in D. destruct D as (D1 & D2 & D3).
    apply (covered_rows Sm Y k i (cr1 X) (cr2 X) _ C); auto. now rewrite <- D2. }
  cbn in *. lra.
Qed.

Lemma Sok_dims Sm (Y Y' : list (core R)) : map dims Y = map dims Y' -> Sok Sm Y -> Sok Sm Y'.
Proof. intros E H sm Hin. eapply dims_wfo; eauto. Qed.

Lemma ref_fold_descent Sm l : Wok Sm -> forall Y, (forall k, In k l -> (k < length Y)%nat) -> Sok Sm Y ->
  Jobj ORa lamb Sm (fold_left (ref_step ORa solve lamb Sm) l Y) <= Jobj ORa lamb Sm Y.
Proof.
  intros W. induction l as [|k l IH]; intros Y Hl HS; cbn [fold_left]; [apply Rle_refl|].
  assert (D := ref_step_dims ORa solve lamb Sm Y k).
  eapply Rle_trans; [apply IH|apply ref_step_descent]; auto.
  - intros k' Hk'. rewrite (dims_length _ _ D). apply Hl. now right.
  - eapply Sok_dims; [symmetry; exact D | exact HS].
  - apply Hl. now left.
Qed.
(* als_descends, one sweep *)
Lemma ref_sweep_descent Sm Y : Wok Sm -> Sok Sm Y ->
  Jobj ORa lamb Sm (ref_sweep ORa solve lamb Sm Y) <= Jobj ORa lamb Sm Y.
Proof.
  intros W HS. unfold ref_sweep.
  assert (D := ref_fold_dims ORa solve lamb Sm (seq 0 (length Y - 1)) Y).
  eapply Rle_trans; [apply ref_fold_descent | apply ref_fold_descent]; auto.
  - intros k Hk. rewrite <- in_rev in Hk. apply in_seq in Hk. rewrite (dims_length _ _ D). lia.
  - eapply Sok_dims; [symmetry; exact D | exact HS].
  - intros k Hk. apply in_seq in Hk. lia.
Qed.

Lemma Sok_wfS Sm (Y : list (core R)) : Sok Sm Y -> wfS (length Y) Sm.
Proof. intros H. unfold wfS. apply Forall_forall. intros sm Hin. apply (wfo_length _ _ _ _ (H sm Hin)). Qed.

(* als_descends: the objective after n+1 sweeps of the code is at most the objective after n sweeps *)
Lemma als_descent Sm Y0 n : chain 1%nat Y0 1%nat -> Sok Sm Y0 -> Wok Sm ->
  Jobj ORa lamb Sm (sY (Nat.iter (S n) (sweep ORa solve lamb Sm) (init_st ORa Sm Y0)))
  <= Jobj ORa lamb Sm (sY (Nat.iter n (sweep ORa solve lamb Sm) (init_st ORa Sm Y0))).
Proof.
  intros C HS W. rewrite !(als_cores_ref ORa solve lamb Sm Y0 _ C (Sok_wfS _ _ HS)).
  change (Nat.iter (S n) (ref_sweep ORa solve lamb Sm) Y0)
    with (ref_sweep ORa solve lamb Sm (Nat.iter n (ref_sweep ORa solve lamb Sm) Y0)).
  apply ref_sweep_descent; auto.
  eapply Sok_dims; [symmetry; apply iter_ref_dims | exact HS].
Qed.
Lemma als_descent_from_start Sm Y0 n : chain 1%nat Y0 1%nat -> Sok Sm Y0 -> Wok Sm ->
  Jobj ORa lamb Sm (sY (Nat.iter n (sweep ORa solve lamb Sm) (init_st ORa Sm Y0))) <= Jobj ORa lamb Sm Y0.
Proof.
  intros C HS W. induction n as [|n IH]; [apply Rle_refl|].
  eapply Rle_trans; [apply als_descent; auto | exact IH].
Qed.

(* the core updated last (core 1, at the end of the right-to-left half sweep) is at the exact minimiser *)
Lemma nth_dims_eq (Y Y' : list (core R)) k : map dims Y = map dims Y' -> dims (nth k Y dcore) = dims (nth k Y' dcore).
Proof. intros E. rewrite <- !(map_nth dims). now rewrite E. Qed.
Lemma als_last_core_optimal Sm Y0 n X : chain 1%nat Y0 1%nat -> Sok Sm Y0 -> Wok Sm -> (2 <= length Y0)%nat ->
  covered Sm 1 (cn (nth 1 Y0 dcore)) -> dims X = dims (nth 1 Y0 dcore) ->
  let Yn := sY (Nat.iter (S n) (sweep ORa solve lamb Sm) (init_st ORa Sm Y0)) in
  Jobj ORa lamb Sm Yn <= Jobj ORa lamb Sm (upd 1 X Yn).
Proof.
  intros C HS W Hd Cv D Yn. unfold Yn. rewrite (als_cores_ref ORa solve lamb Sm Y0 _ C (Sok_wfS _ _ HS)).
  change (Nat.iter (S n) (ref_sweep ORa solve lamb Sm) Y0)
    with (ref_sweep ORa solve lamb Sm (Nat.iter n (ref_sweep ORa solve lamb Sm) Y0)).
  set (Y' := Nat.iter n (ref_sweep ORa solve lamb Sm) Y0).
  assert (D' : map dims Y' = map dims Y0) by apply iter_ref_dims.
  unfold ref_sweep. rewrite (dims_length _ _ D').
  destruct (length Y0) as [|[|m]] eqn:EL; try lia.
  replace (S (S m) - 1)%nat with (S m) by lia.
  change (seq 1 (S m)) with (1%nat :: seq 2 m). cbn [rev]. rewrite fold_left_snoc.
  set (Y'' := fold_left (ref_step ORa solve lamb Sm) (rev (seq 2 m)) (fold_left (ref_step ORa solve lamb Sm) (seq 0 (S m)) Y')).
  assert (D'' : map dims Y'' = map dims Y0).
  { unfold Y''. now rewrite !ref_fold_dims. }
  apply ref_step_optimal; auto.
  - rewrite (dims_length _ _ D''). lia.
  - eapply Sok_dims; [symmetry; exact D'' | exact HS].
  - destruct (dims_eq _ _ (nth_dims_eq _ _ 1 D'')) as (_ & -> & _). exact Cv.
  - rewrite D. symmetry. apply nth_dims_eq. exact D''.
Qed.
End DescR.

(* the same, stated on the steps of the code (with interface matrices): every core update of a sweep descends *)
Section DescCode.
Variable solve : list (list R) -> list R -> list R.
Hypothesis solve_ok : spd_solver solve.
Variable lamb : R.
Hypothesis Hlamb : 0 < lamb.
Lemma fwd_step_descent Sm d s k : Inv ORa Sm d s k -> (S k < d)%nat -> Sok Sm (sY s) -> Wok Sm ->
  Jobj ORa lamb Sm (sY (fwd_step ORa solve lamb Sm s k)) <= Jobj ORa lamb Sm (sY s).
Proof.
  intros I Hk HS W. assert (L := inv_len _ _ _ _ _ I).
  destruct (fwd_step_sim ORa solve lamb Sm d s k I Hk) as [E _].
  { rewrite <- L. now apply Sok_wfS. }
  rewrite E. apply ref_step_descent; auto. lia.
Qed.
Lemma bwd_step_descent Sm d s k : Inv ORa Sm d s k -> (1 <= k)%nat -> (k < d)%nat -> Sok Sm (sY s) -> Wok Sm ->
  Jobj ORa lamb Sm (sY (bwd_step ORa solve lamb Sm s k)) <= Jobj ORa lamb Sm (sY s).
Proof.
  intros I H1 Hk HS W. assert (L := inv_len _ _ _ _ _ I).
  destruct (bwd_step_sim ORa solve lamb Sm d s k I H1 Hk) as [E _].
  { rewrite <- L. now apply Sok_wfS. }
  rewrite E. apply ref_step_descent; auto. lia.
Qed.
End DescCode.
