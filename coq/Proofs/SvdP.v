(* Lemmas for C03, part 1: the rank rule (bounds), well-formedness of the TT-SVD sweep, and the index
   interleaving of svd_matrix / full_matrix.  No model definitions here. *)
From Coq Require Import List Arith Lia PeanoNat ZArith Bool Ring.
From TV Require Import Num.Ops Lin.Tab Lin.BigSum Lin.Mat TT.Chain Model.ActOne Model.Transformation
  Model.Svd Model.SvdMatrix Proofs.ActOneP2.
Import ListNotations.

(* ---------------------------------------------------------------- rank rule: bounds; sweep: shapes and ranks *)
Section Wf.
Context {T : Type} (K : ops T).
Variable svdo : nat -> mat T -> mat T * list T * mat T.

(* the cap as the code applies it: max(1, int(r)) *)
Definition capn (rcap : Z) : nat := Z.to_nat (Z.max 1 rcap).
Lemma rank_select_bounds x e2 rcap :
  1 <= rank_select K x e2 rcap <= capn rcap /\ rank_select K x e2 rcap <= Nat.max 1 (length x).
Proof. unfold rank_select, capn. lia. Qed.

(* the inner size chosen by matrix_skeleton (rel = False) *)
Definition sel_rank (s : list T) (e : T) (rcap : Z) : nat :=
  rank_select K (map (fun x => omul K x x) s) (omul K e e) rcap.
Lemma sel_rank_bounds s e rcap : 1 <= sel_rank s e rcap <= capn rcap /\ sel_rank s e rcap <= Nat.max 1 (length s).
Proof. unfold sel_rank. pose proof (rank_select_bounds (map (fun x => omul K x x) s) (omul K e e) rcap) as H.
  rewrite map_length in H. exact H. Qed.

Lemma skeleton_R k A e rcap U s V : svdo k A = (U, s, V) ->
  matrix_skeleton K svdo k A e rcap false GiveR =
  (mtakec K U (sel_rank s e rcap),
   mmul K (diagl K (firstn (sel_rank s e rcap) s)) (mtaker K V (sel_rank s e rcap))).
Proof. intros E. unfold matrix_skeleton. rewrite E. reflexivity. Qed.

(* the matrix one sweep step factorises *)
Definition step_mat (Zm : mat T) (q k : nat) : mat T := reshapeC K Zm (q * k) (mr Zm * mc Zm / (q * k)).
Lemma svd_loop_cons k0 Zm q k k' ns e rcap :
  svd_loop K svdo k0 Zm q (k :: k' :: ns) e rcap =
  (let '(G, Zr) := matrix_skeleton K svdo k0 (step_mat Zm q k) e rcap false GiveR in
   mkcore q k (mc G) (fun a i c => mget K G (a * k + i) c) :: svd_loop K svdo (S k0) Zr (mc G) (k' :: ns) e rcap).
Proof. reflexivity. Qed.

Lemma svd_loop_wf e rcap : forall ns k0 Zm q, ns <> [] ->
  chain q (svd_loop K svdo k0 Zm q ns e rcap) 1 /\ shape (svd_loop K svdo k0 Zm q ns e rcap) = ns /\
  Forall (fun G => 1 <= cr2 G <= capn rcap) (svd_loop K svdo k0 Zm q ns e rcap).
Proof.
  induction ns as [|k ns IH]; intros k0 Zm q Hne; [contradiction|].
  destruct ns as [|k' ns].
  - cbn. repeat split; auto. constructor; [|constructor]. cbn. unfold capn. lia.
  - rewrite svd_loop_cons.
    destruct (svdo k0 (step_mat Zm q k)) as [[U s] V] eqn:E.
    rewrite (skeleton_R _ _ _ _ _ _ _ E).
    change (mc (mtakec K U (sel_rank s e rcap))) with (sel_rank s e rcap).
    destruct (IH (S k0) (mmul K (diagl K (firstn (sel_rank s e rcap) s)) (mtaker K V (sel_rank s e rcap)))
                 (sel_rank s e rcap) ltac:(discriminate)) as (C1 & C2 & C3).
    split; [|split].
    + cbn [chain]. rewrite cr1_mk, cr2_mk. split; [reflexivity|exact C1].
    + unfold shape in *. cbn [map]. rewrite cn_mk. f_equal. exact C2.
    + constructor; [|exact C3]. rewrite cr2_mk. pose proof (sel_rank_bounds s e rcap). lia.
Qed.

(* svd_wf: same mode sizes as the input, boundary ranks 1, consecutive ranks match, every rank in 1..max(1, r) *)
Theorem svd_wf ns data e rcap : ns <> [] ->
  chain 1 (svd K svdo ns data e rcap) 1 /\ shape (svd K svdo ns data e rcap) = ns /\
  Forall (fun G => 1 <= cr2 G <= capn rcap) (svd K svdo ns data e rcap).
Proof. intros H. unfold svd. now apply svd_loop_wf. Qed.
End Wf.
