(* Lemmas for C03, part 6: the interleaving (i, j) -> position is a bijection 2^q x 2^q -> 4^q in the sense that sums
   over matrix entries equal sums over positions; hence the Frobenius error of full_matrix (svd_matrix A) is the
   TT-SVD error, and the e sqrt(q-1) bound carries over to the matrix variant. *)
From Coq Require Import List Arith Lia PeanoNat ZArith Bool Ring Reals Lra.
From TV Require Import Num.Ops Lin.Tab Lin.BigSum Lin.Mat TT.Chain Model.ActOne Model.Transformation
  Model.Svd Model.SvdMatrix Proofs.ActOneP Proofs.ActOneP2 Proofs.SvdP Proofs.SvdP2 Proofs.SvdP3
  Proofs.SvdP4 Proofs.SvdP5.
Import ListNotations.

Definition ipos (q i j : nat) : nat := cpos (repeat 4 q) (modes_of true q i j) 0.
Lemma ipos_S' q i0 j0 i' j' : i0 < 2 -> j0 < 2 ->
  ipos (S q) (i0 + 2 * i') (j0 + 2 * j') = (i0 + 2 * j0) * 4 ^ q + ipos q i' j'.
Proof.
  intros Hi Hj. unfold ipos. rewrite modes_of_S. cbn [repeat cpos]. rewrite Nat.mul_0_l, Nat.add_0_l.
  replace ((i0 + 2 * i') mod 2) with i0 by lia. replace ((j0 + 2 * j') mod 2) with j0 by lia.
  replace ((i0 + 2 * i') / 2) with i' by lia. replace ((j0 + 2 * j') / 2) with j' by lia.
  destruct (cpos_acc (repeat 4 q) (modes_of true q i' j') (i0 + 2 * j0)) as [P _].
  { rewrite <- (modes_of_length true q i' j') at 1. apply inb_repeat4, modes_of_lt4. }
  rewrite P, prodn_repeat4. reflexivity.
Qed.

Lemma inb_repeat4_inv q : forall idx, inb (repeat 4 q) idx -> length idx = q /\ Forall (fun t => t < 4) idx.
Proof.
  induction q as [|q IH]; intros idx H; inversion H; subst; cbn [length].
  - split; [reflexivity|constructor].
  - destruct (IH _ H4) as [L F]. split; [congruence|constructor; auto].
Qed.

Section BijSum.
Context {T : Type} (K : ops T).
Notation "0" := (o0 K). Notation "1" := (o1 K).
Infix "+" := (oadd K). Infix "*" := (omul K). Infix "-" := (osub K).
Notation bsum := (bsum K).
Hypothesis Rth : rng K.
Add Ring RrSvdP6 : Rth.

Lemma bsum2 g : bsum 2 g = g O + g 1%nat. Proof. cbn. ring. Qed.
Lemma bsum4 g : bsum 4 g = g O + g 1%nat + g 2%nat + g 3%nat. Proof. cbn. ring. Qed.

Lemma bij_sum q : forall f, bsum (2 ^ q) (fun i => bsum (2 ^ q) (fun j => f (ipos q i j))) = bsum (4 ^ q) f.
Proof.
  induction q as [|q IH]; intros f.
  - cbn. ring.
  - cbn [Nat.pow].
    rewrite (bsum_prod K Rth 4 (4 ^ q) f).
    rewrite (bsum_ext K 4 _ (fun t => bsum (2 ^ q) (fun i' => bsum (2 ^ q) (fun j' => f (t * 4 ^ q + ipos q i' j')%nat))))
      by (intros t Ht; symmetry; apply (IH (fun p => f (t * 4 ^ q + p)%nat))).
    rewrite (bsum_prod_F K Rth 2 (2 ^ q) (fun i => bsum (2 * 2 ^ q) (fun j => f (ipos (S q) i j)))).
    transitivity (bsum (2 ^ q) (fun i' => bsum (2 ^ q) (fun j' =>
                    f (0 * 4 ^ q + ipos q i' j')%nat + f (1 * 4 ^ q + ipos q i' j')%nat +
                    f (2 * 4 ^ q + ipos q i' j')%nat + f (3 * 4 ^ q + ipos q i' j')%nat))).
    + apply bsum_ext; intros i' Hi'. rewrite bsum2.
      rewrite !(bsum_prod_F K Rth 2 (2 ^ q)). rewrite <- bsum_add by auto.
      apply bsum_ext; intros j' Hj'. rewrite !bsum2.
      rewrite !ipos_S' by lia. cbn [Nat.add Nat.mul]. ring.
    + symmetry. rewrite bsum4. rewrite <- !bsum_add by auto. apply bsum_ext; intros i' Hi'.
      rewrite <- !bsum_add by auto. reflexivity.
Qed.
End BijSum.

Local Open Scope R_scope.
Section MatrixError.
Variable svdo : nat -> mat R -> mat R * list R * mat R.
Variables (e : R) (rcap : Z).

(* svd_matrix_error: the matrix variant meets the same bound, measured on the matrix full_matrix returns *)
Theorem svd_matrix_error q Y : (1 <= q)%nat -> mr Y = (2 ^ q)%nat -> mc Y = (2 ^ q)%nat -> 0 <= e ->
  calls_ok OR svdo e rcap 0 (mkmat 1 (prodn (repeat 4%nat q)) (fun _ j => nth j (interleaved OR q Y) 0)) 1 (repeat 4%nat q) ->
  cap_free svdo e rcap 0 (mkmat 1 (prodn (repeat 4%nat q)) (fun _ j => nth j (interleaved OR q Y) 0)) 1 (repeat 4%nat q) ->
  exists Yt M, svd_matrix OR svdo Y e rcap = Ok Yt /\ full_matrix OR Yt true = Ok M /\
    mr M = (2 ^ q)%nat /\ mc M = (2 ^ q)%nat /\
    sqrt (bsum OR (2 ^ q) (fun i => bsum OR (2 ^ q) (fun j =>
            (mget OR Y i j - mget OR M i j) * (mget OR Y i j - mget OR M i j))))
    <= e * sqrt (INR (q - 1)).
Proof.
  intros Hq Hr Hc He Hok Hcf.
  destruct (interleave_inv OR svdo q Y e rcap Hq Hr Hc) as (Yt & M & E1 & E2 & E3 & E4 & E5 & E6).
  exists Yt, M. repeat split; auto.
  set (ns := repeat 4%nat q) in *. set (data := interleaved OR q Y) in *.
  assert (Hne : ns <> []) by (unfold ns; destruct q; [lia|discriminate]).
  assert (Hpos : Forall (fun n => (0 < n)%nat) ns).
  { apply Forall_forall. intros n Hn. apply repeat_spec in Hn. lia. }
  pose proof (svd_error svdo e rcap ns data Hne Hpos He Hok Hcf) as B.
  assert (Lns : length ns = q) by apply repeat_length.
  rewrite <- E2 in B. rewrite Lns in B.
  refine (Rle_trans _ _ _ _ B). right. f_equal.
  pose (phi := fun p => (nth p data 0 - get OR Yt (digits4 q p)) * (nth p data 0 - get OR Yt (digits4 q p))).
  transitivity (bsum OR (4 ^ q) phi).
  - rewrite <- (bij_sum OR OR_rng q phi).
    apply bsum_ext; intros i Hi. apply bsum_ext; intros j Hj.
    destruct (E6 i j Hi Hj) as (I1 & I2 & I3). cbv zeta in I1, I2, I3.
    destruct (digits4_cpos q (modes_of true q i j) (modes_of_length _ _ _ _) (modes_of_lt4 _ _ _ _)) as [D _].
    unfold phi, ipos. fold ns. fold ns in D. rewrite D. fold ns in I3. fold data in I3. cbn [o0 OR] in I3. rewrite I3, I2. reflexivity.
  - rewrite <- prodn_repeat4. fold ns.
    rewrite <- (bsum_ext OR (prodn ns) (fun p => phi (0 * prodn ns + p)%nat) phi) by (intros; f_equal; lia).
    rewrite <- (msum_cpos OR OR_rng ns phi 0%nat).
    apply msum_ext. intros idx Hidx. unfold phi.
    assert (D : digits4 q (cpos ns idx 0) = idx).
    { destruct (inb_repeat4_inv q idx Hidx) as [L F]. now apply digits4_cpos. }
    rewrite D. reflexivity.
Qed.
End MatrixError.
