(* C02: Frobenius-norm algebra for open-boundary chains (any commutative ring).
   [oget Y idx b] is the b-th entry of the row vector (product of the slices of Y at idx); for a closed chain
   [get Y idx = oget Y idx 0].  The abstract Pythagoras step [pyth_abs] is the algebraic heart of the
   truncation error bound (DESIGN.md appendix A), here in the recursive form:
     T - T' = P.(M - U V)  +  (P U - S').V   with the two parts orthogonal because (M - U V) V^T = 0. *)
From Coq Require Import List Arith Lia Ring PeanoNat ZArith Bool.
From TV Require Import Num.Ops Lin.Tab Lin.BigSum Lin.Mat TT.Chain Model.Transformation Model.Svd
  Proofs.TransformationP Proofs.OrthP.
Import ListNotations.

Section FrobP.
Context {T : Type} (K : ops T).
Notation "0" := (o0 K). Notation "1" := (o1 K).
Infix "+" := (oadd K). Infix "*" := (omul K). Infix "-" := (osub K).
Hypothesis Rth : rng K.
Add Ring RrFrobP : Rth.
Local Notation cget := (cget K). Local Notation vstep := (vstep K). Local Notation run := (run K).
Local Notation get := (get K). Local Notation bsum := (bsum K). Local Notation msum := (msum K).
Local Notation mget := (mget K).

Definition sq (x : T) : T := x * x.
Definition oget (Y : list (core T)) (idx : list nat) (b : nat) : T := nth b (run [1] Y idx) 0.
(* squared Frobenius distance of two open chains with the same shape and right rank rl *)
Definition dist2o (Y W : list (core T)) (rl : nat) : T :=
  msum (shape Y) (fun idx => bsum rl (fun b => sq (oget Y idx b - oget W idx b))).
Definition dist2 (Y W : list (core T)) : T := msum (shape Y) (fun idx => sq (get Y idx - get W idx)).
(* squared Frobenius norm of the residual M - U V *)
Definition res2 (M U V : mat T) : T :=
  bsum (mr M) (fun a => bsum (mc M) (fun t => sq (mget M a t - bsum (mc U) (fun c => mget U a c * mget V c t)))).

Lemma get_oget Y idx : get Y idx = oget Y idx O. Proof. reflexivity. Qed.
Lemma dist2_dist2o Y W : dist2 Y W = dist2o Y W 1.
Proof. unfold dist2, dist2o. apply msum_ext; intros idx _. cbn [BigSum.bsum]. rewrite !get_oget. ring. Qed.
Lemma dist2o_refl Y rl : dist2o Y Y rl = 0.
Proof.
  unfold dist2o. rewrite (msum_ext K _ _ (fun _ => 0)); [apply msum_0; auto|].
  intros idx _. apply bsum_0'; auto. intros b _. unfold sq. ring.
Qed.

(* ---------- sums ---------- *)
Lemma msum_snoc ns n (f : list nat -> T) :
  msum (ns ++ [n]) f = msum ns (fun iL => bsum n (fun j => f (iL ++ [j]))).
Proof. rewrite msum_app. apply msum_ext; intros iL _. reflexivity. Qed.
(* (j, b) <-> t = j + n b, the column index of the right unfolding *)
Lemma bsum_jb n rl (F : nat -> T) :
  bsum n (fun j => bsum rl (fun b => F (j + n * b)%nat)) = bsum (n * rl) F.
Proof. rewrite (bsum_prod_F K Rth n rl F). apply bsum_swap; auto. Qed.
Lemma bsum_sq_sum r (x g : nat -> T) :
  sq (bsum r (fun a => x a * g a)) = bsum r (fun a => bsum r (fun a' => (x a * x a') * (g a * g a'))).
Proof. unfold sq. apply (bsum_prod_expand K Rth). Qed.

(* ---------- the last core of an open chain ---------- *)
Lemma inb_snoc ns n idx : inb (ns ++ [n]) idx -> exists iL j, idx = iL ++ [j] /\ inb ns iL /\ j < n.
Proof.
  intros H. destruct (inb_app_inv ns [n] idx H) as (i1 & i2 & -> & A & B).
  inversion B as [|j n' l l' Hj B' E1 E2]; subst. inversion B'; subst. exists i1, j. auto.
Qed.
Lemma oget_snoc P G iL j b : length iL = length P -> b < cr2 G ->
  oget (P ++ [G]) (iL ++ [j]) b = bsum (cr1 G) (fun a => oget P iL a * cget G a j b).
Proof.
  intros L Hb. unfold oget. rewrite (run_app K [1] P [G] iL [j] L). cbn [Chain.run].
  now rewrite nth_vstep by exact Hb.
Qed.
(* Z[k-1] = einsum('ijq,ql', Z[k-1], U): the interface vectors are multiplied by U *)
Lemma oget_mulR P0 A U iL c : inb (shape (P0 ++ [A])) iL -> c < mc U ->
  oget (P0 ++ [core_mulR K A U]) iL c = bsum (cr2 A) (fun b => oget (P0 ++ [A]) iL b * mget U b c).
Proof.
  intros H Hc. rewrite shape_app in H. cbn [shape map] in H.
  destruct (inb_snoc _ _ _ H) as (i0 & i & -> & H0 & Hi).
  assert (L : length i0 = length P0) by (rewrite (inb_length _ _ H0); apply map_length).
  rewrite oget_snoc by (auto; cbn; auto). cbn [core_mulR cr1 mkcore].
  rewrite (bsum_ext K (cr2 A) _ (fun b => bsum (cr1 A) (fun a => oget P0 i0 a * (cget A a i b * mget U b c)))).
  2:{ intros b Hb. rewrite oget_snoc by auto. rewrite <- bsum_mul_r by auto. apply bsum_ext; intros a Ha. ring. }
  rewrite bsum_swap by auto. apply bsum_ext; intros a Ha.
  unfold core_mulR. rewrite cget_mk by auto. rewrite <- bsum_mul_l by auto. reflexivity.
Qed.

(* the Gram matrix of the interface vectors of a left-orthonormal chain is the identity *)
Lemma gram_oget P rm : chain 1 P rm -> Forall (lorth K) P -> forall c c', c < rm -> c' < rm ->
  msum (shape P) (fun iL => oget P iL c * oget P iL c') = if Nat.eqb c c' then 1 else 0.
Proof.
  intros C HL c c' Hc Hc'. rewrite <- (gram_lorth K Rth P 1 rm C HL c c' Hc Hc').
  apply msum_ext; intros iL _. cbn [BigSum.bsum]. unfold Chain.dget, oget.
  change (evec K 1 0) with [1]. ring.
Qed.

(* ---------- the abstract Pythagoras step ---------- *)
Section Pyth.
Variables (nsL : list nat) (rb q N : nat).
Variables (p s' : list nat -> nat -> T) (M U V : nat -> nat -> T).
Let E (b t : nat) : T := M b t - bsum q (fun c => U b c * V c t).
Let p' (iL : list nat) (c : nat) : T := bsum rb (fun b => p iL b * U b c).
Hypothesis Gram : forall b b', b < rb -> b' < rb ->
  msum nsL (fun iL => p iL b * p iL b') = if Nat.eqb b b' then 1 else 0.
Hypothesis EVt : forall b c, b < rb -> c < q -> bsum N (fun t => E b t * V c t) = 0.

Let aa (iL : list nat) (t : nat) : T := bsum rb (fun b => p iL b * E b t).
Let bb (iL : list nat) (t : nat) : T := bsum q (fun c => (p' iL c - s' iL c) * V c t).

Lemma pyth_split iL t :
  bsum rb (fun b => p iL b * M b t) - bsum q (fun c => s' iL c * V c t) = aa iL t + bb iL t.
Proof.
  unfold aa, bb, E, p'.
  assert (X : bsum q (fun c => bsum rb (fun b => p iL b * U b c) * V c t) =
              bsum rb (fun b => p iL b * bsum q (fun c => U b c * V c t))).
  { rewrite (bsum_ext K q _ (fun c => bsum rb (fun b => p iL b * (U b c * V c t)))).
    2:{ intros c Hc. rewrite <- bsum_mul_r by auto. apply bsum_ext; intros b Hb. ring. }
    rewrite bsum_swap by auto. apply bsum_ext; intros b Hb. now rewrite bsum_mul_l by auto. }
  rewrite (bsum_ext K rb (fun b => p iL b * (M b t - bsum q (fun c => U b c * V c t)))
             (fun b => p iL b * M b t - p iL b * bsum q (fun c => U b c * V c t))) by (intros; ring).
  rewrite bsum_sub by auto.
  rewrite (bsum_ext K q (fun c => (bsum rb (fun b => p iL b * U b c) - s' iL c) * V c t)
             (fun c => bsum rb (fun b => p iL b * U b c) * V c t - s' iL c * V c t)) by (intros; ring).
  rewrite bsum_sub by auto. rewrite X. ring.
Qed.
Lemma pyth_aa : msum nsL (fun iL => bsum N (fun t => sq (aa iL t))) = bsum rb (fun b => bsum N (fun t => sq (E b t))).
Proof.
  transitivity (bsum N (fun t => bsum rb (fun b => bsum rb (fun b' =>
      msum nsL (fun iL => p iL b * p iL b') * (E b t * E b' t))))).
  { rewrite (msum_bsum K Rth). apply bsum_ext; intros t Ht.
    rewrite (msum_ext K nsL _ (fun iL => bsum rb (fun b => bsum rb (fun b' => (p iL b * p iL b') * (E b t * E b' t))))).
    2:{ intros iL _. unfold aa. apply bsum_sq_sum. }
    rewrite (msum_bsum K Rth). apply bsum_ext; intros b Hb. rewrite (msum_bsum K Rth). apply bsum_ext; intros b' Hb'.
    apply (msum_mul_r K Rth). }
  rewrite bsum_swap by auto. apply bsum_ext; intros b Hb. apply bsum_ext; intros t Ht.
  rewrite (bsum_single K Rth rb b); auto.
  - rewrite Gram, Nat.eqb_refl by auto. unfold sq. ring.
  - intros b' Hb' Hne. rewrite Gram by auto. destruct (Nat.eqb_spec b b'); [congruence|ring].
Qed.
Lemma pyth_ab iL : bsum N (fun t => aa iL t * bb iL t) = 0.
Proof.
  transitivity (bsum rb (fun b => bsum q (fun c => (p iL b * (p' iL c - s' iL c)) * bsum N (fun t => E b t * V c t)))).
  - rewrite (bsum_ext K N _ (fun t => bsum rb (fun b => bsum q (fun c => (p iL b * (p' iL c - s' iL c)) * (E b t * V c t))))).
    2:{ intros t Ht. unfold aa, bb. rewrite <- bsum_mul_r by auto. apply bsum_ext; intros b Hb.
        rewrite <- bsum_mul_l by auto. apply bsum_ext; intros c Hc. ring. }
    rewrite bsum_swap by auto. apply bsum_ext; intros b Hb. rewrite bsum_swap by auto.
    apply bsum_ext; intros c Hc. now rewrite bsum_mul_l by auto.
  - apply bsum_0'; auto. intros b Hb. apply bsum_0'; auto. intros c Hc. rewrite EVt by auto. ring.
Qed.
Theorem pyth_abs :
  msum nsL (fun iL => bsum N (fun t => sq (bsum rb (fun b => p iL b * M b t) - bsum q (fun c => s' iL c * V c t)))) =
  bsum rb (fun b => bsum N (fun t => sq (E b t))) + msum nsL (fun iL => bsum N (fun t => sq (bb iL t))).
Proof.
  rewrite <- pyth_aa. rewrite <- msum_add by auto. apply msum_ext; intros iL _.
  rewrite (bsum_ext K N _ (fun t => (sq (aa iL t) + sq (bb iL t)) + (1 + 1) * (aa iL t * bb iL t))).
  2:{ intros t Ht. rewrite pyth_split. unfold sq. ring. }
  rewrite bsum_add, bsum_add, bsum_mul_l, pyth_ab by auto. ring.
Qed.
(* the second part: rows of V pairwise orthogonal -> a weighted sum of squares *)
Lemma pyth_bb_gen iL : (forall c c', c < q -> c' < q -> c <> c' -> bsum N (fun t => V c t * V c' t) = 0) ->
  bsum N (fun t => sq (bb iL t)) = bsum q (fun c => bsum N (fun t => V c t * V c t) * sq (p' iL c - s' iL c)).
Proof.
  intros HV.
  transitivity (bsum q (fun c => bsum q (fun c' => bsum N (fun t => V c t * V c' t) *
                 ((p' iL c - s' iL c) * (p' iL c' - s' iL c'))))).
  - rewrite (bsum_ext K N _ (fun t => bsum q (fun c => bsum q (fun c' =>
        ((p' iL c - s' iL c) * (p' iL c' - s' iL c')) * (V c t * V c' t))))).
    2:{ intros t Ht. unfold bb. apply bsum_sq_sum. }
    rewrite bsum_swap by auto. apply bsum_ext; intros c Hc. rewrite bsum_swap by auto.
    apply bsum_ext; intros c' Hc'. rewrite <- bsum_mul_r by auto. apply bsum_ext; intros t Ht. ring.
  - apply bsum_ext; intros c Hc. rewrite (bsum_single K Rth q c); auto.
    intros c' Hc' Hne. rewrite HV by auto. ring.
Qed.
End Pyth.
End FrobP.
