(* C01, the "programs" quantifier: every finite expression tree built from add, sub, mul, outer,
   number operands and copy evaluates, in TT form, to the dense evaluation of the same tree. *)
From Coq Require Import List Arith Lia Ring PeanoNat ZArith.
From TV Require Import Num.Ops Lin.Tab Lin.BigSum TT.Chain Model.ActOne Proofs.ActOneP Proofs.ActOneP2.
Import ListNotations.

Section Expr.
Context {T : Type} (K : ops T).
Notation "0" := (o0 K). Notation "1" := (o1 K).
Infix "+" := (oadd K). Infix "*" := (omul K). Infix "-" := (osub K).
Hypothesis Rth : rng K.
Add Ring RrActOne3 : Rth.
Local Notation get := (get K).

(* the d-th root used by teneva.const is an oracle: for a number c and dimension d it returns the
   per-core value rho and the sign factor s; contract: rho^d * s = c *)
Variable root : T -> nat -> T * T.
Hypothesis root_spec : forall c d, 1 <= d -> pown K (fst (root c d)) d * snd (root c d) = c.
Definition const (ns : list nat) (c : T) : list (core T) :=
  const_cores K ns (fst (root c (length ns))) (snd (root c (length ns))).

Inductive expr :=
| Leaf (Y : list (core T))
| Copy (e : expr)
| Add (e1 e2 : expr) | Sub (e1 e2 : expr) | Mul (e1 e2 : expr)
| AddNum (e : expr) (c : T)      (* add(Y, c) and add(c, Y) *)
| SubNum (e : expr) (c : T)      (* sub(Y, c) *)
| NumSub (c : T) (e : expr)      (* sub(c, Y) *)
| MulNum (e : expr) (c : T)      (* mul(Y, c) and mul(c, Y) *)
| Outer (e1 e2 : expr).

Fixpoint eshape (e : expr) : list nat :=
  match e with
  | Leaf Y => shape Y
  | Copy e | AddNum e _ | SubNum e _ | NumSub _ e | MulNum e _ => eshape e
  | Add e1 _ | Sub e1 _ | Mul e1 _ => eshape e1
  | Outer e1 e2 => eshape e1 ++ eshape e2
  end.
(* the model functions, composed as the Python calls compose *)
Fixpoint eval_tt (e : expr) : list (core T) :=
  match e with
  | Leaf Y => Y
  | Copy e => copy (eval_tt e)
  | Add e1 e2 => add K (eval_tt e1) (eval_tt e2)
  | Sub e1 e2 => sub K (eval_tt e1) (eval_tt e2)
  | Mul e1 e2 => mul K (eval_tt e1) (eval_tt e2)
  | AddNum e c => add K (eval_tt e) (const (shape (eval_tt e)) c)
  | SubNum e c => add K (eval_tt e) (const (shape (eval_tt e)) (oopp K 1 * c))
  | NumSub c e => add K (const (shape (eval_tt e)) c) (mul_num K (eval_tt e) (oopp K 1))
  | MulNum e c => mul_num K (eval_tt e) c
  | Outer e1 e2 => outer (eval_tt e1) (eval_tt e2)
  end.
(* the dense reference *)
Fixpoint eval_dense (e : expr) (idx : list nat) : T :=
  match e with
  | Leaf Y => get Y idx
  | Copy e => eval_dense e idx
  | Add e1 e2 => eval_dense e1 idx + eval_dense e2 idx
  | Sub e1 e2 => eval_dense e1 idx - eval_dense e2 idx
  | Mul e1 e2 => eval_dense e1 idx * eval_dense e2 idx
  | AddNum e c => eval_dense e idx + c
  | SubNum e c => eval_dense e idx - c
  | NumSub c e => c - eval_dense e idx
  | MulNum e c => c * eval_dense e idx
  | Outer e1 e2 => eval_dense e1 (firstn (length (eshape e1)) idx) * eval_dense e2 (skipn (length (eshape e1)) idx)
  end.
(* well-shaped: leaves are TT tensors with d >= 2, binary elementwise operations join equal shapes *)
Fixpoint wse (e : expr) : Prop :=
  match e with
  | Leaf Y => chain 1 Y 1 /\ 2 <= length Y
  | Copy e | AddNum e _ | SubNum e _ | NumSub _ e | MulNum e _ => wse e
  | Add e1 e2 | Sub e1 e2 | Mul e1 e2 => wse e1 /\ wse e2 /\ eshape e2 = eshape e1
  | Outer e1 e2 => wse e1 /\ wse e2
  end.

Lemma same_shape_of_shape (Y1 Y2 : list (core T)) : shape Y2 = shape Y1 -> same_shape Y1 Y2.
Proof.
  revert Y2; induction Y1 as [|G1 Y1 IH]; intros [|G2 Y2] H; try discriminate; constructor.
  - unfold shape in H. simpl in H. congruence.
  - apply IH. unfold shape in *. simpl in H. congruence.
Qed.
Lemma shape_length (Y : list (core T)) : length (shape Y) = length Y.
Proof. apply map_length. Qed.

Lemma chain_add_tail Y1 : forall Y2 r1 r2, Y1 <> [] -> same_shape Y1 Y2 -> chain r1 Y1 1 -> chain r2 Y2 1 ->
  chain (r1 + r2) (add_tail K Y1 Y2) 1.
Proof.
  induction Y1 as [|G1 Y1 IH]; intros Y2 r1 r2 Hne H C1 C2; [contradiction|].
  inversion H as [|? G2 ? Y2' Hn HF]; subst. cbn [chain] in C1, C2. destruct C1 as [<- C1], C2 as [<- C2].
  destruct Y1 as [|G1' Y1]; inversion HF; subst.
  - cbn in C1, C2. cbn. split; [reflexivity|]. exact C1.
  - change (add_tail K (G1 :: G1' :: Y1) (G2 :: y :: l')) with (core_mid K G1 G2 :: add_tail K (G1' :: Y1) (y :: l')).
    split; [reflexivity|]. apply IH; auto. discriminate.
Qed.
Lemma chain_add Y1 Y2 : 2 <= length Y1 -> same_shape Y1 Y2 -> chain 1 Y1 1 -> chain 1 Y2 1 ->
  chain 1 (add K Y1 Y2) 1.
Proof.
  intros Hd H C1 C2. inversion H as [|G1 G2 Y1' Y2' Hn HF]; subst; [simpl in Hd; lia|].
  cbn [chain] in C1, C2. destruct C1 as [E1 C1], C2 as [E2 C2]. cbn [add chain]. split; [exact E1|].
  apply chain_add_tail; auto. destruct Y1'; [simpl in Hd; lia|discriminate].
Qed.
Lemma chain_mul_num r (Y : list (core T)) c : chain r Y 1 -> chain r (mul_num K Y c) 1.
Proof. destruct Y; simpl; auto. Qed.
Lemma shape_mul_num (Y : list (core T)) c : shape (mul_num K Y c) = shape Y.
Proof. destruct Y; reflexivity. Qed.
Lemma length_add Y1 Y2 : same_shape Y1 Y2 -> length (add K Y1 Y2) = length Y1.
Proof. intros H. rewrite <- !shape_length, shape_add by auto. reflexivity. Qed.
Lemma chain_app r (Y1 Y2 : list (core T)) m rl : chain r Y1 m -> chain m Y2 rl -> chain r (Y1 ++ Y2) rl.
Proof. revert r; induction Y1 as [|G Y1 IH]; intros r; simpl; [intros ->; auto|]. intros [A B] C. split; auto. Qed.
Lemma inb_app_inv ns1 ns2 idx : inb (ns1 ++ ns2) idx ->
  inb ns1 (firstn (length ns1) idx) /\ inb ns2 (skipn (length ns1) idx) /\
  idx = firstn (length ns1) idx ++ skipn (length ns1) idx.
Proof.
  revert idx; induction ns1 as [|n ns1 IH]; intros idx H; cbn [app length firstn skipn] in *.
  - repeat split; auto. constructor.
  - inversion H as [|i ? idx' ? Hi H']; subst. destruct (IH idx' H') as (A & B & C).
    cbn [firstn skipn]. repeat split; auto. + constructor; auto. + cbn [app]. f_equal. exact C.
Qed.
Lemma const_ok ns c idx : ns <> [] -> inb ns idx ->
  get (const ns c) idx = c /\ chain 1 (const ns c) 1 /\ shape (const ns c) = ns.
Proof.
  intros Hne H. unfold const. destruct (chain_const K ns (fst (root c (length ns))) (snd (root c (length ns)))) as [C S].
  repeat split; auto. rewrite get_const by auto. apply root_spec. destruct ns; [contradiction|simpl; lia].
Qed.

Definition good (e : expr) : Prop :=
  chain 1 (eval_tt e) 1 /\ shape (eval_tt e) = eshape e /\ 2 <= length (eval_tt e).

Lemma wf_of (Y : list (core T)) idx : chain 1 Y 1 -> inb (shape Y) idx -> wf 1 Y idx.
Proof. intros. apply wf_wfo, wfo_chain_inb. auto. Qed.

Lemma eval_good e : wse e -> good e.
Proof.
  unfold good.
  induction e as [Y|e IH|e1 IH1 e2 IH2|e1 IH1 e2 IH2|e1 IH1 e2 IH2|e IH c|e IH c|c e IH|e IH c|e1 IH1 e2 IH2];
    cbn [wse eval_tt eshape]; intros W.
  - destruct W. repeat split; auto.
  - apply IH; auto.
  - destruct W as (W1 & W2 & E). destruct (IH1 W1) as (C1 & S1 & L1), (IH2 W2) as (C2 & S2 & L2).
    assert (SS : same_shape (eval_tt e1) (eval_tt e2)) by (apply same_shape_of_shape; congruence).
    repeat split. + apply chain_add; auto. + rewrite shape_add; auto. + rewrite length_add; auto.
  - destruct W as (W1 & W2 & E). destruct (IH1 W1) as (C1 & S1 & L1), (IH2 W2) as (C2 & S2 & L2).
    assert (SS : same_shape (eval_tt e1) (mul_num K (eval_tt e2) (oopp K 1)))
      by (apply same_shape_of_shape; rewrite shape_mul_num; congruence).
    unfold sub. repeat split. + apply chain_add; auto using chain_mul_num. + rewrite shape_add; auto. + rewrite length_add; auto.
  - destruct W as (W1 & W2 & E). destruct (IH1 W1) as (C1 & S1 & L1), (IH2 W2) as (C2 & S2 & L2).
    assert (SS : same_shape (eval_tt e1) (eval_tt e2)) by (apply same_shape_of_shape; congruence).
    repeat split. + apply (chain_mul K (eval_tt e1) (eval_tt e2) 1 1); auto. + rewrite shape_mul; auto.
    + rewrite <- shape_length, shape_mul, shape_length; auto.
  - destruct (IH W) as (C1 & S1 & L1).
    assert (Hne : shape (eval_tt e) <> []) by (intro E0; rewrite <- shape_length, E0 in L1; simpl in L1; lia).
    destruct (chain_const K (shape (eval_tt e)) (fst (root c (length (shape (eval_tt e))))) (snd (root c (length (shape (eval_tt e)))))) as [C2 S2].
    fold (const (shape (eval_tt e)) c) in C2, S2.
    assert (SS : same_shape (eval_tt e) (const (shape (eval_tt e)) c)) by (apply same_shape_of_shape; auto).
    repeat split. + apply chain_add; auto. + rewrite shape_add; auto. + rewrite length_add; auto.
  - destruct (IH W) as (C1 & S1 & L1).
    destruct (chain_const K (shape (eval_tt e)) (fst (root (oopp K 1 * c) (length (shape (eval_tt e))))) (snd (root (oopp K 1 * c) (length (shape (eval_tt e)))))) as [C2 S2].
    fold (const (shape (eval_tt e)) (oopp K 1 * c)) in C2, S2.
    assert (SS : same_shape (eval_tt e) (const (shape (eval_tt e)) (oopp K 1 * c))) by (apply same_shape_of_shape; auto).
    repeat split. + apply chain_add; auto. + rewrite shape_add; auto. + rewrite length_add; auto.
  - destruct (IH W) as (C1 & S1 & L1).
    destruct (chain_const K (shape (eval_tt e)) (fst (root c (length (shape (eval_tt e))))) (snd (root c (length (shape (eval_tt e)))))) as [C2 S2].
    fold (const (shape (eval_tt e)) c) in C2, S2.
    assert (SS : same_shape (const (shape (eval_tt e)) c) (mul_num K (eval_tt e) (oopp K 1)))
      by (apply same_shape_of_shape; rewrite shape_mul_num; auto).
    assert (L2 : length (const (shape (eval_tt e)) c) = length (eval_tt e)) by (rewrite <- shape_length, S2, shape_length; auto).
    repeat split. + apply chain_add; auto using chain_mul_num. lia. + rewrite shape_add; auto. congruence. + rewrite length_add; auto. lia.
  - destruct (IH W) as (C1 & S1 & L1). repeat split.
    + apply chain_mul_num; auto. + rewrite shape_mul_num; auto. + rewrite <- shape_length, shape_mul_num, shape_length; auto.
  - destruct W as (W1 & W2). destruct (IH1 W1) as (C1 & S1 & L1), (IH2 W2) as (C2 & S2 & L2).
    unfold outer, copy. repeat split.
    + eapply chain_app; eauto. + unfold shape in *. rewrite map_app. congruence. + rewrite app_length. lia.
Qed.

Theorem expr_sound e : wse e -> forall idx, inb (eshape e) idx -> get (eval_tt e) idx = eval_dense e idx.
Proof.
  induction e as [Y|e IH|e1 IH1 e2 IH2|e1 IH1 e2 IH2|e1 IH1 e2 IH2|e IH c|e IH c|c e IH|e IH c|e1 IH1 e2 IH2];
    cbn [wse eval_tt eshape eval_dense]; intros W idx Hidx.
  - reflexivity.
  - apply IH; auto.
  - destruct W as (W1 & W2 & E).
    destruct (eval_good e1 W1) as (C1 & S1 & L1), (eval_good e2 W2) as (C2 & S2 & L2).
    rewrite get_add; auto.
    + rewrite IH1, IH2 by (auto; congruence). reflexivity.
    + apply wf_of; auto; congruence. + apply wf_of; auto; congruence.
    + apply same_shape_of_shape; congruence.
  - destruct W as (W1 & W2 & E).
    destruct (eval_good e1 W1) as (C1 & S1 & L1), (eval_good e2 W2) as (C2 & S2 & L2).
    rewrite get_sub; auto.
    + rewrite IH1, IH2 by (auto; congruence). reflexivity.
    + apply wf_of; auto; congruence. + apply wf_of; auto; congruence.
    + apply same_shape_of_shape; congruence.
  - destruct W as (W1 & W2 & E).
    destruct (eval_good e1 W1) as (C1 & S1 & L1), (eval_good e2 W2) as (C2 & S2 & L2).
    rewrite get_mul; auto.
    + rewrite IH1, IH2 by (auto; congruence). reflexivity.
    + apply wf_of; auto; congruence. + apply wf_of; auto; congruence.
    + apply same_shape_of_shape; congruence.
  - destruct (eval_good e W) as (C1 & S1 & L1).
    assert (Hne : shape (eval_tt e) <> []) by (intro E0; rewrite <- shape_length, E0 in L1; simpl in L1; lia).
    destruct (const_ok (shape (eval_tt e)) c idx Hne) as (G & C2 & S2); [congruence|].
    rewrite get_add; auto.
    + rewrite IH, G by auto. reflexivity.
    + apply wf_of; auto; congruence. + apply wf_of; auto; congruence.
    + apply same_shape_of_shape; auto.
  - destruct (eval_good e W) as (C1 & S1 & L1).
    assert (Hne : shape (eval_tt e) <> []) by (intro E0; rewrite <- shape_length, E0 in L1; simpl in L1; lia).
    destruct (const_ok (shape (eval_tt e)) (oopp K 1 * c) idx Hne) as (G & C2 & S2); [congruence|].
    rewrite get_add; auto.
    + rewrite IH, G by auto. ring.
    + apply wf_of; auto; congruence. + apply wf_of; auto; congruence.
    + apply same_shape_of_shape; auto.
  - destruct (eval_good e W) as (C1 & S1 & L1).
    assert (Hne : shape (eval_tt e) <> []) by (intro E0; rewrite <- shape_length, E0 in L1; simpl in L1; lia).
    destruct (const_ok (shape (eval_tt e)) c idx Hne) as (G & C2 & S2); [congruence|].
    assert (L2 : length (const (shape (eval_tt e)) c) = length (eval_tt e)) by (rewrite <- shape_length, S2, shape_length; auto).
    rewrite get_add; auto.
    + rewrite G. unfold Chain.get at 1. rewrite (get_mul_num K Rth (eval_tt e) _ idx 1%nat).
      * fold (get (eval_tt e) idx). rewrite IH by auto. ring.
      * apply wf_of; auto; congruence.
      * intro E0; rewrite E0 in L1; simpl in L1; lia.
    + lia. + apply wf_of; auto; congruence.
    + apply wf_mul_num. apply wf_of; auto; congruence.
    + apply same_shape_of_shape. rewrite shape_mul_num. auto.
  - destruct (eval_good e W) as (C1 & S1 & L1).
    unfold Chain.get. rewrite (get_mul_num K Rth (eval_tt e) _ idx 1%nat).
    + fold (get (eval_tt e) idx). rewrite IH by auto. reflexivity.
    + apply wf_of; auto; congruence.
    + intro E0; rewrite E0 in L1; simpl in L1; lia.
  - destruct W as (W1 & W2).
    destruct (eval_good e1 W1) as (C1 & S1 & L1), (eval_good e2 W2) as (C2 & S2 & L2).
    destruct (inb_app_inv _ _ _ Hidx) as (H1 & H2 & E). rewrite E at 1.
    rewrite get_outer; auto.
    + rewrite IH1, IH2 by auto. reflexivity.
    + apply wf_of; auto; congruence. + apply wf_of; auto; congruence.
Qed.
End Expr.
