(* C12: func_diff_matrix, first derivative, EVERY n >= 2, at the reals.  What the code computes for the first matrix:
   off the diagonal  D[r,c] = (c_r/c_c) (-1)^(r+c) / (x_r - x_c)  (c_0 = c_N = 2, else 1;  x_j = cos(pi j/N)), on the
   diagonal minus the sum of the other entries of the row, everything times 2/(b-a).  Theorem: applied to the values at
   the nodes of any polynomial p of degree < n it returns p' at the nodes (times 2/(b-a)).
   Proof: p(x) - p(y) = (x - y) q_y(x) with q_y of degree < N and q_y(y) = p'(y); the alternating sum with halved ends
   sum_c (1/c_c) (-1)^c q(x_c) vanishes for degree < N (DCT-I orthogonality against cos(N theta)). *)
From Coq Require Import List Arith Lia PeanoNat ZArith Bool Reals Lra Psatz.
From TV Require Import Num.Ops Lin.Tab Lin.BigSum Lin.Mat TT.Chain Model.Func
  Proofs.FuncP Proofs.FuncTrigP Proofs.FuncExactP Proofs.FuncWeightsP Proofs.FuncSpanP Proofs.FuncDiffP.
Import ListNotations.
Local Open Scope R_scope.

(* ---------------------------------------------------------------- nodes *)
Definition xN (N j : nat) : R := cos (ang N j).
Lemma cos_diff_prod A B : cos B - cos A = 2 * sin ((A + B) / 2) * sin ((A - B) / 2).
Proof.
  replace (cos B) with (cos ((A + B) / 2 - (A - B) / 2)) by (f_equal; field).
  replace (cos A) with (cos ((A + B) / 2 + (A - B) / 2)) by (f_equal; field).
  rewrite cos_plus, cos_minus. ring.
Qed.
Lemma ssR_nodes N i j : (1 <= N)%nat -> ssR N i j = xN N j - xN N i.
Proof.
  intros HN. pose proof (INR_N_pos N HN). unfold ssR, xN, ang. rewrite cos_diff_prod.
  replace (PI * INR i / INR N) with (INR i * PI / INR N) by (field; lra).
  replace (PI * INR j / INR N) with (INR j * PI / INR N) by (field; lra). reflexivity.
Qed.
Lemma xN_flip N j : (1 <= N)%nat -> (j <= N)%nat -> xN N (N - j) = - xN N j.
Proof.
  intros HN Hj. pose proof (INR_N_pos N HN). unfold xN, ang. rewrite minus_INR by auto.
  replace (PI * (INR N - INR j) / INR N) with (- (PI * INR j / INR N) + PI) by (field; lra).
  rewrite neg_cos, cos_neg. reflexivity.
Qed.
Lemma xN_inj N i j : (1 <= N)%nat -> (i <= N)%nat -> (j <= N)%nat -> i <> j -> xN N i - xN N j <> 0.
Proof.
  intros HN Hi Hj Hne. pose proof (INR_N_pos N HN) as HP. pose proof PI_RGT_0 as Hpi.
  assert (Ii : 0 <= INR i <= INR N) by (split; [apply pos_INR | apply le_INR; auto]).
  assert (Ij : 0 <= INR j <= INR N) by (split; [apply pos_INR | apply le_INR; auto]).
  assert (Hd : INR i <> INR j) by (intros E; apply INR_eq in E; auto).
  unfold xN. rewrite (cos_diff_prod (ang N j) (ang N i)).
  assert (S1 : sin ((ang N j + ang N i) / 2) <> 0).
  { replace ((ang N j + ang N i) / 2) with ((INR j + INR i) / (2 * INR N) * PI) by (unfold ang; field; lra).
    assert (E : (INR j + INR i) / (2 * INR N) * (2 * INR N) = INR j + INR i) by (field; lra).
    assert (0 < INR j + INR i) by (destruct i, j; try lia; rewrite ?S_INR in *; cbn [INR] in *; lra).
    assert (INR j + INR i < 2 * INR N).
    { assert (j + i < 2 * N)%nat by lia. apply lt_INR in H0. rewrite plus_INR, mult_INR in H0. cbn [INR] in H0. lra. }
    apply sin_rPI_ne0; [split; nra | nra]. }
  assert (S2 : sin ((ang N j - ang N i) / 2) <> 0).
  { replace ((ang N j - ang N i) / 2) with ((INR j - INR i) / (2 * INR N) * PI) by (unfold ang; field; lra).
    assert (E : (INR j - INR i) / (2 * INR N) * (2 * INR N) = INR j - INR i) by (field; lra).
    apply sin_rPI_ne0; [split; nra | nra]. }
  intros E0. apply Rmult_integral in E0 as [E0|E0]; [|tauto]. apply Rmult_integral in E0 as [E0|E0]; [lra|tauto].
Qed.

(* ---------------------------------------------------------------- divided differences of polynomials *)
Fixpoint dd (q : nat) (x y : R) : R := match q with O => 0 | S q' => y * dd q' x y + x ^ q' end.
Lemma dd_spec q x y : x ^ q - y ^ q = (x - y) * dd q x y.
Proof. induction q as [|q IH]; cbn [dd pow]; [ring|]. replace (x * x ^ q - y * y ^ q) with (y * (x ^ q - y ^ q) + (x - y) * x ^ q) by ring. rewrite IH. ring. Qed.
Lemma dd_diag q y : dd q y y = INR q * y ^ (q - 1).
Proof.
  induction q as [|q IH]; [cbn [dd INR]; ring|]. cbn [dd]. rewrite IH. destruct q as [|q'].
  - cbn [INR pow Nat.sub]. ring.
  - rewrite (S_INR (S q')). replace (S (S q') - 1)%nat with (S q') by lia. replace (S q' - 1)%nat with q' by lia. cbn [pow]. ring.
Qed.
(* functions of x that are monomial series of length N *)
Definition Pm (N : nat) (f : R -> R) : Prop := exists g : nat -> R, forall x, f x = rsum N (fun i => g i * x ^ i).
Lemma Pm_ext N f f' : (forall x, f x = f' x) -> Pm N f -> Pm N f'.
Proof. intros E (g & H). exists g. intros x. rewrite <- E. apply H. Qed.
Lemma Pm_lin N f f' s : Pm N f -> Pm N f' -> Pm N (fun x => s * f x + f' x).
Proof.
  intros (g & H) (g' & H'). exists (fun i => s * g i + g' i). intros x. rewrite H, H', <- rsum_scal, <- rsum_plus.
  apply rsum_ext; intros; ring.
Qed.
Lemma Pm_zero N : Pm N (fun _ => 0).
Proof. exists (fun _ => 0). intros x. rewrite (rsum_ext N _ (fun _ => 0)) by (intros; ring). symmetry. apply (bsum_0 OR OR_rng). Qed.
Lemma Pm_mono N i : (i < N)%nat -> Pm N (fun x => x ^ i).
Proof.
  intros Hi. exists (fun k => if Nat.eqb k i then 1 else 0). intros x.
  rewrite (rsum_single N i (fun k => (if Nat.eqb k i then 1 else 0) * x ^ k)); auto.
  - rewrite Nat.eqb_refl. ring.
  - intros k Hk Hne. destruct (Nat.eqb_spec k i); [lia|ring].
Qed.
Lemma Pm_dd N y : forall q, (q <= N)%nat -> Pm N (fun x => dd q x y).
Proof.
  induction q as [|q IH]; intros Hq; cbn [dd]; [apply Pm_zero|].
  apply (Pm_lin N (fun x => dd q x y) (fun x => x ^ q) y); [apply IH; lia | apply Pm_mono; lia].
Qed.
Lemma Pm_rsum N n (s : nat -> R) (f : nat -> R -> R) : (forall q, (q < n)%nat -> Pm N (f q)) ->
  Pm N (fun x => rsum n (fun q => s q * f q x)).
Proof.
  induction n as [|n IH]; intros H; [cbn [bsum]; apply Pm_zero|].
  apply (Pm_ext N (fun x => s n * f n x + rsum n (fun q => s q * f q x))); [intros; rewrite rsum_S; ring|].
  apply Pm_lin; [apply H; lia | apply IH; intros; apply H; lia].
Qed.

Definition pvalR (n : nat) (c : nat -> R) (x : R) : R := rsum n (fun q => c q * x ^ q).
Definition pderR (n : nat) (c : nat -> R) (x : R) : R := rsum n (fun q => c q * (INR q * x ^ (q - 1))).
(* p(x) - p(y) = (x - y) q(x), q a Chebyshev series of length N = n - 1, q(y) = p'(y) *)
Lemma divided_difference N c y : exists be : nat -> R,
  (forall x, pvalR (S N) c x - pvalR (S N) c y = (x - y) * rsum N (fun k => be k * chebT OR x k)) /\
  rsum N (fun k => be k * chebT OR y k) = pderR (S N) c y.
Proof.
  assert (HP : Pm N (fun x => rsum (S N) (fun q => c q * dd q x y))).
  { apply Pm_rsum. intros q Hq. apply Pm_dd. lia. }
  destruct HP as (g & Hg). destruct (poly_cheb_span N g) as (be & Hbe). exists be. split.
  - intros x. rewrite <- Hbe, <- Hg. unfold pvalR. rewrite <- rsum_minus, <- rsum_scal. apply rsum_ext; intros q Hq.
    rewrite <- Rmult_minus_distr_l, dd_spec. ring.
  - rewrite <- Hbe, <- Hg. unfold pderR. apply rsum_ext; intros q Hq. now rewrite dd_diag.
Qed.

(* ---------------------------------------------------------------- the alternating sum with halved ends kills degree < N *)
Lemma alt_sum_zero N (be : nat -> R) : (1 <= N)%nat ->
  rsum (S N) (fun c => ee N c * pm OR c * rsum N (fun k => be k * chebT OR (xN N c) k)) = 0.
Proof.
  intros HN. pose proof (INR_N_pos N HN) as HP.
  rewrite (rsum_ext (S N) _ (fun c => rsum N (fun k => be k * (ee N c * (cos (INR c * ang N N) * cos (INR c * ang N k)))))).
  2:{ intros c Hc. rewrite <- rsum_scal. apply rsum_ext; intros k Hk. unfold xN. rewrite chebT_cos', pm_R.
      replace (INR c * ang N N) with (INR c * PI) by (unfold ang; field; lra).
      replace (INR k * ang N c) with (INR c * ang N k) by (unfold ang; field; lra). ring. }
  rewrite (bsum_swap OR OR_rng). apply (bsum_0' OR OR_rng). intros k Hk. ror.
  rewrite rsum_scal. fold (SS2 N N k). rewrite dct_orthogonal by lia.
  destruct (Nat.eqb_spec N k); [lia|]. ring.
Qed.

(* ---------------------------------------------------------------- the entries the code computes *)
Definition ccR (N i : nat) : R := if Nat.eqb i O || Nat.eqb i N then 2 else 1.
Lemma pm_sq k : pm OR k * pm OR k = 1.
Proof. unfold pm, fm1. destruct (Nat.even k); ror; ring. Qed.
Lemma pm_absdiff r c : pm OR (if (r <=? c)%nat then c - r else r - c)%nat = pm OR r * pm OR c.
Proof.
  assert (A : forall u d, pm OR (u + d) = pm OR u * pm OR d).
  { intros u d. unfold pm, fm1. rewrite Nat.even_add. destruct (Nat.even u), (Nat.even d); cbn [Bool.eqb]; ror; ring. }
  destruct (Nat.leb_spec r c).
  - replace c with (r + (c - r))%nat at 2 by lia. rewrite A. rewrite <- Rmult_assoc, pm_sq. ring.
  - replace r with (c + (r - c))%nat at 2 by lia. rewrite A. rewrite (Rmult_comm (pm OR c)), Rmult_assoc, pm_sq. ring.
Qed.
Lemma C_entry N r c : (1 <= N)%nat -> (r <= N)%nat -> (c <= N)%nat ->
  mget OR (diff_C OR (S N)) r c = (pm OR r * ccR N r) * (pm OR c * (ee N c / 2)).
Proof.
  intros HN Hr Hc. unfold diff_C. rewrite (mget_mk OR) by lia. rewrite pm_absdiff.
  replace (S N - 1)%nat with N by lia. unfold ccR, ee, ftwo. ror.
  destruct (Nat.eqb_spec r O); destruct (Nat.eqb_spec r N); destruct (Nat.eqb_spec c O); destruct (Nat.eqb_spec c N);
    try lia; cbn [orb]; field.
Qed.
Lemma DX_entry N r c : (1 <= N)%nat -> (r <= N)%nat -> (c <= N)%nat -> r <> c ->
  mget OR (diff_DX OR ssR (S N)) r c = xN N r - xN N c.
Proof.
  intros HN Hr Hc Hne. unfold diff_DX. rewrite (mget_mk OR) by lia.
  destruct (Nat.eqb_spec c r); [lia|]. replace (S N - 1)%nat with N by lia.
  destruct (c <? S N / 2)%nat; ror.
  - now apply ssR_nodes.
  - rewrite ssR_nodes, !xN_flip by (auto; lia). ring.
Qed.
Lemma Z_entry N r c : (1 <= N)%nat -> (r <= N)%nat -> (c <= N)%nat ->
  mget OR (diff_Z OR ssR (S N)) r c = if Nat.eqb r c then 0 else 1 / (xN N r - xN N c).
Proof.
  intros HN Hr Hc. unfold diff_Z. rewrite (mget_mk OR) by lia. destruct (Nat.eqb_spec r c); [reflexivity|].
  rewrite DX_entry by auto. reflexivity.
Qed.
(* the first iterate, before the box scaling *)
Definition raw1 (N : nat) : mat R := diff_iter OR (S N) (diff_Z OR ssR (S N)) (diff_C OR (S N)) (mid OR (S N)) 0 0.
Definition d1 (N r c : nat) : R :=
  if Nat.eqb r c then 0 else (pm OR r * ccR N r) * (pm OR c * (ee N c / 2)) / (xN N r - xN N c).
Lemma raw1_entry N r c : (1 <= N)%nat -> (r <= N)%nat -> (c <= N)%nat ->
  mget OR (raw1 N) r c = if Nat.eqb r c then - rsum (S N) (fun c' => d1 N r c') else d1 N r c.
Proof.
  intros HN Hr Hc. unfold raw1. cbn [diff_iter]. unfold diff_next. rewrite (mget_mk OR) by lia.
  assert (E : forall c', (c' <= N)%nat ->
    mget OR (mkmat (S N) (S N) (fun r0 c0 => omul OR (omul OR (fnat OR (0 + 1)) (mget OR (diff_Z OR ssR (S N)) r0 c0))
       (osub OR (omul OR (mget OR (diff_C OR (S N)) r0 c0) (mget OR (mid OR (S N)) r0 r0)) (mget OR (mid OR (S N)) r0 c0)))) r c'
    = d1 N r c').
  { intros c' Hc'. rewrite (mget_mk OR) by lia. rewrite Z_entry, C_entry, !(mget_mid OR) by (auto; lia).
    rewrite Nat.eqb_refl, fnat_R. unfold d1. cbn [Nat.add INR]. ror. destruct (Nat.eqb_spec r c'); [ring|].
    pose proof (xN_inj N r c' HN Hr Hc' n). field. auto. }
  destruct (Nat.eqb_spec r c).
  - ror. f_equal. apply rsum_ext; intros c' Hc'. apply E. lia.
  - apply E. auto.
Qed.

(* ---------------------------------------------------------------- exactness of the first differentiation matrix *)
Theorem raw1_exact N c r : (1 <= N)%nat -> (r <= N)%nat ->
  rsum (S N) (fun j => mget OR (raw1 N) r j * pvalR (S N) c (xN N j)) = pderR (S N) c (xN N r).
Proof.
  intros HN Hr. destruct (divided_difference N c (xN N r)) as (be & Hq1 & Hq2).
  set (q := fun x => rsum N (fun k => be k * chebT OR x k)) in *.
  set (P := fun j => pvalR (S N) c (xN N j)).
  (* step 1: the negative-row-sum diagonal *)
  transitivity (rsum (S N) (fun j => d1 N r j * (P j - P r))).
  { rewrite (rsum_ext (S N) _ (fun j => d1 N r j * P j - (if Nat.eqb j r then rsum (S N) (fun c' => d1 N r c') * P r else 0))).
    2:{ intros j Hj. rewrite raw1_entry by (auto; lia). fold (P j).
        destruct (Nat.eqb_spec r j) as [<-|Hne].
        - rewrite Nat.eqb_refl. replace (d1 N r r) with 0 by (unfold d1; now rewrite Nat.eqb_refl). ring.
        - destruct (Nat.eqb_spec j r); [lia|]. ring. }
    rewrite rsum_minus. rewrite (rsum_single (S N) r (fun j => if Nat.eqb j r then _ else 0)); try lia.
    2:{ intros j Hj Hne. destruct (Nat.eqb_spec j r); [lia|reflexivity]. }
    rewrite Nat.eqb_refl. symmetry.
    rewrite (rsum_ext (S N) _ (fun j => d1 N r j * P j - P r * d1 N r j)) by (intros; ring).
    rewrite rsum_minus, rsum_scal. change (rsum (S N) (fun c' : nat => d1 N r c')) with (rsum (S N) (d1 N r)). ring. }
  (* step 2: divided differences *)
  set (kr := pm OR r * ccR N r).
  transitivity (rsum (S N) (fun j => - (kr / 2) * (ee N j * pm OR j * q (xN N j))
                                     + (if Nat.eqb j r then q (xN N r) else 0))).
  { apply rsum_ext; intros j Hj. unfold P. rewrite Hq1. fold (q (xN N j)). unfold d1.
    destruct (Nat.eqb_spec r j) as [<-|Hne].
    - rewrite Nat.eqb_refl.
      assert (CE : ccR N r * ee N r = 2).
      { unfold ccR, ee. destruct (Nat.eqb_spec r O); destruct (Nat.eqb_spec r N); try lia; cbn [orb]; ring. }
      transitivity (q (xN N r) * (1 - (pm OR r * pm OR r) * (ccR N r * ee N r) / 2)); [rewrite pm_sq, CE; field | unfold kr; field].
    - destruct (Nat.eqb_spec j r); [lia|]. pose proof (xN_inj N r j HN Hr ltac:(lia) Hne). unfold kr. field. auto. }
  rewrite rsum_plus, rsum_scal. unfold q at 1. rewrite alt_sum_zero by auto.
  rewrite (rsum_single (S N) r (fun j => if Nat.eqb j r then q (xN N r) else 0)); try lia.
  2:{ intros j Hj Hne. destruct (Nat.eqb_spec j r); [lia|reflexivity]. }
  rewrite Nat.eqb_refl. unfold q. rewrite Hq2. ring.
Qed.
(* in terms of what func_diff_matrix returns: first matrix, any box, any m >= 1, any polynomial of degree < n *)
Theorem diff1_exact N m a b (c : nat -> R) r : (1 <= N)%nat -> (1 <= m)%nat -> (r <= N)%nat ->
  rsum (S N) (fun j => mget OR (nth 0 (func_diff_matrix OR ssR a b (S N) m) (mkmat 0 0 (fun _ _ => 0))) r j
                       * pvalR (S N) c (xN N j)) =
  2 / (b - a) * pderR (S N) c (xN N r).
Proof.
  intros HN Hm Hr. unfold func_diff_matrix. rewrite (nth_diff_loop OR) by lia. fold (raw1 N).
  rewrite <- (raw1_exact N c r HN Hr), <- rsum_scal. apply rsum_ext; intros j Hj.
  rewrite (mget_mk OR) by lia. cbn [Nat.add fpow]. unfold ftwo. ror. replace (1 + 1) with 2 by ring. unfold Rdiv. ring.
Qed.
(* pderR is the derivative of pvalR *)
Lemma pvalR_deriv c x : forall n, derivable_pt_lim (pvalR n c) x (pderR n c x).
Proof.
  induction n as [|n IH].
  - apply (dlim_ext _ (fct_cte 0)); [reflexivity|]. unfold pderR. cbn [bsum]. apply derivable_pt_lim_const.
  - apply (dlim_ext _ (pvalR n c + mult_real_fct (c n) (fun y => y ^ n))%F).
    { intros y. unfold pvalR, plus_fct, mult_real_fct. now rewrite rsum_S. }
    unfold pderR. rewrite rsum_S. fold (pderR n c x). apply derivable_pt_lim_plus; [exact IH|].
    apply derivable_pt_lim_scal. replace (n - 1)%nat with (pred n) by lia. apply derivable_pt_lim_pow.
Qed.
