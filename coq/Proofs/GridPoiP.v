(* C18, part 1: the index <-> point maps at Coq Reals (exact arithmetic; cos / acos / PI are the real functions). *)
From Coq Require Import List ZArith Bool Lia Reals Lra Psatz RealField.
From TV Require Import Num.Ops Lin.Tab Model.GridInd Model.GridPoi.
Import ListNotations.
Local Open Scope R_scope.

(* ---------------------------------------------------------------- the instance R *)
Definition Rleb (a b : R) : bool := if Rle_dec a b then true else false.
Definition Rltb (a b : R) : bool := if Rlt_dec a b then true else false.
Definition Reqb (a b : R) : bool := if Req_EM_T a b then true else false.
Definition OR : ops R :=
  mkops R 0 1 Rplus Rmult Rminus Ropp Rdiv sqrt Rabs Rleb Rltb Reqb IZR (powerRZ 2).
Lemma OR_rng : rng OR. Proof. exact RTheory. Qed.

Lemma Rltb_true a b : a < b -> Rltb a b = true.
Proof. intros H. unfold Rltb. destruct (Rlt_dec a b); [reflexivity|contradiction]. Qed.
Lemma Rltb_false a b : b <= a -> Rltb a b = false.
Proof. intros H. unfold Rltb. destruct (Rlt_dec a b); [lra|reflexivity]. Qed.
Lemma Rleb_true a b : a <= b -> Rleb a b = true.
Proof. intros H. unfold Rleb. destruct (Rle_dec a b); [reflexivity|contradiction]. Qed.
Lemma Rleb_false a b : b < a -> Rleb a b = false.
Proof. intros H. unfold Rleb. destruct (Rle_dec a b); [lra|reflexivity]. Qed.

(* the model functions at R *)
Definition rintR : R -> Z := rint OR Int_part.
Definition clipR : R -> R -> R -> R := clip OR.
Definition uniR : R -> R -> Z -> Z -> R := uni_node OR.
Definition chebR : R -> R -> Z -> Z -> R := cheb_node OR cos PI.
Definition nodeR : gkind R -> R -> R -> Z -> Z -> R := node OR cos PI.
Definition scaleR : gkind R -> R -> R -> R -> R := scale OR.
Definition paramR : gkind R -> Z -> R -> R := param OR acos PI.
Definition indexR : gkind R -> Z -> R -> Z := index_of OR Int_part acos PI.
Definition p2iR : gkind R -> R -> R -> Z -> R -> Z := poi_to_ind_elem OR Int_part acos PI.

Ltac unR := cbv beta iota zeta delta
  [rintR clipR uniR chebR nodeR scaleR paramR indexR p2iR
   rint clip uni_node cheb_node node scale scale_uni scale_cheb scale_lim param index_of poi_to_ind_elem
   OR o0 o1 oadd omul osub oopp odiv oltb oleb oeqb oofZ].

(* ---------------------------------------------------------------- integers inside R *)
Lemma Rabs_le_inv x a : Rabs x <= a -> - a <= x <= a.
Proof. intros H. unfold Rabs in H. destruct (Rcase_abs x); lra. Qed.
Lemma IZR_close a b : Rabs (IZR a - IZR b) < 1 -> a = b.
Proof.
  intros H. rewrite <- minus_IZR in H.
  assert (E : (a - b = 0)%Z).
  { apply one_IZR_lt1. apply Rabs_def2 in H. lra. }
  lia.
Qed.
Lemma IZR_pred n : IZR (n - 1) = IZR n - 1.
Proof. now rewrite minus_IZR. Qed.
Lemma IZR_n1_pos n : (2 <= n)%Z -> 1 <= IZR (n - 1).
Proof. intros H. apply (IZR_le 1). lia. Qed.

(* ---------------------------------------------------------------- np.rint *)
(* rint x is a nearest integer, and an even one on a tie *)
Lemma rint_spec x :
  Rabs (x - IZR (rintR x)) <= 1/2 /\ (Rabs (x - IZR (rintR x)) = 1/2 -> Z.even (rintR x) = true).
Proof.
  unR. destruct (base_Int_part x) as [H1 H2].
  set (f := Int_part x) in *.
  destruct (Rlt_dec (x - IZR f) (1 / (1 + 1))) as [L|L].
  - rewrite (Rltb_true _ _ L). split.
    + apply Rabs_le. lra.
    + intros E. rewrite Rabs_right in E by lra. lra.
  - rewrite (Rltb_false (x - IZR f) (1 / (1 + 1))) by lra.
    destruct (Rlt_dec (1 / (1 + 1)) (x - IZR f)) as [G|G].
    + rewrite (Rltb_true _ _ G). rewrite plus_IZR. split.
      * apply Rabs_le. lra.
      * intros E. rewrite Rabs_left in E by lra. lra.
    + rewrite (Rltb_false (1 / (1 + 1)) (x - IZR f)) by lra.
      assert (Er : x - IZR f = 1 / 2) by lra.
      destruct (Z.even f) eqn:Ev.
      * split; [rewrite Er, Rabs_right; lra|auto].
      * rewrite plus_IZR. split.
        -- apply Rabs_le. lra.
        -- intros _. rewrite Z.even_add, Ev. reflexivity.
Qed.

(* the margin: whatever lies closer than 1/2 to an integer is rounded to it *)
Lemma rint_margin x i : Rabs (x - IZR i) < 1/2 -> rintR x = i.
Proof.
  intros H. destruct (rint_spec x) as [S _]. apply IZR_close.
  replace (IZR (rintR x) - IZR i) with ((x - IZR i) - (x - IZR (rintR x))) by ring.
  eapply Rle_lt_trans; [apply Rabs_triang|]. rewrite Rabs_Ropp. lra.
Qed.
Lemma rint_IZR i : rintR (IZR i) = i.
Proof. apply rint_margin. rewrite Rminus_diag_eq by reflexivity. rewrite Rabs_R0. lra. Qed.

(* rounding stays inside an interval with integer ends *)
Lemma rint_range x lo hi : IZR lo <= x <= IZR hi -> (lo <= rintR x <= hi)%Z.
Proof.
  intros [A B]. destruct (rint_spec x) as [S _]. apply Rabs_le_inv in S.
  split.
  - assert (H : (lo - 1 < rintR x)%Z); [|lia]. apply lt_IZR. rewrite minus_IZR. lra.
  - assert (H : (rintR x < hi + 1)%Z); [|lia]. apply lt_IZR. rewrite plus_IZR. lra.
Qed.

(* a nearest integer in the plain sense: no integer is closer *)
Lemma rint_nearest x j : Rabs (x - IZR (rintR x)) <= Rabs (x - IZR j).
Proof.
  destruct (rint_spec x) as [S _].
  destruct (Z.eq_dec j (rintR x)) as [->|N]; [lra|].
  assert (D : 1 <= Rabs (IZR (rintR x) - IZR j)).
  { rewrite <- minus_IZR. rewrite <- abs_IZR. apply (IZR_le 1). lia. }
  replace (IZR (rintR x) - IZR j) with ((x - IZR j) - (x - IZR (rintR x))) in D by ring.
  pose proof (Rabs_triang (x - IZR j) (- (x - IZR (rintR x)))) as Tr. rewrite Rabs_Ropp in Tr.
  unfold Rminus in D at 1. lra.
Qed.

(* ---------------------------------------------------------------- clipping *)
Lemma clip_inside lo hi v : lo <= v <= hi -> clipR lo hi v = v.
Proof. intros [A B]. unR. rewrite (Rltb_false v lo A). rewrite (Rltb_false hi v B). reflexivity. Qed.
Lemma clip_below lo hi v : lo <= hi -> v <= lo -> clipR lo hi v = lo.
Proof.
  intros A B. unR. destruct (Rlt_dec v lo) as [L|L].
  - rewrite (Rltb_true _ _ L). now rewrite Rltb_false.
  - assert (v = lo) by lra. subst. rewrite (Rltb_false lo lo) by lra. now rewrite Rltb_false.
Qed.
Lemma clip_above lo hi v : lo <= hi -> hi <= v -> clipR lo hi v = hi.
Proof.
  intros A B. unR. destruct (Rlt_dec hi v) as [L|L].
  - rewrite (Rltb_false v lo) by lra. now rewrite Rltb_true.
  - assert (v = hi) by lra. subst. rewrite (Rltb_false hi lo) by lra. now rewrite (Rltb_false hi hi) by lra.
Qed.
(* the two masked assignments are the mathematical clipping whenever lo <= hi *)
Lemma clip_spec lo hi v : lo <= hi -> clipR lo hi v = Rmax lo (Rmin hi v).
Proof.
  intros H. destruct (Rle_dec v lo) as [A|A].
  - rewrite clip_below by lra. rewrite Rmin_right by lra. now rewrite Rmax_left by lra.
  - destruct (Rle_dec hi v) as [B|B].
    + rewrite clip_above by lra. rewrite Rmin_left by lra. now rewrite Rmax_right by lra.
    + rewrite clip_inside by lra. rewrite Rmin_right by lra. now rewrite Rmax_right by lra.
Qed.
Lemma clip_range lo hi v : lo <= hi -> lo <= clipR lo hi v <= hi.
Proof.
  intros H. destruct (Rle_dec v lo); [rewrite clip_below; lra|].
  destruct (Rle_dec hi v); [rewrite clip_above; lra|]. rewrite clip_inside; lra.
Qed.

Lemma clampI_inside n i : (0 <= i <= n - 1)%Z -> clampI n i = i.
Proof.
  intros H. unfold clampI. destruct (Z.ltb_spec i 0); [lia|]. destruct (Z.ltb_spec (n - 1) i); lia.
Qed.
Lemma clampI_range n i : (1 <= n)%Z -> (0 <= clampI n i <= n - 1)%Z.
Proof.
  intros H. unfold clampI. destruct (Z.ltb_spec i 0).
  - destruct (Z.ltb_spec (n - 1) 0); lia.
  - destruct (Z.ltb_spec (n - 1) i); lia.
Qed.

(* ---------------------------------------------------------------- nodes: end points, inside the box *)
Lemma frac_range n i : (2 <= n)%Z -> (0 <= i <= n - 1)%Z -> 0 <= IZR i / IZR (n - 1) <= 1.
Proof.
  intros Hn [A B]. pose proof (IZR_n1_pos n Hn) as P.
  apply (IZR_le 0) in A. apply IZR_le in B.
  split.
  - apply Rmult_le_pos; [lra|]. apply Rlt_le, Rinv_0_lt_compat. lra.
  - apply (Rmult_le_reg_r (IZR (n - 1))); [lra|]. unfold Rdiv. rewrite Rmult_assoc, Rinv_l by lra. lra.
Qed.

Lemma uni_first a b n : (2 <= n)%Z -> uniR a b n 0 = a.
Proof. intros Hn. pose proof (IZR_n1_pos n Hn). unR. field. lra. Qed.
Lemma uni_last a b n : (2 <= n)%Z -> uniR a b n (n - 1) = b.
Proof. intros Hn. pose proof (IZR_n1_pos n Hn). unR. field. lra. Qed.
Lemma uni_in_box a b n i : a < b -> (2 <= n)%Z -> (0 <= i <= n - 1)%Z -> a <= uniR a b n i <= b.
Proof.
  intros Hab Hn Hi. pose proof (frac_range n i Hn Hi) as F. unR.
  set (t := IZR i / IZR (n - 1)) in *. nra.
Qed.

Lemma cheb_first a b n : (2 <= n)%Z -> chebR a b n 0 = b.
Proof.
  intros Hn. pose proof (IZR_n1_pos n Hn). unR.
  replace (PI * 0 / IZR (n - 1)) with 0 by (field; lra). rewrite cos_0. field.
Qed.
Lemma cheb_last a b n : (2 <= n)%Z -> chebR a b n (n - 1) = a.
Proof.
  intros Hn. pose proof (IZR_n1_pos n Hn). unR.
  replace (PI * IZR (n - 1) / IZR (n - 1)) with PI by (field; lra). rewrite cos_PI. field.
Qed.
Lemma cheb_in_box a b n i : a < b -> a <= chebR a b n i <= b.
Proof.
  intros Hab. unR. pose proof (COS_bound (PI * IZR i / IZR (n - 1))) as [A B].
  set (c := cos _) in *. nra.
Qed.

(* the angle of the i-th Chebyshev node lies in [0, PI] *)
Lemma cheb_angle n i : (2 <= n)%Z -> (0 <= i <= n - 1)%Z -> 0 <= PI * IZR i / IZR (n - 1) <= PI.
Proof.
  intros Hn Hi. pose proof (frac_range n i Hn Hi) as F. pose proof PI_RGT_0 as P.
  replace (PI * IZR i / IZR (n - 1)) with (PI * (IZR i / IZR (n - 1))) by (unfold Rdiv; ring).
  set (t := IZR i / IZR (n - 1)) in *. nra.
Qed.

(* ---------------------------------------------------------------- the round trip *)
(* the value handed to np.rint is exactly the index *)
Lemma param_node_uni a b n i : a < b -> (2 <= n)%Z -> (0 <= i <= n - 1)%Z ->
  paramR KUni n (scaleR KUni a b (nodeR KUni a b n i)) = IZR i.
Proof.
  intros Hab Hn Hi. pose proof (IZR_n1_pos n Hn) as P. pose proof (frac_range n i Hn Hi) as F.
  change (scaleR KUni a b (nodeR KUni a b n i)) with (clipR 0 1 ((uniR a b n i - a) / (b - a))).
  assert (E : (uniR a b n i - a) / (b - a) = IZR i / IZR (n - 1)) by (unR; field; lra).
  rewrite E, clip_inside by exact F. unR. field. lra.
Qed.
Lemma param_node_cheb a b n i : a < b -> (2 <= n)%Z -> (0 <= i <= n - 1)%Z ->
  paramR KCheb n (scaleR KCheb a b (nodeR KCheb a b n i)) = IZR i.
Proof.
  intros Hab Hn Hi. pose proof (IZR_n1_pos n Hn) as P. pose proof PI_RGT_0 as Ppi.
  change (scaleR KCheb a b (nodeR KCheb a b n i))
    with (clipR (0 - 1) 1 ((chebR a b n i - (b + a) / (1 + 1)) * ((1 + 1) / (b - a)))).
  assert (E : (chebR a b n i - (b + a) / (1 + 1)) * ((1 + 1) / (b - a)) = cos (PI * IZR i / IZR (n - 1)))
    by (unR; field; lra).
  rewrite E. rewrite clip_inside by (pose proof (COS_bound (PI * IZR i / IZR (n - 1))); lra).
  change (paramR KCheb n ?x) with (acos x / PI * IZR (n - 1)).
  rewrite acos_cos by (apply cheb_angle; assumption). field. lra.
Qed.
Lemma param_node kd a b n i : kd = KUni \/ kd = KCheb -> a < b -> (2 <= n)%Z -> (0 <= i <= n - 1)%Z ->
  paramR kd n (scaleR kd a b (nodeR kd a b n i)) = IZR i.
Proof. intros [-> | ->]; [apply param_node_uni | apply param_node_cheb]. Qed.

(* poi_to_ind (ind_to_poi i) = i, every box, every n >= 2, every index; both kinds *)
Lemma roundtrip kd a b n i : kd = KUni \/ kd = KCheb -> a < b -> (2 <= n)%Z -> (0 <= i <= n - 1)%Z ->
  p2iR kd a b n (nodeR kd a b n i) = i.
Proof.
  intros Hk Hab Hn Hi.
  change (p2iR kd a b n (nodeR kd a b n i))
    with (clampI n (rintR (paramR kd n (scaleR kd a b (nodeR kd a b n i))))).
  rewrite param_node by assumption. rewrite rint_IZR. now apply clampI_inside.
Qed.
(* the margin: the pre-rounding value is exactly i, and every perturbation of it smaller than 1/2 in absolute
   value still gives i (so an evaluation whose total error in the grid parameter is < 1/2 round-trips) *)
Lemma roundtrip_margin kd a b n i e : kd = KUni \/ kd = KCheb -> a < b -> (2 <= n)%Z -> (0 <= i <= n - 1)%Z ->
  Rabs e < 1/2 ->
  clampI n (rintR (paramR kd n (scaleR kd a b (nodeR kd a b n i)) + e)) = i.
Proof.
  intros Hk Hab Hn Hi He. rewrite param_node by assumption.
  rewrite (rint_margin _ i) by (replace (IZR i + e - IZR i) with e by ring; exact He).
  now apply clampI_inside.
Qed.

(* ---------------------------------------------------------------- every point goes to a nearest node *)
Lemma scale_uni_range a b x : 0 <= scaleR KUni a b x <= 1.
Proof. change (scaleR KUni a b x) with (clipR 0 1 ((x - a) / (b - a))). apply clip_range. lra. Qed.
Lemma scale_cheb_range a b x : -1 <= scaleR KCheb a b x <= 1.
Proof.
  change (scaleR KCheb a b x) with (clipR (0 - 1) 1 ((x - (b + a) / (1 + 1)) * ((1 + 1) / (b - a)))).
  pose proof (clip_range (0 - 1) 1 ((x - (b + a) / (1 + 1)) * ((1 + 1) / (b - a)))). lra.
Qed.
Lemma param_range kd a b n x : kd = KUni \/ kd = KCheb -> (2 <= n)%Z ->
  0 <= paramR kd n (scaleR kd a b x) <= IZR (n - 1).
Proof.
  intros [-> | ->] Hn; pose proof (IZR_n1_pos n Hn) as P.
  - pose proof (scale_uni_range a b x) as S. change (paramR KUni n ?y) with (y * IZR (n - 1)).
    set (s := scaleR KUni a b x) in *. nra.
  - change (paramR KCheb n ?y) with (acos y / PI * IZR (n - 1)).
    pose proof (acos_bound (scaleR KCheb a b x)) as B. pose proof PI_RGT_0 as Ppi.
    set (s := acos _) in *.
    assert (F : 0 <= s / PI <= 1).
    { split.
      - apply Rmult_le_pos; [lra|]. apply Rlt_le, Rinv_0_lt_compat. lra.
      - apply (Rmult_le_reg_r PI); [lra|]. unfold Rdiv. rewrite Rmult_assoc, Rinv_l by lra. lra. }
    set (u := s / PI) in *. nra.
Qed.

Lemma nearest_node kd a b n x : kd = KUni \/ kd = KCheb -> (2 <= n)%Z ->
  let t := paramR kd n (scaleR kd a b x) in
  let I := p2iR kd a b n x in
  (0 <= I <= n - 1)%Z /\ 0 <= t <= IZR (n - 1) /\
  Rabs (t - IZR I) <= 1/2 /\ (Rabs (t - IZR I) = 1/2 -> Z.even I = true) /\
  (forall j : Z, Rabs (t - IZR I) <= Rabs (t - IZR j)).
Proof.
  intros Hk Hn t I. pose proof (param_range kd a b n x Hk Hn) as Rg. fold t in Rg.
  assert (EI : I = rintR t).
  { unfold I. change (p2iR kd a b n x) with (clampI n (rintR t)). apply clampI_inside.
    apply rint_range. simpl. lra. }
  rewrite EI. destruct (rint_spec t) as [S Ev].
  split; [apply rint_range; simpl; lra|]. split; [exact Rg|]. split; [exact S|]. split; [exact Ev|].
  intros j. apply rint_nearest.
Qed.

(* points outside the box (and the box ends themselves) go to the boundary index *)
Lemma index_at_0 n : (2 <= n)%Z -> indexR KUni n 0 = 0%Z.
Proof.
  intros Hn. change (indexR KUni n 0) with (clampI n (rintR (0 * IZR (n - 1)))).
  rewrite Rmult_0_l. rewrite (rint_IZR 0). apply clampI_inside. lia.
Qed.
Lemma index_at_1 n : (2 <= n)%Z -> indexR KUni n 1 = (n - 1)%Z.
Proof.
  intros Hn. change (indexR KUni n 1) with (clampI n (rintR (1 * IZR (n - 1)))).
  rewrite Rmult_1_l. rewrite rint_IZR. apply clampI_inside. lia.
Qed.
Lemma outside_uni_low a b n x : a < b -> (2 <= n)%Z -> x <= a -> p2iR KUni a b n x = 0%Z.
Proof.
  intros Hab Hn Hx. change (p2iR KUni a b n x) with (indexR KUni n (clipR 0 1 ((x - a) / (b - a)))).
  rewrite clip_below; [now apply index_at_0|lra|].
  apply (Rmult_le_reg_r (b - a)); [lra|]. unfold Rdiv. rewrite Rmult_assoc, Rinv_l by lra. lra.
Qed.
Lemma outside_uni_high a b n x : a < b -> (2 <= n)%Z -> b <= x -> p2iR KUni a b n x = (n - 1)%Z.
Proof.
  intros Hab Hn Hx. change (p2iR KUni a b n x) with (indexR KUni n (clipR 0 1 ((x - a) / (b - a)))).
  rewrite clip_above; [now apply index_at_1|lra|].
  apply (Rmult_le_reg_r (b - a)); [lra|]. unfold Rdiv. rewrite Rmult_assoc, Rinv_l by lra. lra.
Qed.
Lemma outside_cheb_low a b n x : a < b -> (2 <= n)%Z -> x <= a -> p2iR KCheb a b n x = (n - 1)%Z.
Proof.
  intros Hab Hn Hx. pose proof (IZR_n1_pos n Hn) as P. pose proof PI_RGT_0 as Ppi.
  change (p2iR KCheb a b n x)
    with (clampI n (rintR (acos (clipR (0 - 1) 1 ((x - (b + a) / (1 + 1)) * ((1 + 1) / (b - a)))) / PI * IZR (n - 1)))).
  rewrite clip_below; [|lra|].
  - replace (0 - 1) with (- (1)) by ring. rewrite acos_opp, acos_1.
    replace ((PI - 0) / PI * IZR (n - 1)) with (IZR (n - 1)) by (field; lra).
    rewrite rint_IZR. apply clampI_inside. lia.
  - assert (E : (x - (b + a) / (1 + 1)) * ((1 + 1) / (b - a)) = (0 - 1) + (x - a) * (2 / (b - a))) by (field; lra).
    rewrite E. assert (0 < 2 / (b - a)) by (apply Rdiv_lt_0_compat; lra). nra.
Qed.
Lemma outside_cheb_high a b n x : a < b -> (2 <= n)%Z -> b <= x -> p2iR KCheb a b n x = 0%Z.
Proof.
  intros Hab Hn Hx. pose proof (IZR_n1_pos n Hn) as P. pose proof PI_RGT_0 as Ppi.
  change (p2iR KCheb a b n x)
    with (clampI n (rintR (acos (clipR (0 - 1) 1 ((x - (b + a) / (1 + 1)) * ((1 + 1) / (b - a)))) / PI * IZR (n - 1)))).
  rewrite clip_above; [|lra|].
  - rewrite acos_1. replace (0 / PI * IZR (n - 1)) with 0 by (field; lra).
    rewrite (rint_IZR 0). apply clampI_inside. lia.
  - assert (E : (x - (b + a) / (1 + 1)) * ((1 + 1) / (b - a)) = 1 + (x - b) * (2 / (b - a))) by (field; lra).
    rewrite E. assert (0 < 2 / (b - a)) by (apply Rdiv_lt_0_compat; lra). nra.
Qed.

(* for the uniform grid, "nearest in the grid parameter" is nearest in space: no node is closer to a point of
   the box than the node of the returned index *)
Lemma nearest_node_uni_space a b n x j : a < b -> (2 <= n)%Z -> a <= x <= b ->
  Rabs (x - nodeR KUni a b n (p2iR KUni a b n x)) <= Rabs (x - nodeR KUni a b n j).
Proof.
  intros Hab Hn Hx. pose proof (IZR_n1_pos n Hn) as P.
  destruct (nearest_node KUni a b n x (or_introl eq_refl) Hn) as (_ & _ & _ & _ & Near).
  specialize (Near j). cbv zeta in Near.
  set (I := p2iR KUni a b n x) in *.
  assert (Et : paramR KUni n (scaleR KUni a b x) = (x - a) / (b - a) * IZR (n - 1)).
  { change (paramR KUni n (scaleR KUni a b x)) with (clipR 0 1 ((x - a) / (b - a)) * IZR (n - 1)).
    rewrite clip_inside; [reflexivity|].
    split.
    - apply Rmult_le_pos; [lra|]. apply Rlt_le, Rinv_0_lt_compat. lra.
    - apply (Rmult_le_reg_r (b - a)); [lra|]. unfold Rdiv. rewrite Rmult_assoc, Rinv_l by lra. lra. }
  rewrite Et in Near.
  assert (Ex : forall k, x - nodeR KUni a b n k = ((x - a) / (b - a) * IZR (n - 1) - IZR k) * ((b - a) / IZR (n - 1))).
  { intros k. unR. field. lra. }
  rewrite (Ex I), (Ex j). rewrite !Rabs_mult.
  apply Rmult_le_compat_r; [apply Rabs_pos|exact Near].
Qed.

(* ---------------------------------------------------------------- the three scalings *)
Lemma scale_uni_affine a b x : scaleR KUni a b x = Rmax 0 (Rmin 1 ((x - a) / (b - a))).
Proof. change (scaleR KUni a b x) with (clipR 0 1 ((x - a) / (b - a))). apply clip_spec. lra. Qed.
Lemma scale_cheb_affine a b x : a < b -> scaleR KCheb a b x = Rmax (-1) (Rmin 1 ((2 * x - a - b) / (b - a))).
Proof.
  intros Hab.
  change (scaleR KCheb a b x) with (clipR (0 - 1) 1 ((x - (b + a) / (1 + 1)) * ((1 + 1) / (b - a)))).
  rewrite clip_spec by lra. replace (0 - 1) with (-1) by ring.
  replace ((x - (b + a) / (1 + 1)) * ((1 + 1) / (b - a))) with ((2 * x - a - b) / (b - a)) by (field; lra).
  reflexivity.
Qed.
Lemma scale_lim_affine an bn a b x : a < b -> an <= bn ->
  scaleR (KLim an bn) a b x = Rmax an (Rmin bn (an + (x - a) * ((bn - an) / (b - a)))).
Proof.
  intros Hab Hn.
  change (scaleR (KLim an bn) a b x) with (clipR an bn ((x * (an - bn) + a * bn - b * an) / (a - b))).
  rewrite clip_spec by lra.
  replace ((x * (an - bn) + a * bn - b * an) / (a - b)) with (an + (x - a) * ((bn - an) / (b - a))) by (field; lra).
  reflexivity.
Qed.
(* inside the box nothing is clipped, the ends of the box go to the ends of the target interval *)
Lemma scale_inside kd a b x lo hi : a < b -> a <= x <= b ->
  (kd = KUni /\ lo = 0 /\ hi = 1) \/ (kd = KCheb /\ lo = -1 /\ hi = 1) \/ (kd = KLim lo hi /\ lo <= hi) ->
  scaleR kd a b x = lo + (x - a) * ((hi - lo) / (b - a)) /\ lo <= scaleR kd a b x <= hi.
Proof.
  intros Hab Hx Hk.
  assert (F : 0 <= (x - a) / (b - a) <= 1).
  { split.
    - apply Rmult_le_pos; [lra|]. apply Rlt_le, Rinv_0_lt_compat. lra.
    - apply (Rmult_le_reg_r (b - a)); [lra|]. unfold Rdiv. rewrite Rmult_assoc, Rinv_l by lra. lra. }
  assert (G : forall l h, l <= h -> l <= l + (x - a) * ((h - l) / (b - a)) <= h).
  { intros l h Hlh. replace (l + (x - a) * ((h - l) / (b - a))) with (l + (x - a) / (b - a) * (h - l)) by (field; lra).
    set (t := (x - a) / (b - a)) in *. nra. }
  destruct Hk as [(-> & -> & ->) | [(-> & -> & ->) | (-> & Hl)]].
  - specialize (G 0 1 ltac:(lra)).
    change (scaleR KUni a b x) with (clipR 0 1 ((x - a) / (b - a))).
    replace ((x - a) / (b - a)) with (0 + (x - a) * ((1 - 0) / (b - a))) by (field; lra).
    rewrite clip_inside by lra. lra.
  - specialize (G (-1) 1 ltac:(lra)).
    change (scaleR KCheb a b x) with (clipR (0 - 1) 1 ((x - (b + a) / (1 + 1)) * ((1 + 1) / (b - a)))).
    replace ((x - (b + a) / (1 + 1)) * ((1 + 1) / (b - a))) with (-1 + (x - a) * ((1 - -1) / (b - a))) by (field; lra).
    rewrite clip_inside by lra. lra.
  - specialize (G lo hi Hl).
    change (scaleR (KLim lo hi) a b x) with (clipR lo hi ((x * (lo - hi) + a * hi - b * lo) / (a - b))).
    replace ((x * (lo - hi) + a * hi - b * lo) / (a - b)) with (lo + (x - a) * ((hi - lo) / (b - a))) by (field; lra).
    rewrite clip_inside by lra. lra.
Qed.
