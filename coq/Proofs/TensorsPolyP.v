(* Lemmas about Model/Tensors.v, part 3: poly. *)
From Coq Require Import List Arith Lia PeanoNat ZArith Bool Ring.
From TV Require Import Num.Ops Lin.Tab Lin.BigSum TT.Chain Model.Tensors Proofs.TensorsP.
Import ListNotations.

Lemma inb_cons_inv n ns idx : inb (n :: ns) idx -> exists i idx', idx = i :: idx' /\ i < n /\ inb ns idx'.
Proof. intros H. inversion H; subst. eauto. Qed.

Section TensorsPolyP.
Context {T : Type} (K : ops T).
Notation "0" := (o0 K). Notation "1" := (o1 K).
Infix "+" := (oadd K). Infix "*" := (omul K). Infix "-" := (osub K).
Hypothesis Rth : rng K.
Add Ring RrTensorsPolyP : Rth.

Lemma vstep2_mk (x y : T) n r2 f i : i < n ->
  vstep K [x; y] (mkcore 2 n r2 f) i = tab r2 (fun b => (0 + x * f O i b) + y * f 1%nat i b).
Proof.
  intros Hi. unfold vstep. rewrite cr1_mk, cr2_mk. apply tab_ext; intros b Hb. cbn [bsum nth].
  rewrite !cget_mk by lia. reflexivity.
Qed.
Lemma vstep1_mk (x : T) n r2 f i : i < n ->
  vstep K [x] (mkcore 1 n r2 f) i = tab r2 (fun b => 0 + x * f O i b).
Proof.
  intros Hi. unfold vstep. rewrite cr1_mk, cr2_mk. apply tab_ext; intros b Hb. cbn [bsum nth].
  rewrite !cget_mk by lia. reflexivity.
Qed.

Variable sh : list T.
Variable power : nat.
Variable scale : T.
Variable d : nat.
(* _get(m, k) = (m + shift[k]) ** power *)
Definition pterm (k m : nat) : T := tpow K (ofnat K m + nth k sh 0) power.

(* the cores after the first one: entered with the row vector [1, S] *)
Lemma poly_tail ns : forall j acc idx, (1 <= j)%nat -> ns <> [] -> (j + length ns = d)%nat -> inb ns idx ->
  d <= length sh ->
  exists Y, poly_loop K d j ns sh power scale = Ok Y /\ wfo 2 Y idx 1 /\
    run K [1; acc] Y idx = [(acc + bsum K (length ns) (fun t => pterm (j + t)%nat (nth t idx O))) * scale].
Proof.
  induction ns as [|n ns IH]; intros j acc idx Hj Hne Hd HI Hsh; [congruence|].
  apply inb_cons_inv in HI as (i & idx' & -> & Hi & HI'). cbn [poly_loop length] in *.
  destruct (Nat.eqb_spec n O); [lia|]. rewrite (lget_nth sh j 0) by lia. cbn [rbind].
  destruct ns as [|n' ns'].
  - (* last core *)
    assert (idx' = []) by (inversion HI'; auto). subst idx'.
    cbn [poly_loop rbind]. eexists; split; [reflexivity|].
    unfold poly_core. cbv zeta. simpl in Hd.
    destruct (Nat.eqb_spec j O); [lia|]. destruct (Nat.eqb_spec j (d - 1)%nat); [|lia].
    split; [cbn [wfo cr1 cn cr2 mkcore]; auto|].
    cbn [run]. rewrite vstep2_mk by lia. cbn [tab map seq Nat.eqb length bsum nth].
    rewrite Nat.add_0_r. unfold pterm. f_equal. ring.
  - (* middle core *)
    destruct (IH (S j) (acc + pterm j i) idx') as (Y & E & HW & HR); auto; try discriminate; try (simpl in *; lia).
    rewrite E. cbn [rbind]. eexists; split; [reflexivity|].
    unfold poly_core. cbv zeta. simpl in Hd.
    destruct (Nat.eqb_spec j O); [lia|]. destruct (Nat.eqb_spec j (d - 1)%nat); [lia|].
    destruct (Nat.ltb_spec O j); [|lia]. destruct (Nat.ltb_spec j (d - 1)%nat); [|lia]. cbn [andb].
    split; [cbn [wfo cr1 cn cr2 mkcore]; repeat split; auto|].
    cbn [run].
    replace (vstep K [1; acc] _ i) with [1; acc + pterm j i].
    + rewrite HR. f_equal. cbn [length]. rewrite (bsum_S_l K Rth (S (length ns'))). rewrite Nat.add_0_r. cbn [nth].
      rewrite (bsum_ext K _ (fun t => pterm (j + S t)%nat (nth t idx' O)) (fun t => pterm (S j + t)%nat (nth t idx' O))).
      * ring.
      * intros t _. f_equal. lia.
    + rewrite vstep2_mk by lia. cbn [tab map seq Nat.eqb]. unfold pterm. f_equal; [ring|f_equal; ring].
Qed.
End TensorsPolyP.

Section TensorsPolyTop.
Context {T : Type} (K : ops T).
Notation "0" := (o0 K). Notation "1" := (o1 K).
Infix "+" := (oadd K). Infix "*" := (omul K). Infix "-" := (osub K).
Hypothesis Rth : rng K.
Add Ring RrTensorsPolyTop : Rth.

Lemma poly_loop_denote ns sh power scale idx : (2 <= length ns)%nat -> length ns <= length sh -> inb ns idx ->
  exists Y, poly_loop K (length ns) O ns sh power scale = Ok Y /\ wf 1 Y idx /\
    get K Y idx = scale * bsum K (length ns) (fun k => tpow K (ofnat K (nth k idx O) + nth k sh 0) power).
Proof.
  intros Hd Hsh HI. destruct ns as [|n ns]; [simpl in Hd; lia|].
  apply inb_cons_inv in HI as (i & idx' & -> & Hi & HI').
  set (d := length (n :: ns)) in *.
  assert (Hne : ns <> []) by (destruct ns; [unfold d in Hd; simpl in Hd; lia|discriminate]).
  destruct (poly_tail K Rth sh power scale d ns 1%nat (pterm K sh power O i) idx') as (Y & E & HW & HR); auto;
    try (unfold d; simpl; lia).
  cbn [poly_loop]. destruct (Nat.eqb_spec n O); [lia|]. rewrite (lget_nth sh O 0) by (unfold d in *; simpl in *; lia).
  cbn [rbind]. rewrite E. cbn [rbind]. eexists; split; [reflexivity|].
  unfold poly_core. cbv zeta.
  destruct (Nat.eqb_spec O (d - 1)%nat); [unfold d in *; simpl in *; lia|]. cbn [Nat.eqb Nat.ltb Nat.leb andb].
  split.
  - apply wf_wfo. cbn [wfo cr1 cn cr2 mkcore]. repeat split; auto.
  - unfold get. cbn [run].
    replace (vstep K [1] _ i) with [1; pterm K sh power O i].
    + rewrite HR. cbn [nth]. unfold d. cbn [length]. rewrite (bsum_S_l K Rth (length ns)). cbn [nth].
      unfold pterm. cbn [Nat.add]. ring.
    + rewrite (vstep1_mk K) by lia. cbn [tab map seq Nat.eqb]. unfold pterm. f_equal; [ring|f_equal; ring].
Qed.

(* shift[k] after grid_prep_opt *)
Definition shift_at (shift : T + list T) (k : nat) : T :=
  match shift with inl x => x | inr l => nth k l 0 end.
Lemma poly_denote ns shift power scale idx : (2 <= length ns)%nat ->
  (forall l, shift = inr l -> length l = length ns) -> inb ns idx ->
  exists Y, poly K ns shift power scale = Ok Y /\ wf 1 Y idx /\
    get K Y idx = scale * bsum K (length ns) (fun k => tpow K (ofnat K (nth k idx O) + shift_at shift k) power).
Proof.
  intros Hd Hl HI. unfold poly. destruct shift as [x|l]; cbn [prep_opt].
  - destruct (Nat.eqb_spec (length ns) O); [lia|]. cbn [rbind].
    destruct (poly_loop_denote ns (repeat x (length ns)) power scale idx) as (Y & E & HW & HG); auto.
    { now rewrite repeat_length. }
    exists Y. repeat split; auto. rewrite HG. f_equal. apply bsum_ext; auto. intros k Hk. cbn [shift_at].
    do 2 f_equal. clear - Hk. revert k Hk. induction (length ns); intros [|k] Hk; simpl; auto; try lia. apply IHn. lia.
  - cbn [rbind]. destruct (poly_loop_denote ns l power scale idx) as (Y & E & HW & HG); auto.
    { rewrite (Hl l); auto. }
    exists Y. repeat split; auto.
Qed.
End TensorsPolyTop.
