(* C11, part 2: the guarded-primitives layer [OG K] (Model/Wf.v).
   - matrix_svd (the repaired rule) never lets the result of an inadmissible division or square root into its
     factors, for EVERY matrix, threshold and rank cap and every eigh / argsort oracle: the reciprocal is only
     taken of singular values that tested > 0, the square root only of values that did not test < 0;
   - the pinned rule (1/w on every retained singular value) is refuted by the 1 x 2 zero matrix;
   - matrix_skeleton: with rel=True and s[0] = 0 every quotient s/s[0] is poisoned, every threshold test is false,
     no rank is cut, and the factors stay clean;
   - accuracy: the sentinel branch returns exactly -1 without evaluating the division. *)
From Coq Require Import List Arith Lia PeanoNat ZArith Bool QArith Qcanon.
From TV Require Import Num.Ops Lin.Tab Lin.BigSum Lin.Mat TT.Chain Model.ActOne Model.Transformation Model.Svd Model.Stab Model.Wf.
Import ListNotations.
Close Scope Qc_scope. Close Scope Q_scope.

Section GuardP.
Context {T : Type} (K : ops T).
Local Notation G := (OG K).
Local Notation clean := (@clean T).
Local Notation mclean := (mclean K).
Local Notation gd := (@gd T).

Definition poisoned (x : gd) : Prop := snd x = true.

Lemma clean_0 : clean (o0 G). Proof. reflexivity. Qed.
Lemma clean_1 : clean (o1 G). Proof. reflexivity. Qed.
Lemma clean_add x y : clean x -> clean y -> clean (oadd G x y).
Proof. unfold Wf.clean. cbn. now intros -> ->. Qed.
Lemma clean_mul x y : clean x -> clean y -> clean (omul G x y).
Proof. unfold Wf.clean. cbn. now intros -> ->. Qed.
Lemma clean_bsum n f : (forall i, i < n -> clean (f i)) -> clean (bsum G n f).
Proof.
  induction n as [|n IH]; intros H; cbn [bsum]; [apply clean_0|].
  apply clean_add; [apply IH; intros; apply H; lia|apply H; lia].
Qed.
Lemma clean_nth l i : Forall clean l -> clean (nth i l (o0 G)).
Proof.
  intros H. destruct (Nat.lt_ge_cases i (length l)) as [Hi|Hi].
  - apply (proj1 (Forall_nth _ _) H). exact Hi.
  - rewrite nth_overflow by exact Hi. apply clean_0.
Qed.
Lemma mclean_mk m n f : (forall i j, i < m -> j < n -> clean (f i j)) -> mclean (mkmat m n f).
Proof.
  intros H i j. unfold mget, mkmat. cbn [md].
  destruct (Nat.lt_ge_cases i m) as [Hi|Hi].
  - rewrite nth_tab by exact Hi. destruct (Nat.lt_ge_cases j n) as [Hj|Hj].
    + rewrite nth_tab by exact Hj. now apply H.
    + rewrite nth_overflow by (rewrite tab_length; exact Hj). apply clean_0.
  - rewrite (nth_overflow _ []) by (rewrite tab_length; exact Hi). destruct j; apply clean_0.
Qed.
Lemma mclean_mmul A B : mclean A -> mclean B -> mclean (mmul G A B).
Proof. intros HA HB. apply mclean_mk. intros i j _ _. apply clean_bsum. intros k _. apply clean_mul; auto. Qed.
Lemma mclean_mtrans A : mclean A -> mclean (mtrans G A).
Proof. intros HA. apply mclean_mk. intros; apply HA. Qed.
Lemma mclean_mtakec A q : mclean A -> mclean (mtakec G A q).
Proof. intros HA. apply mclean_mk. intros; apply HA. Qed.
Lemma mclean_mtaker A q : mclean A -> mclean (mtaker G A q).
Proof. intros HA. apply mclean_mk. intros; apply HA. Qed.
Lemma mclean_mcols A J : mclean A -> mclean (mcols G A J).
Proof. intros HA. apply mclean_mk. intros; apply HA. Qed.
Lemma mclean_diagl w : Forall clean w -> mclean (diagl G w).
Proof. intros H. apply mclean_mk. intros i j _ _. destruct (Nat.eqb i j); [now apply clean_nth|apply clean_0]. Qed.
Lemma Forall_firstn {A} (P : A -> Prop) q (l : list A) : Forall P l -> Forall P (firstn q l).
Proof. revert q; induction l as [|x l IH]; intros [|q] H; cbn; auto. inversion H; subst. constructor; auto. Qed.
Lemma Forall_map' {A B} (P : B -> Prop) (f : A -> B) (l : list A) : (forall x, In x l -> P (f x)) -> Forall P (map f l).
Proof. intros H. apply Forall_forall. intros y Hy. apply in_map_iff in Hy as (x & <- & Hx). auto. Qed.
Lemma mclean_embed (A : mat T) : mclean (mat_map embed A).
Proof.
  intros i j. unfold mget, mat_map. cbn [md].
  destruct (Nat.lt_ge_cases i (length (md A))) as [Hi|Hi].
  - rewrite (nth_indep _ [] (map embed [])) by (now rewrite map_length). rewrite map_nth.
    destruct (Nat.lt_ge_cases j (length (nth i (md A) []))) as [Hj|Hj].
    + rewrite (nth_indep _ (o0 G) (embed (o0 K))) by (now rewrite map_length). now rewrite map_nth.
    + rewrite nth_overflow by (now rewrite map_length). apply clean_0.
  - rewrite (nth_overflow _ []) by (now rewrite map_length). destruct j; apply clean_0.
Qed.
Lemma Forall_clean_embed (l : list T) : Forall clean (map embed l).
Proof. apply Forall_map'. reflexivity. Qed.

(* ---------------- matrix_svd ---------------- *)
Section MatrixSvd.
(* the two order facts the guards rely on *)
Hypothesis L_pos_ne : forall x, oltb K (o0 K) x = true -> oeqb K x (o0 K) = false.
Hypothesis L_lt00 : oltb K (o0 K) (o0 K) = false.
Variable eighG : nat -> mat gd -> list gd * mat gd.
Variable argsortG : nat -> list gd -> list nat.
(* the oracle does not invent poison: clean symmetric matrix in, clean spectrum out *)
Hypothesis eigh_clean : forall k C, mclean C -> Forall clean (fst (eighG k C)) /\ mclean (snd (eighG k C)).

Lemma clean_sqrt_guard x : clean x -> clean (osqrt G (if oltb G x (o0 G) then o0 G else x)).
Proof.
  intros Hx. unfold Wf.clean in Hx |- *. cbn [oltb osqrt OG o0]. unfold gcmp, gsqrt. cbn [fst snd]. rewrite Hx. cbn [orb].
  destruct (oltb K (fst x) (o0 K)) eqn:E; cbn [fst snd orb]; rewrite ?E, ?L_lt00, ?Hx; reflexivity.
Qed.
Lemma clean_recip_guard x : clean x -> clean (if oltb G (o0 G) x then odiv G (o1 G) x else o0 G).
Proof.
  intros Hx. unfold Wf.clean in Hx |- *. cbn [oltb odiv OG o0 o1]. unfold gcmp, gdiv. cbn [fst snd]. rewrite Hx. cbn [orb].
  destruct (oltb K (o0 K) (fst x)) eqn:E; cbn [fst snd orb]; [|reflexivity]. now apply L_pos_ne.
Qed.

Theorem matrix_svd_clean k A e rcap : mclean A ->
  mclean (fst (matrix_svd G eighG argsortG k A e rcap)) /\ mclean (snd (matrix_svd G eighG argsortG k A e rcap)).
Proof.
  intros HA. unfold matrix_svd.
  set (C := if mr A <=? mc A then mmul G A (mtrans G A) else mmul G (mtrans G A) A).
  assert (HC : mclean C) by (subst C; destruct (mr A <=? mc A); apply mclean_mmul; auto using mclean_mtrans).
  destruct (eigh_clean k C HC) as [Hw HU]. destruct (eighG k C) as [w0 U0]. cbn [fst snd] in Hw, HU.
  set (w1 := map (fun x => osqrt G (if oltb G x (o0 G) then o0 G else x)) w0).
  assert (Hw1 : Forall clean w1).
  { subst w1. apply Forall_map'. intros x Hx. apply clean_sqrt_guard. exact (proj1 (Forall_forall _ _) Hw x Hx). }
  set (idx := rev (argsortG k w1)).
  set (w := map (fun i => nth i w1 (o0 G)) idx).
  assert (Hww : Forall clean w) by (subst w; apply Forall_map'; intros; now apply clean_nth).
  set (q := rank_select G _ _ _).
  assert (Hwq : Forall clean (firstn q w)) by now apply Forall_firstn.
  assert (HUq : mclean (mtakec G (mcols G U0 idx) q)) by (apply mclean_mtakec, mclean_mcols, HU).
  destruct (mr A <=? mc A); cbn [fst snd].
  - split.
    + apply mclean_mk. intros i j _ _. apply clean_mul; [apply HUq|now apply clean_nth].
    + apply mclean_mmul; [|exact HA]. apply mclean_mk. intros i j _ _. apply clean_mul; [|apply mclean_mtrans, HUq].
      apply clean_nth. apply Forall_map'. intros x Hx. apply clean_recip_guard.
      exact (proj1 (Forall_forall _ _) Hwq x Hx).
  - split; [apply mclean_mmul; auto|apply mclean_mtrans; auto].
Qed.
End MatrixSvd.

(* the statement for plain oracles: whatever eigh and argsort compute from the values, no inadmissible operation
   contributes to the factors returned for ANY matrix A (zero, rank deficient, 1 x n, ...) *)
Theorem matrix_svd_no_zero_div (eigh : nat -> mat T -> list T * mat T) (argsort : nat -> list T -> list nat) :
  (forall x, oltb K (o0 K) x = true -> oeqb K x (o0 K) = false) -> oltb K (o0 K) (o0 K) = false ->
  forall k (A : mat T) e rcap,
  let UV := matrix_svd G (lift_eigh eigh) (lift_argsort argsort) k (mat_map embed A) e rcap in
  mclean (fst UV) /\ mclean (snd UV).
Proof.
  intros L1 L2 k A e rcap. apply matrix_svd_clean; auto.
  - intros k' C _. unfold lift_eigh. cbn [fst snd]. split; [apply Forall_clean_embed|apply mclean_embed].
  - apply mclean_embed.
Qed.

(* ---------------- matrix_skeleton ---------------- *)
Section Skeleton.
Hypothesis L_eq00 : oeqb K (o0 K) (o0 K) = true.
Hypothesis L_lt00 : oltb K (o0 K) (o0 K) = false.

Lemma cumsum_from_poisoned l : forall acc, Forall poisoned l -> Forall poisoned (cumsum_from G acc l).
Proof.
  induction l as [|x l IH]; intros acc H; cbn [cumsum_from]; [constructor|]. inversion H; subst.
  constructor; [|now apply IH]. unfold poisoned in H2 |- *. cbn [oadd OG]. unfold g2. cbn [snd]. rewrite H2. apply orb_true_r.
Qed.
Lemma last_le_poisoned cs e2 : forall pos best, Forall poisoned cs -> last_le G cs e2 pos best = best.
Proof.
  induction cs as [|x cs IH]; intros pos best H; cbn [last_le]; [reflexivity|]. inversion H; subst.
  rewrite IH by assumption. unfold poisoned in H2. cbn [oleb OG]. unfold gcmp. now rewrite H2.
Qed.
(* every singular value is 0: s / s[0] is 0/0 everywhere, nothing passes the threshold test *)
Lemma dlen_rel_zero s e2 : Forall (fun x => x = o0 G) s ->
  dlen G (map (fun x => omul G x x) (map (fun x => odiv G x (nth O s (o0 G))) s)) e2 = O.
Proof.
  intros Hs. unfold dlen, cumsum. apply last_le_poisoned. apply cumsum_from_poisoned. apply Forall_rev.
  assert (H0 : nth 0 s (o0 G) = o0 G).
  { destruct s as [|x s]; [reflexivity|]. inversion Hs; subst. reflexivity. }
  rewrite H0. apply Forall_map'. intros y Hy. apply in_map_iff in Hy as (x & <- & Hx).
  unfold poisoned. cbn [omul odiv OG o0]. unfold g2, gdiv. cbn [fst snd]. rewrite L_eq00. now rewrite !orb_true_r.
Qed.
Theorem skeleton_rel_zero_rank s e2 rcap : Forall (fun x => x = o0 G) s ->
  rank_select G (map (fun x => omul G x x) (map (fun x => odiv G x (nth O s (o0 G))) s)) e2 rcap =
  Z.to_nat (Z.max 1 (Z.min rcap (Z.of_nat (length s)))).
Proof. intros Hs. unfold rank_select. rewrite dlen_rel_zero by exact Hs. rewrite !map_length. f_equal. lia. Qed.

(* the factors of matrix_skeleton are built from U, s, V only: the quotients of rel=True never reach them *)
Variable svdG : nat -> mat gd -> mat gd * list gd * mat gd.
Theorem skeleton_clean k A e rcap rel g :
  let '(U, s, V) := svdG k A in
  mclean U -> mclean V -> Forall (fun x => clean x /\ oltb K (fst x) (o0 K) = false) s ->
  mclean (fst (matrix_skeleton G svdG k A e rcap rel g)) /\ mclean (snd (matrix_skeleton G svdG k A e rcap rel g)).
Proof.
  unfold matrix_skeleton. destruct (svdG k A) as [[U s] V]. intros HU HV Hs.
  set (q := rank_select G _ _ _).
  assert (Hc : Forall clean (firstn q s)).
  { apply Forall_firstn. eapply Forall_impl; [|exact Hs]. now intros x [H _]. }
  assert (Hq : Forall clean (map (osqrt G) (firstn q s))).
  { apply Forall_map'. intros x Hx. apply (Forall_firstn _ q) in Hs.
    destruct (proj1 (Forall_forall _ _) Hs x Hx) as [c1 c2]. unfold Wf.clean in *. cbn. now rewrite c1, c2. }
  destruct g; cbn [fst snd]; split;
    auto using mclean_mmul, mclean_mtakec, mclean_mtaker, mclean_diagl.
Qed.
End Skeleton.

(* ---------------- accuracy: the sentinel ---------------- *)
Lemma clean_sentinel : oopp G (o1 G) = (oopp K (o1 K), false).
Proof. reflexivity. Qed.
Lemma unguarded_poisoned c z1 : oeqb K (o0 K) (o0 K) = true -> poisoned (accuracy_unguarded G c z1 (o0 G)).
Proof. intros E. unfold poisoned, accuracy_unguarded. cbn. rewrite E. now rewrite !orb_true_r. Qed.
End GuardP.

(* accuracy_of since commit 0f9009d:  if z1 == 0 and |z2| >= tiny then 0 else accuracy_tail (the former body).
   Any carrier (in particular OG K and the float instance): whatever the inputs, the result is 0, the saturation value,
   the sentinel -1, or the quotient - and the quotient is only formed when every sentinel test, in particular
   |z2| < tiny, came out false. *)
Theorem accuracy_cases {T} (K : ops T) (isinf : T -> bool) big tiny z1 h1 z2 h2 :
  let r := accuracy_of K isinf big tiny z1 h1 z2 h2 in
  r = o0 K \/ r = big \/ r = oopp K (o1 K) \/
  (oltb K (oabs K z2) tiny = false /\ isinf z2 = false /\ isinf z1 = false /\ isinf (pow2h K (h1 - h2)) = false /\
   r = odiv K (omul K (pow2h K (h1 - h2)) z1) z2).
Proof.
  cbv zeta. unfold accuracy_of, accuracy_tail.
  destruct (oeqb K z1 (o0 K) && oleb K tiny (oabs K z2)); [now left|].
  destruct (h1 - h2 >? 1000)%Z; [now right; left|]. destruct (h1 - h2 <? -1000)%Z; [now left|].
  destruct (isinf (pow2h K (h1 - h2))) eqn:E1; [now right; right; left|].
  destruct (isinf z1) eqn:E2; [now right; right; left|]. destruct (isinf z2) eqn:E3; [now right; right; left|].
  destruct (oltb K (oabs K z2) tiny) eqn:E4; [now right; right; left|]. cbn [orb]. right; right; right. auto 6.
Qed.
(* if the exponents are within range, the zero-difference shortcut does not apply and one of the four sentinel tests
   fires, the result is exactly -1 *)
Theorem accuracy_sentinel {T} (K : ops T) (isinf : T -> bool) big tiny z1 h1 z2 h2 :
  oeqb K z1 (o0 K) && oleb K tiny (oabs K z2) = false ->
  (-1000 <= h1 - h2 <= 1000)%Z ->
  isinf (pow2h K (h1 - h2)) || isinf z1 || isinf z2 || oltb K (oabs K z2) tiny = true ->
  accuracy_of K isinf big tiny z1 h1 z2 h2 = oopp K (o1 K).
Proof.
  intros Hg Hh Ht. unfold accuracy_of. rewrite Hg. unfold accuracy_tail.
  destruct (Z.gtb_spec (h1 - h2) 1000); [lia|]. destruct (Z.ltb_spec (h1 - h2) (-1000)); [lia|].
  now rewrite Ht.
Qed.
(* the undefined case of the property: a reference norm below the threshold (|z2| < tiny, both readings of the test) *)
Theorem accuracy_tiny_reference {T} (K : ops T) (isinf : T -> bool) big tiny z1 h1 z2 h2 :
  oltb K (oabs K z2) tiny = true -> oleb K tiny (oabs K z2) = false -> (-1000 <= h1 - h2 <= 1000)%Z ->
  accuracy_of K isinf big tiny z1 h1 z2 h2 = oopp K (o1 K).
Proof.
  intros H1 H2 Hh. apply accuracy_sentinel; [now rewrite H2, andb_false_r|exact Hh|]. rewrite H1. now rewrite !orb_true_r.
Qed.
(* at the guarded carrier: a clean zero norm z2 (reference tensor exactly zero) with a clean positive [tiny]
   gives the clean value -1, although the unguarded last line would be poisoned (unguarded_poisoned) *)
Theorem accuracy_zero_reference_clean {T} (K : ops T) (isinf : @gd T -> bool) big tiny z1 h1 h2 :
  (-1000 <= h1 - h2 <= 1000)%Z -> oltb K (oabs K (o0 K)) tiny = true -> oleb K tiny (oabs K (o0 K)) = false ->
  accuracy_of (OG K) isinf big (embed tiny) z1 h1 (o0 (OG K)) h2 = (oopp K (o1 K), false).
Proof.
  intros Hh Ht Hl. rewrite accuracy_tiny_reference; [reflexivity| | |exact Hh].
  - cbn [oltb oabs OG o0]. unfold gcmp, g1, embed. cbn [fst snd orb]. exact Ht.
  - cbn [oleb oabs OG o0]. unfold gcmp, g1, embed. cbn [fst snd orb]. exact Hl.
Qed.

(* ---------------- the finding F3, machine checked: the pinned rule on the 1 x 2 zero matrix ---------------- *)
Definition Z12 : mat Qc := mk_mat 1 2 [[Q2Qc 0; Q2Qc 0]].
Definition eigh0 (k : nat) (C : mat Qc) : list Qc * mat Qc := ([Q2Qc 0], mk_mat 1 1 [[Q2Qc 1]]).
Definition argsort0 (k : nat) (w : list Qc) : list nat := [O].
(* eigh0 is an exact eigendecomposition of Z12 Z12^T = [[0]] and argsort0 sorts its one eigenvalue *)
Lemma eigh0_exact : mmul OQc Z12 (mtrans OQc Z12) = mk_mat 1 1 [[Q2Qc 0]] /\
  mmul OQc (snd (eigh0 O (mk_mat 1 1 [[Q2Qc 0]])))
       (mmul OQc (diagl OQc (fst (eigh0 O (mk_mat 1 1 [[Q2Qc 0]])))) (mtrans OQc (snd (eigh0 O (mk_mat 1 1 [[Q2Qc 0]])))))
  = mk_mat 1 1 [[Q2Qc 0]].
Proof. split; vm_compute; reflexivity. Qed.
Theorem matrix_svd_pinned_refuted :
  let UV := matrix_svd_pinned (OG OQc) (lift_eigh eigh0) (lift_argsort argsort0) O (mat_map embed Z12)
                              (embed (Q2Qc (Qmake 1 100))) 10%Z in
  snd (mget (OG OQc) (snd UV) 0 0) = true /\ snd (mget (OG OQc) (snd UV) 0 1) = true.
Proof. vm_compute. split; reflexivity. Qed.
(* ... while the repaired rule returns the clean zero factors on the same input *)
Example matrix_svd_repaired_on_zero :
  matrix_svd (OG OQc) (lift_eigh eigh0) (lift_argsort argsort0) O (mat_map embed Z12)
             (embed (Q2Qc (Qmake 1 100))) 10%Z
  = (mk_mat 1 1 [[(Q2Qc 0, false)]], mk_mat 1 2 [[(Q2Qc 0, false); (Q2Qc 0, false)]]).
Proof. vm_compute. reflexivity. Qed.

(* the order facts used by the guards, over Qc *)
Lemma laws_Qc :
  (forall x, oltb OQc (o0 OQc) x = true -> oeqb OQc x (o0 OQc) = false) /\
  oltb OQc (o0 OQc) (o0 OQc) = false /\ oeqb OQc (o0 OQc) (o0 OQc) = true.
Proof.
  split; [|split; reflexivity].
  intros x H. cbn [oltb oeqb o0 OQc] in *. unfold Qc_ltb in H. unfold Qc_eqb.
  destruct (Qccompare (Q2Qc 0) x) eqn:E; try discriminate.
  apply not_true_is_false. intros Hb. apply Qeq_bool_eq in Hb.
  unfold Qccompare in E. apply Qlt_alt in E. rewrite Hb in E. exact (Qlt_irrefl _ E).
Qed.

(* ---------------- data.accuracy_on_data: the sentinel for an all-zero reference (repair 8aa69ea) ---------------- *)
From TV Require Model.ActOneR.
(* any carrier: the result is the sentinel, or the quotient - and the quotient is only formed after the test
   y_norm == 0 came out false *)
Theorem accuracy_on_data_cases {T} (K : ops T) Y I y :
  let yn := osqrt K (ActOneR.sumsq K y) in
  let r := ActOneR.accuracy_on_data K Y I y in
  (oeqb K yn (o0 K) = true /\ r = oopp K (o1 K)) \/
  (oeqb K yn (o0 K) = false /\
   r = odiv K (osqrt K (ActOneR.sumsq K (map (fun p => osub K (get K Y (fst p)) (snd p)) (combine I y)))) yn).
Proof.
  unfold ActOneR.accuracy_on_data. cbv zeta.
  destruct (oeqb K (osqrt K (ActOneR.sumsq K y)) (o0 K)); [left|right]; split; reflexivity.
Qed.
(* guarded carrier: all reference values exactly zero (any tensor Y - zero or not -, any index list): the clean
   sentinel -1 is returned; the quotient, whose denominator would be 0, is not part of the returned term *)
Theorem accuracy_on_data_zero_reference {T} (K : ops T) Y I y :
  oadd K (o0 K) (omul K (o0 K) (o0 K)) = o0 K -> osqrt K (o0 K) = o0 K ->
  oeqb K (o0 K) (o0 K) = true -> oltb K (o0 K) (o0 K) = false ->
  Forall (fun x => x = o0 (OG K)) y ->
  ActOneR.accuracy_on_data (OG K) Y I y = (oopp K (o1 K), false).
Proof.
  intros Lz Ls Le Ll Hy. unfold ActOneR.accuracy_on_data.
  assert (S0 : ActOneR.sumsq (OG K) y = o0 (OG K)).
  { unfold ActOneR.sumsq. generalize (eq_refl (o0 (OG K))). generalize (o0 (OG K)) at 1 3 as z. intros z Hz.
    subst z. induction Hy as [|x l -> _ IH]; cbn [fold_left]; [reflexivity|].
    replace (oadd (OG K) (o0 (OG K)) (omul (OG K) (o0 (OG K)) (o0 (OG K)))) with (o0 (OG K)); [exact IH|].
    cbn [oadd omul OG o0]. unfold g2. cbn [fst snd orb]. now rewrite Lz. }
  rewrite S0.
  assert (Q0 : osqrt (OG K) (o0 (OG K)) = o0 (OG K)).
  { cbn [osqrt OG o0]. unfold gsqrt. cbn [fst snd orb]. now rewrite Ls, Ll. }
  rewrite Q0. cbn [oeqb OG o0]. unfold gcmp. cbn [fst snd orb]. rewrite Le. reflexivity.
Qed.
(* the pre-repair last line on the same input: poisoned *)
Lemma accuracy_on_data_unguarded_poisoned {T} (K : ops T) (num : @gd T) :
  oeqb K (o0 K) (o0 K) = true -> snd (odiv (OG K) num (o0 (OG K))) = true.
Proof. intros E. cbn [odiv OG o0]. unfold gdiv. cbn [fst snd]. rewrite E. now rewrite orb_true_r. Qed.
