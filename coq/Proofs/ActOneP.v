(* Lemmas for C01: evaluation and algebra of TT tensors agree with dense algebra. *)
From Coq Require Import List Arith Lia Ring PeanoNat ZArith.
From TV Require Import Num.Ops Lin.Tab Lin.BigSum TT.Chain Model.ActOne.
Import ListNotations.

Section ActOneP.
Context {T : Type} (K : ops T).
Notation "0" := (o0 K). Notation "1" := (o1 K).
Infix "+" := (oadd K). Infix "*" := (omul K). Infix "-" := (osub K).
Hypothesis Rth : rng K.
Add Ring RrActOne : Rth.

Local Notation cget := (cget K). Local Notation vstep := (vstep K). Local Notation run := (run K).
Local Notation get := (get K). Local Notation bsum := (bsum K).

(* ---------------- add ---------------- *)
Lemma cget_mid G1 G2 a i b : a < cr1 G1 + cr1 G2 -> i < cn G1 -> b < cr2 G1 + cr2 G2 ->
  cget (core_mid K G1 G2) a i b =
   if a <? cr1 G1 then (if b <? cr2 G1 then cget G1 a i b else 0)
   else (if b <? cr2 G1 then 0 else cget G2 (a - cr1 G1) i (b - cr2 G1)).
Proof. intros. unfold core_mid. now rewrite cget_mk. Qed.
Lemma cget_last G1 G2 a i b : a < cr1 G1 + cr1 G2 -> i < cn G1 -> b < cr2 G1 ->
  cget (core_last K G1 G2) a i b = if a <? cr1 G1 then cget G1 a i b else cget G2 (a - cr1 G1) i b.
Proof. intros. unfold core_last. now rewrite cget_mk. Qed.
Lemma cget_first G1 G2 a i b : a < cr1 G1 -> i < cn G1 -> b < cr2 G1 + cr2 G2 ->
  cget (core_first K G1 G2) a i b = if b <? cr2 G1 then cget G1 a i b else cget G2 a i (b - cr2 G1).
Proof. intros. unfold core_first. now rewrite cget_mk. Qed.

Lemma vstep_mid v1 v2 G1 G2 i : length v1 = cr1 G1 -> length v2 = cr1 G2 -> i < cn G1 ->
  vstep (v1 ++ v2) (core_mid K G1 G2) i = vstep v1 G1 i ++ vstep v2 G2 i.
Proof.
  intros L1 L2 Hi. apply (list_eq_nth 0).
  - rewrite app_length, !vstep_length. reflexivity.
  - rewrite vstep_length. change (cr2 (core_mid K G1 G2)) with (cr2 G1 + cr2 G2)%nat. intros b Hb.
    rewrite nth_vstep by exact Hb. change (cr1 (core_mid K G1 G2)) with (cr1 G1 + cr1 G2)%nat.
    rewrite bsum_split by auto.
    destruct (Nat.ltb_spec b (cr2 G1)) as [Hlt|Hge].
    + rewrite app_nth1 by (rewrite vstep_length; lia). rewrite nth_vstep by lia.
      rewrite (bsum_ext K (cr1 G1) _ (fun a => nth a v1 0 * cget G1 a i b)).
      2:{ intros a Ha. rewrite cget_mid by lia. rewrite app_nth1 by lia.
          destruct (Nat.ltb_spec a (cr1 G1)); [|lia]. destruct (Nat.ltb_spec b (cr2 G1)); [|lia]. reflexivity. }
      rewrite (bsum_0' K Rth (cr1 G2)). ring.
      intros a Ha. rewrite cget_mid by lia. destruct (Nat.ltb_spec (cr1 G1 + a) (cr1 G1)); [lia|].
      destruct (Nat.ltb_spec b (cr2 G1)); [|lia]. ring.
    + rewrite app_nth2 by (rewrite vstep_length; lia). rewrite vstep_length. rewrite nth_vstep by lia.
      rewrite (bsum_0' K Rth (cr1 G1)).
      2:{ intros a Ha. rewrite cget_mid by lia. destruct (Nat.ltb_spec a (cr1 G1)); [|lia].
          destruct (Nat.ltb_spec b (cr2 G1)); [lia|]. ring. }
      rewrite (bsum_ext K (cr1 G2) _ (fun a => nth a v2 0 * cget G2 a i (b - cr2 G1))). ring.
      intros a Ha. rewrite cget_mid by lia. rewrite app_nth2 by lia.
      destruct (Nat.ltb_spec (cr1 G1 + a) (cr1 G1)); [lia|]. destruct (Nat.ltb_spec b (cr2 G1)); [lia|].
      rewrite L1. replace (cr1 G1 + a - cr1 G1)%nat with a by lia. reflexivity.
Qed.

Lemma vstep_last v1 v2 G1 G2 i : length v1 = cr1 G1 -> length v2 = cr1 G2 -> i < cn G1 ->
  cr2 G1 = 1%nat -> cr2 G2 = 1%nat ->
  vstep (v1 ++ v2) (core_last K G1 G2) i = [nth O (vstep v1 G1 i) 0 + nth O (vstep v2 G2 i) 0].
Proof.
  intros L1 L2 Hi H1 H2. apply (list_eq_nth 0).
  - rewrite vstep_length. change (cr2 (core_last K G1 G2)) with (cr2 G1). now rewrite H1.
  - rewrite vstep_length. change (cr2 (core_last K G1 G2)) with (cr2 G1). rewrite H1. intros b Hb.
    assert (b = O) by lia; subst b.
    rewrite nth_vstep by (change (cr2 (core_last K G1 G2)) with (cr2 G1); lia).
    change (cr1 (core_last K G1 G2)) with (cr1 G1 + cr1 G2)%nat. rewrite bsum_split by auto. cbn [nth].
    rewrite !nth_vstep by lia. f_equal.
    + apply bsum_ext; intros a Ha. rewrite cget_last by lia. rewrite app_nth1 by lia.
      destruct (Nat.ltb_spec a (cr1 G1)); [|lia]. reflexivity.
    + apply bsum_ext; intros a Ha. rewrite cget_last by lia. rewrite app_nth2 by lia.
      destruct (Nat.ltb_spec (cr1 G1 + a) (cr1 G1)); [lia|]. rewrite L1.
      replace (cr1 G1 + a - cr1 G1)%nat with a by lia. reflexivity.
Qed.

Definition same_shape (Y1 Y2 : list (core T)) : Prop := Forall2 (fun G1 G2 => cn G2 = cn G1) Y1 Y2.

Lemma run_add_tail Y1 : forall Y2 idx v1 v2, Y1 <> [] ->
  wf (length v1) Y1 idx -> wf (length v2) Y2 idx -> same_shape Y1 Y2 ->
  run (v1 ++ v2) (add_tail K Y1 Y2) idx = [nth O (run v1 Y1 idx) 0 + nth O (run v2 Y2 idx) 0].
Proof.
  induction Y1 as [|G1 Y1 IH]; intros Y2 idx v1 v2 Hne W1 W2 HF; [contradiction|].
  destruct Y2 as [|G2 Y2]; [inversion HF|]. destruct idx as [|i idx]; [contradiction|].
  cbn [wf] in W1, W2. destruct W1 as (R1 & Hi & W1). destruct W2 as (R2 & Hi2 & W2).
  inversion HF as [|? ? ? ? Hn HF']; subst.
  destruct Y1 as [|G1' Y1].
  - inversion HF'; subst. destruct idx; [|contradiction]. cbn [wf] in W1, W2.
    cbn [add_tail Chain.run]. apply vstep_last; auto.
  - destruct Y2 as [|G2' Y2]; [inversion HF'|].
    change (add_tail K (G1 :: G1' :: Y1) (G2 :: G2' :: Y2)) with (core_mid K G1 G2 :: add_tail K (G1' :: Y1) (G2' :: Y2)).
    cbn [Chain.run]. rewrite vstep_mid by auto.
    rewrite IH; try (rewrite vstep_length; assumption); auto. discriminate.
Qed.

Lemma vstep_first v G1 G2 i : cr1 G2 = cr1 G1 -> i < cn G1 ->
  vstep v (core_first K G1 G2) i = vstep v G1 i ++ vstep v G2 i.
Proof.
  intros Hr Hi. apply (list_eq_nth 0).
  - rewrite app_length, !vstep_length. reflexivity.
  - rewrite vstep_length. change (cr2 (core_first K G1 G2)) with (cr2 G1 + cr2 G2)%nat. intros b Hb.
    rewrite nth_vstep by exact Hb. change (cr1 (core_first K G1 G2)) with (cr1 G1).
    destruct (Nat.ltb_spec b (cr2 G1)) as [Hlt|Hge].
    + rewrite app_nth1 by (rewrite vstep_length; lia). rewrite nth_vstep by lia.
      apply bsum_ext; intros a Ha. rewrite cget_first by lia. destruct (Nat.ltb_spec b (cr2 G1)); [reflexivity|lia].
    + rewrite app_nth2 by (rewrite vstep_length; lia). rewrite vstep_length, nth_vstep by lia. rewrite Hr.
      apply bsum_ext; intros a Ha. rewrite cget_first by lia. destruct (Nat.ltb_spec b (cr2 G1)); [lia|reflexivity].
Qed.

(* d >= 2: both tensors have at least two cores *)
Theorem get_add Y1 Y2 idx : 2 <= length Y1 ->
  wf 1 Y1 idx -> wf 1 Y2 idx -> same_shape Y1 Y2 ->
  get (add K Y1 Y2) idx = get Y1 idx + get Y2 idx.
Proof.
  intros Hd W1 W2 HF. unfold Chain.get.
  destruct Y1 as [|G1 Y1]; [simpl in Hd; lia|]. destruct Y2 as [|G2 Y2]; [inversion HF|].
  destruct idx as [|i idx]; [contradiction|].
  cbn [wf] in W1, W2. destruct W1 as (R1 & Hi & W1). destruct W2 as (R2 & Hi2 & W2).
  inversion HF as [|? ? ? ? Hn HF']; subst.
  cbn [add Chain.run]. rewrite vstep_first by (auto; congruence).
  rewrite run_add_tail; try (rewrite vstep_length; assumption); auto.
  destruct Y1; [simpl in Hd; lia|discriminate].
Qed.

(* shape / ranks of the sum *)
Lemma shape_add_tail Y1 : forall Y2, same_shape Y1 Y2 -> shape (add_tail K Y1 Y2) = shape Y1.
Proof.
  induction Y1 as [|G1 Y1 IH]; intros Y2 H; inversion H as [|? G2 ? Y2' Hn HF]; subst; [reflexivity|].
  destruct Y1 as [|G1' Y1]; inversion HF; subst; [reflexivity|].
  change (add_tail K (G1 :: G1' :: Y1) (G2 :: y :: l')) with (core_mid K G1 G2 :: add_tail K (G1' :: Y1) (y :: l')).
  unfold shape in *. cbn [map]. f_equal. apply IH. assumption.
Qed.
Lemma shape_add Y1 Y2 : same_shape Y1 Y2 -> shape (add K Y1 Y2) = shape Y1.
Proof.
  intros H. inversion H as [|G1 G2 Y1' Y2' Hn HF]; subst; [reflexivity|].
  unfold add. unfold shape. cbn [map]. f_equal. apply shape_add_tail. exact HF.
Qed.

(* ---------------- scaling of the first core, sub ---------------- *)
Lemma vstep_core_scale v c G i : i < cn G -> vstep v (core_scale K c G) i = vscale K c (vstep v G i).
Proof.
  intros Hi. apply (list_eq_nth 0).
  - unfold vscale. rewrite map_length, !vstep_length. reflexivity.
  - rewrite vstep_length. change (cr2 (core_scale K c G)) with (cr2 G). intros b Hb.
    rewrite nth_vscale by auto. rewrite !nth_vstep by auto. change (cr1 (core_scale K c G)) with (cr1 G).
    rewrite <- bsum_mul_l by auto. apply bsum_ext; intros a Ha.
    unfold core_scale. rewrite cget_mk by auto. ring.
Qed.
Theorem get_mul_num Y c idx r : wf r Y idx -> Y <> [] ->
  forall v, nth O (run v (mul_num K Y c) idx) 0 = c * nth O (run v Y idx) 0.
Proof.
  intros W Hne v. destruct Y as [|G Y]; [contradiction|]. destruct idx as [|i idx]; [contradiction|].
  cbn [wf] in W. destruct W as (_ & Hi & _). cbn [mul_num Chain.run].
  rewrite vstep_core_scale by auto. rewrite run_scale by auto. apply nth_vscale; auto.
Qed.
Lemma wf_mul_num r Y c idx : wf r Y idx -> wf r (mul_num K Y c) idx.
Proof. destruct Y as [|G Y]; destruct idx as [|i idx]; simpl; auto. Qed.
Lemma same_shape_mul_num Y1 Y2 c : same_shape Y1 Y2 -> same_shape Y1 (mul_num K Y2 c).
Proof. intros H. inversion H; subst; simpl; constructor; auto. Qed.
Theorem get_sub Y1 Y2 idx : 2 <= length Y1 ->
  wf 1 Y1 idx -> wf 1 Y2 idx -> same_shape Y1 Y2 ->
  get (sub K Y1 Y2) idx = get Y1 idx - get Y2 idx.
Proof.
  intros Hd W1 W2 HF. unfold sub. rewrite get_add; auto using wf_mul_num, same_shape_mul_num.
  unfold Chain.get at 2. rewrite (get_mul_num Y2 _ idx 1%nat); auto.
  - unfold Chain.get. ring.
  - inversion HF; subst; [simpl in Hd; lia|discriminate].
Qed.

(* ---------------- elementwise product (Kronecker cores) ---------------- *)
Definition kronv (v1 v2 : list T) : list T :=
  tab (length v1 * length v2) (fun k => nth (k / length v2) v1 0 * nth (k mod length v2) v2 0).
Lemma kronv_length v1 v2 : length (kronv v1 v2) = (length v1 * length v2)%nat.
Proof. apply tab_length. Qed.
Lemma divmod_lt a p q : a < p * q -> a / q < p /\ a mod q < q.
Proof.
  intros H. assert (q <> O) by (intro; subst; lia). split.
  - apply Nat.div_lt_upper_bound; lia.
  - apply Nat.mod_upper_bound; lia.
Qed.
Lemma divmod_mk i j q : j < q -> (i * q + j) / q = i /\ (i * q + j) mod q = j.
Proof.
  intros H. split.
  - rewrite Nat.add_comm, Nat.div_add by lia. rewrite Nat.div_small by lia. lia.
  - rewrite Nat.add_comm, Nat.mod_add by lia. apply Nat.mod_small; lia.
Qed.
Lemma vstep_kron v1 v2 G1 G2 i : length v1 = cr1 G1 -> length v2 = cr1 G2 -> i < cn G1 ->
  vstep (kronv v1 v2) (core_kron K G1 G2) i = kronv (vstep v1 G1 i) (vstep v2 G2 i).
Proof.
  intros L1 L2 Hi. apply (list_eq_nth 0).
  - rewrite kronv_length, !vstep_length. reflexivity.
  - rewrite vstep_length. change (cr2 (core_kron K G1 G2)) with (cr2 G1 * cr2 G2)%nat. intros b Hb.
    rewrite nth_vstep by exact Hb. change (cr1 (core_kron K G1 G2)) with (cr1 G1 * cr1 G2)%nat.
    unfold kronv at 2. rewrite !vstep_length. rewrite nth_tab by exact Hb.
    destruct (divmod_lt _ _ _ Hb) as [Hb1 Hb2].
    rewrite !nth_vstep by auto.
    rewrite bsum_prod by auto.
    rewrite <- bsum_mul_r by auto. apply bsum_ext; intros a1 Ha1.
    rewrite <- bsum_mul_l by auto. apply bsum_ext; intros a2 Ha2.
    assert (Ha : a1 * cr1 G2 + a2 < cr1 G1 * cr1 G2) by nia.
    unfold kronv. rewrite L1, L2. rewrite nth_tab by exact Ha.
    unfold core_kron. rewrite cget_mk by auto.
    destruct (divmod_mk a1 a2 (cr1 G2) Ha2) as [-> ->]. ring.
Qed.
Lemma kronv_single x y : kronv [x] [y] = [x * y].
Proof. reflexivity. Qed.
Theorem run_mul Y1 : forall Y2 idx v1 v2, wf (length v1) Y1 idx -> wf (length v2) Y2 idx -> same_shape Y1 Y2 ->
  run (kronv v1 v2) (mul K Y1 Y2) idx = kronv (run v1 Y1 idx) (run v2 Y2 idx).
Proof.
  induction Y1 as [|G1 Y1 IH]; intros Y2 idx v1 v2 W1 W2 HF.
  - inversion HF; subst. destruct idx; [|contradiction]. reflexivity.
  - destruct Y2 as [|G2 Y2]; [inversion HF|]. destruct idx as [|i idx]; [contradiction|].
    cbn [wf] in W1, W2. destruct W1 as (R1 & Hi & W1). destruct W2 as (R2 & Hi2 & W2).
    inversion HF as [|? ? ? ? Hn HF']; subst. cbn [mul Chain.run].
    rewrite vstep_kron by auto. apply IH; auto; rewrite vstep_length; assumption.
Qed.
Theorem get_mul Y1 Y2 idx : wf 1 Y1 idx -> wf 1 Y2 idx -> same_shape Y1 Y2 ->
  get (mul K Y1 Y2) idx = get Y1 idx * get Y2 idx.
Proof.
  intros W1 W2 HF. unfold Chain.get. change [1] with (@cons T 1 nil).
  assert (E : [1] = kronv [1] [1]) by (rewrite kronv_single; f_equal; ring).
  rewrite E at 1. rewrite run_mul by auto.
  pose proof (run_length K [1] Y1 idx 1 1 (proj1 (wf_wfo 1 Y1 idx) W1) eq_refl) as L1.
  pose proof (run_length K [1] Y2 idx 1 1 (proj1 (wf_wfo 1 Y2 idx) W2) eq_refl) as L2.
  unfold kronv. rewrite L1, L2. cbn [Nat.mul Nat.add]. rewrite nth_tab by lia. reflexivity.
Qed.

(* ---------------- outer product ---------------- *)
Theorem get_outer Y1 Y2 idx1 idx2 : wf 1 Y1 idx1 -> wf 1 Y2 idx2 ->
  get (outer Y1 Y2) (idx1 ++ idx2) = get Y1 idx1 * get Y2 idx2.
Proof.
  intros W1 W2. unfold Chain.get, outer, copy.
  rewrite run_app by (eapply wfo_length; apply wf_wfo; eauto).
  pose proof (run_length K [1] Y1 idx1 1 1 (proj1 (wf_wfo 1 Y1 idx1) W1) eq_refl) as L1.
  destruct (Chain.run K [1] Y1 idx1) as [|x [|? ?]] eqn:E; try discriminate. cbn [nth].
  replace [x] with (vscale K x [1]) by (unfold vscale; simpl; f_equal; ring).
  rewrite run_scale by auto. rewrite nth_vscale by auto. reflexivity.
Qed.
Lemma wf_app r (Y1 Y2 : list (core T)) idx1 idx2 : wfo r Y1 idx1 1 -> wf 1 Y2 idx2 -> wf r (Y1 ++ Y2) (idx1 ++ idx2).
Proof.
  revert r idx1; induction Y1 as [|G Y1 IH]; intros r [|i idx1]; simpl; try tauto.
  - intros -> H; exact H.
  - intros (A & B & C) W. repeat split; auto.
Qed.
End ActOneP.
