(* C04: orthogonalize(Y, k, use_stab) of Model/Transformation.v for BOTH settings of use_stab, every pivot:
   2^p * Z = Y entrywise (p = 0 and Z = Y entrywise without stabilisation), orthonormal cores around the pivot,
   ranks never increase and are cut to what a core can carry, the pivot core carries the norm.
   Ring-generic given exact powers of two; QR / RQ / log2 are oracles (contracts qr_ok / rq_ok; log2: none needed here).
   [P] is any predicate established by core_stab on a well-stored core (instantiated at R in OrthPR.v). *)
From Coq Require Import List Arith Lia Ring PeanoNat ZArith Bool.
From TV Require Import Num.Ops Lin.Tab Lin.BigSum Lin.Mat TT.Chain Model.Transformation
  Proofs.TransformationP Proofs.TransformationP2 Proofs.OrthP.
Import ListNotations.

(* ---------- list update ---------- *)
Section Upd.
Context {A : Type}.
Lemma nth_upd_same (l : list A) : forall k x d, k < length l -> nth k (upd l k x) d = x.
Proof. induction l as [|y l IH]; intros [|k] x d H; simpl in *; try lia; auto. apply IH. lia. Qed.
Lemma nth_upd_other (l : list A) : forall k x m d, m <> k -> nth m (upd l k x) d = nth m l d.
Proof. induction l as [|y l IH]; intros [|k] x [|m] d H; simpl; auto; try congruence. Qed.
Lemma upd_length (l : list A) : forall k x, length (upd l k x) = length l.
Proof. induction l as [|y l IH]; intros [|k] x; simpl; auto. Qed.
End Upd.

(* extended single-step entry points: the mode number is an integer, as in Python (negative numbers are rejected) *)
Definition orth_left_z {T} (K : ops T) (qr : nat -> mat T -> mat T * mat T) (Zs : list (core T)) (i : Z)
  : result (list (core T)) :=
  if (i <? 0)%Z then Err ValueError else orth_left K qr Zs (Z.to_nat i).
Definition orth_right_z {T} (K : ops T) (rq : nat -> mat T -> mat T * mat T) (Zs : list (core T)) (i : Z)
  : result (list (core T)) :=
  if (i <? 0)%Z then Err ValueError else orth_right K rq Zs (Z.to_nat i).

Section OrthSweep.
Context {T : Type} (K : ops T).
Local Notation "a ** b" := (omul K a b) (at level 40, left associativity).
Notation pow2 := (opow2 K).
Hypothesis Rth : rng K.
Add Ring RrOrthS : Rth.
Hypothesis Hpow_add : forall a b : Z, pow2 (a + b)%Z = pow2 a ** pow2 b.
Hypothesis Hpow_0 : pow2 0%Z = o1 K.
Hypothesis Hdiv : forall x p, (odiv K x (pow2 p)) ** pow2 p = x.
Local Notation get := (get K). Local Notation cget := (cget K).

Variable qr : nat -> mat T -> mat T * mat T.
Variable rq : nat -> mat T -> mat T * mat T.
Variable ilog2 : nat -> T -> Z.
Hypothesis qr_spec : forall k A, qr_ok K A (fst (qr k A)) (snd (qr k A)).
Hypothesis rq_spec : forall k A, rq_ok K A (fst (rq k A)) (snd (rq k A)).
Variable P : core T -> Prop.
Hypothesis HP : forall k G p, wfdat G -> P (fst (core_stab K ilog2 k G p (o0 K))).

(* ---------- core_stab: same dimensions, G = 2^q * Q entrywise, exponent p + q ---------- *)
Lemma core_stab_facts k G p :
  cr1 (fst (core_stab K ilog2 k G p (o0 K))) = cr1 G /\ cn (fst (core_stab K ilog2 k G p (o0 K))) = cn G /\
  cr2 (fst (core_stab K ilog2 k G p (o0 K))) = cr2 G /\
  exists q, snd (core_stab K ilog2 k G p (o0 K)) = (p + q)%Z /\
    forall a i b, a < cr1 G -> i < cn G -> b < cr2 G ->
      cget (fst (core_stab K ilog2 k G p (o0 K))) a i b ** pow2 q = cget G a i b.
Proof.
  unfold core_stab. cbv zeta. destruct (oleb K (cmax K G) (o0 K)); cbn [fst snd].
  - repeat split; auto. exists 0%Z. split; [lia|]. intros. rewrite Hpow_0. ring.
  - repeat split; auto. exists (ilog2 k (cmax K G)). split; [reflexivity|]. intros a i b Ha Hi Hb.
    rewrite cget_mk by auto. apply Hdiv.
Qed.

(* ---------- replacing one core by a core with  G' * c = G  entrywise ---------- *)
Lemma vstep_scaled u (G G' : core T) i c : cr1 G' = cr1 G -> cr2 G' = cr2 G ->
  (forall a b, a < cr1 G -> b < cr2 G -> cget G' a i b ** c = cget G a i b) ->
  vscale K c (vstep K u G' i) = vstep K u G i.
Proof.
  intros E1 E2 H. apply (list_eq_nth (o0 K)).
  - unfold vscale. rewrite map_length, !vstep_length. exact E2.
  - unfold vscale at 1. rewrite map_length, vstep_length, E2. intros b Hb.
    rewrite (nth_vscale K Rth). rewrite !nth_vstep by lia. rewrite E1.
    rewrite <- bsum_mul_l by auto. apply bsum_ext; intros a Ha. rewrite <- (H a b) by auto. ring.
Qed.
Lemma run_scaled (A : list (core T)) G G' B c : cr1 G' = cr1 G -> cn G' = cn G -> cr2 G' = cr2 G ->
  (forall a i b, a < cr1 G -> i < cn G -> b < cr2 G -> cget G' a i b ** c = cget G a i b) ->
  forall v idx r rl, wfo r (A ++ G :: B) idx rl ->
  vscale K c (run K v (A ++ G' :: B) idx) = run K v (A ++ G :: B) idx.
Proof.
  intros E1 E2 E3 H v idx r rl W. destruct (wfo_app_inv' _ _ _ _ _ W) as (i1 & i2 & rm & -> & L & W1 & W2).
  destruct i2 as [|i i2]; cbn [wfo] in W2; [tauto|]. destruct W2 as (Ea & Hi & W3).
  rewrite !run_app by auto. cbn [Chain.run]. rewrite <- (run_scale K Rth). rewrite (vstep_scaled _ G G'); auto.
Qed.
Lemma get_upd_scaled (Zs : list (core T)) j G' c : j < length Zs ->
  cr1 G' = cr1 (nth j Zs dcore) -> cn G' = cn (nth j Zs dcore) -> cr2 G' = cr2 (nth j Zs dcore) ->
  (forall a i b, a < cr1 (nth j Zs dcore) -> i < cn (nth j Zs dcore) -> b < cr2 (nth j Zs dcore) ->
     cget G' a i b ** c = cget (nth j Zs dcore) a i b) ->
  (chain 1 Zs 1 -> chain 1 (upd Zs j G') 1) /\ shape (upd Zs j G') = shape Zs /\
  forall idx, wf 1 Zs idx -> c ** get (upd Zs j G') idx = get Zs idx.
Proof.
  intros Hj. destruct (split_nth Zs j dcore Hj) as (L & R & E & Len).
  set (G := nth j Zs dcore) in *. clearbody G. subst Zs j. intros E1 E2 E3 H.
  rewrite upd_mid. split; [|split].
  - intros C. destruct (chain_app_inv _ _ _ _ C) as (rm & C1 & C2). eapply chain_app; [exact C1|].
    cbn [chain] in *. rewrite E1, E3. exact C2.
  - rewrite !shape_app. unfold shape. cbn [map]. now rewrite E2.
  - intros idx W. apply wf_wfo in W. unfold Chain.get.
    rewrite <- (run_scaled L G G' R c E1 E2 E3 H [o1 K] idx 1 1 W). now rewrite (nth_vscale K Rth).
Qed.

(* ---------- the core that receives the weight is freshly stored ---------- *)
Lemma orth_left_next Zs i Zs' : orth_left K qr Zs i = Ok Zs' -> i + 1 < length Zs ->
  exists M, nth (S i) Zs' dcore = foldR K (cn (nth (S i) Zs dcore)) (cr2 (nth (S i) Zs dcore)) M.
Proof.
  intros E Hi. destruct (split_at Zs i Hi) as (Pre & G1 & G2 & Suf & -> & L). subst i.
  unfold orth_left in E. destruct (Nat.leb_spec (length (Pre ++ G1 :: G2 :: Suf) - 1) (length Pre)); [discriminate|].
  rewrite nth_mid, nth_mid2 in E. destruct (qr (length Pre) (unfoldL K G1)) as [Q R].
  rewrite upd_mid, upd_mid2 in E. injection E as <-. rewrite !nth_mid2. eexists; reflexivity.
Qed.
Lemma orth_right_prev Zs i Zs' : orth_right K rq Zs i = Ok Zs' -> 1 <= i -> i < length Zs ->
  exists M, nth (i - 1) Zs' dcore = foldL K (cr1 (nth (i - 1) Zs dcore)) (cn (nth (i - 1) Zs dcore)) M.
Proof.
  intros E H1 Hi. destruct (split_at Zs (i - 1)) as (Pre & G1 & G2 & Suf & -> & L); [lia|].
  assert (Ei : i = S (length Pre)) by lia. subst i.
  unfold orth_right in E. replace (S (length Pre) =? 0) with false in E by reflexivity. cbn [orb] in E.
  destruct (Nat.ltb_spec (length (Pre ++ G1 :: G2 :: Suf) - 1) (S (length Pre))); [discriminate|].
  replace (S (length Pre) - 1) with (length Pre) in * by lia.
  rewrite nth_mid, nth_mid2 in E. destruct (rq (S (length Pre)) (unfoldR K G2)) as [R Q].
  rewrite upd_mid2, upd_mid in E. injection E as <-. rewrite !nth_mid. eexists; reflexivity.
Qed.
Lemma wfdat_foldR n r2 M : wfdat (foldR K n r2 M). Proof. unfold foldR. apply wfdat_mk. Qed.
Lemma wfdat_foldL r1 n M : wfdat (foldL K r1 n M). Proof. unfold foldL. apply wfdat_mk. Qed.

(* ---------- one iteration of the left loop: orthogonalize_left(Z, i) [+ core_stab(Z[i+1])] ---------- *)
Definition lstep (s : bool) (Zs : list (core T)) (p : Z) (i : nat) : result (list (core T) * Z) :=
  match orth_left K qr Zs i with
  | Err e => Err e
  | Ok Zs1 =>
      if s then let '(G, p1) := core_stab K ilog2 (S i) (nth (S i) Zs1 dcore) p (o0 K) in Ok (upd Zs1 (S i) G, p1)
      else Ok (Zs1, p)
  end.
Lemma left_sweep_S s Zs p i n : orth_left_sweep K qr ilog2 Zs p s i (S n) =
  match lstep s Zs p i with Err e => Err e | Ok (Z1, p1) => orth_left_sweep K qr ilog2 Z1 p1 s (S i) n end.
Proof.
  cbn [orth_left_sweep]. unfold lstep. destruct (orth_left K qr Zs i); [|reflexivity].
  destruct s; [|reflexivity]. destruct (core_stab K ilog2 (S i) (nth (S i) x dcore) p (o0 K)). reflexivity.
Qed.
Definition scaled (p : Z) (Zs : list (core T)) (p' : Z) (Zs' : list (core T)) : Prop :=
  forall idx, wf 1 Zs idx -> pow2 p' ** get Zs' idx = pow2 p ** get Zs idx.
Definition plain (s : bool) (p : Z) (Zs : list (core T)) (p' : Z) (Zs' : list (core T)) : Prop :=
  s = false -> p' = p /\ forall idx, wf 1 Zs idx -> get Zs' idx = get Zs idx.
Record lstep_ok (s : bool) (Zs : list (core T)) (p : Z) (i : nat) (Zs' : list (core T)) (p' : Z) : Prop := {
  ls_scaled : scaled p Zs p' Zs';
  ls_plain : plain s p Zs p' Zs';
  ls_chain : chain 1 Zs' 1;
  ls_shape : shape Zs' = shape Zs;
  ls_len : length Zs' = length Zs;
  ls_frame : forall m, m <> i -> m <> S i -> nth m Zs' dcore = nth m Zs dcore;
  ls_lorth : lorth K (nth i Zs' dcore);
  ls_r2 : cr2 (nth i Zs' dcore) = Nat.min (cr1 (nth i Zs dcore) * cn (nth i Zs dcore)) (cr2 (nth i Zs dcore));
  ls_r1 : cr1 (nth i Zs' dcore) = cr1 (nth i Zs dcore);
  ls_next_r2 : cr2 (nth (S i) Zs' dcore) = cr2 (nth (S i) Zs dcore);
  ls_P : s = true -> P (nth (S i) Zs' dcore)
}.
Lemma lstep_spec s Zs p i : chain 1 Zs 1 -> i + 1 < length Zs ->
  exists Z1 p1, lstep s Zs p i = Ok (Z1, p1) /\ lstep_ok s Zs p i Z1 p1.
Proof.
  intros C Hi. destruct (orth_left_spec K Rth qr qr_spec Zs i C Hi) as (Zs1 & E & SO & LO & R2 & R1).
  destruct (orth_left_next Zs i Zs1 E Hi) as (M & EM). destruct SO as [g c sh l f].
  assert (N2 : cr2 (nth (S i) Zs1 dcore) = cr2 (nth (S i) Zs dcore)) by (rewrite EM; reflexivity).
  unfold lstep. rewrite E. destruct s.
  - assert (Wd : wfdat (nth (S i) Zs1 dcore)) by (rewrite EM; apply wfdat_foldR).
    pose proof (core_stab_facts (S i) (nth (S i) Zs1 dcore) p) as (D1 & D2 & D3 & q & Eq & Hq).
    pose proof (HP (S i) (nth (S i) Zs1 dcore) p Wd) as HPc.
    destruct (core_stab K ilog2 (S i) (nth (S i) Zs1 dcore) p (o0 K)) as [G' p1]. cbn [fst snd] in *.
    exists (upd Zs1 (S i) G'), p1. split; [reflexivity|].
    assert (Hl : S i < length Zs1) by lia.
    destruct (get_upd_scaled Zs1 (S i) G' (pow2 q) Hl D1 D2 D3 Hq) as (Cu & Su & Gu).
    constructor.
    + intros idx W. assert (W1 : wf 1 Zs1 idx) by (eapply wf_shape; eauto).
      rewrite Eq, Hpow_add. rewrite <- (g idx W), <- (Gu idx W1). ring.
    + intros Hs; discriminate.
    + auto.
    + congruence.
    + rewrite upd_length. exact l.
    + intros m H1 H2. rewrite nth_upd_other by auto. apply f; auto.
    + rewrite nth_upd_other by lia. exact LO.
    + rewrite nth_upd_other by lia. exact R2.
    + rewrite nth_upd_other by lia. exact R1.
    + rewrite nth_upd_same by auto. congruence.
    + intros _. rewrite nth_upd_same by auto. exact HPc.
  - exists Zs1, p. split; [reflexivity|]. constructor; auto.
    + intros idx W. now rewrite g.
    + intros _. split; auto.
    + intros Hs; discriminate.
Qed.

Record lsweep_ok (s : bool) (Zs : list (core T)) (p : Z) (i n : nat) (Zs' : list (core T)) (p' : Z) : Prop := {
  lw_scaled : scaled p Zs p' Zs';
  lw_plain : plain s p Zs p' Zs';
  lw_chain : chain 1 Zs' 1;
  lw_shape : shape Zs' = shape Zs;
  lw_len : length Zs' = length Zs;
  lw_lorth : forall m, m < i + n -> lorth K (nth m Zs' dcore);
  lw_frame_hi : forall m, i + n < m -> nth m Zs' dcore = nth m Zs dcore;
  lw_frame_lo : forall m, m < i -> nth m Zs' dcore = nth m Zs dcore;
  lw_r2_le : forall m, m < length Zs -> cr2 (nth m Zs' dcore) <= cr2 (nth m Zs dcore);
  lw_cut : forall m, i <= m -> m < i + n -> cr2 (nth m Zs' dcore) <= cr1 (nth m Zs' dcore) * cn (nth m Zs' dcore);
  lw_P : s = true -> 0 < n -> P (nth (i + n) Zs' dcore);
  lw_0 : n = O -> Zs' = Zs /\ p' = p
}.
Lemma left_sweep_full s n : forall Zs i p, chain 1 Zs 1 -> i + n + 1 <= length Zs ->
  (forall m, m < i -> lorth K (nth m Zs dcore)) ->
  exists Zs' p', orth_left_sweep K qr ilog2 Zs p s i n = Ok (Zs', p') /\ lsweep_ok s Zs p i n Zs' p'.
Proof.
  induction n as [|n IH]; intros Zs i p C Hn HL.
  - exists Zs, p. split; [reflexivity|]. constructor; auto; try (intros; lia).
    + intros idx W. reflexivity.
    + intros _. auto.
    + intros m Hm. apply HL. lia.
  - rewrite left_sweep_S. destruct (lstep_spec s Zs p i C) as (Z1 & p1 & E1 & SO); [lia|]. rewrite E1.
    destruct SO as [a1 a2 a3 a4 a5 a6 a7 a8 a9 a10 a11].
    destruct (IH Z1 (S i) p1 a3) as (Z2 & p2 & E2 & SW); [lia| |].
    { intros m Hm. destruct (Nat.eq_dec m i) as [->|Hne]; [exact a7|]. rewrite a6 by lia. apply HL. lia. }
    exists Z2, p2. split; [exact E2|]. destruct SW as [b1 b2 b3 b4 b5 b6 b7 b8 b9 b10 b11 b12]. constructor.
    + intros idx W. assert (W1 : wf 1 Z1 idx) by (eapply wf_shape; eauto). rewrite (b1 idx W1). apply a1; auto.
    + intros Hs. destruct (a2 Hs) as [-> g1]. destruct (b2 Hs) as [-> g2]. split; auto.
      intros idx W. rewrite g2 by (eapply wf_shape; eauto). auto.
    + auto.
    + congruence.
    + congruence.
    + intros m Hm. apply b6. lia.
    + intros m Hm. rewrite b7 by lia. apply a6; lia.
    + intros m Hm. rewrite b8 by lia. apply a6; lia.
    + intros m Hm. etransitivity; [apply b9; lia|].
      destruct (Nat.eq_dec m i) as [->|Hne]; [rewrite a8; apply Nat.le_min_r|].
      destruct (Nat.eq_dec m (S i)) as [->|Hne2]; [rewrite a10; auto|]. rewrite a6 by auto. auto.
    + intros m H1 H2. destruct (Nat.eq_dec m i) as [->|Hne].
      * rewrite b8 by lia. rewrite a8, a9, (cn_nth_shape Z1 Zs i a4). apply Nat.le_min_l.
      * apply b10; lia.
    + intros Hs _. destruct n as [|n].
      * destruct (b12 eq_refl) as [-> _]. replace (i + 1) with (S i) by lia. auto.
      * replace (i + S (S n)) with (S i + S n) by lia. apply b11; auto. lia.
    + intros H; discriminate.
Qed.

(* ---------- one iteration of the right loop: orthogonalize_right(Z, i) [+ core_stab(Z[i-1])] ---------- *)
Definition rstep (s : bool) (Zs : list (core T)) (p : Z) (i : nat) : result (list (core T) * Z) :=
  match orth_right K rq Zs i with
  | Err e => Err e
  | Ok Zs1 =>
      if s then let '(G, p1) := core_stab K ilog2 (i - 1) (nth (i - 1) Zs1 dcore) p (o0 K) in Ok (upd Zs1 (i - 1) G, p1)
      else Ok (Zs1, p)
  end.
Lemma right_sweep_S s Zs p i n : orth_right_sweep K rq ilog2 Zs p s i (S n) =
  match rstep s Zs p i with Err e => Err e | Ok (Z1, p1) => orth_right_sweep K rq ilog2 Z1 p1 s (i - 1) n end.
Proof.
  cbn [orth_right_sweep]. unfold rstep. destruct (orth_right K rq Zs i); [|reflexivity].
  destruct s; [|reflexivity]. destruct (core_stab K ilog2 (i - 1) (nth (i - 1) x dcore) p (o0 K)). reflexivity.
Qed.
Record rstep_ok (s : bool) (Zs : list (core T)) (p : Z) (i : nat) (Zs' : list (core T)) (p' : Z) : Prop := {
  rs_scaled : scaled p Zs p' Zs';
  rs_plain : plain s p Zs p' Zs';
  rs_chain : chain 1 Zs' 1;
  rs_shape : shape Zs' = shape Zs;
  rs_len : length Zs' = length Zs;
  rs_frame : forall m, m <> i - 1 -> m <> i -> nth m Zs' dcore = nth m Zs dcore;
  rs_rorth : rorth K (nth i Zs' dcore);
  rs_r1 : cr1 (nth i Zs' dcore) = Nat.min (cr1 (nth i Zs dcore)) (cn (nth i Zs dcore) * cr2 (nth i Zs dcore));
  rs_r2 : cr2 (nth i Zs' dcore) = cr2 (nth i Zs dcore);
  rs_prev_r1 : cr1 (nth (i - 1) Zs' dcore) = cr1 (nth (i - 1) Zs dcore);
  rs_P : s = true -> P (nth (i - 1) Zs' dcore)
}.
Lemma rstep_spec s Zs p i : chain 1 Zs 1 -> 1 <= i -> i < length Zs ->
  exists Z1 p1, rstep s Zs p i = Ok (Z1, p1) /\ rstep_ok s Zs p i Z1 p1.
Proof.
  intros C H1 Hi. destruct (orth_right_spec K Rth rq rq_spec Zs i C H1 Hi) as (Zs1 & E & SO & RO & R1 & R2).
  destruct (orth_right_prev Zs i Zs1 E H1 Hi) as (M & EM). destruct SO as [g c sh l f].
  assert (N1 : cr1 (nth (i - 1) Zs1 dcore) = cr1 (nth (i - 1) Zs dcore)) by (rewrite EM; reflexivity).
  unfold rstep. rewrite E. destruct s.
  - assert (Wd : wfdat (nth (i - 1) Zs1 dcore)) by (rewrite EM; apply wfdat_foldL).
    pose proof (core_stab_facts (i - 1) (nth (i - 1) Zs1 dcore) p) as (D1 & D2 & D3 & q & Eq & Hq).
    pose proof (HP (i - 1) (nth (i - 1) Zs1 dcore) p Wd) as HPc.
    destruct (core_stab K ilog2 (i - 1) (nth (i - 1) Zs1 dcore) p (o0 K)) as [G' p1]. cbn [fst snd] in *.
    exists (upd Zs1 (i - 1) G'), p1. split; [reflexivity|].
    assert (Hl : i - 1 < length Zs1) by lia.
    destruct (get_upd_scaled Zs1 (i - 1) G' (pow2 q) Hl D1 D2 D3 Hq) as (Cu & Su & Gu).
    constructor.
    + intros idx W. assert (W1 : wf 1 Zs1 idx) by (eapply wf_shape; eauto).
      rewrite Eq, Hpow_add. rewrite <- (g idx W), <- (Gu idx W1). ring.
    + intros Hs; discriminate.
    + auto.
    + congruence.
    + rewrite upd_length. exact l.
    + intros m Hm1 Hm2. rewrite nth_upd_other by auto. apply f; auto.
    + rewrite nth_upd_other by lia. exact RO.
    + rewrite nth_upd_other by lia. exact R1.
    + rewrite nth_upd_other by lia. exact R2.
    + rewrite nth_upd_same by auto. congruence.
    + intros _. rewrite nth_upd_same by auto. exact HPc.
  - exists Zs1, p. split; [reflexivity|]. constructor; auto.
    + intros idx W. now rewrite g.
    + intros _. split; auto.
    + intros Hs; discriminate.
Qed.

Record rsweep_ok (s : bool) (Zs : list (core T)) (p : Z) (i n : nat) (Zs' : list (core T)) (p' : Z) : Prop := {
  rw_scaled : scaled p Zs p' Zs';
  rw_plain : plain s p Zs p' Zs';
  rw_chain : chain 1 Zs' 1;
  rw_shape : shape Zs' = shape Zs;
  rw_len : length Zs' = length Zs;
  rw_rorth : forall m, i - n < m -> m < length Zs -> rorth K (nth m Zs' dcore);
  rw_frame_lo : forall m, m < i - n -> nth m Zs' dcore = nth m Zs dcore;
  rw_frame_hi : forall m, i < m -> nth m Zs' dcore = nth m Zs dcore;
  rw_r1_le : forall m, m < length Zs -> cr1 (nth m Zs' dcore) <= cr1 (nth m Zs dcore);
  rw_cut : forall m, i - n < m -> m <= i -> cr1 (nth m Zs' dcore) <= cn (nth m Zs' dcore) * cr2 (nth m Zs' dcore);
  rw_P : s = true -> 0 < n -> P (nth (i - n) Zs' dcore);
  rw_0 : n = O -> Zs' = Zs /\ p' = p
}.
Lemma right_sweep_full s n : forall Zs i p, chain 1 Zs 1 -> n <= i -> i < length Zs ->
  (forall m, i < m -> m < length Zs -> rorth K (nth m Zs dcore)) ->
  exists Zs' p', orth_right_sweep K rq ilog2 Zs p s i n = Ok (Zs', p') /\ rsweep_ok s Zs p i n Zs' p'.
Proof.
  induction n as [|n IH]; intros Zs i p C Hn Hi HR.
  - exists Zs, p. split; [reflexivity|]. constructor; auto; try (intros; lia).
    + intros idx W. reflexivity.
    + intros _. auto.
    + intros m Hm Hl. apply HR; lia.
  - rewrite right_sweep_S. destruct (rstep_spec s Zs p i C) as (Z1 & p1 & E1 & SO); [lia|lia|]. rewrite E1.
    destruct SO as [a1 a2 a3 a4 a5 a6 a7 a8 a9 a10 a11].
    destruct (IH Z1 (i - 1) p1 a3) as (Z2 & p2 & E2 & SW); [lia|lia| |].
    { intros m Hm Hl. destruct (Nat.eq_dec m i) as [->|Hne]; [exact a7|]. rewrite a6 by lia. apply HR; lia. }
    exists Z2, p2. split; [exact E2|]. destruct SW as [b1 b2 b3 b4 b5 b6 b7 b8 b9 b10 b11 b12]. constructor.
    + intros idx W. assert (W1 : wf 1 Z1 idx) by (eapply wf_shape; eauto). rewrite (b1 idx W1). apply a1; auto.
    + intros Hs. destruct (a2 Hs) as [-> g1]. destruct (b2 Hs) as [-> g2]. split; auto.
      intros idx W. rewrite g2 by (eapply wf_shape; eauto). auto.
    + auto.
    + congruence.
    + congruence.
    + intros m Hm Hl. apply b6; lia.
    + intros m Hm. rewrite b7 by lia. apply a6; lia.
    + intros m Hm. rewrite b8 by lia. apply a6; lia.
    + intros m Hm. etransitivity; [apply b9; lia|].
      destruct (Nat.eq_dec m i) as [->|Hne]; [rewrite a8; apply Nat.le_min_l|].
      destruct (Nat.eq_dec m (i - 1)) as [->|Hne2]; [rewrite a10; auto|]. rewrite a6 by auto. auto.
    + intros m Hm1 Hm2. destruct (Nat.eq_dec m i) as [->|Hne].
      * rewrite b8 by lia. rewrite a8, a9, (cn_nth_shape Z1 Zs i a4). apply Nat.le_min_r.
      * apply b10; lia.
    + intros Hs _. destruct n as [|n].
      * destruct (b12 eq_refl) as [-> _]. replace (i - 1) with (i - 1) by lia. auto.
      * replace (i - S (S n)) with (i - 1 - S n) by lia. apply b11; auto. lia.
    + intros H; discriminate.
Qed.

(* ---------- orthogonalize(Y, k, use_stab), every pivot 0 <= k <= d-1, every d >= 1, both settings ---------- *)
Record orth_ok (s : bool) (Y : list (core T)) (k : nat) (Zs : list (core T)) (p : Z) : Prop := {
  oo_scaled : forall idx, wf 1 Y idx -> pow2 p ** get Zs idx = get Y idx;
  oo_plain : s = false -> p = 0%Z /\ forall idx, wf 1 Y idx -> get Zs idx = get Y idx;
  oo_chain : chain 1 Zs 1;
  oo_shape : shape Zs = shape Y;
  oo_len : length Zs = length Y;
  oo_lorth : forall m, m < k -> lorth K (nth m Zs dcore);
  oo_rorth : forall m, k < m -> m < length Y -> rorth K (nth m Zs dcore);
  oo_ranks : forall m, m < length Y ->
     cr2 (nth m Zs dcore) <= cr2 (nth m Y dcore) /\ cr1 (nth m Zs dcore) <= cr1 (nth m Y dcore);
  oo_cut_l : forall m, m < k -> cr2 (nth m Zs dcore) <= cr1 (nth m Zs dcore) * cn (nth m Zs dcore);
  oo_cut_r : forall m, k < m -> m < length Y -> cr1 (nth m Zs dcore) <= cn (nth m Zs dcore) * cr2 (nth m Zs dcore);
  oo_P : s = true -> 2 <= length Y -> P (nth k Zs dcore)
}.
Theorem orthogonalize_full s Y k : chain 1 Y 1 -> k < length Y ->
  exists Zs p, orthogonalize K qr rq ilog2 Y (Some (Z.of_nat k)) s = Ok (Zs, p) /\ orth_ok s Y k Zs p.
Proof.
  intros C Hk. unfold orthogonalize.
  destruct (Z.ltb_spec (Z.of_nat k) 0); [lia|]. destruct (Z.ltb_spec (Z.of_nat (length Y) - 1) (Z.of_nat k)); [lia|].
  cbn [orb]. rewrite Nat2Z.id.
  destruct (left_sweep_full s k Y O 0%Z C) as (Z1 & p1 & E1 & SW1); [lia|intros; lia|]. rewrite E1.
  destruct SW1 as [a1 a2 a3 a4 a5 a6 a7 a8 a9 a10 a11 a12].
  destruct (right_sweep_full s (length Y - 1 - k) Z1 (length Y - 1) p1 a3) as (Z2 & p2 & E2 & SW2); [lia|lia|intros; lia|].
  exists Z2, p2. split; [exact E2|]. destruct SW2 as [b1 b2 b3 b4 b5 b6 b7 b8 b9 b10 b11 b12].
  assert (R2 : forall m, m < length Y -> cr2 (nth m Z2 dcore) <= cr2 (nth m Y dcore)).
  { intros m Hm. etransitivity; [|apply a9; auto].
    apply (rank_r1_to_r2 Z2 Z1 b3 a3); try lia. intros j Hj. apply b9. exact Hj. }
  assert (R1 : forall m, m < length Y -> cr1 (nth m Z2 dcore) <= cr1 (nth m Y dcore)).
  { intros m Hm. etransitivity; [apply b9; lia|].
    apply (rank_r2_to_r1 Z1 Y a3 C); try lia. intros j Hj. apply a9. exact Hj. }
  constructor.
  - intros idx W. assert (W1 : wf 1 Z1 idx) by (eapply wf_shape; eauto).
    rewrite (b1 idx W1), (a1 idx W). rewrite Hpow_0. ring.
  - intros Hs. destruct (a2 Hs) as [-> g1]. destruct (b2 Hs) as [-> g2]. split; auto.
    intros idx W. rewrite g2 by (eapply wf_shape; eauto). auto.
  - auto.
  - congruence.
  - congruence.
  - intros m Hm. rewrite b7 by lia. apply a6. lia.
  - intros m Hm Hl. apply b6; lia.
  - intros m Hm. split; auto.
  - intros m Hm. rewrite b7 by lia. apply a10; lia.
  - intros m Hm Hl. apply b10; lia.
  - intros Hs Hd. destruct (Nat.eq_dec (length Y - 1 - k) 0) as [E0|N0].
    + destruct (b12 E0) as [-> _]. replace k with (0 + k) by lia. apply a11; auto. lia.
    + replace k with (length Y - 1 - (length Y - 1 - k)) by lia. apply b11; auto. lia.
Qed.
(* the default pivot is the last mode *)
Lemma orthogonalize_default Y s :
  orthogonalize K qr rq ilog2 Y None s = orthogonalize K qr rq ilog2 Y (Some (Z.of_nat (length Y) - 1)%Z) s.
Proof. reflexivity. Qed.
Lemma orthogonalize_none_empty s : orthogonalize K qr rq ilog2 [] None s = Err ValueError.
Proof. reflexivity. Qed.

(* the pivot core carries the Frobenius norm: ||Y||^2 = (2^p)^2 ||Z[k]||^2 (p = 0 without stabilisation) *)
Theorem orthogonalize_norm s Y k Zs p : chain 1 Y 1 -> k < length Y ->
  orthogonalize K qr rq ilog2 Y (Some (Z.of_nat k)) s = Ok (Zs, p) ->
  tnorm2 K Zs = cfrob2 K (nth k Zs dcore) /\
  tnorm2 K Y = pow2 p ** pow2 p ** cfrob2 K (nth k Zs dcore) /\
  (s = false -> tnorm2 K Y = cfrob2 K (nth k Zs dcore)).
Proof.
  intros C Hk E. destruct (orthogonalize_full s Y k C Hk) as (Zs' & p' & E' & OK).
  rewrite E in E'. injection E' as <- <-. destruct OK as [c1 c2 c3 c4 c5 c6 c7 c8 c9 c10 c11].
  assert (N : tnorm2 K Zs = cfrob2 K (nth k Zs dcore)).
  { apply (orth_pivot_norm K Rth Zs k c3); try lia; auto. intros m H1 H2. apply c7; lia. }
  split; [exact N|]. split.
  - rewrite (tnorm2_ext K Rth Y Zs (pow2 p) c4 C c1). now rewrite N.
  - intros Hs. destruct (c2 Hs) as [-> g]. rewrite (tnorm2_ext K Rth Y Zs (pow2 0%Z) c4 C c1). rewrite N, Hpow_0. ring.
Qed.

(* ---------- single steps with an integer mode number: rejection ---------- *)
Lemma orth_left_z_bad Zs i : (i < 0)%Z \/ (Z.of_nat (length Zs) - 1 <= i)%Z -> orth_left_z K qr Zs i = Err ValueError.
Proof.
  intros H. unfold orth_left_z. destruct (Z.ltb_spec i 0); [reflexivity|]. apply orth_left_bad. lia.
Qed.
Lemma orth_right_z_bad Zs i : (i <= 0)%Z \/ (Z.of_nat (length Zs) - 1 < i)%Z -> orth_right_z K rq Zs i = Err ValueError.
Proof.
  intros H. unfold orth_right_z. destruct (Z.ltb_spec i 0); [reflexivity|]. apply orth_right_bad. lia.
Qed.
Lemma orth_left_z_nat Zs i : orth_left_z K qr Zs (Z.of_nat i) = orth_left K qr Zs i.
Proof. unfold orth_left_z. destruct (Z.ltb_spec (Z.of_nat i) 0); [lia|]. now rewrite Nat2Z.id. Qed.
Lemma orth_right_z_nat Zs i : orth_right_z K rq Zs (Z.of_nat i) = orth_right K rq Zs i.
Proof. unfold orth_right_z. destruct (Z.ltb_spec (Z.of_nat i) 0); [lia|]. now rewrite Nat2Z.id. Qed.
End OrthSweep.

(* the laws a carrier must satisfy for the theorems above: commutative ring + exact powers of two
   (the same bundle as stab_laws of Proofs/StabP.v, restated here so that C04 does not depend on the C16 files) *)
Definition pow2_laws {T} (K : ops T) : Prop :=
  rng K /\
  (forall a b : Z, opow2 K (a + b)%Z = omul K (opow2 K a) (opow2 K b)) /\
  opow2 K 0%Z = o1 K /\
  (forall x p, omul K (odiv K x (opow2 K p)) (opow2 K p) = x).
