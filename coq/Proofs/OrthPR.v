(* C04 at the reals: orthogonalize(Y, k, use_stab=True) returns cores whose entries are all below 2 in modulus:
   the cores with orthonormal columns / rows have entries <= 1, the pivot core (the last one rescaled by core_stab)
   has max-modulus in [lo, 2) unless it is zero.  [ilog2] is any oracle meeting the contract of floor(log2 .).
   Self-contained (own instance of the reals), so that C04 does not depend on the files of C16. *)
From Coq Require Import List Arith Lia PeanoNat ZArith Ring Bool Reals Lra.
From TV Require Import Num.Ops Lin.Tab Lin.BigSum Lin.Mat TT.Chain Model.Transformation
  Proofs.TransformationP Proofs.TransformationP2 Proofs.OrthP Proofs.OrthP2.
Import ListNotations.

(* entries of a well-stored core, as a set *)
Definition centries {T} (G : core T) : list T := concat (concat (dat G)).
Lemma centries_in {T} (K : ops T) (G : core T) : wfdat G ->
  (forall a i b, a < cr1 G -> i < cn G -> b < cr2 G -> In (cget K G a i b) (centries G)) /\
  (forall x, In x (centries G) -> exists a i b, a < cr1 G /\ i < cn G /\ b < cr2 G /\ x = cget K G a i b).
Proof.
  intros (L1 & F). rewrite Forall_forall in F. split.
  - intros a i b Ha Hi Hb. unfold centries, cget.
    assert (Hrow : In (nth a (dat G) []) (dat G)) by (apply nth_In; lia).
    destruct (F _ Hrow) as (L2 & F2). rewrite Forall_forall in F2.
    assert (Hv : In (nth i (nth a (dat G) []) []) (nth a (dat G) [])) by (apply nth_In; lia).
    pose proof (F2 _ Hv) as L3.
    apply in_concat. exists (nth i (nth a (dat G) []) []). split.
    + apply in_concat. exists (nth a (dat G) []). split; auto.
    + apply nth_In. lia.
  - intros x Hx. unfold centries in Hx. apply in_concat in Hx as (v & Hv & Hxv).
    apply in_concat in Hv as (row & Hrow & Hvrow).
    destruct (F _ Hrow) as (L2 & F2). rewrite Forall_forall in F2. pose proof (F2 _ Hvrow) as L3.
    destruct (In_nth _ _ [] Hrow) as (a & Ha & Ea). destruct (In_nth _ _ [] Hvrow) as (i & Hi & Ei).
    destruct (In_nth _ _ (o0 K) Hxv) as (b & Hb & Eb).
    exists a, i, b. repeat split; try lia. unfold cget. rewrite Ea, Ei, Eb. reflexivity.
Qed.

Local Open Scope R_scope.

(* ---------- the reals as a carrier ---------- *)
Definition Rleb_c (a b : R) : bool := if Rle_dec a b then true else false.
Definition Rltb_c (a b : R) : bool := if Rlt_dec a b then true else false.
Definition Reqb_c (a b : R) : bool := if Req_EM_T a b then true else false.
Definition ORc : ops R :=
  mkops R 0 1 Rplus Rmult Rminus Ropp Rdiv sqrt Rabs Rleb_c Rltb_c Reqb_c IZR (powerRZ 2).
Lemma ORc_rng : rng ORc. Proof. exact RTheory. Qed.
Lemma p2c_pos z : 0 < powerRZ 2 z. Proof. apply powerRZ_lt. lra. Qed.
Lemma p2c_succ z : powerRZ 2 (z + 1) = 2 * powerRZ 2 z.
Proof. rewrite powerRZ_add by lra. rewrite powerRZ_1. ring. Qed.
Lemma ORc_laws : pow2_laws ORc.
Proof.
  split; [exact ORc_rng|]. split; [|split]; cbn.
  - intros a b. apply powerRZ_add. lra.
  - reflexivity.
  - intros x p. field. apply Rgt_not_eq. apply p2c_pos.
Qed.
Lemma Rleb_c_true a b : Rleb_c a b = true <-> a <= b.
Proof. unfold Rleb_c. destruct (Rle_dec a b); split; auto; discriminate. Qed.
Lemma Rleb_c_false a b : Rleb_c a b = false <-> b < a.
Proof. unfold Rleb_c. destruct (Rle_dec a b); split; try discriminate; auto; lra. Qed.
Lemma Rltb_c_true a b : Rltb_c a b = true <-> a < b.
Proof. unfold Rltb_c. destruct (Rlt_dec a b); split; auto; discriminate. Qed.
Lemma Rltb_c_false a b : Rltb_c a b = false <-> b <= a.
Proof. unfold Rltb_c. destruct (Rlt_dec a b); split; try discriminate; auto; lra. Qed.

(* ---------- np.max(np.abs(G)) ---------- *)
Definition amax (m : R) (l : list R) : R := fold_left (fun m x => if Rltb_c m (Rabs x) then Rabs x else m) l m.
Lemma cmax_amax (G : core R) : cmax ORc G = amax 0 (centries G).
Proof. reflexivity. Qed.
Lemma amax_cons m x l : amax m (x :: l) = amax (Rmax m (Rabs x)) l.
Proof.
  unfold amax. cbn [fold_left]. f_equal. unfold Rmax.
  destruct (Rltb_c m (Rabs x)) eqn:E; destruct (Rle_dec m (Rabs x)); auto.
  - apply Rltb_c_true in E. lra.
  - apply Rltb_c_false in E. lra.
Qed.
Lemma amax_ge_acc l : forall m, m <= amax m l.
Proof.
  induction l as [|x l IH]; intros m; [unfold amax; cbn; lra|]. rewrite amax_cons.
  eapply Rle_trans; [apply Rmax_l|apply IH].
Qed.
Lemma amax_ge_in l : forall m x, In x l -> Rabs x <= amax m l.
Proof.
  induction l as [|y l IH]; intros m x H; [destruct H|]. destruct H as [->|H]; rewrite amax_cons.
  - eapply Rle_trans; [apply Rmax_r|apply amax_ge_acc].
  - now apply IH.
Qed.
Lemma amax_attained l : forall m, amax m l = m \/ exists x, In x l /\ amax m l = Rabs x.
Proof.
  induction l as [|y l IH]; intros m; [left; reflexivity|]. rewrite amax_cons.
  destruct (IH (Rmax m (Rabs y))) as [E|(x & Hx & E)].
  - rewrite E. unfold Rmax. destruct (Rle_dec m (Rabs y)); [right; exists y; split; [left|]; auto|left; auto].
  - right. exists x. split; [right|]; auto.
Qed.
Lemma amax_zero l : amax 0 l = 0 -> forall x, In x l -> x = 0.
Proof.
  intros E x Hx. pose proof (amax_ge_in l 0 x Hx) as H. rewrite E in H. pose proof (Rabs_pos x).
  destruct (Req_dec x 0); auto. pose proof (Rabs_pos_lt x H1). lra.
Qed.

(* what core_stab establishes: every entry below 2; unless the core is zero some entry is at least lo *)
Definition stabbed (lo : R) (G : core R) : Prop :=
  (forall a i b, (a < cr1 G)%nat -> (i < cn G)%nat -> (b < cr2 G)%nat -> Rabs (cget ORc G a i b) < 2) /\
  ((exists a i b, (a < cr1 G)%nat /\ (i < cn G)%nat /\ (b < cr2 G)%nat /\ cget ORc G a i b <> 0) ->
   exists a i b, (a < cr1 G)%nat /\ (i < cn G)%nat /\ (b < cr2 G)%nat /\ lo <= Rabs (cget ORc G a i b)).
(* contract of floor(log2 .) for every call (the model keys the calls by the mode number), with a slack factor
   lo <= 1 on the lower side (lo = 1: the exact contract; np.log2 meets it with lo = 1 - 2^-53) *)
Definition ilog2k_ok (lo : R) (ilog2 : nat -> R -> Z) : Prop :=
  forall k v, 0 < v -> lo * powerRZ 2 (ilog2 k v) <= v < powerRZ 2 (ilog2 k v + 1).

Lemma Rabs_div_p2 x q : Rabs (x / powerRZ 2 q) = Rabs x / powerRZ 2 q.
Proof.
  pose proof (p2c_pos q). unfold Rdiv. rewrite Rabs_mult, Rabs_inv. now rewrite (Rabs_pos_eq (powerRZ 2 q)) by lra.
Qed.
Lemma core_stab_stabbed lo ilog2 k (G : core R) p : ilog2k_ok lo ilog2 -> wfdat G ->
  stabbed lo (fst (core_stab ORc ilog2 k G p 0)).
Proof.
  intros Hl W. destruct (centries_in ORc G W) as (I1 & I2).
  unfold core_stab. cbv zeta. rewrite cmax_amax. cbn [oleb ORc].
  destruct (Rleb_c (amax 0 (centries G)) 0) eqn:E; cbn [fst].
  - apply Rleb_c_true in E. pose proof (amax_ge_acc (centries G) 0).
    assert (V0 : amax 0 (centries G) = 0) by lra. split.
    + intros a i b Ha Hi Hb. rewrite (amax_zero _ V0 _ (I1 a i b Ha Hi Hb)). rewrite Rabs_R0. lra.
    + intros (a & i & b & Ha & Hi & Hb & Hne). exfalso. apply Hne. apply (amax_zero _ V0). auto.
  - apply Rleb_c_false in E. destruct (Hl k _ E) as [A1 A2].
    pose proof (amax_attained (centries G) 0) as Hatt.
    set (v := amax 0 (centries G)) in *. set (q := ilog2 k v) in *.
    pose proof (p2c_pos q) as Hq. rewrite p2c_succ in A2.
    assert (Hiq : 0 < / powerRZ 2 q) by (apply Rinv_0_lt_compat; exact Hq).
    split.
    + intros a i b Ha Hi Hb. rewrite cr1_mk in Ha. rewrite cn_mk in Hi. rewrite cr2_mk in Hb.
      rewrite cget_mk by auto. cbn [odiv opow2 ORc]. rewrite Rabs_div_p2.
      pose proof (amax_ge_in _ 0 _ (I1 a i b Ha Hi Hb)) as Hx. fold v in Hx.
      apply (Rmult_lt_reg_r (powerRZ 2 q)); [exact Hq|]. unfold Rdiv. rewrite Rmult_assoc, Rinv_l by lra. lra.
    + intros _. rewrite cr1_mk, cn_mk, cr2_mk.
      destruct Hatt as [E0|(x & Hx & Ex)]; [lra|].
      destruct (I2 x Hx) as (a & i & b & Ha & Hi & Hb & ->).
      exists a, i, b. repeat split; auto. rewrite cget_mk by auto. cbn [odiv opow2 ORc]. rewrite Rabs_div_p2, <- Ex.
      apply (Rmult_le_reg_r (powerRZ 2 q)); [exact Hq|]. unfold Rdiv. rewrite Rmult_assoc, Rinv_l by lra. lra.
Qed.

(* entries of a core with orthonormal columns / rows are at most 1 in modulus *)
Lemma bsumR_nonneg n f : (forall i, (i < n)%nat -> 0 <= f i) -> 0 <= bsum ORc n f.
Proof.
  induction n as [|n IH]; intros H; cbn [bsum oadd o0 ORc]; [lra|].
  pose proof (IH (fun i Hi => H i (Nat.lt_lt_succ_r _ _ Hi))). pose proof (H n (Nat.lt_succ_diag_r n)). lra.
Qed.
Lemma bsumR_ge_term n f k : (forall i, (i < n)%nat -> 0 <= f i) -> (k < n)%nat -> f k <= bsum ORc n f.
Proof.
  induction n as [|n IH]; intros H Hk; [lia|]. cbn [bsum oadd ORc].
  pose proof (bsumR_nonneg n f (fun i Hi => H i (Nat.lt_lt_succ_r _ _ Hi))).
  destruct (Nat.eq_dec k n) as [->|Hne]; [lra|].
  pose proof (IH (fun i Hi => H i (Nat.lt_lt_succ_r _ _ Hi)) ltac:(lia)). pose proof (H n (Nat.lt_succ_diag_r n)). lra.
Qed.
Lemma sq_le1_abs x : x * x <= 1 -> Rabs x <= 1.
Proof. intros H. unfold Rabs. destruct (Rcase_abs x); nra. Qed.
Lemma lorth_entry_le1 (G : core R) a i c : lorth ORc G -> (a < cr1 G)%nat -> (i < cn G)%nat -> (c < cr2 G)%nat ->
  Rabs (cget ORc G a i c) <= 1.
Proof.
  intros H Ha Hi Hc. specialize (H c c Hc Hc). rewrite Nat.eqb_refl in H. cbn [o1 omul ORc] in H.
  apply sq_le1_abs. rewrite <- H.
  eapply Rle_trans; [|apply (bsumR_ge_term (cn G) _ i); auto].
  - cbv beta. apply (bsumR_ge_term (cr1 G) (fun a => cget ORc G a i c * cget ORc G a i c) a); auto. intros; nra.
  - intros j Hj. apply bsumR_nonneg. intros; nra.
Qed.
Lemma rorth_entry_le1 (G : core R) a i b : rorth ORc G -> (a < cr1 G)%nat -> (i < cn G)%nat -> (b < cr2 G)%nat ->
  Rabs (cget ORc G a i b) <= 1.
Proof.
  intros H Ha Hi Hb. specialize (H a a Ha Ha). rewrite Nat.eqb_refl in H. cbn [o1 omul ORc] in H.
  apply sq_le1_abs. rewrite <- H.
  eapply Rle_trans; [|apply (bsumR_ge_term (cn G) _ i); auto].
  - cbv beta. apply (bsumR_ge_term (cr2 G) (fun b => cget ORc G a i b * cget ORc G a i b) b); auto. intros; nra.
  - intros j Hj. apply bsumR_nonneg. intros; nra.
Qed.

(* orthogonalize(Y, k, use_stab=True) at the reals, every pivot, every d >= 2 *)
Theorem orthogonalize_stab_magnitude lo qr rq ilog2 (Y : list (core R)) k :
  (forall j A, qr_ok ORc A (fst (qr j A)) (snd (qr j A))) -> (forall j A, rq_ok ORc A (fst (rq j A)) (snd (rq j A))) ->
  ilog2k_ok lo ilog2 -> chain 1 Y 1 -> (k < length Y)%nat -> (2 <= length Y)%nat ->
  exists Zs p, orthogonalize ORc qr rq ilog2 Y (Some (Z.of_nat k)) true = Ok (Zs, p) /\
    (forall idx, wf 1 Y idx -> powerRZ 2 p * get ORc Zs idx = get ORc Y idx) /\
    (forall m a i b, (m < length Y)%nat -> m <> k -> (a < cr1 (nth m Zs dcore))%nat -> (i < cn (nth m Zs dcore))%nat ->
       (b < cr2 (nth m Zs dcore))%nat -> Rabs (cget ORc (nth m Zs dcore) a i b) <= 1) /\
    stabbed lo (nth k Zs dcore) /\
    (forall m a i b, (m < length Y)%nat -> (a < cr1 (nth m Zs dcore))%nat -> (i < cn (nth m Zs dcore))%nat ->
       (b < cr2 (nth m Zs dcore))%nat -> Rabs (cget ORc (nth m Zs dcore) a i b) < 2).
Proof.
  intros Hqr Hrq Hl C Hk Hd. destruct ORc_laws as (R_ & A_ & Z_ & D_).
  destruct (orthogonalize_full ORc R_ A_ Z_ D_ qr rq ilog2 Hqr Hrq (stabbed lo)
              (fun j G p W => core_stab_stabbed lo ilog2 j G p Hl W) true Y k C Hk) as (Zs & p & E & OK).
  exists Zs, p. split; [exact E|]. destruct OK as [c1 c2 c3 c4 c5 c6 c7 c8 c9 c10 c11].
  assert (Hone : forall m a i b, (m < length Y)%nat -> m <> k -> (a < cr1 (nth m Zs dcore))%nat ->
            (i < cn (nth m Zs dcore))%nat -> (b < cr2 (nth m Zs dcore))%nat -> Rabs (cget ORc (nth m Zs dcore) a i b) <= 1).
  { intros m a i b Hm Hne Ha Hi Hb. destruct (Nat.lt_ge_cases m k).
    - apply lorth_entry_le1; auto.
    - apply rorth_entry_le1; auto. apply c7; lia. }
  split; [exact c1|]. split; [exact Hone|]. split; [apply c11; auto|].
  intros m a i b Hm Ha Hi Hb. destruct (Nat.eq_dec m k) as [->|Hne].
  - destruct (c11 eq_refl Hd) as (B & _). apply B; auto.
  - pose proof (Hone m a i b Hm Hne Ha Hi Hb). lra.
Qed.

(* ---------- the contract of floor(log2 .) is satisfiable (non-vacuity of [ilog2k_ok 1]) ---------- *)
Definition ilog2Rc (v : R) : Z := (up (ln v / ln 2) - 1)%Z.
Lemma ln2c_pos : 0 < ln 2. Proof. pose proof ln_lt_2. lra. Qed.
Lemma ilog2Rc_ok : ilog2k_ok 1 (fun _ => ilog2Rc).
Proof.
  intros _ v Hv. unfold ilog2Rc. set (r := ln v / ln 2). destruct (archimed r) as [U1 U2].
  pose proof ln2c_pos as L2.
  assert (Ev : v = exp (r * ln 2)).
  { unfold r. replace (ln v / ln 2 * ln 2) with (ln v) by (field; lra). symmetry. now apply exp_ln. }
  replace (up r - 1 + 1)%Z with (up r) by ring.
  rewrite !powerRZ_Rpower by lra. unfold Rpower. rewrite minus_IZR. split.
  - rewrite Rmult_1_l. rewrite Ev at 1. destruct (Req_dec ((IZR (up r) - 1) * ln 2) (r * ln 2)) as [E|E].
    + rewrite E. lra.
    + left. apply exp_increasing. nra.
  - rewrite Ev at 1. apply exp_increasing. nra.
Qed.
