(* C20, part 4: the interpolation hypotheses of the recovery theorem follow from a rank factorisation of every
   unfolding whose sampled interface matrices have one-sided inverses (the algebraic content of "TT-rank rho,
   generic cores, mode sizes >= m"); specialisation to a target given by TT-cores. *)
From Coq Require Import List Arith Lia PeanoNat ZArith Bool.
From TV Require Import Num.Ops Lin.Tab Lin.BigSum Lin.Mat TT.Chain Model.Transformation Model.Svd Model.Sample
  Model.SvdInc Proofs.SvdIncP Proofs.SvdIncP2 Proofs.SvdIncP3.
Import ListNotations.

Section Fact.
Context {T : Type} (K : ops T).
Notation "0" := (o0 K). Notation "1" := (o1 K).
Infix "+" := (oadd K). Infix "*" := (omul K).
Hypothesis Rth : rng K.
Add Ring RrIncD : Rth.
Notation bsum := (bsum K).
Variables (PA PB : Type) (okp : PA -> Prop) (oks : PB -> Prop).
Variables (rho nP nS : nat) (F0 : PA -> PB -> T) (l : PA -> nat -> T) (r : nat -> PB -> T).
Hypothesis Hf : forall p s, okp p -> oks s -> F0 p s = bsum rho (fun a => l p a * r a s).
Variables (Pi : nat -> PA) (Sj : nat -> PB).
Hypothesis Pi_ok : forall i, i < nP -> okp (Pi i).
Hypothesis Sj_ok : forall j, j < nS -> oks (Sj j).
Definition delta (a a' : nat) : T := if Nat.eqb a a' then 1 else 0.
Lemma bsum_delta_l n a f : a < n -> bsum n (fun a' => delta a a' * f a') = f a.
Proof.
  intros Ha. rewrite (bsum_single K Rth n a); auto.
  - unfold delta. rewrite Nat.eqb_refl. ring.
  - intros a' Ha' Hne. unfold delta. destruct (Nat.eqb_spec a a'); [congruence|ring].
Qed.
(* full column rank of the sampled-prefix interface matrix: a left inverse L *)
Variable L : nat -> nat -> T.
Hypothesis HL : forall a a', a < rho -> a' < rho -> bsum nP (fun i => L a i * l (Pi i) a') = delta a a'.
Lemma fact_rows p s : okp p -> oks s ->
  F0 p s = bsum nP (fun i => bsum rho (fun a => l p a * L a i) * F0 (Pi i) s).
Proof.
  intros Hp Hs. rewrite <- (sum_sum_l K Rth). rewrite Hf by auto. apply bsum_ext; intros a Ha. f_equal.
  transitivity (bsum nP (fun i => L a i * bsum rho (fun a' => l (Pi i) a' * r a' s))).
  2:{ apply bsum_ext; intros i Hi. now rewrite Hf by auto. }
  rewrite (sum_sum_l K Rth). rewrite <- (bsum_delta_l rho a (fun a' => r a' s)) by auto.
  apply bsum_ext; intros a' Ha'. now rewrite HL.
Qed.
(* full row rank of the sampled-suffix interface matrix: a right inverse Ri *)
Variable Ri : nat -> nat -> T.
Hypothesis HR : forall a a', a < rho -> a' < rho -> bsum nS (fun j => r a (Sj j) * Ri j a') = delta a a'.
Lemma fact_cols p s : okp p -> oks s ->
  F0 p s = bsum nS (fun j => F0 p (Sj j) * bsum rho (fun a' => Ri j a' * r a' s)).
Proof.
  intros Hp Hs.
  transitivity (bsum nS (fun j => bsum rho (fun a => l p a * r a (Sj j)) * bsum rho (fun a' => Ri j a' * r a' s))).
  2:{ apply bsum_ext; intros j Hj. now rewrite Hf by auto. }
  rewrite <- (sum_sum_l K Rth). rewrite Hf by auto. apply bsum_ext; intros a Ha. f_equal.
  rewrite (sum_sum_l K Rth). rewrite <- (bsum_delta_l rho a (fun a' => r a' s)) by auto.
  apply bsum_ext; intros a' Ha'. now rewrite HR.
Qed.
End Fact.

Section Rank.
Context {T : Type} (K : ops T).
Notation "0" := (o0 K). Notation "1" := (o1 K).
Infix "*" := (omul K).
Hypothesis Rth : rng K.
Notation bsum := (bsum K).
Variable svdo : nat -> mat T -> mat T * list T * mat T.
Variable lstsq : nat -> mat T -> mat T -> mat T.
Hypothesis svd_rows : forall c A, mr (fst (fst (svdo c A))) = mr A.
Hypothesis Hlsq : lstsq_solves K lstsq.
Variables (ns : list nat) (II : list (list nat)) (idx idm : list nat)
          (PS : list (list (list nat) * list (list nat))).
Hypothesis Hlay : layout ns II idx idm PS.
Hypothesis Hd : 2 <= length ns.
Hypothesis Hpos : Forall (fun n => (0 < n)%nat) ns.
Variable F : list nat -> T.
Variables (e : T) (rcap : Z).
Hypothesis Hskel : forall c k, (k < length ns)%nat -> skel_used ns PS rcap k = true ->
  skel_exact_at K svdo ns II idx PS F e rcap c k.
Notation Pk k := (fst (nth k PS dPS)).
Notation Sk k := (snd (nth k PS dPS)).

(* unfolding k of the target has a factorisation of some rank rho through interface vectors l (left) and r (right)
   such that the interface matrix of the prefixes sampled for mode k has a left inverse and the interface matrix of
   the suffixes sampled for mode k-1 has a right inverse *)
Definition rank_hyp (k : nat) : Prop :=
  exists (rho : nat) (l : list nat -> nat -> T) (r : nat -> list nat -> T) (L Ri : nat -> nat -> T),
    (forall p s, inb (firstn k ns) p -> inb (skipn k ns) s -> F (p ++ s) = bsum rho (fun a => l p a * r a s)) /\
    (forall a a', (a < rho)%nat -> (a' < rho)%nat ->
        bsum (length (Pk k)) (fun i => L a i * l (nth i (Pk k) []) a') = delta K a a') /\
    (forall a a', (a < rho)%nat -> (a' < rho)%nat ->
        bsum (length (Sk (k - 1))) (fun j => r a (nth j (Sk (k - 1)) []) * Ri j a') = delta K a a').
Lemma rank_hyp_HA k : (k < length ns)%nat -> rank_hyp k -> HA_at K ns PS F k.
Proof.
  intros Hk (rho & l & r & L & Ri & Hf & HL & _).
  destruct (blockk _ _ _ _ _ Hlay k Hk) as (_ & _ & _ & _ & _ & HPi & _).
  exists (fun p i => bsum rho (fun a => l p a * L a i)). intros p s Hp Hs.
  exact (fact_rows K Rth (list nat) (list nat) (inb (firstn k ns)) (inb (skipn k ns)) rho (length (Pk k))
           (fun p s => F (p ++ s)) l r Hf (fun i => nth i (Pk k) []) HPi L HL p s Hp Hs).
Qed.
Lemma rank_hyp_HC k : (1 <= k)%nat -> (k < length ns)%nat -> rank_hyp k -> HC_at K ns PS F k.
Proof.
  intros H1 Hk (rho & l & r & L & Ri & Hf & _ & HR).
  assert (Hk1 : (k - 1 < length ns)%nat) by lia.
  destruct (blockk _ _ _ _ _ Hlay (k - 1)%nat Hk1) as (_ & _ & _ & _ & _ & _ & HSj).
  replace (S (k - 1)) with k in HSj by lia.
  exists (fun j s => bsum rho (fun a' => Ri j a' * r a' s)). intros p s Hp Hs.
  exact (fact_cols K Rth (list nat) (list nat) (inb (firstn k ns)) (inb (skipn k ns)) rho (length (Sk (k - 1)))
           (fun p s => F (p ++ s)) l r Hf (fun j => nth j (Sk (k - 1)) []) HSj Ri HR p s Hp Hs).
Qed.

Hypothesis Hrank : forall k, (1 <= k)%nat -> (k < length ns)%nat -> rank_hyp k.
Theorem incomplete_recovers_rank : (1 <= rcap)%Z ->
  exists Yres, svd_incomplete K svdo lstsq II (map F II) idx idm e rcap = Ok Yres /\
    shape Yres = ns /\ chain 1%nat Yres 1%nat /\ Forall (fun G => (Z.of_nat (cr2 G) <= rcap)%Z) Yres /\
    forall i, inb ns i -> get K Yres i = F i.
Proof.
  apply (incomplete_recovers K Rth svdo lstsq svd_rows Hlsq ns II idx idm PS Hlay Hd Hpos F e rcap Hskel).
  - intros k H1 Hk. apply rank_hyp_HA; auto.
  - intros k H1 Hk. apply rank_hyp_HC; auto.
Qed.
End Rank.

(* ---- the target given by TT-cores ---- *)
Section TTTarget.
Context {T : Type} (K : ops T).
Notation "0" := (o0 K). Notation "1" := (o1 K).
Infix "*" := (omul K).
Hypothesis Rth : rng K.
Notation bsum := (bsum K).
Variables (Tg : list (core T)) (ns : list nat).
Hypothesis Hshape : shape Tg = ns.

(* entry = left interface vector of the first k cores times right interface vector of the remaining ones *)
Lemma tt_unfolding_fact k rho p s : (k <= length ns)%nat ->
  chain 1%nat (firstn k Tg) rho -> chain rho (skipn k Tg) 1%nat ->
  inb (firstn k ns) p -> inb (skipn k ns) s ->
  get K Tg (p ++ s) = bsum rho (fun a => nth a (run K [1] (firstn k Tg) p) 0 * dget K (skipn k Tg) s rho a O).
Proof.
  intros Hk Hc1 Hc2 Hp Hs. unfold get.
  assert (Ld : length Tg = length ns) by (rewrite <- Hshape; unfold shape; now rewrite map_length).
  assert (Lp : length p = length (firstn k Tg)).
  { rewrite (inb_length _ _ Hp), !firstn_length. lia. }
  rewrite <- (firstn_skipn k Tg) at 1. rewrite run_app by exact Lp.
  apply (run_decomp K Rth (skipn k Tg) _ s rho 1%nat); [| |lia].
  - apply wfo_chain_inb. split; auto. unfold shape. rewrite <- skipn_map. fold (shape Tg). now rewrite Hshape.
  - apply (run_length K [1] (firstn k Tg) p 1%nat rho); [|reflexivity].
    apply wfo_chain_inb. split; auto. unfold shape. rewrite <- firstn_map. fold (shape Tg). now rewrite Hshape.
Qed.
End TTTarget.

Section TTRecover.
Context {T : Type} (K : ops T).
Notation "0" := (o0 K). Notation "1" := (o1 K).
Infix "*" := (omul K).
Hypothesis Rth : rng K.
Notation bsum := (bsum K).
Variable svdo : nat -> mat T -> mat T * list T * mat T.
Variable lstsq : nat -> mat T -> mat T -> mat T.
Hypothesis svd_rows : forall c A, mr (fst (fst (svdo c A))) = mr A.
Hypothesis Hlsq : lstsq_solves K lstsq.
Variables (ns : list nat) (II : list (list nat)) (idx idm : list nat)
          (PS : list (list (list nat) * list (list nat))).
Hypothesis Hlay : layout ns II idx idm PS.
Hypothesis Hd : 2 <= length ns.
Hypothesis Hpos : Forall (fun n => (0 < n)%nat) ns.
Variable Tg : list (core T).              (* the target, a TT-tensor of the sampled shape *)
Hypothesis Hshape : shape Tg = ns.
Variables (e : T) (rcap : Z).
Hypothesis Hskel : forall c k, (k < length ns)%nat -> skel_used ns PS rcap k = true ->
  skel_exact_at K svdo ns II idx PS (get K Tg) e rcap c k.
Notation Pk k := (fst (nth k PS dPS)).
Notation Sk k := (snd (nth k PS dPS)).
(* at every inner bond k (of rank rho): the left interface matrix of the prefixes sampled for mode k has a left
   inverse, the right interface matrix of the suffixes sampled for mode k-1 has a right inverse *)
Definition tt_rank_hyp (k : nat) : Prop :=
  exists (rho : nat) (L Ri : nat -> nat -> T),
    chain 1%nat (firstn k Tg) rho /\ chain rho (skipn k Tg) 1%nat /\
    (forall a a', (a < rho)%nat -> (a' < rho)%nat ->
        bsum (length (Pk k)) (fun i => L a i * nth a' (run K [1] (firstn k Tg) (nth i (Pk k) [])) 0) = delta K a a') /\
    (forall a a', (a < rho)%nat -> (a' < rho)%nat ->
        bsum (length (Sk (k - 1))) (fun j => dget K (skipn k Tg) (nth j (Sk (k - 1)) []) rho a O * Ri j a') = delta K a a').
Lemma tt_rank_hyp_rank k : (k <= length ns)%nat -> tt_rank_hyp k -> rank_hyp K ns PS (get K Tg) k.
Proof.
  intros Hk (rho & L & Ri & Hc1 & Hc2 & HL & HR).
  exists rho, (fun p a => nth a (run K [1] (firstn k Tg) p) 0), (fun a s => dget K (skipn k Tg) s rho a O), L, Ri.
  split; [|split]; auto. intros p s Hp Hs. apply (tt_unfolding_fact K Rth Tg ns Hshape); auto.
Qed.

Hypothesis Htt : forall k, (1 <= k)%nat -> (k < length ns)%nat -> tt_rank_hyp k.
Theorem incomplete_recovers_tt : (1 <= rcap)%Z ->
  exists Yres, svd_incomplete K svdo lstsq II (map (get K Tg) II) idx idm e rcap = Ok Yres /\
    shape Yres = ns /\ chain 1%nat Yres 1%nat /\ Forall (fun G => (Z.of_nat (cr2 G) <= rcap)%Z) Yres /\
    forall i, inb ns i -> get K Yres i = get K Tg i.
Proof.
  apply (incomplete_recovers_rank K Rth svdo lstsq svd_rows Hlsq ns II idx idm PS Hlay Hd Hpos (get K Tg) e rcap Hskel).
  intros k H1 Hk. apply tt_rank_hyp_rank; auto. lia.
Qed.
End TTRecover.

(* ---- generator and consumer composed: the statement of property C20 ---- *)
Section Sampled.
Context {T : Type} (K : ops T).
Hypothesis Rth : rng K.
Variable svdo : nat -> mat T -> mat T * list T * mat T.
Variable lstsq : nat -> mat T -> mat T -> mat T.
Hypothesis svd_rows : forall c A, mr (fst (fst (svdo c A))) = mr A.
Hypothesis Hlsq : lstsq_solves K lstsq.
Variable chnr : nat -> nat -> nat -> list nat.
Variable shuf1 : nat -> list nat -> list nat.
Hypothesis chnr_lt : forall c k s, Forall (fun x => (x < k)%nat) (chnr c k s).
Hypothesis shuf_keeps : forall c l (Q : nat -> Prop), Forall Q l -> Forall Q (shuf1 c l).
Variables (ns : list nat) (m : nat).
Hypothesis Hd : 2 <= length ns.
Hypothesis Hpos : Forall (fun n => (0 < n)%nat) ns.
Hypothesis Hm : (0 < m)%nat.
Variable Tg : list (core T).
Hypothesis Hshape : shape Tg = ns.
Variables (e : T) (rcap : Z).
Notation II := (fst (fst (sample_tt chnr shuf1 ns m))).
Notation idx := (snd (fst (sample_tt chnr shuf1 ns m))).
Notation idm := (snd (sample_tt chnr shuf1 ns m)).
Notation PS := (tt_PS chnr shuf1 0 [] ns m).
Hypothesis Hskel : forall c k, (k < length ns)%nat -> skel_used ns PS rcap k = true ->
  skel_exact_at K svdo ns II idx PS (get K Tg) e rcap c k.
Hypothesis Htt : forall k, (1 <= k)%nat -> (k < length ns)%nat -> tt_rank_hyp K PS Tg k.

Theorem incomplete_recovers_sampled : (1 <= rcap)%Z ->
  exists Yres, svd_incomplete K svdo lstsq II (map (get K Tg) II) idx idm e rcap = Ok Yres /\
    shape Yres = ns /\ chain 1%nat Yres 1%nat /\ Forall (fun G => (Z.of_nat (cr2 G) <= rcap)%Z) Yres /\
    forall i, inb ns i -> get K Yres i = get K Tg i.
Proof.
  apply (incomplete_recovers_tt K Rth svdo lstsq svd_rows Hlsq ns II idx idm PS
           (sample_tt_layout chnr shuf1 chnr_lt shuf_keeps ns m Hd Hpos Hm) Hd Hpos Tg Hshape e rcap Hskel Htt).
Qed.
End Sampled.
