(* Non-vacuity of the hypotheses used by the C13 theorems: the field laws hold for the carrier Qc that the
   correspondence executes, the oracle contracts are met by concrete routines, and a concrete data set. *)
From Coq Require Import List Arith Lia PeanoNat ZArith QArith Qcanon Bool Ring Permutation.
From TV Require Import Num.Ops Lin.Tab Lin.BigSum Lin.Mat TT.Chain Model.ActOne Model.Anova Model.AnovaFunc
  Proofs.AnovaP Proofs.Anova2P Proofs.AnovaFuncP Proofs.AnovaAddP.
Import ListNotations.

Lemma Qc_div_law : forall a b : Qc, b <> o0 OQc -> omul OQc (odiv OQc a b) b = a.
Proof. intros a b Hb. cbn. rewrite Qcmult_comm. now apply Qcmult_div_r. Qed.
Lemma Qc_nat_nz : forall n, natT OQc (S n) <> o0 OQc.
Proof.
  intros n H. unfold natT in H. cbn [oofZ o0 OQc] in H. unfold Qc_ofZ in H. apply Q2Qc_eq_iff in H.
  unfold Qeq, inject_Z in H. cbn [Qnum Qden] in H. lia.
Qed.
Lemma Qc_nat_0 : natT OQc O = o0 OQc.
Proof. reflexivity. Qed.
Lemma Qc_nat_S : forall n, natT OQc (S n) = oadd OQc (natT OQc n) (o1 OQc).
Proof.
  intros n. unfold natT. cbn [oofZ oadd o1 OQc]. unfold Qc_ofZ. apply Qc_is_canon.
  cbn [this Qcplus Q2Qc]. rewrite !Qred_correct. rewrite Nat2Z.inj_succ. unfold Z.succ.
  rewrite inject_Z_plus. reflexivity.
Qed.

(* the skeleton contract of second_order_get is met by (A, identity) *)
Definition skel_id {T} (K : ops T) (_ : nat) (A : mat T) : mat T * mat T := (A, mid K (mc A)).
Lemma skel_id_contract {T} (K : ops T) (Rth : rng K) : forall num A,
  let (U, V) := skel_id K num A in mc U = mr V /\ meq K (mmul K U V) A.
Proof. intros num A. cbn [skel_id]. split; [reflexivity|]. now apply mmul_id_r. Qed.

(* the contract of the truncate oracle of add_many_get is met by the identity with error 0 *)
Lemma trunc_id_contract {T} (K : ops T) (Rth : rng K) idx shp : forall (k : nat) (Y : list (core T)),
  okY idx shp Y -> okY idx shp Y /\ get K Y idx = oadd K (get K Y idx) (o0 K).
Proof. intros k Y H. split; [exact H|]. symmetry. rewrite (Radd_comm Rth). apply (Radd_0_l Rth). Qed.

(* the (sign, root) contract of tensors.delta is met by (v, 1) *)
Lemma split_id_contract {T} (K : ops T) (Rth : rng K) d : forall v : T,
  let (s, w) := (v, o1 K) in omul K s (tpow K w d) = v.
Proof.
  intros v. cbn zeta. induction d; cbn [tpow].
  - rewrite (Rmul_comm Rth). apply (Rmul_1_l Rth).
  - rewrite (Rmul_comm Rth (tpow K (o1 K) d)), (Rmul_1_l Rth). exact IHd.
Qed.

(* a concrete data set: the full 2 x 3 grid with one duplicate sample *)
Definition exI : list (list Z) := [[0; 5]; [0; 7]; [0; 9]; [4; 5]; [4; 7]; [4; 9]; [4; 9]]%Z.
Definition exy : list Qc := map Qc_ofZ [1; 2; 3; 4; 5; 6; 8]%Z.
Lemma ex_stats : exists M, ANOVA OQc exI exy 1 = Ok M /\
  a_dom M = [[0; 4]; [5; 7; 9]]%Z /\ this (a_f0 M) = 29 # 7 /\
  map (map (fun q : Qc => this q)) (a_f1 M) = [[(-15) # 7; 45 # 28]; [(-23) # 14; (-9) # 14; 32 # 21]] /\
  rmap (fun q : Qc => this q) (calc OQc M [4; 7]%Z) = Ok (143 # 28) /\
  rmap (fun q : Qc => this q) (calc OQc M [4; 6]%Z) = Err OtherError /\
  shape (cores_1 OQc M 3 (o0 OQc) (fun _ _ _ _ => o0 OQc)) = [2; 3]%nat /\
  ranks (cores_1 OQc M 3 (o0 OQc) (fun _ _ _ _ => o0 OQc)) = [1; 3; 1]%nat /\
  this (get OQc (cores_1 OQc M 3 (o0 OQc) (fun _ _ _ _ => o0 OQc)) [1; 1]%nat) = 143 # 28.
Proof. eexists. split; [reflexivity|]. vm_compute. repeat split. Qed.

(* a shuffled full grid *)
Definition exG : list (list Z) := [[4; 7]; [0; 5]; [4; 9]; [0; 9]; [4; 5]; [0; 7]]%Z.
Lemma exG_full : Permutation exG (grid (domain exG)) /\ dimI exG = 2%nat.
Proof.
  split; [|reflexivity]. change (grid (domain exG)) with [[0; 5]; [0; 7]; [0; 9]; [4; 5]; [4; 7]; [4; 9]]%Z. unfold exG.
  apply (NoDup_Permutation).
  - repeat constructor; cbn; intuition discriminate.
  - repeat constructor; cbn; intuition discriminate.
  - intros x. cbn. intuition.
Qed.
