(* C07, part 6: rank-adaptive als: every TT-rank of the result is <= r, mode sizes are kept (d >= 3). *)
From Coq Require Import List Arith Lia PeanoNat Bool.
From TV Require Import Num.Ops Lin.Tab Lin.BigSum Lin.Solve TT.Chain Model.Als Proofs.AlsLin Proofs.AlsSim Proofs.AlsTop.
Import ListNotations.

Section Ada.
Context {T : Type} (K : ops T).
Variable solve : list (list T) -> list T -> list T.
Variable orth : list (core T) -> list (core T).
Variable skel : nat -> list (list T) -> nat -> core T * core T.
(* contract of matrix_skeleton(A, e, r, rel=True): the inner size of the factors is at most r *)
Hypothesis skel_rank : forall c M rmax, cr2 (fst (skel c M rmax)) <= rmax.
(* contract of orthogonalize(Y, 0): mode sizes are kept *)
Hypothesis orth_shape : forall Y, map cn (orth Y) = map cn Y.
Variables (lamb : T) (r radd : nat) (Sm : list (@sample T)).

Notation fwd := (afwd_step K solve skel lamb r radd Sm).
Notation bwd := (abwd_step K solve skel lamb r radd Sm).
Definition cores (sc : @ast T) : list (core T) := sY (fst sc).
Definition bond_ok (sc : @ast T) (j : nat) : Prop := cr2 (nth j (cores sc) dcore) <= r.

Lemma opt_adaptive_rank c rmax Q1 Q2 k Z : rmax <= r ->
  cr2 (fst (opt_adaptive K solve skel lamb c rmax Q1 Q2 k Z)) <= r.
Proof. intros H. unfold opt_adaptive. cbn [fst cr2 mkcore]. etransitivity; [apply skel_rank | exact H]. Qed.
Lemma opt_adaptive_cr2 c rmax Q1 Q2 k Z : cr2 (snd (opt_adaptive K solve skel lamb c rmax Q1 Q2 k Z)) = cr2 Q2.
Proof. reflexivity. Qed.
Lemma opt_adaptive_cn1 c rmax Q1 Q2 k Z : cn (fst (opt_adaptive K solve skel lamb c rmax Q1 Q2 k Z)) = cn Q1.
Proof. reflexivity. Qed.
Lemma opt_adaptive_cn2 c rmax Q1 Q2 k Z : cn (snd (opt_adaptive K solve skel lamb c rmax Q1 Q2 k Z)) = cn Q2.
Proof. reflexivity. Qed.

Lemma fwd_length sc k : length (cores (fwd sc k)) = length (cores sc).
Proof. unfold cores, afwd_step. cbn [fst sY]. now rewrite !upd_length. Qed.
Lemma bwd_length sc k : length (cores (bwd sc k)) = length (cores sc).
Proof. unfold cores, abwd_step. cbn [fst sY]. now rewrite !upd_length. Qed.

(* a step on the pair (b, b+1) makes bond b fine and keeps every other bond *)
Lemma fwd_bond sc k : S k < length (cores sc) ->
  bond_ok (fwd sc k) k /\ (forall j, bond_ok sc j -> bond_ok (fwd sc k) j).
Proof.
  intros Hk. unfold bond_ok, cores, afwd_step. cbn [fst sY]. split.
  - rewrite nth_upd_neq by lia. rewrite nth_upd_eq by (unfold cores in Hk; lia). apply opt_adaptive_rank. apply Nat.le_min_l.
  - intros j Hj. destruct (Nat.eq_dec j (S k)) as [->|N1].
    + rewrite nth_upd_eq by (rewrite upd_length; unfold cores in Hk; lia). now rewrite opt_adaptive_cr2.
    + rewrite nth_upd_neq by auto. destruct (Nat.eq_dec j k) as [->|N2].
      * rewrite nth_upd_eq by (unfold cores in Hk; lia). apply opt_adaptive_rank. apply Nat.le_min_l.
      * now rewrite nth_upd_neq by auto.
Qed.
Lemma bwd_bond sc k : 1 <= k -> k < length (cores sc) ->
  bond_ok (bwd sc k) (pred k) /\ (forall j, bond_ok sc j -> bond_ok (bwd sc k) j).
Proof.
  intros H1 Hk. unfold bond_ok, cores, abwd_step. cbn [fst sY]. split.
  - rewrite nth_upd_neq by lia. rewrite nth_upd_eq by (unfold cores in Hk; lia). apply opt_adaptive_rank. apply Nat.le_min_l.
  - intros j Hj. destruct (Nat.eq_dec j k) as [->|N1].
    + rewrite nth_upd_eq by (rewrite upd_length; unfold cores in Hk; lia). now rewrite opt_adaptive_cr2.
    + rewrite nth_upd_neq by auto. destruct (Nat.eq_dec j (pred k)) as [->|N2].
      * rewrite nth_upd_eq by (unfold cores in Hk; lia). apply opt_adaptive_rank. apply Nat.le_min_l.
      * now rewrite nth_upd_neq by auto.
Qed.
Lemma fwd_cn sc k : map cn (cores (fwd sc k)) = map cn (cores sc).
Proof.
  unfold cores, afwd_step. cbn [fst sY].
  rewrite (map_upd_same cn (S k) _ _ dcore).
  - apply (map_upd_same cn k _ _ dcore). apply opt_adaptive_cn1.
  - rewrite opt_adaptive_cn2. destruct (Nat.eq_dec (S k) k); [lia|]. now rewrite nth_upd_neq by auto.
Qed.
Lemma bwd_cn sc k : 1 <= k -> map cn (cores (bwd sc k)) = map cn (cores sc).
Proof.
  intros H1. unfold cores, abwd_step. cbn [fst sY].
  rewrite (map_upd_same cn k _ _ dcore).
  - apply (map_upd_same cn (pred k) _ _ dcore). apply opt_adaptive_cn1.
  - rewrite opt_adaptive_cn2. now rewrite nth_upd_neq by lia.
Qed.

Lemma fwd_fold l : forall sc, (forall k, In k l -> S k < length (cores sc)) ->
  length (cores (fold_left fwd l sc)) = length (cores sc) /\
  map cn (cores (fold_left fwd l sc)) = map cn (cores sc) /\
  forall j, In j l \/ bond_ok sc j -> bond_ok (fold_left fwd l sc) j.
Proof.
  induction l as [|k l IH]; intros sc Hl; cbn [fold_left].
  - repeat split; auto. intros j [[]|H]; auto.
  - destruct (fwd_bond sc k) as [B1 B2]; [apply Hl; now left|].
    destruct (IH (fwd sc k)) as (L & C & B).
    { intros k' Hk'. rewrite fwd_length. apply Hl. now right. }
    rewrite L, C, fwd_length, fwd_cn. repeat split; auto.
    intros j [[<-|Hj]|Hj]; apply B; auto.
Qed.
Lemma bwd_fold l : forall sc, (forall k, In k l -> 1 <= k /\ k < length (cores sc)) ->
  length (cores (fold_left bwd l sc)) = length (cores sc) /\
  map cn (cores (fold_left bwd l sc)) = map cn (cores sc) /\
  forall j, In (S j) l \/ bond_ok sc j -> bond_ok (fold_left bwd l sc) j.
Proof.
  induction l as [|k l IH]; intros sc Hl; cbn [fold_left].
  - repeat split; auto. intros j [[]|H]; auto.
  - destruct (Hl k (or_introl eq_refl)) as [K1 K2]. destruct (bwd_bond sc k K1 K2) as [B1 B2].
    destruct (IH (bwd sc k)) as (L & C & B).
    { intros k' Hk'. rewrite bwd_length. apply Hl. now right. }
    rewrite L, C, bwd_length, bwd_cn by auto. repeat split; auto.
    intros j [[E|Hj]|Hj]; apply B; auto. right. subst k. exact B1.
Qed.

(* one adaptive sweep of a chain with d >= 3 cores leaves every bond at rank <= r *)
Lemma asweep_ranks sc : 3 <= length (cores sc) ->
  let sc' := asweep K solve skel lamb r radd Sm sc in
  length (cores sc') = length (cores sc) /\ map cn (cores sc') = map cn (cores sc) /\
  forall j, S j < length (cores sc) -> bond_ok sc' j.
Proof.
  intros Hd. unfold asweep. fold (cores sc). set (d := length (cores sc)) in *.
  destruct (fwd_fold (seq 0 (d - 2)) sc) as (L1 & C1 & B1).
  { intros k Hk. apply in_seq in Hk. fold d. lia. }
  destruct (bwd_fold (rev (seq 2 (d - 2))) (fold_left fwd (seq 0 (d - 2)) sc)) as (L2 & C2 & B2).
  { intros k Hk. rewrite <- in_rev in Hk. apply in_seq in Hk. rewrite L1. fold d. lia. }
  cbv zeta. rewrite L2, L1, C2, C1. repeat split; auto.
  intros j Hj. apply B2. destruct (Nat.eq_dec j 0) as [->|N].
  - right. apply B1. left. apply in_seq. lia.
  - left. rewrite <- in_rev. apply in_seq. lia.
Qed.

Lemma iter_asweep_ranks n sc : 3 <= length (cores sc) -> 1 <= n ->
  let sc' := Nat.iter n (asweep K solve skel lamb r radd Sm) sc in
  length (cores sc') = length (cores sc) /\ map cn (cores sc') = map cn (cores sc) /\
  forall j, S j < length (cores sc) -> bond_ok sc' j.
Proof.
  intros Hd Hn. cbv zeta.
  assert (G : forall m, length (cores (Nat.iter m (asweep K solve skel lamb r radd Sm) sc)) = length (cores sc) /\
                        map cn (cores (Nat.iter m (asweep K solve skel lamb r radd Sm) sc)) = map cn (cores sc)).
  { induction m as [|m [IL IC]]; [auto|].
    change (Nat.iter (S m) (asweep K solve skel lamb r radd Sm) sc)
      with (asweep K solve skel lamb r radd Sm (Nat.iter m (asweep K solve skel lamb r radd Sm) sc)).
    destruct (asweep_ranks (Nat.iter m (asweep K solve skel lamb r radd Sm) sc)) as (L & C & _); [lia|].
    rewrite L, C. auto. }
  destruct n as [|n]; [lia|]. destruct (G n) as [IL IC].
  change (Nat.iter (S n) (asweep K solve skel lamb r radd Sm) sc)
    with (asweep K solve skel lamb r radd Sm (Nat.iter n (asweep K solve skel lamb r radd Sm) sc)).
  destruct (asweep_ranks (Nat.iter n (asweep K solve skel lamb r radd Sm) sc)) as (L & C & B); [lia|].
  rewrite L, C, IL, IC. repeat split; auto. intros j Hj. apply B. lia.
Qed.

(* the rank-adaptive mode returns ranks <= r and keeps the number of cores and the mode sizes (d >= 3) *)
Lemma als_adaptive_ranks Y0 nswp Y : 3 <= length Y0 ->
  als_adaptive K solve orth skel Sm Y0 nswp r radd lamb = Ok Y ->
  map cn Y = map cn Y0 /\ forall j, S j < length Y -> cr2 (nth j Y dcore) <= r.
Proof.
  intros Hd. unfold als_adaptive.
  destruct (negb (check_slices Sm (orth Y0))); [discriminate|].
  destruct (negb (idx_ok Sm (orth Y0))); [discriminate|].
  assert (HN : 1 <= Nat.max 1 nswp) by lia. revert HN. generalize (Nat.max 1 nswp) as N. intros N HN.
  intros E. injection E as <-.
  assert (LO : length (orth Y0) = length Y0).
  { rewrite <- (map_length cn (orth Y0)), orth_shape. apply map_length. }
  destruct (iter_asweep_ranks N (init_st K Sm (orth Y0), O)) as (L & C & B).
  - unfold cores. cbn [fst init_st sY]. lia.
  - lia.
  - unfold cores in *. cbn [fst init_st sY] in *. split.
    + rewrite C. apply orth_shape.
    + intros j Hj. apply B. rewrite <- L. exact Hj.
Qed.
End Ada.
