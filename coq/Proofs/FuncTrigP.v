(* C12 at the reals: the number structure OR, the trigonometric oracles cos(pi m/N), sin(pi m/N),
   T_k(cos t) = cos(k t), discrete orthogonality of the DCT-I / DST-I kernels (all N), and from them
   exactness of the Chebyshev interpolation routines of Model/Func.v and Model/FuncFull.v. *)
From Coq Require Import List Arith Lia PeanoNat ZArith Bool Reals Lra Psatz.
From TV Require Import Num.Ops Lin.Tab Lin.BigSum Lin.Mat TT.Chain Model.Func Model.FuncFull
  Proofs.FuncP Proofs.FuncFullP.
Import ListNotations.
Local Open Scope R_scope.

(* ---------------------------------------------------------------- the reals as a number structure *)
Definition Rleb (a b : R) : bool := if Rle_dec a b then true else false.
Definition Rltb (a b : R) : bool := if Rlt_dec a b then true else false.
Definition Reqb (a b : R) : bool := if Req_EM_T a b then true else false.
Definition OR : ops R :=
  mkops R 0 1 Rplus Rmult Rminus Ropp Rdiv sqrt Rabs Rleb Rltb Reqb IZR (fun e => powerRZ 2 e).
Lemma OR_rng : rng OR. Proof. exact RTheory. Qed.
Ltac ror := cbn [OR o0 o1 oadd omul osub oopp odiv oofZ oltb oleb oabs] in *.
Lemma Rltb_true a b : Rltb a b = true <-> a < b.
Proof. unfold Rltb. destruct (Rlt_dec a b); split; auto; discriminate. Qed.
Lemma Rltb_false a b : Rltb a b = false <-> b <= a.
Proof. unfold Rltb. destruct (Rlt_dec a b); split; auto; try discriminate; lra. Qed.

(* sums over R *)
Notation rsum := (bsum OR).
Lemma rsum_S n f : rsum (S n) f = rsum n f + f n. Proof. reflexivity. Qed.
Lemma rsum_ext n f g : (forall i, (i < n)%nat -> f i = g i) -> rsum n f = rsum n g.
Proof. apply (bsum_ext OR). Qed.
Lemma rsum_scal n c f : rsum n (fun i => c * f i) = c * rsum n f.
Proof. apply (bsum_mul_l OR OR_rng). Qed.
Lemma rsum_plus n f g : rsum n (fun i => f i + g i) = rsum n f + rsum n g.
Proof. apply (bsum_add OR OR_rng). Qed.
Lemma rsum_const1 n : rsum n (fun _ => 1) = INR n.
Proof. induction n; [reflexivity|]. rewrite rsum_S, IHn, S_INR. reflexivity. Qed.

(* ---------------------------------------------------------------- oracles at R *)
Definition csR (N m : nat) : R := cos (PI * INR m / INR N).
Definition snR (N m : nat) : R := sin (PI * INR m / INR N).
Definition ssR (N i j : nat) : R :=
  2 * sin ((INR i * PI / INR N + INR j * PI / INR N) / 2) * sin ((INR i * PI / INR N - INR j * PI / INR N) / 2).

(* ---------------------------------------------------------------- T_k(cos t) = cos(k t) *)
Lemma chebT_cos t : forall k, chebT OR (cos t) k = cos (INR k * t) /\ chebT OR (cos t) (S k) = cos (INR (S k) * t).
Proof.
  induction k as [|k [IH1 IH2]].
  - split.
    + rewrite (chebT_0 OR). ror. cbn [INR]. now rewrite Rmult_0_l, cos_0.
    + rewrite (chebT_1 OR). cbn [INR]. now rewrite Rmult_1_l.
  - split; [exact IH2|]. rewrite (chebT_SS OR), IH1, IH2. unfold ftwo. ror.
    rewrite !S_INR.
    replace ((INR k + 1 + 1) * t) with ((INR k + 1) * t + t) by ring.
    replace (INR k * t) with ((INR k + 1) * t - t) by ring.
    rewrite cos_plus, cos_minus. ring.
Qed.
Lemma chebT_cos' t k : chebT OR (cos t) k = cos (INR k * t).
Proof. apply chebT_cos. Qed.

(* ---------------------------------------------------------------- multiples of pi *)
Lemma sin_nPI k : sin (INR k * PI) = 0.
Proof.
  induction k; [cbn [INR]; now rewrite Rmult_0_l, sin_0|].
  rewrite S_INR. replace ((INR k + 1) * PI) with (INR k * PI + PI) by ring. rewrite neg_sin, IHk. ring.
Qed.
Lemma pm_R k : pm OR k = cos (INR k * PI).
Proof.
  induction k; [unfold pm; cbn [Nat.even INR]; ror; now rewrite Rmult_0_l, cos_0|].
  rewrite S_INR. replace ((INR k + 1) * PI) with (INR k * PI + PI) by ring. rewrite neg_cos, <- IHk.
  unfold pm. rewrite Nat.even_succ, <- Nat.negb_even. unfold fm1. destruct (Nat.even k); cbn [negb]; ror; ring.
Qed.
Lemma cos_2nPI k : cos (INR k * (2 * PI)) = 1.
Proof.
  replace (INR k * (2 * PI)) with (0 + 2 * INR k * PI) by ring. rewrite cos_period. apply cos_0.
Qed.
Lemma sin_rPI_ne0 r : -1 < r < 1 -> r <> 0 -> sin (r * PI) <> 0.
Proof.
  intros [A B] C. pose proof PI_RGT_0 as HP. destruct (Rlt_dec 0 r) as [Hr|Hr].
  - assert (0 < sin (r * PI)); [apply sin_gt_0; nra | lra].
  - assert (0 < sin (- r * PI)); [apply sin_gt_0; nra |].
    replace (- r * PI) with (- (r * PI)) in H by ring. rewrite sin_neg in H. lra.
Qed.

(* ---------------------------------------------------------------- the telescoping cosine sum *)
Lemma two_sin_cos h t : 2 * sin h * cos t = sin (t + h) - sin (t - h).
Proof. rewrite sin_plus, sin_minus. ring. Qed.
Lemma cos_tele th : forall n,
  2 * sin (th / 2) * rsum n (fun j => cos (INR j * th)) = sin ((INR n - / 2) * th) + sin (th / 2).
Proof.
  induction n.
  - cbn [bsum INR]. ror. replace ((0 - / 2) * th) with (- (th / 2)) by field. rewrite sin_neg. ring.
  - rewrite rsum_S, Rmult_plus_distr_l, IHn, two_sin_cos, S_INR.
    replace (INR n * th + th / 2) with ((INR n + 1 - / 2) * th) by field.
    replace (INR n * th - th / 2) with ((INR n - / 2) * th) by field. ring.
Qed.

(* end weights of the trapezoid-like sum: 1 at j = 0 and j = N, 2 in between  (this is 2 * Sum'') *)
Definition ee (N j : nat) : R := if Nat.eqb j O then 1 else if Nat.eqb j N then 1 else 2.
Lemma ends_sum N g : (1 <= N)%nat -> rsum (S N) (fun j => ee N j * g j) = 2 * rsum (S N) g - g O - g N.
Proof.
  intros HN. destruct N as [|p]; [lia|].
  rewrite (rsum_S (S p) g), (rsum_S (S p) (fun j => ee (S p) j * g j)). rewrite !(bsum_S_l OR OR_rng). ror.
  rewrite (rsum_ext p (fun i => ee (S p) (S i) * g (S i)) (fun i => 2 * g (S i))).
  2:{ intros i Hi. unfold ee. cbn [Nat.eqb]. destruct (Nat.eqb_spec i p); [lia|reflexivity]. }
  rewrite rsum_scal. unfold ee. cbn [Nat.eqb]. rewrite Nat.eqb_refl. ring.
Qed.
Definition EE (N : nat) (th : R) : R := rsum (S N) (fun j => ee N j * cos (INR j * th)).
Lemma EE_sin N th : (1 <= N)%nat -> 2 * sin (th / 2) * EE N th = 2 * sin (INR N * th) * cos (th / 2).
Proof.
  intros HN. unfold EE. rewrite ends_sum by auto.
  transitivity (2 * (2 * sin (th / 2) * rsum (S N) (fun j => cos (INR j * th)))
                - 2 * sin (th / 2) * cos (INR 0 * th) - 2 * sin (th / 2) * cos (INR N * th)); [ring|].
  rewrite cos_tele, S_INR. cbn [INR]. rewrite Rmult_0_l, cos_0.
  replace ((INR N + 1 - / 2) * th) with (INR N * th + th / 2) by field. rewrite sin_plus. ring.
Qed.
Lemma EE_zero N th : (1 <= N)%nat -> sin (INR N * th) = 0 -> sin (th / 2) <> 0 -> EE N th = 0.
Proof.
  intros HN H0 H1. pose proof (EE_sin N th HN) as E. rewrite H0 in E.
  assert (sin (th / 2) * EE N th = 0) by lra. apply Rmult_integral in H. tauto.
Qed.
Lemma EE_full N th : (1 <= N)%nat -> (forall j, cos (INR j * th) = 1) -> EE N th = 2 * INR N.
Proof.
  intros HN H. unfold EE. rewrite ends_sum by auto. rewrite !H.
  rewrite (rsum_ext (S N) _ (fun _ => 1)) by (intros; apply H). rewrite rsum_const1, S_INR. ring.
Qed.

(* ---------------------------------------------------------------- DCT-I orthogonality, all N >= 1 *)
Definition ang (N k : nat) : R := PI * INR k / INR N.
Definition SS2 (N a b : nat) : R := rsum (S N) (fun j => ee N j * (cos (INR j * ang N a) * cos (INR j * ang N b))).
Lemma SS2_EE N a b : SS2 N a b = (EE N (ang N a - ang N b) + EE N (ang N a + ang N b)) / 2.
Proof.
  unfold SS2, EE. unfold Rdiv. rewrite <- rsum_plus. rewrite Rmult_comm, <- rsum_scal. apply rsum_ext; intros j Hj.
  cbv beta. replace (INR j * (ang N a - ang N b)) with (INR j * ang N a - INR j * ang N b) by ring.
  replace (INR j * (ang N a + ang N b)) with (INR j * ang N a + INR j * ang N b) by ring.
  rewrite cos_minus, cos_plus. field.
Qed.
Lemma INR_N_pos N : (1 <= N)%nat -> 0 < INR N.
Proof. intros H. apply lt_0_INR. lia. Qed.
(* 2 * Sum''_{j=0..N} cos(pi j a/N) cos(pi j b/N)  =  0 (a<>b),  N (a=b interior),  2N (a=b in {0,N}) *)
Theorem dct_orthogonal N a b : (1 <= N)%nat -> (a <= N)%nat -> (b <= N)%nat ->
  SS2 N a b = if Nat.eqb a b then (if Nat.eqb a O || Nat.eqb a N then 2 * INR N else INR N) else 0.
Proof.
  intros HN Ha Hb. pose proof (INR_N_pos N HN) as HP. pose proof PI_RGT_0 as Hpi.
  assert (Ia : 0 <= INR a <= INR N) by (split; [apply pos_INR | apply le_INR; auto]).
  assert (Ib : 0 <= INR b <= INR N) by (split; [apply pos_INR | apply le_INR; auto]).
  rewrite SS2_EE. destruct (Nat.eqb_spec a b) as [->|Hne].
  - replace (ang N b - ang N b) with 0 by ring.
    rewrite (EE_full N 0) by (auto; intros; now rewrite Rmult_0_r, cos_0).
    destruct (Nat.eqb_spec b O) as [->|H0]; [|destruct (Nat.eqb_spec b N) as [->|H1]]; cbn [orb].
    + unfold ang. cbn [INR]. replace (PI * 0 / INR N + PI * 0 / INR N) with 0 by (field; lra).
      rewrite (EE_full N 0) by (auto; intros; now rewrite Rmult_0_r, cos_0). field.
    + replace (ang N N + ang N N) with (2 * PI) by (unfold ang; field; lra).
      rewrite (EE_full N (2 * PI)) by (auto; intros; apply cos_2nPI). field.
    + rewrite EE_zero; [field | auto | |].
      * replace (INR N * (ang N b + ang N b)) with (INR (2 * b) * PI) by (rewrite mult_INR; unfold ang; cbn [INR]; field; lra).
        apply sin_nPI.
      * replace ((ang N b + ang N b) / 2) with (INR b / INR N * PI) by (unfold ang; field; lra).
        assert (0 < INR b) by (apply lt_0_INR; lia). assert (INR b < INR N) by (apply lt_INR; lia).
        assert (E : INR b / INR N * INR N = INR b) by (field; lra).
        apply sin_rPI_ne0; [split; nra | nra].
  - assert (Hd : INR a <> INR b) by (intros E; apply INR_eq in E; auto).
    rewrite !EE_zero; [field | auto | | | auto | |].
    + replace (INR N * (ang N a + ang N b)) with (INR (a + b) * PI) by (rewrite plus_INR; unfold ang; field; lra).
      apply sin_nPI.
    + replace ((ang N a + ang N b) / 2) with ((INR a + INR b) / (2 * INR N) * PI) by (unfold ang; field; lra).
      assert (E : (INR a + INR b) / (2 * INR N) * (2 * INR N) = INR a + INR b) by (field; lra).
      assert (0 < INR a + INR b).
      { destruct a, b; try lia; rewrite ?S_INR in *; cbn [INR] in *; lra. }
      assert (INR a + INR b < 2 * INR N).
      { assert (a + b < 2 * N)%nat by lia. apply lt_INR in H0. rewrite plus_INR, mult_INR in H0. cbn [INR] in H0. lra. }
      apply sin_rPI_ne0; [split; nra | nra].
    + replace (INR N * (ang N a - ang N b)) with (INR a * PI - INR b * PI) by (unfold ang; field; lra).
      rewrite sin_minus, !sin_nPI. ring.
    + replace ((ang N a - ang N b) / 2) with ((INR a - INR b) / (2 * INR N) * PI) by (unfold ang; field; lra).
      assert (E : (INR a - INR b) / (2 * INR N) * (2 * INR N) = INR a - INR b) by (field; lra).
      apply sin_rPI_ne0; [split; nra | nra].
Qed.

(* ---------------------------------------------------------------- DST-I orthogonality, all M >= 1 *)
Definition SSs (M a b : nat) : R := rsum (S M) (fun j => ee M j * (sin (INR j * ang M a) * sin (INR j * ang M b))).
Lemma rsum_minus n f g : rsum n (fun i => f i - g i) = rsum n f - rsum n g.
Proof. apply (bsum_sub OR OR_rng). Qed.
Lemma SSs_EE M a b : SSs M a b = (EE M (ang M a - ang M b) - EE M (ang M a + ang M b)) / 2.
Proof.
  unfold SSs, EE. unfold Rdiv. rewrite <- rsum_minus. rewrite Rmult_comm, <- rsum_scal. apply rsum_ext; intros j Hj.
  cbv beta. replace (INR j * (ang M a - ang M b)) with (INR j * ang M a - INR j * ang M b) by ring.
  replace (INR j * (ang M a + ang M b)) with (INR j * ang M a + INR j * ang M b) by ring.
  rewrite cos_minus, cos_plus. field.
Qed.
(* 2 * Sum_{j=1..M-1} sin(pi j a/M) sin(pi j b/M) = M (a = b), 0 (a <> b), for 1 <= a, b <= M-1 *)
Theorem dst_orthogonal M a b : (1 <= a < M)%nat -> (1 <= b < M)%nat ->
  SSs M a b = if Nat.eqb a b then INR M else 0.
Proof.
  intros Ha Hb. assert (HN : (1 <= M)%nat) by lia. pose proof (INR_N_pos M HN) as HP. pose proof PI_RGT_0 as Hpi.
  assert (Ia : 0 < INR a < INR M) by (split; [apply lt_0_INR | apply lt_INR]; lia).
  assert (Ib : 0 < INR b < INR M) by (split; [apply lt_0_INR | apply lt_INR]; lia).
  rewrite SSs_EE. destruct (Nat.eqb_spec a b) as [->|Hne].
  - replace (ang M b - ang M b) with 0 by ring.
    rewrite (EE_full M 0) by (auto; intros; now rewrite Rmult_0_r, cos_0).
    rewrite EE_zero; [field | auto | |].
    + replace (INR M * (ang M b + ang M b)) with (INR (2 * b) * PI) by (rewrite mult_INR; unfold ang; cbn [INR]; field; lra).
      apply sin_nPI.
    + replace ((ang M b + ang M b) / 2) with (INR b / INR M * PI) by (unfold ang; field; lra).
      assert (E : INR b / INR M * INR M = INR b) by (field; lra).
      apply sin_rPI_ne0; [split; nra | nra].
  - assert (Hd : INR a <> INR b) by (intros E; apply INR_eq in E; auto).
    rewrite !EE_zero; [field | auto | | | auto | |].
    + replace (INR M * (ang M a + ang M b)) with (INR (a + b) * PI) by (rewrite plus_INR; unfold ang; field; lra).
      apply sin_nPI.
    + replace ((ang M a + ang M b) / 2) with ((INR a + INR b) / (2 * INR M) * PI) by (unfold ang; field; lra).
      assert (E : (INR a + INR b) / (2 * INR M) * (2 * INR M) = INR a + INR b) by (field; lra).
      apply sin_rPI_ne0; [split; nra | nra].
    + replace (INR M * (ang M a - ang M b)) with (INR a * PI - INR b * PI) by (unfold ang; field; lra).
      rewrite sin_minus, !sin_nPI. ring.
    + replace ((ang M a - ang M b) / 2) with ((INR a - INR b) / (2 * INR M) * PI) by (unfold ang; field; lra).
      assert (E : (INR a - INR b) / (2 * INR M) * (2 * INR M) = INR a - INR b) by (field; lra).
      apply sin_rPI_ne0; [split; nra | nra].
Qed.

(* ---------------------------------------------------------------- the model's matrices at R *)
Lemma Hdiv_R : forall x y : R, odiv OR x y = omul OR x (odiv OR (o1 OR) y).
Proof. intros. ror. unfold Rdiv. ring. Qed.
Lemma fnat_R n : fnat OR n = INR n.
Proof. unfold fnat. ror. symmetry. apply INR_IZR_INZ. Qed.
Lemma wd_R N k j : (1 <= N)%nat -> wd OR csR (S N) k j = ee N j * cos (INR j * ang N k).
Proof.
  intros HN. pose proof (INR_N_pos N HN) as HP. unfold wd, ee. replace (S N - 1)%nat with N by lia.
  destruct (Nat.eqb_spec j O) as [->|H0].
  - cbn [INR]. ror. rewrite Rmult_0_l, cos_0. ring.
  - destruct (Nat.eqb_spec j N) as [->|H1].
    + rewrite pm_R. replace (INR N * ang N k) with (INR k * PI) by (unfold ang; field; lra). ring.
    + unfold ftwo, csR. ror. rewrite mult_INR. replace (PI * (INR j * INR k) / INR N) with (INR j * ang N k) by (unfold ang; field; lra).
      ring.
Qed.
Lemma hfac_R N k : (1 <= N)%nat -> hfac OR (S N) k = ee N k / 2.
Proof.
  intros HN. unfold hfac, ee, ftwo. replace (S N - 1)%nat with N by lia. ror.
  destruct (Nat.eqb_spec k O); destruct (Nat.eqb_spec k N); try lia; field.
Qed.
Lemma nodeU_R N j : (1 <= N)%nat -> nodeU OR csR (S N) j = cos (ang N j).
Proof.
  intros HN. unfold nodeU, ind_to_poi_cheb, fm1, ftwo, csR. replace (S N - 1)%nat with N by lia. ror. fold (ang N j). field.
Qed.
Lemma getsM_cheb_R N j m : (1 <= N)%nat -> getsM OR csR snR Cheb (S N) j m = cos (INR j * ang N m).
Proof.
  intros HN. pose proof (INR_N_pos N HN) as HP. unfold getsM. rewrite nodeU_R, chebT_cos' by auto. f_equal. unfold ang. field. lra.
Qed.
(* coefficient transform after sampling a Chebyshev polynomial: the identity (1-D) *)
Lemma dmat_gets_R N k m : (1 <= N)%nat -> (k <= N)%nat -> (m <= N)%nat ->
  rsum (S N) (fun j => dmat OR csR (S N) k j * getsM OR csR snR Cheb (S N) j m) = delta OR k m.
Proof.
  intros HN Hk Hm. pose proof (INR_N_pos N HN) as HP.
  rewrite (rsum_ext (S N) _ (fun j => (1 / INR N * (ee N k / 2)) * (ee N j * (cos (INR j * ang N k) * cos (INR j * ang N m))))).
  2:{ intros j Hj. unfold dmat. rewrite wd_R, getsM_cheb_R, hfac_R by auto. replace (S N - 1)%nat with N by lia.
      rewrite fnat_R. ror. ring. }
  rewrite rsum_scal. fold (SS2 N k m). rewrite dct_orthogonal by auto. unfold delta, ee. ror.
  destruct (Nat.eqb_spec k m); [|field; lra].
  destruct (Nat.eqb_spec k O); destruct (Nat.eqb_spec k N); try lia; cbn [orb]; field; lra.
Qed.
(* sampling after the coefficient transform: the identity (1-D) *)
Lemma gets_dmat_R N j i : (1 <= N)%nat -> (j <= N)%nat -> (i <= N)%nat ->
  rsum (S N) (fun k => getsM OR csR snR Cheb (S N) j k * dmat OR csR (S N) k i) = delta OR j i.
Proof.
  intros HN Hj Hi. pose proof (INR_N_pos N HN) as HP.
  rewrite (rsum_ext (S N) _ (fun k => (1 / INR N * (ee N i / 2)) * (ee N k * (cos (INR k * ang N j) * cos (INR k * ang N i))))).
  2:{ intros k Hk. unfold dmat. rewrite wd_R, getsM_cheb_R, hfac_R by auto. replace (S N - 1)%nat with N by lia.
      rewrite fnat_R. ror. replace (INR j * ang N k) with (INR k * ang N j) by (unfold ang; field; lra).
      replace (INR i * ang N k) with (INR k * ang N i) by (unfold ang; field; lra). unfold Rdiv. ring. }
  rewrite rsum_scal. fold (SS2 N j i). rewrite dct_orthogonal by auto. unfold delta, ee. ror.
  destruct (Nat.eqb_spec j i) as [->|]; [|field; lra].
  destruct (Nat.eqb_spec i O); destruct (Nat.eqb_spec i N); try lia; cbn [orb]; field; lra.
Qed.
(* sine kind: sampling on the same grid after the DST-I coefficient transform is the identity (1-D) *)
Lemma gets_smat_R n j l : (j < n)%nat -> (l < n)%nat ->
  rsum n (fun i => getsM OR csR snR Sin n j i * smat OR snR n i l) = delta OR j l.
Proof.
  intros Hj Hl. set (M := S n). assert (HM : (1 <= M)%nat) by (unfold M; lia). pose proof (INR_N_pos M HM) as HP.
  assert (E : rsum n (fun i => 2 * (sin (INR (S i) * ang M (S j)) * sin (INR (S i) * ang M (S l)))) = SSs M (S j) (S l)).
  { unfold SSs. rewrite (rsum_S (S n)). rewrite (bsum_S_l OR OR_rng). ror. fold M.
    change (INR O) with 0. rewrite !Rmult_0_l, sin_0.
    replace (INR M * ang M (S j)) with (INR (S j) * PI) by (unfold ang; field; lra). rewrite sin_nPI.
    rewrite (rsum_ext n (fun i => ee M (S i) * _) (fun i => 2 * (sin (INR (S i) * ang M (S j)) * sin (INR (S i) * ang M (S l))))).
    2:{ intros i Hi. unfold ee. change (Nat.eqb (S i) O) with false. cbv iota.
        destruct (Nat.eqb_spec (S i) M); [unfold M in *; lia|reflexivity]. }
    ring. }
  rewrite (rsum_ext n _ (fun i => (1 / INR M) * (2 * (sin (INR (S i) * ang M (S j)) * sin (INR (S i) * ang M (S l)))))).
  2:{ intros i Hi. unfold getsM, smat, snR, ftwo. rewrite fnat_R. replace (n + 1)%nat with M by (unfold M; lia). ror.
      rewrite !mult_INR. replace (j + 1)%nat with (S j) by lia. replace (i + 1)%nat with (S i) by lia. replace (l + 1)%nat with (S l) by lia.
      replace (PI * (INR (S j) * INR (S i)) / INR M) with (INR (S i) * ang M (S j)) by (unfold ang; field; lra).
      replace (PI * (INR (S i) * INR (S l)) / INR M) with (INR (S i) * ang M (S l)) by (unfold ang; field; lra). ring. }
  rewrite rsum_scal, E, dst_orthogonal by (unfold M; lia). unfold delta. cbn [Nat.eqb]. ror.
  destruct (Nat.eqb_spec j l); field; lra.
Qed.
