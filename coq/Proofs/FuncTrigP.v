(* C12 at the reals: the number structure OR, the trigonometric oracles cos(pi m/N), sin(pi m/N),
   T_k(cos t) = cos(k t), discrete orthogonality of the DCT-I / DST-I kernels (all N), and from them
   exactness of the Chebyshev interpolation routines of Model/Func.v and Model/FuncFull.v. *)
From Coq Require Import List Arith Lia PeanoNat ZArith Bool Reals Lra Psatz.
From TV Require Import Num.Ops Lin.Tab Lin.BigSum Lin.Mat TT.Chain Model.Func Model.FuncFull
  Proofs.FuncP Proofs.FuncFullP.
Import ListNotations.
Local Open Scope R_scope.

(* ---------------------------------------------------------------- the reals as a number structure *)
Definition Rleb (a b : R) : bool := if Rle_dec a b then true else false.
Definition Rltb (a b : R) : bool := if Rlt_dec a b then true else false.
Definition Reqb (a b : R) : bool := if Req_EM_T a b then true else false.
Definition OR : ops R :=
  mkops R 0 1 Rplus Rmult Rminus Ropp Rdiv sqrt Rabs Rleb Rltb Reqb IZR (fun e => powerRZ 2 e).
Lemma OR_rng : rng OR. Proof. exact RTheory. Qed.
Ltac ror := cbn [OR o0 o1 oadd omul osub oopp odiv oofZ oltb oleb oabs] in *.
Lemma Rltb_true a b : Rltb a b = true <-> a < b.
Proof. unfold Rltb. destruct (Rlt_dec a b); split; auto; discriminate. Qed.
Lemma Rltb_false a b : Rltb a b = false <-> b <= a.
Proof. unfold Rltb. destruct (Rlt_dec a b); split; auto; try discriminate; lra. Qed.

(* sums over R *)
Notation rsum := (bsum OR).
Lemma rsum_S n f : rsum (S n) f = rsum n f + f n. Proof. reflexivity. Qed.
Lemma rsum_ext n f g : (forall i, (i < n)%nat -> f i = g i) -> rsum n f = rsum n g.
Proof. apply (bsum_ext OR). Qed.
Lemma rsum_scal n c f : rsum n (fun i => c * f i) = c * rsum n f.
Proof. apply (bsum_mul_l OR OR_rng). Qed.
Lemma rsum_plus n f g : rsum n (fun i => f i + g i) = rsum n f + rsum n g.
Proof. apply (bsum_add OR OR_rng). Qed.
Lemma rsum_const1 n : rsum n (fun _ => 1) = INR n.
Proof. induction n; [reflexivity|]. rewrite rsum_S, IHn, S_INR. reflexivity. Qed.

(* ---------------------------------------------------------------- oracles at R *)
Definition csR (N m : nat) : R := cos (PI * INR m / INR N).
Definition snR (N m : nat) : R := sin (PI * INR m / INR N).
Definition ssR (N i j : nat) : R :=
  2 * sin ((INR i * PI / INR N + INR j * PI / INR N) / 2) * sin ((INR i * PI / INR N - INR j * PI / INR N) / 2).

(* ---------------------------------------------------------------- T_k(cos t) = cos(k t) *)
Lemma chebT_cos t : forall k, chebT OR (cos t) k = cos (INR k * t) /\ chebT OR (cos t) (S k) = cos (INR (S k) * t).
Proof.
  induction k as [|k [IH1 IH2]].
  - split.
    + rewrite (chebT_0 OR). ror. cbn [INR]. now rewrite Rmult_0_l, cos_0.
    + rewrite (chebT_1 OR). cbn [INR]. now rewrite Rmult_1_l.
  - split; [exact IH2|]. rewrite (chebT_SS OR), IH1, IH2. unfold ftwo. ror.
    rewrite !S_INR.
    replace ((INR k + 1 + 1) * t) with ((INR k + 1) * t + t) by ring.
    replace (INR k * t) with ((INR k + 1) * t - t) by ring.
    rewrite cos_plus, cos_minus. ring.
Qed.
Lemma chebT_cos' t k : chebT OR (cos t) k = cos (INR k * t).
Proof. apply chebT_cos. Qed.
