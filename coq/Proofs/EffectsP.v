(* C10 -- soundness of the effect checker (noninterference).  Lemmas only.
   Part 1: boolean reflection, the relation between two worlds, simulation of the events other than calls. *)
From Coq Require Import String List Bool Arith ZArith Lia.
From TV Require Import Model.Effects.
Import ListNotations.

Local Arguments timing : simpl never.
Local Arguments memk : simpl never.
Local Arguments mems : simpl never.
Local Arguments nontiming : simpl never.

(* ------------------------------------------------------------------------------------------------ *)
(* boolean reflection and list lookups                                                               *)
(* ------------------------------------------------------------------------------------------------ *)

Lemma dloc_eqb_eq a b : dloc_eqb a b = true <-> a = b.
Proof.
  destruct a as [a1 a2], b as [b1 b2]; unfold dloc_eqb; cbn. rewrite andb_true_iff, !String.eqb_eq.
  split; [intros [-> ->]; reflexivity | intros H; inversion H; auto].
Qed.

Lemma dloc_eqb_refl a : dloc_eqb a a = true.
Proof. apply dloc_eqb_eq; reflexivity. Qed.

Lemma dkey_eqb_eq a b : dkey_eqb a b = true <-> a = b.
Proof.
  destruct a as [a1 a2], b as [b1 b2]; unfold dkey_eqb; cbn. rewrite andb_true_iff, dloc_eqb_eq, String.eqb_eq.
  split; [intros [-> ->]; reflexivity | intros H; inversion H; auto].
Qed.

Lemma memk_In k l : memk k l = true <-> In k l.
Proof.
  unfold memk. rewrite existsb_exists. split.
  - intros [x [Hx He]]. apply dkey_eqb_eq in He. subst; assumption.
  - intros H. exists k. split; [assumption | apply dkey_eqb_eq; reflexivity].
Qed.

Lemma mems_In k l : mems k l = true <-> In k l.
Proof.
  unfold mems. rewrite existsb_exists. split.
  - intros [x [Hx He]]. apply String.eqb_eq in He. subst; assumption.
  - intros H. exists k. split; [assumption | apply String.eqb_refl].
Qed.

Lemma memc_In c t : memc c t = true <-> In c t.
Proof. unfold memc. destruct (in_dec actx_eq_dec c t); split; auto; discriminate. Qed.

Lemma lookup_map {A B} (f : A -> B) l x :
  lookup (map (fun p => (fst p, f (snd p))) l) x = option_map f (lookup l x).
Proof. induction l as [|[y a] r IH]; cbn; [reflexivity|]. destruct (String.eqb x y); [reflexivity | exact IH]. Qed.

Lemma lookup_In {A} (l : list (string * A)) x v : lookup l x = Some v -> In (x, v) l.
Proof.
  induction l as [|[y a] r IH]; cbn; [discriminate|]. destruct (String.eqb x y) eqn:E.
  - intros H; inversion H; subst. apply String.eqb_eq in E. subst. left; reflexivity.
  - intros H; right; auto.
Qed.

Lemma find_fn_name api f g : find_fn api f = Some g -> fname g = f.
Proof.
  induction api as [|h r IH]; cbn; [discriminate|]. destruct (String.eqb f (fname h)) eqn:E.
  - intros H; inversion H; subst. apply String.eqb_eq in E. auto.
  - exact IH.
Qed.

Lemma oaval_eqb_eq a b : oaval_eqb a b = true -> a = b.
Proof. destruct a as [[]|], b as [[]|]; cbn; try discriminate; reflexivity. Qed.

Lemma addk_spec l k cl x : memk x (addk l k cl) = true -> memk x cl = true \/ x = (l, k).
Proof.
  unfold addk. destruct (timing k); [auto|]. destruct (memk (l, k) cl); [auto|].
  rewrite !memk_In. cbn. intros [H|H]; auto.
Qed.

Lemma addk_mono l k cl x : memk x cl = true -> memk x (addk l k cl) = true.
Proof.
  unfold addk. destruct (timing k); [auto|]. destruct (memk (l, k) cl); [auto|].
  rewrite !memk_In. cbn. auto.
Qed.

Lemma addk_new l k cl : timing k = false -> memk (l, k) (addk l k cl) = true.
Proof.
  unfold addk. intros ->. destruct (memk (l, k) cl) eqn:E; [assumption|]. apply memk_In. left; reflexivity.
Qed.

Lemma addks_spec l ks : forall cl x, memk x (addks l ks cl) = true -> memk x cl = true \/ (fst x = l /\ In (snd x) ks).
Proof.
  induction ks as [|k r IH]; cbn; intros cl x H; [auto|].
  apply IH in H. destruct H as [H|[H1 H2]]; [|auto].
  apply addk_spec in H. destruct H as [H|H]; [auto|]. subst x. cbn. auto.
Qed.

Lemma inter_spec a b x : memk x (inter a b) = true -> memk x a = true /\ memk x b = true.
Proof.
  unfold inter. rewrite memk_In, filter_In. intros [H1 H2]. split; [apply memk_In; assumption | assumption].
Qed.

Lemma restrict_sub U cl de x : memk x (restrict U cl de) = true -> memk x cl = true.
Proof.
  unfold restrict. rewrite memk_In, in_flat_map. intros [l [_ H]]. apply in_map_iff in H.
  destruct H as [k [<- H]]. apply filter_In in H. apply H.
Qed.

Lemma reset_keys_spec {V} (wval : nat -> string -> list (obs V) -> option V) s h l ks : forall d l' k',
  reset_keys V wval s h d l ks l' k' = if dloc_eqb l' l && mems k' ks then wval s k' h else d l' k'.
Proof.
  induction ks as [|k r IH]; intros d l' k'; cbn [reset_keys].
  - unfold mems; cbn. rewrite andb_false_r. reflexivity.
  - rewrite IH. unfold upd_dd, mems. cbn [existsb]. fold (mems k' r).
    destruct (dloc_eqb l' l); cbn; [|reflexivity].
    destruct (mems k' r); [rewrite orb_true_r; reflexivity|]. rewrite orb_false_r.
    destruct (String.eqb k' k) eqn:E; [|reflexivity]. apply String.eqb_eq in E. subst. reflexivity.
Qed.

(* ------------------------------------------------------------------------------------------------ *)
(* two worlds                                                                                        *)
(* ------------------------------------------------------------------------------------------------ *)

Section Sim.
  Variables Sg V : Type.
  Variable draw : nat -> list (obs V) -> Sg -> V * Sg.
  Variable decide : nat -> list (obs V) -> bool.
  Variable wval : nat -> string -> list (obs V) -> option V.
  Variable wany : list (obs V) -> (string -> option V) -> string -> option V.
  Variable init : Z -> Sg.
  Variable ent_draw : Sg -> Sg * Sg.
  Variable clock : Sg -> V * Sg.
  Variable U : dloc -> list string.
  Variable api : list fn.
  Variable P : nat -> Prop.              (* the generator objects the call may use *)

  Local Notation state := (state Sg V).
  Local Notation hist := (hist Sg V).
  Local Notation lg := (lg Sg V).
  Local Notation gs := (gs Sg V).
  Local Notation ent := (ent Sg V).
  Local Notation ck := (ck Sg V).
  Local Notation ext := (ext Sg V).
  Local Notation dd := (dd Sg V).
  Local Notation obsv := (obsv Sg V).
  Local Notation step := (step Sg V draw wval wany init ent_draw clock U).
  Local Notation exec := (exec Sg V draw decide wval wany init ent_draw clock U api).
  Local Notation stable := (no_new_difference Sg V).
  Local Notation outside := (untouched_outside Sg V P).
  Local Notation confined := (confined Sg V U).

  Record Rel (a b : state) : Prop := mkRel {
    r_hist : hist a = hist b;
    r_lg : lg a = lg b;
    r_ext : forall k, P k -> ext a k = ext b k;
    r_c1 : confined a;
    r_c2 : confined b }.

  Definition agree (cl : list dkey) (a b : state) : Prop :=
    forall l k, memk (l, k) cl = true -> timing k = false -> dd a l k = dd b l k.

  Definition sval_ok (v : sval) : Prop := match v with VGenExt k => P k | _ => True end.
  Definition cfn_ok (c : cfn) : Prop :=
    match c with CFClos _ cap => forall x v, In (x, v) cap -> sval_ok v | _ => True end.
  Definition frame_ok (fr : frame) : Prop :=
    (forall x v, In (x, v) (senv fr) -> sval_ok v) /\ (forall p c, In (p, c) (fenv fr) -> cfn_ok c).

  Definition typed (env : list (string * aval)) (de : list (string * cloc)) (fe : list (string * afn)) (fr : frame) : Prop :=
    (forall x v, lookup (senv fr) x = Some v -> lookup env x = Some (abs_val v)) /\
    denv fr = de /\ map (fun pc => (fst pc, abs_fn (snd pc))) (fenv fr) = fe.

  Definition Concl env de fe (r : res) (a b : state) (f : flag) (fr' : frame) (a' b' : state) : Prop :=
    typed env de fe fr' /\ frame_ok fr' /\ Rel a' b' /\ stable a b a' b' /\ outside a a' /\
    (f = FN -> exists cl', rpost r = Some cl' /\ agree cl' a' b').

  Lemma stable_refl a b : stable a b a b.
  Proof. intros l k _ H; exact H. Qed.
  Lemma stable_trans a b a1 b1 a2 b2 : stable a b a1 b1 -> stable a1 b1 a2 b2 -> stable a b a2 b2.
  Proof. intros H1 H2 l k Hk H. apply H2; auto. Qed.
  Lemma outside_refl a : outside a a.
  Proof. repeat split; reflexivity. Qed.
  Lemma outside_trans a a1 a2 : outside a a1 -> outside a1 a2 -> outside a a2.
  Proof.
    intros [H1 [H2 H3]] [G1 [G2 G3]]. repeat split.
    - rewrite G1; exact H1. - rewrite G2; exact H2. - intros k Hk. rewrite G3, H3; auto.
  Qed.
  Lemma agree_stable cl a b a' b' : agree cl a b -> stable a b a' b' -> agree cl a' b'.
  Proof. intros H1 H2 l k Hm Hk. apply H2; auto. Qed.
  Lemma agree_sub cl cl' a b : (forall x, memk x cl = true -> memk x cl' = true) -> agree cl' a b -> agree cl a b.
  Proof. intros Hs H l k Hm Hk. apply H; auto. Qed.

  Lemma typed_set_senv env de fe fr x v :
    typed env de fe fr -> lookup env x = Some (abs_val v) -> typed env de fe (set_senv fr x v).
  Proof.
    intros [H1 [H2 H3]] Hx. repeat split; [|exact H2|exact H3].
    intros y w. cbn. destruct (String.eqb y x) eqn:E.
    - intros H; inversion H; subst. apply String.eqb_eq in E. subst. exact Hx.
    - apply H1.
  Qed.

  Lemma ok_set_senv fr x v : frame_ok fr -> sval_ok v -> frame_ok (set_senv fr x v).
  Proof.
    intros [H1 H2] Hv. split; [|exact H2]. cbn. intros y w [H|H]; [inversion H; subst; exact Hv | eauto].
  Qed.

  Lemma loc_of_typed env de fe fr d : typed env de fe fr -> loc_of fr d = aloc_of de d.
  Proof. intros [_ [H _]]. unfold loc_of, aloc_of. rewrite H. reflexivity. Qed.

  (* state updates that keep the worlds related *)
  Lemma Rel_obsv a b o : Rel a b -> Rel (obsv a o) (obsv b o).
  Proof. intros [H1 H2 H3 H4 H5]. constructor; cbn; auto. rewrite H1; reflexivity. Qed.

  Lemma Rel_set_lg a b l : Rel a b -> Rel (set_lg Sg V a l) (set_lg Sg V b l).
  Proof. intros [H1 H2 H3 H4 H5]. constructor; cbn; auto. Qed.

  Lemma Rel_set_ck a b c1 c2 : Rel a b -> Rel (set_ck Sg V a c1) (set_ck Sg V b c2).
  Proof. intros [H1 H2 H3 H4 H5]. constructor; cbn; auto. Qed.

  Lemma Rel_set_dd a b d1 d2 :
    Rel a b -> (forall l k, mems k (U l) = false -> d1 l k = None) -> (forall l k, mems k (U l) = false -> d2 l k = None) ->
    Rel (set_dd Sg V a d1) (set_dd Sg V b d2).
  Proof. intros [H1 H2 H3 H4 H5] G1 G2. constructor; cbn; auto. Qed.

  Lemma Rel_set_ext a b k s : Rel a b -> Rel (set_ext Sg V a k s) (set_ext Sg V b k s).
  Proof.
    intros [H1 H2 H3 H4 H5]. constructor; cbn; auto. intros j Hj. destruct (Nat.eqb j k); auto.
  Qed.

  Ltac inv H := inversion H; subst; clear H.
  Ltac csplit := unfold Concl; split; [|split; [|split; [|split; [|split]]]].

  (* a step that leaves the dictionaries alone and the frame typed *)
  Lemma concl_nodd env de fe r a b fr' a' b' cl :
    typed env de fe fr' -> frame_ok fr' -> Rel a' b' -> dd a' = dd a -> dd b' = dd b -> outside a a' ->
    agree cl a b -> rpost r = Some cl -> Concl env de fe r a b FN fr' a' b'.
  Proof.
    intros Ht Ho HR Ha Hb Hout Hag Hp. csplit; try assumption.
    - intros l k _. rewrite Ha, Hb. auto.
    - intros _. exists cl. split; [assumption|]. intros l k Hm Hk. rewrite Ha, Hb. auto.
  Qed.

  Lemma concl_exc env de fe r a b fr f : f <> FN ->
    typed env de fe fr -> frame_ok fr -> Rel a b -> Concl env de fe r a b f fr a b.
  Proof.
    intros Hf Ht Ho HR. csplit; try assumption.
    - apply stable_refl. - apply outside_refl. - intros C; contradiction.
  Qed.

  Lemma new_gen_sim env de fe r fr a b x g cl :
    typed env de fe fr -> frame_ok fr -> Rel a b -> agree cl a b -> rpost r = Some cl ->
    lookup env x = Some AGenDet ->
    exists b', (let (fr', st') := new_gen Sg V fr b x g in (FN, fr', st')) =
               (FN, fst (new_gen Sg V fr a x g), b') /\
               Concl env de fe r a b FN (fst (new_gen Sg V fr a x g)) (snd (new_gen Sg V fr a x g)) b'.
  Proof.
    intros Ht Ho HR Hag Hp Hx. unfold new_gen. cbn [fst snd].
    exists (set_lg Sg V b (lg b ++ [g])). rewrite (r_lg _ _ HR). split; [reflexivity|].
    eapply concl_nodd; eauto.
    - apply typed_set_senv; [assumption|]. exact Hx.
    - apply ok_set_senv; [assumption|exact I].
    - rewrite <- (r_lg _ _ HR). apply Rel_set_lg. assumption.
    - apply outside_refl.
  Qed.

  Definition plain (e : event) : Prop := match e with Call _ _ _ _ _ | CallParam _ _ => False | _ => True end.

  Lemma upd_dd_confined (d : dloc -> string -> option V) l k v :
    (forall l k, mems k (U l) = false -> d l k = None) -> mems k (U l) = true ->
    forall l' k', mems k' (U l') = false -> upd_dd V d l k v l' k' = None.
  Proof.
    intros Hd Hk l' k' H. unfold upd_dd. destruct (dloc_eqb l' l) eqn:E1; cbn; [|auto].
    destruct (String.eqb k' k) eqn:E2; [|auto]. apply dloc_eqb_eq in E1. apply String.eqb_eq in E2. subst. congruence.
  Qed.

  Lemma step_sim : forall e env de fe cl fr a b f fr' a',
    plain e ->
    rok (chk_event U api env de fe e cl) = true ->
    typed env de fe fr -> frame_ok fr -> Rel a b -> agree cl a b ->
    step e fr a = (f, fr', a') ->
    exists b', step e fr b = (f, fr', b') /\ Concl env de fe (chk_event U api env de fe e cl) a b f fr' a' b'.
  Proof.
    intros e env de fe cl fr a b f fr' a' Hpl Hck Ht Ho HR Hag Hst.
    pose proof (r_hist _ _ HR) as Hh. pose proof (r_lg _ _ HR) as Hl.
    destruct e; cbn [plain] in Hpl; try contradiction; cbn [step chk_event] in *.
    - (* MkGen x y *)
      destruct (lookup (senv fr) y) as [v|] eqn:Ly.
      + pose proof (proj1 Ht _ _ Ly) as Ey. rewrite Ey in *.
        destruct v; cbn [abs_val mk_of] in *; try discriminate.
        * (* VInt *)
          apply oaval_eqb_eq in Hck.
          destruct (new_gen_sim env de fe (cond (oaval_eqb (lookup env x) (Some AGenDet)) (Some cl) "MkGen" x)
                      fr a b x (init z) cl) as [b' [E C]]; auto.
          unfold new_gen in *. cbn [fst snd] in *. inv Hst. exists b'. split; assumption.
        * (* VGenLoc *)
          apply oaval_eqb_eq in Hck. inv Hst. exists b. split; [reflexivity|].
          eapply concl_nodd; eauto.
          -- apply typed_set_senv; assumption. -- apply ok_set_senv; [assumption|exact I]. -- apply outside_refl.
        * (* VGenExt *)
          apply oaval_eqb_eq in Hck. inv Hst. exists b. split; [reflexivity|].
          eapply concl_nodd; eauto.
          -- apply typed_set_senv; assumption.
          -- apply ok_set_senv; [assumption|]. apply (proj1 Ho y). apply lookup_In. assumption.
          -- apply outside_refl.
      + inv Hst. exists b. split; [reflexivity|]. apply concl_exc; auto. discriminate.
    - discriminate.
    - (* MkGenConst *)
      apply oaval_eqb_eq in Hck.
      destruct (new_gen_sim env de fe (cond (oaval_eqb (lookup env x) (Some AGenDet)) (Some cl) "MkGenConst" x)
                  fr a b x (init z) cl) as [b' [E C]]; auto.
      unfold new_gen in *. cbn [fst snd] in *. inv Hst. exists b'. split; assumption.
    - (* RandPrim *)
      inv Hst. exists b. split; [reflexivity|]. eapply concl_nodd; eauto. apply outside_refl.
    - discriminate.
    - (* DrawFrom *)
      destruct (lookup (senv fr) g) as [v|] eqn:Lg.
      + pose proof (proj1 Ht _ _ Lg) as Eg. rewrite Eg in *.
        destruct v; cbn [abs_val] in *; try discriminate.
        * rewrite <- Hl. destruct (nth_error (lg a) i) as [gi|] eqn:Ei.
          -- rewrite <- Hh. destruct (draw s (hist a) gi) as [v gi'] eqn:Ed. inv Hst.
             eexists. split; [reflexivity|]. eapply concl_nodd; eauto.
             ++ apply Rel_obsv. apply Rel_set_lg. assumption.
             ++ apply outside_refl.
          -- inv Hst. exists b. split; [reflexivity|]. apply concl_exc; auto. discriminate.
        * assert (Pk : P k) by (apply (proj1 Ho g (VGenExt k)); apply lookup_In; assumption).
          rewrite <- Hh, <- (r_ext _ _ HR k Pk). destruct (draw s (hist a) (ext a k)) as [v g'] eqn:Ed. inv Hst.
          eexists. split; [reflexivity|]. eapply concl_nodd; eauto.
          ++ apply Rel_obsv. apply Rel_set_ext. assumption.
          ++ repeat split; cbn; auto. intros j Hj. destruct (Nat.eqb j k) eqn:E; [|reflexivity].
             apply Nat.eqb_eq in E. subst. contradiction.
      + inv Hst. exists b. split; [reflexivity|]. apply concl_exc; auto. discriminate.
    - (* Reset *)
      rewrite (loc_of_typed _ _ _ _ d Ht) in *. destruct (aloc_of de d) as [l|].
      + cbn [cond rok rpost] in *. inv Hst. eexists. split; [reflexivity|].
        assert (Hks : forall k, In k ks -> mems k (U l) = true)
          by (intros k Hk; exact (proj1 (forallb_forall _ _) Hck k Hk)).
        assert (Hc : forall h (d0 : dloc -> string -> option V), (forall l k, mems k (U l) = false -> d0 l k = None) ->
                     forall l' k', mems k' (U l') = false -> reset_keys V wval s h d0 l ks l' k' = None).
        { intros h d0 Hd l' k' Hk. rewrite reset_keys_spec. destruct (dloc_eqb l' l) eqn:E1; cbn; [|auto].
          destruct (mems k' ks) eqn:E2; [|auto]. apply dloc_eqb_eq in E1. subst.
          apply mems_In in E2. apply Hks in E2. congruence. }
        csplit; try assumption; cbn.
        * apply Rel_set_dd; [assumption| |]; apply Hc; [apply (r_c1 _ _ HR) | apply (r_c2 _ _ HR)].
        * intros l' k' Hk E. rewrite !reset_keys_spec, Hh. destruct (dloc_eqb l' l && mems k' ks); auto.
        * apply outside_refl.
        * intros _. eexists. split; [reflexivity|]. intros l' k' Hm Hk. rewrite !reset_keys_spec, Hh.
          destruct (dloc_eqb l' l && mems k' ks) eqn:E; [reflexivity|].
          apply addks_spec in Hm. destruct Hm as [Hm|[H1 H2]]; [apply Hag; assumption|]. cbn in H1, H2. subst.
          rewrite dloc_eqb_refl in E. apply mems_In in H2. rewrite H2 in E. discriminate.
      + inv Hst. exists b. split; [reflexivity|]. eapply concl_nodd; eauto. apply outside_refl.
    - (* Read *)
      rewrite (loc_of_typed _ _ _ _ d Ht) in *. destruct (aloc_of de d) as [l|].
      + cbn [cond rok rpost] in *. inv Hst.
        assert (E : dd a l k = dd b l k).
        { apply orb_true_iff in Hck. destruct Hck as [H|H].
          - apply andb_true_iff in H. destruct H as [H1 H2]. apply Hag; [assumption|]. destruct (timing k); [discriminate|reflexivity].
          - apply negb_true_iff in H. rewrite (r_c1 _ _ HR), (r_c2 _ _ HR); auto. }
        rewrite E. eexists. split; [reflexivity|]. eapply concl_nodd; eauto.
        * apply Rel_obsv; assumption. * apply outside_refl.
      + inv Hst. exists b. split; [reflexivity|]. eapply concl_nodd; eauto. apply outside_refl.
    - (* LogRead *)
      inv Hst. exists b. split; [reflexivity|]. eapply concl_nodd; eauto. apply outside_refl.
    - (* Write *)
      rewrite (loc_of_typed _ _ _ _ d Ht) in *. destruct (aloc_of de d) as [l|].
      + cbn [cond rok rpost] in *. inv Hst. eexists. split; [reflexivity|].
        csplit; try assumption; cbn.
        * apply Rel_set_dd; [assumption| |]; apply upd_dd_confined; auto; [apply (r_c1 _ _ HR) | apply (r_c2 _ _ HR)].
        * intros l' k' Hk E. unfold upd_dd. rewrite Hh. destruct (dloc_eqb l' l && String.eqb k' k); auto.
        * apply outside_refl.
        * intros _. eexists. split; [reflexivity|]. intros l' k' Hm Hk. unfold upd_dd. rewrite Hh.
          destruct (dloc_eqb l' l && String.eqb k' k) eqn:E; [reflexivity|].
          apply addk_spec in Hm. destruct Hm as [Hm|Hm]; [apply Hag; assumption|]. inv Hm.
          rewrite dloc_eqb_refl, String.eqb_refl in E. discriminate.
      + inv Hst. exists b. split; [reflexivity|]. eapply concl_nodd; eauto. apply outside_refl.
    - (* WriteT *)
      rewrite (loc_of_typed _ _ _ _ d Ht) in *. destruct (aloc_of de d) as [l|].
      + cbn [cond rok rpost] in *. apply andb_true_iff in Hck. destruct Hck as [Hu Htk].
        destruct (clock (ck a)) as [v c'] eqn:Ea. destruct (clock (ck b)) as [v2 c2] eqn:Eb. inv Hst.
        eexists. split; [reflexivity|].
        assert (Hne : forall (d1 d2 : dloc -> string -> option V) w1 w2 l' k', timing k' = false -> d1 l' k' = d2 l' k' ->
                      upd_dd V d1 l k w1 l' k' = upd_dd V d2 l k w2 l' k').
        { intros d1 d2 w1 w2 l' k' Hk E. unfold upd_dd. destruct (String.eqb k' k) eqn:E2.
          - apply String.eqb_eq in E2. subst. congruence.
          - rewrite andb_false_r. assumption. }
        csplit; try assumption; cbn.
        * apply Rel_set_dd; [apply Rel_set_ck; assumption| |]; apply upd_dd_confined; auto; [apply (r_c1 _ _ HR) | apply (r_c2 _ _ HR)].
        * intros l' k' Hk E. apply Hne; assumption.
        * apply outside_refl.
        * intros _. eexists. split; [reflexivity|]. intros l' k' Hm Hk. apply Hne; [assumption|]. apply Hag; assumption.
      + inv Hst. exists b. split; [reflexivity|]. eapply concl_nodd; eauto. apply outside_refl.
    - (* WriteAny *)
      rewrite (loc_of_typed _ _ _ _ d Ht) in *. destruct (aloc_of de d) as [l|]; [discriminate|].
      inv Hst. exists b. split; [reflexivity|]. eapply concl_nodd; eauto. apply outside_refl.
    - (* Clear *)
      rewrite (loc_of_typed _ _ _ _ d Ht) in *. destruct (aloc_of de d) as [l|].
      + cbn [rok rpost] in *. inv Hst. eexists. split; [reflexivity|].
        csplit; try assumption; cbn.
        * apply Rel_set_dd; [assumption| |]; intros l' k' Hk; unfold upd_loc; destruct (dloc_eqb l' l); auto;
            [apply (r_c1 _ _ HR) | apply (r_c2 _ _ HR)]; assumption.
        * intros l' k' Hk E. unfold upd_loc. destruct (dloc_eqb l' l); auto.
        * apply outside_refl.
        * intros _. eexists. split; [reflexivity|]. intros l' k' Hm Hk. unfold upd_loc.
          destruct (dloc_eqb l' l) eqn:E; [reflexivity|].
          apply addks_spec in Hm. destruct Hm as [Hm|[H1 H2]]; [apply Hag; assumption|]. cbn in H1. subst.
          rewrite dloc_eqb_refl in E. discriminate.
      + inv Hst. exists b. split; [reflexivity|]. eapply concl_nodd; eauto. apply outside_refl.
    - (* ReadAll *)
      rewrite (loc_of_typed _ _ _ _ d Ht) in *. destruct (aloc_of de d) as [l|].
      + cbn [cond rok rpost] in *. inv Hst.
        assert (E : map (dd a l) (nontiming (U l)) = map (dd b l) (nontiming (U l))).
        { apply map_ext_in. intros k Hk. apply Hag.
          - exact (proj1 (forallb_forall _ _) Hck k Hk).
          - unfold nontiming in Hk. apply filter_In in Hk. destruct Hk as [_ Hk]. destruct (timing k); [discriminate|reflexivity]. }
        rewrite E. eexists. split; [reflexivity|]. eapply concl_nodd; eauto.
        * apply Rel_obsv; assumption. * apply outside_refl.
      + inv Hst. exists b. split; [reflexivity|]. eapply concl_nodd; eauto. apply outside_refl.
    - (* Clock *)
      inv Hst. eexists. split; [reflexivity|]. eapply concl_nodd; eauto.
      + apply Rel_set_ck; assumption. + apply outside_refl.
    - discriminate.
  Qed.
End Sim.
