(* C10 -- soundness of the effect checker of Model/Effects.v (noninterference).  Lemmas only.
   Part 1: boolean reflection; the relation Rel between two worlds (same history, same generators created by the call,
           same state of the generator objects in P, dictionaries confined to their universe); step_sim: every event
           other than a call that the checker accepts is simulated in the second world.
   Part 2: calls (the callee frame instantiates the context the checker recorded), and the simulation Sim n for every
           command, by induction on the fuel and on the command (sim_step, sim_all).
   Part 3: theorems about the entry contexts of exported functions: noninterference, noninterference_closed,
           integer_seed_deterministic, generator_object_only, and their api_* forms whose premises are two closed
           boolean computations (check_all = true, names_unique = true). *)
From Coq Require Import String List Bool Arith ZArith Lia.
From TV Require Import Model.Effects.
Import ListNotations.

Local Arguments timing : simpl never.
Local Arguments memk : simpl never.
Local Arguments mems : simpl never.
Local Arguments nontiming : simpl never.

(* ------------------------------------------------------------------------------------------------ *)
(* boolean reflection and list lookups                                                               *)
(* ------------------------------------------------------------------------------------------------ *)

Lemma dloc_eqb_eq a b : dloc_eqb a b = true <-> a = b.
Proof.
  destruct a as [a1 a2], b as [b1 b2]; unfold dloc_eqb; cbn. rewrite andb_true_iff, !String.eqb_eq.
  split; [intros [-> ->]; reflexivity | intros H; inversion H; auto].
Qed.

Lemma dloc_eqb_refl a : dloc_eqb a a = true.
Proof. apply dloc_eqb_eq; reflexivity. Qed.

Lemma dkey_eqb_eq a b : dkey_eqb a b = true <-> a = b.
Proof.
  destruct a as [a1 a2], b as [b1 b2]; unfold dkey_eqb; cbn. rewrite andb_true_iff, dloc_eqb_eq, String.eqb_eq.
  split; [intros [-> ->]; reflexivity | intros H; inversion H; auto].
Qed.

Lemma memk_In k l : memk k l = true <-> In k l.
Proof.
  unfold memk. rewrite existsb_exists. split.
  - intros [x [Hx He]]. apply dkey_eqb_eq in He. subst; assumption.
  - intros H. exists k. split; [assumption | apply dkey_eqb_eq; reflexivity].
Qed.

Lemma mems_In k l : mems k l = true <-> In k l.
Proof.
  unfold mems. rewrite existsb_exists. split.
  - intros [x [Hx He]]. apply String.eqb_eq in He. subst; assumption.
  - intros H. exists k. split; [assumption | apply String.eqb_refl].
Qed.

Lemma memc_In c t : memc c t = true <-> In c t.
Proof. unfold memc. destruct (in_dec actx_eq_dec c t); split; auto; discriminate. Qed.

Lemma lookup_map {A B} (f : A -> B) l x :
  lookup (map (fun p => (fst p, f (snd p))) l) x = option_map f (lookup l x).
Proof. induction l as [|[y a] r IH]; cbn; [reflexivity|]. destruct (String.eqb x y); [reflexivity | exact IH]. Qed.

Lemma lookup_In {A} (l : list (string * A)) x v : lookup l x = Some v -> In (x, v) l.
Proof.
  induction l as [|[y a] r IH]; cbn; [discriminate|]. destruct (String.eqb x y) eqn:E.
  - intros H; inversion H; subst. apply String.eqb_eq in E. subst. left; reflexivity.
  - intros H; right; auto.
Qed.

Lemma find_fn_name api f g : find_fn api f = Some g -> fname g = f.
Proof.
  induction api as [|h r IH]; cbn; [discriminate|]. destruct (String.eqb f (fname h)) eqn:E.
  - intros H; inversion H; subst. apply String.eqb_eq in E. auto.
  - exact IH.
Qed.

Lemma oaval_eqb_eq a b : oaval_eqb a b = true -> a = b.
Proof. destruct a as [[]|], b as [[]|]; cbn; try discriminate; reflexivity. Qed.

Lemma addk_spec l k cl x : memk x (addk l k cl) = true -> memk x cl = true \/ x = (l, k).
Proof.
  unfold addk. destruct (timing k); [auto|]. destruct (memk (l, k) cl); [auto|].
  rewrite !memk_In. cbn. intros [H|H]; auto.
Qed.

Lemma addk_mono l k cl x : memk x cl = true -> memk x (addk l k cl) = true.
Proof.
  unfold addk. destruct (timing k); [auto|]. destruct (memk (l, k) cl); [auto|].
  rewrite !memk_In. cbn. auto.
Qed.

Lemma addk_new l k cl : timing k = false -> memk (l, k) (addk l k cl) = true.
Proof.
  unfold addk. intros ->. destruct (memk (l, k) cl) eqn:E; [assumption|]. apply memk_In. left; reflexivity.
Qed.

Lemma addks_spec l ks : forall cl x, memk x (addks l ks cl) = true -> memk x cl = true \/ (fst x = l /\ In (snd x) ks).
Proof.
  induction ks as [|k r IH]; cbn; intros cl x H; [auto|].
  apply IH in H. destruct H as [H|[H1 H2]]; [|auto].
  apply addk_spec in H. destruct H as [H|H]; [auto|]. subst x. cbn. auto.
Qed.

Lemma inter_spec a b x : memk x (inter a b) = true -> memk x a = true /\ memk x b = true.
Proof.
  unfold inter. rewrite memk_In, filter_In. intros [H1 H2]. split; [apply memk_In; assumption | assumption].
Qed.

Lemma restrict_sub U cl de x : memk x (restrict U cl de) = true -> memk x cl = true.
Proof.
  unfold restrict. rewrite memk_In, in_flat_map. intros [l [_ H]]. apply in_map_iff in H.
  destruct H as [k [<- H]]. apply filter_In in H. apply H.
Qed.

Lemma reset_keys_spec {V} (wval : nat -> string -> list (obs V) -> option V) s h l ks : forall d l' k',
  reset_keys V wval s h d l ks l' k' = if dloc_eqb l' l && mems k' ks then wval s k' h else d l' k'.
Proof.
  induction ks as [|k r IH]; intros d l' k'; cbn [reset_keys].
  - unfold mems; cbn. rewrite andb_false_r. reflexivity.
  - rewrite IH. unfold upd_dd, mems. cbn [existsb]. fold (mems k' r).
    destruct (dloc_eqb l' l); cbn; [|reflexivity].
    destruct (mems k' r); [rewrite orb_true_r; reflexivity|]. rewrite orb_false_r.
    destruct (String.eqb k' k) eqn:E; [|reflexivity]. apply String.eqb_eq in E. subst. reflexivity.
Qed.

(* ------------------------------------------------------------------------------------------------ *)
(* two worlds                                                                                        *)
(* ------------------------------------------------------------------------------------------------ *)

Section Sim.
  Variables Sg V : Type.
  Variable draw : nat -> list (obs V) -> Sg -> V * Sg.
  Variable decide : nat -> list (obs V) -> bool.
  Variable wval : nat -> string -> list (obs V) -> option V.
  Variable wany : list (obs V) -> (string -> option V) -> string -> option V.
  Variable init : Z -> Sg.
  Variable ent_draw : Sg -> Sg * Sg.
  Variable clock : Sg -> V * Sg.
  Variable U : dloc -> list string.
  Variable api : list fn.
  Variable P : nat -> Prop.              (* the generator objects the call may use *)

  Local Notation state := (state Sg V).
  Local Notation hist := (hist Sg V).
  Local Notation lg := (lg Sg V).
  Local Notation gs := (gs Sg V).
  Local Notation ent := (ent Sg V).
  Local Notation ck := (ck Sg V).
  Local Notation ext := (ext Sg V).
  Local Notation dd := (dd Sg V).
  Local Notation obsv := (obsv Sg V).
  Local Notation step := (step Sg V draw wval wany init ent_draw clock U).
  Local Notation exec := (exec Sg V draw decide wval wany init ent_draw clock U api).
  Local Notation stable := (no_new_difference Sg V).
  Local Notation outside := (untouched_outside Sg V P).
  Local Notation confined := (confined Sg V U).

  Record Rel (a b : state) : Prop := mkRel {
    r_hist : hist a = hist b;
    r_lg : lg a = lg b;
    r_ext : forall k, P k -> ext a k = ext b k;
    r_c1 : confined a;
    r_c2 : confined b }.

  Definition agree (cl : list dkey) (a b : state) : Prop :=
    forall l k, memk (l, k) cl = true -> timing k = false -> dd a l k = dd b l k.

  Definition sval_ok (v : sval) : Prop := match v with VGenExt k => P k | _ => True end.
  Definition cfn_ok (c : cfn) : Prop :=
    match c with CFClos _ cap => forall x v, In (x, v) cap -> sval_ok v | _ => True end.
  Definition frame_ok (fr : frame) : Prop :=
    (forall x v, In (x, v) (senv fr) -> sval_ok v) /\ (forall p c, In (p, c) (fenv fr) -> cfn_ok c).

  Definition typed (env : list (string * aval)) (de : list (string * cloc)) (fe : list (string * afn)) (fr : frame) : Prop :=
    (forall x v, lookup (senv fr) x = Some v -> lookup env x = Some (abs_val v)) /\
    denv fr = de /\ map (fun pc => (fst pc, abs_fn (snd pc))) (fenv fr) = fe.

  Definition Concl env de fe (r : res) (a b : state) (f : flag) (fr' : frame) (a' b' : state) : Prop :=
    typed env de fe fr' /\ frame_ok fr' /\ Rel a' b' /\ stable a b a' b' /\ outside a a' /\
    (f = FN -> exists cl', rpost r = Some cl' /\ agree cl' a' b').

  Lemma stable_refl a b : stable a b a b.
  Proof. intros l k _ H; exact H. Qed.
  Lemma stable_trans a b a1 b1 a2 b2 : stable a b a1 b1 -> stable a1 b1 a2 b2 -> stable a b a2 b2.
  Proof. intros H1 H2 l k Hk H. apply H2; auto. Qed.
  Lemma outside_refl a : outside a a.
  Proof. repeat split; reflexivity. Qed.
  Lemma outside_trans a a1 a2 : outside a a1 -> outside a1 a2 -> outside a a2.
  Proof.
    intros [H1 [H2 H3]] [G1 [G2 G3]]. repeat split.
    - rewrite G1; exact H1. - rewrite G2; exact H2. - intros k Hk. rewrite G3, H3; auto.
  Qed.
  Lemma agree_stable cl a b a' b' : agree cl a b -> stable a b a' b' -> agree cl a' b'.
  Proof. intros H1 H2 l k Hm Hk. apply H2; auto. Qed.
  Lemma agree_sub cl cl' a b : (forall x, memk x cl = true -> memk x cl' = true) -> agree cl' a b -> agree cl a b.
  Proof. intros Hs H l k Hm Hk. apply H; auto. Qed.

  Lemma typed_set_senv env de fe fr x v :
    typed env de fe fr -> lookup env x = Some (abs_val v) -> typed env de fe (set_senv fr x v).
  Proof.
    intros [H1 [H2 H3]] Hx. repeat split; [|exact H2|exact H3].
    intros y w. cbn. destruct (String.eqb y x) eqn:E.
    - intros H; inversion H; subst. apply String.eqb_eq in E. subst. exact Hx.
    - apply H1.
  Qed.

  Lemma ok_set_senv fr x v : frame_ok fr -> sval_ok v -> frame_ok (set_senv fr x v).
  Proof.
    intros [H1 H2] Hv. split; [|exact H2]. cbn. intros y w [H|H]; [inversion H; subst; exact Hv | eauto].
  Qed.

  Lemma loc_of_typed env de fe fr d : typed env de fe fr -> loc_of fr d = aloc_of de d.
  Proof. intros [_ [H _]]. unfold loc_of, aloc_of. rewrite H. reflexivity. Qed.

  (* state updates that keep the worlds related *)
  Lemma Rel_obsv a b o : Rel a b -> Rel (obsv a o) (obsv b o).
  Proof. intros [H1 H2 H3 H4 H5]. constructor; cbn; auto. rewrite H1; reflexivity. Qed.

  Lemma Rel_set_lg a b l : Rel a b -> Rel (set_lg Sg V a l) (set_lg Sg V b l).
  Proof. intros [H1 H2 H3 H4 H5]. constructor; cbn; auto. Qed.

  Lemma Rel_set_ck a b c1 c2 : Rel a b -> Rel (set_ck Sg V a c1) (set_ck Sg V b c2).
  Proof. intros [H1 H2 H3 H4 H5]. constructor; cbn; auto. Qed.

  Lemma Rel_set_dd a b d1 d2 :
    Rel a b -> (forall l k, mems k (U l) = false -> d1 l k = None) -> (forall l k, mems k (U l) = false -> d2 l k = None) ->
    Rel (set_dd Sg V a d1) (set_dd Sg V b d2).
  Proof. intros [H1 H2 H3 H4 H5] G1 G2. constructor; cbn; auto. Qed.

  Lemma Rel_set_ext a b k s : Rel a b -> Rel (set_ext Sg V a k s) (set_ext Sg V b k s).
  Proof.
    intros [H1 H2 H3 H4 H5]. constructor; cbn; auto. intros j Hj. destruct (Nat.eqb j k); auto.
  Qed.

  Ltac inv H := inversion H; subst; clear H.
  Ltac out := unfold untouched_outside; cbn; repeat split; reflexivity.
  Ltac csplit := unfold Concl; split; [|split; [|split; [|split; [|split]]]].

  (* a step that leaves the dictionaries alone and the frame typed *)
  Lemma concl_nodd env de fe r a b fr' a' b' cl :
    typed env de fe fr' -> frame_ok fr' -> Rel a' b' -> dd a' = dd a -> dd b' = dd b -> outside a a' ->
    agree cl a b -> rpost r = Some cl -> Concl env de fe r a b FN fr' a' b'.
  Proof.
    intros Ht Ho HR Ha Hb Hout Hag Hp. csplit; try assumption.
    - intros l k _. rewrite Ha, Hb. auto.
    - intros _. exists cl. split; [assumption|]. intros l k Hm Hk. rewrite Ha, Hb. auto.
  Qed.

  Ltac nodd cl := apply concl_nodd with (cl := cl);
    [ try assumption | try assumption | try assumption | reflexivity | reflexivity | try solve [unfold untouched_outside; cbn; repeat split; reflexivity] | assumption
    | try assumption; reflexivity ].

  Lemma concl_exc env de fe r a b fr f : f <> FN ->
    typed env de fe fr -> frame_ok fr -> Rel a b -> Concl env de fe r a b f fr a b.
  Proof.
    intros Hf Ht Ho HR. csplit; try assumption.
    - apply stable_refl. - apply outside_refl. - intros C; contradiction.
  Qed.

  Lemma new_gen_sim env de fe r fr a b x g cl :
    typed env de fe fr -> frame_ok fr -> Rel a b -> agree cl a b -> rpost r = Some cl ->
    lookup env x = Some AGenDet ->
    exists b', (let (fr', st') := new_gen Sg V fr b x g in (FN, fr', st')) =
               (FN, fst (new_gen Sg V fr a x g), b') /\
               Concl env de fe r a b FN (fst (new_gen Sg V fr a x g)) (snd (new_gen Sg V fr a x g)) b'.
  Proof.
    intros Ht Ho HR Hag Hp Hx. unfold new_gen. cbn [fst snd].
    exists (set_lg Sg V b (lg b ++ [g])). rewrite (r_lg _ _ HR). split; [reflexivity|].
    nodd cl.
    - apply typed_set_senv; [assumption|]. exact Hx.
    - apply ok_set_senv; [assumption|exact I].
    - rewrite <- (r_lg _ _ HR). apply Rel_set_lg. assumption.
  Qed.

  Definition plain (e : event) : Prop := match e with Call _ _ _ _ _ | CallParam _ _ => False | _ => True end.

  Lemma upd_dd_confined (d : dloc -> string -> option V) l k v :
    (forall l k, mems k (U l) = false -> d l k = None) -> mems k (U l) = true ->
    forall l' k', mems k' (U l') = false -> upd_dd V d l k v l' k' = None.
  Proof.
    intros Hd Hk l' k' H. unfold upd_dd. destruct (dloc_eqb l' l) eqn:E1; cbn; [|auto].
    destruct (String.eqb k' k) eqn:E2; [|auto]. apply dloc_eqb_eq in E1. apply String.eqb_eq in E2. subst. congruence.
  Qed.

  Lemma step_sim : forall e env de fe cl fr a b f fr' a',
    plain e ->
    rok (chk_event U api env de fe e cl) = true ->
    typed env de fe fr -> frame_ok fr -> Rel a b -> agree cl a b ->
    step e fr a = (f, fr', a') ->
    exists b', step e fr b = (f, fr', b') /\ Concl env de fe (chk_event U api env de fe e cl) a b f fr' a' b'.
  Proof.
    intros e env de fe cl fr a b f fr' a' Hpl Hck Ht Ho HR Hag Hst.
    pose proof (r_hist _ _ HR) as Hh. pose proof (r_lg _ _ HR) as Hl.
    destruct e; cbn [plain] in Hpl; try contradiction; cbn [step chk_event] in *.
    - (* MkGen x y *)
      destruct (lookup (senv fr) y) as [v|] eqn:Ly.
      + pose proof (proj1 Ht _ _ Ly) as Ey. rewrite Ey in *.
        destruct v; cbn [abs_val mk_of] in *; try discriminate.
        * (* VInt *)
          apply oaval_eqb_eq in Hck.
          destruct (new_gen_sim env de fe (cond (oaval_eqb (lookup env x) (Some AGenDet)) (Some cl) "MkGen" x)
                      fr a b x (init z) cl) as [b' [E C]]; auto.
          unfold new_gen in *. cbn [fst snd] in *. inv Hst. exists b'. split; assumption.
        * (* VGenLoc *)
          apply oaval_eqb_eq in Hck. inv Hst. exists b. split; [reflexivity|].
          nodd cl.
          -- apply typed_set_senv; assumption. -- apply ok_set_senv; [assumption|exact I].
        * (* VGenExt *)
          apply oaval_eqb_eq in Hck. inv Hst. exists b. split; [reflexivity|].
          nodd cl.
          -- apply typed_set_senv; assumption.
          -- apply ok_set_senv; [assumption|]. apply (proj1 Ho y). apply lookup_In. assumption.
      + inv Hst. exists b. split; [reflexivity|]. apply concl_exc; auto. discriminate.
    - discriminate.
    - (* MkGenConst *)
      apply oaval_eqb_eq in Hck.
      destruct (new_gen_sim env de fe (cond (oaval_eqb (lookup env x) (Some AGenDet)) (Some cl) "MkGenConst" x)
                  fr a b x (init z) cl) as [b' [E C]]; auto.
      unfold new_gen in *. cbn [fst snd] in *. inv Hst. exists b'. split; assumption.
    - (* RandPrim *)
      inv Hst. exists b. split; [reflexivity|]. nodd cl.
    - discriminate.
    - (* DrawFrom *)
      destruct (lookup (senv fr) g) as [v|] eqn:Lg.
      + pose proof (proj1 Ht _ _ Lg) as Eg. rewrite Eg in *.
        destruct v; cbn [abs_val] in *; try discriminate.
        * rewrite <- Hl. destruct (nth_error (lg a) i) as [gi|] eqn:Ei.
          -- rewrite <- Hh. destruct (draw s (hist a) gi) as [v gi'] eqn:Ed. inv Hst.
             eexists. split; [reflexivity|]. nodd cl.
             apply Rel_obsv. apply Rel_set_lg. assumption.
          -- inv Hst. exists b. split; [reflexivity|]. apply concl_exc; auto. discriminate.
        * assert (Pk : P k) by (apply (proj1 Ho g (VGenExt k)); apply lookup_In; assumption).
          rewrite <- Hh, <- (r_ext _ _ HR k Pk). destruct (draw s (hist a) (ext a k)) as [v g'] eqn:Ed. inv Hst.
          eexists. split; [reflexivity|]. nodd cl.
          ++ apply Rel_obsv. apply Rel_set_ext. assumption.
          ++ unfold untouched_outside; cbn; repeat split; auto. intros j Hj. destruct (Nat.eqb j k) eqn:E; [|reflexivity].
             apply Nat.eqb_eq in E. subst. contradiction.
      + inv Hst. exists b. split; [reflexivity|]. apply concl_exc; auto. discriminate.
    - (* Reset *)
      rewrite (loc_of_typed _ _ _ _ d Ht) in *. destruct (aloc_of de d) as [l|].
      + cbn [cond rok rpost] in *. inv Hst. eexists. split; [reflexivity|].
        assert (Hks : forall k, In k ks -> mems k (U l) = true)
          by (intros k Hk; exact (proj1 (forallb_forall _ _) Hck k Hk)).
        assert (Hc : forall h (d0 : dloc -> string -> option V), (forall l k, mems k (U l) = false -> d0 l k = None) ->
                     forall l' k', mems k' (U l') = false -> reset_keys V wval s h d0 l ks l' k' = None).
        { intros h d0 Hd l' k' Hk. rewrite reset_keys_spec. destruct (dloc_eqb l' l) eqn:E1; cbn; [|auto].
          destruct (mems k' ks) eqn:E2; [|auto]. apply dloc_eqb_eq in E1. subst.
          apply mems_In in E2. apply Hks in E2. congruence. }
        csplit; try assumption; cbn.
        * apply Rel_set_dd; [assumption| |]; apply Hc; [apply (r_c1 _ _ HR) | apply (r_c2 _ _ HR)].
        * intros l' k' Hk E. cbn. rewrite !reset_keys_spec, Hh. destruct (dloc_eqb l' l && mems k' ks); auto.
        * out.
        * intros _. eexists. split; [reflexivity|]. intros l' k' Hm Hk. cbn. rewrite !reset_keys_spec, Hh.
          destruct (dloc_eqb l' l && mems k' ks) eqn:E; [reflexivity|].
          apply addks_spec in Hm. destruct Hm as [Hm|[H1 H2]]; [apply Hag; assumption|]. cbn in H1, H2. subst.
          rewrite dloc_eqb_refl in E. apply mems_In in H2. rewrite H2 in E. discriminate.
      + inv Hst. exists b. split; [reflexivity|]. nodd cl.
    - (* Read *)
      rewrite (loc_of_typed _ _ _ _ d Ht) in *. destruct (aloc_of de d) as [l|].
      + cbn [cond rok rpost] in *. inv Hst.
        assert (E : dd a l k = dd b l k).
        { apply orb_true_iff in Hck. destruct Hck as [H|H].
          - apply andb_true_iff in H. destruct H as [H1 H2]. apply Hag; [assumption|]. destruct (timing k); [discriminate|reflexivity].
          - apply negb_true_iff in H. rewrite (r_c1 _ _ HR), (r_c2 _ _ HR); auto. }
        rewrite E. eexists. split; [reflexivity|]. nodd cl.
        apply Rel_obsv; assumption.
      + inv Hst. exists b. split; [reflexivity|]. nodd cl.
    - (* LogRead *)
      inv Hst. exists b. split; [reflexivity|]. nodd cl.
    - (* Write *)
      rewrite (loc_of_typed _ _ _ _ d Ht) in *. destruct (aloc_of de d) as [l|].
      + cbn [cond rok rpost] in *. inv Hst. eexists. split; [reflexivity|].
        csplit; try assumption; cbn.
        * apply Rel_set_dd; [assumption| |]; apply upd_dd_confined; auto; [apply (r_c1 _ _ HR) | apply (r_c2 _ _ HR)].
        * intros l' k' Hk E. cbn. unfold upd_dd. rewrite Hh. destruct (dloc_eqb l' l && String.eqb k' k); auto.
        * out.
        * intros _. eexists. split; [reflexivity|]. intros l' k' Hm Hk. cbn. unfold upd_dd. rewrite Hh.
          destruct (dloc_eqb l' l && String.eqb k' k) eqn:E; [reflexivity|].
          apply addk_spec in Hm. destruct Hm as [Hm|Hm]; [apply Hag; assumption|]. inv Hm.
          rewrite dloc_eqb_refl, String.eqb_refl in E. discriminate.
      + inv Hst. exists b. split; [reflexivity|]. nodd cl.
    - (* WriteT *)
      rewrite (loc_of_typed _ _ _ _ d Ht) in *. destruct (aloc_of de d) as [l|].
      + cbn [cond rok rpost] in *. apply andb_true_iff in Hck. destruct Hck as [Hu Htk].
        destruct (clock (ck a)) as [v c'] eqn:Ea. destruct (clock (ck b)) as [v2 c2] eqn:Eb. inv Hst.
        eexists. split; [reflexivity|].
        assert (Hne : forall (d1 d2 : dloc -> string -> option V) w1 w2 l' k', timing k' = false -> d1 l' k' = d2 l' k' ->
                      upd_dd V d1 l k w1 l' k' = upd_dd V d2 l k w2 l' k').
        { intros d1 d2 w1 w2 l' k' Hk E. unfold upd_dd. destruct (String.eqb k' k) eqn:E2.
          - apply String.eqb_eq in E2. subst. congruence.
          - rewrite andb_false_r. assumption. }
        csplit; try assumption; cbn.
        * apply Rel_set_dd; [apply Rel_set_ck; assumption| |]; apply upd_dd_confined; auto; [apply (r_c1 _ _ HR) | apply (r_c2 _ _ HR)].
        * intros l' k' Hk E. cbn. apply Hne; assumption.
        * out.
        * intros _. eexists. split; [reflexivity|]. intros l' k' Hm Hk. cbn. apply Hne; [assumption|]. apply Hag; assumption.
      + inv Hst. exists b. split; [reflexivity|]. nodd cl.
    - (* WriteAny *)
      rewrite (loc_of_typed _ _ _ _ d Ht) in *. destruct (aloc_of de d) as [l|]; [discriminate|].
      inv Hst. exists b. split; [reflexivity|]. nodd cl.
    - (* Clear *)
      rewrite (loc_of_typed _ _ _ _ d Ht) in *. destruct (aloc_of de d) as [l|].
      + cbn [rok rpost] in *. inv Hst. eexists. split; [reflexivity|].
        csplit; try assumption; cbn.
        * apply Rel_set_dd; [assumption| |]; intros l' k' Hk; unfold upd_loc; destruct (dloc_eqb l' l); auto;
            [apply (r_c1 _ _ HR) | apply (r_c2 _ _ HR)]; assumption.
        * intros l' k' Hk E. cbn. unfold upd_loc. destruct (dloc_eqb l' l); auto.
        * out.
        * intros _. eexists. split; [reflexivity|]. intros l' k' Hm Hk. cbn. unfold upd_loc.
          destruct (dloc_eqb l' l) eqn:E; [reflexivity|].
          apply addks_spec in Hm. destruct Hm as [Hm|[H1 H2]]; [apply Hag; assumption|]. cbn in H1. subst.
          rewrite dloc_eqb_refl in E. discriminate.
      + inv Hst. exists b. split; [reflexivity|]. nodd cl.
    - (* ReadAll *)
      rewrite (loc_of_typed _ _ _ _ d Ht) in *. destruct (aloc_of de d) as [l|].
      + cbn [cond rok rpost] in *. inv Hst.
        assert (E : map (dd a l) (nontiming (U l)) = map (dd b l) (nontiming (U l))).
        { apply map_ext_in. intros k Hk. apply Hag.
          - exact (proj1 (forallb_forall _ _) Hck k Hk).
          - unfold nontiming in Hk. apply filter_In in Hk. destruct Hk as [_ Hk]. destruct (timing k); [discriminate|reflexivity]. }
        rewrite E. eexists. split; [reflexivity|]. nodd cl.
        apply Rel_obsv; assumption.
      + inv Hst. exists b. split; [reflexivity|]. nodd cl.
    - (* Clock *)
      inv Hst. eexists. split; [reflexivity|]. nodd cl.
      apply Rel_set_ck; assumption.
    - discriminate.
    - discriminate.
  Qed.

  (* ---------------------------------------------------------------------------------------------- *)
  (* calls: the callee frame is an instance of the context recorded by the checker                    *)
  (* ---------------------------------------------------------------------------------------------- *)

  Lemma eval_sb_abs env de fe fr sb : typed env de fe fr -> forall se,
    eval_sb fr sb = Some se -> map (fun xv => (fst xv, abs_val (snd xv))) se = aeval_sb env sb.
  Proof.
    intros Ht. induction sb as [|[p a] r IH]; cbn [eval_sb]; intros se H.
    - inv H. reflexivity.
    - destruct (eval_sarg fr a) as [v|] eqn:Ea; [|discriminate].
      destruct (eval_sb fr r) as [l|] eqn:Er; [|discriminate]. inv H. cbn. rewrite (IH l eq_refl).
      unfold aeval_sb. cbn. f_equal. f_equal.
      destruct a; cbn in *; try (inv Ea; reflexivity). rewrite (proj1 Ht _ _ Ea). reflexivity.
  Qed.

  Lemma eval_sb_ok fr sb : frame_ok fr -> forall se, eval_sb fr sb = Some se -> forall x v, In (x, v) se -> sval_ok v.
  Proof.
    intros Ho. induction sb as [|[p a] r IH]; cbn [eval_sb]; intros se H x v Hin.
    - inv H. contradiction.
    - destruct (eval_sarg fr a) as [w|] eqn:Ea; [|discriminate].
      destruct (eval_sb fr r) as [l|] eqn:Er; [|discriminate]. inv H. destruct Hin as [Hin|Hin].
      + inv Hin. destruct a; cbn in Ea; try (inv Ea; exact I). apply (proj1 Ho x0). apply lookup_In. assumption.
      + eapply IH; eauto.
  Qed.

  Lemma eval_farg_abs env de fe fr g p a c : typed env de fe fr ->
    eval_farg fr g p a = Some c -> abs_fn c = aeval_farg env fe g p a.
  Proof.
    intros Ht H. destruct a; cbn in *.
    - inv H. rewrite <- (proj2 (proj2 Ht)), lookup_map. destruct (lookup (fenv fr) p0); reflexivity.
    - destruct (eval_sb fr cap) as [l|] eqn:El; [|discriminate]. inv H. cbn.
      rewrite (eval_sb_abs _ _ _ _ _ Ht _ El). reflexivity.
    - inv H. destruct (lookup (fcallables g) p); reflexivity.
    - inv H. reflexivity.
    - inv H. reflexivity.
  Qed.

  Lemma eval_farg_ok fr g p a c : frame_ok fr -> eval_farg fr g p a = Some c -> cfn_ok c.
  Proof.
    intros Ho H. destruct a; cbn in *.
    - inv H. destruct (lookup (fenv fr) p0) as [c'|] eqn:E; [|exact I]. apply (proj2 Ho p0). apply lookup_In. assumption.
    - destruct (eval_sb fr cap) as [l|] eqn:El; [|discriminate]. inv H. cbn. eapply eval_sb_ok; eauto.
    - inv H. destruct (lookup (fcallables g) p) as [d|]; [|exact I]. destruct d; cbn; auto. intros x v [].
    - inv H. exact I.
    - inv H. exact I.
  Qed.

  Lemma eval_fb_abs env de fe fr g fb : typed env de fe fr -> forall l,
    eval_fb fr g fb = Some l ->
    map (fun pc => (fst pc, abs_fn (snd pc))) l = map (fun pa => (fst pa, aeval_farg env fe g (fst pa) (snd pa))) fb.
  Proof.
    intros Ht. induction fb as [|[p a] r IH]; cbn [eval_fb]; intros l H.
    - inv H. reflexivity.
    - destruct (eval_farg fr g p a) as [c|] eqn:Ea; [|discriminate].
      destruct (eval_fb fr g r) as [l'|] eqn:Er; [|discriminate]. inv H. cbn. rewrite (IH l' eq_refl).
      rewrite (eval_farg_abs _ _ _ _ _ _ _ _ Ht Ea). reflexivity.
  Qed.

  Lemma eval_fb_ok fr g fb : frame_ok fr -> forall l, eval_fb fr g fb = Some l -> forall p c, In (p, c) l -> cfn_ok c.
  Proof.
    intros Ho. induction fb as [|[p a] r IH]; cbn [eval_fb]; intros l H q c Hin.
    - inv H. contradiction.
    - destruct (eval_farg fr g p a) as [c'|] eqn:Ea; [|discriminate].
      destruct (eval_fb fr g r) as [l'|] eqn:Er; [|discriminate]. inv H. destruct Hin as [Hin|Hin].
      + inv Hin. eapply eval_farg_ok; eauto.
      + eapply IH; eauto.
  Qed.

  Lemma callee_matches env de fe fr g sb db fb frc cl f : typed env de fe fr ->
    callee_frame fr g sb db fb = Some frc ->
    frame_matches (mkctx f (aeval_sb env sb)
                     (map (fun pa => (fst pa, aeval_darg de (fname g) (fst pa) (snd pa))) db)
                     (map (fun pa => (fst pa, aeval_farg env fe g (fst pa) (snd pa))) fb) cl) frc.
  Proof.
    intros Ht H. unfold callee_frame in H.
    destruct (eval_sb fr sb) as [se|] eqn:Es; [|discriminate].
    destruct (eval_fb fr g fb) as [l|] eqn:Ef; [|discriminate]. inv H.
    unfold frame_matches. cbn. split; [|split].
    - eapply eval_sb_abs; eauto.
    - apply map_ext. intros [p a]. cbn. f_equal. destruct a; cbn; try reflexivity. eapply loc_of_typed; eauto.
    - eapply eval_fb_abs; eauto.
  Qed.

  Lemma callee_ok fr g sb db fb frc : frame_ok fr -> callee_frame fr g sb db fb = Some frc -> frame_ok frc.
  Proof.
    intros Ho H. unfold callee_frame in H.
    destruct (eval_sb fr sb) as [se|] eqn:Es; [|discriminate].
    destruct (eval_fb fr g fb) as [l|] eqn:Ef; [|discriminate]. inv H. split; cbn.
    - eapply eval_sb_ok; eauto. - eapply eval_fb_ok; eauto.
  Qed.

  Lemma matches_typed e fr env : frame_matches e fr -> entry_covered (cse e) env = true -> typed env (cde e) (cfe e) fr.
  Proof.
    intros [H1 [H2 H3]] Hc. split; [|split; assumption].
    intros x v Hx. assert (Hl : lookup (cse e) x = Some (abs_val v)) by (rewrite <- H1, lookup_map, Hx; reflexivity).
    unfold entry_covered in Hc. pose proof (proj1 (forallb_forall _ _) Hc _ (lookup_In _ _ _ Hl)) as H. cbn in H.
    apply oaval_eqb_eq in H. congruence.
  Qed.

  (* ---------------------------------------------------------------------------------------------- *)
  (* the simulation                                                                                   *)
  (* ---------------------------------------------------------------------------------------------- *)

  Variable t : list actx.
  Hypothesis Htbl : tbl_ok U api t = true.

  Lemma tbl_in e : In e t -> rok (chk_entry U api e) = true /\ forall c, In c (rcalls (chk_entry U api e)) -> In c t.
  Proof.
    intros He. unfold tbl_ok in Htbl. pose proof (proj1 (forallb_forall _ _) Htbl e He) as H. cbn in H.
    apply andb_true_iff in H. destruct H as [H1 H2]. split; [assumption|].
    intros c Hc. apply memc_In. exact (proj1 (forallb_forall _ _) H2 c Hc).
  Qed.

  Lemma exec_S n c fr st : exec (Datatypes.S n) c fr st =
    match c with
    | Skip => Some (FN, fr, st)
    | Ev (Call s f sb db fb) =>
        match find_fn api f with
        | None => Some (FExc, fr, st)
        | Some g =>
            match callee_frame fr g sb db fb with
            | None => Some (FExc, fr, st)
            | Some fr' =>
                match exec n (fbody g) fr' (obsv st (OCall s)) with
                | None => None
                | Some (r, _, st') => Some (after_call r, fr, st')
                end
            end
        end
    | Ev (CallParam s p) =>
        match lookup (fenv fr) p with
        | Some CFUser => Some (FN, fr, obsv st (OCall s))
        | Some (CFClos c cap) =>
            match find_fn api c with
            | None => Some (FExc, fr, st)
            | Some g =>
                match exec n (fbody g) (mkframe cap [] []) (obsv st (OCall s)) with
                | None => None
                | Some (r, _, st') => Some (after_call r, fr, st')
                end
            end
        | Some (CFGlob s') => Some (FN, fr, global_draw Sg V draw s' st)
        | Some CFUnknown | None => Some (FN, fr, global_draw Sg V draw s st)
        end
    | Ev e => Some (step e fr st)
    | Seq a b => match exec (Datatypes.S n) a fr st with
                 | Some (FN, fr', st') => exec (Datatypes.S n) b fr' st'
                 | r => r
                 end
    | If s a b => let d := decide s (hist st) in
                  if d then exec (Datatypes.S n) a fr (obsv st (ODec d)) else exec (Datatypes.S n) b fr (obsv st (ODec d))
    | Loop s body =>
        let d := decide s (hist st) in
        if d then
          match exec (Datatypes.S n) body fr (obsv st (ODec d)) with
          | Some (FN, fr', st') | Some (FCont, fr', st') => exec n (Loop s body) fr' st'
          | Some (FBrk, fr', st') => Some (FN, fr', st')
          | r => r
          end
        else Some (FN, fr, obsv st (ODec d))
    | Return => Some (FRet, fr, st)
    | Break => Some (FBrk, fr, st)
    | Continue => Some (FCont, fr, st)
    | Raise => Some (FExc, fr, st)
    | Try b h => match exec (Datatypes.S n) b fr st with
                 | Some (FExc, fr', st') => exec (Datatypes.S n) h fr' st'
                 | r => r
                 end
    end.
  Proof. destruct c; reflexivity. Qed.

  (* entering a context of the table *)
  Definition Enter (n : nat) : Prop := forall e g fr a b f fr' a',
    In e t -> find_fn api (cf e) = Some g -> frame_matches e fr -> frame_ok fr -> Rel a b -> agree (ccl e) a b ->
    exec n (fbody g) fr a = Some (f, fr', a') ->
    exists b', exec n (fbody g) fr b = Some (f, fr', b') /\ Rel a' b' /\ stable a b a' b' /\ outside a a'.

  Definition Sim (n : nat) : Prop := forall c env de fe cl fr a b f fr' a',
    rok (chk U api env de fe c (Some cl)) = true ->
    (forall e, In e (rcalls (chk U api env de fe c (Some cl))) -> In e t) ->
    typed env de fe fr -> frame_ok fr -> Rel a b -> agree cl a b ->
    exec n c fr a = Some (f, fr', a') ->
    exists b', exec n c fr b = Some (f, fr', b') /\ Concl env de fe (chk U api env de fe c (Some cl)) a b f fr' a' b'.

  Lemma Sim_Enter n : Sim n -> Enter n.
  Proof.
    intros HS e g fr a b f fr' a' He Hg Hm Ho HR Hag Hex.
    destruct (tbl_in e He) as [Hok Hcalls]. unfold chk_entry in Hok, Hcalls. rewrite Hg in Hok, Hcalls.
    cbn [rok rcalls] in Hok, Hcalls. apply andb_true_iff in Hok. destruct Hok as [Hcov Hok].
    destruct (HS _ _ _ _ _ _ _ _ _ _ _ Hok Hcalls (matches_typed _ _ _ Hm Hcov) Ho HR Hag Hex) as [b' [Eb C]].
    exists b'. split; [assumption|]. destruct C as [_ [_ [C1 [C2 [C3 _]]]]]. auto.
  Qed.

  Lemma Post_keep env de fe r a b f fr a' b' cl :
    typed env de fe fr -> frame_ok fr -> Rel a' b' -> stable a b a' b' -> outside a a' -> agree cl a b ->
    rpost r = Some cl -> Concl env de fe r a b f fr a' b'.
  Proof.
    intros. csplit; try assumption. intros _. exists cl. split; [assumption|]. eapply agree_stable; eauto.
  Qed.

  Lemma Concl_noFN env de fe r r' a b f fr a' b' : f <> FN -> Concl env de fe r a b f fr a' b' -> Concl env de fe r' a b f fr a' b'.
  Proof. intros Hf [C1 [C2 [C3 [C4 [C5 _]]]]]. csplit; try assumption. intros; contradiction. Qed.

  Lemma agree_join_l x o z a b : agree x a b -> join (Some x) o = Some z -> agree z a b.
  Proof.
    intros H E. destruct o as [y|]; cbn in E; inv E; [|assumption].
    eapply agree_sub; [|exact H]. intros k Hk. apply inter_spec in Hk. apply Hk.
  Qed.
  Lemma agree_join_r y o z a b : agree y a b -> join o (Some y) = Some z -> agree z a b.
  Proof.
    intros H E. destruct o as [x|]; cbn in E; inv E; [|assumption].
    eapply agree_sub; [|exact H]. intros k Hk. apply inter_spec in Hk. apply Hk.
  Qed.

  Lemma sim_step n : Sim n -> Sim (Datatypes.S n).
  Proof.
    intros IHn. pose proof (Sim_Enter n IHn) as HE.
    intros c. induction c as [|e|c1 IH1 c2 IH2|s c1 IH1 c2 IH2|s c IH| | | | |c1 IH1 c2 IH2];
      intros env de fe cl fr a b f fr' a' Hok Hcalls Ht Ho HR Hag Hex; rewrite exec_S in Hex |- *.
    - (* Skip *)
      inv Hex. exists b. split; [reflexivity|]. cbn [chk]. nodd cl.
    - (* Ev *)
      cbn [chk] in *. destruct e;
        try (match goal with |- context [step ?e _ _] =>
               destruct (step_sim e env de fe cl fr a b f fr' a' I Hok Ht Ho HR Hag) as [b' [Eb C]];
               [congruence | exists b'; split; [congruence | exact C]] end).
      + (* Call *)
        cbn [chk_event] in *. destruct (find_fn api f0) as [g|] eqn:Hf; [|discriminate]. cbn [rok rcalls rpost] in *.
        destruct (callee_frame fr g sb db fb) as [frc|] eqn:Hcf.
        * destruct (exec n (fbody g) frc (obsv a (OCall s))) as [[[r frr] a1]|] eqn:Ea; [|discriminate]. inv Hex.
          pose proof (callee_matches _ _ _ _ _ _ _ _ _
                        (restrict U cl (map (fun pa => (fst pa, aeval_darg de (fname g) (fst pa) (snd pa))) db)) f0 Ht Hcf) as Hm.
          destruct (HE _ g frc (obsv a (OCall s)) (obsv b (OCall s)) r frr a' (Hcalls _ (or_introl eq_refl)) Hf Hm
                      (callee_ok _ _ _ _ _ _ Ho Hcf) (Rel_obsv _ _ _ HR)) as [b' [Eb [C1 [C2 C3]]]]; [|assumption|].
          { cbn [ccl]. eapply agree_sub; [|exact Hag]. intros x Hx. eapply restrict_sub; eauto. }
          rewrite Eb. exists b'. split; [reflexivity|]. eapply Post_keep; eauto.
        * inv Hex. exists b. split; [reflexivity|]. apply concl_exc; auto. discriminate.
      + (* CallParam *)
        cbn [chk_event] in *.
        assert (Lf : lookup fe p = option_map abs_fn (lookup (fenv fr) p)) by (rewrite <- (proj2 (proj2 Ht)); apply lookup_map).
        rewrite Lf in Hok, Hcalls |- *. clear Lf.
        destruct (lookup (fenv fr) p) as [c|] eqn:Lp; cbn [option_map] in *; [|discriminate].
        destruct c; cbn [abs_fn] in *; try discriminate.
        * inv Hex. exists (obsv b (OCall s)). split; [reflexivity|]. nodd cl. apply Rel_obsv; assumption.
        * destruct (find_fn api c) as [g|] eqn:Hf; [|discriminate]. cbn [rok rcalls rpost] in *.
          destruct (exec n (fbody g) (mkframe cap [] []) (obsv a (OCall s))) as [[[r frr] a1]|] eqn:Ea; [|discriminate]. inv Hex.
          destruct (HE _ g (mkframe cap [] []) (obsv a (OCall s)) (obsv b (OCall s)) r frr a' (Hcalls _ (or_introl eq_refl)) Hf)
            as [b' [Eb [C1 [C2 C3]]]]; try assumption.
          { unfold frame_matches; cbn. auto. }
          { split; cbn; [|intros ? ? []]. apply (proj2 Ho p (CFClos c cap)). apply lookup_In. assumption. }
          { apply Rel_obsv; assumption. }
          { intros l k Hm. cbn in Hm. unfold memk in Hm. cbn in Hm. discriminate. }
          rewrite Eb. exists b'. split; [reflexivity|]. eapply Post_keep; eauto.
    - (* Seq *)
      cbn [chk] in *. cbn [rok rcalls rpost] in *. apply andb_true_iff in Hok. destruct Hok as [Hok1 Hok2].
      destruct (exec (Datatypes.S n) c1 fr a) as [[[f1 fr1] a1]|] eqn:E1; [|discriminate].
      destruct (IH1 env de fe cl fr a b f1 fr1 a1 Hok1 (fun e He => Hcalls e (in_or_app _ _ _ (or_introl He))) Ht Ho HR Hag E1)
        as [b1 [Eb1 C1]]. rewrite Eb1.
      destruct f1; try (inv Hex; exists b1; split; [reflexivity|]; eapply Concl_noFN; [discriminate | exact C1]).
      destruct C1 as [T1 [O1 [R1 [S1 [U1 P1]]]]]. destruct (P1 eq_refl) as [cl1 [Ep A1]]. rewrite Ep in *.
      destruct (IH2 env de fe cl1 fr1 a1 b1 f fr' a' Hok2 (fun e He => Hcalls e (in_or_app _ _ _ (or_intror He))) T1 O1 R1 A1 Hex)
        as [b' [Eb C2]]. exists b'. split; [assumption|].
      destruct C2 as [T2 [O2 [R2 [S2 [U2 P2]]]]]. csplit; try assumption.
      + eapply stable_trans; eauto. + eapply outside_trans; eauto.
    - (* If *)
      cbn [chk] in *. cbn [rok rcalls rpost] in *. apply andb_true_iff in Hok. destruct Hok as [Hok1 Hok2].
      cbv zeta in *. rewrite <- (r_hist _ _ HR). destruct (decide s (hist a)) eqn:Ed.
      + destruct (IH1 env de fe cl fr _ (obsv b (ODec true)) f fr' a' Hok1 (fun e He => Hcalls e (in_or_app _ _ _ (or_introl He))) Ht Ho
                    (Rel_obsv _ _ _ HR) Hag Hex) as [b' [Eb C]].
        exists b'. split; [assumption|]. destruct C as [T1 [O1 [R1 [S1 [U1 P1]]]]]. csplit; try assumption.
        intros Hf. destruct (P1 Hf) as [x [Ex Ax]]. rewrite Ex.
        destruct (join (Some x) (rpost (chk U api env de fe c2 (Some cl)))) as [z|] eqn:Ej.
        * exists z. split; [reflexivity|]. eapply agree_join_l; eauto.
        * destruct (rpost (chk U api env de fe c2 (Some cl))); discriminate.
      + destruct (IH2 env de fe cl fr _ (obsv b (ODec false)) f fr' a' Hok2 (fun e He => Hcalls e (in_or_app _ _ _ (or_intror He))) Ht Ho
                    (Rel_obsv _ _ _ HR) Hag Hex) as [b' [Eb C]].
        exists b'. split; [assumption|]. destruct C as [T1 [O1 [R1 [S1 [U1 P1]]]]]. csplit; try assumption.
        intros Hf. destruct (P1 Hf) as [y [Ey Ay]]. rewrite Ey.
        destruct (join (rpost (chk U api env de fe c1 (Some cl))) (Some y)) as [z|] eqn:Ej.
        * exists z. split; [reflexivity|]. eapply agree_join_r; eauto.
        * destruct (rpost (chk U api env de fe c1 (Some cl))); discriminate.
    - (* Loop *)
      pose proof Hok as Hok'. pose proof Hcalls as Hcalls'.
      cbn [chk] in Hok, Hcalls |- *. cbn [rok rcalls rpost] in *.
      cbv zeta in *. rewrite <- (r_hist _ _ HR). destruct (decide s (hist a)) eqn:Ed.
      + destruct (exec (Datatypes.S n) c fr (obsv a (ODec true))) as [[[f1 fr1] a1]|] eqn:E1; [|discriminate].
        destruct (IH env de fe cl fr _ (obsv b (ODec true)) f1 fr1 a1 Hok Hcalls Ht Ho (Rel_obsv _ _ _ HR) Hag E1) as [b1 [Eb1 C1]].
        rewrite Eb1. destruct C1 as [T1 [O1 [R1 [S1 [U1 P1]]]]].
        assert (A1 : agree cl a1 b1) by (eapply agree_stable; eauto).
        assert (Hrec : forall f fr' a', exec n (Loop s c) fr1 a1 = Some (f, fr', a') ->
                  exists b', exec n (Loop s c) fr1 b1 = Some (f, fr', b') /\
                             Concl env de fe (mkres (rok (chk U api env de fe c (Some cl))) (Some cl)
                                                (rcalls (chk U api env de fe c (Some cl))) (rerr (chk U api env de fe c (Some cl))))
                                   a b f fr' a' b').
        { intros g0 fr0 a0 Hx. destruct (IHn (Loop s c) env de fe cl fr1 a1 b1 g0 fr0 a0 Hok' Hcalls' T1 O1 R1 A1 Hx) as [b' [Eb C]].
          exists b'. split; [assumption|]. cbn [chk] in C. destruct C as [T2 [O2 [R2 [S2 [U2 P2]]]]]. csplit; try assumption.
          - eapply stable_trans; eauto. - eapply outside_trans; eauto. }
        destruct f1.
        * apply Hrec; assumption.
        * inv Hex. exists b1. split; [reflexivity|]. eapply Post_keep; eauto.
        * apply Hrec; assumption.
        * inv Hex. exists b1. split; [reflexivity|]. csplit; try assumption. discriminate.
        * inv Hex. exists b1. split; [reflexivity|]. csplit; try assumption. discriminate.
      + inv Hex. exists (obsv b (ODec false)). split; [reflexivity|]. nodd cl. apply Rel_obsv; assumption.
    - inv Hex. exists b. split; [reflexivity|]. apply concl_exc; auto. discriminate.
    - inv Hex. exists b. split; [reflexivity|]. apply concl_exc; auto. discriminate.
    - inv Hex. exists b. split; [reflexivity|]. apply concl_exc; auto. discriminate.
    - inv Hex. exists b. split; [reflexivity|]. apply concl_exc; auto. discriminate.
    - (* Try *)
      cbn [chk] in *. cbn [rok rcalls rpost] in *. apply andb_true_iff in Hok. destruct Hok as [Hok1 Hok2].
      destruct (exec (Datatypes.S n) c1 fr a) as [[[f1 fr1] a1]|] eqn:E1; [|discriminate].
      destruct (IH1 env de fe cl fr a b f1 fr1 a1 Hok1 (fun e He => Hcalls e (in_or_app _ _ _ (or_introl He))) Ht Ho HR Hag E1)
        as [b1 [Eb1 C1]]. rewrite Eb1. destruct C1 as [T1 [O1 [R1 [S1 [U1 P1]]]]].
      assert (Hl : f1 <> FExc -> exists b', Some (f1, fr1, b1) = Some (f1, fr1, b') /\
                Concl env de fe (mkres true (join (rpost (chk U api env de fe c1 (Some cl))) (rpost (chk U api env de fe c2 (Some cl))))
                                   (rcalls (chk U api env de fe c1 (Some cl)) ++ rcalls (chk U api env de fe c2 (Some cl)))
                                   (rerr (chk U api env de fe c1 (Some cl)) ++ rerr (chk U api env de fe c2 (Some cl))))
                      a b f1 fr1 a1 b').
      { intros _. exists b1. split; [reflexivity|]. csplit; try assumption. cbn [rpost].
        intros Hf. destruct (P1 Hf) as [x [Ex Ax]]. rewrite Ex.
        destruct (join (Some x) (rpost (chk U api env de fe c2 (Some cl)))) as [z|] eqn:Ej.
        * exists z. split; [reflexivity|]. eapply agree_join_l; eauto.
        * destruct (rpost (chk U api env de fe c2 (Some cl))); discriminate. }
      destruct f1; try (inv Hex; apply Hl; discriminate).
      assert (A1 : agree cl a1 b1) by (eapply agree_stable; eauto).
      destruct (IH2 env de fe cl fr1 a1 b1 f fr' a' Hok2 (fun e He => Hcalls e (in_or_app _ _ _ (or_intror He))) T1 O1 R1 A1 Hex)
        as [b' [Eb C2]]. exists b'. split; [assumption|]. destruct C2 as [T2 [O2 [R2 [S2 [U2 P2]]]]]. csplit; try assumption.
      + eapply stable_trans; eauto. + eapply outside_trans; eauto.
      + intros Hf. destruct (P2 Hf) as [y [Ey Ay]]. cbn [rpost]. rewrite Ey.
        destruct (join (rpost (chk U api env de fe c1 (Some cl))) (Some y)) as [z|] eqn:Ej.
        * exists z. split; [reflexivity|]. eapply agree_join_r; eauto.
        * destruct (rpost (chk U api env de fe c1 (Some cl))); discriminate.
  Qed.

  Lemma sim_all n : Sim n.
  Proof.
    induction n as [|n IH]; [|apply sim_step; assumption].
    intros c env de fe cl fr a b f fr' a' _ _ _ _ _ _ H. cbn in H. discriminate.
  Qed.

  Lemma enter_all n : Enter n.
  Proof. apply Sim_Enter, sim_all. Qed.
End Sim.

(* ------------------------------------------------------------------------------------------------ *)
(* Part 3: the theorems about entry points                                                           *)
(* ------------------------------------------------------------------------------------------------ *)

Lemma names_unique_find api g : names_unique api = true -> In g api -> find_fn api (fname g) = Some g.
Proof.
  unfold names_unique. induction api as [|g0 r IH]; intros Hu Hin; [contradiction|].
  apply andb_true_iff in Hu. destruct Hu as [H1 H2]. cbn [find_fn]. destruct Hin as [->|Hin].
  - rewrite String.eqb_refl. reflexivity.
  - destruct (String.eqb (fname g) (fname g0)) eqn:E.
    + apply negb_true_iff in H1. assert (X : existsb (fun h => String.eqb (fname g0) (fname h)) r = true).
      { apply existsb_exists. exists g. split; [assumption|]. rewrite String.eqb_sym. assumption. }
      congruence.
    + apply IH; assumption.
Qed.

Lemma entries_ccl api exempt e : In e (entries api exempt) -> ccl e = [].
Proof.
  unfold entries. rewrite in_flat_map. intros [g [_ H]]. unfold entries_of in H. destruct (fexported g); [|contradiction].
  apply in_flat_map in H. destruct H as [se [_ H]]. apply in_map_iff in H. destruct H as [fe [<- _]]. reflexivity.
Qed.

Lemma entries_intro api exempt g se fe :
  In g api -> fexported g = true -> In se (seed_modes g) ->
  (fe = fe_user g \/ (fe = fe_default g /\ lookup exempt (fname g) = None)) ->
  In (mkctx (fname g) se (own_de g) fe []) (entries api exempt).
Proof.
  intros Hg He Hse Hfe. unfold entries. apply in_flat_map. exists g. split; [assumption|].
  unfold entries_of. rewrite He. apply in_flat_map. exists se. split; [assumption|]. apply in_map_iff. exists fe.
  split; [reflexivity|]. destruct Hfe as [->|[-> Hx]].
  - destruct (lookup exempt (fname g)); right; left; reflexivity.
  - rewrite Hx. left; reflexivity.
Qed.

Lemma entry_cbs_abs exempt g cbs : entry_cbs exempt g cbs ->
  let fe := map (fun pc => (fst pc, abs_fn (snd pc))) cbs in
  (fe = fe_user g \/ (fe = fe_default g /\ lookup exempt (fname g) = None)) /\
  forall p c, In (p, c) cbs -> forall k, ~ cfn_passes c k.
Proof.
  intros [->|[-> Hx]]; cbn zeta; split.
  - left. unfold user_cbs, fe_user. rewrite map_map. reflexivity.
  - unfold user_cbs. intros p c H k. apply in_map_iff in H. destruct H as [pd [E _]]. inversion E; subst. intros [].
  - right. split; [|assumption]. unfold default_cbs, fe_default, afn_of_fdef. rewrite map_map. reflexivity.
  - unfold default_cbs. intros p c H k. apply in_map_iff in H. destruct H as [[q d] [E _]]. inversion E; subst.
    destruct d; cbn; try tauto. intros [x []].
Qed.

Section Top.
  Variables Sg V : Type.
  Variable draw : nat -> list (obs V) -> Sg -> V * Sg.
  Variable decide : nat -> list (obs V) -> bool.
  Variable wval : nat -> string -> list (obs V) -> option V.
  Variable wany : list (obs V) -> (string -> option V) -> string -> option V.
  Variable init : Z -> Sg.
  Variable ent_draw : Sg -> Sg * Sg.
  Variable clock : Sg -> V * Sg.
  Variable U : dloc -> list string.
  Variable api : list fn.
  Variable exempt : list (string * string).
  Variable fuel : nat.
  Hypothesis Hall : check_all U api exempt fuel = true.

  Local Notation state := (state Sg V).
  Local Notation hist := (hist Sg V).
  Local Notation lg := (lg Sg V).
  Local Notation gs := (gs Sg V).
  Local Notation ent := (ent Sg V).
  Local Notation ext := (ext Sg V).
  Local Notation exec := (exec Sg V draw decide wval wany init ent_draw clock U api).
  Local Notation confined := (confined Sg V U).

  Lemma check_all_table : exists t, tbl_ok U api t = true /\ forall e, In e (entries api exempt) -> In e t.
  Proof.
    unfold check_all in Hall. destruct (reach U api fuel (entries api exempt) []) as [t|]; [|discriminate].
    apply andb_true_iff in Hall. destruct Hall as [H _]. apply andb_true_iff in H. destruct H as [H1 H2].
    exists t. split; [assumption|]. intros e He. apply memc_In. exact (proj1 (forallb_forall _ _) H2 e He).
  Qed.

  Lemma frame_ok_passed fr : frame_ok (passed fr) fr.
  Proof.
    split.
    - intros x v Hin. destruct v; cbn; auto. left. exists x. assumption.
    - intros p c Hin. destruct c; cbn; auto. intros x v Hx. destruct v; cbn; auto. right. exists p, (CFClos c cap).
      split; [assumption|]. cbn. exists x. assumption.
  Qed.

  Lemma Rel_sym P a b : Rel Sg V U P a b -> Rel Sg V U P b a.
  Proof. intros [H1 H2 H3 H4 H5]. constructor; auto. intros k Hk. symmetry. auto. Qed.

  (* THE THEOREM.  e: an entry context of an exported function (every combination of integer seeds / generator
     objects and of user / default callbacks is one); fr: any concrete frame that instantiates it; w1, w2: two worlds
     that agree only on what is handed to the call.  Then the two runs (same fuel) end with the same flag and frame,
     have observed exactly the same history (every draw, every read of a default dictionary, every decision) ...,
     have not touched the global stream, OS entropy, nor any generator object that was not handed over, and leave
     the handed-over generator objects in the same state. *)
  Theorem noninterference :
    forall e g, In e (entries api exempt) -> find_fn api (cf e) = Some g ->
    forall fr, frame_matches e fr ->
    forall w1 w2, same_inputs Sg V fr w1 w2 -> confined w1 -> confined w2 ->
    forall n f fr' w1', exec n (fbody g) fr w1 = Some (f, fr', w1') ->
    exists w2', exec n (fbody g) fr w2 = Some (f, fr', w2')
      /\ hist w1' = hist w2' /\ lg w1' = lg w2'
      /\ untouched_outside Sg V (passed fr) w1 w1' /\ untouched_outside Sg V (passed fr) w2 w2'
      /\ (forall k, passed fr k -> ext w1' k = ext w2' k)
      /\ no_new_difference Sg V w1 w2 w1' w2'.
  Proof.
    intros e g He Hg fr Hm w1 w2 [Hh [Hl Hx]] Hc1 Hc2 n f fr' w1' Hex.
    destruct check_all_table as [t [Ht Hin]].
    assert (HR : Rel Sg V U (passed fr) w1 w2) by (constructor; assumption).
    assert (Hag : forall a b, agree Sg V (ccl e) a b).
    { intros a b l k Hk. rewrite (entries_ccl _ _ _ He) in Hk. unfold memk in Hk. cbn in Hk. discriminate. }
    destruct (enter_all Sg V draw decide wval wany init ent_draw clock U api (passed fr) t Ht n e g fr w1 w2 f fr' w1'
                (Hin e He) Hg Hm (frame_ok_passed fr) HR (Hag _ _) Hex) as [w2' [E2 [R' [S' O1]]]].
    destruct (enter_all Sg V draw decide wval wany init ent_draw clock U api (passed fr) t Ht n e g fr w2 w1 f fr' w2'
                (Hin e He) Hg Hm (frame_ok_passed fr) (Rel_sym _ _ _ HR) (Hag _ _) E2) as [w1'' [_ [_ [_ O2]]]].
    exists w2'. destruct R' as [R1 R2 R3 _ _]. repeat (split; [assumption|]). assumption.
  Qed.

  (* no generator object is handed over (integer seeds, or a function without a seed): nothing of the world is touched *)
  Corollary noninterference_closed :
    forall e g, In e (entries api exempt) -> find_fn api (cf e) = Some g ->
    forall fr, frame_matches e fr -> (forall k, ~ passed fr k) ->
    forall w1 w2, hist w1 = hist w2 -> lg w1 = lg w2 -> confined w1 -> confined w2 ->
    forall n f fr' w1', exec n (fbody g) fr w1 = Some (f, fr', w1') ->
    exists w2', exec n (fbody g) fr w2 = Some (f, fr', w2')
      /\ hist w1' = hist w2'
      /\ (gs w1' = gs w1 /\ ent w1' = ent w1 /\ forall k, ext w1' k = ext w1 k)
      /\ (gs w2' = gs w2 /\ ent w2' = ent w2 /\ forall k, ext w2' k = ext w2 k).
  Proof.
    intros e g He Hg fr Hm Hnp w1 w2 Hh Hl Hc1 Hc2 n f fr' w1' Hex.
    assert (Hsi : same_inputs Sg V fr w1 w2).
    { split; [assumption|]. split; [assumption|]. intros k Hk. destruct (Hnp k Hk). }
    destruct (noninterference e g He Hg fr Hm w1 w2 Hsi Hc1 Hc2 n f fr' w1' Hex)
      as [w2' [E [H1 [_ [[A1 [A2 A3]] [[B1 [B2 B3]] _]]]]]].
    exists w2'. repeat split; auto.
  Qed.

  Lemma int_frame_entry g z cbs : In g api -> fexported g = true -> (fint_ok g = true \/ fseeds g = []) ->
    entry_cbs exempt g cbs ->
    exists e, In e (entries api exempt) /\ cf e = fname g /\ frame_matches e (int_frame g z cbs) /\
              forall k, ~ passed (int_frame g z cbs) k.
  Proof.
    intros Hg He Hs Hcb. destruct (entry_cbs_abs _ _ _ Hcb) as [Hfe Hnp].
    exists (mkctx (fname g) (map (fun x => (x, AInt)) (fseeds g)) (own_de g) (map (fun pc => (fst pc, abs_fn (snd pc))) cbs) []).
    split; [|split; [reflexivity|split]].
    - apply entries_intro; auto. unfold seed_modes. destruct (fseeds g) eqn:E; [left; reflexivity|].
      destruct Hs as [->|C]; [left; reflexivity | discriminate].
    - unfold frame_matches, int_frame; cbn. rewrite map_map. auto.
    - intros k [[x H]|[p [c [H1 H2]]]]; cbn in *.
      + apply in_map_iff in H. destruct H as [y [E _]]. discriminate.
      + exact (Hnp p c H1 k H2).
  Qed.

  Lemma gen_frame_entry g ks cbs : In g api -> fexported g = true -> fseeds g <> [] ->
    entry_cbs exempt g cbs ->
    exists e, In e (entries api exempt) /\ cf e = fname g /\ frame_matches e (gen_frame g ks cbs) /\
              forall k, passed (gen_frame g ks cbs) k <-> exists x, In x (fseeds g) /\ k = ks x.
  Proof.
    intros Hg He Hs Hcb. destruct (entry_cbs_abs _ _ _ Hcb) as [Hfe Hnp].
    exists (mkctx (fname g) (map (fun x => (x, AGenExt)) (fseeds g)) (own_de g) (map (fun pc => (fst pc, abs_fn (snd pc))) cbs) []).
    split; [|split; [reflexivity|split]].
    - apply entries_intro; auto. unfold seed_modes. destruct (fseeds g) eqn:E; [contradiction|].
      apply in_or_app. right. left. reflexivity.
    - unfold frame_matches, gen_frame; cbn. rewrite map_map. auto.
    - intros k. split.
      + intros [[x H]|[p [c [H1 H2]]]]; cbn in *.
        * apply in_map_iff in H. destruct H as [y [E Hy]]. inversion E as [[E1 E2]]. exists y. split; [assumption | congruence].
        * destruct (Hnp p c H1 k H2).
      + intros [x [Hx ->]]. left. exists x. cbn. apply in_map_iff. exists x. auto.
  Qed.

  (* integer seeds (or no seed parameter at all), dictionaries left at their defaults *)
  Theorem integer_seed_deterministic :
    forall g, In g api -> find_fn api (fname g) = Some g -> fexported g = true -> (fint_ok g = true \/ fseeds g = []) ->
    forall (z : string -> Z) cbs, entry_cbs exempt g cbs ->
    forall w1 w2, hist w1 = hist w2 -> lg w1 = lg w2 -> confined w1 -> confined w2 ->
    forall n f fr' w1', exec n (fbody g) (int_frame g z cbs) w1 = Some (f, fr', w1') ->
    exists w2', exec n (fbody g) (int_frame g z cbs) w2 = Some (f, fr', w2')
      /\ hist w1' = hist w2'
      /\ (gs w1' = gs w1 /\ ent w1' = ent w1 /\ forall k, ext w1' k = ext w1 k)
      /\ (gs w2' = gs w2 /\ ent w2' = ent w2 /\ forall k, ext w2' k = ext w2 k).
  Proof.
    intros g Hg Hf He Hs z cbs Hcb. destruct (int_frame_entry g z cbs Hg He Hs Hcb) as [e [H1 [H2 [H3 H4]]]].
    rewrite <- H2 in Hf. exact (noninterference_closed e g H1 Hf _ H3 H4).
  Qed.

  (* generator objects as seeds: only those objects advance, and a second object in the same state reproduces the run *)
  Theorem generator_object_only :
    forall g, In g api -> find_fn api (fname g) = Some g -> fexported g = true -> fseeds g <> [] ->
    forall (ks : string -> nat) cbs, entry_cbs exempt g cbs ->
    forall w1 w2, hist w1 = hist w2 -> lg w1 = lg w2 -> (forall x, In x (fseeds g) -> ext w1 (ks x) = ext w2 (ks x)) ->
    confined w1 -> confined w2 ->
    forall n f fr' w1', exec n (fbody g) (gen_frame g ks cbs) w1 = Some (f, fr', w1') ->
    exists w2', exec n (fbody g) (gen_frame g ks cbs) w2 = Some (f, fr', w2')
      /\ hist w1' = hist w2'
      /\ (forall x, In x (fseeds g) -> ext w1' (ks x) = ext w2' (ks x))
      /\ (gs w1' = gs w1 /\ ent w1' = ent w1 /\ forall k, (forall x, In x (fseeds g) -> k <> ks x) -> ext w1' k = ext w1 k)
      /\ (gs w2' = gs w2 /\ ent w2' = ent w2 /\ forall k, (forall x, In x (fseeds g) -> k <> ks x) -> ext w2' k = ext w2 k).
  Proof.
    intros g Hg Hf He Hs ks cbs Hcb w1 w2 Hh Hl Hx Hc1 Hc2 n f fr' w1' Hex.
    destruct (gen_frame_entry g ks cbs Hg He Hs Hcb) as [e [H1 [H2 [H3 H4]]]]. rewrite <- H2 in Hf.
    assert (Hsi : same_inputs Sg V (gen_frame g ks cbs) w1 w2).
    { split; [assumption|]. split; [assumption|]. intros k Hk. apply H4 in Hk. destruct Hk as [x [Hk ->]]. auto. }
    destruct (noninterference e g H1 Hf _ H3 w1 w2 Hsi Hc1 Hc2 n f fr' w1' Hex)
      as [w2' [E [A [_ [[A1 [A2 A3]] [[B1 [B2 B3]] [C _]]]]]]].
    exists w2'. split; [assumption|]. split; [assumption|]. split; [|split].
    - intros x Hk. apply C. apply H4. eauto.
    - split; [assumption|]. split; [assumption|]. intros k Hk. apply A3. intros Hp. apply H4 in Hp. destruct Hp as [x [Hp1 Hp2]]. exact (Hk x Hp1 Hp2).
    - split; [assumption|]. split; [assumption|]. intros k Hk. apply B3. intros Hp. apply H4 in Hp. destruct Hp as [x [Hp1 Hp2]]. exact (Hk x Hp1 Hp2).
  Qed.
End Top.

(* the same theorems with the premises discharged from two boolean facts (both are closed computations for the
   regenerated skeleton): the checker accepts everything, and function names are unique *)
Lemma api_integer_seed Sg V draw decide wval wany init ent_draw clock U api exempt fuel :
  check_all U api exempt fuel = true -> names_unique api = true ->
  forall g, In g api -> fexported g = true -> fint_ok g = true ->
  forall (z : string -> Z) cbs, entry_cbs exempt g cbs ->
  forall w1 w2 : state Sg V, hist Sg V w1 = hist Sg V w2 -> lg Sg V w1 = lg Sg V w2 -> confined Sg V U w1 -> confined Sg V U w2 ->
  forall n f fr' w1', exec Sg V draw decide wval wany init ent_draw clock U api n (fbody g) (int_frame g z cbs) w1 = Some (f, fr', w1') ->
  exists w2', exec Sg V draw decide wval wany init ent_draw clock U api n (fbody g) (int_frame g z cbs) w2 = Some (f, fr', w2')
    /\ hist Sg V w1' = hist Sg V w2'
    /\ (gs Sg V w1' = gs Sg V w1 /\ ent Sg V w1' = ent Sg V w1 /\ forall k, ext Sg V w1' k = ext Sg V w1 k)
    /\ (gs Sg V w2' = gs Sg V w2 /\ ent Sg V w2' = ent Sg V w2 /\ forall k, ext Sg V w2' k = ext Sg V w2 k).
Proof.
  intros Hall Hu g Hg He Hi. apply integer_seed_deterministic with (exempt := exempt) (fuel := fuel); auto.
  apply names_unique_find; auto.
Qed.

Lemma api_unseeded Sg V draw decide wval wany init ent_draw clock U api exempt fuel :
  check_all U api exempt fuel = true -> names_unique api = true ->
  forall g, In g api -> fexported g = true -> fseeds g = [] ->
  forall cbs, entry_cbs exempt g cbs ->
  forall w1 w2 : state Sg V, hist Sg V w1 = hist Sg V w2 -> lg Sg V w1 = lg Sg V w2 -> confined Sg V U w1 -> confined Sg V U w2 ->
  forall n f fr' w1', exec Sg V draw decide wval wany init ent_draw clock U api n (fbody g) (noseed_frame g cbs) w1 = Some (f, fr', w1') ->
  exists w2', exec Sg V draw decide wval wany init ent_draw clock U api n (fbody g) (noseed_frame g cbs) w2 = Some (f, fr', w2')
    /\ hist Sg V w1' = hist Sg V w2'
    /\ (gs Sg V w1' = gs Sg V w1 /\ ent Sg V w1' = ent Sg V w1 /\ forall k, ext Sg V w1' k = ext Sg V w1 k)
    /\ (gs Sg V w2' = gs Sg V w2 /\ ent Sg V w2' = ent Sg V w2 /\ forall k, ext Sg V w2' k = ext Sg V w2 k).
Proof.
  intros Hall Hu g Hg He Hs cbs Hcb.
  assert (E : noseed_frame g cbs = int_frame g (fun _ => 0%Z) cbs) by (unfold noseed_frame, int_frame; rewrite Hs; reflexivity).
  rewrite E. apply integer_seed_deterministic with (exempt := exempt) (fuel := fuel); auto.
  apply names_unique_find; auto.
Qed.

Lemma api_generator_object Sg V draw decide wval wany init ent_draw clock U api exempt fuel :
  check_all U api exempt fuel = true -> names_unique api = true ->
  forall g, In g api -> fexported g = true -> fseeds g <> [] ->
  forall (ks : string -> nat) cbs, entry_cbs exempt g cbs ->
  forall w1 w2 : state Sg V, hist Sg V w1 = hist Sg V w2 -> lg Sg V w1 = lg Sg V w2 ->
  (forall x, In x (fseeds g) -> ext Sg V w1 (ks x) = ext Sg V w2 (ks x)) ->
  confined Sg V U w1 -> confined Sg V U w2 ->
  forall n f fr' w1', exec Sg V draw decide wval wany init ent_draw clock U api n (fbody g) (gen_frame g ks cbs) w1 = Some (f, fr', w1') ->
  exists w2', exec Sg V draw decide wval wany init ent_draw clock U api n (fbody g) (gen_frame g ks cbs) w2 = Some (f, fr', w2')
    /\ hist Sg V w1' = hist Sg V w2'
    /\ (forall x, In x (fseeds g) -> ext Sg V w1' (ks x) = ext Sg V w2' (ks x))
    /\ (gs Sg V w1' = gs Sg V w1 /\ ent Sg V w1' = ent Sg V w1 /\
        forall k, (forall x, In x (fseeds g) -> k <> ks x) -> ext Sg V w1' k = ext Sg V w1 k)
    /\ (gs Sg V w2' = gs Sg V w2 /\ ent Sg V w2' = ent Sg V w2 /\
        forall k, (forall x, In x (fseeds g) -> k <> ks x) -> ext Sg V w2' k = ext Sg V w2 k).
Proof.
  intros Hall Hu g Hg He Hs. apply generator_object_only with (exempt := exempt) (fuel := fuel); auto.
  apply names_unique_find; auto.
Qed.
