(* C10 -- soundness of the effect checker (noninterference).  Lemmas only. *)
From Coq Require Import String List Bool Arith ZArith Lia.
From TV Require Import Model.Effects.
Import ListNotations.
