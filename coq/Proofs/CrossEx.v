(* A concrete instance of the TT-cross model (carrier Z, unit payload) used by the non-vacuity Examples of C06:
   a 2 x 3 x 2 tensor with initial ranks (1,2,2,1), rank growth window [1,1], an objective that always answers,
   a pick routine meeting the maxvol contract. *)
From Coq Require Import List Arith Lia PeanoNat Bool ZArith.
From TV Require Import Num.Ops Lin.Tab Model.Cross Proofs.CrossIdx Proofs.CrossGeo.
Import ListNotations.

Definition pick_ex (k : nat) (ltr : bool) (r1 n r2 : nat) (p : unit) (drmin drmax : nat) : list nat :=
  let N := if ltr then r1 * n else n * r2 in
  let rq := Nat.min N (if ltr then r2 else r1) in
  seq 0 (rq + Nat.min drmin (Nat.min drmax (N - rq))).

Lemma pick_ex_ok : pick_ok pick_ex.
Proof.
  intros k ltr r1 n r2 p drmin drmax N rq Hlt l. subst l. unfold pick_ex. fold N. fold rq.
  split; [apply seq_NoDup|]. split.
  - apply Forall_forall. intros t Ht. apply in_seq in Ht. lia.
  - rewrite seq_length. lia.
Qed.

Definition f_ex (k : nat) (I : rows) : option (list Z) := Some (map (fun r => Z.of_nat (list_sum r)) I).
Lemma f_ex_len : forall k I y, f_ex k I = Some y -> length y = length I.
Proof. intros k I y E. injection E as <-. apply map_length. Qed.

Definition Y0_ex : list (@mcore unit) := [mkc 1 2 2 tt; mkc 2 3 2 tt; mkc 2 2 1 tt].
Definition cfg_ex (m : option nat) (nswp : option nat) (cache : option (list (row * Z))) : @cfg Z unit :=
  mkcfg Y0_ex m None nswp None false false 1 1 5 cache.

Lemma Y0_ex_ok m nswp cache : Y0_ok tt (cfg_ex m nswp cache).
Proof.
  unfold Y0_ok, cfg_ex, d. cbn [c_Y0 Y0_ex length].
  split; [lia|]. split; [|split; [reflexivity|split; [|reflexivity]]].
  - intros j Hj. destruct j as [|[|[|j']]]; cbn; lia.
  - intros j Hj. destruct j as [|[|j']]; cbn; try reflexivity; lia.
Qed.

Definition cross_ex (m nswp : option nat) (cache : option (list (row * Z))) (fuel : nat) :=
  cross_m OZ (P := unit) (fun _ => false) f_ex None tt (fun _ _ => tt) (fun _ _ => tt) (fun _ _ _ _ => tt)
          pick_ex (fun _ _ _ _ _ _ => tt) (fun _ _ _ _ _ _ => tt)
          (fun _ _ => 0%Z) (fun _ _ _ => 1%Z) (fun _ _ => 0%Z) (cfg_ex m nswp cache) fuel.

(* the known finding C06/zero-objective-e-only-never-stops in the model: only e is given, the objective is identically
   zero, accuracy answers its sentinel -1 at every sweep *)
Definition cross_zero_e_only (fuel : nat) :=
  cross_m OZ (P := unit) (fun _ => false) (fun _ I => Some (map (fun _ => 0%Z) I)) None tt (fun _ _ => tt) (fun _ _ => tt)
          (fun _ _ _ _ => tt) pick_ex (fun _ _ _ _ _ _ => tt) (fun _ _ _ _ _ _ => tt)
          (fun _ _ => 0%Z) (fun _ _ _ => (-1)%Z) (fun _ _ => 0%Z)
          (mkcfg Y0_ex None (Some 1%Z) None None false false 1 1 5 None) fuel.

(* (stop code, m, m_cache, sweeps, calls) of a finished run *)
Definition summary (r : result (@st Z unit)) : option (nat * nat * nat * nat * nat) :=
  match r with
  | Ok s => Some (stop_code (k_stop (sK s)), k_m (sK s), k_mc (sK s), s_nswp s, k_nf (sK s))
  | Err _ => None
  end.
