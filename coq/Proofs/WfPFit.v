(* C11, part 6: the fitting routines and the Chebyshev / general interpolation keep the structure of a tensor.
   als / als_func: consequences of als_wf / als_func_wf (C07); func_int / func_int_general: direct. *)
From Coq Require Import List Arith Lia PeanoNat ZArith Bool.
From TV Require Import Num.Ops Lin.Tab Lin.BigSum Lin.Mat TT.Chain Model.Transformation Model.Als Model.AlsFunc Model.Func Model.Wf
  Proofs.AlsSim Proofs.AlsTop Proofs.AlsFuncP Proofs.FuncP Proofs.WfP.
Import ListNotations.

Section FitP.
Context {T : Type} (K : ops T).
Implicit Types (Y : list (core T)).

(* what vis.show checks, with the mode sizes and positivity: [valid] without the storage clause *)
Definition shaped (ns : list nat) Y : Prop :=
  Y <> [] /\ chain 1 Y 1 /\ shape Y = ns /\ Forall (fun n => 1 <= n) ns /\ Forall (fun G => 1 <= cr2 G) Y.
Lemma valid_shaped ns Y : valid ns Y -> shaped ns Y.
Proof. intros ((a & b & _) & c & d & e). unfold shaped. auto. Qed.

Lemma dims_shaped ns Y Y0 : map dims Y = map dims Y0 -> shaped ns Y0 -> shaped ns Y /\ ranks Y = ranks Y0.
Proof.
  intros E (Hne & C & Sh & Pn & Pr).
  assert (E1 : map (@cn T) Y = map (@cn T) Y0).
  { replace (map (@cn T) Y) with (map (fun t : nat * nat * nat => snd (fst t)) (map dims Y)) by (rewrite map_map; reflexivity).
    rewrite E, map_map. reflexivity. }
  assert (E2 : map (@cr2 T) Y = map (@cr2 T) Y0).
  { replace (map (@cr2 T) Y) with (map (fun t : nat * nat * nat => snd t) (map dims Y)) by (rewrite map_map; reflexivity).
    rewrite E, map_map. reflexivity. }
  split; [|unfold ranks; now rewrite E2]. unfold shaped. split; [|split; [|split; [|split]]].
  - intros ->. destruct Y0; [contradiction|discriminate].
  - apply (dims_chain Y0 Y); [now symmetry|exact C].
  - unfold shape in *. congruence.
  - exact Pn.
  - apply Forall_forall. intros G HG. apply (in_map (@cr2 T)) in HG. rewrite E2 in HG.
    apply in_map_iff in HG as (G0 & <- & H0). exact (proj1 (Forall_forall _ _) Pr G0 H0).
Qed.

(* als (index version): every sample list (duplicates, any order), every solver, any stop arguments *)
Theorem als_shaped solve acc accv cb Sm Y0 nswp e evld lamb skip fuel Y inf ns :
  als K solve acc accv cb Sm Y0 nswp e evld lamb skip fuel = Ok (Y, inf) -> shaped ns Y0 ->
  shaped ns Y /\ ranks Y = ranks Y0.
Proof. intros E. apply dims_shaped. exact (als_wf K solve acc accv cb Sm Y0 nswp e evld lamb skip fuel Y inf E). Qed.
Theorem als_func_shaped solve lamb acc accv H y A0 nswp e evld fuel Y inf ns :
  als_func K solve acc accv H y A0 nswp e evld lamb fuel = Ok (Y, inf) -> shaped ns A0 ->
  shaped ns Y /\ ranks Y = ranks A0.
Proof. intros E. apply dims_shaped. exact (als_func_wf K solve lamb acc accv H y A0 nswp e evld fuel Y inf E). Qed.

(* func_int: DCT-I (mode sizes >= 2; a mode of size 1 is rejected, as scipy does) and DST-I *)
Variable cs sn : nat -> nat -> T.
Lemma int_core_dims kind G : cr1 (int_core K cs sn kind G) = cr1 G /\ cn (int_core K cs sn kind G) = cn G /\
  cr2 (int_core K cs sn kind G) = cr2 G /\ wfdat (int_core K cs sn kind G).
Proof. destruct kind; (split; [|split; [|split]]); try reflexivity; apply wfdat_mk. Qed.
Theorem func_int_valid ns Y kind : valid ns Y -> (kind = Cheb -> Forall (fun n => 2 <= n) ns) ->
  exists A, func_int K cs sn Y kind = Ok A /\ valid ns A.
Proof.
  intros V Hk. exists (map (int_core K cs sn kind) Y). split.
  - destruct kind; [|reflexivity]. apply func_int_cheb_ok. destruct V as (_ & Sh & _). specialize (Hk eq_refl).
    rewrite <- Sh in Hk. unfold shape in Hk. apply Forall_forall. intros G HG.
    exact (proj1 (Forall_forall _ _) Hk (cn G) (in_map _ _ _ HG)).
  - apply wfI_iff. apply wfI_map; [now apply wfI_iff|]. intros G. apply int_core_dims.
Qed.
Theorem func_int_rejects_size1 Y : ~ Forall (fun G => 2 <= cn G) Y -> func_int K cs sn Y Cheb = Err OtherError.
Proof. apply func_int_cheb_err. Qed.

(* func_int_general: the mode sizes of the result are the numbers of basis functions; lstsq is only assumed to return
   one row per basis function *)
Variable lstsq : nat -> mat T -> mat T -> mat T.
Hypothesis Hl : forall c H M, mr (lstsq c H M) = mc H.
Lemma general_from_shape : forall Y Hs c r rl, length Hs = length Y -> chain r Y rl ->
  Forall (fun G => 1 <= cr2 G) Y ->
  let A := func_int_general_from K lstsq c Y Hs in
  chain r A rl /\ shape A = map (@mc T) Hs /\ Forall (fun G => wfdat G /\ 1 <= cr2 G) A /\ length A = length Y.
Proof.
  induction Y as [|G Y IH]; intros [|H Hs] c r rl L C F; cbn in L; try discriminate; cbn [func_int_general_from].
  - cbn. auto.
  - destruct C as [c1 c2]. inversion F as [|? ? f1 f2]; subst.
    destruct (IH Hs (S c) (cr2 G) rl ltac:(lia) c2 f2) as (i1 & i2 & i3 & i4).
    split; [split; [reflexivity|exact i1]|]. split; [unfold shape in *; cbn [map]; f_equal; [unfold general_core; cbn [mkcore cn]; apply Hl|exact i2]|].
    split; [constructor; [split; [apply wfdat_mk|exact f1]|exact i3]|cbn [length]; lia].
Qed.
Theorem func_int_general_valid ns Y Hs : valid ns Y -> length Hs = length Y -> Forall (fun H => 1 <= mc H) Hs ->
  valid (map (@mc T) Hs) (func_int_general K lstsq Y Hs).
Proof.
  intros ((Hne & C & W) & Sh & Pn & Pr) L HH. unfold func_int_general.
  destruct (general_from_shape Y Hs O 1 1 L C Pr) as (a & b & c & d).
  unfold valid, tt_wf. split; [split; [|split; [exact a|]]|split; [exact b|split]].
  - intros E. rewrite E in d. destruct Y; [contradiction|discriminate].
  - eapply Forall_impl; [|exact c]. now intros G [x _].
  - apply Forall_forall. intros n Hn. apply in_map_iff in Hn as (H & <- & HI). exact (proj1 (Forall_forall _ _) HH H HI).
  - eapply Forall_impl; [|exact c]. now intros G [_ x].
Qed.
End FitP.
