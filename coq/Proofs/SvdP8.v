(* Lemmas for C03, part 8 (reals): exact ranks (a spectrum with rho positive values followed by zeros and e below the
   smallest positive one gives q = rho and loses nothing), along a whole run; the rel=True tail theorems. *)
From Coq Require Import List Arith Lia PeanoNat ZArith Bool Ring Reals Lra Psatz.
From TV Require Import Num.Ops Lin.Tab Lin.BigSum Lin.Mat TT.Chain Model.ActOne Model.Transformation
  Model.Svd Proofs.ActOneP Proofs.SvdP Proofs.SvdP2 Proofs.SvdP3 Proofs.SvdP4 Proofs.SvdP5 Proofs.SvdP7.
Import ListNotations.
Local Open Scope R_scope.

(* ---------------------------------------------------------------- the rank rule on an exact-rank spectrum *)
Lemma tailx_zero x rho : (forall i, (rho <= i)%nat -> nth i x 0 = 0) -> tailx OR x rho = 0.
Proof. intros H. unfold tailx. apply (bsum_0' OR OR_rng). intros k Hk. apply H. lia. Qed.

Lemma rank_select_exact x e2 rcap rho : (1 <= rho <= length x)%nat -> 0 <= e2 ->
  (forall i, (i < rho)%nat -> e2 < nth i x 0) -> (forall i, (rho <= i)%nat -> nth i x 0 = 0) ->
  (Z.of_nat rho <= rcap)%Z ->
  rank_select OR x e2 rcap = rho /\ cap_free_at x e2 rcap.
Proof.
  intros Hr He Hpos Hz Hcap.
  assert (Hx : Forall (fun v => 0 <= v) x).
  { apply Forall_forall. intros v Hv. apply (In_nth _ _ 0) in Hv as (i & Hi & <-).
    destruct (Nat.lt_ge_cases i rho) as [H|H]; [specialize (Hpos i H); lra | rewrite (Hz i H); lra]. }
  assert (Hcf : cap_free_at x e2 rcap).
  { unfold cap_free_at. destruct (Nat.eq_dec rho (length x)) as [E|Hne]; [lia|].
    set (j := (length x - rho - 1)%nat). assert (Hj : (j < length x)%nat) by (unfold j; lia).
    pose proof (last_le_after OR (cumsum OR (rev x)) e2 O O j (le_n _)) as A.
    unfold cumsum in A. rewrite cumsum_from_length, rev_length in A. specialize (A Hj).
    change (last_le OR (cumsum_from OR (o0 OR) (rev x)) e2 0 0) with (dlen OR x e2) in A.
    rewrite (cumsum_from_nth OR OR_rng) in A by (rewrite rev_length; exact Hj).
    rewrite (cumsum_rev_tail OR OR_rng) in A by exact Hj.
    replace (length x - S j)%nat with rho in A by (unfold j; lia). rewrite (tailx_zero x rho Hz) in A.
    destruct (le_lt_dec (dlen OR x e2) j) as [Hd|Hd].
    - specialize (A Hd). apply Rleb_false in A. cbn [OR oadd o0] in A. lra.
    - unfold j in Hd. lia. }
  split; [|exact Hcf].
  pose proof (rank_select_tail x e2 rcap ltac:(lia) Hx He Hcf) as T.
  pose proof (rank_select_bounds OR x e2 rcap) as [[B1 _] B2].
  destruct (lt_eq_lt_dec (rank_select OR x e2 rcap) rho) as [[Hlt|Heq]|Hgt]; [exfalso|exact Heq|exfalso].
  - set (q := rank_select OR x e2 rcap) in *.
    pose proof (bsumR_term_le (length x - q) (fun k => nth (q + k) x 0) O) as P. cbv beta in P.
    rewrite Nat.add_0_r in P. unfold tailx in T. cbn [o0 OR] in T.
    assert (nth q x 0 <= bsum OR (length x - q) (fun k => nth (q + k) x 0)).
    { apply P; [|lia]. intros i Hi. rewrite Forall_forall in Hx. apply Hx. apply nth_In. lia. }
    specialize (Hpos q Hlt). lra.
  - pose proof (rank_select_minimal x e2 rcap rho Hx Hcf Hgt ltac:(lia)) as M.
    rewrite (tailx_zero x rho Hz) in M. lra.
Qed.

(* a spectrum with exactly rho positive singular values (the oracle clause "s_i > 0 <-> i < rank") *)
Definition posrank (s : list R) (rho : nat) : Prop :=
  (1 <= rho <= length s)%nat /\ (forall i, (i < rho)%nat -> 0 < nth i s 0) /\ (forall i, (rho <= i)%nat -> nth i s 0 = 0).
Definition below_spectrum (e : R) (s : list R) (rho : nat) : Prop :=
  forall i, (i < rho)%nat -> e * e < nth i s 0 * nth i s 0.

Lemma nth_map_sq s i : nth i (map (fun x : R => omul OR x x) s) 0 = nth i s 0 * nth i s 0.
Proof.
  destruct (Nat.lt_ge_cases i (length s)) as [H|H].
  - rewrite (nth_indep _ 0 (omul OR 0 0)) by (rewrite map_length; exact H).
    pose proof (map_nth (fun x : R => omul OR x x) s 0 i) as M. cbv beta in M. rewrite M. reflexivity.
  - rewrite !nth_overflow by (rewrite ?map_length; lia). ring.
Qed.

(* one step: the chosen size is rho, the cap does not bind, nothing of non-zero energy is discarded *)
Lemma sel_rank_exact s e rcap rho : posrank s rho -> below_spectrum e s rho -> (Z.of_nat rho <= rcap)%Z ->
  sel_rank OR s e rcap = rho /\ cap_free_at (map (fun x => x * x) s) (e * e) rcap /\ tail OR s rho = 0.
Proof.
  intros (Hr & Hp & Hz) Hb Hcap. unfold sel_rank.
  destruct (rank_select_exact (map (fun x : R => omul OR x x) s) (omul OR e e) rcap rho) as [E C]; auto.
  - now rewrite map_length.
  - cbn. nra.
  - intros i Hi. rewrite nth_map_sq. exact (Hb i Hi).
  - intros i Hi. rewrite nth_map_sq, (Hz i Hi). ring.
  - repeat split; auto. unfold tail. apply (bsum_0' OR OR_rng). intros k Hk. cbn [o0 OR omul]. rewrite (Hz (rho + k)%nat) by lia. ring.
Qed.

Section ExactRun.
Variable svdo : nat -> mat R -> mat R * list R * mat R.
Variables (e : R) (rcap : Z).

(* every factorisation of the run sees an exact-rank spectrum (rho_k positive values, then zeros), e lies below
   the positive part and the cap is at least rho_k *)
Fixpoint exact_run (rhos : list nat) (k0 : nat) (Zm : mat R) (q : nat) (ns : list nat) {struct ns} : Prop :=
  match ns with
  | [] => rhos = []
  | k :: ns' =>
    match ns' with
    | [] => rhos = []
    | _ :: _ =>
      match rhos with
      | [] => False
      | rho :: rhos' =>
        let '(U, s, V) := svdo k0 (step_mat OR Zm q k) in
        posrank s rho /\ below_spectrum e s rho /\ (Z.of_nat rho <= rcap)%Z /\
        exact_run rhos' (S k0) (next_Z OR e rcap s V) (sel_rank OR s e rcap) ns'
      end
    end
  end.

Theorem exact_run_ranks : forall ns rhos k0 Zm q, ns <> [] -> exact_run rhos k0 Zm q ns ->
  map (@cr2 R) (svd_loop OR svdo k0 Zm q ns e rcap) = rhos ++ [1%nat] /\
  tails OR svdo e rcap k0 Zm q ns = 0 /\ cap_free svdo e rcap k0 Zm q ns.
Proof.
  induction ns as [|k ns IH]; intros rhos k0 Zm q Hne H; [contradiction|].
  destruct ns as [|k' ns].
  - cbn in H. subst rhos. cbn. repeat split.
  - cbn [exact_run] in H. destruct rhos as [|rho rhos]; [contradiction|].
    destruct (svdo k0 (step_mat OR Zm q k)) as [[U s] V] eqn:E.
    destruct H as (Hp & Hb & Hc & Hrest).
    destruct (sel_rank_exact s e rcap rho Hp Hb Hc) as (Eq & Cf & Tz).
    rewrite svd_loop_cons, (skeleton_R OR svdo _ _ _ _ _ _ _ E).
    change (mc (mtakec OR U (sel_rank OR s e rcap))) with (sel_rank OR s e rcap).
    fold (next_Z OR e rcap s V).
    destruct (IH rhos (S k0) _ _ ltac:(discriminate) Hrest) as (I1 & I2 & I3).
    unfold tails, cap_free. rewrite !(sweep_fold_cons OR svdo e rcap _ _ _ _ _ _ _ _ _ _ _ E).
    fold (tails OR svdo e rcap). fold cap_free.
    repeat split.
    + cbn [map]. rewrite cr2_mk, I1, Eq. reflexivity.
    + rewrite I2, Eq, Tz. cbn. ring.
    + exact Cf.
    + exact I3.
Qed.
End ExactRun.

(* ---------------------------------------------------------------- rel = True: tails relative to s_0 *)
Lemma tail_scaled s s0 q : s0 <> 0 -> tail OR (map (fun x => odiv OR x s0) s) q = tail OR s q * / (s0 * s0).
Proof.
  intros H0. unfold tail. rewrite map_length. rewrite <- (bsum_mul_r OR OR_rng).
  apply bsum_ext; intros k Hk.
  rewrite (nth_indep _ 0 (odiv OR 0 s0)) by (rewrite map_length; lia).
  pose proof (map_nth (fun x : R => odiv OR x s0) s 0 (q + k)) as M. cbv beta in M. rewrite M.
  cbn. field. exact H0.
Qed.

(* the list the rank rule receives when rel = True *)
Definition rel_weights (s : list R) : list R :=
  map (fun x => x * x) (map (fun x => x / nth O s 0) s).
Lemma skel_rank_rel s e rcap : skel_rank OR s e rcap true = rank_select OR (rel_weights s) (e * e) rcap.
Proof. reflexivity. Qed.

Theorem rel_tail s e rcap : (1 <= length s)%nat -> 0 < nth O s 0 -> cap_free_at (rel_weights s) (e * e) rcap ->
  tail OR s (skel_rank OR s e rcap true) <= (e * nth O s 0) * (e * nth O s 0).
Proof.
  intros Hl H0 Hc. rewrite skel_rank_rel. set (s0 := nth O s 0) in *.
  pose proof (rank_select_tail (rel_weights s) (e * e) rcap) as T.
  unfold rel_weights in T at 1. rewrite !map_length in T. specialize (T Hl).
  assert (Hx : Forall (fun v => 0 <= v) (rel_weights s)).
  { apply Forall_forall. intros v Hv. unfold rel_weights in Hv. apply in_map_iff in Hv as (y & <- & _). nra. }
  specialize (T Hx ltac:(nra) Hc).
  unfold rel_weights in T at 1. rewrite (tailx_sq OR) in T. fold s0 in T.
  change (map (fun x : R => x / s0) s) with (map (fun x : R => odiv OR x s0) s) in T.
  rewrite tail_scaled in T by lra.
  assert (P : 0 < s0 * s0) by nra.
  apply (Rmult_le_compat_r (s0 * s0)) in T; [|lra].
  rewrite Rmult_assoc, Rinv_l, Rmult_1_r in T by lra. lra.
Qed.

Theorem rel_minimal s e rcap q' : 0 < nth O s 0 -> cap_free_at (rel_weights s) (e * e) rcap ->
  (q' < skel_rank OR s e rcap true)%nat -> (1 < skel_rank OR s e rcap true)%nat ->
  (e * nth O s 0) * (e * nth O s 0) < tail OR s q'.
Proof.
  intros H0 Hc Hq H1. rewrite skel_rank_rel in *. set (s0 := nth O s 0) in *.
  assert (Hx : Forall (fun v => 0 <= v) (rel_weights s)).
  { apply Forall_forall. intros v Hv. unfold rel_weights in Hv. apply in_map_iff in Hv as (y & <- & _). nra. }
  pose proof (rank_select_minimal (rel_weights s) (e * e) rcap q' Hx Hc Hq H1) as M.
  unfold rel_weights in M at 1. rewrite (tailx_sq OR) in M. fold s0 in M.
  change (map (fun x : R => x / s0) s) with (map (fun x : R => odiv OR x s0) s) in M.
  rewrite tail_scaled in M by lra.
  assert (P : 0 < s0 * s0) by nra.
  apply (Rmult_lt_compat_r (s0 * s0)) in M; [|lra].
  replace (tail OR s q' * / (s0 * s0) * (s0 * s0)) with (tail OR s q') in M by (field; lra). lra.
Qed.

(* the s_0 = 0 corner as the code does it: 0/0 is NaN, every comparison with NaN is false, so no entry of the
   cumulative sum passes the test and no rank is cut.  Stated for any carrier: if no test succeeds, dlen = 0. *)
Section NoCut.
Context {T : Type} (K : ops T).
Lemma last_le_none cs e2 : forall pos best, (forall j, (j < length cs)%nat -> oleb K (nth j cs (o0 K)) e2 = false) ->
  last_le K cs e2 pos best = best.
Proof.
  induction cs as [|x cs IH]; intros pos best H; [reflexivity|]. cbn [last_le].
  pose proof (H O ltac:(cbn; lia)) as H0. cbn [nth] in H0. rewrite H0. apply IH. intros j Hj. apply (H (S j)). cbn. lia.
Qed.
Theorem rank_select_nocut x e2 rcap :
  (forall j, (j < length x)%nat -> oleb K (nth j (cumsum K (rev x)) (o0 K)) e2 = false) ->
  rank_select K x e2 rcap = Z.to_nat (Z.max 1 (Z.min rcap (Z.of_nat (length x)))).
Proof.
  intros H. unfold rank_select, dlen. rewrite last_le_none.
  - f_equal. lia.
  - intros j Hj. apply H. unfold cumsum in Hj.
    assert (L : forall l acc, length (cumsum_from K acc l) = length l).
    { induction l as [|y l IHl]; intros acc; cbn; [reflexivity|]. now rewrite IHl. }
    rewrite L, rev_length in Hj. exact Hj.
Qed.
End NoCut.
