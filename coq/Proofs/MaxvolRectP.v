(* Lemmas about maxvol_rect and _maxvol (Model/Maxvol.v). *)
From Coq Require Import List Arith Lia PeanoNat Bool ZArith Ring.
From TV Require Import Num.Ops Lin.Tab Lin.BigSum Lin.Mat Model.Maxvol Proofs.MaxvolP.
Import ListNotations.

(* ---------- lists ---------- *)
Lemma mem_nat_In a I : mem_nat a I = true <-> In a I.
Proof.
  unfold mem_nat. rewrite existsb_exists. split.
  - intros (x & Hx & E). apply Nat.eqb_eq in E. now subst.
  - intros H. exists a. split; auto. apply Nat.eqb_refl.
Qed.
Lemma mem_nat_app a I J : mem_nat a (I ++ J) = mem_nat a I || mem_nat a J.
Proof. unfold mem_nat. apply existsb_app. Qed.
Lemma nodup_snoc (l : list nat) x : NoDup l -> ~ In x l -> NoDup (l ++ [x]).
Proof.
  induction l as [|y l IH]; simpl; intros H Hx.
  - constructor; [intros []|constructor].
  - inversion H as [|? ? Hy Hl]; subst. constructor.
    + rewrite in_app_iff. simpl. intros [E|[E|[]]]; auto.
    + apply IH; auto.
Qed.
Lemma nth_snoc (l : list nat) x k : nth k (l ++ [x]) O = if k <? length l then nth k l O else if k =? length l then x else O.
Proof.
  destruct (Nat.ltb_spec k (length l)).
  - now rewrite app_nth1.
  - rewrite app_nth2 by lia. destruct (Nat.eqb_spec k (length l)) as [->|Hne].
    + now rewrite Nat.sub_diag.
    + destruct (k - length l) as [|[|m]] eqn:E; simpl; auto; lia.
Qed.

Lemma find_last_notin I a pos acc : ~ In a I -> find_last I a pos acc = acc.
Proof.
  revert pos acc; induction I as [|x I IH]; intros pos acc H; cbn [find_last]; auto.
  rewrite IH by (intros Hi; apply H; right; auto).
  destruct (Nat.eqb_spec x a); auto. exfalso. apply H. left; auto.
Qed.
Lemma find_last_nodup I : NoDup I -> forall k a pos acc, k < length I -> nth k I O = a ->
  find_last I a pos acc = Some (pos + k).
Proof.
  induction 1 as [|x I Hx HN IH]; intros k a pos acc Hk E; simpl in Hk; [lia|]. cbn [find_last].
  destruct k as [|k]; simpl in E.
  - subst. rewrite Nat.eqb_refl. rewrite find_last_notin by auto. f_equal. lia.
  - assert (Hin : In a I) by (subst; apply nth_In; lia).
    destruct (Nat.eqb_spec x a) as [->|Hne]; [contradiction|].
    rewrite (IH k a (S pos) acc) by (auto; lia). f_equal. lia.
Qed.

Section RectP.
Context {T : Type} (K : ops T).
Notation "0" := (o0 K). Notation "1" := (o1 K).
Infix "+" := (oadd K). Infix "*" := (omul K). Infix "-" := (osub K). Infix "/" := (odiv K).
Notation "- x" := (oopp K x).
Notation mg := (mget K).
Notation "a <=! b" := (oleb K a b = true) (at level 70).
Hypothesis OFK : ordfield K.
Let Rth : rng K := of_rng K OFK.
Add Ring RrMaxvolRectP : Rth.

(* ---------- more order facts ---------- *)
Lemma le_rw a b a' b' : a = a' -> b = b' -> a <=! b -> a' <=! b'.
Proof. intros -> ->. auto. Qed.
Lemma opp_nonneg x : x <=! 0 -> 0 <=! - x.
Proof. intros H. apply (of_add K OFK _ _ (- x)) in H. eapply le_rw; [| |exact H]; ring. Qed.
Lemma sq_nonneg x : 0 <=! x * x.
Proof.
  destruct (of_total K OFK 0 x) as [H|H].
  - now apply (of_mul K OFK).
  - apply opp_nonneg in H. pose proof (of_mul K OFK _ _ H H) as H2.
    eapply le_rw; [| |exact H2]; ring.
Qed.
Lemma add_nonneg a b : 0 <=! a -> 0 <=! b -> 0 <=! a + b.
Proof.
  intros Ha Hb. apply (of_add K OFK _ _ b) in Ha.
  eapply (of_trans K OFK); [exact Hb|]. eapply le_rw; [| |exact Ha]; ring.
Qed.
Lemma bsum_nonneg n f : (forall i, (i < n)%nat -> 0 <=! f i) -> 0 <=! bsum K n f.
Proof.
  induction n; intros H; cbn [bsum]; [apply (ole_refl K OFK)|].
  apply add_nonneg; [apply IHn; intros; apply H; lia | apply H; lia].
Qed.
Lemma one_nonneg : 0 <=! 1.
Proof. eapply le_rw; [reflexivity| |apply (sq_nonneg 1)]. ring. Qed.
Lemma one_plus_ne0 s : 0 <=! s -> 1 + s <> 0.
Proof.
  intros Hs E. apply (of_add K OFK _ _ 1) in Hs.
  assert (H1 : 1 <=! 0). { eapply le_rw; [| |exact Hs]; [ring | rewrite <- E; ring]. }
  apply (of_01 K OFK). apply (of_antisym K OFK); [apply one_nonneg | exact H1].
Qed.
Lemma one_le_sq e : 1 <=! e -> 1 <=! e * e.
Proof.
  intros H. apply (of_add K OFK _ _ (- (1))) in H.
  assert (H0 : 0 <=! e - 1) by (eapply le_rw; [| |exact H]; ring).
  pose proof (add_nonneg _ _ (sq_nonneg (e - 1)) (add_nonneg _ _ H0 H0)) as H1.
  apply (of_add K OFK _ _ 1) in H1. eapply le_rw; [| |exact H1]; ring.
Qed.
Lemma ltb_irrefl a : oltb K a a = false.
Proof. rewrite (of_ltb K OFK). now rewrite (ole_refl K OFK). Qed.

(* ---------- arg-max over the unselected rows ---------- *)
Lemma argmax_mask_none s f n : argmax_mask K s f n = None -> forall a, (a < n)%nat -> s a = false.
Proof.
  induction n as [|m IH]; intros H a Ha; [lia|]. cbn [argmax_mask] in H.
  destruct (argmax_mask K s f m) as [b|] eqn:E.
  - destruct (s m && oltb K (f b) (f m)); discriminate.
  - destruct (s m) eqn:Es; [discriminate|].
    destruct (Nat.eq_dec a m) as [->|Hne]; auto. apply IH; auto. lia.
Qed.
Lemma argmax_mask_some s f n i : argmax_mask K s f n = Some i ->
  (i < n)%nat /\ s i = true /\ forall a, (a < n)%nat -> s a = true -> f a <=! f i.
Proof.
  revert i; induction n as [|m IH]; intros i H; [discriminate|]. cbn [argmax_mask] in H.
  destruct (argmax_mask K s f m) as [b|] eqn:E.
  - destruct (IH b eq_refl) as (Hb & Hsb & Hmax).
    destruct (s m) eqn:Es; cbn [andb] in H.
    + destruct (oltb K (f b) (f m)) eqn:El; injection H as <-.
      * repeat split; auto. intros a Ha Hsa. destruct (Nat.eq_dec a m) as [->|Hne]; [apply (ole_refl K OFK)|].
        eapply (of_trans K OFK); [apply Hmax; auto; lia|]. now apply (oltb_true_le K OFK).
      * repeat split; auto. intros a Ha Hsa. destruct (Nat.eq_dec a m) as [->|Hne].
        -- now apply (oltb_false_le K OFK).
        -- apply Hmax; auto; lia.
    + injection H as <-. repeat split; auto. intros a Ha Hsa.
      destruct (Nat.eq_dec a m) as [->|Hne]; [congruence|]. apply Hmax; auto; lia.
  - destruct (s m) eqn:Es; [|discriminate]. injection H as <-. repeat split; auto.
    intros a Ha Hsa. destruct (Nat.eq_dec a m) as [->|Hne]; [apply (ole_refl K OFK)|].
    rewrite (argmax_mask_none s f m E a) in Hsa by lia. discriminate.
Qed.

(* ---------- np.argmax is the FIRST maximum; the literal where-form of the repaired line ---------- *)
Lemma le_lt_trans a b c : a <=! b -> oltb K b c = true -> oltb K a c = true.
Proof.
  intros H1 H2. rewrite (of_ltb K OFK) in *. destruct (oleb K c a) eqn:E; auto.
  rewrite (of_trans K OFK c a b E H1) in H2. discriminate.
Qed.
Lemma lt_le_trans a b c : oltb K a b = true -> b <=! c -> oltb K a c = true.
Proof.
  intros H1 H2. rewrite (of_ltb K OFK) in *. destruct (oleb K c a) eqn:E; auto.
  rewrite (of_trans K OFK b c a H2 E) in H1. discriminate.
Qed.
Lemma lt_not_le a b : oltb K a b = true -> b <=! a -> False.
Proof. rewrite (of_ltb K OFK). intros H1 H2. rewrite H2 in H1. discriminate. Qed.
Lemma neg1_lt0 : oltb K (- (1)) 0 = true.
Proof.
  rewrite (of_ltb K OFK). destruct (oleb K 0 (- (1))) eqn:E; auto. exfalso.
  apply (of_add K OFK _ _ 1) in E.
  assert (H1 : 1 <=! 0) by (eapply le_rw; [| |exact E]; ring).
  apply (of_01 K OFK). apply (of_antisym K OFK); [apply one_nonneg | exact H1].
Qed.

(* every position before the arg-max carries a strictly smaller value *)
Lemma argmaxf_first f n a : (a < argmaxf K f n)%nat -> oltb K (f a) (f (argmaxf K f n)) = true.
Proof.
  induction n as [|m IH]; cbn [argmaxf]; [lia|].
  destruct (oltb K (f (argmaxf K f m)) (f m)) eqn:E; intros Ha.
  - eapply le_lt_trans; [apply (argmaxf_max K OFK f m a Ha) | exact E].
  - apply IH; exact Ha.
Qed.
(* ... and this characterises it: a maximum that is strictly above everything before it *)
Lemma argmaxf_char f n i : (i < n)%nat -> (forall a, (a < n)%nat -> f a <=! f i) ->
  (forall a, (a < i)%nat -> oltb K (f a) (f i) = true) -> argmaxf K f n = i.
Proof.
  intros Hi Hmax Hfirst.
  assert (Hj : (argmaxf K f n < n)%nat) by (apply (argmaxf_lt K); lia).
  destruct (Nat.lt_trichotomy (argmaxf K f n) i) as [H|[H|H]]; auto; exfalso.
  - apply (lt_not_le _ _ (Hfirst _ H)). apply (argmaxf_max K OFK); exact Hi.
  - apply (lt_not_le _ _ (argmaxf_first f n i H)). apply Hmax; exact Hj.
Qed.

Lemma argmax_mask_first s f n i : argmax_mask K s f n = Some i ->
  forall a, (a < i)%nat -> s a = true -> oltb K (f a) (f i) = true.
Proof.
  revert i; induction n as [|m IH]; intros i H a Ha Hsa; [discriminate|]. cbn [argmax_mask] in H.
  destruct (argmax_mask K s f m) as [b|] eqn:E.
  - destruct (s m && oltb K (f b) (f m)) eqn:C; injection H as <-.
    + apply andb_true_iff in C as (_ & C). destruct (argmax_mask_some _ _ _ _ E) as (Hb & _ & Hmax).
      eapply le_lt_trans; [apply Hmax; auto | exact C].
    + apply (IH b eq_refl); auto.
  - destruct (s m) eqn:Es; [|discriminate]. injection H as <-.
    rewrite (argmax_mask_none s f m E a Ha) in Hsa. discriminate.
Qed.

(* np.argmax(np.where(S > 0, F, -1.)) IS the first maximum of F among the rows with S > 0, provided such a row
   exists and every such row has F > -1 *)
Lemma argmax_where_mask s f n i : argmax_mask K s f n = Some i ->
  (forall a, (a < n)%nat -> s a = true -> oltb K (- (1)) (f a) = true) ->
  argmaxf K (where_mask K s f) n = i.
Proof.
  intros E Hpos. destruct (argmax_mask_some _ _ _ _ E) as (Hi & Hsi & Hmax).
  assert (Hgi : where_mask K s f i = f i) by (unfold where_mask; now rewrite Hsi).
  apply argmaxf_char; auto.
  - intros a Ha. rewrite Hgi. unfold where_mask. destruct (s a) eqn:Es; [apply Hmax; auto|].
    apply (oltb_true_le K OFK). apply Hpos; auto.
  - intros a Ha. rewrite Hgi. unfold where_mask. destruct (s a) eqn:Es.
    + apply (argmax_mask_first s f n i E); auto.
    + apply Hpos; auto.
Qed.

(* the two facts above in the form quoted by Properties/C08.v *)
Lemma argmaxf_spec f n : (0 < n)%nat ->
  (argmaxf K f n < n)%nat /\
  (forall a, (a < n)%nat -> f a <=! f (argmaxf K f n)) /\
  (forall a, (a < argmaxf K f n)%nat -> oltb K (f a) (f (argmaxf K f n)) = true) /\
  (forall i, (i < n)%nat -> (forall a, (a < n)%nat -> f a <=! f i) ->
             (forall a, (a < i)%nat -> oltb K (f a) (f i) = true) -> argmaxf K f n = i).
Proof.
  intros Hn. split; [now apply (argmaxf_lt K)|]. split; [intros; now apply (argmaxf_max K OFK)|].
  split; [intros; now apply argmaxf_first | intros; now apply argmaxf_char].
Qed.
Lemma rect_argmax_masked s f n i : argmax_mask K s f n = Some i ->
  (forall a, (a < n)%nat -> s a = true -> oltb K (- (1)) (f a) = true) ->
  argmaxf K (where_mask K s f) n = i /\
  (i < n)%nat /\ s i = true /\ (forall a, (a < n)%nat -> s a = true -> f a <=! f i) /\
  (forall a, (a < i)%nat -> s a = true -> oltb K (f a) (f i) = true).
Proof.
  intros E H. split; [now apply argmax_where_mask|].
  destruct (argmax_mask_some s f n i E) as (H1 & H2 & H3). repeat split; auto.
  exact (argmax_mask_first s f n i E).
Qed.

(* the pinned line np.argmax(F) gives the same row whenever its residual is positive (selected rows carry F = 0) *)
Lemma argmaxf_where_agree s f n : (1 <= n)%nat -> (forall a, (a < n)%nat -> s a = false -> f a = 0) ->
  oltb K 0 (f (argmaxf K f n)) = true -> argmaxf K (where_mask K s f) n = argmaxf K f n.
Proof.
  intros Hn Hz Hpos. set (i := argmaxf K f n) in *.
  assert (Hi : (i < n)%nat) by (apply (argmaxf_lt K); lia).
  assert (Hsi : s i = true).
  { destruct (s i) eqn:E; auto. rewrite (Hz i Hi E), ltb_irrefl in Hpos. discriminate. }
  assert (Hgi : where_mask K s f i = f i) by (unfold where_mask; now rewrite Hsi).
  assert (Hle : forall a, (a < n)%nat -> where_mask K s f a <=! f a).
  { intros a Ha. unfold where_mask. destruct (s a) eqn:E; [apply (ole_refl K OFK)|].
    rewrite (Hz a Ha E). apply (oltb_true_le K OFK), neg1_lt0. }
  apply argmaxf_char; auto.
  - intros a Ha. rewrite Hgi. eapply (of_trans K OFK); [apply Hle; auto | apply (argmaxf_max K OFK); auto].
  - intros a Ha. rewrite Hgi. eapply le_lt_trans; [apply Hle; lia | apply argmaxf_first; auto].
Qed.

(* ---------- the invariant of the rect loop ---------- *)
Definition rect_inv (A : mat T) (I : list nat) (Sm : list bool) (B : mat T) (F : list T) : Prop :=
  mr B = mr A /\ mc B = length I /\ NoDup I /\
  (forall k, (k < length I)%nat -> (nth k I O < mr A)%nat) /\
  length Sm = mr A /\ (forall a, (a < mr A)%nat -> nth a Sm false = negb (mem_nat a I)) /\
  (forall a c, (a < mr A)%nat -> (c < mc A)%nat ->
     bsum K (length I) (fun l => mg B a l * mg A (nth l I O) c) = mg A a c) /\
  length F = mr A /\
  (forall a, (a < mr A)%nat -> nth a F 0 = if nth a Sm false then rownorm2 K B a else 0).

Lemma two_x (x : T) : x + x = (1 + 1) * x. Proof. ring. Qed.

(* the augmentation by row i:  B' = [B - l v b_i^T, l v],  F' = S' (F - l v v),  for ANY unselected row i *)
Lemma rect_step_inv A I Sm B F i : rect_inv A I Sm B F -> (i < mr A)%nat -> nth i Sm false = true ->
  let v := rect_v K B i in let l := 1 / (1 + nth i v 0) in
  rect_inv A (I ++ [i]) (mask_off Sm i) (rect_update K B i v l) (rect_F K (mask_off Sm i) F v l (mr B)).
Proof.
  intros (Hr & Hc & HND & HV & HLS & HS & HP & HLF & HF) Hi HSi v l.
  set (n := mr A) in *. set (c := mc B) in *.
  assert (NV : forall a, (a < n)%nat -> nth a v 0 = bsum K c (fun j => mg B a j * mg B i j)).
  { intros a Ha. unfold v, rect_v. rewrite nth_tab by lia. reflexivity. }
  assert (Hvi : nth i v 0 = rownorm2 K B i) by (rewrite NV by auto; reflexivity).
  assert (Hl : l * (1 + nth i v 0) = 1).
  { unfold l. rewrite (Rmul_comm Rth). apply (of_inv K OFK). apply one_plus_ne0. rewrite Hvi.
    unfold rownorm2. apply bsum_nonneg. intros; apply sq_nonneg. }
  assert (Hnotin : ~ In i I).
  { intros Hin. apply mem_nat_In in Hin. rewrite HS, Hin in HSi by auto. discriminate. }
  assert (UPD1 : forall a j, (a < n)%nat -> (j < c)%nat ->
            mg (rect_update K B i v l) a j = mg B a j - l * (nth a v 0 * mg B i j)).
  { intros a j Ha Hj. unfold rect_update. rewrite mget_mk by lia. fold c.
    destruct (Nat.ltb_spec j c); [reflexivity|lia]. }
  assert (UPD2 : forall a, (a < n)%nat -> mg (rect_update K B i v l) a c = l * nth a v 0).
  { intros a Ha. unfold rect_update. rewrite mget_mk by lia. fold c.
    destruct (Nat.ltb_spec c c); [lia|reflexivity]. }
  assert (MASK : forall a, (a < n)%nat ->
            nth a (mask_off Sm i) false = if Nat.eqb a i then false else nth a Sm false).
  { intros a Ha. unfold mask_off. rewrite nth_tab by lia. reflexivity. }
  unfold rect_inv. rewrite app_length. cbn [length rect_update mkmat mr mc]. fold c. fold n.
  repeat split.
  - lia.
  - lia.
  - apply nodup_snoc; auto.
  - intros k Hk. rewrite nth_snoc. destruct (Nat.ltb_spec k (length I)); [apply HV; auto|].
    destruct (Nat.eqb_spec k (length I)); [auto|lia].
  - unfold mask_off. now rewrite tab_length.
  - intros a Ha. rewrite MASK by auto. rewrite mem_nat_app. cbn [mem_nat existsb]. rewrite orb_false_r.
    rewrite HS by auto. destruct (Nat.eqb a i); destruct (mem_nat a I); reflexivity.
  - intros a y Ha Hy. rewrite Nat.add_1_r. cbn [bsum]. rewrite <- Hc. fold c.
    rewrite nth_snoc. rewrite <- Hc. fold c. rewrite Nat.ltb_irrefl, Nat.eqb_refl. rewrite UPD2 by auto.
    set (g := fun l0 => mg A (nth l0 I O) y).
    assert (Ea : bsum K c (fun l0 => mg B a l0 * g l0) = mg A a y) by (rewrite Hc; apply HP; auto).
    assert (Ei : bsum K c (fun l0 => mg B i l0 * g l0) = mg A i y) by (rewrite Hc; apply HP; auto).
    transitivity (bsum K c (fun l0 => mg B a l0 * g l0) - (l * nth a v 0) * bsum K c (fun l0 => mg B i l0 * g l0)
                  + l * nth a v 0 * mg A i y).
    { f_equal. rewrite <- (bsum_mul_l K Rth), <- (bsum_sub K Rth). apply bsum_ext; intros l0 Hl0.
      rewrite UPD1 by auto. rewrite nth_snoc. rewrite <- Hc. fold c.
      destruct (Nat.ltb_spec l0 c); [|lia]. unfold g. ring. }
    rewrite Ea, Ei. ring.
  - unfold rect_F. now rewrite tab_length.
  - intros a Ha. unfold rect_F. rewrite nth_tab by lia. rewrite MASK by auto.
    destruct (Nat.eqb_spec a i) as [->|Hne]; [reflexivity|].
    destruct (nth a Sm false) eqn:ESa; [|reflexivity].
    rewrite HF by auto. rewrite ESa.
    (* || b_a - l v_a b_i ||^2 + (l v_a)^2 = ||b_a||^2 - l v_a^2 *)
    unfold rownorm2. cbn [rect_update mkmat mc]. fold c. cbn [bsum]. rewrite UPD2 by auto.
    set (va := nth a v 0). set (vi := nth i v 0) in *.
    set (Na := bsum K c (fun j => mg B a j * mg B a j)).
    transitivity (Na - (1 + 1) * (l * va) * bsum K c (fun j => mg B a j * mg B i j)
                  + (l * va) * (l * va) * bsum K c (fun j => mg B i j * mg B i j) + l * va * (l * va)).
    2:{ f_equal. unfold Na. rewrite <- !(bsum_mul_l K Rth), <- (bsum_sub K Rth), <- (bsum_add K Rth).
        apply bsum_ext; intros j Hj. rewrite UPD1 by auto. fold va. ring. }
    rewrite <- (NV a) by auto. rewrite <- (NV i) by auto. fold va. fold vi.
    transitivity (Na - (1 + 1) * (l * va * va) + l * va * va * (l * (1 + vi))); [|ring].
    rewrite Hl. ring.
Qed.

(* ---------- the loop of the code (masked arg-max) ---------- *)
Lemma exists_unselected A I Sm B F : rect_inv A I Sm B F -> (length I < mr A)%nat ->
  argmax_mask K (fun a => nth a Sm false) (fun a => nth a F 0) (mr A) <> None.
Proof.
  intros (Hr & Hc & HND & HV & HLS & HS & _) HL E.
  pose proof (argmax_mask_none _ _ _ E) as HN. cbn beta in HN.
  assert (incl (seq 0 (mr A)) I).
  { intros a Ha. apply in_seq in Ha. apply mem_nat_In.
    specialize (HN a ltac:(lia)). rewrite HS in HN by lia. now destruct (mem_nat a I). }
  pose proof (NoDup_incl_length (seq_NoDup (mr A) 0) H) as HH. rewrite seq_length in HH. lia.
Qed.

Definition rect_loop_post (A : mat T) (e2 : T) (r_min : nat) (I : list nat) (steps : nat)
           (I' : list nat) (B' : mat T) (st : bool) : Prop :=
  exists Sm' F', rect_inv A I' Sm' B' F' /\
    (length I <= length I' <= length I + steps)%nat /\
    (st = false -> length I' = (length I + steps)%nat) /\
    (st = true -> (r_min <= length I')%nat /\ (length I' < length I + steps)%nat /\
                  forall a, (a < mr A)%nat -> nth a Sm' false = true -> nth a F' 0 <=! e2).

Lemma rect_loop_spec A e2 r_min : forall steps I Sm B F,
  rect_inv A I Sm B F -> (length I + steps <= mr A)%nat ->
  let '(I', B', st) := rect_loop K true e2 r_min steps I Sm B F in
  rect_loop_post A e2 r_min I steps I' B' st.
Proof.
  induction steps as [|st IH]; intros I Sm B F HInv HL; cbn [rect_loop].
  { exists Sm, F. split; [exact HInv|]. split; [lia|]. split; [intros; lia|discriminate]. }
  pose proof HInv as (Hr & Hc & HND & HV & HLS & HS & HP & HLF & HF).
  unfold rect_argmax. rewrite Hr.
  pose proof (exists_unselected A I Sm B F HInv ltac:(lia)) as HE.
  destruct (argmax_mask K (fun a => nth a Sm false) (fun a => nth a F 0) (mr A)) as [i|] eqn:E; [|congruence].
  assert (HFpos : forall a, (a < mr A)%nat -> nth a Sm false = true -> oltb K (- (1)) (nth a F 0) = true).
  { intros a Ha HSa. rewrite HF, HSa by auto. eapply lt_le_trans; [apply neg1_lt0|].
    unfold rownorm2. apply bsum_nonneg. intros; apply sq_nonneg. }
  rewrite (argmax_where_mask _ _ _ i E HFpos).
  destruct (argmax_mask_some _ _ _ _ E) as (Hi & HSi & Hmax). cbn beta in HSi, Hmax.
  destruct ((r_min <=? length I)%nat && oleb K (nth i F 0) e2) eqn:ET.
  - apply andb_true_iff in ET as (E1 & E2). apply Nat.leb_le in E1.
    exists Sm, F. split; [exact HInv|]. split; [lia|]. split; [discriminate|]. intros _.
    split; [lia|]. split; [lia|].
    intros a Ha HSa. eapply (of_trans K OFK); [apply Hmax; auto | exact E2].
  - pose proof (rect_step_inv A I Sm B F i HInv Hi HSi) as HStep. cbn zeta in HStep. rewrite Hr in HStep.
    specialize (IH _ _ _ _ HStep). rewrite app_length in IH. cbn [length] in IH.
    specialize (IH ltac:(lia)).
    destruct (rect_loop K true e2 r_min st (I ++ [i]) _ _ _) as ((I', B'), fl).
    destruct IH as (Sm' & F' & HI' & HLen & Hf & Ht). rewrite app_length in HLen, Hf, Ht. cbn [length] in *.
    exists Sm', F'. split; [exact HI'|]. split; [lia|]. split.
    + intros Efl. specialize (Hf Efl). lia.
    + intros Efl. destruct (Ht Efl) as (H1 & H2 & H3). split; [exact H1|]. split; [lia|exact H3].
Qed.

(* ---------- B[I] = eye ---------- *)
Lemma set_id_rows_in (B : mat T) I k j : NoDup I -> (k < length I)%nat -> (nth k I O < mr B)%nat -> (j < mc B)%nat ->
  mg (set_id_rows K B I) (nth k I O) j = if Nat.eqb k j then 1 else 0.
Proof.
  intros HN Hk Hv Hj. unfold set_id_rows. rewrite mget_mk by auto.
  rewrite (find_last_nodup I HN k (nth k I O) O None Hk eq_refl). reflexivity.
Qed.
Lemma set_id_rows_out (B : mat T) I a j : ~ In a I -> (a < mr B)%nat -> (j < mc B)%nat ->
  mg (set_id_rows K B I) a j = mg B a j.
Proof.
  intros HN Ha Hj. unfold set_id_rows. rewrite mget_mk by auto. now rewrite find_last_notin.
Qed.

(* the specification of a successful call of maxvol_rect *)
Definition rect_post (A : mat T) (e : T) (lo hi : nat) (I : list nat) (B : mat T) (st : bool) : Prop :=
  (lo <= length I <= hi)%nat /\ NoDup I /\ Forall (fun i => (i < mr A)%nat) I /\
  mr B = mr A /\ mc B = length I /\
  meq K (mmul K B (mrows K A I)) A /\ meq K (mrows K B I) (mid K (length I)) /\
  (st = false -> length I = hi) /\
  (st = true -> (length I < hi)%nat /\ forall a, (a < mr A)%nat -> rownorm2 K B a <=! e * e).

Lemma in_dec_nat (a : nat) (I : list nat) : {k | (k < length I)%nat /\ nth k I O = a} + {~ In a I}.
Proof.
  induction I as [|x I IH].
  - right. intros [].
  - destruct (Nat.eq_dec x a) as [->|Hne].
    + left. exists O. simpl. split; [lia|auto].
    + destruct IH as [(k & Hk & E)|Hn].
      * left. exists (S k). simpl. split; [lia|auto].
      * right. intros [E|Hin]; auto.
Qed.

Lemma rect_finish A e lo hi I Sm B F st :
  rect_inv A I Sm B F -> (lo <= length I <= hi)%nat -> 1 <=! e * e ->
  (st = false -> length I = hi) ->
  (st = true -> (length I < hi)%nat /\ forall a, (a < mr A)%nat -> nth a Sm false = true -> nth a F 0 <=! e * e) ->
  rect_post A e lo hi I (set_id_rows K B I) st.
Proof.
  intros (Hr & Hc & HND & HV & HLS & HS & HP & HLF & HF) HLen He Hf Ht.
  unfold rect_post. cbn [set_id_rows mkmat mr mc].
  split; [exact HLen|]. split; [exact HND|]. split; [apply forall_nth_valid; exact HV|].
  split; [exact Hr|]. split; [exact Hc|]. split; [|split; [|split; [exact Hf|]]].
  - (* A = B A[I] *)
    repeat split; cbn [mmul mrows mkmat mr mc set_id_rows]; auto.
    intros a y Ha Hy. unfold mmul. rewrite mget_mk by (cbn [set_id_rows mrows mkmat mr mc]; lia).
    cbn [set_id_rows mrows mkmat mr mc]. rewrite Hc.
    destruct (in_dec_nat a I) as [(k & Hk & E)|Hn].
    + subst a. rewrite (bsum_single K Rth (length I) k); auto.
      * rewrite set_id_rows_in by (auto; lia). rewrite Nat.eqb_refl.
        unfold mrows. rewrite mget_mk by lia. ring.
      * intros l Hl Hne. rewrite set_id_rows_in by (auto; lia).
        destruct (Nat.eqb_spec k l); [congruence|ring].
    + rewrite <- (HP a y) by lia. apply bsum_ext; intros l Hl.
      rewrite set_id_rows_out by (auto; lia). unfold mrows. rewrite mget_mk by lia. reflexivity.
  - (* B[I] = Id *)
    repeat split; cbn [mrows mkmat mr mc set_id_rows]; auto.
    intros k l Hk Hl. unfold mrows at 1. rewrite mget_mk by (cbn [set_id_rows mkmat mr mc]; lia).
    rewrite set_id_rows_in by (auto; try lia; rewrite Hr; auto). now rewrite mget_mid by lia.
  - (* row norms *)
    intros Est. destruct (Ht Est) as (H1 & H2). split; [exact H1|]. intros a Ha.
    unfold rownorm2. cbn [set_id_rows mkmat mc]. rewrite Hc.
    destruct (in_dec_nat a I) as [(k & Hk & E)|Hn].
    + subst a. rewrite (bsum_single K Rth (length I) k); auto.
      * rewrite set_id_rows_in by (auto; lia). rewrite Nat.eqb_refl.
        eapply le_rw; [| |exact He]; ring.
      * intros l Hl Hne. rewrite set_id_rows_in by (auto; lia).
        destruct (Nat.eqb_spec k l); [congruence|ring].
    + assert (ES : nth a Sm false = true).
      { rewrite HS by auto. destruct (mem_nat a I) eqn:EM; auto. apply mem_nat_In in EM. contradiction. }
      specialize (H2 a Ha ES). rewrite HF, ES in H2 by auto. unfold rownorm2 in H2. rewrite Hc in H2.
      eapply le_rw; [| |exact H2]; auto.
      apply bsum_ext; intros l Hl. now rewrite set_id_rows_out by (auto; lia).
Qed.

(* ---------- maxvol_rect (repaired arg-max): full specification ---------- *)
Definition rect_hi (A : mat T) (dr_max : option Z) : nat :=
  match dr_max with Some d => Nat.min (mr A) (mc A + Z.to_nat d) | None => mr A end.

Lemma rect_spec (lu_init : @lu_t T) A e dr_min dr_max e0 k0 :
  (0 < mc A)%nat -> (mc A < mr A)%nat -> 0 <=! e0 -> 1 <=! e * e -> lu_contract K A (lu_init A) ->
  (0 <= dr_min)%Z -> (mc A + Z.to_nat dr_min <= mr A)%nat ->
  (match dr_max with Some d => (dr_min <= d)%Z | None => True end) ->
  exists I B st, maxvol_rect_full K true lu_init A e dr_min dr_max e0 k0 = Ok (I, B, st) /\
                 maxvol_rect K lu_init A e dr_min dr_max e0 k0 = Ok (I, B) /\
                 rect_post A e (mc A + Z.to_nat dr_min) (rect_hi A dr_max) I B st.
Proof.
  intros Hr Hn He0 He HLU Hd0 Hdn Hdm.
  unfold maxvol_rect, maxvol_rect_gen, maxvol_rect_full.
  set (n := Z.of_nat (mr A)). set (r := Z.of_nat (mc A)).
  set (r_max := Z.min (match dr_max with Some d => (r + d)%Z | None => n end) n).
  assert (Hrmax : Z.to_nat r_max = rect_hi A dr_max).
  { unfold r_max, rect_hi, n, r. destruct dr_max as [d|]; lia. }
  assert (Hrmin : Z.to_nat (r + dr_min) = (mc A + Z.to_nat dr_min)%nat) by (unfold r; lia).
  assert (Hlohi : (mc A + Z.to_nat dr_min <= rect_hi A dr_max)%nat).
  { unfold rect_hi. destruct dr_max as [d|]; lia. }
  assert (Hhin : (rect_hi A dr_max <= mr A)%nat) by (unfold rect_hi; destruct dr_max; lia).
  replace ((r + dr_min <? r)%Z || (r_max <? r + dr_min)%Z || (n <? r_max)%Z) with false.
  2:{ symmetry. rewrite !orb_false_iff. repeat split; apply Z.ltb_ge; unfold r_max, n, r in *; destruct dr_max; lia. }
  destruct (maxvol_spec K OFK lu_init A e0 k0 Hr Hn He0 HLU) as (I0 & B0 & cv & _ & EM & _).
  (* we need the invariant itself, not only the matrix form: redo the loop lemma *)
  destruct HLU as (J0 & C0 & ELU & HInv0).
  unfold maxvol, maxvol_full in EM |- *. destruct (Nat.leb_spec (mr A) (mc A)); [lia|].
  rewrite ELU in EM |- *. cbn [rbind rmap fst snd] in EM |- *.
  pose proof (maxvol_loop_spec K OFK A e0 Hr Hn He0 k0 J0 C0 HInv0) as HLoop.
  destruct (maxvol_loop K e0 k0 J0 C0) as ((I1, B1), cv1). destruct HLoop as (HI1 & _).
  cbn [fst snd rbind]. clear EM.
  destruct HI1 as (HL & Hmr & Hmc & HND & HV & HP & HId).
  set (Sm := tab (mr A) (fun a => negb (mem_nat a I1))).
  set (F := tab (mr A) (fun a => if nth a Sm false then rownorm2 K B1 a else 0)).
  assert (HInv : rect_inv A I1 Sm B1 F).
  { unfold rect_inv. repeat split; auto; try lia.
    - intros k Hk. apply HV. lia.
    - unfold Sm. now rewrite tab_length.
    - intros a Ha. unfold Sm. now rewrite nth_tab.
    - intros a c Ha Hc'. rewrite HL. apply HP; auto.
    - unfold F. now rewrite tab_length.
    - intros a Ha. unfold F. now rewrite nth_tab. }
  pose proof (rect_loop_spec A (e * e) (Z.to_nat (r + dr_min)) (Z.to_nat r_max - mc A) I1 Sm B1 F HInv) as HRL.
  rewrite HL in HRL. specialize (HRL ltac:(lia)).
  destruct (rect_loop K true (e * e) (Z.to_nat (r + dr_min)) (Z.to_nat r_max - mc A) I1 Sm B1 F) as ((I2, B2), st).
  destruct HRL as (Sm' & F' & HI2 & HLen & Hf & Ht). rewrite HL in HLen, Hf, Ht.
  exists I2, (set_id_rows K B2 I2), st. split; [reflexivity|]. split; [reflexivity|].
  eapply rect_finish; eauto.
  - destruct st.
    + destruct (Ht eq_refl) as (H1 & H2 & _). lia.
    + specialize (Hf eq_refl). lia.
  - intros Est. specialize (Hf Est). lia.
  - intros Est. destruct (Ht Est) as (H1 & H2 & H3). split; [lia|exact H3].
Qed.

(* ---------- rejected inputs ---------- *)
Lemma rect_rejects_dr masked (lu_init : @lu_t T) A e dr_min dr_max e0 k0 :
  ((dr_min < 0)%Z \/
   (Z.min (match dr_max with Some d => Z.of_nat (mc A) + d | None => Z.of_nat (mr A) end) (Z.of_nat (mr A))
    < Z.of_nat (mc A) + dr_min)%Z) ->
  maxvol_rect_gen K masked lu_init A e dr_min dr_max e0 k0 = Err ValueError.
Proof.
  intros H. unfold maxvol_rect_gen, maxvol_rect_full.
  match goal with |- rmap fst (if ?c then _ else _) = _ => replace c with true; [reflexivity|] end.
  symmetry. rewrite !orb_true_iff. destruct H as [H|H].
  - left; left. apply Z.ltb_lt. lia.
  - left; right. apply Z.ltb_lt. exact H.
Qed.
Lemma rect_rejects_wide masked (lu_init : @lu_t T) A e dr_min dr_max e0 k0 :
  (mr A <= mc A)%nat -> maxvol_rect_gen K masked lu_init A e dr_min dr_max e0 k0 = Err ValueError.
Proof.
  intros H. unfold maxvol_rect_gen, maxvol_rect_full.
  match goal with |- rmap fst (if ?c then _ else _) = _ => destruct c; [reflexivity|] end.
  rewrite (maxvol_rejects K lu_init A e0 k0 H). reflexivity.
Qed.

(* ---------- utils._maxvol ---------- *)
Definition sel_post (A : mat T) (I : list nat) (B : mat T) : Prop :=
  NoDup I /\ Forall (fun i => (i < mr A)%nat) I /\
  meq K (mmul K B (mrows K A I)) A /\ meq K (mrows K B I) (mid K (length I)).

Lemma dispatch_trivial masked (lu_init : @lu_t T) A tau dr_min dr_max tau0 k0 : (mr A <= mc A)%nat ->
  maxvol_dispatch K masked lu_init A tau dr_min dr_max tau0 k0 = Ok (seq 0 (mr A), mid K (mr A)) /\
  sel_post A (seq 0 (mr A)) (mid K (mr A)).
Proof.
  intros H. unfold maxvol_dispatch. destruct (Nat.leb_spec (mr A) (mc A)); [|lia]. split; [reflexivity|].
  unfold sel_post. rewrite seq_length. split; [apply seq_NoDup|]. split.
  { apply Forall_forall. intros x Hx. apply in_seq in Hx. lia. }
  split.
  - repeat split; cbn [mmul mid mrows mkmat mr mc]; auto.
    intros a y Ha Hy. unfold mmul. rewrite mget_mk by (cbn [mid mrows mkmat mr mc]; lia).
    cbn [mid mkmat mr mc]. rewrite (bsum_single K Rth (mr A) a); auto.
    + rewrite mget_mid, Nat.eqb_refl by lia. unfold mrows. rewrite mget_mk by (rewrite ?seq_length; lia).
      rewrite seq_nth by lia. cbn. ring.
    + intros l Hl Hne. rewrite mget_mid by lia. destruct (Nat.eqb_spec a l); [congruence|ring].
  - repeat split; cbn [mid mrows mkmat mr mc]; auto; try now rewrite seq_length.
    intros k l Hk Hl. rewrite seq_length in Hk. unfold mrows. rewrite mget_mk by (rewrite ?seq_length; cbn; lia).
    rewrite seq_nth by lia. reflexivity.
Qed.

Lemma dispatch_maxvol masked (lu_init : @lu_t T) A tau dr_min dr_max tau0 k0 : (mc A < mr A)%nat ->
  Z.min dr_max (Z.of_nat (mr A) - Z.of_nat (mc A)) = 0%Z ->
  maxvol_dispatch K masked lu_init A tau dr_min dr_max tau0 k0 = maxvol K lu_init A tau0 k0.
Proof.
  intros H E. unfold maxvol_dispatch. destruct (Nat.leb_spec (mr A) (mc A)); [lia|]. rewrite E. reflexivity.
Qed.

Lemma dispatch_rect masked (lu_init : @lu_t T) A tau dr_min dr_max tau0 k0 : (mc A < mr A)%nat ->
  Z.min dr_max (Z.of_nat (mr A) - Z.of_nat (mc A)) <> 0%Z ->
  maxvol_dispatch K masked lu_init A tau dr_min dr_max tau0 k0 =
  maxvol_rect_gen K masked lu_init A tau (Z.min dr_min (Z.min dr_max (Z.of_nat (mr A) - Z.of_nat (mc A))))
                  (Some (Z.min dr_max (Z.of_nat (mr A) - Z.of_nat (mc A)))) tau0 k0.
Proof.
  intros H E. unfold maxvol_dispatch. destruct (Nat.leb_spec (mr A) (mc A)); [lia|].
  destruct (Z.eqb_spec (Z.min dr_max (Z.of_nat (mr A) - Z.of_nat (mc A))) 0); [contradiction|reflexivity].
Qed.

(* for all 0 <= dr_min, 0 <= dr_max the dispatch never raises and returns a valid selection *)
Lemma dispatch_spec (lu_init : @lu_t T) A tau dr_min dr_max tau0 k0 :
  (0 < mc A)%nat -> 0 <=! tau0 -> 1 <=! tau * tau -> (0 <= dr_min)%Z -> (0 <= dr_max)%Z ->
  ((mc A < mr A)%nat -> lu_contract K A (lu_init A)) ->
  exists I B, maxvol_dispatch K true lu_init A tau dr_min dr_max tau0 k0 = Ok (I, B) /\ sel_post A I B /\
              (Nat.min (mr A) (mc A) <= length I <= mr A)%nat.
Proof.
  intros Hr He0 He Hd0 Hd1 HLU.
  destruct (Nat.leb_spec (mr A) (mc A)) as [Hw|Ht].
  - destruct (dispatch_trivial true lu_init A tau dr_min dr_max tau0 k0 Hw) as (E & HP).
    exists (seq 0 (mr A)), (mid K (mr A)). rewrite seq_length. split; [exact E|]. split; [exact HP|]. lia.
  - specialize (HLU Ht).
    destruct (Z.eq_dec (Z.min dr_max (Z.of_nat (mr A) - Z.of_nat (mc A))) 0) as [E|E].
    + rewrite dispatch_maxvol by auto.
      destruct (maxvol_spec K OFK lu_init A tau0 k0 Hr Ht He0 HLU) as (I & B & cv & _ & EM & HL & HN & HV & H1 & H2 & _).
      exists I, B. split; [exact EM|]. unfold sel_post. rewrite HL. split; [|lia].
      split; [exact HN|]. split; [exact HV|]. split; [exact H1|exact H2].
    + rewrite dispatch_rect by auto.
      set (d1 := Z.min dr_max (Z.of_nat (mr A) - Z.of_nat (mc A))) in *.
      destruct (rect_spec lu_init A tau (Z.min dr_min d1) (Some d1) tau0 k0 Hr Ht He0 He HLU) as
          (I & B & st & _ & EM & HLen & HN & HV & _ & _ & H1 & H2 & _); try lia.
      exists I, B. split; [exact EM|]. unfold sel_post. split; [|unfold rect_hi in HLen; lia].
      split; [exact HN|]. split; [exact HV|]. split; [exact H1|exact H2].
Qed.
End RectP.

(* ---------- the pinned arg-max ( i = np.argmax(F) ) ---------- *)
Section PinnedP.
Context {T : Type} (K : ops T).
Notation "0" := (o0 K). Notation "1" := (o1 K).
Infix "+" := (oadd K). Infix "*" := (omul K). Infix "-" := (osub K). Infix "/" := (odiv K).
Notation mg := (mget K).
Notation "a <=! b" := (oleb K a b = true) (at level 70).
Hypothesis OFK : ordfield K.

(* if the overall first maximum is positive and selected rows carry 0, it is the first maximum among the
   unselected rows *)
Lemma argmax_agree s f n : (1 <= n)%nat -> (forall a, (a < n)%nat -> s a = false -> f a = 0) ->
  oltb K 0 (f (argmaxf K f n)) = true -> argmax_mask K s f n = Some (argmaxf K f n).
Proof.
  induction n as [|m IH]; intros Hn Hz Hpos; [lia|].
  assert (SEL : forall a, (a < S m)%nat -> oltb K 0 (f a) = true -> s a = true).
  { intros a Ha Hp. destruct (s a) eqn:E; auto. rewrite (Hz a Ha E) in Hp.
    rewrite (ltb_irrefl K OFK) in Hp. discriminate. }
  destruct m as [|m].
  { assert (E : argmaxf K f 1 = O) by (unfold argmaxf; destruct (oltb K (f O) (f O)); reflexivity).
    rewrite E in *. cbn [argmax_mask]. rewrite (SEL O (Nat.lt_0_1) Hpos). reflexivity. }
  assert (ES : argmaxf K f (S (S m)) = if oltb K (f (argmaxf K f (S m))) (f (S m)) then S m else argmaxf K f (S m))
    by reflexivity.
  assert (EM : argmax_mask K s f (S (S m)) =
               match argmax_mask K s f (S m) with
               | None => if s (S m) then Some (S m) else None
               | Some b => if s (S m) && oltb K (f b) (f (S m)) then Some (S m) else Some b
               end) by reflexivity.
  rewrite ES in Hpos |- *. rewrite EM. clear ES EM.
  set (b := argmaxf K f (S m)) in *.
  destruct (oltb K (f b) (f (S m))) eqn:El.
  - rewrite (SEL (S m) ltac:(lia) Hpos). cbn [andb].
    destruct (argmax_mask K s f (S m)) as [b'|] eqn:E; [|reflexivity].
    destruct (argmax_mask_some K OFK _ _ _ _ E) as (Hb' & _ & _).
    rewrite (le_lt_trans K OFK (f b') (f b) (f (S m))); auto. apply (argmaxf_max K OFK). exact Hb'.
  - rewrite IH; auto; try lia. now rewrite El, andb_false_r.
Qed.

(* "every row selected by the pinned loop has a positive residual" *)
Fixpoint rect_pos (e2 : T) (r_min steps : nat) (I : list nat) (Sm : list bool) (B : mat T) (F : list T) : Prop :=
  match steps with
  | O => True
  | S st =>
    let n := mr B in
    let i := rect_argmax K false Sm F n in
    if (r_min <=? length I)%nat && oleb K (nth i F 0) e2 then True
    else oltb K 0 (nth i F 0) = true /\
         let v := rect_v K B i in let l := 1 / (1 + nth i v 0) in let Sm' := mask_off Sm i in
         rect_pos e2 r_min st (I ++ [i]) Sm' (rect_update K B i v l) (rect_F K Sm' F v l n)
  end.

Lemma rect_pinned_agrees e2 r_min : forall steps I Sm B F,
  (1 <= mr B)%nat -> length Sm = mr B ->
  (forall a, (a < mr B)%nat -> nth a Sm false = false -> nth a F 0 = 0) ->
  rect_pos e2 r_min steps I Sm B F ->
  rect_loop K false e2 r_min steps I Sm B F = rect_loop K true e2 r_min steps I Sm B F.
Proof.
  induction steps as [|st IH]; intros I Sm B F Hn HLS Hz Hpos; [reflexivity|].
  cbn [rect_loop rect_pos] in *.
  set (n := mr B) in *.
  set (ip := rect_argmax K false Sm F n) in *. set (im := rect_argmax K true Sm F n).
  assert (Hip : ip = argmaxf K (fun a => nth a F 0) n) by reflexivity.
  assert (Him : (im < n)%nat) by (unfold im, rect_argmax; apply (argmaxf_lt K); lia).
  destruct (Nat.leb_spec r_min (length I)) as [Hk|Hk]; cbn [andb] in *.
  - destruct (oleb K (nth ip F 0) e2) eqn:Et.
    + (* the pinned test passes: the masked maximum is not larger *)
      assert (Hle : nth im F 0 <=! nth ip F 0).
      { rewrite Hip. apply (argmaxf_max K OFK (fun a => nth a F 0) n im Him). }
      rewrite (of_trans K OFK _ _ _ Hle Et). reflexivity.
    + destruct Hpos as (Hp & Hrest).
      assert (E : im = ip).
      { unfold im, rect_argmax. rewrite Hip. apply (argmaxf_where_agree K OFK); auto; now rewrite <- Hip. }
      rewrite E, Et. apply IH; auto.
      * unfold mask_off. rewrite tab_length. exact HLS.
      * cbn [rect_update mkmat mr]. intros a Ha. unfold rect_F. rewrite nth_tab by auto. now intros ->.
  - destruct Hpos as (Hp & Hrest).
    assert (E : im = ip).
    { unfold im, rect_argmax. rewrite Hip. apply (argmaxf_where_agree K OFK); auto; now rewrite <- Hip. }
    rewrite E. apply IH; auto.
    + unfold mask_off. rewrite tab_length. exact HLS.
    + cbn [rect_update mkmat mr]. intros a Ha. unfold rect_F. rewrite nth_tab by auto. now intros ->.
Qed.
End PinnedP.

Section PinnedTop.
Context {T : Type} (K : ops T).
Notation "0" := (o0 K). Infix "*" := (omul K).
Notation "a <=! b" := (oleb K a b = true) (at level 70).
Hypothesis OFK : ordfield K.

(* positivity of every residual selected by the pinned maxvol_rect (True if the call raises) *)
Definition rect_pos_full (lu_init : @lu_t T) (A : mat T) (e : T) (dr_min : Z) (dr_max : option Z) (e0 : T) (k0 : nat) : Prop :=
  let n := Z.of_nat (mr A) in let r := Z.of_nat (mc A) in
  let r_min := (r + dr_min)%Z in
  let r_max := Z.min (match dr_max with Some d => (r + d)%Z | None => n end) n in
  match maxvol K lu_init A e0 k0 with
  | Ok IB =>
    let Sm := tab (mr A) (fun a => negb (mem_nat a (fst IB))) in
    let F := tab (mr A) (fun a => if nth a Sm false then rownorm2 K (snd IB) a else 0) in
    rect_pos K (e * e) (Z.to_nat r_min) (Z.to_nat r_max - mc A) (fst IB) Sm (snd IB) F
  | Err _ => True
  end.

(* on such runs the pinned code and the repaired code return the same thing; hence rect_spec transfers *)
Lemma rect_pinned_full_agrees (lu_init : @lu_t T) A e dr_min dr_max e0 k0 :
  (0 < mc A)%nat -> (mc A < mr A)%nat -> 0 <=! e0 -> lu_contract K A (lu_init A) ->
  rect_pos_full lu_init A e dr_min dr_max e0 k0 ->
  maxvol_rect_full K false lu_init A e dr_min dr_max e0 k0 = maxvol_rect_full K true lu_init A e dr_min dr_max e0 k0.
Proof.
  intros Hr Hn He0 HLU Hpos. unfold maxvol_rect_full, rect_pos_full in *.
  match goal with |- (if ?c then _ else _) = _ => destruct c; [reflexivity|] end.
  destruct (maxvol_spec K OFK lu_init A e0 k0 Hr Hn He0 HLU) as (I & B & cv & _ & EM & _ & _ & _ & HM & _).
  rewrite EM in Hpos |- *. cbn [rbind fst snd] in Hpos |- *.
  destruct HM as (HM & _). cbn [mmul mkmat mr] in HM.
  rewrite (rect_pinned_agrees K OFK); auto.
  - lia.
  - rewrite tab_length. auto.
  - intros a Ha. rewrite HM in Ha. rewrite !nth_tab by auto. now intros ->.
Qed.
End PinnedTop.

(* ---------- finding S1: the pinned arg-max returns duplicate rows (machine-checked witness over Qc) ---------- *)
From Coq Require Import QArith Qcanon.
Definition A_S1 : mat Qc := mk_mat 2 1 [[Q2Qc 1]; [Q2Qc 0]].
Lemma A_S1_contract : lu_contract OQc A_S1 (lu_exec OQc A_S1).
Proof.
  unfold lu_contract. eexists; eexists. split; [vm_compute; reflexivity|].
  unfold mv_inv. cbn [A_S1 mr mc length]. repeat split; auto.
  - constructor; [intros []|constructor].
  - intros k Hk. destruct k; [cbn; lia|lia].
  - intros a c Ha Hc. destruct c; [|lia]. destruct a as [|[|a]]; [| |lia]; apply Qc_is_canon; vm_compute; reflexivity.
  - intros k l Hk Hl. destruct k; [|lia]. destruct l; [|lia]. apply Qc_is_canon; vm_compute; reflexivity.
Qed.
Lemma rect_distinct_refuted :
  exists (A : mat Qc) (e e0 : Qc) (dr : Z) (k0 : nat) (I : list nat) (B : mat Qc),
    (0 < mc A)%nat /\ (mc A < mr A)%nat /\ lu_contract OQc A (lu_exec OQc A) /\
    (0 <= dr)%Z /\ (mc A + Z.to_nat dr <= mr A)%nat /\
    oleb OQc (o1 OQc) (omul OQc e e) = true /\ oleb OQc (o0 OQc) e0 = true /\
    maxvol_rect_pinned OQc (lu_exec OQc) A e dr (Some dr) e0 k0 = Ok (I, B) /\
    ~ NoDup I /\ ~ meq OQc (mrows OQc B I) (mid OQc (length I)).
Proof.
  exists A_S1, (Q2Qc (11 # 10)), (Q2Qc (21 # 20)), 1%Z, 10%nat. eexists; eexists.
  split; [cbn; lia|]. split; [cbn; lia|]. split; [exact A_S1_contract|].
  split; [lia|]. split; [cbn; lia|]. split; [vm_compute; reflexivity|]. split; [vm_compute; reflexivity|].
  split; [vm_compute; reflexivity|]. split.
  - intros H. inversion H as [|? ? H1 H2]; subst. apply H1. left; reflexivity.
  - intros (_ & _ & H). specialize (H O O ltac:(cbn; lia) ltac:(cbn; lia)).
    vm_compute in H. discriminate H.
Qed.
