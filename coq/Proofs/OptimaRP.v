(* Lemmas about Model/Optima.v (C15), part 3: the order arguments, at the reals.
   Exactness of the beam when nothing is pruned and for rank-1 tensors; the maximum of both sweep directions;
   minimum and maximum through the squared shifted tensor. *)
From Coq Require Import List Arith Lia PeanoNat ZArith Bool Permutation Reals Lra Psatz.
From TV Require Import Num.Ops Lin.Tab Lin.BigSum Lin.Mat TT.Chain Model.ActOne Model.GridInd Model.Optima
  Proofs.ActOneP Proofs.ActOneP2 Proofs.ActOneP3 Proofs.OptimaP Proofs.OptimaP2.
Import ListNotations.
Local Open Scope R_scope.

(* ---------- the instance at the reals (own copy, so that this cone does not depend on another property's files) ---------- *)
Definition Rleb (a b : R) : bool := if Rle_dec a b then true else false.
Definition Rltb (a b : R) : bool := if Rlt_dec a b then true else false.
Definition Reqb (a b : R) : bool := if Req_EM_T a b then true else false.
Definition OR : ops R :=
  mkops R 0 1 Rplus Rmult Rminus Ropp Rdiv sqrt Rabs Rleb Rltb Reqb IZR (powerRZ 2).
Lemma OR_rng : rng OR. Proof. exact RTheory. Qed.
Lemma Rleb_true a b : Rleb a b = true <-> a <= b.
Proof. unfold Rleb. destruct (Rle_dec a b); split; auto; discriminate. Qed.
Lemma Rleb_false a b : Rleb a b = false <-> b < a.
Proof. unfold Rleb. destruct (Rle_dec a b); split; try discriminate; auto; lra. Qed.
Lemma Rltb_true a b : Rltb a b = true <-> a < b.
Proof. unfold Rltb. destruct (Rlt_dec a b); split; auto; discriminate. Qed.
Lemma Rltb_false a b : Rltb a b = false <-> b <= a.
Proof. unfold Rltb. destruct (Rlt_dec a b); split; try discriminate; auto; lra. Qed.

(* ---------- np.max(np.abs(Q)) ---------- *)
Definition famax (acc : R) (l : list R) : R := fold_left (fun m x => if Rleb m x then x else m) l acc.
Lemma amax_eq l : amax OR l = famax 0 (map Rabs l). Proof. reflexivity. Qed.
Lemma famax_ge_acc l : forall acc, acc <= famax acc l.
Proof.
  induction l as [|a l IH]; intros acc; cbn [famax fold_left]; [lra|].
  destruct (Rleb acc a) eqn:E.
  - apply Rleb_true in E. specialize (IH a). unfold famax in IH. lra.
  - apply IH.
Qed.
Lemma famax_ge_in l : forall acc x, In x l -> x <= famax acc l.
Proof.
  induction l as [|a l IH]; intros acc x Hx; [contradiction|]. cbn [famax fold_left].
  destruct Hx as [->|Hx]; [|apply IH; exact Hx].
  destruct (Rleb acc x) eqn:E.
  - apply (famax_ge_acc l x).
  - apply Rleb_false in E. pose proof (famax_ge_acc l acc) as H. unfold famax in H. lra.
Qed.
Lemma amax_nonneg l : 0 <= amax OR l. Proof. rewrite amax_eq. apply famax_ge_acc. Qed.
Lemma amax_ge l x : In x l -> Rabs x <= amax OR l.
Proof. intros H. rewrite amax_eq. apply famax_ge_in. apply in_map. exact H. Qed.

Lemma in_mflat_mk m n (f : nat -> nat -> R) i j : (i < m)%nat -> (j < n)%nat ->
  In (mget OR (mkmat m n f) i j) (mflat (mkmat m n f)).
Proof.
  intros Hi Hj. rewrite mget_mk by auto. unfold mflat, mkmat. cbn [md]. apply in_concat.
  exists (tab n (fun j => f i j)). split; apply in_tab; eauto.
Qed.
(* every entry of the extended matrix takes part in q_max *)
Lemma in_mflat_ext l2r Q G t b : (t < qcount l2r (beam_ext OR l2r Q G))%nat -> (b < qwidth l2r (beam_ext OR l2r Q G))%nat ->
  In (qent OR l2r (beam_ext OR l2r Q G) t b) (mflat (beam_ext OR l2r Q G)).
Proof.
  destruct l2r; unfold beam_ext; cbn [qent qcount qwidth]; rewrite mr_mk, mc_mk; intros Ht Hb; apply in_mflat_mk; auto.
Qed.

(* norms when the carried matrix has a single column (row): the squared scaled entry *)
Lemma nth_norms1 l2r Q t : qwidth l2r Q = 1%nat -> (t < qcount l2r Q)%nat ->
  nth t (beam_norms OR l2r Q) 0 = Rsqr (qent OR l2r Q t 0 / amax OR (mflat Q)).
Proof.
  destruct l2r; unfold beam_norms; cbn [qwidth qcount qent]; intros W Ht; rewrite nth_tab by auto;
    rewrite W; cbn [bsum]; unfold sq, Rsqr; cbn [o0 oadd omul odiv OR]; ring.
Qed.
Lemma norm_le_abs l2r Q t m : qwidth l2r Q = 1%nat -> (t < qcount l2r Q)%nat -> (m < qcount l2r Q)%nat ->
  In (qent OR l2r Q t 0) (mflat Q) -> In (qent OR l2r Q m 0) (mflat Q) ->
  nth t (beam_norms OR l2r Q) 0 <= nth m (beam_norms OR l2r Q) 0 ->
  Rabs (qent OR l2r Q t 0) <= Rabs (qent OR l2r Q m 0).
Proof.
  intros W Ht Hm It Im H. rewrite !nth_norms1 in H by auto.
  set (q := amax OR (mflat Q)) in *. set (x := qent OR l2r Q t 0) in *. set (y := qent OR l2r Q m 0) in *.
  pose proof (amax_nonneg (mflat Q)) as Hq. fold q in Hq.
  pose proof (amax_ge _ _ It) as Hx. fold q in Hx. pose proof (Rabs_pos y) as Hy.
  destruct (Req_dec q 0) as [E|E]; [lra|].
  apply Rsqr_le_abs_0 in H. unfold Rdiv in H. rewrite !Rabs_mult in H.
  assert (0 < Rabs (/ q)) by (apply Rabs_pos_lt, Rinv_neq_0_compat; exact E). nra.
Qed.

(* ---------- contract of np.argsort: a permutation of the positions that sorts ascending ---------- *)
Definition asc (l : list R) (p : list nat) : Prop :=
  forall i j, (i <= j)%nat -> (j < length p)%nat -> nth (nth i p O) l 0 <= nth (nth j p O) l 0.
Definition argsort_ok (argsort : nat -> list R -> list nat) : Prop :=
  forall c l, Permutation (argsort c l) (seq 0 (length l)) /\ asc l (argsort c l).
Lemma argsort_ok_perm argsort : argsort_ok argsort -> argsort_perm argsort.
Proof. intros H c l. apply H. Qed.

Lemma hd_nth0 {A} (l : list A) d : hd d l = nth 0 l d. Proof. destruct l; reflexivity. Qed.
Lemma hd_last_k_rev k (p : list nat) : (1 <= k)%nat -> hd O (last_k_rev k p) = nth (length p - 1) p O.
Proof.
  intros Hk. unfold last_k_rev. destruct k; [lia|]. destruct p as [|x p _] using rev_ind; [reflexivity|].
  rewrite rev_unit. cbn [firstn hd]. rewrite app_length. cbn [length].
  rewrite app_nth2 by lia. replace (length p + 1 - 1 - length p)%nat with O by lia. reflexivity.
Qed.
(* the first selected position carries the largest value *)
Lemma top_is_max argsort c l k : argsort_ok argsort -> (1 <= k)%nat -> (1 <= length l)%nat ->
  let m := hd O (last_k_rev k (argsort c l)) in
  (m < length l)%nat /\ forall t, (t < length l)%nat -> nth t l 0 <= nth m l 0.
Proof.
  intros H Hk Hl m. destruct (H c l) as [HP HA].
  pose proof (argsort_perm_length argsort (argsort_ok_perm _ H) c l) as L.
  unfold m. rewrite hd_last_k_rev by auto. split.
  - pose proof (argsort_perm_bound argsort (argsort_ok_perm _ H) c l) as B. rewrite Forall_forall in B.
    apply B. apply nth_In. lia.
  - intros t Ht. pose proof (argsort_perm_in argsort (argsort_ok_perm _ H) c l t Ht) as Hin.
    destruct (In_nth _ _ O Hin) as (i & Hi & <-). apply HA; lia.
Qed.

Lemma OR_mul_neq0 a b : a <> 0 -> b <> 0 -> omul OR a b <> 0.
Proof. cbn. intros. apply Rmult_integral_contrapositive_currified; auto. Qed.

Section BeamR.
Variable argsort : nat -> list R -> list nat.
Hypothesis AO : argsort_ok argsort.
Let AP := argsort_ok_perm argsort AO.
Let AB := argsort_perm_bound argsort AP.

(* row 0 of the table carries a partial product of globally maximal modulus *)
Definition gmax (l2r : bool) (P : list (core R)) (Ix : imat) : Prop :=
  forall idx, wfx l2r P idx 1 -> Rabs (pval OR l2r P 1 idx O) <= Rabs (pval OR l2r P 1 (nth O Ix []) O).

(* a pass that ends with a single column (row): the new first row is a row of the extended table whose
   partial product has the largest modulus among all rows of the extended table *)
Lemma step_top l2r k s c (P : list (core R)) ro st G :
  binv OR l2r c P ro (st_tab st) (st_mat st) -> rin l2r G = ro -> rout l2r G = 1%nat ->
  (1 <= k)%nat -> (1 <= length (st_tab st) * cn G)%nat -> c <> 0 ->
  let I1 := beam_tab l2r (st_tab st) (cn G) in
  exists m, (m < length I1)%nat /\
    nth O (st_tab (beam_step OR argsort l2r k s st G)) [] = nth m I1 [] /\
    forall t, (t < length I1)%nat ->
      Rabs (pval OR l2r (grow l2r P G) 1 (nth t I1 []) O) <= Rabs (pval OR l2r (grow l2r P G) 1 (nth m I1 []) O).
Proof.
  intros HB Hr Ho Hk HL Hc I1.
  pose proof (binv_ext OR OR_rng _ _ _ _ _ _ G HB Hr) as (HC & HW & HE). fold I1 in HC, HE. rewrite Ho in HW, HE.
  set (Q1 := beam_ext OR l2r (st_mat st) G) in *.
  assert (LI : length I1 = (length (st_tab st) * cn G)%nat).
  { unfold I1. rewrite length_beam_tab. destruct l2r; lia. }
  assert (LN : length (beam_norms OR l2r Q1) = length I1) by (rewrite length_beam_norms; exact HC).
  destruct (top_is_max argsort (fst (fst st)) (beam_norms OR l2r Q1) k AO Hk ltac:(lia)) as [Hm Hmax].
  fold (step_ind OR argsort l2r k st G) in Hm, Hmax. set (m := hd O (step_ind OR argsort l2r k st G)) in *.
  rewrite LN in Hm, Hmax.
  exists m. split; [exact Hm|]. split.
  - rewrite beam_step_tab. fold I1. rewrite nth_itake.
    + unfold m. now rewrite hd_nth0.
    + rewrite (length_step_ind OR OR_rng argsort AP l2r k c P ro st G HB Hr). lia.
  - intros t Ht. destruct (HE t Ht) as [_ Vt]. destruct (HE m Hm) as [_ Vm].
    specialize (Vt O ltac:(lia)). specialize (Vm O ltac:(lia)).
    assert (A : Rabs (qent OR l2r Q1 t 0) <= Rabs (qent OR l2r Q1 m 0)).
    { assert (Ht' : (t < qcount l2r Q1)%nat) by (rewrite HC; exact Ht).
      assert (Hm' : (m < qcount l2r Q1)%nat) by (rewrite HC; exact Hm).
      assert (H0 : (0 < qwidth l2r Q1)%nat) by (rewrite HW; lia).
      apply norm_le_abs; auto; apply in_mflat_ext; auto. }
    rewrite Vt, Vm in A. cbn [omul OR] in A. rewrite !Rabs_mult in A.
    assert (0 < Rabs c) by (apply Rabs_pos_lt; exact Hc). nra.
Qed.

(* ... when the extended table covers every multi-index, that row is a global maximiser *)
Lemma step_gmax_cov l2r k s c (P : list (core R)) ro st G :
  binv OR l2r c P ro (st_tab st) (st_mat st) -> bcov l2r P ro (st_tab st) ->
  rin l2r G = ro -> rout l2r G = 1%nat -> (1 <= k)%nat -> (1 <= length (st_tab st) * cn G)%nat -> c <> 0 ->
  gmax l2r (grow l2r P G) (st_tab (beam_step OR argsort l2r k s st G)).
Proof.
  intros HB HC Hr Ho Hk HL Hc idx W.
  destruct (step_top l2r k s c P ro st G HB Hr Ho Hk HL Hc) as (m & Hm & E & Hmax). rewrite E.
  pose proof (bcov_ext l2r P ro (st_tab st) G (binv_rect OR _ _ _ _ _ _ HB) HC Hr) as HC1.
  rewrite Ho in HC1. destruct (HC1 idx W) as (t & Ht & <-). apply Hmax. exact Ht.
Qed.

(* ---- nothing pruned ---- *)
Lemma fold_full l2r k s rest : forall c P ro st rf,
  rest <> [] -> inv_full OR l2r c P ro st -> compat l2r ro rest rf -> Forall (fun G => (1 <= cn G)%nat) rest ->
  (1 <= nel (shape P))%nat -> (nel (shape P) * nel (shape rest) <= k)%nat -> c <> 0 -> s <> 0 ->
  let st' := fold_left (beam_step OR argsort l2r k s) rest st in
  inv_full OR l2r (omul OR c (pown OR s (length rest))) (growall l2r P rest) rf st' /\
  (rf = 1%nat -> gmax l2r (growall l2r P rest) (st_tab st')).
Proof.
  induction rest as [|G rest IH]; intros c P ro st rf Hne HI HC HF HP Hk Hc Hs; [contradiction|].
  cbn [fold_left growall length pown compat] in *. destruct HC as [Hr HC]. inversion HF as [|? ? HG HF']; subst.
  assert (E : (nel (shape (G :: rest)) = cn G * nel (shape rest))%nat) by reflexivity. rewrite E in Hk.
  assert (HR : (1 <= nel (shape rest))%nat).
  { apply nel_pos. unfold shape. apply Forall_forall. intros n Hn. apply in_map_iff in Hn as (G' & <- & Hin).
    rewrite Forall_forall in HF'. auto. }
  assert (Hk1 : (nel (shape P) * cn G <= k)%nat) by nia.
  pose proof (step_full OR OR_rng argsort AP l2r k s c P (rin l2r G) st G HI eq_refl Hk1) as HS.
  destruct rest as [|G' rest'].
  - cbn [fold_left growall length pown compat] in *. subst rf. split.
    + replace (omul OR c (omul OR s (o1 OR))) with (omul OR c s) by (cbn; ring). exact HS.
    + intros Ho. destruct HI as (HB & HCv & HL). apply (step_gmax_cov l2r k s c P (rin l2r G)); auto; try nia.
  - assert (Hne' : G' :: rest' <> []) by discriminate.
    specialize (IH (omul OR c s) (grow l2r P G) (rout l2r G) (beam_step OR argsort l2r k s st G) rf Hne' HS HC HF').
    rewrite (shape_grow l2r) in IH.
    specialize (IH ltac:(nia) ltac:(nia) (OR_mul_neq0 _ _ Hc Hs) Hs). cbn zeta in IH.
    replace (omul OR c (omul OR s (pown OR s (length (G' :: rest'))))) with
            (omul OR (omul OR c s) (pown OR s (length (G' :: rest')))) by (cbn [omul OR]; ring).
    exact IH.
Qed.
End BeamR.

Section BeamR2.
Variable argsort : nat -> list R -> list nat.
Hypothesis AO : argsort_ok argsort.
Let AP := argsort_ok_perm argsort AO.
Let AB := argsort_perm_bound argsort AP.

Lemma pval_grow1 l2r (P : list (core R)) G idx i : wfx l2r P idx 1 -> rin l2r G = 1%nat -> rout l2r G = 1%nat ->
  (i < cn G)%nat ->
  pval OR l2r (grow l2r P G) 1 (ext_idx l2r idx i) O = pval OR l2r P 1 idx O * gent OR l2r G O i O.
Proof.
  intros W Hr Ho Hi. pose proof (pval_grow OR OR_rng l2r P G idx i O) as H. rewrite Hr, Ho in H.
  rewrite H by (auto; lia). cbn [bsum]. cbn [o0 oadd omul OR]. ring.
Qed.

(* ---- rank 1: the first row stays a global maximiser of the modulus of the partial product ---- *)
Definition inv_r1 (l2r : bool) (c : R) (P : list (core R)) (st : nat * imat * mat R) : Prop :=
  binv OR l2r c P 1 (st_tab st) (st_mat st) /\ (1 <= length (st_tab st))%nat /\ gmax l2r P (st_tab st).

Lemma step_r1 l2r k s c (P : list (core R)) st G : inv_r1 l2r c P st ->
  rin l2r G = 1%nat -> rout l2r G = 1%nat -> (1 <= cn G)%nat -> (1 <= k)%nat -> c <> 0 ->
  inv_r1 l2r (omul OR c s) (grow l2r P G) (beam_step OR argsort l2r k s st G).
Proof.
  intros (HB & HL & HG) Hr Ho Hn Hk Hc. split; [|split].
  - pose proof (binv_step OR OR_rng argsort AB l2r k s c P 1%nat st G HB Hr) as H. rewrite Ho in H. exact H.
  - apply (step_nonempty OR OR_rng argsort AP l2r k s c P 1%nat); auto.
  - intros idx' W'.
    destruct (step_top argsort AO l2r k s c P 1%nat st G HB Hr Ho Hk ltac:(nia) Hc) as (m & Hm & E & Hmax). rewrite E.
    destruct (wfx_grow_inv l2r P G idx' 1%nat W') as (idx & i & -> & W & Hi & _). rewrite Hr in W.
    pose proof (binv_rect OR _ _ _ _ _ _ HB) as HR.
    destruct HB as (HC & HW & HBt). destruct (HBt O ltac:(lia)) as [W0 _].
    eapply Rle_trans; [|apply (Hmax (ext_pos l2r (length (st_tab st)) (cn G) O i))].
    + rewrite (nth_beam_tab_ext l2r (length P)) by (auto; lia).
      rewrite !pval_grow1 by auto. cbn [omul OR]. rewrite !Rabs_mult.
      apply Rmult_le_compat_r; [apply Rabs_pos|]. apply HG. exact W.
    + rewrite length_beam_tab. apply ext_pos_lt; auto; lia.
Qed.

Lemma fold_r1 l2r k s rest : forall c P st, inv_r1 l2r c P st ->
  Forall (fun G => rin l2r G = 1%nat /\ rout l2r G = 1%nat /\ (1 <= cn G)%nat) rest -> (1 <= k)%nat -> c <> 0 -> s <> 0 ->
  inv_r1 l2r (omul OR c (pown OR s (length rest))) (growall l2r P rest) (fold_left (beam_step OR argsort l2r k s) rest st).
Proof.
  induction rest as [|G rest IH]; intros c P st HI HF Hk Hc Hs; cbn [fold_left growall length pown].
  - replace (omul OR c (o1 OR)) with c by (cbn; ring). exact HI.
  - inversion HF as [|? ? (Hr & Ho & Hn) HF']; subst.
    replace (omul OR c (omul OR s (pown OR s (length rest)))) with (omul OR (omul OR c s) (pown OR s (length rest)))
      by (cbn [omul OR]; ring).
    apply IH; auto using OR_mul_neq0. apply step_r1; auto.
Qed.

Lemma shape_pos_cn (Z : list (core R)) : Forall (fun n => (1 <= n)%nat) (shape Z) -> Forall (fun G => (1 <= cn G)%nat) Z.
Proof. unfold shape. intros H. apply Forall_forall. intros G HG. rewrite Forall_forall in H. apply H. now apply in_map. Qed.
Lemma pval_get l2r (Z : list (core R)) idx : pval OR l2r Z 1 idx O = get OR Z idx.
Proof. destruct l2r; reflexivity. Qed.
Lemma wfx_inb l2r (Z : list (core R)) idx : chain 1 Z 1 -> (wfx l2r Z idx 1 <-> inb (shape Z) idx).
Proof. intros HC. destruct l2r; cbn [wfx]; rewrite wfo_chain_inb; tauto. Qed.
Lemma pown_neq0 s n : s <> 0 -> pown OR s n <> 0.
Proof. intros Hs. induction n; cbn [pown]; [cbn; lra|]. apply OR_mul_neq0; auto. Qed.

(* beam_full_exact: k at least the number of elements: the first row of the table has maximal modulus *)
Theorem beam_full_exact cs (Z : list (core R)) k l2r s : s <> 0 -> chain 1 Z 1 -> (2 <= length Z)%nat ->
  Forall (fun n => (1 <= n)%nat) (shape Z) -> (nel (shape Z) <= k)%nat ->
  let i0 := hd [] (st_tab (beam_run OR argsort cs Z k l2r s)) in
  inb (shape Z) i0 /\ forall idx, inb (shape Z) idx -> Rabs (get OR Z idx) <= Rabs (get OR Z i0).
Proof.
  intros Hs HC Hd Hn Hk i0. assert (Hne : Z <> []) by (destruct Z; [cbn in Hd; lia|discriminate]).
  destruct (beam_decomp l2r Z HC Hne) as (H1 & Hcp & Eg & EL & EN & HFa).
  destruct (HFa _ (shape_pos_cn Z Hn)) as [Hn0 Hnr].
  set (G0 := beam_first l2r Z) in *. set (rest := beam_rest l2r Z) in *.
  assert (Hrest : rest <> []) by (destruct rest; [cbn in EL; lia|discriminate]).
  assert (HI : inv_full OR l2r s [G0] (rout l2r G0) (beam_init OR cs l2r G0 s)).
  { split; [apply (binv_init OR OR_rng); exact H1|]. split; [apply bcov_init; exact H1|].
    unfold beam_init, st_tab, irange. cbn [fst snd]. rewrite tab_length. unfold nel, shape. cbn. lia. }
  assert (N0 : nel (shape [G0]) = cn G0) by (unfold nel, shape; cbn; lia).
  pose proof (nel_pos _ Hn) as HN.
  destruct (fold_full argsort AO l2r k s rest s [G0] (rout l2r G0) _ 1%nat Hrest HI Hcp Hnr
              ltac:(rewrite N0; exact Hn0) ltac:(rewrite N0, <- EN; exact Hk) Hs Hs) as [(HB & _ & HL) HG].
  fold (beam_run OR argsort cs Z k l2r s) in HB, HL, HG. rewrite Eg in HB, HL, HG. specialize (HG eq_refl).
  unfold i0. rewrite hd_nth0. destruct HB as (_ & _ & HBt). split.
  - apply (wfx_inb l2r Z _ HC). apply HBt. rewrite HL. lia.
  - intros idx Hi. apply (wfx_inb l2r Z _ HC) in Hi. specialize (HG idx Hi). now rewrite !pval_get in HG.
Qed.

(* beam_rank1_exact: all TT-ranks 1, any k >= 1 *)
Theorem beam_rank1_exact cs (Z : list (core R)) k l2r s : s <> 0 -> chain 1 Z 1 -> (2 <= length Z)%nat ->
  Forall (fun n => (1 <= n)%nat) (shape Z) -> Forall (fun G => cr1 G = 1%nat /\ cr2 G = 1%nat) Z -> (1 <= k)%nat ->
  let i0 := hd [] (st_tab (beam_run OR argsort cs Z k l2r s)) in
  inb (shape Z) i0 /\ forall idx, inb (shape Z) idx -> Rabs (get OR Z idx) <= Rabs (get OR Z i0).
Proof.
  intros Hs HC Hd Hn H1r Hk i0. assert (Hne : Z <> []) by (destruct Z; [cbn in Hd; lia|discriminate]).
  destruct (beam_decomp l2r Z HC Hne) as (H1 & Hcp & Eg & EL & EN & HFa).
  destruct (HFa _ (shape_pos_cn Z Hn)) as [Hn0 Hnr]. destruct (HFa _ H1r) as [Hr0 Hrr].
  set (G0 := beam_first l2r Z) in *. set (rest := beam_rest l2r Z) in *.
  destruct rest as [|G1 rest'] eqn:Er; [cbn in EL; lia|].
  pose proof (Forall_inv Hnr) as Hn1. pose proof (Forall_inv_tail Hnr) as Hnr'.
  pose proof (Forall_inv Hrr) as Hr1. pose proof (Forall_inv_tail Hrr) as Hrr'. cbv beta in Hn1, Hr1.
  assert (R1 : forall G : core R, cr1 G = 1%nat /\ cr2 G = 1%nat -> rin l2r G = 1%nat /\ rout l2r G = 1%nat)
    by (intros G [A B]; destruct l2r; cbn [rin rout]; auto).
  destruct (R1 _ Hr0) as [_ Ho0]. destruct (R1 _ Hr1) as [Hi1 Ho1].
  pose proof (binv_init OR OR_rng l2r cs s G0 H1) as HB0. cbn zeta in HB0. rewrite Ho0 in HB0.
  pose proof (bcov_init OR l2r G0 cs s H1) as HC0. rewrite Ho0 in HC0.
  set (st0 := beam_init OR cs l2r G0 s) in *.
  assert (L0 : length (st_tab st0) = cn G0) by (unfold st0, beam_init, st_tab, irange; cbn [fst snd]; apply tab_length).
  assert (HI1 : inv_r1 l2r (omul OR s s) (grow l2r [G0] G1) (beam_step OR argsort l2r k s st0 G1)).
  { split; [|split].
    - pose proof (binv_step OR OR_rng argsort AB l2r k s s [G0] 1%nat st0 G1 HB0 Hi1) as H. rewrite Ho1 in H. exact H.
    - apply (step_nonempty OR OR_rng argsort AP l2r k s s [G0] 1%nat); auto. lia.
    - apply (step_gmax_cov argsort AO l2r k s s [G0] 1%nat); auto. rewrite L0. nia. }
  assert (HFr : Forall (fun G => rin l2r G = 1%nat /\ rout l2r G = 1%nat /\ (1 <= cn G)%nat) rest').
  { apply Forall_forall. intros G HG. rewrite Forall_forall in Hnr', Hrr'. destruct (R1 _ (Hrr' G HG)). auto. }
  pose proof (fold_r1 l2r k s rest' _ _ _ HI1 HFr Hk (OR_mul_neq0 _ _ Hs Hs) Hs) as (HB & HL & HG).
  assert (ER : beam_run OR argsort cs Z k l2r s = fold_left (beam_step OR argsort l2r k s) rest' (beam_step OR argsort l2r k s st0 G1)).
  { unfold beam_run. fold G0. change (beam_rest l2r Z) with rest. rewrite Er. reflexivity. }
  cbn [growall] in Eg. rewrite Eg in HB, HG. rewrite <- ER in HB, HL, HG.
  unfold i0. rewrite hd_nth0. destruct HB as (_ & _ & HBt). split.
  - apply (wfx_inb l2r Z _ HC). apply HBt. lia.
  - intros idx Hi. apply (wfx_inb l2r Z _ HC) in Hi. specialize (HG idx Hi). now rewrite !pval_get in HG.
Qed.
End BeamR2.

(* ---------- optima_tt_beam / optima_tt_max / optima_tt with their oracles ---------- *)
Definition rank1 (Y : list (core R)) : Prop := Forall (fun G => cr1 G = 1%nat /\ cr2 G = 1%nat) Y.
(* contract of teneva.orthogonalize(Y, piv, use_stab=True) -> (Z, p): Z is a TT-tensor of the same shape denoting
   a fixed multiple of Y (the factor 2^p), and QR does not increase ranks equal to one *)
Definition orth_ok (orth : nat -> list (core R) -> nat -> list (core R) * Z) : Prop :=
  forall c Y piv, chain 1 Y 1 ->
    chain 1 (fst (orth c Y piv)) 1 /\ shape (fst (orth c Y piv)) = shape Y /\
    (exists lam, forall idx, inb (shape Y) idx -> get OR Y idx = lam * get OR (fst (orth c Y piv)) idx) /\
    (rank1 Y -> rank1 (fst (orth c Y piv))).
(* contract of x**(1./d) inside teneva.const *)
Definition droot_ok (droot : R -> nat -> R) : Prop :=
  forall x d, 0 < x -> (1 <= d)%nat -> pown OR (droot x d) d = x.
(* d >= 2, ranks chain from 1 to 1, no empty mode *)
Definition good (Y : list (core R)) : Prop :=
  chain 1 Y 1 /\ (2 <= length Y)%nat /\ Forall (fun n => (1 <= n)%nat) (shape Y).
Definition maxmod (Y : list (core R)) (i : list nat) : Prop :=
  inb (shape Y) i /\ forall idx, inb (shape Y) idx -> Rabs (get OR Y idx) <= Rabs (get OR Y i).
Definition exact_cond (Y : list (core R)) (k : nat) : Prop :=
  (nel (shape Y) <= k)%nat \/ (rank1 Y /\ (1 <= k)%nat).

Definition r_imin (r : list nat * R * list nat * R) : list nat := fst (fst (fst r)).
Definition r_ymin (r : list nat * R * list nat * R) : R := snd (fst (fst r)).
Definition r_imax (r : list nat * R * list nat * R) : list nat := snd (fst r).
Definition r_ymax (r : list nat * R * list nat * R) : R := snd r.

Lemma exact_cond_k Y k : good Y -> exact_cond Y k -> (1 <= k)%nat.
Proof. intros (_ & _ & Hn) [H|[_ H]]; [|exact H]. pose proof (nel_pos _ Hn). lia. Qed.

Lemma Rabs_le_inv' x a : Rabs x <= a -> - a <= x <= a.
Proof. unfold Rabs. destruct (Rcase_abs x); lra. Qed.
(* the order argument behind optima_tt, free of tensors: f over a domain D *)
Lemma minmax_core (D : list nat -> Prop) (f : list nat -> R) i1 i2 :
  D i1 -> D i2 -> (forall idx, D idx -> Rabs (f idx) <= Rabs (f i1)) ->
  (forall idx, D idx -> Rabs ((f idx - f i1) * (f idx - f i1)) <= Rabs ((f i2 - f i1) * (f i2 - f i1))) ->
  forall idx, D idx ->
    if Rltb (f i1) (f i2) then f i1 <= f idx <= f i2 else f i2 <= f idx <= f i1.
Proof.
  intros D1 D2 HA HB idx Di.
  assert (Sq : forall x, Rabs (x * x) = x * x) by (intros x; apply Rabs_pos_eq; nra).
  pose proof (HB idx Di) as B. pose proof (HB i1 D1) as B1. rewrite !Sq in B, B1.
  pose proof (Rabs_le_inv' _ _ (HA idx Di)) as A. pose proof (Rabs_le_inv' _ _ (HA i2 D2)) as A2.
  set (y1 := f i1) in *. set (y2 := f i2) in *. set (y := f idx) in *.
  destruct (Rle_dec 0 y1) as [P|N].
  - rewrite (Rabs_pos_eq y1 P) in A, A2.
    assert (y2 <= y) by nra.
    destruct (Rltb y1 y2) eqn:E; [apply Rltb_true in E|apply Rltb_false in E]; lra.
  - assert (N' : y1 < 0) by lra. rewrite (Rabs_left y1 N') in A, A2.
    assert (y <= y2) by nra.
    destruct (Rltb y1 y2) eqn:E; [apply Rltb_true in E|apply Rltb_false in E]; lra.
Qed.

Section OptimaTop.
Variable argsort : nat -> list R -> list nat.
Hypothesis AO : argsort_ok argsort.
Let AP := argsort_ok_perm argsort AO.
Variable orth : nat -> list (core R) -> nat -> list (core R) * Z.
Hypothesis OO : orth_ok orth.
Variable pow2frac : Z -> nat -> R.
Hypothesis P2 : forall p d, pow2frac p d <> 0.
Variable droot : R -> nat -> R.

Lemma beam_unfold co cs (Y : list (core R)) k l2r :
  optima_tt_beam OR argsort orth pow2frac co cs Y k l2r =
  let Zp := orth co Y (if l2r then O else (length Y - 1)%nat) in
  hd [] (st_tab (beam_run OR argsort cs (fst Zp) k l2r (pow2frac (snd Zp) (length Y)))).
Proof.
  unfold optima_tt_beam, beam_all, beam_prep. destruct (orth co Y (if l2r then O else (length Y - 1)%nat)) as [Zt p].
  reflexivity.
Qed.

Lemma orth_good c (Y : list (core R)) piv : good Y -> good (fst (orth c Y piv)).
Proof.
  intros (HC & Hd & Hn). destruct (OO c Y piv HC) as (A & B & _). split; [exact A|]. split.
  - rewrite <- shape_length, B, shape_length. exact Hd.
  - now rewrite B.
Qed.

Lemma tt_beam_inb co cs (Y : list (core R)) k l2r : good Y -> (1 <= k)%nat ->
  inb (shape Y) (optima_tt_beam OR argsort orth pow2frac co cs Y k l2r).
Proof.
  intros HG Hk. rewrite beam_unfold. cbv zeta. set (piv := if l2r then O else (length Y - 1)%nat).
  destruct (orth_good co Y piv HG) as (A & B & Cn). destruct HG as (HC & _).
  destruct (OO co Y piv HC) as (_ & S & _). rewrite <- S.
  apply (beam_first_inb OR OR_rng argsort AP); auto. destruct (fst (orth co Y piv)); [cbn in B; lia|discriminate].
Qed.

Lemma tt_beam_exact co cs (Y : list (core R)) k l2r : good Y -> exact_cond Y k ->
  maxmod Y (optima_tt_beam OR argsort orth pow2frac co cs Y k l2r).
Proof.
  intros HG HE. rewrite beam_unfold. cbv zeta. set (piv := if l2r then O else (length Y - 1)%nat).
  destruct (orth_good co Y piv HG) as (A & B & Cn). destruct HG as (HC & _).
  destruct (OO co Y piv HC) as (_ & S & (lam & HL) & R1).
  set (Zt := fst (orth co Y piv)) in *. set (s := pow2frac (snd (orth co Y piv)) (length Y)).
  assert (HX : let i0 := hd [] (st_tab (beam_run OR argsort cs Zt k l2r s)) in
               inb (shape Zt) i0 /\ forall idx, inb (shape Zt) idx -> Rabs (get OR Zt idx) <= Rabs (get OR Zt i0)).
  { destruct HE as [HE|[HE Hk]].
    - apply (beam_full_exact argsort AO); auto; try apply P2. now rewrite S.
    - apply (beam_rank1_exact argsort AO); auto; try apply P2. apply R1. exact HE. }
  cbv zeta in HX. destruct HX as [X1 X2]. rewrite S in X1, X2. split; [exact X1|].
  intros idx Hi. rewrite (HL idx Hi), (HL _ X1), !Rabs_mult.
  apply Rmult_le_compat_l; [apply Rabs_pos|]. apply X2. exact Hi.
Qed.

(* optima_tt_max: the returned value is the tensor entry at the returned in-bounds index ... *)
Lemma tt_max_values co cs (Y : list (core R)) k : good Y -> (1 <= k)%nat ->
  let r := optima_tt_max OR argsort orth pow2frac co cs Y k in
  inb (shape Y) (fst r) /\ snd r = get OR Y (fst r).
Proof.
  intros HG Hk. unfold optima_tt_max. cbv zeta.
  destruct (oltb OR _ _); cbn [fst snd]; split; try reflexivity; apply tt_beam_inb; auto.
Qed.
(* ... of maximal modulus when nothing is pruned or the tensor has rank 1 *)
Lemma tt_max_exact co cs (Y : list (core R)) k : good Y -> exact_cond Y k ->
  maxmod Y (fst (optima_tt_max OR argsort orth pow2frac co cs Y k)).
Proof.
  intros HG HE. unfold optima_tt_max. cbv zeta.
  destruct (oltb OR _ _); cbn [fst snd]; apply tt_beam_exact; auto.
Qed.

(* ---- the squared shifted tensor ---- *)
Lemma tiny16_pos : 0 < tiny16 OR.
Proof. unfold tiny16. cbn [odiv o1 oofZ OR]. lra. Qed.
Lemma pown_one n : pown OR 1 n = 1.
Proof. induction n; cbn [pown]; [reflexivity|]. rewrite IHn. cbn. ring. Qed.
Lemma const_tt_good ns v : chain 1 (const_tt OR droot ns v) 1 /\ shape (const_tt OR droot ns v) = ns.
Proof. unfold const_tt. apply chain_const. Qed.
Lemma const_tt_get ns v idx : droot_ok droot -> ns <> [] -> inb ns idx -> get OR (const_tt OR droot ns v) idx = v.
Proof.
  intros HD Hne Hi. unfold const_tt. rewrite (get_const OR OR_rng) by auto. cbn [oltb oabs odiv o1 omul OR].
  destruct (Rltb (tiny16 OR) (Rabs v)) eqn:E.
  - apply Rltb_true in E. pose proof tiny16_pos as Ht.
    assert (Hv : v <> 0) by (intros ->; rewrite Rabs_R0 in E; lra).
    rewrite HD; [|lra|destruct ns; [contradiction|cbn; lia]].
    unfold Rabs. destruct (Rcase_abs v); field; exact Hv.
  - change (o1 OR) with 1. rewrite pown_one. ring.
Qed.

Lemma shifted_good (Y : list (core R)) v : good Y ->
  good (shifted_sq OR droot Y v) /\ shape (shifted_sq OR droot Y v) = shape Y.
Proof.
  intros (HC & Hd & Hn). unfold shifted_sq. destruct (const_tt_good (shape Y) v) as [CC CS].
  set (D := const_tt OR droot (shape Y) v) in *.
  assert (SS : same_shape Y D) by (apply same_shape_of_shape; exact CS).
  assert (SM : same_shape Y (mul_num OR D (oopp OR (o1 OR)))) by (apply same_shape_mul_num; exact SS).
  assert (C1 : chain 1 (sub OR Y D) 1) by (unfold sub; apply chain_add; auto; apply chain_mul_num; exact CC).
  assert (S1 : shape (sub OR Y D) = shape Y) by (unfold sub; apply shape_add; exact SM).
  assert (SZ : same_shape (sub OR Y D) (sub OR Y D)) by (apply same_shape_of_shape; reflexivity).
  pose proof (chain_mul OR (sub OR Y D) (sub OR Y D) 1 1 SZ C1 C1) as C2.
  pose proof (shape_mul OR (sub OR Y D) (sub OR Y D) SZ) as S2. rewrite S1 in S2.
  split; [|exact S2]. split; [exact C2|]. split; [|now rewrite S2].
  rewrite <- shape_length, S2, shape_length. exact Hd.
Qed.
Lemma shifted_get (Y : list (core R)) v idx : good Y -> droot_ok droot -> inb (shape Y) idx ->
  get OR (shifted_sq OR droot Y v) idx = (get OR Y idx - v) * (get OR Y idx - v).
Proof.
  intros (HC & Hd & Hn) HD Hi. unfold shifted_sq. destruct (const_tt_good (shape Y) v) as [CC CS].
  assert (Hne : shape Y <> []) by (destruct Y; [cbn in Hd; lia|discriminate]).
  pose proof (const_tt_get (shape Y) v idx HD Hne Hi) as GD.
  set (D := const_tt OR droot (shape Y) v) in *.
  assert (SS : same_shape Y D) by (apply same_shape_of_shape; exact CS).
  assert (SM : same_shape Y (mul_num OR D (oopp OR (o1 OR)))) by (apply same_shape_mul_num; exact SS).
  assert (C1 : chain 1 (sub OR Y D) 1) by (unfold sub; apply chain_add; auto; apply chain_mul_num; exact CC).
  assert (S1 : shape (sub OR Y D) = shape Y) by (unfold sub; apply shape_add; exact SM).
  assert (WY : wf 1 Y idx) by (apply wf_of; auto).
  assert (WD : wf 1 D idx) by (apply wf_of; [exact CC|now rewrite CS]).
  assert (WS : wf 1 (sub OR Y D) idx) by (apply wf_of; [exact C1|now rewrite S1]).
  rewrite (get_mul OR OR_rng) by (auto; apply same_shape_of_shape; reflexivity).
  rewrite (get_sub OR OR_rng) by auto. rewrite GD. reflexivity.
Qed.

(* ---- optima_tt ---- *)
Lemma optima_tt_unfold co cs (Y : list (core R)) k :
  optima_tt OR argsort orth pow2frac droot co cs Y k =
  let m1 := optima_tt_max OR argsort orth pow2frac co cs Y k in
  let Zs := shifted_sq OR droot Y (snd m1) in
  let m2 := optima_tt_max OR argsort orth pow2frac (co + 2) (cs + 2 * (length Y - 1)) Zs k in
  let y2 := get OR Y (fst m2) in
  if Rltb (snd m1) y2 then (fst m1, snd m1, fst m2, y2) else (fst m2, y2, fst m1, snd m1).
Proof.
  unfold optima_tt. destruct (optima_tt_max OR argsort orth pow2frac co cs Y k) as [i1 y1]. cbv zeta. cbn [fst snd].
  destruct (optima_tt_max OR argsort orth pow2frac (co + 2) (cs + 2 * (length Y - 1)) (shifted_sq OR droot Y y1) k) as [i2 y2'].
  reflexivity.
Qed.

(* values_true: in-bounds indices, values are the entries there, reported minimum <= reported maximum; any k >= 1 *)
Theorem optima_tt_values co cs (Y : list (core R)) k : good Y -> (1 <= k)%nat ->
  let r := optima_tt OR argsort orth pow2frac droot co cs Y k in
  inb (shape Y) (r_imin r) /\ inb (shape Y) (r_imax r) /\
  r_ymin r = get OR Y (r_imin r) /\ r_ymax r = get OR Y (r_imax r) /\ r_ymin r <= r_ymax r.
Proof.
  intros HG Hk. rewrite optima_tt_unfold. cbv zeta.
  destruct (tt_max_values co cs Y k HG Hk) as [I1 V1]. cbv zeta in I1, V1.
  set (m1 := optima_tt_max OR argsort orth pow2frac co cs Y k) in *.
  destruct (shifted_good Y (snd m1) HG) as [GZ SZ].
  destruct (tt_max_values (co + 2) (cs + 2 * (length Y - 1)) _ k GZ Hk) as [I2 _]. cbv zeta in I2. rewrite SZ in I2.
  set (m2 := optima_tt_max OR argsort orth pow2frac (co + 2) (cs + 2 * (length Y - 1)) (shifted_sq OR droot Y (snd m1)) k) in *.
  destruct (Rltb (snd m1) (get OR Y (fst m2))) eqn:E; [apply Rltb_true in E|apply Rltb_false in E];
    unfold r_imin, r_imax, r_ymin, r_ymax; cbn [fst snd]; repeat split; auto; lra.
Qed.

(* minmax_from_absmax + beam_full_exact: k at least the number of elements: true minimum and true maximum *)
Theorem optima_tt_exact_full co cs (Y : list (core R)) k : good Y -> droot_ok droot -> (nel (shape Y) <= k)%nat ->
  let r := optima_tt OR argsort orth pow2frac droot co cs Y k in
  forall idx, inb (shape Y) idx -> r_ymin r <= get OR Y idx <= r_ymax r.
Proof.
  intros HG HD Hk. rewrite optima_tt_unfold. cbv zeta.
  assert (HE : exact_cond Y k) by (left; exact Hk). pose proof (exact_cond_k Y k HG HE) as Hk1.
  destruct (tt_max_values co cs Y k HG Hk1) as [I1 V1]. cbv zeta in I1, V1.
  destruct (tt_max_exact co cs Y k HG HE) as [_ M1].
  set (m1 := optima_tt_max OR argsort orth pow2frac co cs Y k) in *.
  destruct (shifted_good Y (snd m1) HG) as [GZ SZ].
  assert (HE2 : exact_cond (shifted_sq OR droot Y (snd m1)) k) by (left; now rewrite SZ).
  destruct (tt_max_exact (co + 2) (cs + 2 * (length Y - 1)) _ k GZ HE2) as [I2 M2]. rewrite SZ in I2, M2.
  set (m2 := optima_tt_max OR argsort orth pow2frac (co + 2) (cs + 2 * (length Y - 1)) (shifted_sq OR droot Y (snd m1)) k) in *.
  intros idx Hi.
  pose proof (minmax_core (inb (shape Y)) (get OR Y) (fst m1) (fst m2) I1 I2 M1) as H.
  rewrite <- V1 in H.
  assert (HB : forall idx, inb (shape Y) idx ->
     Rabs ((get OR Y idx - snd m1) * (get OR Y idx - snd m1)) <= Rabs ((get OR Y (fst m2) - snd m1) * (get OR Y (fst m2) - snd m1))).
  { intros j Hj. rewrite <- !(shifted_get Y (snd m1)) by auto. apply M2. exact Hj. }
  specialize (H HB idx Hi).
  destruct (Rltb (snd m1) (get OR Y (fst m2))); unfold r_ymin, r_ymax; cbn [fst snd]; exact H.
Qed.

(* rank 1, any k >= 1: the maximum modulus is exact (the opposite-sign optimum comes from a second beam on a
   tensor of rank up to 4 and is NOT exact in general: see the refutation example) *)
Theorem optima_tt_max_exact co cs (Y : list (core R)) k : good Y -> exact_cond Y k ->
  let r := optima_tt_max OR argsort orth pow2frac co cs Y k in
  inb (shape Y) (fst r) /\ snd r = get OR Y (fst r) /\
  forall idx, inb (shape Y) idx -> Rabs (get OR Y idx) <= Rabs (snd r).
Proof.
  intros HG HE. cbv zeta. destruct (tt_max_values co cs Y k HG (exact_cond_k Y k HG HE)) as [I1 V1]. cbv zeta in I1, V1.
  destruct (tt_max_exact co cs Y k HG HE) as [_ M1]. rewrite V1. auto.
Qed.
End OptimaTop.
