(* C04: the pivot core of an orthogonalised TT-tensor carries the whole Frobenius norm.
   Ring-generic isometry lemmas: a chain of right-orthonormal cores preserves the scalar product of the entering
   vectors; the interface of a chain of left-orthonormal cores has the identity as Gram matrix. *)
From Coq Require Import List Arith Lia Ring PeanoNat ZArith Bool.
From TV Require Import Num.Ops Lin.Tab Lin.BigSum Lin.Mat TT.Chain Model.Transformation Proofs.TransformationP.
Import ListNotations.

(* ---------- list / chain bookkeeping (no ring needed) ---------- *)
Section OrthLists.
Context {T : Type}.

Lemma split_nth {A} (l : list A) k d : k < length l ->
  exists L R, l = L ++ nth k l d :: R /\ length L = k.
Proof.
  revert l; induction k as [|k IH]; intros [|x l] H; simpl in H; try lia.
  - exists [], l. auto.
  - destruct (IH l) as (L & R & E & Len); [lia|]. exists (x :: L), R. cbn [nth app length]. split; [now f_equal|lia].
Qed.
Lemma chain_app_inv (A : list (core T)) : forall B r rl, chain r (A ++ B) rl -> exists rm, chain r A rm /\ chain rm B rl.
Proof.
  induction A as [|G A IH]; intros B r rl C; cbn [app chain] in *.
  - exists r. auto.
  - destruct C as (E & C). destruct (IH _ _ _ C) as (rm & C1 & C2). exists rm. auto.
Qed.
Lemma chain_app (A : list (core T)) : forall B r rm rl, chain r A rm -> chain rm B rl -> chain r (A ++ B) rl.
Proof.
  induction A as [|G A IH]; intros B r rm rl; cbn [app chain].
  - intros -> C; exact C.
  - intros (E & C1) C2. split; eauto.
Qed.
Lemma wfo_app_inv' (A : list (core T)) : forall B idx r rl, wfo r (A ++ B) idx rl ->
  exists i1 i2 rm, idx = i1 ++ i2 /\ length i1 = length A /\ wfo r A i1 rm /\ wfo rm B i2 rl.
Proof.
  induction A as [|G A IH]; intros B idx r rl W.
  - exists [], idx, r. cbn. auto.
  - destruct idx as [|i idx]; cbn [app wfo] in W; [tauto|]. destruct W as (E & Hi & W).
    destruct (IH _ _ _ _ W) as (i1 & i2 & rm & -> & L & W1 & W2).
    exists (i :: i1), i2, rm. cbn [app length wfo]. repeat split; auto.
Qed.
Lemma wfo_app' (A : list (core T)) : forall B i1 i2 r rm rl, wfo r A i1 rm -> wfo rm B i2 rl -> wfo r (A ++ B) (i1 ++ i2) rl.
Proof.
  induction A as [|G A IH]; intros B [|i i1] i2 r rm rl; cbn [app wfo]; try tauto.
  - intros -> W; exact W.
  - intros (E & Hi & W1) W2. repeat split; auto. eapply IH; eauto.
Qed.
Lemma inb_length ns idx : inb ns idx -> length idx = length ns.
Proof. intros H. induction H; cbn; auto. Qed.
Lemma shape_app (A B : list (core T)) : shape (A ++ B) = shape A ++ shape B.
Proof. unfold shape. apply map_app. Qed.
Lemma inb_app_inv ns1 : forall ns2 idx, inb (ns1 ++ ns2) idx ->
  exists i1 i2, idx = i1 ++ i2 /\ inb ns1 i1 /\ inb ns2 i2.
Proof.
  induction ns1 as [|n ns1 IH]; intros ns2 idx H; cbn [app] in H.
  - exists [], idx. repeat split; auto. constructor.
  - inversion H as [|i n' idx' ns' Hi H' E1 E2]; subst. destruct (IH _ _ H') as (i1 & i2 & -> & A & B).
    exists (i :: i1), i2. repeat split; auto. constructor; auto.
Qed.
(* neighbouring ranks of a chain, through [nth] *)
Lemma chain_nth_link (Ws : list (core T)) : forall j r rl, chain r Ws rl -> j + 1 < length Ws ->
  cr2 (nth j Ws dcore) = cr1 (nth (S j) Ws dcore).
Proof.
  induction Ws as [|G Ws IH]; intros j r rl Cw Hj; [simpl in Hj; lia|].
  destruct j as [|j]; cbn [chain] in Cw; destruct Cw as [_ Cw].
  - destruct Ws; [simpl in Hj; lia|]. cbn in *. destruct Cw; auto.
  - cbn [nth]. eapply IH; eauto. simpl in Hj; lia.
Qed.
Lemma chain_nth_first (Ws : list (core T)) r rl : chain r Ws rl -> Ws <> [] -> cr1 (nth 0 Ws dcore) = r.
Proof. destruct Ws; [congruence|]. cbn. tauto. Qed.
Lemma chain_nth_last (Ws : list (core T)) : forall r rl, chain r Ws rl -> Ws <> [] ->
  cr2 (nth (length Ws - 1) Ws dcore) = rl.
Proof.
  induction Ws as [|G Ws IH]; intros r rl Cw Hne; [contradiction|].
  cbn [chain] in Cw. destruct Cw as [_ Cw]. destruct Ws as [|G' Ws]; [cbn in *; auto|].
  replace (length (G :: G' :: Ws) - 1) with (S (length (G' :: Ws) - 1)) by (simpl; lia).
  cbn [nth]. eapply IH; eauto. discriminate.
Qed.
Lemma cn_nth_shape (A B : list (core T)) m : shape A = shape B -> cn (nth m A dcore) = cn (nth m B dcore).
Proof.
  intros E. change (cn (nth m A dcore)) with (cn (nth m A (@dcore T))).
  rewrite <- !(map_nth cn). fold (shape A). fold (shape B). now rewrite E.
Qed.
(* left ranks follow right ranks and vice versa *)
Lemma rank_r2_to_r1 (A B : list (core T)) : chain 1 A 1 -> chain 1 B 1 -> length A = length B ->
  (forall m, m < length B -> cr2 (nth m A dcore) <= cr2 (nth m B dcore)) ->
  forall m, m < length B -> cr1 (nth m A dcore) <= cr1 (nth m B dcore).
Proof.
  intros CA CB L H [|m] Hm.
  - rewrite (chain_nth_first A 1 1 CA), (chain_nth_first B 1 1 CB); auto; intros ->; simpl in *; lia.
  - rewrite <- (chain_nth_link A m 1 1 CA), <- (chain_nth_link B m 1 1 CB) by lia. apply H. lia.
Qed.
Lemma rank_r1_to_r2 (A B : list (core T)) : chain 1 A 1 -> chain 1 B 1 -> length A = length B ->
  (forall m, m < length B -> cr1 (nth m A dcore) <= cr1 (nth m B dcore)) ->
  forall m, m < length B -> cr2 (nth m A dcore) <= cr2 (nth m B dcore).
Proof.
  intros CA CB L H m Hm. destruct (Nat.eq_dec (m + 1) (length B)) as [E|N].
  - replace m with (length A - 1) at 1 by lia. replace m with (length B - 1) by lia.
    rewrite (chain_nth_last A 1 1 CA), (chain_nth_last B 1 1 CB); auto; intros ->; simpl in *; lia.
  - rewrite (chain_nth_link A m 1 1 CA), (chain_nth_link B m 1 1 CB) by lia. apply H. lia.
Qed.
End OrthLists.

Section OrthNorm.
Context {T : Type} (K : ops T).
Notation "0" := (o0 K). Notation "1" := (o1 K).
Infix "+" := (oadd K). Infix "*" := (omul K). Infix "-" := (osub K).
Hypothesis Rth : rng K.
Add Ring RrOrthN : Rth.
Local Notation cget := (cget K). Local Notation vstep := (vstep K). Local Notation run := (run K).
Local Notation get := (get K). Local Notation bsum := (bsum K). Local Notation msum := (msum K).
Local Notation dget := (dget K).

(* scalar product of the first r entries; squared Frobenius norm of a core; of a TT-tensor (sum over all multi-indices) *)
Definition dot (r : nat) (v w : list T) : T := bsum r (fun a => nth a v 0 * nth a w 0).
Definition cfrob2 (G : core T) : T :=
  bsum (cr1 G) (fun a => bsum (cn G) (fun i => bsum (cr2 G) (fun b => cget G a i b * cget G a i b))).
Definition tnorm2 (Y : list (core T)) : T := msum (shape Y) (fun idx => get Y idx * get Y idx).

(* ---------- sums ---------- *)
Lemma bsum3_rot m n p (F : nat -> nat -> nat -> T) :
  bsum m (fun i => bsum n (fun b => bsum p (fun a => F i b a))) =
  bsum p (fun a => bsum m (fun i => bsum n (fun b => F i b a))).
Proof.
  transitivity (bsum m (fun i => bsum p (fun a => bsum n (fun b => F i b a)))).
  - apply bsum_ext; intros i Hi. apply bsum_swap; auto.
  - apply bsum_swap; auto.
Qed.
Lemma bsum4_rot m n p q (F : nat -> nat -> nat -> nat -> T) :
  bsum m (fun i => bsum n (fun b => bsum p (fun a => bsum q (fun a' => F i b a a')))) =
  bsum p (fun a => bsum q (fun a' => bsum m (fun i => bsum n (fun b => F i b a a')))).
Proof.
  rewrite (bsum3_rot m n p (fun i b a => bsum q (fun a' => F i b a a'))).
  apply bsum_ext; intros a Ha. apply (bsum3_rot m n q (fun i b a' => F i b a a')).
Qed.
Lemma bsum_prod_expand r (x g y h : nat -> T) :
  bsum r (fun a => x a * g a) * bsum r (fun a' => y a' * h a') =
  bsum r (fun a => bsum r (fun a' => (x a * y a') * (g a * h a'))).
Proof.
  rewrite <- bsum_mul_r by auto. apply bsum_ext; intros a Ha.
  rewrite <- bsum_mul_l by auto. apply bsum_ext; intros a' Ha'. ring.
Qed.
Lemma bsum_delta2 r (F : nat -> nat -> T) :
  bsum r (fun a => bsum r (fun a' => (if Nat.eqb a a' then 1 else 0) * F a a')) = bsum r (fun a => F a a).
Proof.
  apply bsum_ext; intros a Ha. rewrite (bsum_single K Rth r a); auto.
  - rewrite Nat.eqb_refl. ring.
  - intros a' Ha' Hne. destruct (Nat.eqb_spec a a'); [congruence|ring].
Qed.
Lemma msum_bsum ns n (f : list nat -> nat -> T) :
  msum ns (fun idx => bsum n (fun k => f idx k)) = bsum n (fun k => msum ns (fun idx => f idx k)).
Proof.
  revert f; induction ns as [|n0 ns IH]; intros f; cbn [Chain.msum]; [reflexivity|].
  transitivity (bsum n0 (fun i => bsum n (fun k => msum ns (fun idx => f (i :: idx) k)))).
  - apply bsum_ext; intros i Hi. apply IH.
  - apply bsum_swap; auto.
Qed.
Lemma msum_mul_r ns c f : msum ns (fun idx => f idx * c) = msum ns f * c.
Proof.
  rewrite (msum_ext K ns _ (fun idx => c * f idx)) by (intros; ring).
  rewrite msum_mul_l by auto. ring.
Qed.
Lemma dot1 v w : dot 1 v w = nth O v 0 * nth O w 0.
Proof. unfold dot. cbn [BigSum.bsum]. ring. Qed.

(* ---------- one right-orthonormal core is an isometry on the entering vectors ---------- *)
Lemma dot_vstep_rorth G v w : rorth K G ->
  bsum (cn G) (fun i => dot (cr2 G) (vstep v G i) (vstep w G i)) = dot (cr1 G) v w.
Proof.
  intros HO. unfold dot.
  transitivity (bsum (cn G) (fun i => bsum (cr2 G) (fun b => bsum (cr1 G) (fun a => bsum (cr1 G) (fun a' =>
                  (nth a v 0 * nth a' w 0) * (cget G a i b * cget G a' i b)))))).
  { apply bsum_ext; intros i Hi. apply bsum_ext; intros b Hb. rewrite !nth_vstep by auto. apply bsum_prod_expand. }
  rewrite bsum4_rot.
  transitivity (bsum (cr1 G) (fun a => bsum (cr1 G) (fun a' =>
                  (if Nat.eqb a a' then 1 else 0) * (nth a v 0 * nth a' w 0)))).
  { apply bsum_ext; intros a Ha. apply bsum_ext; intros a' Ha'. rewrite <- (HO a a') by auto.
    rewrite <- bsum_mul_r by auto. apply bsum_ext; intros i Hi.
    rewrite <- bsum_mul_r by auto. apply bsum_ext; intros b Hb. ring. }
  apply bsum_delta2.
Qed.
(* a chain of right-orthonormal cores: sum over all its multi-indices of <v.R(idx), w.R(idx)> = <v, w> *)
Theorem form_rorth R : forall r rl v w, chain r R rl -> Forall (rorth K) R ->
  msum (shape R) (fun idx => dot rl (run v R idx) (run w R idx)) = dot r v w.
Proof.
  induction R as [|G R IH]; intros r rl v w C HO; unfold shape; cbn [map Chain.msum].
  - cbn [chain] in C. subst rl. reflexivity.
  - cbn [chain] in C. destruct C as (E & C). inversion HO as [|? ? HG HO']; subst.
    cbn [Chain.run]. rewrite <- dot_vstep_rorth by exact HG.
    apply bsum_ext; intros i Hi. apply (IH (cr2 G) rl _ _ C HO').
Qed.

(* ---------- a chain of left-orthonormal cores: the interface vectors have the identity as Gram matrix ---------- *)
Lemma nth_vstep_evec G a0 i b : a0 < cr1 G -> b < cr2 G -> nth b (vstep (evec K (cr1 G) a0) G i) 0 = cget G a0 i b.
Proof.
  intros Ha Hb. rewrite nth_vstep by auto. rewrite (bsum_single K Rth (cr1 G) a0); auto.
  - rewrite nth_evec, Nat.eqb_refl by auto. ring.
  - intros a' Ha' Hne. rewrite nth_evec by auto. destruct (Nat.eqb_spec a' a0); [contradiction|ring].
Qed.
Theorem gram_lorth L : forall r0 rm, chain r0 L rm -> Forall (lorth K) L -> forall c c', c < rm -> c' < rm ->
  msum (shape L) (fun idx => bsum r0 (fun a0 => dget L idx r0 a0 c * dget L idx r0 a0 c')) =
  if Nat.eqb c c' then 1 else 0.
Proof.
  induction L as [|G L IH]; intros r0 rm C HO c c' Hc Hc'; unfold shape; cbn [map Chain.msum].
  - cbn [chain] in C. subst rm. unfold Chain.dget. cbn [Chain.run].
    rewrite (bsum_single K Rth r0 c); auto.
    + rewrite !nth_evec by auto. rewrite Nat.eqb_refl. rewrite (Nat.eqb_sym c' c). destruct (Nat.eqb c c'); ring.
    + intros a Ha Hne. rewrite (nth_evec K r0 a c) by auto. destruct (Nat.eqb_spec c a); [congruence|ring].
  - cbn [chain] in C. destruct C as (E & C). inversion HO as [|? ? HG HO']; subst.
    fold (shape L).
    (* expand the first core *)
    transitivity (bsum (cn G) (fun i => msum (shape L) (fun idx => bsum (cr1 G) (fun a0 =>
        bsum (cr2 G) (fun b => bsum (cr2 G) (fun b' =>
          (cget G a0 i b * cget G a0 i b') * (dget L idx (cr2 G) b c * dget L idx (cr2 G) b' c'))))))).
    { apply bsum_ext; intros i Hi. apply msum_ext; intros idx Hidx. apply bsum_ext; intros a0 Ha0.
      assert (W : wfo (cr2 G) L idx rm) by (apply wfo_chain_inb; auto).
      unfold Chain.dget at 1 2. cbn [Chain.run].
      rewrite !(run_decomp K Rth L _ idx (cr2 G) rm W (vstep_length K _ _ _)) by auto.
      rewrite <- bsum_prod_expand.
      f_equal; apply bsum_ext; intros b Hb; now rewrite nth_vstep_evec by auto. }
    rewrite <- msum_bsum.
    rewrite <- (IH (cr2 G) rm C HO' c c' Hc Hc').
    apply msum_ext; intros idx Hidx.
    rewrite bsum4_rot.
    transitivity (bsum (cr2 G) (fun b => bsum (cr2 G) (fun b' =>
        (if Nat.eqb b b' then 1 else 0) * (dget L idx (cr2 G) b c * dget L idx (cr2 G) b' c')))).
    { apply bsum_ext; intros b Hb. apply bsum_ext; intros b' Hb'. rewrite <- (HG b b') by auto.
      rewrite <- bsum_mul_r by auto. apply bsum_ext; intros i Hi.
      rewrite <- bsum_mul_r by auto. apply bsum_ext; intros a Ha. ring. }
    apply bsum_delta2.
Qed.

(* ---------- the pivot core carries the norm ---------- *)
Lemma evec1 : evec K 1 0 = [1]. Proof. reflexivity. Qed.
Theorem tnorm2_pivot L G R : chain 1 (L ++ G :: R) 1 -> Forall (lorth K) L -> Forall (rorth K) R ->
  tnorm2 (L ++ G :: R) = cfrob2 G.
Proof.
  intros C HL HR. destruct (chain_app_inv _ _ _ _ C) as (rm & CL & CG). cbn [chain] in CG. destruct CG as (E1 & CR).
  subst rm. unfold tnorm2. rewrite shape_app, msum_app. unfold shape at 2. cbn [map Chain.msum]. fold (shape R).
  (* the right part is an isometry *)
  transitivity (msum (shape L) (fun iL => bsum (cn G) (fun i =>
      dot (cr2 G) (vstep (run [1] L iL) G i) (vstep (run [1] L iL) G i)))).
  { apply msum_ext; intros iL HiL. apply bsum_ext; intros i Hi.
    rewrite <- (form_rorth R (cr2 G) 1%nat _ _ CR HR). apply msum_ext; intros iR HiR.
    rewrite dot1. unfold Chain.get.
    rewrite (run_app K [1] L (G :: R) iL (i :: iR)) by (rewrite (inb_length _ _ HiL); apply map_length).
    reflexivity. }
  (* expand the pivot core and pull the sum over the left indices inside *)
  transitivity (bsum (cn G) (fun i => bsum (cr2 G) (fun b => bsum (cr1 G) (fun a => bsum (cr1 G) (fun a' =>
      msum (shape L) (fun iL => nth a (run [1] L iL) 0 * nth a' (run [1] L iL) 0) * (cget G a i b * cget G a' i b)))))).
  { rewrite msum_bsum. apply bsum_ext; intros i Hi. unfold dot. rewrite msum_bsum. apply bsum_ext; intros b Hb.
    transitivity (msum (shape L) (fun iL => bsum (cr1 G) (fun a => bsum (cr1 G) (fun a' =>
        (nth a (run [1] L iL) 0 * nth a' (run [1] L iL) 0) * (cget G a i b * cget G a' i b))))).
    { apply msum_ext; intros iL HiL. rewrite !nth_vstep by auto. apply bsum_prod_expand. }
    rewrite msum_bsum. apply bsum_ext; intros a Ha. rewrite msum_bsum. apply bsum_ext; intros a' Ha'.
    apply msum_mul_r. }
  (* the left interface is orthonormal *)
  transitivity (bsum (cn G) (fun i => bsum (cr2 G) (fun b => bsum (cr1 G) (fun a => bsum (cr1 G) (fun a' =>
      (if Nat.eqb a a' then 1 else 0) * (cget G a i b * cget G a' i b)))))).
  { apply bsum_ext; intros i Hi. apply bsum_ext; intros b Hb. apply bsum_ext; intros a Ha. apply bsum_ext; intros a' Ha'.
    f_equal. rewrite <- (gram_lorth L 1%nat (cr1 G) CL HL a a' Ha Ha').
    apply msum_ext; intros iL HiL. cbn [BigSum.bsum]. unfold Chain.dget. rewrite evec1. ring. }
  rewrite (bsum3_rot (cn G) (cr2 G) (cr1 G)). unfold cfrob2.
  apply bsum_ext; intros a Ha.
  transitivity (bsum (cn G) (fun i => bsum (cr2 G) (fun b => bsum (cr1 G) (fun a' =>
      (if Nat.eqb a a' then 1 else 0) * (cget G a i b * cget G a' i b))))); [reflexivity|].
  apply bsum_ext; intros i Hi. apply bsum_ext; intros b Hb.
  rewrite (bsum_single K Rth (cr1 G) a); auto.
  - rewrite Nat.eqb_refl. ring.
  - intros a' Ha' Hne. destruct (Nat.eqb_spec a a'); [congruence|ring].
Qed.

(* the same through [nth]: cores left of k have orthonormal columns, cores right of k orthonormal rows *)
Theorem orth_pivot_norm Y k : chain 1 Y 1 -> k < length Y ->
  (forall m, m < k -> lorth K (nth m Y dcore)) ->
  (forall m, k < m -> m < length Y -> rorth K (nth m Y dcore)) ->
  tnorm2 Y = cfrob2 (nth k Y dcore).
Proof.
  intros C Hk HL HR. destruct (split_nth Y k dcore Hk) as (L & R & E & Len).
  set (G := nth k Y dcore) in *. clearbody G. subst Y.
  apply tnorm2_pivot; auto.
  - apply Forall_forall. intros x Hx. destruct (In_nth L x dcore Hx) as (m & Hm & <-).
    rewrite <- (app_nth1 L (G :: R) dcore Hm). apply HL. lia.
  - apply Forall_forall. intros x Hx. destruct (In_nth R x dcore Hx) as (m & Hm & <-).
    replace (nth m R dcore) with (nth (k + 1 + m)%nat (L ++ G :: R) dcore).
    + apply HR; [lia|]. rewrite app_length. simpl. lia.
    + rewrite app_nth2 by lia. replace (k + 1 + m - length L)%nat with (S m) by lia. reflexivity.
Qed.

(* tensors with the same entries on the same index set have the same norm *)
Lemma tnorm2_ext Y Zs c : shape Zs = shape Y -> chain 1 Y 1 ->
  (forall idx, wf 1 Y idx -> c * get Zs idx = get Y idx) -> tnorm2 Y = c * c * tnorm2 Zs.
Proof.
  intros S C H. unfold tnorm2. rewrite S. rewrite <- msum_mul_l by auto. apply msum_ext; intros idx Hidx.
  rewrite <- H by (apply wf_wfo, wfo_chain_inb; auto). ring.
Qed.
End OrthNorm.
