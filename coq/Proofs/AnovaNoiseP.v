(* Lemmas about Model/Anova.v (C13), part 5: the effect of the padding noise of cores_1 on the tensor entries, as an
   exact telescoping identity:  T_noise[idx] - T_0[idx] = noise * sum_k (chain with the noisy cores before k, the raw
   normal draws (zero on the pattern) at k, and the noise-free cores after k). *)
From Coq Require Import List Arith Lia PeanoNat ZArith Bool Ring.
From TV Require Import Num.Ops Lin.Tab Lin.BigSum Lin.Mat TT.Chain Model.ActOne Model.Anova
  Proofs.AnovaP Proofs.Anova2P Proofs.AnovaTopP.
Import ListNotations.

Lemma tab_split {A} d k (F : nat -> A) : (k < d)%nat ->
  tab d F = tab k F ++ F k :: tab (d - S k) (fun j => F (S k + j)%nat).
Proof.
  intros Hk. apply (list_eq_nth (F O)).
  - rewrite app_length. cbn [length]. rewrite !tab_length. lia.
  - rewrite tab_length. intros j Hj. rewrite nth_tab by auto.
    destruct (Nat.lt_ge_cases j k) as [H|H].
    + rewrite app_nth1 by (now rewrite tab_length). now rewrite nth_tab.
    + rewrite app_nth2 by (rewrite tab_length; lia). rewrite tab_length.
      destruct (j - k)%nat as [|m] eqn:E.
      * cbn [nth]. f_equal. lia.
      * cbn [nth]. rewrite nth_tab by lia. f_equal. lia.
Qed.
Lemma list_split3 {A} (dflt : A) l k : (k < length l)%nat -> l = firstn k l ++ nth k l dflt :: skipn (S k) l.
Proof.
  revert k; induction l as [|x l IH]; intros k Hk; [cbn in Hk; lia|].
  destruct k as [|k]; [reflexivity|]. cbn [firstn nth skipn app]. f_equal. apply IH. cbn in Hk. lia.
Qed.
Lemma nth_skipn' {A} (dflt : A) : forall l m j, nth j (skipn m l) dflt = nth (m + j) l dflt.
Proof.
  induction l as [|x l IH]; intros [|m] j; cbn [skipn nth Nat.add]; auto. now destruct j.
Qed.

Section Telescope.
Context {T : Type} (K : ops T).
Notation "0" := (o0 K). Notation "1" := (o1 K).
Infix "+" := (oadd K). Infix "*" := (omul K). Infix "-" := (osub K).
Hypothesis Rth : rng K.
Add Ring RrAnovaTel : Rth.

Lemma wfo_tab m : forall (F : nat -> core T) (rk : nat -> nat) idx, length idx = m ->
  (forall j, (j < m)%nat -> cr1 (F j) = rk j /\ cr2 (F j) = rk (S j) /\ (nth j idx O < cn (F j))%nat) ->
  wfo (rk O) (tab m F) idx (rk m).
Proof.
  induction m; intros F rk idx L H.
  - destruct idx; [|discriminate]. reflexivity.
  - destruct idx as [|i idx]; [discriminate|]. rewrite tab_cons. cbn [wfo].
    destruct (H O ltac:(lia)) as (A & B & C). cbn [nth] in C. repeat split; auto.
    rewrite B. apply (IHm (fun j => F (S j)) (fun j => rk (S j))); auto.
    intros j Hj. apply (H (S j)). lia.
Qed.

(* one step of a chain is additive in the core *)
Lemma vstep_core_lin v (G1 G2 G3 : core T) nu i : cr1 G1 = cr1 G2 -> cr1 G3 = cr1 G2 -> cr2 G1 = cr2 G2 -> cr2 G3 = cr2 G2 ->
  (forall a b, (a < cr1 G2)%nat -> (b < cr2 G2)%nat -> cget K G1 a i b = cget K G2 a i b + nu * cget K G3 a i b) ->
  vstep K v G1 i = vadd K (vstep K v G2 i) (vscale K nu (vstep K v G3 i)).
Proof.
  intros E1 E3 F1 F3 H. apply (list_eq_nth 0).
  - unfold vadd. now rewrite tab_length, !vstep_length.
  - rewrite vstep_length. intros b Hb. unfold vadd. rewrite vstep_length, nth_tab by lia.
    rewrite nth_vscale by auto. rewrite !nth_vstep by lia. rewrite E1, E3.
    rewrite <- (bsum_mul_l K Rth), <- (bsum_add K Rth). apply bsum_ext; intros a Ha. rewrite H by lia. ring.
Qed.

Variable d : nat.
Variables rk nn : nat -> nat.
Variables A B E : nat -> core T.
Variable nu : T.
Hypothesis HdA : forall j, (j < d)%nat -> cr1 (A j) = rk j /\ cr2 (A j) = rk (S j) /\ cn (A j) = nn j.
Hypothesis HdB : forall j, (j < d)%nat -> cr1 (B j) = rk j /\ cr2 (B j) = rk (S j) /\ cn (B j) = nn j.
Hypothesis HdE : forall j, (j < d)%nat -> cr1 (E j) = rk j /\ cr2 (E j) = rk (S j) /\ cn (E j) = nn j.
Hypothesis Hent : forall j a i b, (j < d)%nat -> (a < rk j)%nat -> (i < nn j)%nat -> (b < rk (S j))%nat ->
  cget K (A j) a i b = cget K (B j) a i b + nu * cget K (E j) a i b.
Hypothesis Hrk0 : rk O = 1%nat.
Hypothesis Hrkd : rk d = 1%nat.
Variable idx : list nat.
Hypothesis Lidx : length idx = d.
Hypothesis Hidx : forall j, (j < d)%nat -> (nth j idx O < nn j)%nat.

Definition hyb (k : nat) : list (core T) := tab d (fun j => if (j <? k)%nat then A j else B j).
Definition mix (k : nat) : list (core T) :=
  tab d (fun j => if (j <? k)%nat then A j else if (j =? k)%nat then E j else B j).

Lemma tel_step k : (k < d)%nat -> get K (hyb (S k)) idx = get K (hyb k) idx + nu * get K (mix k) idx.
Proof.
  intros Hk. unfold hyb, mix, get.
  rewrite !(tab_split d k) by auto. rewrite (list_split3 O idx k) by lia.
  set (i := nth k idx O). set (idx1 := firstn k idx). set (idx2 := skipn (S k) idx).
  assert (L1 : length idx1 = k) by (unfold idx1; rewrite firstn_length; lia).
  rewrite !run_app by (now rewrite tab_length). cbn [run].
  (* the three prefixes coincide, and so do the three suffixes *)
  assert (EP : forall (X Y : nat -> core T), (forall j, (j < k)%nat -> X j = Y j) -> tab k X = tab k Y)
    by (intros; now apply tab_ext).
  rewrite (EP (fun j => if (j <? S k)%nat then A j else B j) A),
          (EP (fun j => if (j <? k)%nat then A j else B j) A),
          (EP (fun j => if (j <? k)%nat then A j else if (j =? k)%nat then E j else B j) A);
    try (intros j Hj; destruct (Nat.ltb_spec j k); destruct (Nat.ltb_spec j (S k)); try lia; reflexivity).
  set (v := run K [1] (tab k A) idx1).
  assert (ES : forall (X : nat -> core T), (forall j, (k < j)%nat -> X j = B j) ->
               tab (d - S k) (fun j => X (S k + j)%nat) = tab (d - S k) (fun j => B (S k + j)%nat))
    by (intros X HX; apply tab_ext; intros j Hj; apply HX; lia).
  rewrite (ES (fun j => if (j <? S k)%nat then A j else B j)),
          (ES (fun j => if (j <? k)%nat then A j else B j)),
          (ES (fun j => if (j <? k)%nat then A j else if (j =? k)%nat then E j else B j));
    try (intros j Hj; destruct (Nat.ltb_spec j k); destruct (Nat.ltb_spec j (S k)); destruct (Nat.eqb_spec j k);
         try lia; reflexivity).
  set (suf := tab (d - S k) (fun j => B (S k + j)%nat)).
  rewrite Nat.ltb_irrefl, Nat.eqb_refl. destruct (Nat.ltb_spec k (S k)); [|lia].
  destruct (HdA k Hk) as (A1 & A2 & A3). destruct (HdB k Hk) as (B1 & B2 & B3). destruct (HdE k Hk) as (E1 & E2 & E3).
  assert (Hi : (i < nn k)%nat) by (apply Hidx; exact Hk).
  rewrite (vstep_core_lin v (A k) (B k) (E k) nu i) by (try congruence; intros a b Ha Hb; apply Hent; auto; congruence).
  assert (W : wfo (rk (S k)) suf idx2 1).
  { pose proof (wfo_tab (d - S k) (fun j => B (S k + j)%nat) (fun j => rk (S k + j)%nat) idx2) as W'.
    cbn beta in W'. replace (S k + 0)%nat with (S k) in W' by lia. replace (S k + (d - S k))%nat with d in W' by lia.
    rewrite Hrkd in W'. apply W'.
    - unfold idx2. rewrite skipn_length. lia.
    - intros j Hj. destruct (HdB (S k + j)%nat ltac:(lia)) as (X1 & X2 & X3).
      split; [exact X1|]. split; [rewrite X2; f_equal; lia|].
      unfold idx2. rewrite nth_skipn', X3. apply Hidx. lia. }
  rewrite (run_vadd K Rth _ _ suf idx2 (rk (S k)) 1 W) by (rewrite ?vstep_length; unfold vscale; rewrite ?map_length, ?vstep_length; congruence).
  rewrite run_scale by auto.
  unfold vadd. rewrite (run_length K _ suf idx2 (rk (S k)) 1 W) by (rewrite vstep_length; congruence).
  cbn [tab map seq nth]. rewrite nth_vscale by auto. reflexivity.
Qed.

Theorem telescope : get K (tab d A) idx = get K (tab d B) idx + nu * bsum K d (fun k => get K (mix k) idx).
Proof.
  assert (H : forall k, (k <= d)%nat -> get K (hyb k) idx = get K (hyb O) idx + nu * bsum K k (fun k => get K (mix k) idx)).
  { induction k; intros Hk; [cbn [bsum]; ring|]. rewrite tel_step by lia. rewrite IHk by lia. cbn [bsum]. ring. }
  specialize (H d (Nat.le_refl d)). unfold hyb in H.
  rewrite (tab_ext d _ A) in H by (intros j Hj; destruct (Nat.ltb_spec j d); [reflexivity|lia]).
  rewrite (tab_ext d (fun j => if (j <? 0)%nat then A j else B j) B) in H by (intros j Hj; reflexivity).
  exact H.
Qed.
End Telescope.

Section Noise1.
Context {T : Type} (K : ops T).
Notation "0" := (o0 K). Notation "1" := (o1 K).
Infix "+" := (oadd K). Infix "*" := (omul K). Infix "-" := (osub K).
Hypothesis Rth : rng K.
Add Ring RrAnovaNz : Rth.

(* the rank profile of cores_1 *)
Definition rk1 (d r j : nat) : nat := if (j =? 0)%nat then 1%nat else if (j <? d)%nat then r else 1%nat.
(* the raw normal draws of core number j, zero on the pattern positions *)
Definition draw_core (M : anova T) (r : nat) (g : nat -> nat -> nat -> nat -> T) (j : nat) : core T :=
  mkcore (rk1 (a_d M) r j) (length (nth j (a_f1 M) [])) (rk1 (a_d M) r (S j))
         (fun a i b => if in_pattern (a_d M) j a b then 0 else g (gcall (a_d M) j) a i b).
(* the chain with the noisy cores before position k, the raw draws at k and the noise-free cores after k *)
Definition mix_chain (M : anova T) r noise g (k : nat) : list (core T) :=
  tab (a_d M) (fun j => if (j <? k)%nat then core1_at K M r noise g j
                        else if (j =? k)%nat then draw_core M r g j else core1_at K M r 0 g j).

Lemma core1_at_dims (M : anova T) r noise g j : (2 <= a_d M)%nat -> (j < a_d M)%nat ->
  cr1 (core1_at K M r noise g j) = rk1 (a_d M) r j /\ cr2 (core1_at K M r noise g j) = rk1 (a_d M) r (S j) /\
  cn (core1_at K M r noise g j) = length (nth j (a_f1 M) []).
Proof.
  intros Hd Hj. unfold core1_at, rk1. destruct (Nat.eqb_spec j 0) as [->|Hj0].
  - cbn [Nat.eqb]. destruct (Nat.ltb_spec 1 (a_d M)); [|lia]. unfold core1_first, ncore. now rewrite cr1_mk, cr2_mk, cn_mk.
  - destruct (Nat.ltb_spec j (a_d M - 1)).
    + cbn [Nat.eqb]. destruct (Nat.ltb_spec (S j) (a_d M)); [|lia]. destruct (Nat.ltb_spec j (a_d M)); [|lia].
      unfold core1_mid, ncore. now rewrite cr1_mk, cr2_mk, cn_mk.
    + cbn [Nat.eqb]. destruct (Nat.ltb_spec (S j) (a_d M)); [lia|]. destruct (Nat.ltb_spec j (a_d M)); [|lia].
      unfold core1_last, ncore. rewrite cr1_mk, cr2_mk, cn_mk. replace (a_d M - 1)%nat with j by lia. auto.
Qed.

(* partial ("up to the requested noise"): exact first-order form of the perturbation.  The entry of the noisy tensor
   is the noise-free value f0 + sum_k f1[k][x_k] plus noise times the sum of the d mixed chains.  Missing: a numeric
   bound on that sum (it needs an ordered field and a bound on the draws) *)
Theorem cores_1_noise_telescope (M : anova T) r noise g idx : (2 <= r)%nat -> (2 <= a_d M)%nat -> length idx = a_d M ->
  (forall k, (k < a_d M)%nat -> (nth k idx O < length (nth k (a_f1 M) []))%nat) ->
  get K (cores_1 K M r noise g) idx
  = a_f0 M + bsum K (a_d M) (fun k => nth (nth k idx O) (nth k (a_f1 M) []) 0)
    + noise * bsum K (a_d M) (fun k => get K (mix_chain M r noise g k) idx).
Proof.
  intros Hr Hd L Hidx. rewrite <- (cores_1_get K Rth M r g idx Hr Hd L Hidx).
  rewrite !cores_1_tab by auto.
  apply (telescope K Rth (a_d M) (rk1 (a_d M) r) (fun j => length (nth j (a_f1 M) []))
           (core1_at K M r noise g) (core1_at K M r 0 g) (draw_core M r g) noise).
  - intros j Hj. now apply core1_at_dims.
  - intros j Hj. now apply core1_at_dims.
  - intros j Hj. unfold draw_core. rewrite cr1_mk, cr2_mk, cn_mk. auto.
  - intros j a i b Hj Ha Hi Hb.
    pose proof (cores_1_noise_entries K Rth M r noise g j a i b Hd Hj) as H. cbn zeta in H.
    rewrite !cores_1_tab, !nth_tab in H by auto. destruct H as (_ & _ & _ & H).
    destruct (core1_at_dims M r noise g j Hd Hj) as (D1 & D2 & D3).
    rewrite H by congruence. unfold draw_core. rewrite cget_mk by auto.
    destruct (in_pattern (a_d M) j a b); ring.
  - reflexivity.
  - unfold rk1. destruct (Nat.eqb_spec (a_d M) 0); [lia|]. now rewrite Nat.ltb_irrefl.
  - exact L.
  - exact Hidx.
Qed.
End Noise1.
