(* Lemmas about Model/SvdInc.v (C20), part 1: list plumbing, the block layout shared by
   sample_tt (generator) and svd_incomplete (consumer), and the proof that sample_tt produces it. *)
From Coq Require Import List Arith Lia PeanoNat ZArith Bool.
From TV Require Import Num.Ops Lin.Tab Lin.BigSum Lin.Mat TT.Chain Model.Sample Model.SvdInc.
Import ListNotations.

(* ---------- generic list lemmas ---------- *)
Lemma nth_firstn_lt {A} (l : list A) d : forall k t, t < k -> nth t (firstn k l) d = nth t l d.
Proof.
  induction l as [|x l IH]; intros k t H.
  - now rewrite firstn_nil.
  - destruct k; [lia|]. destruct t; simpl; auto. apply IH; lia.
Qed.
Lemma nth_skipn_add {A} (l : list A) d : forall a t, nth t (skipn a l) d = nth (a + t) l d.
Proof.
  induction l as [|x l IH]; intros a t.
  - rewrite skipn_nil. destruct a, t; reflexivity.
  - destruct a; simpl; auto.
Qed.
Lemma slice_length {A} a b (l : list A) : b <= length l -> length (slice a b l) = b - a.
Proof. intros. unfold slice. rewrite firstn_length, skipn_length. lia. Qed.
Lemma nth_slice {A} a b (l : list A) d t : t < b - a -> nth t (slice a b l) d = nth (a + t) l d.
Proof. intros. unfold slice. rewrite nth_firstn_lt by auto. apply nth_skipn_add. Qed.

Lemma Forall2_len {A B} (R : A -> B -> Prop) l1 l2 : Forall2 R l1 l2 -> length l1 = length l2.
Proof. induction 1; simpl; auto. Qed.
Lemma inb_length ns idx : inb ns idx -> length idx = length ns.
Proof. apply Forall2_len. Qed.
Lemma inb_app ns1 ns2 i1 i2 : inb ns1 i1 -> inb ns2 i2 -> inb (ns1 ++ ns2) (i1 ++ i2).
Proof. unfold inb. apply Forall2_app. Qed.
Lemma inb_nth ns idx k : inb ns idx -> k < length ns -> nth k idx 0 < nth k ns 0.
Proof.
  unfold inb. intros H. revert k. induction H; intros k Hk; simpl in *; [lia|].
  destruct k; auto. apply IHForall2. lia.
Qed.
Lemma inb_of_nth ns : forall idx, length idx = length ns -> (forall k, k < length ns -> nth k idx 0 < nth k ns 0) ->
  inb ns idx.
Proof.
  induction ns as [|n ns IH]; intros [|i idx] L H; simpl in *; try discriminate; constructor.
  - apply (H 0). lia.
  - apply IH; [lia|]. intros k Hk. apply (H (S k)). lia.
Qed.
(* a multi-index of the first k+1 modes is one of the first k modes followed by a value of mode k *)
Lemma firstn_S_nth (ns : list nat) k : k < length ns -> firstn (S k) ns = firstn k ns ++ [nth k ns 0].
Proof.
  revert k. induction ns as [|n ns IH]; intros k H; simpl in *; [lia|].
  destruct k; simpl; auto. f_equal. apply IH. lia.
Qed.
Lemma skipn_nth_S (ns : list nat) k : k < length ns -> skipn k ns = nth k ns 0 :: skipn (S k) ns.
Proof.
  revert k. induction ns as [|n ns IH]; intros k H; simpl in *; [lia|].
  destruct k; simpl; auto. apply IH. lia.
Qed.
Lemma inb_snoc_inv ns n p' : inb (ns ++ [n]) p' -> exists p v, p' = p ++ [v] /\ inb ns p /\ v < n.
Proof.
  intros H. apply Forall2_app_inv_r in H as (p & q & Hp & Hq & ->).
  inversion Hq as [|v n' q' l' Hv Hq']; subst. inversion Hq'; subst. exists p, v. auto.
Qed.
Lemma inb_cons_inv n ns s : inb (n :: ns) s -> exists v s', s = v :: s' /\ v < n /\ inb ns s'.
Proof. intros H. inversion H; subst. eexists _, _. repeat split; eauto. Qed.

(* flat_map with blocks of uniform length *)
Lemma flat_map_length_uniform {A B} (f : A -> list B) q (l : list A) :
  (forall x, In x l -> length (f x) = q) -> length (flat_map f l) = length l * q.
Proof.
  induction l as [|x l IH]; intros H; simpl; auto.
  rewrite app_length, H by (simpl; auto). rewrite IH; [reflexivity|]. intros y Hy. apply H. now right.
Qed.
Lemma nth_flat_map_uniform {A B} (f : A -> list B) q (l : list A) dx d :
  (forall x, In x l -> length (f x) = q) ->
  forall a b, a < length l -> b < q -> nth (a * q + b) (flat_map f l) d = nth b (f (nth a l dx)) d.
Proof.
  induction l as [|x l IH]; intros H a b Ha Hb; simpl in *; [lia|].
  destruct a.
  - simpl. rewrite app_nth1; auto. rewrite H; auto.
  - rewrite app_nth2 by (rewrite H by auto; simpl; lia). rewrite H by auto.
    replace (S a * q + b - q) with (a * q + b) by (simpl; lia). apply IH; auto. lia.
Qed.
Lemma flat_map_single {A B} (g : A -> B) (l : list A) : flat_map (fun a => [g a]) l = map g l.
Proof. induction l; simpl; congruence. Qed.

(* offsets = partial sums; addressing a block of a concatenation *)
Lemma nth_offsets_shift lens : forall acc k, k <= length lens -> nth k (offsets acc lens) 0 = acc + nth k (offsets 0 lens) 0.
Proof.
  induction lens as [|l lens IH]; intros acc k Hk; simpl in *.
  - destruct k; simpl; [lia|]. destruct k; lia.
  - destruct k; [lia|]. rewrite (IH (acc + l)), (IH (0 + l)) by lia. lia.
Qed.
Lemma offsets_length lens : forall acc, length (offsets acc lens) = S (length lens).
Proof. induction lens; intros; simpl; auto. Qed.
Lemma nth_concat_block {A} (d : A) (Bs : list (list A)) : forall k t, k < length Bs -> t < length (nth k Bs []) ->
  nth (nth k (offsets 0 (map (@length A) Bs)) 0 + t) (concat Bs) d = nth t (nth k Bs []) d.
Proof.
  induction Bs as [|b Bs IH]; intros k t Hk Ht; simpl in *; [lia|].
  destruct k.
  - simpl. now rewrite app_nth1.
  - rewrite nth_offsets_shift by (rewrite map_length; lia).
    rewrite app_nth2 by lia. replace (0 + length b + _ + t - length b) with (nth k (offsets 0 (map (@length A) Bs)) 0 + t) by lia.
    apply IH; auto. lia.
Qed.
Lemma nth_offsets_S {A} (Bs : list (list A)) : forall k, k < length Bs ->
  nth (S k) (offsets 0 (map (@length A) Bs)) 0 = nth k (offsets 0 (map (@length A) Bs)) 0 + length (nth k Bs []).
Proof.
  induction Bs as [|b Bs IH]; intros k Hk; simpl in *; [lia|].
  destruct k.
  - simpl. destruct Bs; simpl; lia.
  - rewrite (nth_offsets_shift _ (0 + length b) (S k)) by (rewrite map_length; lia).
    rewrite (nth_offsets_shift _ (0 + length b) k) by (rewrite map_length; lia).
    rewrite IH by lia. lia.
Qed.
Lemma nth_offsets_last {A} (Bs : list (list A)) :
  nth (length Bs) (offsets 0 (map (@length A) Bs)) 0 = length (concat Bs).
Proof.
  induction Bs as [|b Bs IH]; simpl; auto.
  rewrite (nth_offsets_shift _ (0 + length b)) by (rewrite map_length; lia). rewrite IH, app_length. lia.
Qed.

Lemma idx2_lt v i n P : v < n -> i < P -> v * P + i < n * P.
Proof. intros. nia. Qed.
Lemma idx3_lt v i j n P S : v < n -> i < P -> j < S -> (v * P + i) * S + j < n * (P * S).
Proof.
  intros Hv Hi Hj. pose proof (idx2_lt v i n P Hv Hi) as H1.
  pose proof (idx2_lt (v * P + i) j (n * P) S H1 Hj) as H2. now rewrite Nat.mul_assoc.
Qed.

(* ---------- the block layout ----------
   PS k = (sampled prefixes of modes 0..k-1, sampled suffixes of modes k+1..d-1) used for mode k.
   Block k of II lists  prefix ++ value :: suffix  in the order (value, prefix, suffix). *)
Definition dPS : list (list nat) * list (list nat) := ([], []).
Record layout (ns : list nat) (II : list (list nat)) (idx idm : list nat)
  (PS : list (list (list nat) * list (list nat))) : Prop := mk_layout {
  lay_PS : length PS = length ns;
  lay_idx_len : length idx = S (length ns);
  lay_idm_len : length idm = length ns;
  lay_cover : forall row, In row II -> exists k v i j,
      k < length ns /\ v < nth k ns 0 /\ i < length (fst (nth k PS dPS)) /\ j < length (snd (nth k PS dPS)) /\
      row = nth i (fst (nth k PS dPS)) [] ++ v :: nth j (snd (nth k PS dPS)) [];
  lay_block : forall k, k < length ns ->
      let P := fst (nth k PS dPS) in let Sf := snd (nth k PS dPS) in
      nth k idm 0 = length Sf /\
      nth (S k) idx 0 = nth k idx 0 + nth k ns 0 * (length P * length Sf) /\
      (forall v i j, v < nth k ns 0 -> i < length P -> j < length Sf ->
         nth (nth k idx 0 + (v * length P + i) * length Sf + j) II [] = nth i P [] ++ v :: nth j Sf []) /\
      0 < length P /\ 0 < length Sf /\
      (forall i, i < length P -> inb (firstn k ns) (nth i P [])) /\
      (forall j, j < length Sf -> inb (skipn (S k) ns) (nth j Sf []));
  lay_first : fst (nth 0 PS dPS) = [[]];
  lay_last : snd (nth (length ns - 1) PS dPS) = [[]]
}.

(* ---------- sample_tt produces the layout ---------- *)
Section Gen.
Variable chnr : nat -> nat -> nat -> list nat.
Variable shuf1 : nat -> list nat -> list nat.
(* contracts of the generator: choice(k, size, replace=False) returns indices below k, shuffle keeps the entries *)
Hypothesis chnr_lt : forall c k s, Forall (fun x => x < k) (chnr c k s).
Hypothesis shuf_keeps : forall c l (Q : nat -> Prop), Forall Q l -> Forall Q (shuf1 c l).

Lemma mapi_from_length {A B} (f : nat -> A -> B) l : forall c, length (mapi_from c f l) = length l.
Proof. induction l; intros; simpl; auto. Qed.
Lemma nth_mapi_from {A B} (f : nat -> A -> B) dA dB l : forall c k, k < length l ->
  nth k (mapi_from c f l) dB = f (c + k) (nth k l dA).
Proof.
  induction l as [|x l IH]; intros c k Hk; simpl in *; [lia|].
  destruct k; [now rewrite Nat.add_0_r|]. rewrite IH by lia. f_equal. lia.
Qed.
Lemma repeat_each_lt k t : Forall (fun x => x < k) (repeat_each k t).
Proof.
  unfold repeat_each. apply Forall_forall. intros x Hx. apply in_flat_map in Hx as (v & Hv & Hx).
  apply repeat_spec in Hx. subst. apply in_seq in Hv. lia.
Qed.
Lemma lhs_col_lt c k m : Forall (fun x => x < k) (lhs_col chnr shuf1 c k m).
Proof. unfold lhs_col. apply shuf_keeps. apply Forall_app. split; [apply repeat_each_lt | apply chnr_lt]. Qed.
Lemma nth_Forall_lt l k j : 0 < k -> Forall (fun x => x < k) l -> nth j l 0 < k.
Proof.
  intros Hk H. destruct (Nat.lt_ge_cases j (length l)) as [Hj|Hj].
  - rewrite Forall_forall in H. apply H. now apply nth_In.
  - now rewrite nth_overflow.
Qed.

Lemma sample_lhs_length base ns m : length (sample_lhs chnr shuf1 base ns m) = m.
Proof. unfold sample_lhs, transpose. apply tab_length. Qed.
Lemma sample_lhs_inb base ns m i : Forall (fun n => 0 < n) ns -> i < m ->
  inb ns (nth i (sample_lhs chnr shuf1 base ns m) []).
Proof.
  intros Hpos Hi. unfold sample_lhs, transpose. rewrite nth_tab by auto. unfold lhs_cols.
  apply inb_of_nth.
  - now rewrite map_length, mapi_from_length.
  - intros k Hk.
    rewrite nth_indep with (d' := nth i [] 0) by (now rewrite map_length, mapi_from_length).
    rewrite (map_nth (fun col => nth i col 0)).
    rewrite (nth_mapi_from _ 0 []) by auto.
    apply nth_Forall_lt; [|apply lhs_col_lt].
    rewrite Forall_forall in Hpos. apply Hpos. now apply nth_In.
Qed.

(* the prefixes / suffixes of mode k, given the call-number base of that mode *)
Definition PS_of (base : nat) (sh1 sh2 : list nat) (r : nat) : list (list nat) * list (list nat) :=
  match sh2, sh1 with
  | [], _ => (sample_lhs chnr shuf1 base sh1 r, [[]])
  | _, [] => ([[]], sample_lhs chnr shuf1 base sh2 r)
  | _, _ => (sample_lhs chnr shuf1 base sh1 r, sample_lhs chnr shuf1 (base + length sh1) sh2 r)
  end.
Definition gen_block (P Sf : list (list nat)) (rng : nat) : list (list nat) :=
  flat_map (fun v => flat_map (fun a => map (fun c => a ++ v :: c) Sf) P) (seq 0 rng).
Lemma one_mode_gen base sh1 sh2 rng r :
  one_mode chnr shuf1 base sh1 sh2 rng r =
  (gen_block (fst (PS_of base sh1 sh2 r)) (snd (PS_of base sh1 sh2 r)) rng,
   length (fst (PS_of base sh1 sh2 r)), length (snd (PS_of base sh1 sh2 r))).
Proof.
  unfold one_mode, PS_of, gen_block. destruct sh2 as [|n2 sh2]; [|destruct sh1 as [|n1 sh1]]; cbn [fst snd length].
  - erewrite flat_map_ext; [reflexivity|]. intros v. cbn [map]. now rewrite flat_map_single.
  - erewrite flat_map_ext; [reflexivity|]. intros v. cbn [flat_map app]. now rewrite app_nil_r.
  - reflexivity.
Qed.
Lemma gen_block_length P Sf rng : length (gen_block P Sf rng) = rng * (length P * length Sf).
Proof.
  unfold gen_block. rewrite (flat_map_length_uniform _ (length P * length Sf)).
  - now rewrite seq_length.
  - intros v _. apply flat_map_length_uniform. intros a _. apply map_length.
Qed.
Lemma nth_gen_block P Sf rng v i j : v < rng -> i < length P -> j < length Sf ->
  nth ((v * length P + i) * length Sf + j) (gen_block P Sf rng) [] = nth i P [] ++ v :: nth j Sf [].
Proof.
  intros Hv Hi Hj. unfold gen_block.
  replace ((v * length P + i) * length Sf + j) with (v * (length P * length Sf) + (i * length Sf + j)) by lia.
  rewrite (nth_flat_map_uniform _ (length P * length Sf) _ 0).
  - rewrite seq_nth by auto. cbn [Nat.add].
    rewrite (nth_flat_map_uniform _ (length Sf) _ []); auto.
    + rewrite nth_indep with (d' := (fun c => nth i P [] ++ v :: c) []) by (now rewrite map_length).
      now rewrite (map_nth (fun c => nth i P [] ++ v :: c)).
    + intros a _. apply map_length.
  - intros w _. apply flat_map_length_uniform. intros a _. apply map_length.
  - now rewrite seq_length.
  - nia.
Qed.
Lemma in_gen_block P Sf rng row : In row (gen_block P Sf rng) ->
  exists v i j, v < rng /\ i < length P /\ j < length Sf /\ row = nth i P [] ++ v :: nth j Sf [].
Proof.
  unfold gen_block. intros H. apply in_flat_map in H as (v & Hv & H). apply in_flat_map in H as (a & Ha & H).
  apply in_map_iff in H as (c & <- & Hc). apply in_seq in Hv.
  apply (In_nth _ _ []) in Ha as (i & Hi & <-). apply (In_nth _ _ []) in Hc as (j & Hj & <-).
  exists v, i, j. repeat split; auto; lia.
Qed.


Fixpoint tt_PS (base : nat) (pre post : list nat) (r : nat) : list (list (list nat) * list (list nat)) :=
  match post with
  | [] => []
  | k :: post' => PS_of base pre post' r :: tt_PS (base + length pre + length post') (pre ++ [k]) post' r
  end.
Lemma tt_PS_length r post : forall base pre, length (tt_PS base pre post r) = length post.
Proof. induction post; intros; simpl; auto. Qed.
Lemma tt_modes_length r post : forall base pre, length (tt_modes chnr shuf1 base pre post r) = length post.
Proof. induction post; intros; simpl; auto. Qed.
Lemma nth_tt_PS r post : forall base pre k, k < length post ->
  exists b, nth k (tt_PS base pre post r) dPS = PS_of b (pre ++ firstn k post) (skipn (S k) post) r.
Proof.
  induction post as [|n post IH]; intros base pre k Hk; simpl in *; [lia|].
  destruct k.
  - exists base. now rewrite app_nil_r.
  - destruct (IH (base + length pre + length post) (pre ++ [n]) k) as (b & Hb); [lia|].
    exists b. rewrite Hb. now rewrite <- app_assoc.
Qed.
Lemma nth_tt_modes r post : forall base pre k, k < length post ->
  nth k (tt_modes chnr shuf1 base pre post r) ([], 0, 0) =
  (gen_block (fst (nth k (tt_PS base pre post r) dPS)) (snd (nth k (tt_PS base pre post r) dPS)) (nth k post 0),
   length (fst (nth k (tt_PS base pre post r) dPS)), length (snd (nth k (tt_PS base pre post r) dPS))).
Proof.
  induction post as [|n post IH]; intros base pre k Hk; simpl in *; [lia|].
  destruct k; [apply one_mode_gen|]. apply IH. lia.
Qed.

Lemma Forall_firstn' {A} (Q : A -> Prop) (l : list A) : forall k, Forall Q l -> Forall Q (firstn k l).
Proof. induction l; intros [|k] H; simpl; auto. inversion H; subst. constructor; auto. Qed.
Lemma Forall_skipn' {A} (Q : A -> Prop) (l : list A) : forall k, Forall Q l -> Forall Q (skipn k l).
Proof. induction l; intros [|k] H; simpl; auto. inversion H; subst. auto. Qed.

Lemma PS_of_props b sh1 sh2 r : Forall (fun n => 0 < n) sh1 -> Forall (fun n => 0 < n) sh2 -> 0 < r ->
  0 < length (fst (PS_of b sh1 sh2 r)) /\ 0 < length (snd (PS_of b sh1 sh2 r)) /\
  (forall i, i < length (fst (PS_of b sh1 sh2 r)) -> inb sh1 (nth i (fst (PS_of b sh1 sh2 r)) [])) /\
  (forall j, j < length (snd (PS_of b sh1 sh2 r)) -> inb sh2 (nth j (snd (PS_of b sh1 sh2 r)) [])).
Proof.
  intros H1 H2 Hr. unfold PS_of.
  destruct sh2 as [|n2 sh2]; [|destruct sh1 as [|n1 sh1]]; cbn [fst snd]; rewrite ?sample_lhs_length; cbn [length];
    repeat split; try lia; intros i Hi; try (apply sample_lhs_inb; auto);
    try (assert (i = 0) as -> by lia; cbn [nth]; constructor).
Qed.

Theorem sample_tt_layout ns m : 2 <= length ns -> Forall (fun n => 0 < n) ns -> 0 < m ->
  layout ns (fst (fst (sample_tt chnr shuf1 ns m))) (snd (fst (sample_tt chnr shuf1 ns m)))
            (snd (sample_tt chnr shuf1 ns m)) (tt_PS 0 [] ns m).
Proof.
  intros Hd Hpos Hm. unfold sample_tt. cbn [fst snd].
  set (B := tt_modes chnr shuf1 0 [] ns m).
  set (Bs := map (fun b => fst (fst b)) B).
  assert (HB : length B = length ns) by apply tt_modes_length.
  assert (HBs : length Bs = length ns) by (unfold Bs; now rewrite map_length).
  assert (Eidx : map (fun b : list (list nat) * nat * nat => length (fst (fst b))) B = map (@length _) Bs)
    by (unfold Bs; now rewrite map_map).
  rewrite Eidx.
  assert (Hblk : forall k, k < length ns -> nth k Bs [] =
            gen_block (fst (nth k (tt_PS 0 [] ns m) dPS)) (snd (nth k (tt_PS 0 [] ns m) dPS)) (nth k ns 0)).
  { intros k Hk. unfold Bs.
    change (@nil (list nat)) with (fst (fst (@nil (list nat), 0, 0))).
    rewrite (map_nth (fun b : list (list nat) * nat * nat => fst (fst b))). unfold B. now rewrite nth_tt_modes. }
  assert (Hps : forall k, k < length ns ->
     0 < length (fst (nth k (tt_PS 0 [] ns m) dPS)) /\ 0 < length (snd (nth k (tt_PS 0 [] ns m) dPS)) /\
     (forall i, i < length (fst (nth k (tt_PS 0 [] ns m) dPS)) -> inb (firstn k ns) (nth i (fst (nth k (tt_PS 0 [] ns m) dPS)) [])) /\
     (forall j, j < length (snd (nth k (tt_PS 0 [] ns m) dPS)) -> inb (skipn (S k) ns) (nth j (snd (nth k (tt_PS 0 [] ns m) dPS)) []))).
  { intros k Hk. destruct (nth_tt_PS m ns 0 [] k Hk) as (b & ->). cbn [app].
    apply PS_of_props; auto using Forall_firstn', Forall_skipn'. }
  constructor.
  - apply tt_PS_length.
  - rewrite offsets_length, map_length. now rewrite HBs.
  - rewrite map_length. exact HB.
  - intros row Hrow. apply in_concat in Hrow as (blk & Hblk' & Hrow).
    apply (In_nth _ _ []) in Hblk' as (k & Hk & <-). rewrite HBs in Hk. rewrite Hblk in Hrow by auto.
    apply in_gen_block in Hrow as (v & i & j & Hv & Hi & Hj & ->). exists k, v, i, j. auto.
  - intros k Hk. cbv zeta. destruct (Hps k Hk) as (p1 & p2 & p3 & p4).
    repeat split; auto.
    + change 0 with (snd (@nil (list nat), 0, 0)) at 1.
      rewrite (map_nth (@snd (list (list nat) * nat) nat)). unfold B. now rewrite nth_tt_modes.
    + rewrite nth_offsets_S by lia. now rewrite Hblk, gen_block_length.
    + intros v i j Hv Hi Hj. rewrite <- Nat.add_assoc. rewrite nth_concat_block.
      * rewrite Hblk by auto. now apply nth_gen_block.
      * lia.
      * rewrite Hblk, gen_block_length by auto. now apply idx3_lt.
  - destruct ns as [|n0 [|n1 ns']]; simpl in Hd; try lia. reflexivity.
  - destruct (nth_tt_PS m ns 0 [] (length ns - 1)) as (b & ->); [lia|].
    replace (S (length ns - 1)) with (length ns) by lia. rewrite skipn_all. unfold PS_of. reflexivity.
Qed.
End Gen.
