(* Lemmas for C03, part 7: minimality of the size chosen by the rank rule (when the cap does not bind). *)
From Coq Require Import List Arith Lia PeanoNat ZArith Bool Ring Reals Lra.
From TV Require Import Num.Ops Lin.Tab Lin.BigSum Lin.Mat Model.Svd Proofs.SvdP Proofs.SvdP2 Proofs.SvdP4.
Import ListNotations.

Section Last.
Context {T : Type} (K : ops T).
Notation "0" := (o0 K).
Lemma last_le_ge cs e2 pos best : best <= pos -> best <= last_le K cs e2 pos best.
Proof. intros H. destruct (last_le_spec K cs e2 pos best) as [E | (j & _ & E & _)]; rewrite E; lia. Qed.
(* no entry after the reported position is within budget *)
Lemma last_le_after cs e2 : forall pos best j, best <= pos -> j < length cs ->
  last_le K cs e2 pos best <= pos + j -> oleb K (nth j cs 0) e2 = false.
Proof.
  induction cs as [|x cs IH]; intros pos best j Hb Hj Hr; cbn [length] in Hj; [lia|].
  cbn [last_le] in Hr. destruct j as [|j]; cbn [nth].
  - destruct (oleb K x e2) eqn:Ex; [|reflexivity].
    pose proof (last_le_ge cs e2 (S pos) (S pos) (le_n _)). lia.
  - apply (IH (S pos) (if oleb K x e2 then S pos else best)); [destruct (oleb K x e2); lia | lia | lia].
Qed.
End Last.

Local Open Scope R_scope.
(* tails of non-negative weights decrease with the size *)
Lemma tailx_mono x q1 q2 : Forall (fun v => 0 <= v) x -> (q1 <= q2 <= length x)%nat -> tailx OR x q2 <= tailx OR x q1.
Proof.
  intros Hx Hq. unfold tailx.
  replace (length x - q1)%nat with ((q2 - q1) + (length x - q2))%nat by lia.
  rewrite (bsum_split OR OR_rng).
  rewrite (bsum_ext OR (length x - q2) (fun i => nth (q1 + (q2 - q1 + i)) x (o0 OR)) (fun k => nth (q2 + k) x (o0 OR)))
    by (intros; f_equal; lia).
  assert (P : 0 <= bsum OR (q2 - q1) (fun k => nth (q1 + k) x (o0 OR))).
  { apply bsumR_nonneg. intros i Hi. rewrite Forall_forall in Hx. apply Hx. apply nth_In. lia. }
  cbn [OR oadd] in *. lra.
Qed.

(* rank_select_minimal: the chosen size q is the SMALLEST one meeting the budget — every smaller size q' >= 0
   discards more than e2 — provided the cap does not bind and q > 1 (q = 1 is the floor max(1, .)) *)
Theorem rank_select_minimal x e2 rcap q' : Forall (fun v => 0 <= v) x -> cap_free_at x e2 rcap ->
  (q' < rank_select OR x e2 rcap)%nat -> (1 < rank_select OR x e2 rcap)%nat -> e2 < tailx OR x q'.
Proof.
  intros Hx Hc Hq' H1. unfold cap_free_at in Hc. set (d := dlen OR x e2) in *.
  assert (E : rank_select OR x e2 rcap = (length x - d)%nat) by (unfold rank_select in *; fold d in H1 |- *; lia).
  rewrite E in *.
  assert (Hd : (d < length x)%nat) by lia.
  pose proof (last_le_after OR (cumsum OR (rev x)) e2 O O d (le_n _)) as A.
  unfold cumsum in A. rewrite cumsum_from_length, rev_length in A. specialize (A Hd).
  change (last_le OR (cumsum_from OR (o0 OR) (rev x)) e2 0 0) with d in A. specialize (A (le_n _)).
  rewrite (cumsum_from_nth OR OR_rng) in A by (rewrite rev_length; exact Hd).
  rewrite (cumsum_rev_tail OR OR_rng) in A by exact Hd.
  apply Rleb_false in A. cbn [OR oadd o0] in A. rewrite Rplus_0_l in A.
  refine (Rlt_le_trans _ _ _ A _). apply tailx_mono; auto. lia.
Qed.
