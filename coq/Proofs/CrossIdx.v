(* List utilities and the index-set lemmas of TT-cross: every batch / every new index set is made of
   pairwise distinct in-bounds rows of the right width. *)
From Coq Require Import List Arith Lia PeanoNat Bool.
From TV Require Import Num.Ops Lin.Tab Model.Cross.
Import ListNotations.

(* ---------- upd ---------- *)
Lemma upd_length {A} (l : list A) i x : length (upd l i x) = length l.
Proof. revert i; induction l; intros [|i]; simpl; auto. Qed.
Lemma nth_upd_eq {A} (l : list A) i x d : i < length l -> nth i (upd l i x) d = x.
Proof. revert i; induction l; intros [|i] H; simpl in *; try lia; auto. apply IHl; lia. Qed.
Lemma nth_upd_neq {A} (l : list A) i j x d : i <> j -> nth j (upd l i x) d = nth j l d.
Proof. revert i j; induction l; intros [|i] [|j] H; simpl; auto; try lia. Qed.

Lemma row_eqb_spec a b : reflect (a = b) (row_eqb a b).
Proof.
  revert b; induction a as [|x a IH]; intros [|y b]; simpl; try (constructor; congruence).
  destruct (Nat.eqb_spec x y); simpl.
  - destruct (IH b); constructor; congruence.
  - constructor; congruence.
Qed.

Lemma NoDup_map_inj_in {A B} (g : A -> B) l :
  NoDup l -> (forall x y, In x l -> In y l -> g x = g y -> x = y) -> NoDup (map g l).
Proof.
  induction 1 as [|x l Hx Hl IH]; intros Hg; simpl; constructor.
  - intros Hin. apply in_map_iff in Hin as (y & E & Hy). apply Hx.
    rewrite (Hg x y); simpl; auto.
  - apply IH. intros; apply Hg; simpl; auto.
Qed.
Lemma NoDup_tab {A} n (g : nat -> A) :
  (forall i j, i < n -> j < n -> g i = g j -> i = j) -> NoDup (tab n g).
Proof.
  intros H. unfold tab. apply NoDup_map_inj_in; [apply seq_NoDup|].
  intros x y Hx Hy. apply in_seq in Hx, Hy. apply H; lia.
Qed.
Lemma app_inj_len {A} (a a' b b' : list A) : length a = length a' -> a ++ b = a' ++ b' -> a = a' /\ b = b'.
Proof.
  revert a'; induction a as [|x a IH]; intros [|y a'] L E; simpl in *; try discriminate; auto.
  injection E as -> E. destruct (IH a') as [-> ->]; auto.
Qed.
Lemma Forall2_lt_length r bn : Forall2 lt r bn -> length r = length bn.
Proof. induction 1; simpl; auto. Qed.

(* ---------- well-formed index sets ---------- *)
Definition rows_ok (bn : list nat) (l : rows) : Prop :=
  l <> [] /\ NoDup l /\ Forall (fun r => Forall2 lt r bn) l.
Definition orows_ok (bn : list nat) (o : option rows) : Prop :=
  match o with None => bn = [] | Some l => rows_ok bn l end.

Lemma orows_rk_pos bn o : orows_ok bn o -> 1 <= rk o.
Proof. destruct o as [l|]; simpl; auto. intros (H & _). destruct l; simpl; [congruence|lia]. Qed.
Lemma orow_in bn o a : orows_ok bn o -> a < rk o -> Forall2 lt (orow o a) bn.
Proof.
  destruct o as [l|]; simpl.
  - intros (_ & _ & H) Ha. rewrite Forall_forall in H. apply H. apply nth_In; auto.
  - intros -> _. constructor.
Qed.
Lemma orow_inj bn o a a' : orows_ok bn o -> a < rk o -> a' < rk o -> orow o a = orow o a' -> a = a'.
Proof.
  destruct o as [l|]; simpl.
  - intros (_ & H & _) Ha Ha' E. rewrite NoDup_nth in H. apply (H a a'); eauto.
  - lia.
Qed.

Lemma divmod_eq r t t' : 0 < r -> t mod r = t' mod r -> t / r = t' / r -> t = t'.
Proof. intros Hr A B. rewrite (Nat.div_mod t r), (Nat.div_mod t' r) by lia. rewrite A, B. reflexivity. Qed.

(* new index set of a left-to-right _iter *)
Lemma inew_ltr_ok bn I r1 n r2 ind :
  orows_ok bn I -> rk I = r1 -> ind <> [] -> NoDup ind -> Forall (fun t => t < r1 * n) ind ->
  rows_ok (bn ++ [n]) (map (inew true r1 n r2 I) ind).
Proof.
  intros HI Hr Hne Hnd Hb. pose proof (orows_rk_pos _ _ HI) as Hp. rewrite Forall_forall in Hb.
  assert (Hm : forall t, t mod r1 < rk I) by (intros; rewrite Hr; apply Nat.mod_upper_bound; lia).
  repeat split.
  - destruct ind; simpl; congruence.
  - apply NoDup_map_inj_in; auto. intros t t' Ht Ht' E. unfold inew in E. rewrite Hr in E.
    apply app_inj_len in E as [E1 E2].
    2:{ rewrite (Forall2_lt_length _ _ (orow_in _ _ _ HI (Hm t))),
                (Forall2_lt_length _ _ (orow_in _ _ _ HI (Hm t'))). reflexivity. }
    injection E2 as E2. apply (divmod_eq r1); [lia| |auto].
    eapply orow_inj; eauto.
  - apply Forall_forall. intros r Hin. apply in_map_iff in Hin as (t & <- & Ht). unfold inew. rewrite Hr.
    apply Forall2_app; [apply orow_in; auto|]. constructor; [|constructor].
    apply Nat.div_lt_upper_bound; [lia|]. apply Hb; auto.
Qed.
(* new index set of a right-to-left _iter *)
Lemma inew_rtl_ok bn I r1 n r2 ind :
  orows_ok bn I -> rk I = r2 -> 1 <= n -> ind <> [] -> NoDup ind -> Forall (fun t => t < n * r2) ind ->
  rows_ok ([n] ++ bn) (map (inew false r1 n r2 I) ind).
Proof.
  intros HI Hr Hn Hne Hnd Hb. rewrite Forall_forall in Hb.
  assert (Hm : forall t, In t ind -> t / n < rk I).
  { intros t Ht. rewrite Hr. apply Nat.div_lt_upper_bound; [lia|]. apply Hb; auto. }
  repeat split.
  - destruct ind; simpl; congruence.
  - apply NoDup_map_inj_in; auto. intros t t' Ht Ht' E. unfold inew in E. simpl in E.
    injection E as E1 E2. apply (divmod_eq n); [lia|auto|]. eapply orow_inj; eauto.
  - apply Forall_forall. intros r Hin. apply in_map_iff in Hin as (t & <- & Ht). unfold inew. simpl.
    constructor; [apply Nat.mod_upper_bound; lia|]. apply orow_in; auto.
Qed.

(* the batch of _func *)
Lemma batch_ok b1 b2 n Ir Ic :
  orows_ok b1 Ir -> orows_ok b2 Ic -> 1 <= n -> rows_ok (b1 ++ [n] ++ b2) (batch n Ir Ic).
Proof.
  intros H1 H2 Hn. pose proof (orows_rk_pos _ _ H1) as P1. pose proof (orows_rk_pos _ _ H2) as P2.
  unfold batch. set (r1 := rk Ir) in *. set (r2 := rk Ic) in *.
  assert (Ha : forall t, t mod r1 < r1) by (intros; apply Nat.mod_upper_bound; lia).
  assert (Hc : forall t, t < r1 * n * r2 -> t / (r1 * n) < r2).
  { intros t Ht. apply Nat.div_lt_upper_bound; [nia|lia]. }
  repeat split.
  - intros E. apply (f_equal (@length _)) in E. rewrite tab_length in E. simpl in E. nia.
  - apply NoDup_tab. intros t t' Ht Ht' E.
    apply app_inj_len in E as [E1 E2].
    2:{ rewrite (Forall2_lt_length _ _ (orow_in _ _ _ H1 (Ha t))),
                (Forall2_lt_length _ _ (orow_in _ _ _ H1 (Ha t'))). reflexivity. }
    simpl in E2. injection E2 as E2 E3.
    apply (orow_inj _ _ _ _ H1 (Ha t) (Ha t')) in E1.
    apply (orow_inj _ _ _ _ H2 (Hc t Ht) (Hc t' Ht')) in E3.
    apply (divmod_eq r1); [lia|auto|]. apply (divmod_eq n); [lia|auto|].
    rewrite !Nat.div_div by lia. exact E3.
  - apply Forall_forall. intros r Hin. apply in_tab in Hin as (t & Ht & ->).
    apply Forall2_app; [apply orow_in; auto|]. simpl. constructor; [apply Nat.mod_upper_bound; lia|].
    apply orow_in; auto.
Qed.
Lemma batch_length n Ir Ic : length (batch n Ir Ic) = rk Ir * n * rk Ic.
Proof. unfold batch. apply tab_length. Qed.

Lemma firstn_S_nth {A} (l : list A) i d : i < length l -> firstn (S i) l = firstn i l ++ [nth i l d].
Proof.
  revert i; induction l as [|x l IH]; intros [|i] H; simpl in *; try lia; auto.
  f_equal. apply IH; lia.
Qed.
Lemma skipn_nth_S {A} (l : list A) i d : i < length l -> skipn i l = nth i l d :: skipn (S i) l.
Proof.
  revert i; induction l as [|x l IH]; intros [|i] H; simpl in *; try lia; auto.
  apply IH; lia.
Qed.
