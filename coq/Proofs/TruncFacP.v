(* "Nothing is cut => exact factorisation" (for C17, Proofs/QttP2.v: fac_ok):
   matrix_svd / matrix_skeleton(give_to='l') return (U, V) with A = U V exactly whenever the residual of the step
   contract vanishes -- in particular for e = 0 when the cap does not bind (the discarded tail is <= e^2 = 0, and a sum
   of squares that vanishes has zero terms).  At the reals, for every eigh / argsort / svd routine meeting the contracts
   of Proofs/TruncP5.v / TruncP4.v.

   Shape of the hypothesis of QttP2.tt_to_qtt_denote: [forall k c A, fac_ok K A (fst (msvd2 k c A)) (snd (msvd2 k c A))],
   for EVERY matrix A.  The bare model function cannot meet it for every A: an empty matrix (0 rows or 0 columns) gets
   rank max(1, .) = 1 with inconsistent inner dimensions, and a fixed cap binds for matrices larger than the cap.
   So two forms are given: the per-call form [matrix_svd_exact] (non-empty A, min(m, n) < cap), and a total guarded
   routine [msvd_total] (the model function where the guard holds, the trivial factorisation A = A * Id elsewhere) which
   meets the for-every-A hypothesis and therefore plugs into tt_to_qtt_denote as it stands ([tt_to_qtt_denote_svd]). *)
From Coq Require Import List Arith Lia Ring PeanoNat ZArith Bool Reals Lra.
From TV Require Import Num.Ops Lin.Tab Lin.BigSum Lin.Mat TT.Chain Model.Transformation Model.Svd Model.Qtt Model.GridInd
  Proofs.TransformationP Proofs.OrthP Proofs.StabRP Proofs.TruncP Proofs.FrobP Proofs.TruncP2 Proofs.TruncP4
  Proofs.TruncP5 Proofs.QttP2.
Import ListNotations.
Local Open Scope R_scope.

Lemma bsumR_eq0 n (f : nat -> R) : (forall i, (i < n)%nat -> 0 <= f i) -> bsum OR n f = 0 ->
  forall i, (i < n)%nat -> f i = 0.
Proof.
  induction n as [|n IH]; intros H E i Hi; [lia|]. cbn [bsum] in E. change (bsum OR n f + f n = 0) in E.
  assert (0 <= bsum OR n f) by (apply bsumR_nonneg'; intros; apply H; lia).
  assert (0 <= f n) by (apply H; lia).
  destruct (Nat.eq_dec i n) as [->|Hne]; [lra|]. apply IH; [intros; apply H; lia|lra|lia].
Qed.

(* a vanishing residual is an exact factorisation *)
Lemma res2_zero_fac_ok (M U V : mat R) : fact_ok OR M U V -> res2 OR M U V = 0 -> fac_ok OR M U V.
Proof.
  intros [ru cv fq uv ort] Z. unfold fac_ok. repeat split; auto.
  intros i j Hi Hj. unfold res2 in Z.
  pose proof (bsumR_eq0 _ _ (fun a _ => bsumR_nonneg' _ _ (fun t _ => sqR_nonneg _)) Z i Hi) as Zi. cbv beta in Zi.
  pose proof (bsumR_eq0 _ _ (fun t _ => sqR_nonneg _) Zi j Hj) as Zij. cbv beta in Zij.
  unfold sq in Zij.
  change ((mget OR M i j - bsum OR (mc U) (fun c => omul OR (mget OR U i c) (mget OR V c j))) *
          (mget OR M i j - bsum OR (mc U) (fun c => omul OR (mget OR U i c) (mget OR V c j))) = 0) in Zij.
  assert (mget OR M i j - bsum OR (mc U) (fun c => omul OR (mget OR U i c) (mget OR V c j)) = 0) by nra. lra.
Qed.

(* any factorisation routine meeting the step contract with budget 0 is exact on the matrices whose size is below the cap *)
Lemma contract_exact fact rcap : fact_contract fact 0 rcap -> forall k (A : mat R),
  (1 <= mr A)%nat -> (1 <= mc A)%nat -> (Z.of_nat (Nat.min (mr A) (mc A)) < rcap)%Z ->
  fac_ok OR A (fst (fact k A)) (snd (fact k A)).
Proof.
  intros HC k A H1 H2 Hc. destruct (HC k A H1 H2) as (FO & Q1 & Q2 & Q2' & Q3 & Q4).
  apply res2_zero_fac_ok; [exact FO|]. pose proof (res2_nonneg A (fst (fact k A)) (snd (fact k A))).
  assert (res2 OR A (fst (fact k A)) (snd (fact k A)) <= 0) by (apply Q4; lia). lra.
Qed.

Section Exact.
Variable svdo : nat -> mat R -> mat R * list R * mat R.
Variable eigh : nat -> mat R -> list R * mat R.
Variable argsort : nat -> list R -> list nat.
Hypothesis svd_spec : forall k A, svd_ok OR A (fst (fst (svdo k A))) (snd (fst (svdo k A))) (snd (svdo k A)).
Hypothesis eigh_spec : forall k C, msym C -> eigh_ok C (fst (eigh k C)) (snd (eigh k C)).
Hypothesis argsort_spec : forall k l, argsort_ok l (argsort k l).

(* per-call form: e = 0, non-empty A, cap above min(m, n) *)
Theorem matrix_svd_exact k (A : mat R) rcap : (1 <= mr A)%nat -> (1 <= mc A)%nat ->
  (Z.of_nat (Nat.min (mr A) (mc A)) < rcap)%Z ->
  fac_ok OR A (fst (matrix_svd OR eigh argsort k A 0 rcap)) (snd (matrix_svd OR eigh argsort k A 0 rcap)).
Proof.
  intros H1 H2 Hc. refine (contract_exact (fun k M => matrix_svd OR eigh argsort k M 0 rcap) rcap _ k A H1 H2 Hc).
  pose proof (svd_contract eigh argsort eigh_spec argsort_spec rcap 0 (Rle_refl 0)) as X. rewrite Rmult_0_l in X. exact X.
Qed.
Theorem matrix_skeleton_exact k (A : mat R) rcap : (1 <= mr A)%nat -> (1 <= mc A)%nat ->
  (Z.of_nat (Nat.min (mr A) (mc A)) < rcap)%Z ->
  fac_ok OR A (fst (matrix_skeleton OR svdo k A 0 rcap false GiveL)) (snd (matrix_skeleton OR svdo k A 0 rcap false GiveL)).
Proof.
  intros H1 H2 Hc. refine (contract_exact (fun k M => matrix_skeleton OR svdo k M 0 rcap false GiveL) rcap _ k A H1 H2 Hc).
  pose proof (skeleton_contract svdo svd_spec rcap 0 (Rle_refl 0)) as X. rewrite Rmult_0_l in X. exact X.
Qed.
(* any threshold e >= 0: exact as soon as the residual vanishes (e.g. rank A <= the retained size) *)
Theorem matrix_svd_exact_res k (A : mat R) e rcap : 0 <= e -> (1 <= mr A)%nat -> (1 <= mc A)%nat ->
  res2 OR A (fst (matrix_svd OR eigh argsort k A e rcap)) (snd (matrix_svd OR eigh argsort k A e rcap)) = 0 ->
  fac_ok OR A (fst (matrix_svd OR eigh argsort k A e rcap)) (snd (matrix_svd OR eigh argsort k A e rcap)).
Proof.
  intros He H1 H2 Z. apply res2_zero_fac_ok; [|exact Z].
  destruct (svd_contract eigh argsort eigh_spec argsort_spec rcap e He k A H1 H2) as (FO & _). exact FO.
Qed.
End Exact.

(* ---------- the total guarded routine: meets the for-every-A hypothesis of tt_to_qtt_denote ---------- *)
Definition msvd_guard (rcap : Z) (A : mat R) : bool :=
  (1 <=? mr A)%nat && (1 <=? mc A)%nat && (Z.of_nat (Nat.min (mr A) (mc A)) <? rcap)%Z.
Definition msvd_total (eigh : nat -> mat R -> list R * mat R) (argsort : nat -> list R -> list nat) (rcap : Z)
  (c : nat) (A : mat R) : mat R * mat R :=
  if msvd_guard rcap A then matrix_svd OR eigh argsort c A 0 rcap else (A, mid OR (mc A)).
Lemma msvd_total_eq eigh argsort rcap c A : msvd_guard rcap A = true ->
  msvd_total eigh argsort rcap c A = matrix_svd OR eigh argsort c A 0 rcap.
Proof. intros H. unfold msvd_total. now rewrite H. Qed.
Lemma msvd_total_fac_ok eigh argsort rcap :
  (forall k C, msym C -> eigh_ok C (fst (eigh k C)) (snd (eigh k C))) ->
  (forall k l, argsort_ok l (argsort k l)) ->
  forall c A, fac_ok OR A (fst (msvd_total eigh argsort rcap c A)) (snd (msvd_total eigh argsort rcap c A)).
Proof.
  intros HE HA c A. unfold msvd_total. destruct (msvd_guard rcap A) eqn:G.
  - unfold msvd_guard in G. apply andb_prop in G as (G12 & G3). apply andb_prop in G12 as (G1 & G2).
    apply Nat.leb_le in G1, G2. apply Z.ltb_lt in G3. now apply matrix_svd_exact.
  - cbn [fst snd]. apply (fac_ok_id OR OR_rng).
Qed.

(* plugged into C17's denotation theorem: eigh / argsort keyed by (core number k, call number c) *)
Theorem tt_to_qtt_denote_svd (eigh : nat -> nat -> mat R -> list R * mat R) (argsort : nat -> nat -> list R -> list nat)
  (rcap : Z) :
  (forall k c C, msym C -> eigh_ok C (fst (eigh k c C)) (snd (eigh k c C))) ->
  (forall k c l, argsort_ok l (argsort k c l)) ->
  forall q (Y : list (core R)) idx, chain 1 Y 1 -> Forall (fun G => cn G = (2 ^ S q)%nat /\ (0 < cr1 G)%nat) Y ->
  length idx = length Y -> Forall (fun i => (i < 2 ^ S q)%nat) idx ->
  exists Z, tt_to_qtt OR (fun k => msvd_total (eigh k) (argsort k) rcap) Y = Ok Z /\ length Z = (length Y * S q)%nat /\
    chain 1 Z 1 /\ Forall (fun Q => cn Q = 2%nat) Z /\ get OR Z (flat_map (bits_le (S q)) idx) = get OR Y idx.
Proof.
  intros HE HA. apply (tt_to_qtt_denote OR OR_rng).
  intros k c A. apply msvd_total_fac_ok; [apply HE|apply HA].
Qed.
