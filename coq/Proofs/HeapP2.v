(* C09 — consequences of checker soundness in the wording of the property: "later writes to either side cannot affect
   the other" = the set of objects reachable from the result and the set reachable from an argument are disjoint. *)
From Coq Require Import List Arith Bool PeanoNat Lia String.
From TV Require Import Model.Heap Proofs.HeapP.
Import ListNotations.

(* if every object reachable from [a] in the old heap is unchanged, reachability from [a] is the same in the new heap *)
Lemma reach_unchanged H H' a q :
  closed H -> H a <> None -> (forall o, reach H a o -> H' o = H o) -> reach H' a q -> reach H a q.
Proof.
  intros Hc Ha Hsame Hr.
  assert (G : forall b, reach H' b q -> reach H a b -> reach H a q).
  { clear Hr. intros b Hr. induction Hr as [b | b ob r q Hb Hin Hr IH]; intros Hab; [exact Hab |].
    apply IH. rewrite (Hsame b Hab) in Hb. eapply reach_snoc; eauto. }
  apply (G a Hr). apply reach_refl.
Qed.

Section Api2.
  Variable P : prog.
  Variable api : list nat.
  Hypothesis Hapi : api_ok P api = true.

  Definition exempt (f : fn) (p : param) : Prop :=
    may_write (fname f) (fflags f) (pname f p) = true \/ may_store (fname f) (fflags f) (pname f p) = true.

  (* an argument that shares nothing with the exempt arguments (info / cache, inplace Y, pass-through helpers) ... *)
  Definition separate (f : fn) (H : heap) (args : list val) (a : oid) : Prop :=
    forall p o, exempt f p -> reach_from H [nth p args None] o -> ~ reach H a o.

  (* ... keeps everything it reaches unchanged ... *)
  Theorem separate_unchanged n g f H args H' r a o :
    In g api -> nth_error P g = Some f -> closed H -> allocated H args -> sem P n g H args H' r ->
    H a <> None -> separate f H args a -> reach H a o -> H' o = H o.
  Proof.
    intros Hg Ef Hc Hal Hs Ha Hsep Hr.
    assert (Ho : H o <> None) by (eapply reach_alloc; eauto).
    destruct (clean_writes P api Hapi n g f H args H' r o Hg Ef Hc Hal Hs Ho) as [A | [p [Hp Hq]]]; [exact A |].
    exfalso. apply (Hsep p o); [left; exact Hp | exact Hq | exact Hr].
  Qed.

  (* ... and is disjoint from the result afterwards: no object is reachable both from the result and from it *)
  Theorem separate_disjoint n g f H args H' res a q :
    In g api -> nth_error P g = Some f -> closed H -> allocated H args -> sem P n g H args H' (Some res) ->
    H a <> None -> separate f H args a -> reach H' res q -> reach H' a q -> False.
  Proof.
    intros Hg Ef Hc Hal Hs Ha Hsep Hres Harg.
    assert (Hq : reach H a q).
    { apply (reach_unchanged H H' a q Hc Ha); [| exact Harg]. intros o Ho.
      exact (separate_unchanged n g f H args H' (Some res) a o Hg Ef Hc Hal Hs Ha Hsep Ho). }
    destruct (clean_result P api Hapi n g f H args H' res q Hg Ef Hc Hal Hs Hres) as [A | [p [Hp Hr]]].
    - apply (reach_alloc H a q Hc Ha Hq). exact A.
    - apply (Hsep p q); [right; exact Hp | exact Hr | exact Hq].
  Qed.
End Api2.

(* functions with an empty summary: result and arguments are disjoint, whatever the arguments share among themselves *)
Theorem pure_disjoint P n g f H args H' res a q :
  check_prog P = true -> nth_error P g = Some f -> summary_of f = ([], [], [], []) ->
  closed H -> allocated H args -> sem P n g H args H' (Some res) ->
  In (Some a) args -> reach H' res q -> reach H' a q -> False.
Proof.
  intros HP Ef Es Hc Hal Hs Ha Hres Harg.
  assert (Haa : H a <> None) by now apply Hal.
  assert (Hq : reach H a q).
  { apply (reach_unchanged H H' a q Hc Haa); [| exact Harg]. intros o Ho.
    apply (pure_unchanged P n g f H args H' (Some res) o HP Ef Es Hc Hal Hs). eapply reach_alloc; eauto. }
  apply (reach_alloc H a q Hc Haa Hq). eapply pure_result_new; eauto.
Qed.
