(* C01 at the reals, part 2: interface vectors of Model/Interface.v (general P / i / norm / ltr),
   the uniform mean, and the reported shape / ranks / size.
   Part A is ring-generic: with norm=None and an index the interface vectors ARE the partial products of the chain.
   Part B is at R: norm='natural' and norm='linalg' return exactly stated positive multiples of those vectors. *)
From Coq Require Import List Arith Lia PeanoNat ZArith Ring Bool Reals Lra Psatz.
From TV Require Import Num.Ops Lin.Tab Lin.BigSum TT.Chain Model.ActOne Model.Interface
  Proofs.ActOneP Proofs.ActOneP2 Proofs.ActOneP3 Proofs.ActOneRP.
Import ListNotations.

Lemma map_seq_cons {B} (f : nat -> B) n : map f (seq 0 (S n)) = f O :: map (fun k => f (S k)) (seq 0 n).
Proof. cbn [seq map]. f_equal. rewrite <- seq_shift, map_map. reflexivity. Qed.
Lemma map_seq_nth {A B} (F : A -> B) (l : list A) d : map (fun k => F (nth k l d)) (seq 0 (length l)) = map F l.
Proof.
  induction l as [|x l IH]; [reflexivity|]. cbn [length]. rewrite map_seq_cons. cbn [nth map]. now rewrite IH.
Qed.
Lemma hd_nth0 {A} (l : list (list A)) : hd [] l = nth 0 l [].
Proof. destruct l; reflexivity. Qed.

(* products of mode sizes *)
Definition prodn (l : list nat) : nat := fold_right Nat.mul 1%nat l.
Lemma prodn_fold_left l : forall a, fold_left Nat.mul l a = (a * prodn l)%nat.
Proof. induction l as [|x l IH]; intros a; cbn [fold_left prodn fold_right]; [lia|]. rewrite IH. fold (prodn l). lia. Qed.
Lemma prodn_firstn_pos l : Forall (fun n => 1 <= n) l -> forall k, 1 <= prodn (firstn k l).
Proof.
  induction 1 as [|x l Hx _ IH]; intros [|k]; cbn [firstn prodn fold_right]; try lia.
  specialize (IH k). fold (prodn (firstn k l)). nia.
Qed.
Lemma prodn_skipn_pos l : Forall (fun n => 1 <= n) l -> forall k, 1 <= prodn (skipn k l).
Proof.
  induction 1 as [|x l Hx HF IH]; intros [|k]; cbn [skipn]; try (cbn; lia).
  - cbn [prodn fold_right]. specialize (IH O). cbn [skipn] in IH. fold (prodn l). nia.
  - apply IH.
Qed.
Lemma shape_sizes_pos {T} (Y : list (core T)) : Forall (fun G => 1 <= cn G) Y -> Forall (fun n => 1 <= n) (shape Y).
Proof. intros H. unfold shape. induction H; cbn [map]; constructor; auto. Qed.

(* ============================================================ Part A: any commutative ring *)
Section IfaceP.
Context {T : Type} (K : ops T).
Notation "0" := (o0 K). Notation "1" := (o1 K).
Infix "+" := (oadd K). Infix "*" := (omul K).
Hypothesis Rth : rng K.
Add Ring RrIfaceP : Rth.

(* the un-normalised steps of the two sweeps *)
Definition stepR (G : core T) (w v : list T) : list T :=
  tab (cr1 G) (fun a => bsum K (cr2 G) (fun b => wslice K G w a b * nth b v 0)).
Definition stepL (G : core T) (w v : list T) : list T :=
  tab (cr2 G) (fun b => bsum K (cr1 G) (fun a => nth a v 0 * wslice K G w a b)).
Lemma iface_r_cons nm G Y w W : iface_r K nm (G :: Y) (w :: W) =
  normalize K nm (cn G) (stepR G w (hd [] (iface_r K nm Y W))) :: iface_r K nm Y W.
Proof. reflexivity. Qed.
Lemma iface_l_cons nm v G Y w W : iface_l K nm v (G :: Y) (w :: W) =
  v :: iface_l K nm (normalize K nm (cn G) (stepL G w v)) Y W.
Proof. reflexivity. Qed.
Lemma iface_l_nth0 nm v Y W : nth 0 (iface_l K nm v Y W) [] = v.
Proof. destruct Y, W; reflexivity. Qed.

Lemma stepR_scale G w c v : stepR G w (vscale K c v) = vscale K c (stepR G w v).
Proof.
  unfold stepR, vscale at 2. rewrite map_tab. apply tab_ext; intros a Ha.
  rewrite <- (bsum_mul_l K Rth). apply bsum_ext; intros b Hb. rewrite (nth_vscale K Rth). ring.
Qed.
Lemma stepL_scale G w c v : stepL G w (vscale K c v) = vscale K c (stepL G w v).
Proof.
  unfold stepL, vscale at 2. rewrite map_tab. apply tab_ext; intros b Hb.
  rewrite <- (bsum_mul_l K Rth). apply bsum_ext; intros a Ha. rewrite (nth_vscale K Rth). ring.
Qed.

(* the weight list the code contracts with *)
Definition Wof (Y : list (core T)) (P : option (list (list T))) (i : option (list nat)) : list (list T) :=
  map (fun k => omega K (cn (nth k Y (mk_core 0 0 0 []))) (optnth P k) (optnth i k)) (seq 0 (length Y)).
Lemma interface_unfold Y P i nm (ltr : bool) :
  interface K Y P i nm ltr = if ltr then iface_l K nm [1] Y (Wof Y P i) else iface_r K nm Y (Wof Y P i).
Proof. reflexivity. Qed.
Lemma Wof_length Y P i : length (Wof Y P i) = length Y.
Proof. unfold Wof. now rewrite map_length, seq_length. Qed.
Lemma Wof_idx_cons G Y i idx :
  Wof (G :: Y) None (Some (i :: idx)) = omega K (cn G) None (Some i) :: Wof Y None (Some idx).
Proof. unfold Wof. cbn [length]. rewrite map_seq_cons. cbn [nth optnth nth_error]. reflexivity. Qed.

(* with an index and no weights the contracted slice is the i-th slice of the core *)
Lemma wslice_omega_i G i a b : i < cn G -> wslice K G (omega K (cn G) None (Some i)) a b = cget K G a i b.
Proof.
  intros Hi. unfold wslice, omega. rewrite (bsum_single K Rth (cn G) i); auto.
  - rewrite nth_tab by auto. rewrite Nat.eqb_refl. ring.
  - intros m Hm Hne. rewrite nth_tab by auto. destruct (Nat.eqb_spec m i); [contradiction|ring].
Qed.

Theorem iface_r_none_phi_r Y : forall idx, inb (shape Y) idx ->
  iface_r K NormNone Y (Wof Y None (Some idx)) = phi_r K Y idx.
Proof.
  induction Y as [|G Y IH]; intros idx H; inversion H as [|i n idx' ns Hi H']; subst; [reflexivity|].
  rewrite Wof_idx_cons, iface_r_cons, (IH idx' H'). cbn [phi_r normalize]. f_equal.
  unfold stepR, mstep. apply tab_ext; intros a Ha. apply bsum_ext; intros b Hb. now rewrite wslice_omega_i.
Qed.
Theorem iface_l_none_phi_l Y : forall v idx, inb (shape Y) idx ->
  iface_l K NormNone v Y (Wof Y None (Some idx)) = phi_l_from K v Y idx.
Proof.
  induction Y as [|G Y IH]; intros v idx H; inversion H as [|i n idx' ns Hi H']; subst; [reflexivity|].
  rewrite Wof_idx_cons, iface_l_cons. cbn [phi_l_from normalize]. f_equal.
  replace (stepL G (omega K (cn G) None (Some i)) v) with (vstep K v G i); [apply IH; exact H'|].
  unfold stepL, vstep. apply tab_ext; intros b Hb. apply bsum_ext; intros a Ha. now rewrite wslice_omega_i.
Qed.
Theorem interface_none_right Y idx : inb (shape Y) idx ->
  interface K Y None (Some idx) NormNone false = phi_r K Y idx.
Proof. intros H. rewrite interface_unfold. now apply iface_r_none_phi_r. Qed.
Theorem interface_none_left Y idx : inb (shape Y) idx ->
  interface K Y None (Some idx) NormNone true = phi_l K Y idx.
Proof. intros H. rewrite interface_unfold. now apply iface_l_none_phi_l. Qed.

(* the k-th right vector is the head of the sweep over the suffix; its entries are the open-chain products *)
Lemma phi_r_nth Y : forall idx k, length idx = length Y -> k <= length Y ->
  nth k (phi_r K Y idx) [] = hd [] (phi_r K (skipn k Y) (skipn k idx)).
Proof.
  induction Y as [|G Y IH]; intros [|i idx] [|k] L Hk; cbn [length] in *; try discriminate; try lia; try reflexivity.
  cbn [phi_r nth skipn]. apply IH; lia.
Qed.
Lemma phi_r_entry Y idx r a : wf r Y idx -> a < r ->
  nth a (hd [] (phi_r K Y idx)) 0 = dget K Y idx r a O.
Proof.
  intros W Ha. unfold dget. rewrite <- (dot_phi_r K Rth Y idx (evec K r a) r W). unfold dot.
  rewrite (bsum_single K Rth r a); auto.
  - rewrite nth_evec, Nat.eqb_refl by auto. ring.
  - intros a' Ha' Hne. rewrite nth_evec by auto. destruct (Nat.eqb_spec a' a); [contradiction|ring].
Qed.
Lemma wf_skipn (Y : list (core T)) : forall r idx k, wf r Y idx -> k <= length Y ->
  wf (nth k (r :: map cr2 Y) O) (skipn k Y) (skipn k idx).
Proof.
  induction Y as [|G Y IH]; intros r [|i idx] [|k] W Hk; cbn [length] in *; try lia; try (cbn [wf] in W; contradiction); auto.
  cbn [wf] in W. destruct W as (_ & _ & W). cbn [skipn map]. change (nth (S k) (r :: cr2 G :: map cr2 Y) O) with (nth k (cr2 G :: map cr2 Y) O).
  apply IH; auto. lia.
Qed.
Lemma wf_inb_len (Y : list (core T)) idx : wf 1 Y idx -> inb (shape Y) idx /\ length idx = length Y.
Proof.
  intros W. apply wf_wfo in W. split; [apply (wfo_chain_inb 1 Y idx 1); exact W|apply (wfo_length 1 Y idx 1); exact W].
Qed.
(* right interface vector k, entry a = ( G_k[i_k] ... G_{d-1}[i_{d-1}] )[a, 0] *)
Theorem interface_right_entry Y idx k a : wf 1 Y idx -> k <= length Y -> a < nth k (ranks Y) O ->
  nth a (nth k (interface K Y None (Some idx) NormNone false) []) 0 =
  dget K (skipn k Y) (skipn k idx) (nth k (ranks Y) O) a O.
Proof.
  intros W Hk Ha.
  destruct (wf_inb_len Y idx W) as [HI HL].
  rewrite interface_none_right by exact HI.
  rewrite phi_r_nth by auto.
  apply phi_r_entry; [|exact Ha]. apply (wf_skipn Y 1 idx k W Hk).
Qed.
(* left interface vector k = the row vector  [1] G_0[i_0] ... G_{k-1}[i_{k-1}] *)
Lemma phi_l_nth Y : forall v idx k, length idx = length Y -> k <= length Y ->
  nth k (phi_l_from K v Y idx) [] = run K v (firstn k Y) (firstn k idx).
Proof.
  induction Y as [|G Y IH]; intros v [|i idx] [|k] L Hk; cbn [length] in *; try discriminate; try lia; try reflexivity.
  cbn [phi_l_from nth firstn run]. apply IH; lia.
Qed.
Theorem interface_left_entry Y idx k : wf 1 Y idx -> k <= length Y ->
  nth k (interface K Y None (Some idx) NormNone true) [] = run K [1] (firstn k Y) (firstn k idx).
Proof.
  intros W Hk.
  destruct (wf_inb_len Y idx W) as [HI HL].
  rewrite interface_none_left by exact HI. unfold phi_l.
  apply phi_l_nth; auto.
Qed.

(* ---- general weights (any P, any i), norm=None: the fully contracted vector of either sweep is the weighted sum over
        all multi-indices, with the weights omega the code contracts each mode with ---- *)
Lemma Wof_nth Y P i k : k < length Y ->
  nth k (Wof Y P i) [] = omega K (cn (nth k Y (mk_core 0 0 0 []))) (optnth P k) (optnth i k).
Proof.
  intros Hk. unfold Wof.
  rewrite (nth_indep _ [] ((fun k => omega K (cn (nth k Y (mk_core 0 0 0 []))) (optnth P k) (optnth i k)) O))
    by (now rewrite map_length, seq_length).
  rewrite (map_nth (fun k => omega K (cn (nth k Y (mk_core 0 0 0 []))) (optnth P k) (optnth i k))).
  now rewrite seq_nth.
Qed.
Lemma stepL_vstepw G w v : stepL G w v = vstepw K v G w.
Proof. reflexivity. Qed.
Lemma iface_l_last Y : forall W v, length W = length Y ->
  nth (length Y) (iface_l K NormNone v Y W) [] = runw K v Y W.
Proof.
  induction Y as [|G Y IH]; intros [|w W] v L; cbn [length] in *; try discriminate; [reflexivity|].
  rewrite iface_l_cons. cbn [nth runw normalize]. rewrite stepL_vstepw. apply IH. lia.
Qed.
Lemma dot_stepR v G w u : dot K v (stepR G w u) (cr1 G) = dot K (vstepw K v G w) u (cr2 G).
Proof.
  unfold dot.
  rewrite (bsum_ext K (cr1 G) _ (fun a => bsum K (cr2 G) (fun b => nth a v 0 * wslice K G w a b * nth b u 0))).
  2:{ intros a Ha. unfold stepR. rewrite nth_tab by auto. rewrite <- (bsum_mul_l K Rth).
      apply bsum_ext; intros b Hb. ring. }
  rewrite (bsum_swap K Rth). apply bsum_ext; intros b Hb.
  unfold vstepw. rewrite nth_tab by auto. rewrite <- (bsum_mul_r K Rth). reflexivity.
Qed.
Lemma dot_iface_r Y : forall W v r, length W = length Y -> chain r Y 1 ->
  dot K v (hd [] (iface_r K NormNone Y W)) r = nth O (runw K v Y W) 0.
Proof.
  induction Y as [|G Y IH]; intros [|w W] v r L C; cbn [length] in *; try discriminate; cbn [chain] in C.
  - subst r. unfold dot. cbn. ring.
  - destruct C as [<- C]. rewrite iface_r_cons. cbn [hd normalize runw]. rewrite dot_stepR. apply IH; auto.
Qed.
Theorem interface_total Y P i : chain 1 Y 1 ->
  nth O (nth O (interface K Y P i NormNone false) []) 0 = msum K (shape Y) (fun idx => pw K (Wof Y P i) idx * get K Y idx) /\
  nth O (nth (length Y) (interface K Y P i NormNone true) []) 0 = msum K (shape Y) (fun idx => pw K (Wof Y P i) idx * get K Y idx).
Proof.
  intros C. rewrite !interface_unfold. rewrite <- (mean_w_spec K Rth Y (Wof Y P i) C (Wof_length Y P i)). split.
  - rewrite <- hd_nth0. unfold mean_w. rewrite <- (dot_iface_r Y (Wof Y P i) [1] 1 (Wof_length Y P i) C).
    unfold dot. cbn. ring.
  - rewrite iface_l_last by apply Wof_length. reflexivity.
Qed.

(* squared distance through the TT algebra: <Y1 - Y2, Y1 - Y2> is the sum over all multi-indices of the squared
   difference of the entries (any commutative ring; at R this is what accuracy takes the square root of) *)
Theorem mul_scalar_sub_spec (Y1 Y2 : list (core T)) : 2 <= length Y1 -> chain 1 Y1 1 -> chain 1 Y2 1 -> same_shape Y1 Y2 ->
  mul_scalar K (sub K Y1 Y2) (sub K Y1 Y2) =
  msum K (shape Y1) (fun idx => osub K (get K Y1 idx) (get K Y2 idx) * osub K (get K Y1 idx) (get K Y2 idx)).
Proof.
  intros Hd C1 C2 HS.
  assert (HS' : same_shape Y1 (mul_num K Y2 (oopp K 1))) by (apply same_shape_mul_num; exact HS).
  assert (C : chain 1 (sub K Y1 Y2) 1) by (unfold sub; apply chain_add; auto; apply chain_mul_num; exact C2).
  assert (S : shape (sub K Y1 Y2) = shape Y1) by (unfold sub; apply shape_add; exact HS').
  rewrite (mul_scalar_spec K Rth _ _ C C (same_shape_refl _)). rewrite S. apply msum_ext. intros idx Hidx.
  assert (E : get K (sub K Y1 Y2) idx = osub K (get K Y1 idx) (get K Y2 idx)).
  { apply (get_sub K Rth); auto.
    - apply wf_wfo, wfo_chain_inb. auto.
    - apply wf_wfo, wfo_chain_inb. split; auto. now rewrite (shape_of_same_shape Y1 Y2 HS). }
  now rewrite E.
Qed.

(* mean with default weights is the uniform mean of Model/ActOne.v *)
Theorem mean_default_mean_u Y : mean K Y None true = mean_u K Y.
Proof.
  unfold mean, mean_u. cbv zeta. f_equal. cbn [optnth].
  exact (map_seq_nth (fun G : core T => tab (cn G) (fun _ => odiv K 1 (oofZ K (Z.of_nat (cn G))))) Y (mk_core 0 0 0 [])).
Qed.

(* reported size = sum over the cores of r_k n_k r_{k+1}, read from the reported ranks and shape *)
Lemma size_ranks_from (Y : list (core T)) : forall r rl, chain r Y rl ->
  size Y = fold_right Nat.add O (map (fun k => nth k (r :: map cr2 Y) O * nth k (shape Y) O * nth (S k) (r :: map cr2 Y) O)%nat
                                  (seq 0 (length Y))) /\
  nth (length Y) (r :: map cr2 Y) O = rl.
Proof.
  induction Y as [|G Y IH]; intros r rl C; cbn [chain] in C.
  - split; [reflexivity|exact C].
  - destruct C as [C1 C2]. destruct (IH (cr2 G) rl C2) as [E1 E2]. split.
    + cbn [length]. rewrite map_seq_cons. cbn [fold_right].
      change (size (G :: Y)) with (cr1 G * cn G * cr2 G + size Y)%nat. rewrite E1, C1. reflexivity.
    + exact E2.
Qed.
End IfaceP.

Lemma ranks_nth {T} (Y : list (core T)) : forall r rl k, chain r Y rl -> k < length Y ->
  nth k (map cn Y) O = cn (nth k Y (mk_core 0 0 0 [])) /\
  nth k (r :: map cr2 Y) O = cr1 (nth k Y (mk_core 0 0 0 [])) /\
  nth (S k) (r :: map cr2 Y) O = cr2 (nth k Y (mk_core 0 0 0 [])).
Proof.
  induction Y as [|G Y IH]; intros r rl k C Hk; cbn [length] in Hk; [lia|].
  cbn [chain] in C. destruct C as [C1 C2]. destruct k as [|k]; [cbn; auto|].
  cbn [map]. change (nth (S (S k)) (r :: cr2 G :: map cr2 Y) O) with (nth (S k) (cr2 G :: map cr2 Y) O).
  change (nth (S k) (r :: cr2 G :: map cr2 Y) O) with (nth k (cr2 G :: map cr2 Y) O).
  cbn [nth]. apply (IH (cr2 G) rl); auto. lia.
Qed.
Theorem props_spec {T} (Y : list (core T)) : chain 1 Y 1 ->
  length (shape Y) = length Y /\ length (ranks Y) = S (length Y) /\
  nth 0 (ranks Y) O = 1%nat /\ nth (length Y) (ranks Y) O = 1%nat /\
  (forall k, k < length Y -> nth k (shape Y) O = cn (nth k Y (mk_core 0 0 0 [])) /\
                             nth k (ranks Y) O = cr1 (nth k Y (mk_core 0 0 0 [])) /\
                             nth (S k) (ranks Y) O = cr2 (nth k Y (mk_core 0 0 0 []))) /\
  size Y = fold_right Nat.add O (map (fun k => nth k (ranks Y) O * nth k (shape Y) O * nth (S k) (ranks Y) O)%nat
                                   (seq 0 (length Y))).
Proof.
  intros C. destruct (size_ranks_from Y 1%nat 1%nat C) as [E1 E2].
  split; [apply map_length|]. split; [unfold ranks; cbn [length]; now rewrite map_length|].
  split; [reflexivity|]. split; [exact E2|]. split; [|exact E1].
  intros k Hk. exact (ranks_nth Y 1%nat 1%nat k C Hk).
Qed.

(* ============================================================ Part B: the reals *)
Local Open Scope R_scope.

Lemma vnorm2_ssq v : vnorm2 OR01 v = ssq v.
Proof. unfold vnorm2. r01. rewrite sumsq_acc. lra. Qed.
Lemma ssq_vscale c v : ssq (vscale OR01 c v) = c * c * ssq v.
Proof. induction v as [|x v IH]; cbn [vscale map ssq]; [ring|]. fold (vscale OR01 c v). rewrite IH. r01. ring. Qed.
Lemma vscale_vscale c1 c2 v : vscale OR01 c1 (vscale OR01 c2 v) = vscale OR01 (c1 * c2) v.
Proof. unfold vscale. rewrite map_map. apply map_ext. intros x. r01. ring. Qed.
Lemma vscale_one v : vscale OR01 1 v = v.
Proof. unfold vscale. rewrite <- (map_id v) at 2. apply map_ext. intros x. r01. ring. Qed.
Lemma normalize_natural n v : normalize OR01 NormNatural n v = vscale OR01 (/ INR n) v.
Proof. unfold normalize, vscale. apply map_ext. intros x. r01. rewrite <- INR_IZR_INZ. unfold Rdiv. ring. Qed.
Lemma normalize_linalg n v : normalize OR01 NormLinalg n v = vscale OR01 (/ sqrt (ssq v)) v.
Proof. unfold normalize. cbv zeta. rewrite vnorm2_ssq. unfold vscale. apply map_ext. intros x. r01. unfold Rdiv. ring. Qed.
(* normalising a positive multiple of x gives the unit vector of x *)
Lemma normalize_linalg_scale n c x : 0 < c -> ssq x <> 0 ->
  normalize OR01 NormLinalg n (vscale OR01 c x) = vscale OR01 (/ sqrt (ssq x)) x.
Proof.
  intros Hc Hx. rewrite normalize_linalg, ssq_vscale, vscale_vscale. f_equal.
  pose proof (ssq_nonneg x) as Hs. assert (Hp : 0 < sqrt (ssq x)) by (apply sqrt_lt_R0; lra).
  rewrite sqrt_mult by nra. rewrite sqrt_square by lra. field. split; lra.
Qed.
Lemma unit_scale_pos x : ssq x <> 0 -> 0 < / sqrt (ssq x).
Proof. intros H. pose proof (ssq_nonneg x). apply Rinv_0_lt_compat, sqrt_lt_R0. lra. Qed.
Lemma ssq_unit x : ssq x <> 0 -> ssq (vscale OR01 (/ sqrt (ssq x)) x) = 1.
Proof.
  intros H. rewrite ssq_vscale. pose proof (ssq_nonneg x) as Hs. assert (Hp : 0 < sqrt (ssq x)) by (apply sqrt_lt_R0; lra).
  rewrite <- (sqrt_sqrt (ssq x) Hs) at 3. field. lra.
Qed.

(* zero vectors stay zero through a sweep step *)
Lemma nth_all0 (v : list R) : Forall (fun x => x = 0) v -> forall b, nth b v 0 = 0.
Proof. induction 1 as [|x v Hx _ IH]; intros [|b]; cbn [nth]; auto. Qed.
Lemma ssq_tab0 n (f : nat -> R) : (forall a, (a < n)%nat -> f a = 0) -> ssq (tab n f) = 0.
Proof. intros H. apply ssq_zero. apply Forall_forall. intros x Hx. apply in_tab in Hx as (a & Ha & ->). auto. Qed.
Lemma stepR_zero G w v : ssq v = 0 -> ssq (stepR OR01 G w v) = 0.
Proof.
  intros H. apply ssq_zero in H. unfold stepR. apply ssq_tab0. intros a Ha.
  apply (bsum_0' OR01 OR01_rng). intros b Hb. rewrite (nth_all0 v H). r01. ring.
Qed.
Lemma stepL_zero G w v : ssq v = 0 -> ssq (stepL OR01 G w v) = 0.
Proof.
  intros H. apply ssq_zero in H. unfold stepL. apply ssq_tab0. intros b Hb.
  apply (bsum_0' OR01 OR01_rng). intros a Ha. rewrite (nth_all0 v H). r01. ring.
Qed.

(* ---------------------------------------------------------------- norm='natural' *)
Lemma iface_r_natural Y : forall W k, length W = length Y -> (k <= length Y)%nat ->
  nth k (iface_r OR01 NormNatural Y W) [] =
  vscale OR01 (/ INR (prodn (skipn k (shape Y)))) (nth k (iface_r OR01 NormNone Y W) []).
Proof.
  induction Y as [|G Y IH]; intros [|w W] k L Hk; cbn [length] in *; try discriminate.
  - assert (k = O) by lia; subst k. cbn. rewrite Rinv_1. f_equal. ring.
  - rewrite !(iface_r_cons OR01). destruct k as [|k].
    + cbn [nth skipn]. rewrite !hd_nth0. rewrite (IH W O) by lia. cbn [skipn].
      rewrite normalize_natural, (stepR_scale OR01 OR01_rng), vscale_vscale. cbn [normalize]. f_equal.
      unfold shape. cbn [map prodn fold_right]. rewrite mult_INR, Rinv_mult. reflexivity.
    + cbn [nth]. unfold shape. cbn [map skipn]. apply IH; lia.
Qed.
Lemma iface_l_natural Y : forall W u v c k, length W = length Y -> (k <= length Y)%nat -> v = vscale OR01 c u ->
  nth k (iface_l OR01 NormNatural v Y W) [] =
  vscale OR01 (c * / INR (prodn (firstn k (shape Y)))) (nth k (iface_l OR01 NormNone u Y W) []).
Proof.
  induction Y as [|G Y IH]; intros [|w W] u v c k L Hk E; cbn [length] in *; try discriminate.
  - assert (k = O) by lia; subst k. cbn [iface_l nth firstn prodn fold_right INR]. rewrite Rinv_1, Rmult_1_r. exact E.
  - rewrite !(iface_l_cons OR01). destruct k as [|k].
    + cbn [nth firstn prodn fold_right INR]. rewrite Rinv_1, Rmult_1_r. exact E.
    + cbn [nth]. change (normalize OR01 NormNone (cn G) (stepL OR01 G w u)) with (stepL OR01 G w u).
      unfold shape. cbn [map firstn prodn fold_right].
      rewrite (IH W (stepL OR01 G w u) _ (/ INR (cn G) * c) k) by (try lia;
        rewrite normalize_natural, E, (stepL_scale OR01 OR01_rng), vscale_vscale; reflexivity).
      f_equal. fold (prodn (firstn k (map cn Y))). unfold shape. rewrite mult_INR, Rinv_mult. ring.
Qed.

Theorem interface_natural_right Y P i k : (k <= length Y)%nat ->
  nth k (interface OR01 Y P i NormNatural false) [] =
  vscale OR01 (/ INR (prodn (skipn k (shape Y)))) (nth k (interface OR01 Y P i NormNone false) []).
Proof. intros Hk. rewrite !interface_unfold. apply iface_r_natural; auto. apply Wof_length. Qed.
Theorem interface_natural_left Y P i k : (k <= length Y)%nat ->
  nth k (interface OR01 Y P i NormNatural true) [] =
  vscale OR01 (/ INR (prodn (firstn k (shape Y)))) (nth k (interface OR01 Y P i NormNone true) []).
Proof.
  intros Hk. rewrite !interface_unfold.
  rewrite (iface_l_natural Y (Wof OR01 Y P i) [o1 OR01] [o1 OR01] 1 k); auto using Wof_length.
  - now rewrite Rmult_1_l.
  - now rewrite vscale_one.
Qed.
Lemma natural_factor_pos (Y : list (core R)) k : Forall (fun G => 1 <= cn G)%nat Y ->
  0 < / INR (prodn (skipn k (shape Y))) /\ 0 < / INR (prodn (firstn k (shape Y))).
Proof.
  intros H. apply shape_sizes_pos in H. split; apply Rinv_0_lt_compat, lt_0_INR.
  - pose proof (prodn_skipn_pos _ H k). lia.
  - pose proof (prodn_firstn_pos _ H k). lia.
Qed.

(* ---------------------------------------------------------------- norm='linalg' *)
Lemma iface_r_linalg Y : forall W k, length W = length Y -> (k <= length Y)%nat ->
  ssq (nth k (iface_r OR01 NormNone Y W) []) <> 0 ->
  nth k (iface_r OR01 NormLinalg Y W) [] =
  vscale OR01 (/ sqrt (ssq (nth k (iface_r OR01 NormNone Y W) []))) (nth k (iface_r OR01 NormNone Y W) []).
Proof.
  induction Y as [|G Y IH]; intros [|w W] k L Hk; cbn [length] in *; try discriminate.
  - assert (k = O) by lia; subst k. intros _. cbn. replace (1 * 1 + 0) with 1 by ring. rewrite sqrt_1, Rinv_1. f_equal. ring.
  - rewrite !(iface_r_cons OR01). destruct k as [|k].
    + cbn [nth]. rewrite !hd_nth0.
      change (normalize OR01 NormNone (cn G) (stepR OR01 G w (nth 0 (iface_r OR01 NormNone Y W) [])))
        with (stepR OR01 G w (nth 0 (iface_r OR01 NormNone Y W) [])). intros Hnz.
      assert (Hu : ssq (nth 0 (iface_r OR01 NormNone Y W) []) <> 0).
      { intros H0. apply Hnz. now apply stepR_zero. }
      rewrite (IH W O) by (auto; lia). rewrite (stepR_scale OR01 OR01_rng).
      apply normalize_linalg_scale; auto. now apply unit_scale_pos.
    + cbn [nth]. apply IH; lia.
Qed.
Lemma iface_l_zero Y : forall W u k, length W = length Y -> (k <= length Y)%nat -> ssq u = 0 ->
  ssq (nth k (iface_l OR01 NormNone u Y W) []) = 0.
Proof.
  induction Y as [|G Y IH]; intros [|w W] u k L Hk H0; cbn [length] in *; try discriminate.
  - assert (k = O) by lia; subst k. exact H0.
  - rewrite (iface_l_cons OR01). destruct k as [|k]; [exact H0|]. cbn [nth normalize]. apply IH; try lia. now apply stepL_zero.
Qed.
Lemma iface_l_linalg Y : forall W u v c k, length W = length Y -> (1 <= k <= length Y)%nat -> 0 < c -> v = vscale OR01 c u ->
  ssq (nth k (iface_l OR01 NormNone u Y W) []) <> 0 ->
  nth k (iface_l OR01 NormLinalg v Y W) [] =
  vscale OR01 (/ sqrt (ssq (nth k (iface_l OR01 NormNone u Y W) []))) (nth k (iface_l OR01 NormNone u Y W) []).
Proof.
  induction Y as [|G Y IH]; intros [|w W] u v c k L Hk Hc E; cbn [length] in *; try discriminate; try lia.
  rewrite !(iface_l_cons OR01). destruct k as [|k]; [lia|]. cbn [nth].
  change (normalize OR01 NormNone (cn G) (stepL OR01 G w u)) with (stepL OR01 G w u). intros Hnz.
  set (u' := stepL OR01 G w u) in *.
  assert (Hu : ssq u' <> 0).
  { intros H0. apply Hnz. apply iface_l_zero; auto; lia. }
  assert (Ev : normalize OR01 NormLinalg (cn G) (stepL OR01 G w v) = vscale OR01 (/ sqrt (ssq u')) u').
  { rewrite E, (stepL_scale OR01 OR01_rng). apply normalize_linalg_scale; auto. }
  destruct k as [|k].
  - rewrite !(iface_l_nth0 OR01). exact Ev.
  - apply (IH W u' _ (/ sqrt (ssq u')) (S k)); auto; try lia. now apply unit_scale_pos.
Qed.

Theorem interface_linalg_right Y P i k : (k <= length Y)%nat ->
  ssq (nth k (interface OR01 Y P i NormNone false) []) <> 0 ->
  nth k (interface OR01 Y P i NormLinalg false) [] =
  vscale OR01 (/ sqrt (ssq (nth k (interface OR01 Y P i NormNone false) [])))
              (nth k (interface OR01 Y P i NormNone false) []) /\
  0 < / sqrt (ssq (nth k (interface OR01 Y P i NormNone false) [])) /\
  ssq (nth k (interface OR01 Y P i NormLinalg false) []) = 1.
Proof.
  intros Hk Hnz. rewrite !interface_unfold in *.
  assert (E := iface_r_linalg Y (Wof OR01 Y P i) k (Wof_length OR01 Y P i) Hk Hnz).
  split; [exact E|]. split; [now apply unit_scale_pos|]. rewrite E. now apply ssq_unit.
Qed.
Theorem interface_linalg_left Y P i k : (1 <= k <= length Y)%nat ->
  ssq (nth k (interface OR01 Y P i NormNone true) []) <> 0 ->
  nth k (interface OR01 Y P i NormLinalg true) [] =
  vscale OR01 (/ sqrt (ssq (nth k (interface OR01 Y P i NormNone true) [])))
              (nth k (interface OR01 Y P i NormNone true) []) /\
  0 < / sqrt (ssq (nth k (interface OR01 Y P i NormNone true) [])) /\
  ssq (nth k (interface OR01 Y P i NormLinalg true) []) = 1.
Proof.
  intros Hk Hnz. rewrite !interface_unfold in *.
  assert (E := iface_l_linalg Y (Wof OR01 Y P i) [o1 OR01] [o1 OR01] 1 k (Wof_length OR01 Y P i) Hk Rlt_0_1
                 (eq_sym (vscale_one [o1 OR01])) Hnz).
  split; [exact E|]. split; [now apply unit_scale_pos|]. rewrite E. now apply ssq_unit.
Qed.
(* the boundary vector of either sweep is [1], whatever the normalisation *)
Theorem interface_boundary Y P i nm :
  nth (length Y) (interface OR01 Y P i nm false) [] = [1] /\ nth 0 (interface OR01 Y P i nm true) [] = [1].
Proof.
  rewrite !interface_unfold. split; [|apply (iface_l_nth0 OR01)].
  generalize (Wof OR01 Y P i) (Wof_length OR01 Y P i). induction Y as [|G Y IH]; intros [|w W] L; cbn [length] in *; try discriminate; [reflexivity|].
  rewrite (iface_r_cons OR01). cbn [nth]. apply IH. lia.
Qed.

(* ---------------------------------------------------------------- uniform mean *)
Lemma pw_unif (Y : list (core R)) : forall idx, inb (shape Y) idx ->
  pw OR01 (map (fun G : core R => tab (cn G) (fun _ => odiv OR01 (o1 OR01) (oofZ OR01 (Z.of_nat (cn G))))) Y) idx
  = / INR (prodn (shape Y)).
Proof.
  induction Y as [|G Y IH]; intros idx H; inversion H as [|i n idx' ns Hi H']; subst.
  - cbn. now rewrite Rinv_1.
  - cbn [map pw]. rewrite nth_tab by exact Hi. rewrite (IH idx' H'). r01.
    unfold shape. cbn [map prodn fold_right]. fold (prodn (map cn Y)). rewrite mult_INR, Rinv_mult, <- INR_IZR_INZ.
    unfold Rdiv. ring.
Qed.
(* mean(Y) = (sum of all entries of the dense tensor) / (number of entries of the dense tensor) *)
Theorem mean_uniform_spec (Y : list (core R)) : chain 1 Y 1 ->
  mean OR01 Y None true = msum OR01 (shape Y) (get OR01 Y) / INR (length (full OR01 Y)).
Proof.
  intros C. rewrite (mean_default_mean_u OR01). unfold mean_u.
  rewrite (mean_w_spec OR01 OR01_rng) by (auto; now rewrite map_length).
  rewrite (msum_ext OR01 (shape Y) _ (fun idx => omul OR01 (/ INR (prodn (shape Y))) (get OR01 Y idx))).
  2:{ intros idx Hidx. f_equal. apply (pw_unif Y idx Hidx). }
  rewrite (msum_mul_l OR01 OR01_rng). rewrite full_length, prodn_fold_left, Nat.mul_1_l. r01. unfold Rdiv. ring.
Qed.
Lemma count_pos (Y : list (core R)) : Forall (fun G => 1 <= cn G)%nat Y -> 0 < INR (length (full OR01 Y)).
Proof.
  intros H. rewrite full_length, prodn_fold_left, Nat.mul_1_l. apply lt_0_INR.
  pose proof (prodn_firstn_pos _ (shape_sizes_pos Y H) (length (shape Y))) as P. rewrite firstn_all in P. lia.
Qed.
