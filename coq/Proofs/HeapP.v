(* C09 — soundness of the certificate checker of Model/Heap.v w.r.t. the relational heap semantics.
   Main results: [check_sound] (every function of a checked program meets the meaning [callspec] of its summary, for
   every heap, every argument list, every execution, calls to any depth), [clean_writes] / [clean_result] (what that
   means for a function whose summary stays within the exception table) and [pure_unchanged] / [pure_result_new]
   (functions with an empty summary).  No axioms. *)
From Coq Require Import List Arith Bool PeanoNat Lia String.
From TV Require Import Model.Heap.
Import ListNotations.

(* ------------------------------------------------------------------------------------------------ *)
(* 1. boolean reflection                                                                            *)
(* ------------------------------------------------------------------------------------------------ *)
Lemma aobj_eqb_eq a b : aobj_eqb a b = true <-> a = b.
Proof.
  destruct a, b; simpl; try (split; discriminate); rewrite Nat.eqb_eq; split; congruence.
Qed.

Lemma amem_In a A : amem a A = true <-> In a A.
Proof.
  unfold amem. rewrite existsb_exists. split.
  - intros [b [Hb E]]. apply aobj_eqb_eq in E. subst. exact Hb.
  - intros Ha. exists a. split; [exact Ha | now apply aobj_eqb_eq].
Qed.

Lemma asub_incl A B : asub A B = true <-> (forall a, In a A -> In a B).
Proof.
  unfold asub. rewrite forallb_forall. split; intros Hs a Ha.
  - apply amem_In. now apply Hs.
  - apply amem_In. now apply Hs.
Qed.

Lemma nmem_In n l : nmem n l = true <-> In n l.
Proof.
  unfold nmem. rewrite existsb_exists. split.
  - intros [b [Hb E]]. apply Nat.eqb_eq in E. subst. exact Hb.
  - intros Hn. exists n. split; [exact Hn | now apply Nat.eqb_eq].
Qed.

(* ------------------------------------------------------------------------------------------------ *)
(* 2. heaps                                                                                         *)
(* ------------------------------------------------------------------------------------------------ *)
Lemma reach_alloc H a o : closed H -> H a <> None -> reach H a o -> H o <> None.
Proof.
  intros Hc Ha Hr. induction Hr as [o | o ob r o' Ho Hin Hr IH]; [exact Ha |].
  apply IH. eapply Hc; eauto.
Qed.

Lemma reach_snoc H a o ob r : reach H a o -> H o = Some ob -> In r (orefs ob) -> reach H a r.
Proof.
  intros Hr. induction Hr as [o | o ob1 r1 o' Ho Hin Hr IH]; intros Hob Hr'.
  - eapply reach_step; eauto. apply reach_refl.
  - eapply reach_step; eauto.
Qed.

Lemma reach_trans H a b c : reach H a b -> reach H b c -> reach H a c.
Proof.
  intros Hab. induction Hab as [o | o ob r o' Ho Hin Hr IH]; intros Hbc; [exact Hbc |].
  eapply reach_step; eauto.
Qed.

Lemma nth_some_in (l : list val) p a : nth p l None = Some a -> In (Some a) l.
Proof.
  intros E. destruct (Nat.lt_ge_cases p (List.length l)) as [Hlt | Hge].
  - rewrite <- E. now apply nth_In.
  - rewrite nth_overflow in E by exact Hge. discriminate.
Qed.

Lemma in_argsel ps (args : list val) a : In (Some a) (argsel ps args) <-> exists p, In p ps /\ nth p args None = Some a.
Proof.
  unfold argsel. rewrite in_map_iff. split; intros [p [A B]]; exists p; tauto.
Qed.

Lemma some_neq_none {A} (x : option A) y : x = Some y -> x <> None.
Proof. congruence. Qed.

Lemma neq_none_some {A} (x : option A) : x <> None -> exists y, x = Some y.
Proof. destruct x; [eauto | congruence]. Qed.

Lemma Forall2_nth_some {A} (R : A -> val -> Prop) dflt l1 l2 p a :
  Forall2 R l1 l2 -> nth p l2 None = Some a -> R (nth p l1 dflt) (Some a).
Proof.
  intros HF. revert p. induction HF as [| x y l1 l2 Hxy HF IH]; intros p E.
  - destruct p; discriminate.
  - destruct p; simpl in *; [now subst | now apply IH].
Qed.

(* ------------------------------------------------------------------------------------------------ *)
(* 3. one function body against its certificate                                                     *)
(* ------------------------------------------------------------------------------------------------ *)
Section Body.
  Variable sums : list summary.
  Variable callrel : nat -> heap -> list val -> heap -> val -> Prop.
  Hypothesis callrel_ok : forall g sm H vals H' r, nth_error sums g = Some sm ->
      closed H -> allocated H vals -> callrel g H vals H' r -> callspec sm H vals H' r.
  Variable f : fn.
  Variable H0 : heap.
  Variable args0 : list val.
  Hypothesis H0closed : closed H0.
  Hypothesis H0alloc : allocated H0 args0.

  (* ghost state: the allocation site (call site) that created an object *)
  Definition labelling := oid -> option site.

  (* concretisation of abstract objects *)
  Definition absr (L : labelling) (o : oid) (a : aobj) : Prop :=
    match a with
    | AArg p => nth p args0 None = Some o
    | AIn p => exists a0, nth p args0 None = Some a0 /\ reach H0 a0 o
    | ASite s => H0 o = None /\ L o = Some s
    end.
  Definition absin (L : labelling) (o : oid) (A : aset) : Prop := exists a, In a A /\ absr L o a.

  Record Inv (H : heap) (rho : store) (L : labelling) : Prop := {
    i_dom : forall o, H0 o <> None -> H o <> None;
    i_closed : closed H;
    i_store : forall x o, rho x = Some o -> H o <> None /\ absin L o (env f x);
    i_lab : forall o s, L o = Some s -> H0 o = None /\ H o <> None;
    i_site : forall o s ob q, L o = Some s -> H o = Some ob -> In q (orefs ob) -> absin L q (cont f s);
    i_old : forall o ob0 ob q, H0 o = Some ob0 -> H o = Some ob -> In q (orefs ob) ->
        In q (orefs ob0) \/ absin L q (fcontp f);
    i_frame : forall o, H0 o <> None -> H o = H0 o \/ may_touch (fwr0 f) (fwr f) H0 args0 o }.

  Lemma absin_incl L o A B : (forall a, In a A -> In a B) -> absin L o A -> absin L o B.
  Proof. intros HAB [a [Ha Hr]]. exists a. auto. Qed.

  Lemma absr_arg_alloc L o p : absr L o (AArg p) -> H0 o <> None.
  Proof. simpl. intros E. apply H0alloc. eapply nth_some_in; eauto. Qed.

  Lemma absr_in_alloc L o p : absr L o (AIn p) -> H0 o <> None.
  Proof.
    simpl. intros [a0 [E Hr]]. eapply reach_alloc; eauto. apply H0alloc. eapply nth_some_in; eauto.
  Qed.

  Lemma absr_in_of_arg L o p : absr L o (AArg p) -> absr L o (AIn p).
  Proof. simpl. intros E. exists o. split; [exact E | apply reach_refl]. Qed.

  (* the abstract reference graph covers the concrete one *)
  Lemma elem_sound H rho L o a ob q :
    Inv H rho L -> absr L o a -> H o = Some ob -> In q (orefs ob) -> absin L q (elem f a).
  Proof.
    intros I Ha Ho Hq. destruct a as [p | p | s].
    - pose proof (absr_arg_alloc _ _ _ Ha) as Hal. apply neq_none_some in Hal. destruct Hal as [ob0 Hob0].
      destruct (i_old _ _ _ I o ob0 ob q Hob0 Ho Hq) as [Hin | Hin].
      + exists (AIn p). split; [simpl; auto |]. simpl in Ha. simpl. exists o. split; [exact Ha |].
        eapply reach_step; eauto. apply reach_refl.
      + eapply absin_incl; [| exact Hin]. simpl. auto.
    - pose proof (absr_in_alloc _ _ _ Ha) as Hal. apply neq_none_some in Hal. destruct Hal as [ob0 Hob0].
      destruct (i_old _ _ _ I o ob0 ob q Hob0 Ho Hq) as [Hin | Hin].
      + exists (AIn p). split; [simpl; auto |]. simpl in Ha. destruct Ha as [a0 [E Hr]]. simpl. exists a0.
        split; [exact E |]. eapply reach_snoc; eauto.
      + eapply absin_incl; [| exact Hin]. simpl. auto.
    - simpl in Ha. destruct Ha as [_ HL]. simpl. eapply (i_site _ _ _ I); eauto.
  Qed.

  Lemma closure_sound H rho L A o q :
    Inv H rho L -> aclosed f A = true -> reach H o q -> absin L o A -> absin L q A.
  Proof.
    intros I Hcl Hr. unfold aclosed in Hcl. rewrite asub_incl in Hcl.
    induction Hr as [o | o ob r o' Ho Hin Hr IH]; intros Ha; [exact Ha |].
    apply IH. destruct Ha as [a [HaA Hra]].
    destruct (elem_sound _ _ _ _ _ _ _ I Hra Ho Hin) as [a' [Ha' Hra']].
    exists a'. split; [| exact Hra']. apply Hcl. unfold aelem. apply in_flat_map. exists a. auto.
  Qed.

  Lemma store_avars H rho L ys y o :
    Inv H rho L -> In y ys -> rho y = Some o -> H o <> None /\ absin L o (avars f ys).
  Proof.
    intros I Hy E. destruct (i_store _ _ _ I y o E) as [Hal Hab]. split; [exact Hal |].
    eapply absin_incl; [| exact Hab]. intros a Ha. unfold avars. apply in_flat_map. exists y. auto.
  Qed.

  (* ---- transfer: binding a variable ---- *)
  Lemma inv_bind H rho L x v :
    Inv H rho L -> (forall o, v = Some o -> H o <> None /\ absin L o (env f x)) -> Inv H (upd rho x v) L.
  Proof.
    intros I Hv. destruct I as [I1 I2 I3 I4 I5 I6 I7]. constructor; auto.
    intros x' o. unfold upd. destruct (Nat.eqb_spec x' x) as [-> | Hne]; [apply Hv | apply I3].
  Qed.

  (* ---- transfer: allocation ---- *)
  Lemma absr_upd_lab L o s q a : L o = None -> absr L q a -> absr (upd L o (Some s)) q a.
  Proof.
    intros HL. destruct a as [p | p | s']; simpl; auto. intros [Hq HLq]. split; [exact Hq |].
    unfold upd. destruct (Nat.eqb_spec q o) as [-> | Hne]; [congruence | exact HLq].
  Qed.

  Lemma inv_fresh H rho L o ob s :
    Inv H rho L -> H o = None ->
    (forall r, In r (orefs ob) -> H r <> None /\ absin L r (cont f s)) ->
    Inv (upd H o (Some ob)) rho (upd L o (Some s)) /\ absr (upd L o (Some s)) o (ASite s).
  Proof.
    intros I Ho Hrefs. pose proof I as [I1 I2 I3 I4 I5 I6 I7].
    assert (H0o : H0 o = None). { destruct (H0 o) eqn:E; [| reflexivity]. exfalso. apply (I1 o); congruence. }
    assert (Lo : L o = None). { destruct (L o) as [s' |] eqn:E; [| reflexivity]. destruct (I4 o s' E) as [_ A]. congruence. }
    assert (Hmono : forall q A, absin L q A -> absin (upd L o (Some s)) q A).
    { intros q A [a [Ha Hr]]. exists a. split; [exact Ha | now apply absr_upd_lab]. }
    split.
    - constructor.
      + intros q Hq. unfold upd. destruct (Nat.eqb_spec q o); [discriminate | auto].
      + intros q obq r. unfold upd. destruct (Nat.eqb_spec q o) as [-> | Hne].
        * intros E Hr. inversion E; subst obq. destruct (Hrefs r Hr) as [Hal _].
          destruct (Nat.eqb_spec r o); [discriminate | exact Hal].
        * intros E Hr. destruct (Nat.eqb_spec r o); [discriminate | eapply I2; eauto].
      + intros x q E. destruct (I3 x q E) as [Hal Hab]. split; [| now apply Hmono].
        unfold upd. destruct (Nat.eqb_spec q o); [discriminate | exact Hal].
      + intros q s'. unfold upd. destruct (Nat.eqb_spec q o) as [-> | Hne].
        * intros _. split; [exact H0o | discriminate].
        * apply I4.
      + intros q s' obq r. unfold upd at 1 2. destruct (Nat.eqb_spec q o) as [-> | Hne].
        * intros E1 E2 Hr. inversion E1; inversion E2; subst. apply Hmono. now apply Hrefs.
        * intros E1 E2 Hr. apply Hmono. eapply I5; eauto.
      + intros q ob0 obq r E0. unfold upd at 1. destruct (Nat.eqb_spec q o) as [-> | Hne]; [congruence |].
        intros E Hr. destruct (I6 q ob0 obq r E0 E Hr) as [A | A]; [left; exact A | right; now apply Hmono].
      + intros q Hq. unfold upd. destruct (Nat.eqb_spec q o) as [-> | Hne]; [congruence | now apply I7].
    - simpl. split; [exact H0o |]. unfold upd. now rewrite Nat.eqb_refl.
  Qed.

  (* ---- transfer: in-place update ---- *)
  Lemma touch_of_wtarget L S o a :
    absr L o a -> wtarget_ok f S a = true ->
    match a with
    | ASite s => forall b, In b S -> In b (cont f s)
    | _ => may_touch (fwr0 f) (fwr f) H0 args0 o /\ forall b, In b S -> In b (fcontp f)
    end.
  Proof.
    intros Ha Hw. destruct a as [p | p | s]; simpl in Hw.
    - apply andb_prop in Hw. destruct Hw as [Hp HS]. rewrite asub_incl in HS. split; [| exact HS].
      simpl in Ha. apply orb_prop in Hp. destruct Hp as [Hp | Hp]; apply nmem_In in Hp.
      + left. apply in_argsel. eauto.
      + right. exists o. split; [apply in_argsel; eauto | apply reach_refl].
    - apply andb_prop in Hw. destruct Hw as [Hp HS]. rewrite asub_incl in HS. split; [| exact HS].
      apply nmem_In in Hp. simpl in Ha. destruct Ha as [a0 [E Hr]]. right. exists a0.
      split; [apply in_argsel; eauto | exact Hr].
    - now rewrite asub_incl in Hw.
  Qed.

  Lemma inv_store H rho L S o ob ob' a :
    Inv H rho L -> H o = Some ob -> absr L o a -> wtarget_ok f S a = true ->
    (forall r, In r (orefs ob') -> In r (orefs ob) \/ (H r <> None /\ absin L r S)) ->
    Inv (upd H o (Some ob')) rho L.
  Proof.
    intros I Ho Ha Hw Hrefs. pose proof I as [I1 I2 I3 I4 I5 I6 I7].
    pose proof (touch_of_wtarget _ _ _ _ Ha Hw) as Ht.
    assert (Hdom : forall q, H q <> None -> upd H o (Some ob') q <> None).
    { intros q Hq. unfold upd. destruct (Nat.eqb_spec q o); [discriminate | exact Hq]. }
    constructor.
    - intros q Hq. apply Hdom. now apply I1.
    - intros q obq r. unfold upd at 1. destruct (Nat.eqb_spec q o) as [-> | Hne].
      + intros E Hr. inversion E; subst obq. apply Hdom. destruct (Hrefs r Hr) as [A | [A _]]; [| exact A].
        eapply I2; eauto.
      + intros E Hr. apply Hdom. eapply I2; eauto.
    - intros x q E. destruct (I3 x q E) as [Hal Hab]. split; [now apply Hdom | exact Hab].
    - intros q s E. destruct (I4 q s E) as [A B]. split; [exact A | now apply Hdom].
    - intros q s obq r HL. unfold upd. destruct (Nat.eqb_spec q o) as [-> | Hne].
      + intros E Hr. inversion E; subst obq. destruct (Hrefs r Hr) as [A | [_ A]]; [eapply I5; eauto |].
        destruct a as [p | p | s'].
        * exfalso. destruct (I4 o s HL) as [B _]. now apply (absr_arg_alloc _ _ _ Ha).
        * exfalso. destruct (I4 o s HL) as [B _]. now apply (absr_in_alloc _ _ _ Ha).
        * simpl in Ha. destruct Ha as [_ HL']. assert (s' = s) by congruence. subst s'.
          eapply absin_incl; [exact Ht | exact A].
      + intros E Hr. eapply I5; eauto.
    - intros q ob0 obq r E0. unfold upd. destruct (Nat.eqb_spec q o) as [-> | Hne].
      + intros E Hr. inversion E; subst obq. destruct (Hrefs r Hr) as [A | [_ A]]; [eapply I6; eauto |].
        destruct a as [p | p | s'].
        * right. eapply absin_incl; [apply Ht | exact A].
        * right. eapply absin_incl; [apply Ht | exact A].
        * simpl in Ha. destruct Ha as [B _]. congruence.
      + intros E Hr. eapply I6; eauto.
    - intros q Hq. unfold upd. destruct (Nat.eqb_spec q o) as [-> | Hne]; [| now apply I7].
      destruct a as [p | p | s'].
      + right. apply Ht.
      + right. apply Ht.
      + simpl in Ha. destruct Ha as [B _]. congruence.
  Qed.

  (* ---- transfer: a call that meets the meaning of its summary ---- *)
  Lemma args_sound H rho L args vals ps A q :
    Inv H rho L -> Forall2 (argval rho) args vals ->
    (forall p, In p ps -> forall a, In a (avars f (nth p args [])) -> In a A) ->
    aclosed f A = true ->
    reach_from H (argsel ps vals) q -> H q <> None /\ absin L q A.
  Proof.
    intros I HF Hsub Hcl [a0 [Hin Hr]]. apply in_argsel in Hin. destruct Hin as [p [Hp E]].
    pose proof (Forall2_nth_some _ [] _ _ _ _ HF E) as Hav. destruct Hav as [Hav | [y [Hy Hav]]]; [discriminate |].
    symmetry in Hav. destruct (store_avars _ _ _ _ _ _ I Hy Hav) as [Hal Hab]. split.
    - eapply reach_alloc; eauto. apply (i_closed _ _ _ I).
    - eapply closure_sound; eauto. eapply absin_incl; [apply (Hsub p Hp) | exact Hab].
  Qed.

  Lemma forallb_In {A} (P : A -> bool) l x : forallb P l = true -> In x l -> P x = true.
  Proof. intros HP Hx. rewrite forallb_forall in HP. now apply HP. Qed.

  Lemma inv_call H rho L x sr ss sm args W vals H' r :
    Inv H rho L -> check_call f x sr ss sm args W = true -> Forall2 (argval rho) args vals ->
    callspec sm H vals H' r ->
    exists L', Inv H' rho L' /\ (forall o, r = Some o -> H' o <> None /\ absin L' o (env f x)).
  Proof.
    intros I Hck HF CS. pose proof I as [I1 I2 I3 I4 I5 I6 I7].
    destruct sm as [[[wr0 wr] esc] sto]. unfold check_call in Hck.
    apply andb_prop in Hck; destruct Hck as [Hck c12]. apply andb_prop in Hck; destruct Hck as [Hck c11].
    apply andb_prop in Hck; destruct Hck as [Hck c10]. apply andb_prop in Hck; destruct Hck as [Hck c9].
    apply andb_prop in Hck; destruct Hck as [Hck c8]. apply andb_prop in Hck; destruct Hck as [Hck c7].
    apply andb_prop in Hck; destruct Hck as [Hck c6]. apply andb_prop in Hck; destruct Hck as [Hck c5].
    apply andb_prop in Hck; destruct Hck as [Hck c4]. apply andb_prop in Hck; destruct Hck as [Hck c3].
    apply andb_prop in Hck; destruct Hck as [c1 c2].
    apply amem_In in c1. rewrite asub_incl in c3. apply amem_In in c5. apply amem_In in c6.
    assert (c4' : forall p, In p esc -> forall a, In a (avars f (nth p args [])) -> In a (cont f sr)).
    { intros p Hp. apply asub_incl. exact (forallb_In _ _ _ c4 Hp). }
    assert (c8' : forall p, In p sto -> forall a, In a (avars f (nth p args [])) -> In a (cont f ss)).
    { intros p Hp. apply asub_incl. exact (forallb_In _ _ _ c8 Hp). }
    assert (c9' : forall p, In p wr -> forall a, In a (avars f (nth p args [])) -> In a W).
    { intros p Hp. apply asub_incl. exact (forallb_In _ _ _ c9 Hp). }
    destruct CS as [Cdom Cframe Cclosed Cesc]. simpl in Cframe.
    assert (Hvals : allocated H vals).
    { intros a Ha. apply In_nth with (d := None) in Ha. destruct Ha as [p [_ E]].
      pose proof (Forall2_nth_some _ [] _ _ _ _ HF E) as [Hav | [y [Hy Hav]]]; [discriminate |].
      symmetry in Hav. now destruct (I3 y a Hav). }
    specialize (Cclosed I2 Hvals).
    destruct Cesc as [NR [NS [Cnew [Cnr [Cns [Cold Cres]]]]]]. simpl in Cnr, Cns, Cold, Cres.
    set (L' := fun o => if NR o then Some sr else if NS o then Some ss else L o).
    (* facts about the pre-state *)
    assert (HRE : forall q, reach_from H (argsel esc vals) q -> H q <> None /\ absin L q (cont f sr)).
    { intros q Hq. eapply args_sound; eauto. }
    assert (HRS : forall q, reach_from H (argsel sto vals) q -> H q <> None /\ absin L q (cont f ss)).
    { intros q Hq. eapply args_sound; eauto. }
    assert (Hold_lab : forall q, H q <> None -> L' q = L q).
    { intros q Hq. unfold L'. destruct (NR q) eqn:E1.
      - destruct (Cnew q (or_introl E1)) as [A _]. congruence.
      - destruct (NS q) eqn:E2; [| reflexivity]. destruct (Cnew q (or_intror E2)) as [A _]. congruence. }
    assert (Hmono : forall q A, absin L q A -> absin L' q A).
    { intros q A [a [Ha Hr]]. exists a. split; [exact Ha |]. destruct a as [p | p | s]; simpl in *; auto.
      destruct Hr as [B HL]. split; [exact B |]. rewrite Hold_lab; [exact HL |]. now destruct (I4 q s HL). }
    assert (HH0new : forall q, H q = None -> H0 q = None).
    { intros q Hq. destruct (H0 q) eqn:E; [| reflexivity]. exfalso. apply (I1 q); congruence. }
    assert (HNR : forall q, NR q = true -> absr L' q (ASite sr)).
    { intros q E. simpl. destruct (Cnew q (or_introl E)) as [A _]. split; [now apply HH0new |]. unfold L'. now rewrite E. }
    assert (HNS : forall q, NS q = true -> absin L' q (cont f ss)).
    { intros q E. destruct (NR q) eqn:E1.
      - exists (ASite sr). split; [exact c6 | now apply HNR].
      - exists (ASite ss). split; [exact c5 |]. simpl. destruct (Cnew q (or_intror E)) as [A _].
        split; [now apply HH0new |]. unfold L'. now rewrite E1, E. }
    (* everything that may be stored into a written object is described by S = cont ss *)
    assert (HS : forall q, NS q = true \/ NR q = true \/ reach_from H (argsel sto vals) q -> absin L' q (cont f ss)).
    { intros q [A | [A | A]].
      - now apply HNS.
      - exists (ASite sr). split; [exact c6 | now apply HNR].
      - apply Hmono. now apply HRS. }
    (* an object the callee may touch is a legal write target of this function *)
    assert (Htouch : forall o, may_touch wr0 wr H vals o -> exists a, absr L o a /\ wtarget_ok f (cont f ss) a = true).
    { intros o [Hin | Hin].
      - apply in_argsel in Hin. destruct Hin as [p [Hp E]].
        pose proof (Forall2_nth_some _ [] _ _ _ _ HF E) as [Hav | [y [Hy Hav]]]; [discriminate |].
        symmetry in Hav. destruct (store_avars _ _ _ _ _ _ I Hy Hav) as [_ [a [Ha Hr]]].
        exists a. split; [exact Hr |]. exact (forallb_In _ _ _ (forallb_In _ _ _ c12 Hp) Ha).
      - destruct (args_sound _ _ _ _ _ _ W o I HF c9' c10 Hin) as [_ [a [Ha Hr]]].
        exists a. split; [exact Hr |]. exact (forallb_In _ _ _ c11 Ha). }
    exists L'. split.
    - constructor.
      + intros o Ho. apply Cdom. now apply I1.
      + exact Cclosed.
      + intros y o E. destruct (I3 y o E) as [Hal Hab]. split; [now apply Cdom | now apply Hmono].
      + intros o s. unfold L'. destruct (NR o) eqn:E1; [| destruct (NS o) eqn:E2].
        * intros _. destruct (Cnew o (or_introl E1)) as [A B]. split; [now apply HH0new | exact B].
        * intros _. destruct (Cnew o (or_intror E2)) as [A B]. split; [now apply HH0new | exact B].
        * intros E. destruct (I4 o s E) as [A B]. split; [exact A | now apply Cdom].
      + intros o s ob' q. unfold L' at 1. destruct (NR o) eqn:E1; [| destruct (NS o) eqn:E2].
        * intros E Hob' Hq. inversion E; subst s. destruct (Cnr o ob' q E1 Hob' Hq) as [A | A].
          -- exists (ASite sr). split; [exact c1 | now apply HNR].
          -- apply Hmono. now apply HRE.
        * intros E Hob' Hq. inversion E; subst s. apply HS. exact (Cns o ob' q E2 Hob' Hq).
        * intros HL Hob' Hq. destruct (I4 o s HL) as [Hnew Hal]. apply neq_none_some in Hal. destruct Hal as [ob Hob].
          destruct (Cframe o (some_neq_none _ _ Hob)) as [Heq | Ht].
          -- apply Hmono. eapply I5; eauto. congruence.
          -- destruct (Cold o ob ob' q Hob Hob' Hq) as [A | A]; [apply Hmono; eapply I5; eauto |].
             destruct (Htouch o Ht) as [a [Hr Hw]]. pose proof (touch_of_wtarget _ _ _ _ Hr Hw) as Hta.
             destruct a as [p | p | s'].
             ++ exfalso. now apply (absr_arg_alloc _ _ _ Hr).
             ++ exfalso. now apply (absr_in_alloc _ _ _ Hr).
             ++ simpl in Hr. destruct Hr as [_ HL']. assert (s' = s) by congruence. subst s'.
                eapply absin_incl; [exact Hta | now apply HS].
      + intros o ob0 ob' q E0 Hob' Hq.
        assert (Hal : H o <> None) by (apply I1; congruence). apply neq_none_some in Hal. destruct Hal as [ob Hob].
        destruct (Cframe o (some_neq_none _ _ Hob)) as [Heq | Ht].
        * assert (ob' = ob) by congruence. subst ob'.
          destruct (I6 o ob0 ob q E0 Hob Hq) as [A | A]; [left; exact A | right; now apply Hmono].
        * destruct (Cold o ob ob' q Hob Hob' Hq) as [A | A].
          -- destruct (I6 o ob0 ob q E0 Hob A) as [B | B]; [left; exact B | right; now apply Hmono].
          -- right. destruct (Htouch o Ht) as [a [Hr Hw]]. pose proof (touch_of_wtarget _ _ _ _ Hr Hw) as Hta.
             destruct a as [p | p | s'].
             ++ eapply absin_incl; [apply Hta | now apply HS].
             ++ eapply absin_incl; [apply Hta | now apply HS].
             ++ simpl in Hr. destruct Hr as [B _]. congruence.
      + intros o Ho. assert (Hal : H o <> None) by now apply I1.
        destruct (Cframe o Hal) as [Heq | Ht].
        * destruct (I7 o Ho) as [A | A]; [left; congruence | right; exact A].
        * destruct (Htouch o Ht) as [a [Hr Hw]]. pose proof (touch_of_wtarget _ _ _ _ Hr Hw) as Hta.
          destruct a as [p | p | s'].
          -- right. apply Hta.
          -- right. apply Hta.
          -- simpl in Hr. destruct Hr as [B _]. congruence.
    - intros o E. destruct (Cres o E) as [A | A].
      + split; [now destruct (Cnew o (or_introl A)) |]. exists (ASite sr). split; [now apply c3 | now apply HNR].
      + destruct (HRE o A) as [Hal Hab]. split; [now apply Cdom |]. apply Hmono. eapply absin_incl; [exact c3 | exact Hab].
  Qed.

  (* ---- expressions and commands ---- *)
  Lemma def_sound H rho L x e H' v :
    Inv H rho L -> check_def sums f x e = true -> eval callrel H rho e H' v ->
    exists L', Inv H' (upd rho x v) L'.
  Proof.
    intros I Hck Hev. destruct Hev as [| ys y Hy | ys | ys y o ob r Hy Ey Ho Hr | s ys o ob Ho Hrefs
                                       | sr ss g args W vals H' r HF Hcall | s args vals H' r HF CS]; cbn [check_def] in Hck.
    - exists L. apply inv_bind; [exact I | discriminate].
    - exists L. apply inv_bind; [exact I |]. intros o E. rewrite asub_incl in Hck.
      destruct (store_avars _ _ _ _ _ _ I Hy E) as [Hal Hab]. split; [exact Hal |]. eapply absin_incl; eauto.
    - exists L. apply inv_bind; [exact I | discriminate].
    - exists L. apply inv_bind; [exact I |]. intros o' E. inversion E; subst o'. rewrite asub_incl in Hck. split.
      + eapply (i_closed _ _ _ I); eauto.
      + destruct (store_avars _ _ _ _ _ _ I Hy Ey) as [_ [a [Ha Hra]]].
        destruct (elem_sound _ _ _ _ _ _ _ I Hra Ho Hr) as [a' [Ha' Hra']]. exists a'. split; [| exact Hra'].
        apply Hck. unfold aelem. apply in_flat_map. exists a. auto.
    - apply andb_prop in Hck. destruct Hck as [c1 c2]. apply amem_In in c1. rewrite asub_incl in c2.
      destruct (inv_fresh H rho L o ob s I Ho) as [I' Hab].
      { intros r Hr. destruct (Hrefs r Hr) as [y [Hy E]]. destruct (store_avars _ _ _ _ _ _ I Hy E) as [Hal Hab].
        split; [exact Hal |]. eapply absin_incl; eauto. }
      exists (upd L o (Some s)). apply inv_bind; [exact I' |]. intros o' E. inversion E; subst o'. split.
      + unfold upd. rewrite Nat.eqb_refl. discriminate.
      + exists (ASite s). auto.
    - destruct (nth_error sums g) as [sm |] eqn:Eg; [| discriminate].
      assert (Hvals : allocated H vals).
      { intros a Ha. apply In_nth with (d := None) in Ha. destruct Ha as [p [_ E]].
        pose proof (Forall2_nth_some _ [] _ _ _ _ HF E) as [Hav | [y [Hy Hav]]]; [discriminate |].
        symmetry in Hav. now destruct (i_store _ _ _ I y a Hav). }
      pose proof (callrel_ok g sm H vals H' r Eg (i_closed _ _ _ I) Hvals Hcall) as CS.
      destruct (inv_call _ _ _ _ _ _ _ _ _ _ _ _ I Hck HF CS) as [L' [I' Hr]].
      exists L'. now apply inv_bind.
    - destruct (inv_call _ _ _ _ _ _ _ _ _ _ _ _ I Hck HF CS) as [L' [I' Hr]].
      exists L'. now apply inv_bind.
  Qed.

  Definition out_ok (H : heap) (L : labelling) (out : outcome) : Prop :=
    forall o, result_of out = Some o -> H o <> None /\ absin L o (fE f).

  Lemma exec_sound c H rho H' rho' out :
    exec callrel c H rho H' rho' out -> forall L, check_cmd sums f c = true -> Inv H rho L ->
    exists L', Inv H' rho' L' /\ out_ok H' L' out.
  Proof.
    intros Hex. induction Hex as [H rho | x e H rho H' v Hev | ys vs H rho y o ob ob' Hy Ey Ho Hrefs | ys vs H rho
      | ys y H rho Hy | ys H rho
      | c1 c2 H rho H1 rho1 H2 rho2 out Hex1 IH1 Hex2 IH2 | c1 c2 H rho H1 rho1 r Hex1 IH1
      | c1 c2 H rho H1 rho1 out Hex1 IH1 | c1 c2 H rho H1 rho1 out Hex1 IH1
      | c H rho | b c H rho H1 rho1 H2 rho2 out Hex1 IH1 Hex2 IH2 | b c H rho H1 rho1 r Hex1 IH1];
      intros L Hck I; simpl in Hck.
    - exists L. split; [exact I | discriminate].
    - destruct (def_sound _ _ _ _ _ _ _ I Hck Hev) as [L' I']. exists L'. split; [exact I' | discriminate].
    - exists L. split; [| discriminate]. unfold check_store in Hck.
      destruct (store_avars _ _ _ _ _ _ I Hy Ey) as [_ [a [Ha Hra]]].
      eapply inv_store with (S := avars f vs); eauto.
      + exact (forallb_In _ _ _ Hck Ha).
      + intros r Hr. destruct (Hrefs r Hr) as [A | [v [Hv E]]]; [left; exact A | right].
        eapply store_avars; eauto.
    - exists L. split; [exact I | discriminate].
    - exists L. split; [exact I |]. intros o E. simpl in E. rewrite asub_incl in Hck.
      destruct (store_avars _ _ _ _ _ _ I Hy E) as [Hal Hab]. split; [exact Hal |]. eapply absin_incl; eauto.
    - exists L. split; [exact I | discriminate].
    - apply andb_prop in Hck. destruct Hck as [c1ok c2ok]. destruct (IH1 L c1ok I) as [L1 [I1 _]]. exact (IH2 L1 c2ok I1).
    - apply andb_prop in Hck. destruct Hck as [c1ok c2ok]. exact (IH1 L c1ok I).
    - apply andb_prop in Hck. destruct Hck as [c1ok c2ok]. exact (IH1 L c1ok I).
    - apply andb_prop in Hck. destruct Hck as [c1ok c2ok]. exact (IH1 L c2ok I).
    - exists L. split; [exact I | discriminate].
    - destruct (IH1 L Hck I) as [L1 [I1 _]]. exact (IH2 L1 Hck I1).
    - exact (IH1 L Hck I).
  Qed.

  Lemma inv_init : check_params f = true -> Inv H0 (store0 f args0) (fun _ => None).
  Proof.
    intros Hck. constructor; auto; try discriminate.
    - intros x o. unfold store0. destruct (Nat.ltb_spec x (List.length (fparams f))) as [Hlt | Hge]; [| discriminate].
      intros E. split; [apply H0alloc; eapply nth_some_in; eauto |]. exists (AArg x). split; [| exact E].
      apply amem_In. unfold check_params in Hck. apply (forallb_In _ _ _ Hck). apply in_seq. lia.
    - intros o ob0 ob q E0 E Hq. left. congruence.
  Qed.

  (* a function body whose certificate checks meets the meaning of its summary *)
  Lemma run_sound H' r :
    check_fn sums f = true -> run callrel f H0 args0 H' r -> callspec (fwr0 f, fwr f, fesc f, fsto f) H0 args0 H' r.
  Proof.
    intros Hck [rho' [out [Hex Er]]]. unfold check_fn in Hck.
    apply andb_prop in Hck; destruct Hck as [Hck k7]. apply andb_prop in Hck; destruct Hck as [Hck k6].
    apply andb_prop in Hck; destruct Hck as [Hck k5]. apply andb_prop in Hck; destruct Hck as [Hck k4].
    apply andb_prop in Hck; destruct Hck as [Hck k3]. apply andb_prop in Hck; destruct Hck as [k1 k2].
    destruct (exec_sound _ _ _ _ _ _ Hex _ k2 (inv_init k1)) as [L [I Hout]].
    destruct I as [I1 I2 I3 I4 I5 I6 I7].
    unfold aclosed in k3, k5. rewrite asub_incl in k3, k5, k6.
    set (NR := fun o => match L o with Some s => amem (ASite s) (fE f) | None => false end).
    set (NS := fun o => match L o with Some s => amem (ASite s) (fS f) | None => false end).
    assert (HE : forall q, absin L q (fE f) -> NR q = true \/ reach_from H0 (argsel (fesc f) args0) q).
    { intros q [a [Ha Hr]]. pose proof (forallb_In _ _ _ k4 Ha) as Hp. destruct a as [p | p | s]; simpl in Hp, Hr.
      - right. apply nmem_In in Hp. exists q. split; [apply in_argsel; eauto | apply reach_refl].
      - right. apply nmem_In in Hp. destruct Hr as [a0 [E Hr]]. exists a0. split; [apply in_argsel; eauto | exact Hr].
      - left. unfold NR. destruct Hr as [_ HL]. rewrite HL. now apply amem_In. }
    assert (HS : forall q, absin L q (fS f) -> NS q = true \/ reach_from H0 (argsel (fsto f) args0) q).
    { intros q [a [Ha Hr]]. pose proof (forallb_In _ _ _ k7 Ha) as Hp. destruct a as [p | p | s]; simpl in Hp, Hr.
      - right. apply nmem_In in Hp. exists q. split; [apply in_argsel; eauto | apply reach_refl].
      - right. apply nmem_In in Hp. destruct Hr as [a0 [E Hr]]. exists a0. split; [apply in_argsel; eauto | exact Hr].
      - left. unfold NS. destruct Hr as [_ HL]. rewrite HL. now apply amem_In. }
    constructor; simpl; auto.
    exists NR, NS. simpl. repeat split.
    - destruct H as [E | E]; [unfold NR in E | unfold NS in E]; destruct (L o) as [s |] eqn:HL; try discriminate;
        now destruct (I4 o s HL).
    - destruct H as [E | E]; [unfold NR in E | unfold NS in E]; destruct (L o) as [s |] eqn:HL; try discriminate;
        now destruct (I4 o s HL).
    - intros o ob q E Hob Hq. unfold NR in E. destruct (L o) as [s |] eqn:HL; [| discriminate]. apply amem_In in E.
      apply HE. eapply absin_incl; [| eapply I5; eauto]. intros a Ha. apply k3. unfold aelem. apply in_flat_map.
      exists (ASite s). auto.
    - intros o ob q E Hob Hq. unfold NS in E. destruct (L o) as [s |] eqn:HL; [| discriminate]. apply amem_In in E.
      assert (A : absin L q (fS f)).
      { eapply absin_incl; [| eapply I5; eauto]. intros a Ha. apply k5. unfold aelem. apply in_flat_map.
        exists (ASite s). auto. }
      destruct (HS q A); auto.
    - intros o ob ob' q Hob Hob' Hq. destruct (I6 o ob ob' q Hob Hob' Hq) as [A | A]; [left; exact A | right].
      assert (B : absin L q (fS f)) by (eapply absin_incl; [exact k6 | exact A]).
      destruct (HS q B); auto.
    - intros o E. subst r. apply HE. now apply Hout.
  Qed.
End Body.

(* ------------------------------------------------------------------------------------------------ *)
(* 4. whole programs                                                                                *)
(* ------------------------------------------------------------------------------------------------ *)
Definition summary_of (f : fn) : summary := (fwr0 f, fwr f, fesc f, fsto f).

Theorem check_sound P n g f H args H' r :
  check_prog P = true -> nth_error P g = Some f -> closed H -> allocated H args ->
  sem P n g H args H' r -> callspec (summary_of f) H args H' r.
Proof.
  intros HP. revert g f H args H' r. induction n as [| n IH]; intros g f H args H' r Hg Hc Ha Hs; [destruct Hs |].
  simpl in Hs. destruct Hs as [f' [Hg' Hrun]]. assert (f' = f) by congruence. subst f'.
  unfold summary_of. eapply run_sound with (sums := summaries P) (callrel := sem P n); eauto.
  - intros g1 sm H1 vals H1' r1 Eg Hc1 Ha1 Hs1. unfold summaries in Eg. rewrite nth_error_map in Eg.
    destruct (nth_error P g1) as [f1 |] eqn:E1; [| discriminate]. simpl in Eg. inversion Eg; subst sm.
    exact (IH g1 f1 H1 vals H1' r1 E1 Hc1 Ha1 Hs1).
  - unfold check_prog in HP. rewrite forallb_forall in HP. apply HP. eapply nth_error_In; eauto.
Qed.

(* ------------------------------------------------------------------------------------------------ *)
(* 5. what a summary means for the caller: writes and results                                       *)
(* ------------------------------------------------------------------------------------------------ *)
(* objects of the old heap: unchanged unless reachable from a parameter the summary lists as written *)
Lemma spec_writes sm H args H' r o :
  callspec sm H args H' r -> H o <> None ->
  H' o = H o \/ exists p, (In p (fst (fst (fst sm))) \/ In p (snd (fst (fst sm)))) /\ reach_from H [nth p args None] o.
Proof.
  intros CS Ho. destruct (cs_frame _ _ _ _ _ CS o Ho) as [A | [A | [a [A B]]]]; [left; exact A | right | right].
  - apply in_argsel in A. destruct A as [p [Hp E]]. exists p. split; [auto |]. exists o. split; [left; exact E | apply reach_refl].
  - apply in_argsel in A. destruct A as [p [Hp E]]. exists p. split; [auto |]. exists a. split; [left; exact E | exact B].
Qed.

(* everything the result reaches in the new heap is new, or was reachable from a parameter listed in esc / sto *)
Lemma spec_result sm H args H' r o q :
  closed H -> allocated H args -> callspec sm H args H' r -> r = Some o -> reach H' o q ->
  H q = None \/ exists p, (In p (snd (fst sm)) \/ In p (snd sm)) /\ reach_from H [nth p args None] q.
Proof.
  intros Hc Hal CS Er Hr. destruct (cs_esc _ _ _ _ _ CS) as [NR [NS [Cnew [Cnr [Cns [Cold Cres]]]]]].
  simpl in Cnr, Cns, Cold, Cres.
  set (Good := fun q => (NR q = true \/ NS q = true)
                        \/ reach_from H (argsel (snd (fst sm)) args) q \/ reach_from H (argsel (snd sm) args) q).
  assert (Hstart : Good o). { destruct (Cres o Er) as [A | A]; unfold Good; auto. }
  assert (Hstep : forall a b, Good a -> reach H' a b -> Good b).
  { intros a b Ga Hab. induction Hab as [a | a ob r1 b Ha Hin Hab IH]; [exact Ga |]. apply IH.
    destruct Ga as [[A | A] | A].
    - destruct (Cnr a ob r1 A Ha Hin); unfold Good; auto.
    - destruct (Cns a ob r1 A Ha Hin) as [B | [B | B]]; unfold Good; auto.
    - assert (Hal_a : H a <> None).
      { destruct A as [[a0 [A B]] | [a0 [A B]]]; (eapply reach_alloc; [exact Hc | | exact B]); apply Hal;
          apply in_argsel in A; destruct A as [p [_ E]]; eapply nth_some_in; eauto. }
      apply neq_none_some in Hal_a. destruct Hal_a as [ob0 Hob0].
      destruct (Cold a ob0 ob r1 Hob0 Ha Hin) as [B | [B | [B | B]]]; unfold Good; auto.
      right. destruct A as [[a0 [A C]] | [a0 [A C]]]; [left | right]; exists a0; (split; [exact A |]);
        eapply reach_snoc; eauto. }
  destruct (Hstep o q Hstart Hr) as [A | A].
  - left. now destruct (Cnew q A).
  - right. destruct A as [[a0 [A B]] | [a0 [A B]]]; apply in_argsel in A; destruct A as [p [Hp E]]; exists p;
      (split; [auto |]); exists a0; (split; [left; exact E | exact B]).
Qed.

Section Api.
  Variable P : prog.
  Variable api : list nat.
  Hypothesis Hapi : api_ok P api = true.

  Lemma api_prog : check_prog P = true.
  Proof. unfold api_ok in Hapi. apply andb_prop in Hapi. tauto. Qed.

  Lemma api_clean g f : In g api -> nth_error P g = Some f -> fn_clean f = true.
  Proof.
    intros Hg Ef. unfold api_ok in Hapi. apply andb_prop in Hapi. destruct Hapi as [_ A].
    rewrite forallb_forall in A. specialize (A g Hg). now rewrite Ef in A.
  Qed.

  (* no argument is modified, except the documented exceptions *)
  Theorem clean_writes n g f H args H' r o :
    In g api -> nth_error P g = Some f -> closed H -> allocated H args -> sem P n g H args H' r ->
    H o <> None ->
    H' o = H o \/ exists p, may_write (fname f) (fflags f) (pname f p) = true /\ reach_from H [nth p args None] o.
  Proof.
    intros Hg Ef Hc Hal Hs Ho. pose proof (check_sound P n g f H args H' r api_prog Ef Hc Hal Hs) as CS.
    destruct (spec_writes _ _ _ _ _ o CS Ho) as [A | [p [Hp Hr]]]; [left; exact A | right]. exists p. split; [| exact Hr].
    pose proof (api_clean g f Hg Ef) as Hcl. unfold fn_clean in Hcl.
    apply andb_prop in Hcl. destruct Hcl as [Hcl _]. apply andb_prop in Hcl. destruct Hcl as [Hw _].
    rewrite forallb_forall in Hw. apply Hw. apply in_or_app. exact Hp.
  Qed.

  (* nothing the result reaches is an object of the old heap, except through the documented exceptions *)
  Theorem clean_result n g f H args H' o q :
    In g api -> nth_error P g = Some f -> closed H -> allocated H args -> sem P n g H args H' (Some o) ->
    reach H' o q ->
    H q = None \/ exists p, may_store (fname f) (fflags f) (pname f p) = true /\ reach_from H [nth p args None] q.
  Proof.
    intros Hg Ef Hc Hal Hs Hr. pose proof (check_sound P n g f H args H' _ api_prog Ef Hc Hal Hs) as CS.
    destruct (spec_result _ _ _ _ _ o q Hc Hal CS eq_refl Hr) as [A | [p [Hp Hq]]]; [left; exact A | right].
    exists p. split; [| exact Hq].
    pose proof (api_clean g f Hg Ef) as Hcl. unfold fn_clean in Hcl.
    apply andb_prop in Hcl. destruct Hcl as [Hcl Hst]. apply andb_prop in Hcl. destruct Hcl as [_ Hre].
    rewrite forallb_forall in Hst, Hre. simpl in Hp. destruct Hp as [Hp | Hp].
    - unfold may_store. rewrite (Hre p Hp). reflexivity.
    - now apply Hst.
  Qed.
End Api.

(* functions with an empty summary: nothing of the old heap changes, everything the result reaches is new *)
Theorem pure_unchanged P n g f H args H' r o :
  check_prog P = true -> nth_error P g = Some f -> summary_of f = ([], [], [], []) ->
  closed H -> allocated H args -> sem P n g H args H' r -> H o <> None -> H' o = H o.
Proof.
  intros HP Ef Es Hc Hal Hs Ho. pose proof (check_sound P n g f H args H' r HP Ef Hc Hal Hs) as CS. rewrite Es in CS.
  destruct (spec_writes _ _ _ _ _ o CS Ho) as [A | [p [[[] | []] _]]]. exact A.
Qed.

Theorem pure_result_new P n g f H args H' o q :
  check_prog P = true -> nth_error P g = Some f -> summary_of f = ([], [], [], []) ->
  closed H -> allocated H args -> sem P n g H args H' (Some o) -> reach H' o q -> H q = None.
Proof.
  intros HP Ef Es Hc Hal Hs Hr. pose proof (check_sound P n g f H args H' _ HP Ef Hc Hal Hs) as CS. rewrite Es in CS.
  destruct (spec_result _ _ _ _ _ o q Hc Hal CS eq_refl Hr) as [A | [p [[[] | []] _]]]. exact A.
Qed.

(* ------------------------------------------------------------------------------------------------ *)
(* 6. non-vacuity: the semantics has mutating / aliasing executions, the checker rejects them, and   *)
(*    the hypotheses of the theorems are satisfiable                                                *)
(* ------------------------------------------------------------------------------------------------ *)
Definition ex_heap : heap := fun o => if Nat.eqb o 0 then Some (mkobj 5 []) else None.
(* Y[0] *= 2 on the argument *)
Definition ex_mutator : fn := mkfn "m.mutate" [] ["Y"] [] [] [] [] [[AArg 0]] [] [] [] [] (CStore [0] []).
(* return Y *)
Definition ex_aliaser : fn := mkfn "m.alias" [] ["Y"] [] [] [] [] [[AArg 0]] [] [] [] [] (CReturn [0]).
(* Z = [Y]; return Z   (a fresh list holding the argument) *)
Definition ex_wrapper : fn := mkfn "m.wrap" [] ["Y"] [] [] [] [] [[AArg 0]; [ASite 0]] [[AArg 0]] [] [ASite 0; AArg 0; AIn 0] []
                                   (CSeq (CDef 1 (EFresh 0 [0])) (CReturn [1])).
(* Z = Y.copy(); Z *= 2; return Z *)
Definition ex_copier : fn := mkfn "m.copy" [] ["Y"] [] [] [] [] [[AArg 0]; [ASite 0]] [[]] [] [ASite 0] []
                                  (CSeq (CDef 1 (EFresh 0 [])) (CSeq (CStore [1] []) (CReturn [1]))).

Lemma ex_heap_closed : closed ex_heap.
Proof. intros o ob r. unfold ex_heap. destruct (Nat.eqb o 0); [| discriminate]. intros E; inversion E; subst. intros []. Qed.
Lemma ex_heap_alloc : allocated ex_heap [Some 0].
Proof. intros a [E | []]. inversion E; subst. discriminate. Qed.

Lemma ex_mutator_runs :
  sem [ex_mutator] 1 0 ex_heap [Some 0] (upd ex_heap 0 (Some (mkobj 7 []))) None
  /\ upd ex_heap 0 (Some (mkobj 7 [])) 0 <> ex_heap 0.
Proof.
  split; [| discriminate]. simpl. exists ex_mutator. split; [reflexivity |]. exists (store0 ex_mutator [Some 0]), ONormal.
  split; [| reflexivity]. simpl. eapply ex_store with (y := 0) (ob := mkobj 5 []); simpl; auto; intros r [].
Qed.
Lemma ex_mutator_rejected : check_prog [ex_mutator] = false.
Proof. reflexivity. Qed.

Lemma ex_aliaser_runs : sem [ex_aliaser] 1 0 ex_heap [Some 0] ex_heap (Some 0).
Proof.
  simpl. exists ex_aliaser. split; [reflexivity |]. eexists _, _. split.
  - unfold ex_aliaser at 1. cbn [fbody]. apply ex_return with (y := 0). simpl. auto.
  - reflexivity.
Qed.
Lemma ex_aliaser_rejected : check_prog [ex_aliaser] = false.
Proof. reflexivity. Qed.

Lemma ex_wrapper_runs :
  sem [ex_wrapper] 1 0 ex_heap [Some 0] (upd ex_heap 1 (Some (mkobj 0 [0]))) (Some 1)
  /\ reach (upd ex_heap 1 (Some (mkobj 0 [0]))) 1 0.
Proof.
  split.
  - simpl. exists ex_wrapper. split; [reflexivity |]. eexists _, _. split.
    + unfold ex_wrapper at 1. cbn [fbody]. eapply ex_seq_n.
      * apply ex_def. apply ev_fresh with (o := 1) (ob := mkobj 0 [0]); [reflexivity |]. simpl. intros r [<- | []]. exists 0. simpl. auto.
      * apply ex_return with (y := 1). simpl. auto.
    + reflexivity.
  - apply reach_step with (ob := mkobj 0 [0]) (r := 0); [reflexivity | simpl; left; reflexivity | apply reach_refl].
Qed.
Lemma ex_wrapper_rejected : check_prog [ex_wrapper] = false.
Proof. reflexivity. Qed.

Lemma ex_copier_accepted : api_ok [ex_copier] [0] = true.
Proof. reflexivity. Qed.
Lemma ex_copier_runs :
  sem [ex_copier] 1 0 ex_heap [Some 0] (upd (upd ex_heap 1 (Some (mkobj 0 []))) 1 (Some (mkobj 9 []))) (Some 1).
Proof.
  simpl. exists ex_copier. split; [reflexivity |]. eexists _, _. split.
  - unfold ex_copier at 1. cbn [fbody]. eapply ex_seq_n.
    + apply ex_def. apply ev_fresh with (o := 1) (ob := mkobj 0 []); [reflexivity |]. intros r [].
    + eapply ex_seq_n.
      * eapply ex_store with (y := 1) (o := 1) (ob := mkobj 0 []) (ob' := mkobj 9 []); [simpl; auto | reflexivity | reflexivity | intros r []].
      * apply ex_return with (y := 1). simpl. auto.
  - reflexivity.
Qed.
