(* C11, part 1: vis.show's structural predicate, and the shape theorems ("every TT-returning routine returns a
   well-formed tensor with the expected mode sizes, for every valid input") for orthogonalize, truncate and svd.
   Only SHAPE contracts of the LAPACK oracles are assumed (Model/Wf.v), nothing about the values they return:
   the theorems therefore cover the zero tensor, rank-deficient unfoldings, over-ranked cores, rank 1, d = 1, 2,
   mode size 1, every threshold e (even a poisoned one) and every rank cap. *)
From Coq Require Import List Arith Lia PeanoNat ZArith Bool.
From TV Require Import Num.Ops Lin.Tab Lin.BigSum Lin.Mat TT.Chain Model.Transformation Model.Svd Model.Wf.
Import ListNotations.

(* ---------- list update ---------- *)
Lemma upd_length {A} (l : list A) k x : length (upd l k x) = length l.
Proof. revert k; induction l as [|y l IH]; intros [|k]; simpl; auto. Qed.
Lemma nth_upd_eq {A} (l : list A) k x d : k < length l -> nth k (upd l k x) d = x.
Proof. revert k; induction l as [|y l IH]; intros [|k]; simpl; intros H; try lia; auto. apply IH; lia. Qed.
Lemma nth_upd_neq {A} (l : list A) k m x d : m <> k -> nth m (upd l k x) d = nth m l d.
Proof.
  revert k m; induction l as [|y l IH]; intros [|k] [|m]; simpl; intros H; try lia; auto.
Qed.
Ltac nu := repeat first [rewrite nth_upd_eq by (rewrite ?upd_length; lia) | rewrite nth_upd_neq by lia].

Section ShowP.
Context {T : Type}.
Implicit Types (Y Zs : list (core T)).
Local Notation D := (@dcore T).

(* ---------- vis.show ---------- *)
Lemma show_scan_spec Y : forall ns rs,
  (chain (last rs 1) Y 1 -> show_scan Y ns rs = Ok (ns ++ shape Y, rs ++ map cr2 Y)) /\
  (~ chain (last rs 1) Y 1 -> show_scan Y ns rs = Err ValueError).
Proof.
  induction Y as [|G Y IH]; intros ns rs; cbn [show_scan chain shape map].
  - destruct (Nat.eqb_spec (last rs 1) 1) as [E|E]; cbn [negb]; split; intros H; try contradiction; auto.
    now rewrite !app_nil_r.
  - destruct (Nat.eqb_spec (cr1 G) (last rs 1)) as [E|E]; cbn [negb].
    + destruct (IH (ns ++ [cn G]) (rs ++ [cr2 G])) as [I1 I2]. rewrite last_last in I1, I2. split.
      * intros [_ H]. rewrite I1 by exact H. unfold shape. now rewrite <- !app_assoc.
      * intros H. apply I2. intros C. apply H. split; auto.
    + split; [intros [H _]; contradiction|reflexivity].
Qed.
(* show accepts exactly the lists that are non-empty chains from rank 1 to rank 1, and then reports shape and ranks *)
Theorem show_accepts Y : Y <> [] -> chain 1 Y 1 -> show Y = Ok (shape Y, ranks Y).
Proof.
  intros Hne C. destruct Y as [|G Y]; [contradiction|]. unfold show.
  destruct (show_scan_spec (G :: Y) [] [1]) as [I _]. now rewrite I.
Qed.
Theorem show_rejects Y : Y = [] \/ ~ chain 1 Y 1 -> show Y = Err ValueError.
Proof.
  intros H. destruct Y as [|G Y]; [reflexivity|]. unfold show.
  destruct (show_scan_spec (G :: Y) [] [1]) as [_ I]. apply I. destruct H as [H|H]; [discriminate|exact H].
Qed.
Lemma chain_dec Y : forall r rl, chain r Y rl \/ ~ chain r Y rl.
Proof.
  induction Y as [|G Y IH]; intros r rl; cbn [chain].
  - destruct (Nat.eq_dec r rl); auto.
  - destruct (Nat.eq_dec (cr1 G) r); [destruct (IH (cr2 G) rl); [left|right]; tauto | right; tauto].
Qed.
Theorem show_ok_iff Y : (exists p, show Y = Ok p) <-> Y <> [] /\ chain 1 Y 1.
Proof.
  split.
  - intros [p E]. destruct Y as [|G Y]; [discriminate|]. split; [discriminate|].
    destruct (show_scan_spec (G :: Y) [] [1]) as [_ I]. cbn [last] in I.
    destruct (chain_dec (G :: Y) 1 1) as [C|C]; [exact C|]. unfold show in E. rewrite I in E by exact C. discriminate.
  - intros [A B]. eexists. now apply show_accepts.
Qed.
End ShowP.

(* ---------- index form of well-formedness ---------- *)
Section IndexP.
Context {T : Type}.
Implicit Types (Y Zs : list (core T)).
Local Notation D := (@dcore T).

Lemma chain_index Y : forall r rl, Y <> [] ->
  (chain r Y rl <-> cr1 (nth 0 Y D) = r /\ cr2 (nth (length Y - 1) Y D) = rl /\
                    forall i, S i < length Y -> cr2 (nth i Y D) = cr1 (nth (S i) Y D)).
Proof.
  induction Y as [|G Y IH]; intros r rl Hne; [contradiction|]. destruct Y as [|G' Y'].
  - cbn. split; [intros [A B]; repeat split; auto; intros; lia|intros (A & B & _); auto].
  - cbn [chain]. assert (Hne' : G' :: Y' <> []) by discriminate.
    pose proof (IH (cr2 G) rl Hne') as I. cbn [chain] in I. rewrite I. clear I IH.
    replace (length (G :: G' :: Y') - 1) with (S (length (G' :: Y') - 1)) by (cbn [length]; lia).
    cbn [nth]. split.
    + intros (A & B & C & E). repeat split; auto. intros [|i] Hi; cbn [nth]; [auto|].
      apply E. cbn [length] in *. lia.
    + intros (A & B & E). split; [exact A|]. split; [symmetry; apply (E 0); cbn [length]; lia|]. split; [exact B|].
      intros i Hi. apply (E (S i)). cbn [length] in *. lia.
Qed.

Lemma nth_shape Y i : nth i (shape Y) 0 = cn (nth i Y D).
Proof. unfold shape. change 0 with (cn D). apply map_nth. Qed.

Theorem wfI_iff ns Y : wfI ns Y <-> valid ns Y.
Proof.
  unfold wfI, valid, tt_wf. split.
  - intros (L & P & F & La & Lk & Dm).
    assert (Hne : Y <> []) by (destruct Y; [simpl in L; lia|discriminate]).
    split; [split; [exact Hne|split]|split; [|split]].
    + apply (chain_index Y 1 1 Hne). rewrite L. auto.
    + apply Forall_nth. intros i d Hi. rewrite (nth_indep _ d D) by exact Hi. apply Dm. lia.
    + apply (list_eq_nth 0). { unfold shape. now rewrite map_length. }
      intros i Hi. unfold shape in Hi. rewrite map_length in Hi. rewrite nth_shape. apply Dm. lia.
    + apply Forall_nth. intros i d Hi. rewrite (nth_indep _ d 0) by exact Hi. apply Dm. lia.
    + apply Forall_nth. intros i d Hi. rewrite (nth_indep _ d D) by exact Hi. apply Dm. lia.
  - intros ((Hne & C & W) & S & Pn & Pr).
    assert (L : length Y = length ns) by (rewrite <- S; unfold shape; now rewrite map_length).
    apply (chain_index Y 1 1 Hne) in C. destruct C as (F & La & Lk). rewrite L in La, Lk.
    split; [exact L|]. split; [destruct Y; [contradiction|simpl in L; lia]|].
    split; [exact F|]. split; [exact La|]. split; [exact Lk|].
    intros i Hi. assert (E : nth i ns 0 = cn (nth i Y D)) by (rewrite <- S; apply nth_shape).
    split; [now rewrite E|].
    split; [apply (proj1 (Forall_nth _ _) W); lia|].
    split; [apply (proj1 (Forall_nth (fun n => 1 <= n) ns) Pn); lia|].
    apply (proj1 (Forall_nth (fun G => 1 <= cr2 G) Y) Pr); lia.
Qed.

Lemma wfI_cr1_pos ns Zs i : wfI ns Zs -> i < length ns -> 1 <= cr1 (nth i Zs D).
Proof.
  intros (L & P & F & La & Lk & Dm) Hi. destruct i as [|i]; [lia|].
  rewrite <- Lk by lia. apply Dm. lia.
Qed.

(* replacing two neighbouring cores by cores with the same outer dimensions and a consistent inner rank *)
Lemma wfI_replace2 ns Zs Zs' i : wfI ns Zs -> S i < length ns -> length Zs' = length Zs ->
  (forall m, m <> i -> m <> S i -> nth m Zs' D = nth m Zs D) ->
  cr1 (nth i Zs' D) = cr1 (nth i Zs D) -> cn (nth i Zs' D) = cn (nth i Zs D) ->
  cr2 (nth i Zs' D) = cr1 (nth (S i) Zs' D) -> 1 <= cr2 (nth i Zs' D) ->
  cn (nth (S i) Zs' D) = cn (nth (S i) Zs D) -> cr2 (nth (S i) Zs' D) = cr2 (nth (S i) Zs D) ->
  wfdat (nth i Zs' D) -> wfdat (nth (S i) Zs' D) -> wfI ns Zs'.
Proof.
  intros (L & P & F & La & Lk & Dm) Hi L' Fr A1 A2 A3 A4 B2 B3 W1 W2. unfold wfI.
  split; [congruence|]. split; [exact P|]. split; [|split; [|split]].
  - destruct (Nat.eq_dec 0 i) as [<-|Hn]; [congruence|]. rewrite Fr by lia. exact F.
  - destruct (Nat.eq_dec (length ns - 1) (S i)) as [E|Hn]; [rewrite E, B3, <- E; exact La|].
    rewrite Fr by lia. exact La.
  - intros j Hj. destruct (Nat.eq_dec j i) as [->|N1]; [exact A3|].
    destruct (Nat.eq_dec (S j) i) as [E|N2].
    { rewrite <- E in A1. rewrite A1. rewrite Fr by lia. apply Lk. exact Hj. }
    destruct (Nat.eq_dec j (S i)) as [->|N3].
    { rewrite B3. rewrite (Fr (S (S i))) by lia. apply Lk. exact Hj. }
    rewrite !Fr by lia. apply Lk. exact Hj.
  - intros j Hj. destruct (Nat.eq_dec j i) as [E1|N1].
    { subst j. rewrite A2. destruct (Dm i Hj) as (d1 & d2 & d3 & d4). auto. }
    destruct (Nat.eq_dec j (S i)) as [->|N2].
    { rewrite B2, B3. destruct (Dm (S i) Hj) as (d1 & d2 & d3 & d4). auto. }
    rewrite Fr by lia. apply Dm. exact Hj.
Qed.
(* replacing one core by a core with the same dimensions *)
Lemma wfI_replace1 ns Zs j G : wfI ns Zs -> j < length ns ->
  cr1 G = cr1 (nth j Zs D) -> cn G = cn (nth j Zs D) -> cr2 G = cr2 (nth j Zs D) -> wfdat G ->
  wfI ns (upd Zs j G).
Proof.
  intros (L & P & F & La & Lk & Dm) Hj A1 A2 A3 W. unfold wfI. rewrite upd_length.
  assert (X : forall m, nth m (upd Zs j G) D = if Nat.eqb m j then G else nth m Zs D).
  { intros m. destruct (Nat.eqb_spec m j) as [->|N]; [apply nth_upd_eq; lia|now apply nth_upd_neq]. }
  split; [exact L|]. split; [exact P|]. split; [|split; [|split]].
  - rewrite X. destruct (Nat.eqb_spec 0 j) as [<-|N]; congruence.
  - rewrite X. destruct (Nat.eqb_spec (length ns - 1) j) as [E|N]; [rewrite A3, <- E|]; exact La.
  - intros i Hi. rewrite !X. specialize (Lk i Hi).
    destruct (Nat.eqb_spec i j) as [E1|N1]; destruct (Nat.eqb_spec (S i) j) as [E|N2]; try lia.
    all: try (rewrite A3, <- E1; exact Lk). all: try (rewrite A1, <- E; exact Lk). all: exact Lk.
  - intros i Hi. rewrite X. specialize (Dm i Hi). destruct (Nat.eqb_spec i j) as [E1|N1]; [|exact Dm].
    subst i. rewrite A2, A3. tauto.
Qed.
(* a map that keeps the dimensions of every core *)
Lemma wfI_map ns Zs (f : core T -> core T) : wfI ns Zs ->
  (forall G, cr1 (f G) = cr1 G /\ cn (f G) = cn G /\ cr2 (f G) = cr2 G /\ wfdat (f G)) -> wfI ns (map f Zs).
Proof.
  intros (L & P & F & La & Lk & Dm) Hf. unfold wfI. rewrite map_length.
  assert (X : forall m, m < length ns -> nth m (map f Zs) D = f (nth m Zs D)).
  { intros m Hm. rewrite (nth_indep _ D (f D)) by (rewrite map_length; lia). apply map_nth. }
  split; [exact L|]. split; [exact P|]. split; [|split; [|split]].
  - rewrite X by lia. now rewrite (proj1 (Hf _)).
  - rewrite X by lia. destruct (Hf (nth (length ns - 1) Zs D)) as (_ & _ & -> & _). exact La.
  - intros i Hi. rewrite !X by lia. destruct (Hf (nth i Zs D)) as (_ & _ & -> & _).
    destruct (Hf (nth (S i) Zs D)) as (-> & _). now apply Lk.
  - intros i Hi. rewrite X by lia. destruct (Hf (nth i Zs D)) as (_ & -> & -> & W). specialize (Dm i Hi). tauto.
Qed.
End IndexP.

(* ---------- orthogonalize, truncate, svd: shapes ---------- *)
Section SweepP.
Context {T : Type} (K : ops T).
Implicit Types (Y Zs : list (core T)).
Local Notation D := (@dcore T).
Variable svdo : nat -> mat T -> mat T * list T * mat T.
Variable eigh : nat -> mat T -> list T * mat T.
Variable argsort : nat -> list T -> list nat.
Variable qr : nat -> mat T -> mat T * mat T.
Variable rq : nat -> mat T -> mat T * mat T.
Variable ilog2 : nat -> T -> Z.
Variable pow2frac : Z -> nat -> T.

Lemma tcore_stab_dims k G p thr :
  cr1 (fst (Transformation.core_stab K ilog2 k G p thr)) = cr1 G /\
  cn (fst (Transformation.core_stab K ilog2 k G p thr)) = cn G /\
  cr2 (fst (Transformation.core_stab K ilog2 k G p thr)) = cr2 G /\
  (wfdat G -> wfdat (fst (Transformation.core_stab K ilog2 k G p thr))).
Proof.
  unfold Transformation.core_stab. destruct (oleb K (cmax K G) thr); cbn [fst]; (split; [|split; [|split]]); auto.
  intros _. apply wfdat_mk.
Qed.

Section WithContracts.
Hypothesis Hqr : qr_shape qr.
Hypothesis Hrq : rq_shape rq.

Lemma orth_left_wf ns Zs i : wfI ns Zs -> S i < length ns ->
  exists Zs', orth_left K qr Zs i = Ok Zs' /\ wfI ns Zs'.
Proof.
  intros W Hi. pose proof W as (L & P & F & La & Lk & Dm). unfold orth_left.
  destruct (Nat.leb_spec (length Zs - 1) i) as [H|_]; [lia|].
  set (G1 := nth i Zs D). set (G2 := nth (S i) Zs D).
  destruct (Dm i ltac:(lia)) as (d1 & d2 & d3 & d4). fold G1 in d1, d2, d4.
  pose proof (wfI_cr1_pos ns Zs i W ltac:(lia)) as d5. fold G1 in d5.
  destruct (Hqr i (unfoldL K G1)) as [q1 q2]; [cbn [unfoldL mkmat mr]; nia|cbn [unfoldL mkmat mc]; lia|].
  destruct (qr i (unfoldL K G1)) as [Q R]. cbn [fst snd] in q1, q2.
  eexists; split; [reflexivity|].
  apply (wfI_replace2 ns Zs _ i W Hi); rewrite ?upd_length; auto.
  - intros m M1 M2. now nu.
  - nu. reflexivity.
  - nu. reflexivity.
  - nu. cbn [foldL foldR mkcore cr1 cr2 mmul mkmat mr mc]. now rewrite q1.
  - nu. exact q2.
  - nu. reflexivity.
  - nu. reflexivity.
  - nu. apply wfdat_mk.
  - nu. apply wfdat_mk.
Qed.

Lemma orth_right_wf ns Zs i : wfI ns Zs -> 1 <= i -> i < length ns ->
  exists Zs', orth_right K rq Zs i = Ok Zs' /\ wfI ns Zs'.
Proof.
  intros W H1 Hi. pose proof W as (L & P & F & La & Lk & Dm). unfold orth_right.
  destruct (Nat.eqb_spec i 0) as [H|_]; [lia|]. destruct (Nat.ltb_spec (length Zs - 1) i) as [H|_]; [lia|]. cbn [orb].
  set (G2 := nth i Zs D). set (G1 := nth (i - 1) Zs D).
  destruct (Dm i ltac:(lia)) as (d1 & d2 & d3 & d4). fold G2 in d1, d2, d4.
  pose proof (wfI_cr1_pos ns Zs i W ltac:(lia)) as d5. fold G2 in d5.
  destruct (Hrq i (unfoldR K G2)) as [q1 q2]; [cbn [unfoldR mkmat mr]; lia|cbn [unfoldR mkmat mc]; nia|].
  destruct (rq i (unfoldR K G2)) as [R Q]. cbn [fst snd] in q1, q2.
  eexists; split; [reflexivity|].
  assert (Ei : i = S (i - 1)) by lia.
  apply (wfI_replace2 ns Zs _ (i - 1) W); rewrite <- ?Ei; rewrite ?upd_length; auto; try lia.
  - intros m M1 M2. now nu.
  - nu. reflexivity.
  - nu. reflexivity.
  - nu. cbn [foldL foldR mkcore cr1 cr2 mmul mkmat mr mc]. exact q1.
  - nu. cbn [foldL mkcore cr2 mmul mkmat mc]. rewrite q1. exact q2.
  - nu. reflexivity.
  - nu. reflexivity.
  - nu. apply wfdat_mk.
  - nu. apply wfdat_mk.
Qed.

Lemma orth_left_sweep_wf ns us n : forall Zs p i, wfI ns Zs -> i + n + 1 <= length ns ->
  exists Zs' p', orth_left_sweep K qr ilog2 Zs p us i n = Ok (Zs', p') /\ wfI ns Zs'.
Proof.
  induction n as [|n IH]; intros Zs p i W Hn; cbn [orth_left_sweep]; [eauto|].
  destruct (orth_left_wf ns Zs i W) as (Z1 & -> & W1); [lia|]. destruct us.
  - pose proof (tcore_stab_dims (S i) (nth (S i) Z1 D) p (o0 K)) as (c1 & c2 & c3 & c4).
    destruct (Transformation.core_stab K ilog2 (S i) (nth (S i) Z1 D) p (o0 K)) as [G p1]. cbn [fst] in *.
    apply IH; [|lia]. apply wfI_replace1; auto; [lia|]. apply c4.
    destruct W1 as (_ & _ & _ & _ & _ & Dm). apply Dm. lia.
  - apply IH; [exact W1|lia].
Qed.
Lemma orth_right_sweep_wf ns us n : forall Zs p i, wfI ns Zs -> n <= i -> i < length ns ->
  exists Zs' p', orth_right_sweep K rq ilog2 Zs p us i n = Ok (Zs', p') /\ wfI ns Zs'.
Proof.
  induction n as [|n IH]; intros Zs p i W Hn Hi; cbn [orth_right_sweep]; [eauto|].
  destruct (orth_right_wf ns Zs i W) as (Z1 & -> & W1); [lia|lia|]. destruct us.
  - pose proof (tcore_stab_dims (i - 1) (nth (i - 1) Z1 D) p (o0 K)) as (c1 & c2 & c3 & c4).
    destruct (Transformation.core_stab K ilog2 (i - 1) (nth (i - 1) Z1 D) p (o0 K)) as [G p1]. cbn [fst] in *.
    apply IH; [|lia|lia]. apply wfI_replace1; auto; [lia|]. apply c4.
    destruct W1 as (_ & _ & _ & _ & _ & Dm). apply Dm. lia.
  - apply IH; [exact W1|lia|lia].
Qed.

(* orthogonalize(Y, k, use_stab): every valid Y (d >= 1), every admissible pivot (None = d-1), both use_stab *)
Theorem orthogonalize_wfI ns Y k us : wfI ns Y ->
  match k with None => True | Some kz => (0 <= kz < Z.of_nat (length ns))%Z end ->
  exists Zs p, orthogonalize K qr rq ilog2 Y k us = Ok (Zs, p) /\ wfI ns Zs.
Proof.
  intros W Hk. pose proof W as (L & P & _). unfold orthogonalize. rewrite L.
  set (kz := match k with None => (Z.of_nat (length ns) - 1)%Z | Some k0 => k0 end).
  assert (Hkz : (0 <= kz < Z.of_nat (length ns))%Z) by (destruct k; subst kz; lia).
  destruct (Z.ltb_spec kz 0); [lia|]. destruct (Z.ltb_spec (Z.of_nat (length ns) - 1) kz); [lia|]. cbn [orb].
  destruct (orth_left_sweep_wf ns us (Z.to_nat kz) Y 0%Z 0 W) as (Z1 & p1 & -> & W1); [lia|].
  apply orth_right_sweep_wf; [exact W1|lia|lia].
Qed.
End WithContracts.

(* ---- the rank rule and the two truncated factorisations ---- *)
Lemma rank_select_pos x e2 rcap : 1 <= rank_select K x e2 rcap.
Proof. unfold rank_select. lia. Qed.
Lemma rank_select_le x e2 rcap : rank_select K x e2 rcap <= Nat.max 1 (length x).
Proof. unfold rank_select. lia. Qed.

(* matrix_svd: inner dimensions agree and are >= 1, whatever eigh and argsort return *)
Lemma matrix_svd_shape k A e rcap :
  mc (fst (matrix_svd K eigh argsort k A e rcap)) = mr (snd (matrix_svd K eigh argsort k A e rcap)) /\
  1 <= mc (fst (matrix_svd K eigh argsort k A e rcap)).
Proof.
  unfold matrix_svd. destruct (eigh k _) as [w0 U0].
  destruct (mr A <=? mc A); cbn [fst snd mmul mtrans mtakec mkmat mr mc mcols]; split;
    auto using rank_select_pos.
Qed.
Lemma matrix_skeleton_shape k A e rcap rel g : 1 <= length (snd (fst (svdo k A))) ->
  mc (fst (matrix_skeleton K svdo k A e rcap rel g)) = mr (snd (matrix_skeleton K svdo k A e rcap rel g)) /\
  1 <= mc (fst (matrix_skeleton K svdo k A e rcap rel g)).
Proof.
  unfold matrix_skeleton. destruct (svdo k A) as [[U s] V]. cbn [fst snd]. intros Hs.
  set (q := rank_select K _ _ _).
  assert (Hq : 1 <= q <= length s).
  { split; [apply rank_select_pos|]. subst q. etransitivity; [apply rank_select_le|].
    rewrite map_length. destruct rel; rewrite ?map_length; lia. }
  assert (Lf : length (firstn q s) = q) by (rewrite firstn_length; lia).
  destruct g; cbn [fst snd mmul mtaker mtakec mkmat mr mc diagl]; rewrite ?map_length, ?Lf; lia.
Qed.

Section Trunc.
Hypothesis Hsvd : svd_shape svdo.

Lemma trunc_sweep_wf ns e rcap is_eigh n : forall Zs k, wfI ns Zs -> n <= k -> k < length ns ->
  wfI ns (trunc_sweep K svdo eigh argsort Zs e rcap is_eigh k n).
Proof.
  induction n as [|n IH]; intros Zs k W Hn Hk; cbn [trunc_sweep]; [exact W|].
  pose proof W as (L & P & F & La & Lk & Dm).
  set (G := nth k Zs D).
  destruct (Dm k Hk) as (d1 & d2 & d3 & d4). fold G in d1, d2, d4.
  pose proof (wfI_cr1_pos ns Zs k W Hk) as d5. fold G in d5.
  assert (X : forall UV : mat T * mat T, mc (fst UV) = mr (snd UV) -> 1 <= mc (fst UV) ->
    wfI ns (let '(U, V) := UV in
            trunc_sweep K svdo eigh argsort
              (upd (upd Zs k (foldR K (cn G) (cr2 G) V)) (k - 1)
                   (core_mulR K (nth (k - 1) (upd Zs k (foldR K (cn G) (cr2 G) V)) D) U)) e rcap is_eigh (k - 1) n)).
  { intros [U V]. cbn [fst snd]. intros E1 E2. apply IH; [|lia|lia].
    assert (Ek : k = S (k - 1)) by lia.
    apply (wfI_replace2 ns Zs _ (k - 1) W); rewrite <- ?Ek; rewrite ?upd_length; auto; try lia.
    - intros m M1 M2. now nu.
    - nu. reflexivity.
    - nu. reflexivity.
    - nu. cbn [core_mulR foldR mkcore cr1 cr2]. exact E1.
    - nu. exact E2.
    - nu. reflexivity.
    - nu. reflexivity.
    - nu. apply wfdat_mk.
    - nu. apply wfdat_mk. }
  destruct is_eigh.
  - apply X; apply matrix_svd_shape.
  - apply X; apply matrix_skeleton_shape; apply Hsvd; cbn [unfoldR mkmat mr mc]; nia.
Qed.

Hypothesis Hqr : qr_shape qr.
Hypothesis Hrq : rq_shape rq.

(* truncate(Y, e, r, orth, use_stab, is_eigh): every flag combination, every e and r, every valid Y with d >= 1 *)
Theorem truncate_wfI ns Y e rcap orth us is_eigh : wfI ns Y ->
  exists Zs, truncate K svdo eigh argsort qr rq ilog2 pow2frac Y e rcap orth us is_eigh = Ok Zs /\ wfI ns Zs.
Proof.
  intros W. pose proof W as (L & P & _). unfold truncate. rewrite L.
  assert (X : forall Zs p e', wfI ns Zs -> exists Zr,
    (let Zt := trunc_sweep K svdo eigh argsort Zs e' rcap is_eigh (length ns - 1) (length ns - 1) in
     if us then Ok (map (fun G => mkcore (cr1 G) (cn G) (cr2 G)
                                   (fun a i b => omul K (cget K G a i b) (pow2frac p (length ns)))) Zt)
     else Ok Zt) = Ok Zr /\ wfI ns Zr).
  { intros Zs p e' WZ. pose proof (trunc_sweep_wf ns e' rcap is_eigh (length ns - 1) Zs (length ns - 1) WZ) as Wt.
    cbv zeta. destruct us; eexists; (split; [reflexivity|]).
    - apply wfI_map; [apply Wt; lia|]. intros G. (split; [|split; [|split]]); try reflexivity. apply wfdat_mk.
    - apply Wt; lia. }
  destruct orth.
  - destruct (orthogonalize_wfI Hqr Hrq ns Y (Some (Z.of_nat (length ns) - 1)%Z) us W) as (Zs & p & -> & WZ); [lia|].
    apply X. exact WZ.
  - apply X. exact W.
Qed.
End Trunc.

(* ---- svd(Y_full, e, r): no contract at all on np.linalg.svd is needed for the shape ---- *)
Lemma svd_loop_chain e rcap ns : forall k0 Zm q, ns <> [] -> 1 <= q ->
  let Y := svd_loop K svdo k0 Zm q ns e rcap in
  chain q Y 1 /\ shape Y = ns /\ Forall wfdat Y /\ Forall (fun G => 1 <= cr2 G) Y /\ Y <> [].
Proof.
  induction ns as [|k ns IH]; intros k0 Zm q Hne Hq; [contradiction|].
  destruct ns as [|k' ns'].
  - cbn [svd_loop]. split; [cbn; auto|]. split; [reflexivity|].
    split; [constructor; [apply wfdat_mk|constructor]|].
    split; [constructor; [cbn; lia|constructor]|discriminate].
  - cbn zeta. change (svd_loop K svdo k0 Zm q (k :: k' :: ns') e rcap) with
      (let total := (mr Zm * mc Zm)%nat in
       let A := reshapeC K Zm (q * k) (total / (q * k)) in
       let '(G, Zr) := matrix_skeleton K svdo k0 A e rcap false GiveR in
       let q' := mc G in
       mkcore q k q' (fun a i c => mget K G (a * k + i) c) :: svd_loop K svdo (S k0) Zr q' (k' :: ns') e rcap).
    cbv zeta.
    set (A := reshapeC K Zm (q * k) (mr Zm * mc Zm / (q * k))).
    assert (Hm : 1 <= mc (fst (matrix_skeleton K svdo k0 A e rcap false GiveR))).
    { unfold matrix_skeleton. destruct (svdo k0 A) as [[U s] V]. cbn [fst mtakec mkmat mc]. apply rank_select_pos. }
    destruct (matrix_skeleton K svdo k0 A e rcap false GiveR) as [G Zr]. cbn [fst] in Hm.
    destruct (IH (S k0) Zr (mc G) ltac:(discriminate) Hm) as (c1 & c2 & c3 & c4 & c5).
    split; [cbn [chain mkcore cr1 cr2]; auto|]. split; [cbn [shape map mkcore cn]; f_equal; exact c2|].
    split; [constructor; [apply wfdat_mk|exact c3]|].
    split; [constructor; [exact Hm|exact c4]|discriminate].
Qed.
Theorem svd_valid ns data e rcap : ns <> [] -> Forall (fun n => 1 <= n) ns ->
  valid ns (svd K svdo ns data e rcap).
Proof.
  intros Hne Hp. unfold svd.
  destruct (svd_loop_chain e rcap ns O (mkmat 1 (fold_right Nat.mul 1 ns) (fun _ j => nth j data (o0 K))) 1 Hne (le_n 1))
    as (c1 & c2 & c3 & c4 & c5).
  unfold valid, tt_wf. auto 10.
Qed.

(* ---- the same theorems in the index-free vocabulary ---- *)
Theorem orthogonalize_valid ns Y k us : qr_shape qr -> rq_shape rq -> valid ns Y ->
  match k with None => True | Some kz => (0 <= kz < Z.of_nat (length Y))%Z end ->
  exists Zs p, orthogonalize K qr rq ilog2 Y k us = Ok (Zs, p) /\ valid ns Zs.
Proof.
  intros Hq Hr V Hk. apply wfI_iff in V. pose proof V as (L & _). rewrite L in Hk.
  destruct (orthogonalize_wfI Hq Hr ns Y k us V Hk) as (Zs & p & E & W).
  exists Zs, p. split; [exact E|now apply wfI_iff].
Qed.
Theorem truncate_valid ns Y e rcap orth us is_eigh : svd_shape svdo -> qr_shape qr -> rq_shape rq -> valid ns Y ->
  exists Zs, truncate K svdo eigh argsort qr rq ilog2 pow2frac Y e rcap orth us is_eigh = Ok Zs /\ valid ns Zs.
Proof.
  intros Hs Hq Hr V. apply wfI_iff in V.
  destruct (truncate_wfI Hs Hq Hr ns Y e rcap orth us is_eigh V) as (Zs & E & W).
  exists Zs. split; [exact E|now apply wfI_iff].
Qed.
End SweepP.

(* svd_matrix: q >= 1 modes of size 4, for every 2^q x 2^q matrix (zero, identity, rank 1, ...) *)
Theorem svd_matrix_valid {T} (K : ops T) svdo q A e rcap : 1 <= q ->
  valid (repeat 4 q) (svd_matrix K svdo q A e rcap).
Proof.
  intros Hq. unfold svd_matrix. apply svd_valid.
  - destruct q; [lia|discriminate].
  - apply Forall_forall. intros n Hn. apply repeat_spec in Hn. lia.
Qed.
