(* C11, part 1: vis.show's structural predicate, and the shape theorems ("every TT-returning routine returns a
   well-formed tensor with the expected mode sizes, for every valid input") for orthogonalize, truncate and svd.
   Only SHAPE contracts of the LAPACK oracles are assumed (Model/Wf.v), nothing about the values they return:
   the theorems therefore cover the zero tensor, rank-deficient unfoldings, over-ranked cores, rank 1, d = 1, 2,
   mode size 1, every threshold e (even a poisoned one) and every rank cap. *)
From Coq Require Import List Arith Lia PeanoNat ZArith Bool.
From TV Require Import Num.Ops Lin.Tab Lin.BigSum Lin.Mat TT.Chain Model.Transformation Model.Svd Model.Wf.
Import ListNotations.

(* ---------- list update ---------- *)
Lemma upd_length {A} (l : list A) k x : length (upd l k x) = length l.
Proof. revert k; induction l as [|y l IH]; intros [|k]; simpl; auto. Qed.
Lemma nth_upd_eq {A} (l : list A) k x d : k < length l -> nth k (upd l k x) d = x.
Proof. revert k; induction l as [|y l IH]; intros [|k]; simpl; intros H; try lia; auto. apply IH; lia. Qed.
Lemma nth_upd_neq {A} (l : list A) k m x d : m <> k -> nth m (upd l k x) d = nth m l d.
Proof.
  revert k m; induction l as [|y l IH]; intros [|k] [|m]; simpl; intros H; try lia; auto.
Qed.
Ltac nu := repeat first [rewrite nth_upd_eq by (rewrite ?upd_length; lia) | rewrite nth_upd_neq by lia].

Section ShowP.
Context {T : Type}.
Implicit Types (Y Zs : list (core T)).
Local Notation D := (@dcore T).

(* ---------- vis.show ---------- *)
Lemma show_scan_spec Y : forall ns rs,
  (chain (last rs 1) Y 1 -> show_scan Y ns rs = Ok (ns ++ shape Y, rs ++ map cr2 Y)) /\
  (~ chain (last rs 1) Y 1 -> show_scan Y ns rs = Err ValueError).
Proof.
  induction Y as [|G Y IH]; intros ns rs; cbn [show_scan chain shape map].
  - destruct (Nat.eqb_spec (last rs 1) 1) as [E|E]; cbn [negb]; split; intros H; try contradiction; auto.
    now rewrite !app_nil_r.
  - destruct (Nat.eqb_spec (cr1 G) (last rs 1)) as [E|E]; cbn [negb].
    + destruct (IH (ns ++ [cn G]) (rs ++ [cr2 G])) as [I1 I2]. rewrite last_last in I1, I2. split.
      * intros [_ H]. rewrite I1 by exact H. unfold shape. now rewrite <- !app_assoc.
      * intros H. apply I2. intros C. apply H. split; auto.
    + split; [intros [H _]; contradiction|reflexivity].
Qed.
(* show accepts exactly the lists that are non-empty chains from rank 1 to rank 1, and then reports shape and ranks *)
Theorem show_accepts Y : Y <> [] -> chain 1 Y 1 -> show Y = Ok (shape Y, ranks Y).
Proof.
  intros Hne C. destruct Y as [|G Y]; [contradiction|]. unfold show.
  destruct (show_scan_spec (G :: Y) [] [1]) as [I _]. now rewrite I.
Qed.
Theorem show_rejects Y : Y = [] \/ ~ chain 1 Y 1 -> show Y = Err ValueError.
Proof.
  intros H. destruct Y as [|G Y]; [reflexivity|]. unfold show.
  destruct (show_scan_spec (G :: Y) [] [1]) as [_ I]. apply I. destruct H as [H|H]; [discriminate|exact H].
Qed.
Lemma chain_dec Y : forall r rl, chain r Y rl \/ ~ chain r Y rl.
Proof.
  induction Y as [|G Y IH]; intros r rl; cbn [chain].
  - destruct (Nat.eq_dec r rl); auto.
  - destruct (Nat.eq_dec (cr1 G) r); [destruct (IH (cr2 G) rl); [left|right]; tauto | right; tauto].
Qed.
Theorem show_ok_iff Y : (exists p, show Y = Ok p) <-> Y <> [] /\ chain 1 Y 1.
Proof.
  split.
  - intros [p E]. destruct Y as [|G Y]; [discriminate|]. split; [discriminate|].
    destruct (show_scan_spec (G :: Y) [] [1]) as [_ I]. cbn [last] in I.
    destruct (chain_dec (G :: Y) 1 1) as [C|C]; [exact C|]. unfold show in E. rewrite I in E by exact C. discriminate.
  - intros [A B]. eexists. now apply show_accepts.
Qed.
End ShowP.

(* ---------- index form of well-formedness ---------- *)
Section IndexP.
Context {T : Type}.
Implicit Types (Y Zs : list (core T)).
Local Notation D := (@dcore T).

Lemma chain_index Y : forall r rl, Y <> [] ->
  (chain r Y rl <-> cr1 (nth 0 Y D) = r /\ cr2 (nth (length Y - 1) Y D) = rl /\
                    forall i, S i < length Y -> cr2 (nth i Y D) = cr1 (nth (S i) Y D)).
Proof.
  induction Y as [|G Y IH]; intros r rl Hne; [contradiction|]. destruct Y as [|G' Y'].
  - cbn. split; [intros [A B]; repeat split; auto; intros; lia|intros (A & B & _); auto].
  - cbn [chain]. assert (Hne' : G' :: Y' <> []) by discriminate.
    pose proof (IH (cr2 G) rl Hne') as I. cbn [chain] in I. rewrite I. clear I IH.
    replace (length (G :: G' :: Y') - 1) with (S (length (G' :: Y') - 1)) by (cbn [length]; lia).
    cbn [nth]. split.
    + intros (A & B & C & E). repeat split; auto. intros [|i] Hi; cbn [nth]; [auto|].
      apply E. cbn [length] in *. lia.
    + intros (A & B & E). split; [exact A|]. split; [symmetry; apply (E 0); cbn [length]; lia|]. split; [exact B|].
      intros i Hi. apply (E (S i)). cbn [length] in *. lia.
Qed.

Lemma nth_shape Y i : nth i (shape Y) 0 = cn (nth i Y D).
Proof. unfold shape. change 0 with (cn D). apply map_nth. Qed.

Theorem wfI_iff ns Y : wfI ns Y <-> valid ns Y.
Proof.
  unfold wfI, valid, tt_wf. split.
  - intros (L & P & F & La & Lk & Dm).
    assert (Hne : Y <> []) by (destruct Y; [simpl in L; lia|discriminate]).
    split; [split; [exact Hne|split]|split; [|split]].
    + apply (chain_index Y 1 1 Hne). rewrite L. auto.
    + apply Forall_nth. intros i d Hi. rewrite (nth_indep _ d D) by exact Hi. apply Dm. lia.
    + apply (list_eq_nth 0). { unfold shape. now rewrite map_length. }
      intros i Hi. unfold shape in Hi. rewrite map_length in Hi. rewrite nth_shape. apply Dm. lia.
    + apply Forall_nth. intros i d Hi. rewrite (nth_indep _ d 0) by exact Hi. apply Dm. lia.
    + apply Forall_nth. intros i d Hi. rewrite (nth_indep _ d D) by exact Hi. apply Dm. lia.
  - intros ((Hne & C & W) & S & Pn & Pr).
    assert (L : length Y = length ns) by (rewrite <- S; unfold shape; now rewrite map_length).
    apply (chain_index Y 1 1 Hne) in C. destruct C as (F & La & Lk). rewrite L in La, Lk.
    split; [exact L|]. split; [destruct Y; [contradiction|simpl in L; lia]|].
    split; [exact F|]. split; [exact La|]. split; [exact Lk|].
    intros i Hi. assert (E : nth i ns 0 = cn (nth i Y D)) by (rewrite <- S; apply nth_shape).
    split; [now rewrite E|].
    split; [apply (proj1 (Forall_nth _ _) W); lia|].
    split; [apply (proj1 (Forall_nth (fun n => 1 <= n) ns) Pn); lia|].
    apply (proj1 (Forall_nth (fun G => 1 <= cr2 G) Y) Pr); lia.
Qed.

Lemma wfI_cr1_pos ns Zs i : wfI ns Zs -> i < length ns -> 1 <= cr1 (nth i Zs D).
Proof.
  intros (L & P & F & La & Lk & Dm) Hi. destruct i as [|i]; [lia|].
  rewrite <- Lk by lia. apply Dm. lia.
Qed.

(* replacing two neighbouring cores by cores with the same outer dimensions and a consistent inner rank *)
Lemma wfI_replace2 ns Zs Zs' i : wfI ns Zs -> S i < length ns -> length Zs' = length Zs ->
  (forall m, m <> i -> m <> S i -> nth m Zs' D = nth m Zs D) ->
  cr1 (nth i Zs' D) = cr1 (nth i Zs D) -> cn (nth i Zs' D) = cn (nth i Zs D) ->
  cr2 (nth i Zs' D) = cr1 (nth (S i) Zs' D) -> 1 <= cr2 (nth i Zs' D) ->
  cn (nth (S i) Zs' D) = cn (nth (S i) Zs D) -> cr2 (nth (S i) Zs' D) = cr2 (nth (S i) Zs D) ->
  wfdat (nth i Zs' D) -> wfdat (nth (S i) Zs' D) -> wfI ns Zs'.
Proof.
  intros (L & P & F & La & Lk & Dm) Hi L' Fr A1 A2 A3 A4 B2 B3 W1 W2. unfold wfI.
  split; [congruence|]. split; [exact P|]. split; [|split; [|split]].
  - destruct (Nat.eq_dec 0 i) as [<-|Hn]; [congruence|]. rewrite Fr by lia. exact F.
  - destruct (Nat.eq_dec (length ns - 1) (S i)) as [E|Hn]; [rewrite E, B3, <- E; exact La|].
    rewrite Fr by lia. exact La.
  - intros j Hj. destruct (Nat.eq_dec j i) as [->|N1]; [exact A3|].
    destruct (Nat.eq_dec (S j) i) as [E|N2].
    { rewrite <- E in A1. rewrite A1. rewrite Fr by lia. apply Lk. exact Hj. }
    destruct (Nat.eq_dec j (S i)) as [->|N3].
    { rewrite B3. rewrite (Fr (S (S i))) by lia. apply Lk. exact Hj. }
    rewrite !Fr by lia. apply Lk. exact Hj.
  - intros j Hj. destruct (Nat.eq_dec j i) as [E1|N1].
    { subst j. rewrite A2. destruct (Dm i Hj) as (d1 & d2 & d3 & d4). auto. }
    destruct (Nat.eq_dec j (S i)) as [->|N2].
    { rewrite B2, B3. destruct (Dm (S i) Hj) as (d1 & d2 & d3 & d4). auto. }
    rewrite Fr by lia. apply Dm. exact Hj.
Qed.
(* replacing one core by a core with the same dimensions *)
Lemma wfI_replace1 ns Zs j G : wfI ns Zs -> j < length ns ->
  cr1 G = cr1 (nth j Zs D) -> cn G = cn (nth j Zs D) -> cr2 G = cr2 (nth j Zs D) -> wfdat G ->
  wfI ns (upd Zs j G).
Proof.
  intros (L & P & F & La & Lk & Dm) Hj A1 A2 A3 W. unfold wfI. rewrite upd_length.
  assert (X : forall m, nth m (upd Zs j G) D = if Nat.eqb m j then G else nth m Zs D).
  { intros m. destruct (Nat.eqb_spec m j) as [->|N]; [apply nth_upd_eq; lia|now apply nth_upd_neq]. }
  split; [exact L|]. split; [exact P|]. split; [|split; [|split]].
  - rewrite X. destruct (Nat.eqb_spec 0 j) as [<-|N]; congruence.
  - rewrite X. destruct (Nat.eqb_spec (length ns - 1) j) as [E|N]; [rewrite A3, <- E|]; exact La.
  - intros i Hi. rewrite !X. specialize (Lk i Hi).
    destruct (Nat.eqb_spec i j) as [->|N1]; destruct (Nat.eqb_spec (S i) j) as [E|N2]; try lia; try congruence.
    rewrite A1, <- E. exact Lk.
  - intros i Hi. rewrite X. specialize (Dm i Hi). destruct (Nat.eqb_spec i j) as [->|N1]; [|exact Dm].
    rewrite A2, A3. tauto.
Qed.
(* a map that keeps the dimensions of every core *)
Lemma wfI_map ns Zs (f : core T -> core T) : wfI ns Zs ->
  (forall G, cr1 (f G) = cr1 G /\ cn (f G) = cn G /\ cr2 (f G) = cr2 G /\ wfdat (f G)) -> wfI ns (map f Zs).
Proof.
  intros (L & P & F & La & Lk & Dm) Hf. unfold wfI. rewrite map_length.
  assert (X : forall m, m < length ns -> nth m (map f Zs) D = f (nth m Zs D)).
  { intros m Hm. rewrite (nth_indep _ D (f D)) by (rewrite map_length; lia). apply map_nth. }
  split; [exact L|]. split; [exact P|]. split; [|split; [|split]].
  - rewrite X by lia. now rewrite (proj1 (Hf _)).
  - rewrite X by lia. destruct (Hf (nth (length ns - 1) Zs D)) as (_ & _ & -> & _). exact La.
  - intros i Hi. rewrite !X by lia. destruct (Hf (nth i Zs D)) as (_ & _ & -> & _).
    destruct (Hf (nth (S i) Zs D)) as (-> & _). now apply Lk.
  - intros i Hi. rewrite X by lia. destruct (Hf (nth i Zs D)) as (_ & -> & -> & W). specialize (Dm i Hi). tauto.
Qed.
End IndexP.
