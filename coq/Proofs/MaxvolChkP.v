(* C08: the run-time validation of the LU oracle is sound.  The correspondence evaluates [lu_contract_b] (Model/Maxvol.v)
   on every recorded initialisation of the exact streams; here: if that boolean is true, the contract assumed by
   maxvol_spec / rect_spec holds for the replayed oracle, so the theorems apply to the very run that was executed. *)
From Coq Require Import List Arith Lia PeanoNat Bool ZArith.
From TV Require Import Num.Ops Lin.Tab Lin.BigSum Lin.Mat Model.Maxvol Proofs.MaxvolP Proofs.MaxvolRectP.
Import ListNotations.

Section Chk.
Context {T : Type} (K : ops T).
Notation mg := (mget K).
Hypothesis OFK : ordfield K.
Hypothesis eqb_sound : forall x y, oeqb K x y = true -> x = y.

Lemma meqb_sound X Y : meqb K X Y = true -> meq K X Y.
Proof.
  unfold meqb. rewrite !andb_true_iff. intros [[H1 H2] H3]. apply Nat.eqb_eq in H1, H2.
  split; [exact H1|]. split; [exact H2|]. intros i j Hi Hj.
  rewrite forallb_forall in H3. specialize (H3 i). rewrite in_seq in H3. specialize (H3 ltac:(lia)).
  rewrite forallb_forall in H3. specialize (H3 j). rewrite in_seq in H3. apply eqb_sound, H3. lia.
Qed.
Lemma nodupb_sound l : nodupb l = true -> NoDup l.
Proof.
  induction l as [|x l IH]; cbn [nodupb]; [constructor|]. rewrite andb_true_iff, negb_true_iff. intros [H1 H2].
  constructor; [|auto]. intros Hin. apply mem_nat_In in Hin. congruence.
Qed.

Lemma lu_contract_b_sound A I0 B0 : lu_contract_b K A I0 B0 = true -> mv_inv K A I0 B0.
Proof.
  unfold lu_contract_b. rewrite !andb_true_iff. intros [[[[[[H1 H2] H3] H4] H5] H6] H7].
  apply Nat.eqb_eq in H1, H2, H3. apply nodupb_sound in H5. apply meqb_sound in H6, H7.
  rewrite forallb_forall in H4.
  unfold mv_inv. split; [exact H1|]. split; [exact H2|]. split; [exact H3|]. split; [exact H5|]. split; [|split].
  - intros k Hk. apply Nat.ltb_lt, H4, nth_In. lia.
  - intros a c Ha Hc. destruct H6 as (_ & _ & H6). specialize (H6 a c).
    assert (P1 : (a < mr (mmul K B0 (mrows K A I0)))%nat) by (unfold mmul; rewrite mr_mk; lia).
    assert (P2 : (c < mc (mmul K B0 (mrows K A I0)))%nat) by (unfold mmul, mrows; rewrite !mc_mk; lia).
    specialize (H6 P1 P2). unfold mmul in H6 at 1. rewrite !mget_mk in H6 by (unfold mrows; rewrite ?mc_mk; lia).
    rewrite <- H6, H3. apply bsum_ext. intros l Hl. unfold mrows. rewrite mget_mk by lia. reflexivity.
  - intros k l Hk Hl. destruct H7 as (_ & _ & H7). specialize (H7 k l).
    assert (P1 : (k < mr (mrows K B0 I0))%nat) by (unfold mrows; rewrite mr_mk; lia).
    assert (P2 : (l < mc (mrows K B0 I0))%nat) by (unfold mrows; rewrite mc_mk; lia).
    specialize (H7 P1 P2). unfold mrows in H7 at 1. rewrite mget_mk in H7 by lia.
    rewrite mget_mid in H7 by lia. exact H7.
Qed.

(* a recorded initialisation that passes the check meets the oracle contract *)
Lemma replay_contract A I0 B0 : lu_contract_b K A I0 B0 = true -> lu_contract K A (lu_replay I0 B0 A).
Proof. intros H. exists I0, B0. split; [reflexivity | now apply lu_contract_b_sound]. Qed.

(* hence the specifications hold for the replayed runs the correspondence executes *)
Lemma maxvol_spec_checked A I0 B0 e k :
  lu_contract_b K A I0 B0 = true -> (0 < mc A)%nat -> (mc A < mr A)%nat -> oleb K (o0 K) e = true ->
  exists I B conv, maxvol_full K (lu_replay I0 B0) A e k = Ok (I, B, conv) /\ maxvol K (lu_replay I0 B0) A e k = Ok (I, B) /\
                   maxvol_post K A e I B conv.
Proof. intros H Hr Hn He. apply (maxvol_spec K OFK); auto. now apply replay_contract. Qed.

Lemma rect_spec_checked A I0 B0 e dr_min dr_max e0 k0 :
  lu_contract_b K A I0 B0 = true ->
  (0 < mc A)%nat -> (mc A < mr A)%nat -> oleb K (o0 K) e0 = true -> oleb K (o1 K) (omul K e e) = true ->
  (0 <= dr_min)%Z -> (mc A + Z.to_nat dr_min <= mr A)%nat ->
  (match dr_max with Some d => (dr_min <= d)%Z | None => True end) ->
  exists I B st, maxvol_rect_full K true (lu_replay I0 B0) A e dr_min dr_max e0 k0 = Ok (I, B, st) /\
                 maxvol_rect K (lu_replay I0 B0) A e dr_min dr_max e0 k0 = Ok (I, B) /\
                 rect_post K A e (mc A + Z.to_nat dr_min) (rect_hi A dr_max) I B st.
Proof. intros H Hr Hn He0 He Hd0 Hdn Hdm. apply (rect_spec K OFK); auto. now apply replay_contract. Qed.
End Chk.

From Coq Require Import QArith Qcanon.
Lemma Qc_eqb_sound (x y : Qc) : oeqb OQc x y = true -> x = y.
Proof. cbn [OQc oeqb]. unfold Qc_eqb. intros H. apply Qc_is_canon. now apply Qeq_bool_eq. Qed.
