(* C01 at the reals, part 1: Frobenius norm, relative accuracy (plain branch), relative accuracy on a data set
   (incl. the -1 sentinel), effective rank.  Model: Model/ActOneR.v instantiated with the carrier [OR01] below.
   Self-contained instance of the reals (so that C01 does not depend on the files of other properties). *)
From Coq Require Import List Arith Lia PeanoNat ZArith Ring Bool Reals Lra Psatz.
From TV Require Import Num.Ops Lin.Tab Lin.BigSum TT.Chain Model.ActOne Model.ActOneX Model.ActOneR
  Proofs.ActOneP Proofs.ActOneP2 Proofs.ActOneP3 Proofs.ActOneXP.
Import ListNotations.
Local Open Scope R_scope.

(* ---------------------------------------------------------------- the reals as a number structure *)
Definition Rleb01 (a b : R) : bool := if Rle_dec a b then true else false.
Definition Rltb01 (a b : R) : bool := if Rlt_dec a b then true else false.
Definition Reqb01 (a b : R) : bool := if Req_EM_T a b then true else false.
Definition OR01 : ops R :=
  mkops R 0 1 Rplus Rmult Rminus Ropp Rdiv sqrt Rabs Rleb01 Rltb01 Reqb01 IZR (powerRZ 2).
Lemma OR01_rng : rng OR01. Proof. exact RTheory. Qed.
Ltac r01 := cbn [OR01 o0 o1 oadd omul osub oopp odiv osqrt oofZ oltb oleb oeqb oabs] in *.

Lemma natT_INR n : ActOneR.natT OR01 n = INR n.
Proof. unfold ActOneR.natT. r01. symmetry. apply INR_IZR_INZ. Qed.

(* sums of non-negative terms *)
Lemma rbsum_nonneg n f : (forall i, (i < n)%nat -> 0 <= f i) -> 0 <= bsum OR01 n f.
Proof.
  induction n as [|n IH]; intros H; cbn [bsum]; r01; [lra|].
  assert (0 <= bsum OR01 n f) by (apply IH; intros; apply H; lia). assert (0 <= f n) by (apply H; lia). lra.
Qed.
Lemma rmsum_nonneg ns : forall f, (forall idx, inb ns idx -> 0 <= f idx) -> 0 <= msum OR01 ns f.
Proof.
  induction ns as [|n ns IH]; intros f H; cbn [msum].
  - apply H. constructor.
  - apply rbsum_nonneg. intros i Hi. apply IH. intros idx Hidx. apply H. constructor; auto.
Qed.

(* ---------------------------------------------------------------- norm *)
(* squared Frobenius norm of the denoted dense tensor: sum over ALL multi-indices of entry^2 *)
Definition frob2 (Y : list (core R)) : R := msum OR01 (shape Y) (fun idx => get OR01 Y idx * get OR01 Y idx).
Lemma frob2_nonneg Y : 0 <= frob2 Y.
Proof. apply rmsum_nonneg. intros idx _. apply Rle_0_sqr. Qed.
Lemma same_shape_refl {T} (Y : list (core T)) : same_shape Y Y.
Proof. induction Y; constructor; auto. Qed.

Theorem norm_spec Y : chain 1 Y 1 -> norm OR01 Y = sqrt (frob2 Y).
Proof.
  intros C. unfold norm. cbv zeta. rewrite mul_scalar_x_eq.
  rewrite (mul_scalar_spec OR01 OR01_rng Y Y C C (same_shape_refl Y)).
  change (msum OR01 (shape Y) (fun idx => omul OR01 (get OR01 Y idx) (get OR01 Y idx))) with (frob2 Y).
  r01. unfold Rltb01. destruct (Rlt_dec 0 (frob2 Y)) as [H|H]; [reflexivity|].
  pose proof (frob2_nonneg Y). replace (frob2 Y) with 0 by lra. now rewrite sqrt_0.
Qed.
Lemma norm_nonneg Y : chain 1 Y 1 -> 0 <= norm OR01 Y.
Proof. intros C. rewrite norm_spec by auto. apply sqrt_pos. Qed.
Lemma norm_sqr Y : chain 1 Y 1 -> norm OR01 Y * norm OR01 Y = frob2 Y.
Proof. intros C. rewrite norm_spec by auto. apply sqrt_sqrt, frob2_nonneg. Qed.

(* ---------------------------------------------------------------- accuracy (plain branch) *)
Definition dist2 (Y1 Y2 : list (core R)) : R :=
  msum OR01 (shape Y1) (fun idx => (get OR01 Y1 idx - get OR01 Y2 idx) * (get OR01 Y1 idx - get OR01 Y2 idx)).

Lemma sub_wellformed (Y1 Y2 : list (core R)) : (2 <= length Y1)%nat -> chain 1 Y1 1 -> chain 1 Y2 1 -> same_shape Y1 Y2 ->
  chain 1 (sub OR01 Y1 Y2) 1 /\ shape (sub OR01 Y1 Y2) = shape Y1.
Proof.
  intros Hd C1 C2 HS. unfold sub.
  assert (HS' : same_shape Y1 (mul_num OR01 Y2 (oopp OR01 (o1 OR01)))) by (apply same_shape_mul_num; exact HS).
  split.
  - apply chain_add; auto. apply chain_mul_num; exact C2.
  - apply shape_add; exact HS'.
Qed.
Lemma shape_of_same_shape {T} (Y1 Y2 : list (core T)) : same_shape Y1 Y2 -> shape Y2 = shape Y1.
Proof. intros H. induction H; unfold shape in *; cbn [map]; congruence. Qed.

Lemma frob2_sub Y1 Y2 : (2 <= length Y1)%nat -> chain 1 Y1 1 -> chain 1 Y2 1 -> same_shape Y1 Y2 ->
  frob2 (sub OR01 Y1 Y2) = dist2 Y1 Y2.
Proof.
  intros Hd C1 C2 HS. destruct (sub_wellformed Y1 Y2 Hd C1 C2 HS) as [_ S].
  unfold frob2, dist2. rewrite S. apply msum_ext. intros idx Hidx.
  assert (E : get OR01 (sub OR01 Y1 Y2) idx = get OR01 Y1 idx - get OR01 Y2 idx).
  { apply (get_sub OR01 OR01_rng); auto.
    - apply wf_wfo, wfo_chain_inb. auto.
    - apply wf_wfo, wfo_chain_inb. split; auto. now rewrite (shape_of_same_shape Y1 Y2 HS). }
  rewrite E. reflexivity.
Qed.

(* accuracy = ||Y1 - Y2||_F / ||Y2||_F, both norms those of the denoted dense tensors *)
Theorem accuracy_spec Y1 Y2 : (2 <= length Y1)%nat -> chain 1 Y1 1 -> chain 1 Y2 1 -> same_shape Y1 Y2 ->
  frob2 Y2 <> 0 ->
  accuracy OR01 Y1 Y2 = sqrt (dist2 Y1 Y2) / sqrt (frob2 Y2) /\ 0 < sqrt (frob2 Y2).
Proof.
  intros Hd C1 C2 HS Hnz. destruct (sub_wellformed Y1 Y2 Hd C1 C2 HS) as [C _].
  split.
  - unfold accuracy. rewrite !norm_spec by auto. rewrite frob2_sub by auto. reflexivity.
  - apply sqrt_lt_R0. pose proof (frob2_nonneg Y2). lra.
Qed.
Corollary accuracy_zero_iff Y1 Y2 : (2 <= length Y1)%nat -> chain 1 Y1 1 -> chain 1 Y2 1 -> same_shape Y1 Y2 ->
  frob2 Y2 <> 0 -> (accuracy OR01 Y1 Y2 = 0 <-> dist2 Y1 Y2 = 0).
Proof.
  intros Hd C1 C2 HS Hnz. destruct (accuracy_spec Y1 Y2 Hd C1 C2 HS Hnz) as [E P]. rewrite E.
  assert (N : 0 <= dist2 Y1 Y2) by (apply rmsum_nonneg; intros; apply Rle_0_sqr).
  split.
  - intros H. apply sqrt_eq_0; [exact N|]. unfold Rdiv in H. apply Rmult_integral in H. destruct H as [H|H]; [exact H|].
    exfalso. apply (Rinv_neq_0_compat (sqrt (frob2 Y2))); [lra|exact H].
  - intros ->. rewrite sqrt_0. unfold Rdiv. ring.
Qed.

(* ---------------------------------------------------------------- accuracy_on_data *)
Fixpoint ssq (l : list R) : R := match l with [] => 0 | x :: l' => x * x + ssq l' end.
Lemma sumsq_acc l : forall a, fold_left (fun s x => s + x * x) l a = a + ssq l.
Proof. induction l as [|x l IH]; intros a; cbn [fold_left ssq]; [lra|]. rewrite IH. lra. Qed.
Lemma sumsq_ssq l : sumsq OR01 l = ssq l.
Proof. unfold sumsq. r01. rewrite sumsq_acc. lra. Qed.
Lemma ssq_nonneg l : 0 <= ssq l.
Proof. induction l as [|x l IH]; cbn [ssq]; [lra|]. pose proof (Rle_0_sqr x) as H. unfold Rsqr in H. lra. Qed.
Lemma ssq_zero l : ssq l = 0 <-> Forall (fun x => x = 0) l.
Proof.
  induction l as [|x l IH]; cbn [ssq]; [split; auto|].
  pose proof (ssq_nonneg l). pose proof (Rle_0_sqr x) as Hx. unfold Rsqr in Hx. split.
  - intros H0. assert (x * x = 0) by lra. assert (ssq l = 0) by lra. constructor; [|now apply IH].
    apply Rmult_integral in H1. tauto.
  - intros HF. inversion HF; subst. rewrite (proj2 IH) by auto. lra.
Qed.
(* as an indexed sum *)
Lemma ssq_bsum l : ssq l = bsum OR01 (length l) (fun j => nth j l 0 * nth j l 0).
Proof.
  induction l as [|x l IH]; [reflexivity|]. cbn [length]. rewrite (bsum_S_l OR01 OR01_rng). cbn [nth ssq].
  rewrite IH. reflexivity.
Qed.
Lemma nth_resid Y (I : list (list nat)) (y : list R) j : length I = length y -> (j < length y)%nat ->
  nth j (map (fun p => get OR01 Y (fst p) - snd p) (combine I y)) 0 = get OR01 Y (nth j I []) - nth j y 0.
Proof.
  intros L Hj.
  rewrite (nth_indep _ 0 ((fun p : list nat * R => get OR01 Y (fst p) - snd p) ([], 0)))
    by (rewrite map_length, combine_length; lia).
  rewrite (map_nth (fun p : list nat * R => get OR01 Y (fst p) - snd p)).
  rewrite combine_nth by exact L. reflexivity.
Qed.

(* squared residual and squared reference norm over the data set *)
Definition resid2 (Y : list (core R)) (I : list (list nat)) (y : list R) : R :=
  bsum OR01 (length y) (fun j => (get OR01 Y (nth j I []) - nth j y 0) * (get OR01 Y (nth j I []) - nth j y 0)).
Definition ynorm2 (y : list R) : R := bsum OR01 (length y) (fun j => nth j y 0 * nth j y 0).

Theorem accuracy_on_data_spec Y I y : length I = length y ->
  (Forall (fun x => x = 0) y -> accuracy_on_data OR01 Y I y = -1) /\
  (Exists (fun x => x <> 0) y ->
     accuracy_on_data OR01 Y I y = sqrt (resid2 Y I y) / sqrt (ynorm2 y) /\ 0 < sqrt (ynorm2 y)).
Proof.
  intros L. unfold accuracy_on_data. cbv zeta. rewrite !sumsq_ssq. r01. unfold Reqb01. split.
  - intros HF. apply ssq_zero in HF. rewrite HF, sqrt_0. destruct (Req_EM_T 0 0); [lra|contradiction].
  - intros HE.
    assert (Hne : ssq y <> 0).
    { intros H0. apply ssq_zero in H0. rewrite Forall_forall in H0. apply Exists_exists in HE as (x & Hx & Hnz). auto. }
    assert (Hpos : 0 < sqrt (ssq y)) by (apply sqrt_lt_R0; pose proof (ssq_nonneg y); lra).
    destruct (Req_EM_T (sqrt (ssq y)) 0) as [E|_]; [lra|].
    unfold ynorm2. rewrite <- ssq_bsum. split; [|exact Hpos]. f_equal. f_equal.
    rewrite ssq_bsum. rewrite map_length, combine_length, L, Nat.min_id. unfold resid2.
    apply (bsum_ext OR01). intros j Hj. rewrite nth_resid by auto. reflexivity.
Qed.

(* ---------------------------------------------------------------- erank *)
(* coefficients of the defining quadratic: a tensor with the same shape and boundary ranks whose interior
   ranks all equal x has  a x^2 + b x  parameters *)
Definition er_a {T} (Y : list (core T)) : nat := fold_right Nat.add O (firstn (length Y - 2) (skipn 1 (shape Y))).
Definition er_b {T} (Y : list (core T)) : nat :=
  (nth 0 (ranks Y) O * nth 0 (shape Y) O + nth (length Y - 1) (shape Y) O * nth (length Y) (ranks Y) O)%nat.

Lemma size_sum {T} (Y : list (core T)) :
  fold_right Nat.add O (map (fun G => cr1 G * cn G * cr2 G)%nat Y) = size Y.
Proof. unfold size. induction Y as [|G Y IH]; cbn [map fold_right]; [reflexivity|]. now rewrite IH. Qed.

Theorem erank_d2 (Y : list (core R)) : length Y = 2%nat -> erank OR01 Y = INR (nth 1 (ranks Y) O).
Proof. intros L. unfold erank. cbv zeta. rewrite L. cbn [Nat.eqb]. apply natT_INR. Qed.

Lemma er_a_pos {T} (Y : list (core T)) : (3 <= length Y)%nat -> Forall (fun G => 1 <= cn G)%nat Y -> (1 <= er_a Y)%nat.
Proof.
  intros L F. destruct Y as [|G0 [|G1 [|G2 Y]]]; cbn [length] in L; try lia.
  unfold er_a, shape. cbn [length map skipn]. replace (S (S (S (length Y))) - 2)%nat with (S (length Y)) by lia.
  cbn [firstn fold_right]. inversion F as [|? ? _ F1]; subst. inversion F1 as [|? ? H1 _]; subst. lia.
Qed.

Lemma erank_formula (Y : list (core R)) : length Y <> 2%nat ->
  erank OR01 Y = (sqrt (INR (er_b Y) * INR (er_b Y) + 4 * INR (er_a Y) * INR (size Y)) - INR (er_b Y)) / (2 * INR (er_a Y)).
Proof.
  intros L. unfold erank. cbv zeta. destruct (Nat.eqb_spec (length Y) 2) as [E|_]; [contradiction|].
  rewrite size_sum. fold (er_a Y). fold (er_b Y). rewrite !natT_INR. r01.
  rewrite plus_INR, !mult_INR. replace (INR 4) with 4 by (cbn; lra). replace (INR 2) with 2 by (cbn; lra). reflexivity.
Qed.

(* d >= 3: the effective rank is THE non-negative root of  a x^2 + b x = size *)
Theorem erank_spec (Y : list (core R)) : (3 <= length Y)%nat -> Forall (fun G => 1 <= cn G)%nat Y ->
  0 <= erank OR01 Y /\
  INR (er_a Y) * erank OR01 Y * erank OR01 Y + INR (er_b Y) * erank OR01 Y = INR (size Y) /\
  (forall x, 0 <= x -> INR (er_a Y) * x * x + INR (er_b Y) * x = INR (size Y) -> x = erank OR01 Y).
Proof.
  intros L F. rewrite erank_formula by lia.
  pose proof (er_a_pos Y L F) as Ha. apply le_INR in Ha. change (INR 1) with 1 in Ha.
  pose proof (pos_INR (er_b Y)) as Hb. pose proof (pos_INR (size Y)) as Hs.
  set (a := INR (er_a Y)) in *. set (b := INR (er_b Y)) in *. set (s := INR (size Y)) in *.
  assert (HD : 0 <= b * b + 4 * a * s) by nra.
  pose proof (sqrt_sqrt _ HD) as Hq. pose proof (sqrt_pos (b * b + 4 * a * s)) as Hq0.
  set (q := sqrt (b * b + 4 * a * s)) in *.
  assert (Hqb : b <= q) by nra.
  assert (Ex : (q - b) / (2 * a) * (2 * a) = q - b) by (field; lra).
  set (x0 := (q - b) / (2 * a)) in *.
  assert (Hx0 : 0 <= x0) by nra.
  assert (Hroot : a * x0 * x0 + b * x0 = s) by nra.
  split; [exact Hx0|]. split; [exact Hroot|].
  intros x Hx Hr. (* a (x - x0)(x + x0) + b (x - x0) = 0, and a (x + x0) + b > 0 unless x = x0 = 0, b = 0 *)
  assert (Hf : (x - x0) * (a * (x + x0) + b) = 0) by nra.
  apply Rmult_integral in Hf. destruct Hf as [Hf|Hf]; [lra|]. nra.
Qed.

(* the quadratic counts parameters: a tensor G0 :: mids ++ [Gl] whose interior ranks all equal r >= 1 has effective rank r *)
Definition rr_core {T} (r : nat) (G : core T) : Prop := cr1 G = r /\ cr2 G = r.
Lemma size_app {T} (Y1 Y2 : list (core T)) : size (Y1 ++ Y2) = (size Y1 + size Y2)%nat.
Proof. unfold size. induction Y1 as [|G Y1 IH]; cbn [app fold_right]; [reflexivity|]. rewrite IH. lia. Qed.
Lemma size_mids {T} (r : nat) (mids : list (core T)) : Forall (rr_core r) mids ->
  size mids = (r * r * fold_right Nat.add O (map cn mids))%nat.
Proof.
  induction 1 as [|G l [H1 H2] _ IH]; [cbn; lia|].
  change (size (G :: l)) with (cr1 G * cn G * cr2 G + size l)%nat. rewrite IH, H1, H2. cbn [map fold_right]. nia.
Qed.
Theorem erank_uniform (G0 Gl : core R) (mids : list (core R)) (r : nat) :
  mids <> [] -> Forall (fun G => 1 <= cn G)%nat mids -> (1 <= r)%nat ->
  cr1 G0 = 1%nat -> cr2 G0 = r -> Forall (rr_core r) mids -> cr1 Gl = r ->
  erank OR01 (G0 :: mids ++ [Gl]) = INR r.
Proof.
  intros Hne Hn Hr H0 H0' HM Hl. set (Y := G0 :: mids ++ [Gl]).
  assert (Lm : (1 <= length mids)%nat) by (destruct mids; [contradiction|cbn; lia]).
  assert (LY : length Y = S (S (length mids))) by (unfold Y; cbn [length]; rewrite app_length; cbn [length]; lia).
  assert (Ea : er_a Y = fold_right Nat.add O (map cn mids)).
  { unfold er_a. rewrite LY. replace (S (S (length mids)) - 2)%nat with (length mids) by lia.
    unfold Y, shape. cbn [map skipn]. rewrite map_app.
    rewrite firstn_app, map_length, Nat.sub_diag. cbn [firstn]. rewrite app_nil_r.
    rewrite <- (map_length cn mids). now rewrite firstn_all. }
  assert (Eb : er_b Y = (cn G0 + cn Gl * cr2 Gl)%nat).
  { unfold er_b. rewrite LY. unfold Y, ranks, shape. cbn [map nth]. replace (S (S (length mids)) - 1)%nat with (S (length mids)) by lia.
    cbn [nth]. rewrite !map_app. rewrite !app_nth2 by (rewrite map_length; lia). rewrite !map_length, Nat.sub_diag. cbn [map nth]. lia. }
  assert (Es : size Y = (cn G0 * r + r * r * er_a Y + r * cn Gl * cr2 Gl)%nat).
  { rewrite Ea. unfold Y. change (size (G0 :: mids ++ [Gl])) with (cr1 G0 * cn G0 * cr2 G0 + size (mids ++ [Gl]))%nat.
    rewrite size_app, (size_mids r mids HM), H0, H0'.
    change (size [Gl]) with (cr1 Gl * cn Gl * cr2 Gl + 0)%nat. rewrite Hl. lia. }
  assert (Hpos : (1 <= er_a Y)%nat).
  { rewrite Ea. destruct mids as [|G m]; [contradiction|]. inversion Hn; subst. cbn [map fold_right]. lia. }
  rewrite erank_formula by lia.
  rewrite Es, Eb. rewrite !plus_INR, !mult_INR.
  apply le_INR in Hpos. apply le_INR in Hr. change (INR 1) with 1 in *.
  set (a := INR (er_a Y)) in *. set (n0 := INR (cn G0)). set (nl := INR (cn Gl)). set (rl := INR (cr2 Gl)). set (x := INR r) in *.
  pose proof (pos_INR (cn G0)). pose proof (pos_INR (cn Gl)). pose proof (pos_INR (cr2 Gl)).
  fold n0 in H. fold nl in H1. fold rl in H2.
  replace ((n0 + nl * rl) * (n0 + nl * rl) + 4 * a * (n0 * x + x * x * a + x * nl * rl))
    with ((2 * a * x + (n0 + nl * rl)) * (2 * a * x + (n0 + nl * rl))) by ring.
  rewrite sqrt_square by nra. field. lra.
Qed.
