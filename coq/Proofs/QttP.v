(* C17: qtt_to_tt denotes the same tensor at the binary expansion of the multi-index (any commutative ring). *)
From Coq Require Import List Arith Lia PeanoNat ZArith Bool.
From TV Require Import Num.Ops Lin.Tab Lin.BigSum Lin.Mat TT.Chain Model.GridInd Proofs.GridIndP Model.Qtt.
Import ListNotations.

Section QttP.
Context {T : Type} (K : ops T).
Notation "0" := (o0 K). Notation "1" := (o1 K).
Infix "+" := (oadd K). Infix "*" := (omul K).
Hypothesis Rth : rng K.
Add Ring RrQtt : Rth.

Notation merge2 := (merge2 K).
Notation vstep := (vstep K).
Notation run := (run K).
Notation get := (get K).

Lemma cr1_merge2 G Q : cr1 (merge2 G Q) = cr1 G. Proof. reflexivity. Qed.
Lemma cn_merge2 G Q : cn (merge2 G Q) = (cn G * cn Q)%nat. Proof. reflexivity. Qed.
Lemma cr2_merge2 G Q : cr2 (merge2 G Q) = cr2 Q. Proof. reflexivity. Qed.

(* one step through the merged core = two steps: the index of G is the low digit *)
Lemma vstep_merge2 v G Q m : cr2 G = cr1 Q -> (m < cn G * cn Q)%nat ->
  vstep v (merge2 G Q) m = vstep (vstep v G (m mod cn G)) Q (m / cn G).
Proof.
  intros Hr Hm.
  assert (Hn : (0 < cn G)%nat) by (destruct (cn G); simpl in Hm; lia).
  assert (Hj : (m / cn G < cn Q)%nat) by (apply Nat.div_lt_upper_bound; lia).
  apply (list_eq_nth 0).
  - now rewrite !vstep_length.
  - rewrite vstep_length, cr2_merge2. intros b Hb.
    rewrite !nth_vstep by (rewrite ?cr2_merge2; auto). rewrite cr1_merge2.
    rewrite (bsum_ext K (cr1 G) _ (fun a => bsum K (cr2 G) (fun c =>
              nth a v 0 * (cget K G a (m mod cn G) c * cget K Q c (m / cn G) b)))).
    2:{ intros a Ha. unfold Qtt.merge2. rewrite cget_mk by auto. now rewrite bsum_mul_l by auto. }
    rewrite bsum_swap by auto. rewrite <- Hr. apply bsum_ext; intros c Hc.
    rewrite nth_vstep by auto. rewrite <- bsum_mul_r by auto. apply bsum_ext; intros a Ha. ring.
Qed.

Definition prodn (ns : list nat) : nat := fold_right Nat.mul 1%nat ns.

(* the fold of core_qtt_to_tt: shape facts *)
Lemma fold_merge_dims : forall rest Q0 rl, chain (cr2 Q0) rest rl ->
  let M := fold_left merge2 rest Q0 in
  cr1 M = cr1 Q0 /\ cn M = prodn (cn Q0 :: shape rest) /\ cr2 M = rl.
Proof.
  induction rest as [|Q1 rest IH]; intros Q0 rl Hc; cbn [fold_left chain] in *.
  - cbn [shape map prodn fold_right]. repeat split; auto. lia.
  - destruct Hc as [H1 Hc]. specialize (IH (merge2 Q0 Q1) rl Hc). cbn zeta in IH.
    destruct IH as (A & B & C). repeat split; auto.
    rewrite B. cbn [shape map prodn fold_right cn_merge2]. rewrite cn_merge2. fold (shape rest). lia.
Qed.

(* one step through the merged core = the run through the chain at the mixed-radix digits of the index *)
Lemma fold_merge_run : forall rest Q0 rl v m, chain (cr2 Q0) rest rl ->
  (m < prodn (cn Q0 :: shape rest))%nat ->
  vstep v (fold_left merge2 rest Q0) m = run v (Q0 :: rest) (digits_F (cn Q0 :: shape rest) m).
Proof.
  induction rest as [|Q1 rest IH]; intros Q0 rl v m Hc Hm.
  - cbn [fold_left shape map digits_F run prodn fold_right] in *. f_equal. rewrite Nat.mod_small by lia. reflexivity.
  - cbn [fold_left chain] in *. destruct Hc as [H1 Hc].
    cbn [shape map prodn fold_right] in Hm. fold (shape rest) in Hm.
    assert (Hn0 : (0 < cn Q0)%nat) by (destruct (cn Q0); simpl in Hm; lia).
    assert (Hn1 : (0 < cn Q1)%nat) by (destruct (cn Q1); [rewrite Nat.mul_0_l, Nat.mul_0_r in Hm; lia | lia]).
    rewrite (IH (merge2 Q0 Q1) rl v m Hc).
    2:{ cbn [prodn fold_right]. rewrite cn_merge2. fold (prodn (shape rest)) in *. cbn [prodn] in Hm. lia. }
    cbn [shape map digits_F run]. fold (shape rest). rewrite cn_merge2.
    rewrite vstep_merge2; auto.
    2:{ apply Nat.mod_upper_bound. lia. }
    f_equal.
    + f_equal.
      * f_equal. rewrite Nat.mod_mul_r by lia.
        rewrite (Nat.mul_comm (cn Q0) ((m / cn Q0) mod cn Q1)), Nat.mod_add by lia.
        apply Nat.mod_mod. lia.
      * rewrite Nat.mod_mul_r by lia.
        rewrite (Nat.mul_comm (cn Q0) ((m / cn Q0) mod cn Q1)), Nat.div_add by lia.
        rewrite (Nat.div_small (m mod cn Q0)) by (apply Nat.mod_upper_bound; lia). reflexivity.
    + f_equal. now rewrite Nat.div_div by lia.
Qed.

(* binary chains: digits_F of a list of 2's is the little-endian expansion *)
Lemma digits_F_twos q : forall m, digits_F (repeat 2%nat q) m = bits_le q m.
Proof. induction q as [|q IH]; intros m; cbn [repeat digits_F bits_le]; [reflexivity|]. now rewrite IH. Qed.
Lemma prodn_twos q : prodn (repeat 2%nat q) = (2 ^ q)%nat.
Proof. induction q as [|q IH]; cbn [repeat prodn fold_right Nat.pow]; [reflexivity|]. fold (prodn (repeat 2%nat q)). rewrite IH. lia. Qed.
Lemma shape_twos (Y : list (core T)) : Forall (fun G => cn G = 2%nat) Y -> shape Y = repeat 2%nat (length Y).
Proof. induction 1 as [|G Y HG _ IH]; cbn [shape map repeat length]; [reflexivity|]. fold (shape Y). now rewrite HG, IH. Qed.

(* chains: splitting *)
Lemma chain_app (A B : list (core T)) : forall r rl, chain r (A ++ B) rl <-> exists rm, chain r A rm /\ chain rm B rl.
Proof.
  induction A as [|G A IH]; intros r rl; cbn [app chain].
  - split; [intros H; exists r; auto | intros (rm & -> & H); auto].
  - rewrite IH. split; [intros (H1 & rm & H2 & H3); exists rm; auto | intros (rm & (H1 & H2) & H3); split; eauto].
Qed.
Lemma firstn_skipn_chain (Y : list (core T)) q r rl : chain r Y rl ->
  exists rm, chain r (firstn q Y) rm /\ chain rm (skipn q Y) rl.
Proof. intros H. rewrite <- (firstn_skipn q Y) in H. now apply chain_app in H. Qed.

(* ---------------- qtt_to_tt ---------------- *)
Definition merged (Qs : list (core T)) : core T :=
  match Qs with [] => mk_core 0 0 0 [] | Q0 :: rest => fold_left merge2 rest Q0 end.

Lemma groups_length {A} q : forall d (l : list A), length (groups q d l) = d.
Proof. induction d; intros; simpl; auto. Qed.

Lemma qtt_to_tt_ok q d : (1 <= q)%nat -> forall Y : list (core T), length Y = (d * q)%nat ->
  sequence (map (core_qtt_to_tt K) (groups q d Y)) = Ok (map merged (groups q d Y)).
Proof.
  intros Hq. induction d as [|d IH]; intros Y L; cbn [groups map sequence]; [reflexivity|].
  rewrite IH by (rewrite skipn_length; lia).
  destruct (firstn q Y) as [|Q0 rest] eqn:E.
  - exfalso. assert (length (firstn q Y) = q) by (rewrite firstn_length; lia). rewrite E in H. simpl in H. lia.
  - reflexivity.
Qed.

(* the run through the merged cores = the run through the QTT chain at the concatenated bits *)
Lemma run_groups q : (1 <= q)%nat -> forall d (Y : list (core T)) idx r rl v,
  length Y = (d * q)%nat -> chain r Y rl -> Forall (fun G => cn G = 2%nat) Y ->
  length idx = d -> Forall (fun i => i < 2 ^ q)%nat idx ->
  run v (map merged (groups q d Y)) idx = run v Y (flat_map (bits_le q) idx).
Proof.
  intros Hq. induction d as [|d IH]; intros Y idx r rl v L Hc H2 Li Hi.
  - destruct idx; [|discriminate]. destruct Y; [|discriminate]. reflexivity.
  - destruct idx as [|i idx]; [discriminate|]. cbn [groups map flat_map].
    inversion Hi as [|? ? Hi0 Hi']; subst.
    destruct (firstn_skipn_chain Y q r rl Hc) as (rm & Hc1 & Hc2).
    assert (L1 : length (firstn q Y) = q) by (rewrite firstn_length; lia).
    rewrite <- (firstn_skipn q Y) at 3.
    rewrite run_app by (now rewrite bits_le_length).
    destruct (firstn q Y) as [|Q0 rest] eqn:E; [simpl in L1; lia|].
    assert (F12 : Forall (fun G => cn G = 2%nat) (Q0 :: rest) /\ Forall (fun G => cn G = 2%nat) (skipn q Y)).
    { rewrite <- E. apply Forall_app. now rewrite firstn_skipn. }
    destruct F12 as [F1 F2].
    cbn [merged run]. destruct Hc1 as [Hr1 Hc1].
    assert (Esh : cn Q0 :: shape rest = repeat 2%nat q).
    { change (cn Q0 :: shape rest) with (shape (Q0 :: rest)). rewrite (shape_twos _ F1). now rewrite L1. }
    rewrite (fold_merge_run rest Q0 rm v i Hc1) by (rewrite Esh, prodn_twos; exact Hi0).
    rewrite Esh, digits_F_twos.
    simpl in Li. apply (IH (skipn q Y) idx rm rl); auto; try lia.
    rewrite skipn_length. lia.
Qed.

Theorem qtt_to_tt_denote Y q d idx : (1 <= q)%nat -> length Y = (d * q)%nat -> chain 1 Y 1 ->
  Forall (fun G => cn G = 2%nat) Y -> length idx = d -> Forall (fun i => i < 2 ^ q)%nat idx ->
  exists Z, qtt_to_tt K Y q = Ok Z /\ length Z = d /\
            get Z idx = get Y (flat_map (bits_le q) idx).
Proof.
  intros Hq L Hc H2 Li Hi. exists (map merged (groups q d Y)).
  unfold qtt_to_tt. destruct (Nat.eqb_spec q 0); [lia|].
  rewrite L, Nat.div_mul by lia. split; [now apply qtt_to_tt_ok|]. split.
  - now rewrite map_length, groups_length.
  - unfold Chain.get. f_equal. now apply (run_groups q Hq d Y idx 1%nat 1%nat).
Qed.

(* shape and ranks of the result: mode sizes 2^q, the TT-ranks are the QTT-ranks at the group boundaries *)
Lemma groups_chain q : (1 <= q)%nat -> forall d (Y : list (core T)) r rl, length Y = (d * q)%nat -> chain r Y rl ->
  Forall (fun G => cn G = 2%nat) Y ->
  chain r (map merged (groups q d Y)) rl /\ Forall (fun G => cn G = 2 ^ q)%nat (map merged (groups q d Y)).
Proof.
  intros Hq. induction d as [|d IH]; intros Y r rl L Hc H2.
  - destruct Y; [|discriminate]. simpl. auto.
  - cbn [groups map chain].
    destruct (firstn_skipn_chain Y q r rl Hc) as (rm & Hc1 & Hc2).
    assert (L1 : length (firstn q Y) = q) by (rewrite firstn_length; lia).
    destruct (firstn q Y) as [|Q0 rest] eqn:E; [simpl in L1; lia|].
    assert (F12 : Forall (fun G => cn G = 2%nat) (Q0 :: rest) /\ Forall (fun G => cn G = 2%nat) (skipn q Y)).
    { rewrite <- E. apply Forall_app. now rewrite firstn_skipn. }
    destruct F12 as [F1 F2].
    destruct Hc1 as [Hr1 Hc1]. destruct (fold_merge_dims rest Q0 rm Hc1) as (A & B & C). cbn [merged].
    destruct (IH (skipn q Y) rm rl) as [I1 I2]; auto. { rewrite skipn_length. lia. }
    split; [split; [congruence|]; rewrite C; exact I1|].
    constructor; [|exact I2]. rewrite B.
    change (cn Q0 :: shape rest) with (shape (Q0 :: rest)). rewrite (shape_twos _ F1), L1. apply prodn_twos.
Qed.

End QttP.
