(* C12: func_diff_matrix.  (1) ring-generic: the s-th returned matrix is the s-th iterate of the recursion (which does
   not depend on the box) times (2/(b-a))^(s+1).  (2) finite statement over Qc with the exact nodes, n in {2,3,4},
   derivative orders 1..3, EVERY box and EVERY polynomial of degree < n: the matrices give the exact derivatives at the
   nodes (closed computations for the monomials, lifted by linearity). *)
From Coq Require Import List Arith Lia Ring PeanoNat ZArith Bool QArith Qcanon.
From TV Require Import Num.Ops Lin.Tab Lin.BigSum Lin.Mat TT.Chain Model.Func Proofs.FuncP.
Import ListNotations.
Local Open Scope nat_scope.

Section DiffGen.
Context {T : Type} (K : ops T).
Notation "0" := (o0 K). Notation "1" := (o1 K).
Infix "+" := (oadd K). Infix "*" := (omul K). Infix "-" := (osub K). Infix "/" := (odiv K).
Hypothesis Rth : rng K.
Add Ring RrFuncDiffP : Rth.

(* the iterates of the recursion  D <- (i+1) Z (C diag(D) - D), diagonal <- minus the row sums *)
Fixpoint diff_iter (n : nat) (Zm C D : mat T) (i s : nat) : mat T :=
  match s with
  | O => diff_next K n Zm C D i
  | S s' => diff_iter n Zm C (diff_next K n Zm C D i) (S i) s'
  end.
Lemma nth_diff_loop n Zm C l dflt : forall m s D i, s < m ->
  nth s (diff_loop K n Zm C D l i m) dflt =
  mkmat n n (fun r c => mget K (diff_iter n Zm C D i s) r c * fpow K l (i + s + 1)).
Proof.
  induction m as [|m IH]; intros s D i Hs; [lia|]. destruct s as [|s]; cbn [diff_loop nth diff_iter].
  - replace (i + 0 + 1)%nat with (i + 1)%nat by lia. reflexivity.
  - rewrite IH by lia. replace (S i + s + 1)%nat with (i + S s + 1)%nat by lia. reflexivity.
Qed.
(* linearity: a matrix that maps the columns v(.,q) to w(q) maps their combinations accordingly *)
Lemma lin_comb n (M : nat -> T) (v : nat -> nat -> T) (w c : nat -> T) l :
  (forall q, q < n -> bsum K n (fun j => M j * v j q) = w q) ->
  bsum K n (fun j => M j * l * bsum K n (fun q => c q * v j q)) = l * bsum K n (fun q => c q * w q).
Proof.
  intros H.
  rewrite (bsum_ext K n _ (fun j => bsum K n (fun q => l * c q * (M j * v j q)))).
  2:{ intros j Hj. rewrite <- bsum_mul_l by auto. apply bsum_ext; intros q Hq. ring. }
  rewrite bsum_swap by auto. rewrite <- bsum_mul_l by auto. apply bsum_ext; intros q Hq.
  rewrite bsum_mul_l by auto. rewrite H by auto. ring.
Qed.
End DiffGen.

(* ---------------------------------------------------------------- exact nodes, n = 2, 3, 4 *)
Definition raw (n s : nat) : mat Qc := diff_iter OQc n (diff_Z OQc ss_Qc n) (diff_C OQc n) (mid OQc n) 0 s.
Definition xnode (n j : nat) : Qc := cs_Qc (n - 1) j.
(* falling factorial q (q-1) ... (q-t+1): the t-th derivative of x^q is ffact q t * x^(q-t) *)
Fixpoint ffact (q t : nat) : nat := match t with O => 1 | S t' => q * ffact (q - 1) t' end.
Definition qnat (k : nat) : Qc := oofZ OQc (Z.of_nat k).
(* p(x) = sum_{q<n} c_q x^q and its t-th derivative *)
Definition pval (n : nat) (c : nat -> Qc) (x : Qc) : Qc := bsum OQc n (fun q => omul OQc (c q) (fpow OQc x q)).
Definition pder (n t : nat) (c : nat -> Qc) (x : Qc) : Qc :=
  bsum OQc n (fun q => omul OQc (c q) (omul OQc (qnat (ffact q t)) (fpow OQc x (q - t)))).
Definition raw_ok (n s : nat) : bool :=
  forallb (fun i => forallb (fun q =>
    Qc_eqb (bsum OQc n (fun j => omul OQc (mget OQc (raw n s) i j) (fpow OQc (xnode n j) q)))
           (omul OQc (qnat (ffact q (s + 1))) (fpow OQc (xnode n i) (q - (s + 1))))) (seq 0 n)) (seq 0 n).
Lemma raw_ok_all : forallb (fun n => forallb (raw_ok n) [0; 1; 2]) [2; 3; 4] = true.
Proof. vm_compute. reflexivity. Qed.
Lemma raw_exact n s i q : n = 2 \/ n = 3 \/ n = 4 -> s < 3 -> i < n -> q < n ->
  bsum OQc n (fun j => omul OQc (mget OQc (raw n s) i j) (fpow OQc (xnode n j) q)) =
  omul OQc (qnat (ffact q (s + 1))) (fpow OQc (xnode n i) (q - (s + 1))).
Proof.
  intros Hn Hs Hi Hq. pose proof raw_ok_all as H. rewrite forallb_forall in H.
  assert (In n [2; 3; 4]) as Hin by (cbn [In]; lia). specialize (H n Hin). rewrite forallb_forall in H.
  assert (In s [0; 1; 2]) as Hsin by (cbn [In]; lia). specialize (H s Hsin). unfold raw_ok in H.
  rewrite forallb_forall in H. specialize (H i ltac:(apply in_seq; lia)). rewrite forallb_forall in H.
  specialize (H q ltac:(apply in_seq; lia)). unfold Qc_eqb in H. apply Qeq_bool_iff in H. now apply Qc_is_canon.
Qed.
(* func_diff_matrix(a, b, n, m)[s] applied to the values of p at the nodes = (2/(b-a))^(s+1) p^(s+1) at the nodes *)
Theorem diff_exact_small n s m a b (c : nat -> Qc) i : n = 2 \/ n = 3 \/ n = 4 -> s < 3 -> s < m -> i < n ->
  bsum OQc n (fun j => omul OQc
      (mget OQc (nth s (func_diff_matrix OQc ss_Qc a b n m) (mkmat 0 0 (fun _ _ => o0 OQc))) i j)
      (pval n c (xnode n j))) =
  omul OQc (fpow OQc (odiv OQc (ftwo OQc) (osub OQc b a)) (s + 1)) (pder n (s + 1) c (xnode n i)).
Proof.
  intros Hn Hs Hm Hi. unfold func_diff_matrix. rewrite (nth_diff_loop OQc) by auto. fold (raw n s).
  rewrite (bsum_ext OQc n _ (fun j => omul OQc (omul OQc (mget OQc (raw n s) i j)
            (fpow OQc (odiv OQc (ftwo OQc) (osub OQc b a)) (s + 1)))
            (bsum OQc n (fun q => omul OQc (c q) (fpow OQc (xnode n j) q))))).
  2:{ intros j Hj. rewrite mget_mk by auto. reflexivity. }
  unfold pder. apply (lin_comb OQc OQc_rng). intros q Hq. now apply raw_exact.
Qed.
