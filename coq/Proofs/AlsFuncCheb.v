(* C07, part 10: the default entry path of als_func (X, a, b -> scaled points -> Chebyshev basis matrices): the basis
   matrices are rectangular, hold T_i of the scaled and clipped points, and every als_func theorem applies to them. *)
From Coq Require Import List Arith Lia PeanoNat Bool Reals.
From TV Require Import Num.Ops Lin.Tab Lin.BigSum Lin.Solve TT.Chain Model.Als Model.AlsFunc Model.Func Model.GridPoi
  Proofs.FuncP Proofs.AlsLin Proofs.AlsSim Proofs.AlsTop Proofs.AlsDesc Proofs.AlsFuncP Proofs.AlsFuncSim Proofs.AlsFuncDesc.
Import ListNotations.

Section Cheb.
Context {T : Type} (K : ops T).
Lemma cheb_H_wf a b n d (X : list (list T)) : Hwf (cheb_H K a b n d X) d (length X).
Proof.
  split; [apply tab_length|]. intros k Hk. unfold cheb_H. rewrite nth_tab by auto. apply map_length.
Qed.
(* H[k][s, i] = T_i(clip((X[s,k] - (b+a)/2) * (2/(b-a)), -1, 1)) *)
Lemma cheb_H_entry a b n d (X : list (list T)) k s i : k < d -> s < length X -> i < n ->
  nth i (nth s (nth k (cheb_H K a b n d X) []) []) (o0 K) = chebT K (scale_cheb K a b (nth k (nth s X []) (o0 K))) i.
Proof.
  intros Hk Hs Hi. unfold cheb_H. rewrite nth_tab by auto.
  rewrite (nth_map_lt (fun x => func_basis1 K (scale_cheb K a b (nth k x (o0 K))) n) X s [] []) by auto.
  now apply nth_func_basis1.
Qed.
Lemma als_func_cheb_shape solve acc accv X y (A0 : list (core T)) a b nswp e evld lamb fuel Y inf :
  als_func_cheb K solve acc accv X y A0 a b nswp e evld lamb fuel = Ok (Y, inf) -> map dims Y = map dims A0.
Proof. unfold als_func_cheb. apply als_func_wf. Qed.
End Cheb.

Local Open Scope R_scope.
Section ChebR.
Variable solve : list (list R) -> list R -> list R.
Hypothesis solve_ok : spd_solver solve.
Variable lamb : R.
Hypothesis Hlamb : 0 < lamb.
(* the objective measured in the true (scaled, clipped) Chebyshev basis never increases from sweep to sweep and the
   core updated last is at its exact minimiser, for every box [a, b] and every point set (inside, on, outside the box) *)
Lemma als_func_cheb_descent X y A0 a b n : chain 1%nat A0 1%nat -> length y = length X ->
  let H := cheb_H ORa a b (cn (nth O A0 dcore)) (length A0) X in
  fJobj ORa lamb H y (fY (Nat.iter (S n) (fsweep ORa solve lamb y H) (finit_st ORa H y A0)))
  <= fJobj ORa lamb H y (fY (Nat.iter n (fsweep ORa solve lamb y H) (finit_st ORa H y A0))).
Proof. intros C L H. apply als_func_descent; auto. unfold H. rewrite L. apply cheb_H_wf. Qed.
Lemma als_func_cheb_last_core_optimal X y A0 a b n Xc : chain 1%nat A0 1%nat -> length y = length X ->
  (2 <= length A0)%nat -> dims Xc = dims (nth 1 A0 dcore) ->
  let H := cheb_H ORa a b (cn (nth O A0 dcore)) (length A0) X in
  let Yn := fY (Nat.iter (S n) (fsweep ORa solve lamb y H) (finit_st ORa H y A0)) in
  fJobj ORa lamb H y Yn <= fJobj ORa lamb H y (upd 1 Xc Yn).
Proof. intros C L Hd D H. apply als_func_last_core_optimal; auto. unfold H. rewrite L. apply cheb_H_wf. Qed.
End ChebR.
