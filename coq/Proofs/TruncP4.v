(* C02, part 4: matrix_skeleton(A, e, r, rel=False, give_to='l') meets the contract of a factorisation step,
   for every svd routine meeting the thin-SVD contract:  U V = A V^T V,  V V^T = I,  |A - U V|_F^2 = tail q. *)
From Coq Require Import List Arith Lia Ring PeanoNat ZArith Bool Reals Lra.
From TV Require Import Num.Ops Lin.Tab Lin.BigSum Lin.Mat TT.Chain Model.Transformation Model.Svd
  Proofs.TransformationP Proofs.OrthP Proofs.StabRP Proofs.TruncP Proofs.FrobP Proofs.TruncP2.
Import ListNotations.

Lemma nth_firstn_lt {A} (l : list A) : forall q c d, c < q -> nth c (firstn q l) d = nth c l d.
Proof. induction l as [|x l IH]; intros [|q] [|c] d H; cbn; try lia; auto. apply IH. lia. Qed.
Lemma nth_skipn_add {A} (l : list A) : forall q c d, nth c (skipn q l) d = nth (q + c) l d.
Proof. induction l as [|x l IH]; intros [|q] c d; cbn; auto. - now destruct c. Qed.

Section SkelAlg.
Context {T : Type} (K : ops T).
Notation "0" := (o0 K). Notation "1" := (o1 K).
Infix "+" := (oadd K). Infix "*" := (omul K). Infix "-" := (osub K).
Hypothesis Rth : rng K.
Add Ring RrSkelAlg : Rth.
Local Notation bsum := (bsum K). Local Notation mget := (mget K).

(* np.linalg.svd(A, full_matrices=False) -> (U, s, Vt): A = U diag(s) Vt, orthonormal columns of U / rows of Vt *)
Definition svd_ok (A U : mat T) (s : list T) (V : mat T) : Prop :=
  length s = Nat.min (mr A) (mc A) /\ mr U = mr A /\ mc U = length s /\ mr V = length s /\ mc V = mc A /\
  (forall i j, i < mr A -> j < mc A ->
     mget A i j = bsum (length s) (fun c => mget U i c * nth c s 0 * mget V c j)) /\
  (forall c c', c < length s -> c' < length s ->
     bsum (mr A) (fun i => mget U i c * mget U i c') = if Nat.eqb c c' then 1 else 0) /\
  (forall c c', c < length s -> c' < length s ->
     bsum (mc A) (fun j => mget V c j * mget V c' j) = if Nat.eqb c c' then 1 else 0).

Definition skelU (U : mat T) (s : list T) (q : nat) : mat T := mmul K (mtakec K U q) (diagl K (firstn q s)).
Definition skelV (V : mat T) (q : nat) : mat T := mtaker K V q.

Lemma mget_skelU U s q a c : a < mr U -> c < q -> q <= length s -> mget (skelU U s q) a c = mget U a c * nth c s 0.
Proof.
  intros Ha Hc Hq. unfold skelU.
  assert (Lq : length (firstn q s) = q) by (apply firstn_length_le; exact Hq).
  rewrite mget_mmul by (cbn [mtakec diagl mr mc mkmat]; lia). cbn [mtakec mc mkmat].
  rewrite (bsum_single K Rth q c); auto.
  - unfold mtakec, diagl. rewrite !mget_mk by lia. rewrite Nat.eqb_refl. now rewrite nth_firstn_lt by exact Hc.
  - intros k Hk Hne. unfold diagl. rewrite (mget_mk K (length (firstn q s))) by lia.
    destruct (Nat.eqb_spec k c); [contradiction|ring].
Qed.
Lemma mget_skelV V q c t : c < q -> t < mc V -> mget (skelV V q) c t = mget V c t.
Proof. intros. unfold skelV, mtaker. now rewrite mget_mk. Qed.

Section WithSvd.
Variables (A U : mat T) (s : list T) (V : mat T).
Hypothesis HS : svd_ok A U s V.
Let p := length s.

(* A V^T = U diag(s) *)
Lemma svd_AVt a c : a < mr A -> c < p ->
  bsum (mc A) (fun t => mget A a t * mget V c t) = mget U a c * nth c s 0.
Proof.
  destruct HS as (h1 & h2 & h3 & h4 & h5 & hA & hU & hV). intros Ha Hc.
  rewrite (bsum_ext K (mc A) _ (fun t => bsum p (fun c' => (mget U a c' * nth c' s 0) * (mget V c' t * mget V c t)))).
  2:{ intros t Ht. rewrite hA by auto. fold p. rewrite <- bsum_mul_r by auto. apply bsum_ext; intros c' Hc'. ring. }
  rewrite bsum_swap by auto.
  rewrite (bsum_ext K p _ (fun c' => (mget U a c' * nth c' s 0) * bsum (mc A) (fun t => mget V c' t * mget V c t))).
  2:{ intros c' Hc'. now rewrite bsum_mul_l by auto. }
  rewrite (bsum_single K Rth p c); auto.
  - rewrite hV, Nat.eqb_refl by auto. ring.
  - intros c' Hc' Hne. rewrite hV by auto. destruct (Nat.eqb_spec c' c); [contradiction|ring].
Qed.

Variable q : nat.
Hypothesis Hq1 : 1 <= q.
Hypothesis Hqp : q <= p.

Lemma skel_fact_ok : fact_ok K A (skelU U s q) (skelV V q).
Proof.
  pose proof svd_AVt as AV. destruct HS as (h1 & h2 & h3 & h4 & h5 & hA & hU & hV).
  assert (Lq : length (firstn q s) = q) by (apply firstn_length_le; exact Hqp).
  constructor.
  - cbn [skelU mmul mr mkmat mtakec]. exact h2.
  - cbn [skelV mtaker mc mkmat]. exact h5.
  - cbn [skelU skelV mmul mtaker mr mc mkmat diagl]. now rewrite Lq.
  - intros a t Ha Ht. replace (mc (skelU U s q)) with q by (cbn [skelU mmul mc mkmat diagl]; now rewrite Lq).
    transitivity (bsum q (fun c => bsum (mc A) (fun t' => mget A a t' * mget V c t') * mget V c t)).
    + apply bsum_ext; intros c Hc. rewrite AV by (auto; unfold p in *; lia).
      rewrite mget_skelU by (auto; lia). rewrite mget_skelV by (auto; lia). reflexivity.
    + rewrite (bsum_ext K q _ (fun c => bsum (mc A) (fun t' => mget A a t' * (mget V c t' * mget V c t)))).
      2:{ intros c Hc. rewrite <- bsum_mul_r by auto. apply bsum_ext; intros t' Ht'. ring. }
      rewrite bsum_swap by auto. apply bsum_ext; intros t' Ht'. rewrite bsum_mul_l by auto. f_equal.
      apply bsum_ext; intros c Hc. now rewrite !mget_skelV by (auto; lia).
  - apply rows_orth_porth. intros c c' Hc Hc'. cbn [skelV mtaker mr mc mkmat] in *. rewrite h5. rewrite <- (hV c c') by (unfold p in *; lia).
    apply bsum_ext; intros t Ht. now rewrite !mget_skelV by (auto; lia).
Qed.

(* the residual is the discarded part of the expansion; its squared norm is the sum of the discarded s_c^2 *)
Lemma skel_res2 : res2 K A (skelU U s q) (skelV V q) = bsum (p - q) (fun c => sq K (nth (q + c)%nat s 0)).
Proof.
  destruct HS as (h1 & h2 & h3 & h4 & h5 & hA & hU & hV).
  assert (Lq : length (firstn q s) = q) by (apply firstn_length_le; exact Hqp).
  unfold res2. replace (mc (skelU U s q)) with q by (cbn [skelU mmul mc mkmat diagl]; now rewrite Lq).
  set (x := fun c => nth (q + c)%nat s 0).
  transitivity (bsum (mr A) (fun a => bsum (mc A) (fun t =>
     bsum (p - q) (fun c => bsum (p - q) (fun c' =>
        ((x c * mget U a (q + c)%nat) * (x c' * mget U a (q + c')%nat)) * (mget V (q + c)%nat t * mget V (q + c')%nat t)))))).
  { apply bsum_ext; intros a Ha. apply bsum_ext; intros t Ht. rewrite <- (bsum_sq_sum K Rth). f_equal.
    rewrite hA by auto. fold p. replace p with (q + (p - q))%nat at 1 by lia. rewrite bsum_split by auto.
    rewrite (bsum_ext K q (fun c => mget (skelU U s q) a c * mget (skelV V q) c t) (fun c => mget U a c * nth c s 0 * mget V c t)).
    2:{ intros c Hc. rewrite mget_skelU by (auto; lia). rewrite mget_skelV by (auto; lia). reflexivity. }
    match goal with |- ?a + ?b - ?a = ?c => replace (a + b - a) with b by ring end.
    apply bsum_ext; intros c Hc. unfold x. ring. }
  transitivity (bsum (p - q) (fun c => bsum (p - q) (fun c' =>
     (x c * x c') * (bsum (mr A) (fun a => mget U a (q + c)%nat * mget U a (q + c')%nat) *
                     bsum (mc A) (fun t => mget V (q + c)%nat t * mget V (q + c')%nat t))))).
  { rewrite (bsum_ext K (mr A) _ (fun a => bsum (p - q) (fun c => bsum (p - q) (fun c' =>
        ((x c * x c') * (mget U a (q + c)%nat * mget U a (q + c')%nat)) *
        bsum (mc A) (fun t => mget V (q + c)%nat t * mget V (q + c')%nat t))))).
    2:{ intros a Ha. rewrite bsum_swap by auto. apply bsum_ext; intros c Hc. rewrite bsum_swap by auto.
        apply bsum_ext; intros c' Hc'. rewrite <- bsum_mul_l by auto. apply bsum_ext; intros t Ht. ring. }
    rewrite bsum_swap by auto. apply bsum_ext; intros c Hc. rewrite bsum_swap by auto.
    apply bsum_ext; intros c' Hc'.
    rewrite <- (bsum_mul_r K Rth (mr A)). rewrite <- bsum_mul_l by auto. apply bsum_ext; intros a Ha. ring. }
  apply bsum_ext; intros c Hc. rewrite (bsum_single K Rth (p - q) c); auto.
  - rewrite hU, hV by (unfold p in *; lia). rewrite Nat.eqb_refl. unfold sq, x. ring.
  - intros c' Hc' Hne. rewrite hU by (unfold p in *; lia). destruct (Nat.eqb_spec (q + c) (q + c')); [lia|ring].
Qed.
End WithSvd.
End SkelAlg.

(* ---------------------------------------------------------------------------------------------------
   at the reals: the rank rule picks q, and the residual is within the budget when the cap does not bind
   --------------------------------------------------------------------------------------------------- *)
Local Open Scope R_scope.

Lemma lsum_nth (l : list R) : lsum OR l = bsum OR (length l) (fun c => nth c l 0).
Proof.
  induction l as [|x l IH]; [reflexivity|]. cbn [lsum length]. rewrite (bsum_S_l OR OR_rng). cbn [nth]. now rewrite IH.
Qed.
Lemma tailsum_bsum (s : list R) q : (q <= length s)%nat ->
  tailsum (map (fun x => x * x) s) q = bsum OR (length s - q) (fun c => sq OR (nth (q + c) s 0)).
Proof.
  intros Hq. unfold tailsum. rewrite lsum_nth, skipn_length, map_length. apply (bsum_ext OR); intros c Hc.
  rewrite nth_skipn_add.
  rewrite (nth_indep (map (fun x : R => x * x) s) 0 ((fun x : R => x * x) 0)) by (rewrite map_length; lia).
  exact (map_nth (fun x : R => x * x) s 0 (q + c)).
Qed.

Section SkelR.
Variable svdo : nat -> mat R -> mat R * list R * mat R.
Hypothesis svd_spec : forall k A, svd_ok OR A (fst (fst (svdo k A))) (snd (fst (svdo k A))) (snd (svdo k A)).
Variable rcap : Z.

Theorem skeleton_contract e' : 0 <= e' ->
  fact_contract (fun k M => matrix_skeleton OR svdo k M e' rcap false GiveL) (e' * e') rcap.
Proof.
  intros He k M H1 H2. cbv zeta. unfold matrix_skeleton. pose proof (svd_spec k M) as HS.
  destruct (svdo k M) as [[U s] V]. cbn [fst snd] in HS.
  set (x := map (fun x => omul OR x x) s). set (q := rank_select OR x (omul OR e' e') rcap).
  pose proof HS as (h1 & h2 & h3 & h4 & h5 & _).
  assert (Lx : length x = length s) by apply map_length.
  destruct (rank_select_bounds x (e' * e') rcap) as (b1 & b2 & b3). change (rank_select OR x (e' * e') rcap) with q in b1, b2, b3. rewrite Lx in b3.
  assert (Hqp : (q <= length s)%nat) by lia.
  assert (Lq : length (firstn q s) = q) by (apply firstn_length_le; exact Hqp).
  change (mmul OR (mtakec OR U q) (diagl OR (firstn q s))) with (skelU OR U s q).
  change (mtaker OR V q) with (skelV OR V q). cbn [fst snd].
  assert (MC : mc (skelU OR U s q) = q) by (cbn [skelU mmul mc mkmat diagl]; exact Lq).
  rewrite MC. split; [apply (skel_fact_ok OR OR_rng M U s V HS q b1 Hqp)|].
  split; [exact b1|]. split; [lia|]. split; [lia|]. split; [exact b2|].
  intros Hcap. rewrite (skel_res2 OR OR_rng M U s V HS q b1 Hqp).
  rewrite <- tailsum_bsum by exact Hqp.
  apply rank_select_tail'.
  - apply Forall_forall. intros v Hv. apply in_map_iff in Hv as (y & <- & _). change (0 <= y * y). nra.
  - nra.
  - left. exact Hcap.
Qed.
End SkelR.

(* ---------- SVD mode: the error bound with only the LAPACK contracts as hypotheses ---------- *)
From TV Require Import Model.Wf Proofs.TransformationP2 Proofs.TruncP3.
Theorem truncate_error_svd
  (svdo : nat -> mat R -> mat R * list R * mat R) (eigh : nat -> mat R -> list R * mat R)
  (argsort : nat -> list R -> list nat) (qr rq : nat -> mat R -> mat R * mat R)
  (ilog2 : nat -> R -> Z) (pow2frac : Z -> nat -> R) :
  (forall k A, qr_ok OR A (fst (qr k A)) (snd (qr k A))) ->
  (forall k A, rq_ok OR A (fst (rq k A)) (snd (rq k A))) ->
  (forall k A, svd_ok OR A (fst (fst (svdo k A))) (snd (fst (svdo k A))) (snd (svdo k A))) ->
  forall (rcap : Z) (Y : list (core R)) (e : R), wfI (shape Y) Y -> (2 <= length Y)%nat -> 0 <= e ->
  exists W, truncate OR svdo eigh argsort qr rq ilog2 pow2frac Y e rcap true false false = Ok W /\
    length W = length Y /\ chain 1 W 1 /\ shape W = shape Y /\
    (forall k, (1 <= k < length Y)%nat ->
       (1 <= cr1 (nth k W dcore))%nat /\ (cr1 (nth k W dcore) <= cr1 (nth k Y dcore))%nat /\
       (Z.of_nat (cr1 (nth k W dcore)) <= Z.max 1 rcap)%Z) /\
    ((forall k, (1 <= k < length Y)%nat -> (Z.of_nat (cr1 (nth k W dcore)) < rcap)%Z) ->
     dist2 OR Y W <= e * e * tnorm2 OR Y).
Proof.
  intros Hq Hr Hs rcap Y e. apply (truncate_error_gen svdo eigh argsort qr rq ilog2 pow2frac Hq Hr rcap false).
  intros e' He'. exact (skeleton_contract svdo Hs rcap e' He').
Qed.

(* ---------- non-vacuity: a concrete thin SVD and the factorisation it yields ---------- *)
Definition exA : mat R := mk_mat 2 2 [[3; 0]; [0; 1]].
Definition exI : mat R := mk_mat 2 2 [[1; 0]; [0; 1]].
Example svd_ok_ex : svd_ok OR exA exI [3; 1] exI.
Proof.
  unfold svd_ok, exA, exI. cbn [length mr mc Nat.min]. repeat split.
  - intros [|[|i]] [|[|j]] Hi Hj; try lia; cbn; lra.
  - intros [|[|c]] [|[|c']] Hc Hc'; try lia; cbn; lra.
  - intros [|[|c]] [|[|c']] Hc Hc'; try lia; cbn; lra.
Qed.
(* rank 1 kept: U = [[3],[0]], V = [[1,0]], residual^2 = 1 = the discarded s^2 *)
Example fact_ok_ex : fact_ok OR exA (skelU OR exI [3; 1] 1) (skelV OR exI 1) /\
  res2 OR exA (skelU OR exI [3; 1] 1) (skelV OR exI 1) = 1.
Proof.
  split.
  - apply (skel_fact_ok OR OR_rng exA exI [3; 1] exI svd_ok_ex 1%nat); cbn; lia.
  - rewrite (skel_res2 OR OR_rng exA exI [3; 1] exI svd_ok_ex 1%nat) by (cbn; lia). cbn. lra.
Qed.
