(* C05: the right-to-left half sweep of the instantiated model (Model/CrossNum.v) - mirror image of
   Proofs/Cross05PNum.v - and the composition to a full sweep / to the tensor returned by cross_num at a sweep end. *)
From Coq Require Import List Arith Lia PeanoNat Bool Ring.
From TV Require Import Num.Ops Lin.Tab Lin.BigSum Lin.Mat TT.Chain Model.Cross Model.CrossNum
  Proofs.CrossIdx Proofs.CrossGeo Proofs.CrossP Proofs.Cross05P Proofs.Cross05PInterp Proofs.Cross05PNum.
Import ListNotations.

Lemma skipn_upd_S {A} (l : list A) i x : i < length l -> skipn i (upd l i x) = x :: skipn (S i) l.
Proof.
  revert i; induction l as [|y l IH]; intros [|i] H; simpl in *; try lia; auto. apply IH. lia.
Qed.
Lemma skipn_upd_gt {A} (l : list A) i k x : i < k -> skipn k (upd l i x) = skipn k l.
Proof.
  revert i k; induction l as [|y l IH]; intros [|i] [|k] H; simpl in *; try lia; auto. apply IH. lia.
Qed.
Lemma Forall2_lt_app q1 q2 n1 n2 : Forall2 lt q1 n1 -> Forall2 lt q2 n2 -> Forall2 lt (q1 ++ q2) (n1 ++ n2).
Proof. intros H1 H2. apply Forall2_app; auto. Qed.

Section Rtl.
Context {T : Type} (K : ops T).
Notation "0" := (o0 K). Notation "1" := (o1 K).
Infix "+" := (oadd K). Infix "*" := (omul K).
Hypothesis Rth : rng K.
Add Ring RrC05r : Rth.

Variable qr : mat T -> mat T * mat T.
Variable mvI : mat T -> nat -> nat -> list nat.
Variable mvB : mat T -> list nat -> mat T.
Variable A : row -> T.

(* ---------- the algebraic step, for any family of sampled vectors F t : row -> T ---------- *)
Lemma gstep (N : nat) (ind : list nat) (B : nat -> nat -> T) (F : nat -> row -> T) (smp : list row) (ok : row -> Prop) :
  Forall (fun t => (t < N)%nat) ind ->
  (forall t c, (t < N)%nat -> (c < length smp)%nat ->
     bsum K (length ind) (fun s => B t s * F (nth s ind O) (nth c smp [])) = F t (nth c smp [])) ->
  (exists M : nat -> row -> T, forall t u, (t < N)%nat -> ok u ->
     F t u = bsum K (length smp) (fun c => F t (nth c smp []) * M c u)) ->
  forall t u, (t < N)%nat -> ok u -> bsum K (length ind) (fun s => B t s * F (nth s ind O) u) = F t u.
Proof.
  intros Hind Hs (M & HM) t u Ht Hu.
  rewrite (bsum_ext K (length ind) _
     (fun s => bsum K (length smp) (fun c => B t s * F (nth s ind O) (nth c smp []) * M c u))).
  2:{ intros s Hsl. rewrite (HM (nth s ind O) u); auto.
      - rewrite <- (bsum_mul_l K Rth). apply bsum_ext; intros c Hc. ring.
      - rewrite Forall_forall in Hind. apply Hind. apply nth_In; auto. }
  rewrite (bsum_swap K Rth). rewrite (HM t u Ht Hu). apply bsum_ext; intros c Hc.
  rewrite <- (Hs t c Ht Hc). rewrite (bsum_mul_r K Rth). reflexivity.
Qed.

(* candidate column number t at right index set Rs: [t mod n] ++ Rs[t / n]  (Model/Cross.v [inew false]) *)
Definition rcand (Rs : list row) (n t : nat) : row := [t mod n] ++ nth (t / n) Rs [].
Lemma rcand_split Rs n j c : (j < n)%nat -> rcand Rs n (j + n * c)%nat = j :: nth c Rs [].
Proof.
  intros H. unfold rcand. cbn [app]. f_equal.
  - rewrite Nat.mul_comm, Nat.mod_add by lia. apply Nat.mod_small; exact H.
  - f_equal. rewrite Nat.mul_comm, Nat.div_add by lia. rewrite Nat.div_small by exact H. reflexivity.
Qed.

(* interpolation on the sampled rows Ls (B Z'[ind] = Z' for the transposed unfolding) *)
Definition rsamp_ok (Ls : list row) (n : nat) (ind : list nat) (B : nat -> nat -> T) (Rs : list row) : Prop :=
  forall t a, (t < n * length Rs)%nat -> (a < length Ls)%nat ->
    bsum K (length ind) (fun s => B t s * A (nth a Ls [] ++ rcand Rs n (nth s ind O))) = A (nth a Ls [] ++ rcand Rs n t).
(* every row (prefix in okP) of the candidate columns is a combination of the sampled rows *)
Definition rspan_ok (Ls : list row) (n : nat) (Rs : list row) (okP : row -> Prop) : Prop :=
  exists M : nat -> row -> T, forall t u, (t < n * length Rs)%nat -> okP u ->
    A (u ++ rcand Rs n t) = bsum K (length Ls) (fun a => A (nth a Ls [] ++ rcand Rs n t) * M a u).

(* the right interface vector w interpolates the target from the columns Rs, for every admissible prefix *)
Definition rinterp (nsp : list nat) (Rs : list row) (w : nat -> T) (qsuf : row) : Prop :=
  forall u, okS nsp u -> bsum K (length Rs) (fun c => A (u ++ nth c Rs []) * w c) = A (u ++ qsuf).

Lemma rinterp_ext nsp Rs w w' q :
  (forall c, (c < length Rs)%nat -> w c = w' c) -> rinterp nsp Rs w q -> rinterp nsp Rs w' q.
Proof. intros E H u Hu. rewrite <- (H u Hu). apply bsum_ext; intros c Hc. rewrite E by auto. reflexivity. Qed.

Lemma rinterp_step Ls n ind B Rs nsp w q j :
  Forall (fun t => (t < n * length Rs)%nat) ind -> rsamp_ok Ls n ind B Rs -> rspan_ok Ls n Rs (okS nsp) ->
  rinterp (nsp ++ [n]) Rs w q -> (j < n)%nat ->
  rinterp nsp (map (rcand Rs n) ind) (fun s => bsum K (length Rs) (fun c => B (j + n * c)%nat s * w c)) (j :: q).
Proof.
  intros Hind Hs Hsp HI Hj u Hu. rewrite map_length.
  rewrite (bsum_ext K (length ind) _
     (fun s => bsum K (length Rs) (fun c => w c * (B (j + n * c)%nat s * A (u ++ rcand Rs n (nth s ind O)))))).
  2:{ intros s Hsl. rewrite (nth_indep _ [] (rcand Rs n O)) by (rewrite map_length; exact Hsl). rewrite map_nth.
      rewrite <- (bsum_mul_l K Rth). apply bsum_ext; intros c Hc. ring. }
  rewrite (bsum_swap K Rth).
  assert (Hu' : okS (nsp ++ [n]) (u ++ [j])) by (apply Forall2_lt_app; auto).
  replace (u ++ j :: q) with ((u ++ [j]) ++ q) by (rewrite <- app_assoc; reflexivity).
  rewrite <- (HI (u ++ [j]) Hu').
  apply bsum_ext; intros c Hc. rewrite (bsum_mul_l K Rth).
  assert (G : bsum K (length ind) (fun s => B (j + n * c)%nat s * A (u ++ rcand Rs n (nth s ind O)))
              = A (u ++ rcand Rs n (j + n * c)%nat)).
  { apply (gstep (n * length Rs) ind B (fun t u0 => A (u0 ++ rcand Rs n t)) Ls (okS nsp)).
    - exact Hind.
    - intros t a Ht Ha. apply Hs; auto.
    - destruct Hsp as (M & HM). exists M. intros t u0 Ht Hu0. apply HM; auto.
    - nia.
    - exact Hu. }
  rewrite G. rewrite rcand_split by exact Hj. rewrite <- app_assoc. cbn [app]. ring.
Qed.

(* ---------- what _iter computes at a right-to-left position ---------- *)
Section Iter.
Variables (Ir Ic : option rows) (n : nat).
Notation r1 := (rk Ir). Notation r2 := (rk Ic).
Notation Ls := (orl Ir). Notation Rs := (orl Ic).
Notation p := (pvalsN K r1 n r2 (map A (batch n Ir Ic))).
Notation Zm := (unfoldZ K false r1 n r2 p).

Lemma ZmA_rtl t a : (t < n * r2)%nat -> (a < r1)%nat -> mget K Zm t a = A (nth a Ls [] ++ rcand Rs n t).
Proof.
  intros Ht Ha. unfold unfoldZ. rewrite mget_mk by auto.
  assert (n <> 0)%nat by nia.
  rewrite (Zval K A); auto.
  - unfold rcand. rewrite !orow_orl. reflexivity.
  - apply Nat.mod_upper_bound; auto.
  - apply Nat.div_lt_upper_bound; auto.
Qed.

Variables (k : nat) (dmin dmax : nat).
Notation Zc := (mkc r1 n r2 p).
Notation ind := (maxvol_w (pickN K qr mvI) k false Zc dmin dmax).
Notation Bm := (Bof K qr mvB false r1 n r2 p ind).

Lemma iter_rtl_realises :
  qr_ok_at K qr Zm -> mv_ok_at K mvI mvB (fst (qr Zm)) dmin dmax ->
  Forall (fun t => (t < n * length Rs)%nat) ind /\
  rsamp_ok Ls n ind (fun t s => mget K Bm t s) Rs /\
  (forall s a, (s < length ind)%nat -> (a < r1)%nat ->
     mget K (mmul K (mrows K (fst (qr Zm)) ind) (snd (qr Zm))) s a = A (nth a Ls [] ++ rcand Rs n (nth s ind O))).
Proof.
  intros Hqr Hmv. rewrite <- !rk_orl.
  destruct Hqr as (Q1 & Q2 & Q3).
  change (mr Zm) with (n * r2)%nat in Q1, Q3. change (mc Zm) with r1 in Q2, Q3.
  assert (Hind : Forall (fun t => (t < n * r2)%nat) ind).
  { unfold maxvol_w; cbn [c1 cnn c2 cp]. destruct (Nat.leb_spec (n * r2) (Nat.min (n * r2) r1)).
    - apply Forall_forall. intros t Ht. apply in_seq in Ht. lia.
    - unfold pickN. destruct Hmv as (M1 & _). rewrite Q1 in M1. exact M1. }
  split; [exact Hind|]. split.
  - intros t a Ht Ha. rewrite <- !rk_orl in *.
    rewrite <- !ZmA_rtl by (auto; rewrite Forall_forall in Hind; apply Hind, nth_In; auto).
    rewrite (bsum_ext K _ _ (fun s => mget K Bm t s * mget K Zm (nth s ind O) a)).
    2:{ intros s Hs. rewrite ZmA_rtl; auto. rewrite Forall_forall in Hind. apply Hind, nth_In; auto. }
    unfold Bof, maxvol_w; cbn [c1 cnn c2 cp]. destruct (Nat.leb_spec (n * r2) (Nat.min (n * r2) r1)) as [Hle|Hlt].
    + rewrite seq_length. rewrite (bsum_single K Rth (n * r2) t); auto.
      * rewrite mget_mid, Nat.eqb_refl, seq_nth by auto. cbn [Nat.add]. ring.
      * intros s Hs Hne. rewrite mget_mid by auto. destruct (Nat.eqb_spec t s); [congruence|ring].
    + unfold pickN. destruct Hmv as (M1 & M2). rewrite Q1 in M1, M2.
      apply (core_interp K Rth (n * r2) (mc (fst (qr Zm))) r1 _
               (fun t k => mget K (fst (qr Zm)) t k) (fun k c => mget K (snd (qr Zm)) k c)); auto.
  - intros s a Hs Ha. rewrite mget_mmul by (cbn [mr mc mrows mkmat]; auto; rewrite Q2; auto).
    cbn [mc mrows mkmat].
    rewrite (bsum_ext K _ _ (fun kk => mget K (fst (qr Zm)) (nth s ind O) kk * mget K (snd (qr Zm)) kk a)).
    2:{ intros kk Hk. unfold mrows. rewrite mget_mk by auto. reflexivity. }
    assert (Hnb : (nth s ind O < n * r2)%nat) by (rewrite Forall_forall in Hind; apply Hind, nth_In; auto).
    rewrite <- Q3 by auto. apply ZmA_rtl; auto.
Qed.
End Iter.

(* ---------- right interface vectors of a list of cores ---------- *)
Fixpoint rvec (Y : list (@mcore (core T))) (q : row) : nat -> T :=
  match Y, q with
  | G :: Y', j :: q' => fun a => bsum K (c2 G) (fun c => cget K (cp G) a j c * rvec Y' q' c)
  | _, _ => e0 K
  end.
(* ranks of consecutive cores match, first left rank r, last right rank 1 *)
Fixpoint chainR (r : nat) (Y : list (@mcore (core T))) : Prop :=
  match Y with [] => r = 1%nat | G :: Y' => c1 G = r /\ chainR (c2 G) Y' end.

Lemma lvec_rvec Y : forall r q v, chainR r Y -> length Y = length q ->
  lvec K Y q v O = bsum K r (fun a => v a * rvec Y q a).
Proof.
  induction Y as [|G Y IH]; intros r [|j q] v Hc HL; simpl in HL; try lia.
  - cbn [chainR] in Hc. subst r. cbn [lvec rvec bsum]. unfold e0, delta. cbn [Nat.eqb]. ring.
  - destruct Hc as (Hc1 & Hc2). cbn [lvec rvec].
    rewrite (IH (c2 G) q _ Hc2) by lia. rewrite Hc1.
    rewrite (bsum_ext K (c2 G) _ (fun c => bsum K r (fun a => v a * (cget K (cp G) a j c * rvec Y q c)))).
    2:{ intros c Hcc. rewrite <- (bsum_mul_r K Rth). apply bsum_ext; intros a Ha. ring. }
    rewrite (bsum_swap K Rth). apply bsum_ext; intros a Ha. rewrite (bsum_mul_l K Rth). reflexivity.
Qed.

Lemma upd_0 {X} (l : list X) x : (0 < length l)%nat -> upd l 0 x = x :: skipn 1 l.
Proof. destruct l; simpl; [lia|reflexivity]. Qed.

(* ---------- the model run ---------- *)
Variable isinf : T -> bool.
Variable f : nat -> rows -> option (list T).
Variable cb : option (nat -> bool).
Variable erank : nat -> list (@mcore (core T)) -> T.
Variable accuracy : nat -> list (@mcore (core T)) -> list (@mcore (core T)) -> T.
Variable accdata : nat -> list (@mcore (core T)) -> T.
Variable C : @cfg T (core T).
Hypothesis Hf : forall k I, f k I = Some (map A I).
Hypothesis Hm : m_max C = None.

Notation stepN := (step K isinf f cb (ponesN K) (pdotLN K) (pdotRN K) (pvalsN K) (pickN K qr mvI)
                        (pcoreGN K qr mvB) (pfacRN K qr) erank accuracy accdata C).
Notation ns := (nsN C).

(* state at position i of a right-to-left half sweep of the main loop that started in s1 *)
Definition RInv (s1 : @st T (core T)) (i : nat) (s : @st T (core T)) : Prop :=
  s_pc s = Run true false i /\ sIr s = sIr s1 /\ k_stop (sK s) = None /\ k_cache (sK s) = None /\
  length (sY s) = d C /\ length (sIc s) = S (d C) /\
  chainR (rk (nth (S i) (sIc s) None)) (skipn (S i) (sY s)) /\
  forall q, Forall2 lt q (skipn (S i) ns) ->
    rinterp (firstn (S i) ns) (orl (nth (S i) (sIc s) None)) (rvec (skipn (S i) (sY s)) q) q.

(* the value matrix of position i, unfolded for the right-to-left _iter (transposed) *)
Definition Zr_of (s1 : @st T (core T)) (i : nat) (s : @st T (core T)) : mat T :=
  let Ir := nth i (sIr s1) None in let Ic := nth (S i) (sIc s) None in let n := nth i ns O in
  unfoldZ K false (rk Ir) n (rk Ic) (pvalsN K (rk Ir) n (rk Ic) (map A (batch n Ir Ic))).
(* hypotheses at position i of the way back: the sampled rows (left index set of s1) span the unfolding of the target
   on the candidate columns; QR and maxvol meet their contracts on the matrices they are given there *)
Definition rpos_ok (s1 : @st T (core T)) (i : nat) (s : @st T (core T)) : Prop :=
  rspan_ok (orl (nth i (sIr s1) None)) (nth i ns O) (orl (nth (S i) (sIc s) None)) (okS (firstn i ns)) /\
  qr_ok_at K qr (Zr_of s1 i s) /\ mv_ok_at K mvI mvB (fst (qr (Zr_of s1 i s))) (c_drmin C) (c_drmax C).

Lemma rtl_step s1 i s : (i < d C)%nat -> RInv s1 i s -> rpos_ok s1 i s ->
  (forall i', i = S i' -> RInv s1 i' (stepN s)) /\
  (i = O -> nth 0 (sIr s1) None = None -> forall q, Forall2 lt q ns -> ttval K (sY (stepN s)) q = A q).
Proof.
  intros Hi (Hpc & HIr & Hst & Hca & HLY & HLc & Hch & HI) (Hsp & Hqr & Hmv).
  unfold Zr_of in Hqr, Hmv. cbv zeta in Hqr, Hmv.
  set (Ir := nth i (sIr s1) None) in *. set (Ic := nth (S i) (sIc s) None) in *.
  set (n := nth i ns O) in *.
  assert (HnL : length ns = d C) by apply nsN_length.
  unfold step. rewrite Hpc. cbv zeta. rewrite HIr. rewrite <- (nsN_nth K). fold n. fold Ir. fold Ic.
  rewrite (func_m_plain K A f C Hf Hm (sK s) n Ir Ic Hca). cbn [k_stop]. rewrite Hst.
  unfold adv_rtl. fold Ic. unfold iter_m. cbv zeta. cbn [c1 cnn c2 cp].
  set (p := pvalsN K (rk Ir) n (rk Ic) (map A (batch n Ir Ic))) in *.
  set (ind := maxvol_w (pickN K qr mvI) (s_nmv s) false (mkc (rk Ir) n (rk Ic) p) (c_drmin C) (c_drmax C)).
  destruct (iter_rtl_realises Ir Ic n (s_nmv s) (c_drmin C) (c_drmax C) Hqr Hmv) as (Hind & Hsamp & Hfac).
  fold p in Hind, Hsamp, Hfac. fold ind in Hind, Hsamp, Hfac.
  set (Bm := Bof K qr mvB false (rk Ir) n (rk Ic) p ind) in *.
  assert (EI' : map (fun t => inew false (rk Ir) n (rk Ic) Ic t) ind = map (rcand (orl Ic) n) ind).
  { apply map_ext. intros t. unfold inew, rcand. rewrite orow_orl. reflexivity. }
  set (Gp := pcoreGN K qr mvB false (rk Ir) n (rk Ic) p ind) in *.
  (* the right interface after this position, for a suffix j :: q *)
  assert (STEP : forall q j, Forall2 lt q (skipn (S i) ns) -> (j < n)%nat ->
     rinterp (firstn i ns) (map (rcand (orl Ic) n) ind)
       (fun s0 => bsum K (rk Ic) (fun c => cget K Gp s0 j c * rvec (skipn (S i) (sY s)) q c)) (j :: q)).
  { intros q j Hq Hj.
    pose proof (HI q Hq) as HIq. rewrite (firstn_S_nth ns i O) in HIq by lia. fold n in HIq.
    pose proof (rinterp_step (orl Ir) n ind (fun t s0 => mget K Bm t s0) (orl Ic) (firstn i ns) _ q j
                  Hind Hsamp Hsp HIq Hj) as HN.
    eapply rinterp_ext; [|exact HN].
    intros s0 Hs0. rewrite map_length in Hs0. rewrite <- rk_orl.
    apply bsum_ext; intros c Hc. unfold Gp, pcoreGN. rewrite cget_mk by auto. reflexivity. }
  split.
  - (* next position of the way back *)
    intros i' Ei. subst i.
    unfold RInv; cbn [s_pc sIr sIc sK sY k_stop k_cache]. rewrite !upd_length.
    split; [reflexivity|]. split; [exact HIr|]. split; [reflexivity|]. split; [reflexivity|].
    split; [exact HLY|]. split; [exact HLc|].
    rewrite nth_upd_eq by lia. rewrite skipn_upd_S by lia. cbn [rk orl]. rewrite EI'. split.
    + cbn [chainR c1 c2]. rewrite !map_length. split; [reflexivity|exact Hch].
    + intros q' Hq'. rewrite (skipn_nth_S ns (S i') O) in Hq' by lia. fold n in Hq'.
      inversion Hq' as [|j n' q ns' Hj Hq]; subst. cbn [rvec c2 cp]. apply STEP; auto.
  - (* position 0: the pending factor is folded into the first core; the sweep ends *)
    intros Ei HIr0 q' Hq'. subst i.
    assert (Er1 : rk Ir = 1%nat) by (unfold Ir; rewrite HIr0; reflexivity).
    assert (HY2 : forall st' : @st T (core T), sY st' = upd (upd (sY s) 0 (mkc (length ind) n (rk Ic) Gp)) 0
                     (dotL (pdotLN K) (mkfac (rk Ir) (length ind) (pfacRN K qr false (rk Ir) n (rk Ic) p ind))
                           (mkc (length ind) n (rk Ic) Gp)) ->
                   ttval K (sY st') q' = A q').
    { intros st' ->. rewrite upd_upd. rewrite upd_0 by lia.
      destruct q' as [|j q]; [apply Forall2_lt_length in Hq'; simpl in Hq'; lia|].
      pose proof (Forall2_lt_length _ _ Hq') as Hlq. cbn [length] in Hlq.
      pose proof (skipn_nth_S ns 0 O ltac:(lia)) as Ens. change (skipn 0 ns) with ns in Ens. fold n in Ens.
      rewrite Ens in Hq'.
      inversion Hq' as [|j0 n0 q0 ns0 Hj Hq]; subst.
      unfold ttval. cbn [lvec]. change (fun a : nat => if Nat.eqb 0 a then 1 else 0) with (e0 K).
      rewrite (lvec_rvec (skipn 1 (sY s)) (rk Ic) q _ Hch).
      2:{ rewrite skipn_length. lia. }
      pose proof (STEP q j Hq Hj) as HS.
      assert (Hnil : okS (firstn 0 ns) []) by constructor.
      specialize (HS [] Hnil). cbn [app] in HS. rewrite <- HS. rewrite map_length.
      cbn [c1 cp dotL f_r f_p].
      assert (Eb : forall g : nat -> T, bsum K (rk Ir) g = g O) by (intros g; rewrite Er1; cbn [bsum]; ring).
      rewrite (bsum_ext K (rk Ic) _ (fun c => bsum K (length ind) (fun s0 =>
           A (rcand (orl Ic) n (nth s0 ind O)) * (cget K Gp s0 j c * rvec (skipn 1 (sY s)) q c)))).
      2:{ intros c Hc. rewrite Eb. cbn [Nat.eqb].
          unfold pdotLN at 1. rewrite cget_mk.
          - unfold pfacRN at 1. cbn [cr2 mkcore].
            rewrite (bsum_ext K (length ind) _ (fun s0 => A (rcand (orl Ic) n (nth s0 ind O)) * cget K Gp s0 j c)).
            2:{ intros s0 Hs0. unfold pfacRN. rewrite cget_mk by (auto; lia). rewrite (Hfac s0 O Hs0) by lia.
                replace (nth 0 (orl Ir) []) with (@nil nat) by (unfold Ir; rewrite HIr0; reflexivity).
                reflexivity. }
            transitivity (bsum K (length ind) (fun s0 => A (rcand (orl Ic) n (nth s0 ind O)) * cget K Gp s0 j c) *
                          rvec (skipn 1 (sY s)) q c); [ring|].
            rewrite <- (bsum_mul_r K Rth). apply bsum_ext; intros s0 Hs0. ring.
          - unfold pfacRN. cbn [cr1 mkcore]. lia.
          - unfold Gp, pcoreGN. cbn [cn mkcore]. exact Hj.
          - unfold Gp, pcoreGN. cbn [cr2 mkcore]. exact Hc. }
      rewrite (bsum_swap K Rth). apply bsum_ext; intros s0 Hs0.
      rewrite (nth_indep _ [] (rcand (orl Ic) n O)) by (rewrite map_length; exact Hs0). rewrite map_nth.
      rewrite <- (bsum_mul_l K Rth). reflexivity. }
    match goal with |- context [info_appr ?a ?b ?c0 ?d0 ?e0' ?f0 ?g0] => destruct (info_appr a b c0 d0 e0' f0 g0) end;
      apply HY2; reflexivity.
Qed.

(* ---------- the right-to-left half sweep ---------- *)
Lemma RInv_iter s1 :
  (1 <= d C)%nat -> s_pc s1 = Run true false (d C - 1) -> k_stop (sK s1) = None -> k_cache (sK s1) = None ->
  length (sY s1) = d C -> length (sIc s1) = S (d C) -> nth (d C) (sIc s1) None = None ->
  (forall k, (k < d C)%nat -> rpos_ok s1 (d C - 1 - k) (iterate stepN k s1)) ->
  forall k, (k < d C)%nat -> RInv s1 (d C - 1 - k) (iterate stepN k s1).
Proof.
  intros Hd Hpc Hst Hca HLY HLc HIcd Hsp. induction k as [|k IH]; intros Hk.
  - cbn [iterate]. rewrite Nat.sub_0_r. unfold RInv.
    replace (S (d C - 1)) with (d C) by lia.
    split; [exact Hpc|]. split; [reflexivity|]. split; [exact Hst|]. split; [exact Hca|].
    split; [exact HLY|]. split; [exact HLc|]. rewrite HIcd. split.
    + rewrite skipn_all2 by lia. reflexivity.
    + intros q Hq. rewrite skipn_all2 in Hq by (rewrite nsN_length; lia). inversion Hq; subst.
      rewrite skipn_all2 by lia. cbn [rvec orl]. intros u Hu. cbn [length bsum nth]. unfold e0, delta. cbn [Nat.eqb].
      rewrite !app_nil_r. ring.
  - rewrite iterate_S_out.
    destruct (rtl_step s1 (d C - 1 - k) (iterate stepN k s1)) as (Hnext & _); [lia|apply IH; lia|apply Hsp; lia|].
    apply Hnext. lia.
Qed.

(* one right-to-left half sweep of the main loop, started in any state s1 at the turn-around: if at every position
   the sampled rows (left index sets of s1) span the unfolding of the target on the candidate columns of the current
   right index set, the tensor held after the d steps - the state at the end of the sweep, whether the driver stops
   there or goes on - is the target, entry by entry *)
Theorem cross_exact_rtl s1 :
  (1 <= d C)%nat -> s_pc s1 = Run true false (d C - 1) -> k_stop (sK s1) = None -> k_cache (sK s1) = None ->
  length (sY s1) = d C -> length (sIc s1) = S (d C) ->
  nth 0 (sIr s1) None = None -> nth (d C) (sIc s1) None = None ->
  (forall k, (k < d C)%nat -> rpos_ok s1 (d C - 1 - k) (iterate stepN k s1)) ->
  forall q, Forall2 lt q ns -> ttval K (sY (iterate stepN (d C) s1)) q = A q.
Proof.
  intros Hd Hpc Hst Hca HLY HLc HIr0 HIcd Hsp q Hq.
  destruct (d C) as [|k] eqn:Ed; [lia|]. rewrite iterate_S_out. rewrite <- Ed in *.
  assert (HR : RInv s1 (d C - 1 - k) (iterate stepN k s1)) by (apply RInv_iter; auto; lia).
  assert (E0 : (d C - 1 - k = 0)%nat) by lia. rewrite E0 in HR.
  destruct (rtl_step s1 0 (iterate stepN k s1)) as (_ & Hfin); [lia|exact HR| |].
  - specialize (Hsp k ltac:(lia)). rewrite E0 in Hsp. exact Hsp.
  - apply Hfin; auto.
Qed.

(* ---------- structure of the states of the left-to-right half sweep (for the composition) ---------- *)
Lemma ltr_step_struct s0 i s : (i < d C)%nat -> LInv K A C s0 i s ->
  nth 0 (sIr (stepN s)) None = nth 0 (sIr s) None /\
  (S i = d C -> s_pc (stepN s) = Run true false i /\ sIc (stepN s) = sIc s0 /\ k_stop (sK (stepN s)) = None /\
                k_cache (sK (stepN s)) = None /\ length (sY (stepN s)) = d C).
Proof.
  intros Hi (Hpc & HIc & Hst & Hca & HLY & HLr & _).
  unfold step. rewrite Hpc. cbv zeta.
  rewrite (func_m_plain K A f C Hf Hm (sK s) _ _ _ Hca). cbn [k_stop]. rewrite Hst.
  unfold adv_ltr. destruct (iter_m _ _ _ _ _ _ _ _ _) as [[G' R'] I'].
  destruct (Nat.ltb_spec (S i) (d C)) as [Hlt|Hge]; cbn [sIr sIc sY sK s_pc k_stop k_cache].
  - split; [apply nth_upd_neq; lia|]. intros; lia.
  - split; [apply nth_upd_neq; lia|]. intros _. rewrite !upd_length. auto.
Qed.

Lemma ltr_Ir0 s0 :
  s_pc s0 = Run true true 0 -> k_stop (sK s0) = None -> k_cache (sK s0) = None ->
  length (sY s0) = d C -> length (sIr s0) = S (d C) -> nth 0 (sIr s0) None = None ->
  (forall i, (i < d C)%nat -> pos_ok K qr mvI mvB A C s0 i (iterate stepN i s0)) ->
  forall i, (i <= d C)%nat -> nth 0 (sIr (iterate stepN i s0)) None = None.
Proof.
  intros Hpc Hst Hca HLY HLr HI0 Hsp. induction i as [|i IH]; intros Hi; [exact HI0|].
  rewrite iterate_S_out.
  destruct (ltr_step_struct s0 i (iterate stepN i s0)) as (E & _); [lia| |].
  - apply (LInv_iter K Rth qr mvI mvB A isinf f cb erank accuracy accdata C Hf Hm); auto; try lia.
  - rewrite E. apply IH. lia.
Qed.

(* ---------- a full sweep ---------- *)
(* from any sweep head s0 of the model driver (no stop pending, no cache, no budget, objective = target): with the
   spanning / contract hypotheses of the way out (pos_ok) and of the way back (rpos_ok, stated on the states the
   driver is in), the cores held at the end of the sweep evaluate to the target at every multi-index *)
Theorem cross_exact_full_sweep s0 :
  (1 <= d C)%nat -> s_pc s0 = Run true true 0 -> k_stop (sK s0) = None -> k_cache (sK s0) = None ->
  length (sY s0) = d C -> length (sIr s0) = S (d C) -> length (sIc s0) = S (d C) ->
  nth 0 (sIr s0) None = None -> nth (d C) (sIc s0) None = None ->
  (forall i, (i < d C)%nat -> pos_ok K qr mvI mvB A C s0 i (iterate stepN i s0)) ->
  (forall k, (k < d C)%nat ->
     rpos_ok (iterate stepN (d C) s0) (d C - 1 - k) (iterate stepN k (iterate stepN (d C) s0))) ->
  forall q, Forall2 lt q ns -> ttval K (sY (iterate stepN (2 * d C) s0)) q = A q.
Proof.
  intros Hd Hpc Hst Hca HLY HLr HLc HI0 HIcd Hsp Hrsp q Hq.
  replace (2 * d C)%nat with (d C + d C)%nat by lia. rewrite iterate_add.
  set (s1 := iterate stepN (d C) s0) in *.
  assert (HL : LInv K A C s0 (d C - 1) (iterate stepN (d C - 1) s0)).
  { apply (LInv_iter K Rth qr mvI mvB A isinf f cb erank accuracy accdata C Hf Hm); auto; try lia. }
  assert (Es1 : s1 = stepN (iterate stepN (d C - 1) s0)).
  { unfold s1. replace (d C) with (S (d C - 1)) at 1 by lia. apply iterate_S_out. }
  destruct (ltr_step_struct s0 (d C - 1) (iterate stepN (d C - 1) s0)) as (_ & Hs); [lia|exact HL|].
  destruct (Hs ltac:(lia)) as (P1 & P2 & P3 & P4 & P5). rewrite <- Es1 in *.
  apply cross_exact_rtl; auto.
  - rewrite P2. exact HLc.
  - unfold s1. apply ltr_Ir0; auto.
  - rewrite P2. exact HIcd.
Qed.

Notation runN := (run K isinf f cb (ponesN K) (pdotLN K) (pdotRN K) (pvalsN K) (pickN K qr mvI)
                      (pcoreGN K qr mvB) (pfacRN K qr) erank accuracy accdata C).
Notation crossN := (cross_num K qr mvI mvB isinf f cb erank accuracy accdata C).

Lemma run_S fuel : runN (S fuel) = iterate stepN (2 * d C) (runN fuel).
Proof. unfold run. rewrite iterate_S_out. reflexivity. Qed.

(* the tensor RETURNED by cross_num when it stops at the end of sweep fuel+1: the driver was at a sweep head with no
   stop pending after [fuel] sweeps (run without cache and without budget, objective = target values, so that the
   only exits are at sweep ends: nswp / e / e_vld / callback), both families of hypotheses hold for that last
   sweep, and cross_num (S fuel) = Ok s *)
Theorem cross_exact_return fuel s :
  Y0_ok (ponesN K) C -> pick_ok (pickN K qr mvI) -> c_cache C = None ->
  s_pc (runN fuel) = Run true true 0 -> k_stop (sK (runN fuel)) = None ->
  (forall i, (i < d C)%nat -> pos_ok K qr mvI mvB A C (runN fuel) i (iterate stepN i (runN fuel))) ->
  (forall k, (k < d C)%nat ->
     rpos_ok (iterate stepN (d C) (runN fuel)) (d C - 1 - k) (iterate stepN k (iterate stepN (d C) (runN fuel)))) ->
  crossN (S fuel) = Ok s ->
  s = runN (S fuel) /\ s_pc s = Done /\ forall q, Forall2 lt q ns -> ttval K (sY s) q = A q.
Proof.
  intros HY Hp Hc Hpc Hst Hsp Hrsp Hok.
  unfold cross_num, cross_m in Hok. destruct (args_ok C); [|discriminate].
  destruct (s_pc (runN (S fuel))) eqn:Epc; [discriminate|]. injection Hok as <-.
  split; [reflexivity|]. split; [exact Epc|]. intros q Hq. rewrite run_S.
  assert (G : Geo (ponesN K) C (runN fuel)).
  { rewrite run_as_steps. apply iterate_inv.
    - apply (geo_step K isinf f cb (ponesN K) (pdotLN K) (pdotRN K) (pvalsN K) (pickN K qr mvI)
               (pcoreGN K qr mvB) (pfacRN K qr) erank accuracy accdata C HY Hp).
    - apply (geo_init K (ponesN K) erank C HY). }
  destruct G as (HLY & HLr & HLc & _ & G). rewrite Hpc in G. destruct G as (_ & (X0 & Xd & _) & _).
  pose proof (CInv_run K isinf cb (ponesN K) (pdotLN K) (pdotRN K) (pvalsN K) (pickN K qr mvI)
                (pcoreGN K qr mvB) (pfacRN K qr) erank accuracy accdata f C fuel) as HC.
  unfold CInv in HC. rewrite Hc in HC.
  destruct HY as (Hd & _).
  apply cross_exact_full_sweep; auto.
Qed.
End Rtl.
