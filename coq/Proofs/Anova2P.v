(* Lemmas about Model/Anova.v (C13), part 2: pair tensors, act_two.add, act_many.add_many, order-2 result. *)
From Coq Require Import List Arith Lia PeanoNat ZArith Bool Ring.
From TV Require Import Num.Ops Lin.Tab Lin.BigSum Lin.Mat TT.Chain Model.ActOne Model.Anova Proofs.AnovaP.
Import ListNotations.

Section Pair.
Context {T : Type} (K : ops T).
Notation "0" := (o0 K). Notation "1" := (o1 K).
Infix "+" := (oadd K). Infix "*" := (omul K). Infix "-" := (osub K).
Hypothesis Rth : rng K.
Add Ring RrAnova2 : Rth.

(* a chain given as a table of cores, run with a state that is known after every core *)
Lemma run_tab_inv d (F : nat -> core T) (st : nat -> list T) : forall idx, length idx = d ->
  (forall k, (k < d)%nat -> vstep K (st k) (F k) (nth k idx O) = st (S k)) ->
  run K (st O) (tab d F) idx = st d.
Proof.
  induction d; intros idx L H.
  - destruct idx; [reflexivity|discriminate].
  - destruct (@exists_last _ idx) as (idx' & i & ->); [intros ->; discriminate|].
    rewrite app_length in L. cbn [length] in L. assert (L' : length idx' = d) by lia.
    rewrite tab_S, run_app by (now rewrite tab_length). rewrite IHd; auto.
    + cbn [run]. rewrite <- (H d) by lia. rewrite app_nth2 by lia. replace (d - length idx')%nat with O by lia.
      reflexivity.
    + intros k Hk. rewrite <- (H k) by lia. now rewrite app_nth1 by lia.
Qed.

Lemma concat_singletons {A} d (F : nat -> A) (G : nat -> list A) :
  (forall k, (k < d)%nat -> G k = [F k]) -> concat (tab d G) = tab d F.
Proof.
  induction d; intros H; [reflexivity|].
  rewrite !tab_S, concat_app. cbn [concat]. rewrite app_nil_r, IHd by (intros; apply H; lia).
  now rewrite H by lia.
Qed.

(* the cores of a pair tensor, one per mode *)
Definition pair_core (U V : mat T) (i j : nat) (shp : list nat) (num : nat) : core T :=
  let n := nth num shp O in let r := mc U in
  if (num <? i)%nat then core_ones K n
  else if (num =? i)%nat then mkcore 1 (mr U) r (fun _ x c => mget K U x c)
  else if (num <? j)%nat then core_one K n r
  else if (num =? j)%nat then mkcore r (mc V) 1 (fun c x _ => mget K V c x)
  else core_ones K n.
Lemma second_order_2_tt_eq skel A i j shp : (i < j)%nat ->
  second_order_2_tt K skel A i j shp
  = let (U, V) := skel A in tab (length shp) (pair_core U V i j shp).
Proof.
  intros Hij. unfold second_order_2_tt. destruct (Nat.ltb_spec j i) as [C|_]; [lia|].
  destruct (skel A) as [U V]. apply concat_singletons. intros k Hk. unfold pair_core.
  destruct (Nat.ltb_spec k i), (Nat.eqb_spec k i), (Nat.ltb_spec j k), (Nat.eqb_spec k j),
           (Nat.ltb_spec i k), (Nat.ltb_spec k j); try lia; reflexivity.
Qed.

Definition urow (U : mat T) (x : nat) : list T := tab (mc U) (fun c => mget K U x c).
Definition pair_state (U V : mat T) (i j : nat) (idx : list nat) (k : nat) : list T :=
  if (k <=? i)%nat then [1]
  else if (k <=? j)%nat then urow U (nth i idx O)
  else [bsum K (mc U) (fun c => mget K U (nth i idx O) c * mget K V c (nth j idx O))].

Lemma vstep_ones v n x : (x < n)%nat -> vstep K [v] (core_ones K n) x = [v].
Proof.
  intros H. unfold vstep, core_ones. rewrite cr1_mk, cr2_mk. cbn [tab map seq bsum nth].
  rewrite cget_mk by lia. f_equal. ring.
Qed.

Lemma pair_get U V i j shp idx : (i < j < length shp)%nat -> length idx = length shp ->
  (forall k, (k < length shp)%nat -> (nth k idx O < nth k shp O)%nat) ->
  nth i shp O = mr U -> nth j shp O = mc V ->
  get K (tab (length shp) (pair_core U V i j shp)) idx
  = bsum K (mc U) (fun c => mget K U (nth i idx O) c * mget K V c (nth j idx O)).
Proof.
  intros Hij L Hidx HU HV. unfold get.
  change [1] with (pair_state U V i j idx O).
  rewrite (run_tab_inv (length shp) _ (pair_state U V i j idx)); auto.
  - unfold pair_state. destruct (Nat.leb_spec (length shp) i); [lia|]. destruct (Nat.leb_spec (length shp) j); [lia|].
    reflexivity.
  - intros k Hk. specialize (Hidx k Hk). unfold pair_state, pair_core.
    destruct (Nat.leb_spec k i), (Nat.leb_spec (S k) i), (Nat.ltb_spec k i), (Nat.eqb_spec k i),
             (Nat.leb_spec k j), (Nat.leb_spec (S k) j), (Nat.ltb_spec k j), (Nat.eqb_spec k j); try lia.
    + apply vstep_ones; auto.
    + (* k = i *) subst k. unfold vstep, urow. rewrite cr1_mk, cr2_mk. apply tab_ext; intros c Hc.
      cbn [bsum nth]. rewrite cget_mk by lia. ring.
    + (* i < k < j *) unfold vstep, core_one, urow. rewrite cr1_mk, cr2_mk. apply tab_ext; intros b Hb.
      rewrite (bsum_single K Rth (mc U) b); auto.
      * rewrite nth_tab, cget_mk, Nat.eqb_refl by lia. ring.
      * intros a Ha Hne. rewrite cget_mk by lia. destruct (Nat.eqb_spec a b); [contradiction|ring].
    + (* k = j *) subst k. unfold vstep, urow. rewrite cr1_mk, cr2_mk. cbn [tab map seq]. f_equal.
      apply bsum_ext; intros c Hc. rewrite nth_tab, cget_mk by lia. reflexivity.
    + apply vstep_ones; auto.
Qed.

(* _second_order_2_tt denotes A[x_i, x_j] whenever the skeleton routine returns an exact factorisation *)
Theorem second_order_get (skel : mat T -> mat T * mat T) A i j shp idx : (i < j < length shp)%nat -> length idx = length shp ->
  (forall k, (k < length shp)%nat -> (nth k idx O < nth k shp O)%nat) ->
  nth i shp O = mr A -> nth j shp O = mc A ->
  (let (U, V) := skel A in mc U = mr V /\ meq K (mmul K U V) A) ->
  get K (second_order_2_tt K skel A i j shp) idx = mget K A (nth i idx O) (nth j idx O).
Proof.
  intros Hij L Hidx HA1 HA2 Hsk. rewrite second_order_2_tt_eq by lia. destruct (skel A) as [U V].
  destruct Hsk as (HUV & E1 & E2 & E). cbn [mmul mr mc mkmat] in E1, E2.
  rewrite pair_get; auto; try congruence.
  rewrite <- E.
  - rewrite mget_mmul; auto. + rewrite <- E1 in HA1. rewrite <- HA1. apply Hidx; lia.
    + rewrite <- E2 in HA2. rewrite <- HA2. apply Hidx; lia.
  - cbn [mmul mr mkmat]. rewrite E1, <- HA1. apply Hidx; lia.
  - cbn [mmul mc mkmat]. rewrite E2, <- HA2. apply Hidx; lia.
Qed.
End Pair.

Section AddP.
Context {T : Type} (K : ops T).
Notation "0" := (o0 K). Notation "1" := (o1 K).
Infix "+" := (oadd K). Infix "*" := (omul K). Infix "-" := (osub K).
Hypothesis Rth : rng K.
Add Ring RrAnovaAdd : Rth.

Lemma vstep_core_mid v1 v2 G1 G2 i : length v1 = cr1 G1 -> (i < cn G1)%nat ->
  vstep K (v1 ++ v2) (core_mid K G1 G2) i = vstep K v1 G1 i ++ vstep K v2 G2 i.
Proof.
  intros L Hi. apply (list_eq_nth 0).
  - rewrite app_length, !vstep_length. reflexivity.
  - rewrite vstep_length. unfold core_mid at 1. rewrite cr2_mk. intros b Hb.
    rewrite nth_vstep by (unfold core_mid; rewrite cr2_mk; auto). unfold core_mid. rewrite cr1_mk.
    rewrite (bsum_split K Rth).
    destruct (Nat.ltb_spec b (cr2 G1)) as [Hlt|Hge].
    + rewrite app_nth1 by (now rewrite vstep_length). rewrite nth_vstep by auto.
      rewrite (bsum_0' K Rth (cr1 G2)).
      * rewrite (bsum_ext K (cr1 G1) _ (fun a => nth a v1 0 * cget K G1 a i b)). ring.
        intros a Ha. rewrite cget_mk by lia. rewrite app_nth1 by lia.
        destruct (Nat.ltb_spec a (cr1 G1)); [|lia]. destruct (Nat.ltb_spec b (cr2 G1)); [|lia]. reflexivity.
      * intros a Ha. rewrite cget_mk by lia.
        destruct (Nat.ltb_spec (cr1 G1 + a) (cr1 G1)); [lia|]. destruct (Nat.ltb_spec b (cr2 G1)); [|lia]. ring.
    + rewrite app_nth2 by (now rewrite vstep_length). rewrite vstep_length. rewrite nth_vstep by lia.
      rewrite (bsum_0' K Rth (cr1 G1)).
      * rewrite (bsum_ext K (cr1 G2) _ (fun a => nth a v2 0 * cget K G2 a i (b - cr2 G1))). ring.
        intros a Ha. rewrite cget_mk by lia. rewrite app_nth2 by lia.
        destruct (Nat.ltb_spec (cr1 G1 + a) (cr1 G1)); [lia|]. destruct (Nat.ltb_spec b (cr2 G1)); [lia|].
        f_equal; f_equal; lia.
      * intros a Ha. rewrite cget_mk by lia.
        destruct (Nat.ltb_spec a (cr1 G1)); [|lia]. destruct (Nat.ltb_spec b (cr2 G1)); [lia|]. ring.
Qed.
Lemma vstep_core_first v G1 G2 i : cr1 G1 = cr1 G2 -> (i < cn G1)%nat ->
  vstep K v (core_first K G1 G2) i = vstep K v G1 i ++ vstep K v G2 i.
Proof.
  intros E Hi. apply (list_eq_nth 0).
  - rewrite app_length, !vstep_length. reflexivity.
  - rewrite vstep_length. unfold core_first at 1. rewrite cr2_mk. intros b Hb.
    rewrite nth_vstep by (unfold core_first; rewrite cr2_mk; auto). unfold core_first. rewrite cr1_mk.
    destruct (Nat.ltb_spec b (cr2 G1)) as [Hlt|Hge].
    + rewrite app_nth1 by (now rewrite vstep_length). rewrite nth_vstep by auto.
      apply bsum_ext; intros a Ha. rewrite cget_mk by lia. destruct (Nat.ltb_spec b (cr2 G1)); [|lia]. reflexivity.
    + rewrite app_nth2 by (now rewrite vstep_length). rewrite vstep_length. rewrite nth_vstep by lia.
      rewrite E. apply bsum_ext; intros a Ha. rewrite cget_mk by lia.
      destruct (Nat.ltb_spec b (cr2 G1)); [lia|]. reflexivity.
Qed.
Lemma vstep_core_last v1 v2 G1 G2 i : length v1 = cr1 G1 -> (i < cn G1)%nat -> cr2 G1 = 1%nat -> cr2 G2 = 1%nat ->
  vstep K (v1 ++ v2) (core_last K G1 G2) i = [nth O (vstep K v1 G1 i) 0 + nth O (vstep K v2 G2 i) 0].
Proof.
  intros L Hi E1 E2. unfold vstep at 1. unfold core_last. rewrite cr2_mk, cr1_mk, E1. cbn [tab map seq]. f_equal.
  rewrite !nth_vstep by lia. rewrite (bsum_split K Rth). f_equal.
  - apply bsum_ext; intros a Ha. rewrite cget_mk by lia. rewrite app_nth1 by lia.
    destruct (Nat.ltb_spec a (cr1 G1)); [|lia]. reflexivity.
  - apply bsum_ext; intros a Ha. rewrite cget_mk by lia. rewrite app_nth2 by lia.
    destruct (Nat.ltb_spec (cr1 G1 + a) (cr1 G1)); [lia|]. f_equal; f_equal; lia.
Qed.

Lemma add_tail_run : forall Y1 Y2 idx r1 r2 v1 v2, Y1 <> [] ->
  wf r1 Y1 idx -> wf r2 Y2 idx -> shape Y1 = shape Y2 -> length v1 = r1 -> length v2 = r2 ->
  run K (v1 ++ v2) (add_tail K Y1 Y2) idx = [nth O (run K v1 Y1 idx) 0 + nth O (run K v2 Y2 idx) 0]
  /\ wf (r1 + r2) (add_tail K Y1 Y2) idx.
Proof.
  induction Y1 as [|G1 Y1 IH]; intros Y2 idx r1 r2 v1 v2 Hne W1 W2 S L1 L2; [congruence|].
  destruct Y2 as [|G2 Y2]; [discriminate|]. destruct idx as [|i idx]; [destruct W1|].
  cbn [wf] in W1, W2. destruct W1 as (A1 & B1 & C1). destruct W2 as (A2 & B2 & C2).
  cbn [shape map] in S. injection S as Sn S.
  destruct Y1 as [|G1' Y1].
  - destruct Y2 as [|G2' Y2]; [|discriminate]. destruct idx; [|destruct C1].
    cbn [wf] in C1, C2. cbn [add_tail run]. split.
    + apply vstep_core_last; auto; congruence.
    + cbn [wf]. unfold core_last. rewrite cr1_mk, cn_mk, cr2_mk. repeat split; auto; congruence.
  - destruct Y2 as [|G2' Y2]; [discriminate|].
    change (add_tail K (G1 :: G1' :: Y1) (G2 :: G2' :: Y2))
      with (core_mid K G1 G2 :: add_tail K (G1' :: Y1) (G2' :: Y2)).
    cbn [run]. rewrite vstep_core_mid by congruence.
    destruct (IH (G2' :: Y2) idx (cr2 G1) (cr2 G2) (vstep K v1 G1 i) (vstep K v2 G2 i)) as [R W];
      auto using vstep_length; try discriminate.
    split; [exact R|]. cbn [wf]. unfold core_mid at 1 2 3. rewrite cr1_mk, cn_mk, cr2_mk. repeat split; auto; congruence.
Qed.

(* act_two.add on TT-tensors of the same shape with d >= 2 *)
Theorem add_get Y1 Y2 idx : (2 <= length Y1)%nat -> wf 1 Y1 idx -> wf 1 Y2 idx -> shape Y1 = shape Y2 ->
  get K (add K Y1 Y2) idx = get K Y1 idx + get K Y2 idx /\ wf 1 (add K Y1 Y2) idx /\
  shape (add K Y1 Y2) = shape Y1.
Proof.
  intros Hd W1 W2 S. destruct Y1 as [|G1 Y1]; [cbn in Hd; lia|]. destruct Y2 as [|G2 Y2]; [discriminate|].
  destruct idx as [|i idx]; [destruct W1|]. cbn [wf] in W1, W2.
  destruct W1 as (A1 & B1 & C1). destruct W2 as (A2 & B2 & C2). cbn [shape map] in S. injection S as Sn S.
  assert (Hne : Y1 <> []) by (intros ->; cbn in Hd; lia).
  unfold get. cbn [add run]. rewrite vstep_core_first by congruence.
  destruct (add_tail_run Y1 Y2 idx (cr2 G1) (cr2 G2) (vstep K [1] G1 i) (vstep K [1] G2 i)) as [R W];
    auto using vstep_length.
  split; [rewrite R; reflexivity|]. split.
  - cbn [wf]. unfold core_first at 1 2 3. rewrite cr1_mk, cn_mk, cr2_mk. repeat split; auto.
  - cbn [shape map]. unfold core_first at 1. rewrite cn_mk. f_equal.
    clear - S Hne. revert Y2 S. induction Y1 as [|G Y1 IH]; intros Y2 S; [congruence|].
    destruct Y2 as [|G' Y2]; [discriminate|]. cbn [map] in S. injection S as Sn S.
    destruct Y1 as [|Ga Y1].
    + destruct Y2; [|discriminate]. cbn [add_tail map]. unfold core_last. now rewrite cn_mk.
    + destruct Y2 as [|Gb Y2]; [discriminate|].
      change (add_tail K (G :: Ga :: Y1) (G' :: Gb :: Y2)) with (core_mid K G G' :: add_tail K (Ga :: Y1) (Gb :: Y2)).
      cbn [map]. unfold core_mid at 1. rewrite cn_mk. f_equal. apply IH; [discriminate|exact S].
Qed.
End AddP.

Section AddMany.
Context {T : Type} (K : ops T).
Notation "0" := (o0 K). Notation "1" := (o1 K).
Infix "+" := (oadd K). Infix "*" := (omul K). Infix "-" := (osub K).
Hypothesis Rth : rng K.
Add Ring RrAnovaAM : Rth.

Variable trunc : nat -> list (core T) -> list (core T).
Variable idx : list nat.
Variable shp : list nat.
Variable err : nat -> T.
Definition okY (Y : list (core T)) : Prop := wf 1 Y idx /\ shape Y = shp.
(* contract of the truncate oracle at the multi-index idx: well-formedness and shape are kept, the entry
   changes by err k at call number k *)
Hypothesis Htr : forall k Y, okY Y -> okY (trunc k Y) /\ get K (trunc k Y) idx = get K Y idx + err k.
Hypothesis Hd : (2 <= length shp)%nat.

Lemma add_cancel_r a b c : a + c = b + c -> a = b.
Proof. intros E. replace a with ((a + c) - c) by ring. rewrite E. ring. Qed.

Lemma add_many_loop_get : forall rest i nc Y, okY Y -> Forall okY rest ->
  let res := add_many_loop K trunc i nc Y rest in
  okY (fst res) /\ (nc <= snd res <= nc + length rest)%nat /\
  get K (fst res) idx + bsum K nc err
  = get K Y idx + lsum K (map (fun Yc => get K Yc idx) rest) + bsum K (snd res) err.
Proof.
  induction rest as [|Yc rest IH]; intros i nc Y HY HR.
  - cbn [add_many_loop fst snd map lsum length]. repeat split; auto; try apply HY; try lia. ring.
  - inversion HR as [|? ? HYc HR']; subst. cbn [add_many_loop length].
    destruct HY as [W Sh]. destruct HYc as [Wc Sc].
    destruct (add_get K Rth Y Yc idx) as (G & W' & Sh'); auto; try congruence.
    { rewrite <- (map_length (@cn T)). fold (shape Y). rewrite Sh. exact Hd. }
    assert (HY1 : okY (add K Y Yc)) by (split; congruence).
    destruct (Nat.eqb (S i mod 15) 0).
    + destruct (Htr nc _ HY1) as [HY2 G2].
      specialize (IH (S i) (S nc) _ HY2 HR'). cbn zeta in IH. destruct IH as (A & B & C).
      split; [exact A|]. split; [lia|]. cbn [map lsum]. cbn [bsum] in C. rewrite G2, G in C.
      apply (add_cancel_r _ _ (err nc)).
      match type of C with ?l = ?r => transitivity l; [ring | rewrite C; ring] end.
    + specialize (IH (S i) nc _ HY1 HR'). cbn zeta in IH. destruct IH as (A & B & C).
      split; [exact A|]. split; [lia|]. cbn [map lsum]. rewrite G in C. rewrite C. ring.
Qed.

(* add_many: the sum of the entries plus the errors of the truncate calls *)
Theorem add_many_get Y0 rest : okY Y0 -> Forall okY rest ->
  exists ncalls, (1 <= ncalls <= S (length rest))%nat /\ okY (add_many K trunc (Y0 :: rest)) /\
  get K (add_many K trunc (Y0 :: rest)) idx
  = get K Y0 idx + lsum K (map (fun Yc => get K Yc idx) rest) + bsum K ncalls err.
Proof.
  intros H0 HR. unfold add_many, copy.
  pose proof (add_many_loop_get rest O O Y0 H0 HR) as H. cbn zeta in H.
  destruct (add_many_loop K trunc 0 0 Y0 rest) as [Y nc]. cbn [fst snd] in H. destruct H as (A & B & C).
  destruct (Htr nc Y A) as [A' G]. exists (S nc). split; [lia|].
  split; [exact A'|]. rewrite G. cbn [bsum]. cbn [bsum] in C.
  match type of C with ?l = ?r => transitivity (l + err nc); [ring | rewrite C; ring] end.
Qed.

Lemma add_many_loop_nocall : forall rest i nc Y, (i + length rest < 15)%nat ->
  snd (add_many_loop K trunc i nc Y rest) = nc.
Proof.
  induction rest as [|Yc rest IH]; intros i nc Y H; [reflexivity|]. cbn [add_many_loop length] in *.
  rewrite (Nat.mod_small (S i) 15) by lia. cbn [Nat.eqb]. apply IH. lia.
Qed.

(* add_many seen from its last truncate call *)
Theorem add_many_pre Y0 rest : okY Y0 -> Forall okY rest ->
  exists Ypre ncalls, add_many K trunc (Y0 :: rest) = trunc ncalls Ypre /\ (ncalls <= length rest)%nat /\
    ((length rest < 15)%nat -> ncalls = O) /\ okY Ypre /\
    get K Ypre idx = get K Y0 idx + lsum K (map (fun Yc => get K Yc idx) rest) + bsum K ncalls err.
Proof.
  intros H0 HR. unfold add_many, copy.
  pose proof (add_many_loop_get rest O O Y0 H0 HR) as H. cbn zeta in H.
  pose proof (add_many_loop_nocall rest O O Y0) as Hs.
  destruct (add_many_loop K trunc 0 0 Y0 rest) as [Y nc]. cbn [fst snd] in H, Hs. destruct H as (A & B & C).
  exists Y, nc. split; [reflexivity|]. split; [lia|]. split; [intros Hl; apply Hs; lia|]. split; [exact A|].
  cbn [bsum] in C. rewrite <- C. ring.
Qed.
End AddMany.

Section Order2.
Context {T : Type} (K : ops T).
Notation "0" := (o0 K). Notation "1" := (o1 K).
Infix "+" := (oadd K). Infix "*" := (omul K). Infix "-" := (osub K).
Hypothesis Rth : rng K.
Add Ring RrAnovaO2 : Rth.

Lemma wf_tab d : forall (F : nat -> core T) (rk : nat -> nat) idx, length idx = d ->
  (forall k, (k < d)%nat -> cr1 (F k) = rk k /\ cr2 (F k) = rk (S k) /\ (nth k idx O < cn (F k))%nat) ->
  rk d = 1%nat -> wf (rk O) (tab d F) idx.
Proof.
  induction d; intros F rk idx L H E.
  - destruct idx; [|discriminate]. exact E.
  - destruct idx as [|i idx]; [discriminate|]. rewrite tab_cons. cbn [wf].
    destruct (H O ltac:(lia)) as (A & B & C). cbn [nth] in C. repeat split; auto.
    rewrite B. apply (IHd (fun k => F (S k)) (fun k => rk (S k))); auto.
    intros k Hk. apply (H (S k)). lia.
Qed.

Lemma concat_nth_uniform {A} (dflt : A) n : forall (L : list (list A)) a b,
  Forall (fun row => length row = n) L -> (a < length L)%nat -> (b < n)%nat ->
  nth (a * n + b) (concat L) dflt = nth b (nth a L []) dflt.
Proof.
  induction L as [|row L IH]; intros a b HF Ha Hb; [cbn in Ha; lia|].
  inversion HF; subst. cbn [concat]. destruct a as [|a].
  - cbn [Nat.mul Nat.add nth]. now rewrite app_nth1 by lia.
  - cbn [nth]. rewrite app_nth2 by (cbn [Nat.mul]; lia).
    replace (S a * length row + b - length row)%nat with (a * length row + b)%nat by (cbn [Nat.mul]; lia).
    apply IH; auto. cbn [length] in Ha. lia.
Qed.
Lemma mkmat_flat n1 n2 (f : nat -> nat -> T) a b : (a < n1)%nat -> (b < n2)%nat ->
  nth (a * n2 + b) (concat (md (mkmat n1 n2 f))) 0 = f a b.
Proof.
  intros Ha Hb. unfold mkmat. cbn [md]. rewrite (concat_nth_uniform 0 n2).
  - now rewrite !nth_tab.
  - apply Forall_forall. intros row Hr. apply in_tab in Hr as (i & _ & ->). apply tab_length.
  - now rewrite tab_length.
  - exact Hb.
Qed.
Lemma mkmat_flat_length n1 n2 (f : nat -> nat -> T) : length (concat (md (mkmat n1 n2 f))) = (n1 * n2)%nat.
Proof.
  unfold mkmat. cbn [md]. induction n1; [reflexivity|]. rewrite tab_S, concat_app, app_length, IHn1.
  cbn [concat]. rewrite app_nil_r, tab_length. lia.
Qed.

Lemma rseq_tab_ok {A} n (h : nat -> A) : rseq (tab n (fun k => Ok (h k))) = Ok (tab n h).
Proof.
  induction n; [reflexivity|]. rewrite !tab_S.
  assert (Happ : forall (l1 : list (result A)) l1' x, rseq l1 = Ok l1' -> rseq (l1 ++ [Ok x]) = Ok (l1' ++ [x])).
  { induction l1 as [|y l1 IH]; intros l1' x E.
    - injection E as <-. reflexivity.
    - cbn [app rseq] in *. destruct y as [y|e]; [|discriminate]. cbn [rbind] in *.
      destruct (rseq l1) as [l|e] eqn:E1; [|discriminate]. cbn [rbind] in E. injection E as <-.
      rewrite (IH l x eq_refl). reflexivity. }
  now apply Happ.
Qed.

(* cores_1 as a table *)
Definition core1_at (M : anova T) r noise (g : nat -> nat -> nat -> nat -> T) (k : nat) : core T :=
  let d := a_d M in
  if (k =? 0)%nat then core1_first K r noise (g O) (nth O (a_f1 M) [])
  else if (k <? d - 1)%nat then core1_mid K r noise (g k) (nth k (a_f1 M) [])
  else core1_last K r noise (g (S (d - 2))) (nth (d - 1) (a_f1 M) []) (a_f0 M).
Lemma cores_1_tab (M : anova T) r noise g : (2 <= a_d M)%nat ->
  cores_1 K M r noise g = tab (a_d M) (core1_at M r noise g).
Proof.
  intros Hd. unfold cores_1. set (d := a_d M) in *. apply (list_eq_nth (core_ones K O)).
  - cbn [length]. rewrite app_length, !tab_length. cbn [length]. lia.
  - cbn [length]. rewrite app_length, tab_length. cbn [length]. intros k Hk. rewrite nth_tab by lia.
    unfold core1_at. fold d. destruct k as [|k]; [reflexivity|]. cbn [nth Nat.eqb].
    destruct (Nat.ltb_spec (S k) (d - 1)).
    + rewrite app_nth1 by (rewrite tab_length; lia). now rewrite nth_tab by lia.
    + rewrite app_nth2 by (rewrite tab_length; lia). rewrite tab_length.
      replace (k - (d - 2))%nat with O by lia. reflexivity.
Qed.
Lemma cores_1_wf (M : anova T) r noise g idx : (2 <= a_d M)%nat -> length idx = a_d M ->
  (forall k, (k < a_d M)%nat -> (nth k idx O < length (nth k (a_f1 M) []))%nat) ->
  wf 1 (cores_1 K M r noise g) idx.
Proof.
  intros Hd L H. rewrite cores_1_tab by auto.
  apply (wf_tab (a_d M) _ (fun k => if (k =? 0)%nat then 1%nat else if (k <? a_d M)%nat then r else 1%nat)); auto.
  - intros k Hk. specialize (H k Hk). unfold core1_at.
    destruct (Nat.eqb_spec k 0) as [->|Hk0].
    + cbn [Nat.eqb]. destruct (Nat.ltb_spec 1 (a_d M)); [|lia].
      unfold core1_first, ncore. rewrite cr1_mk, cr2_mk, cn_mk. auto.
    + destruct (Nat.ltb_spec k (a_d M - 1)).
      * cbn [Nat.eqb]. destruct (Nat.ltb_spec (S k) (a_d M)); [|lia]. destruct (Nat.ltb_spec k (a_d M)); [|lia].
        unfold core1_mid, ncore. rewrite cr1_mk, cr2_mk, cn_mk. auto.
      * cbn [Nat.eqb]. destruct (Nat.ltb_spec (S k) (a_d M)); [lia|]. destruct (Nat.ltb_spec k (a_d M)); [|lia].
        unfold core1_last, ncore. rewrite cr1_mk, cr2_mk, cn_mk. replace (a_d M - 1)%nat with k by lia. auto.
  - destruct (Nat.eqb_spec (a_d M) 0); [lia|]. now rewrite Nat.ltb_irrefl.
Qed.

(* the pair tensors are well formed and have the observed shape *)
Lemma pair_wf U V i j shp idx : (i < j < length shp)%nat -> length idx = length shp ->
  (forall k, (k < length shp)%nat -> (nth k idx O < nth k shp O)%nat) ->
  nth i shp O = mr U -> nth j shp O = mc V ->
  wf 1 (tab (length shp) (pair_core K U V i j shp)) idx /\ shape (tab (length shp) (pair_core K U V i j shp)) = shp.
Proof.
  intros Hij L Hidx HU HV. split.
  - apply (wf_tab (length shp) _ (fun k => if (k <=? i)%nat then 1%nat else if (k <=? j)%nat then mc U else 1%nat)); auto.
    + intros k Hk. specialize (Hidx k Hk). unfold pair_core.
      destruct (Nat.leb_spec k i), (Nat.leb_spec (S k) i), (Nat.ltb_spec k i), (Nat.eqb_spec k i),
               (Nat.leb_spec k j), (Nat.leb_spec (S k) j), (Nat.ltb_spec k j), (Nat.eqb_spec k j); try lia;
        unfold core_ones, core_one; rewrite cr1_mk, cr2_mk, cn_mk; repeat split; auto; subst; congruence.
    + destruct (Nat.leb_spec (length shp) i); [lia|]. destruct (Nat.leb_spec (length shp) j); [lia|]. reflexivity.
  - unfold shape. rewrite map_tab. apply (list_eq_nth O); [apply tab_length|].
    rewrite tab_length. intros k Hk. rewrite nth_tab by auto. unfold pair_core.
    destruct (Nat.ltb_spec k i), (Nat.eqb_spec k i), (Nat.ltb_spec k j), (Nat.eqb_spec k j); try lia;
      unfold core_ones, core_one; rewrite cn_mk; subst; auto.
Qed.
End Order2.

Section Order2Top.
Context {T : Type} (K : ops T).
Notation "0" := (o0 K). Notation "1" := (o1 K).
Infix "+" := (oadd K). Infix "*" := (omul K). Infix "-" := (osub K).
Hypothesis Rth : rng K.
Add Ring RrAnovaO2T : Rth.

Variable skel : nat -> mat T -> mat T * mat T.
Hypothesis Hskel : forall num A, let (U, V) := skel num A in mc U = mr V /\ meq K (mmul K U V) A.

Lemma build_2_nth dom I y f0 f1 num : (num < length (pairs (length dom)))%nat ->
  exists F, nth num (build_2 K dom I y f0 f1) (mk_mat O O [])
            = mkmat (length (nth (fst (nth num (pairs (length dom)) (O, O))) dom []))
                    (length (nth (snd (nth num (pairs (length dom)) (O, O))) dom [])) F.
Proof.
  intros H. unfold build_2.
  match goal with |- context [map ?Fb _] => set (Fb' := Fb) end.
  rewrite nth_indep with (d' := Fb' (O, O)) by (now rewrite map_length). rewrite map_nth.
  destruct (nth num (pairs (length dom)) (O, O)) as [k1 k2]. unfold Fb'. cbn [fst snd]. eexists. reflexivity.
Qed.
Lemma build_2_length dom I y f0 f1 : length (build_2 K dom I y f0 f1) = length (pairs (length dom)).
Proof. unfold build_2. now rewrite map_length. Qed.

Lemma shapes_nth dom k : nth k (shapes dom) O = length (nth k dom []).
Proof.
  unfold shapes. destruct (Nat.lt_ge_cases k (length dom)).
  - rewrite nth_indep with (d' := length (@nil Z)) by (now rewrite map_length). now rewrite map_nth.
  - rewrite !nth_overflow by (rewrite ?map_length; auto). reflexivity.
Qed.

(* the structure of ANOVA(order=2).cores(r, noise=0): add_many of the order-1 tensor and one pair tensor per pair
   (the list Ps does not depend on the multi-index); at every multi-index all summands are well formed with the
   observed shape and their entries add up to calc_pos (whatever truncate does) *)
Lemma anova_order2_struct I y (M : anova T) r g :
  ANOVA K I y 2 = Ok M -> (2 <= r)%nat -> (2 <= dimI I)%nat ->
  exists Ps, length Ps = length (pairs (dimI I)) /\
     (forall trunc, cores K M r 0 false g skel trunc = Ok (add_many K trunc (cores_1 K M r 0 g :: Ps))) /\
     (forall num, (num < length Ps)%nat -> exists A i j, (i < j < dimI I)%nat /\
          mr A = nth i (shapes (domain I)) O /\ mc A = nth j (shapes (domain I)) O /\
          nth num Ps [] = second_order_2_tt K (skel num) A i j (shapes (domain I))) /\
     forall idx, length idx = dimI I -> (forall k, (k < dimI I)%nat -> (nth k idx O < nth k (shapes (domain I)) O)%nat) ->
     okY idx (shapes (domain I)) (cores_1 K M r 0 g) /\ Forall (okY idx (shapes (domain I))) Ps /\
     get K (cores_1 K M r 0 g) idx + lsum K (map (fun Yc => get K Yc idx) Ps) = calc_pos K M idx.
Proof.
  intros HM Hr Hd.
  unfold ANOVA in HM. cbn [Nat.eqb orb negb Nat.leb] in HM. injection HM as <-.
  set (dom := domain I) in *. set (f0 := build_0 K y). set (f1 := build_1 K dom I y f0).
  set (f2 := build_2 K dom I y f0 f1). set (M := mk_anova 2 dom f0 f1 f2).
  assert (Ldom : length dom = dimI I) by apply domain_length.
  assert (HdM : a_d M = dimI I) by exact Ldom.
  assert (Hshp : length (shapes dom) = dimI I) by (unfold shapes; now rewrite map_length).
  (* the pair tensors *)
  set (np := length (pairs (dimI I))).
  set (P := fun num => let p := nth num (pairs (a_d M)) (O, O) in
      let A := nth num (a_f2 M) (mk_mat O O []) in
      let n1 := nth (fst p) (shapes dom) O in let n2 := nth (snd p) (shapes dom) O in
      second_order_2_tt K (skel num) (mkmat n1 n2 (fun a b => nth (a * n2 + b) (concat (md A)) 0))
                        (fst p) (snd p) (shapes dom)).
  assert (HC2 : cores_2 K M false skel = Ok (tab np P)).
  { unfold cores_2. cbn [a_dom M]. rewrite HdM. fold np. rewrite <- rseq_tab_ok. f_equal.
    apply tab_ext. intros num Hnum. cbn zeta.
    destruct (build_2_nth dom I y f0 f1 num) as [F EF]; [rewrite Ldom; exact Hnum|].
    cbn [a_f2 M]. unfold f2. rewrite Ldom in EF. rewrite EF, mkmat_flat_length, !shapes_nth, Nat.eqb_refl.
    cbn [negb]. unfold P. cbn zeta. rewrite HdM. cbn [a_f2 M]. unfold f2. rewrite EF, !shapes_nth. reflexivity. }
  exists (tab np P). split; [apply tab_length|]. split.
  { intros trunc. unfold cores. destruct (Nat.ltb_spec r 2); [lia|]. cbn [a_order M]. cbn [Nat.ltb Nat.leb].
    rewrite HC2. reflexivity. }
  split.
  { rewrite tab_length. intros num Hnum. rewrite nth_tab by exact Hnum. unfold P. cbn zeta. rewrite HdM.
    destruct (nth num (pairs (dimI I)) (O, O)) as [i j] eqn:Ep. cbn [fst snd].
    assert (Hij : (i < j < dimI I)%nat).
    { apply pairs_In. rewrite <- Ep. apply nth_In. exact Hnum. }
    eexists _, i, j. split; [exact Hij|]. split; [|split]; [| |reflexivity]; reflexivity. }
  intros idx L Hidx.
  assert (Hf1 : forall k, (k < a_d M)%nat -> (nth k idx O < length (nth k (a_f1 M) []))%nat).
  { intros k Hk. rewrite HdM in Hk. specialize (Hidx k Hk). cbn [a_f1 M]. unfold f1.
    pose proof (build_1_shape K dom I y f0) as E. apply (f_equal (fun l => nth k l O)) in E.
    rewrite nth_indep with (d' := length (@nil T)) in E by (rewrite map_length, build_1_length; lia).
    rewrite map_nth in E. rewrite E. exact Hidx. }
  assert (HP : forall num, (num < np)%nat ->
            okY idx (shapes dom) (P num) /\
            get K (P num) idx = mget K (nth num f2 (mk_mat O O []))
                                     (nth (fst (nth num (pairs (dimI I)) (O, O))) idx O)
                                     (nth (snd (nth num (pairs (dimI I)) (O, O))) idx O)).
  { intros num Hnum. unfold P. cbn zeta. rewrite HdM. cbn [a_f2 M].
    destruct (nth num (pairs (dimI I)) (O, O)) as [i j] eqn:Ep. cbn [fst snd].
    assert (Hij : (i < j < dimI I)%nat).
    { apply pairs_In. rewrite <- Ep. apply nth_In. exact Hnum. }
    destruct (build_2_nth dom I y f0 f1 num) as [F EF]; [rewrite Ldom; exact Hnum|].
    rewrite Ldom, Ep in EF. cbn [fst snd] in EF. fold f2 in EF. rewrite EF, !shapes_nth.
    set (n1 := length (nth i dom [])) in *. set (n2 := length (nth j dom [])) in *.
    set (A' := mkmat n1 n2 (fun a b => nth (a * n2 + b) (concat (md (mkmat n1 n2 F))) 0)).
    assert (Hi : (nth i idx O < n1)%nat) by (specialize (Hidx i ltac:(lia)); now rewrite shapes_nth in Hidx).
    assert (Hj : (nth j idx O < n2)%nat) by (specialize (Hidx j ltac:(lia)); now rewrite shapes_nth in Hidx).
    split.
    - rewrite second_order_2_tt_eq by lia. specialize (Hskel num A'). destruct (skel num A') as [U V].
      destruct Hskel as (HUV & E1 & E2 & E). cbn [mmul mr mc mkmat A'] in E1, E2.
      destruct (pair_wf K U V i j (shapes dom) idx) as [W S]; try rewrite Hshp; try rewrite shapes_nth; auto; try congruence.
      rewrite Hshp in W, S. split; assumption.
    - rewrite (second_order_get K Rth); try rewrite Hshp; try rewrite shapes_nth; auto.
      + unfold A'. rewrite !mget_mk by auto. apply mkmat_flat; auto.
      + apply Hskel. }
  (* order-1 part *)
  assert (H1 : okY idx (shapes dom) (cores_1 K M r 0 g)).
  { split.
    - apply cores_1_wf; auto; lia.
    - rewrite cores_1_shape by (cbn [a_f1 M]; unfold f1; rewrite ?build_1_length; lia).
      cbn [a_f1 M]. apply build_1_shape. }
  assert (H2 : Forall (okY idx (shapes dom)) (tab np P)).
  { apply Forall_forall. intros Yc Hin. apply in_tab in Hin as (num & Hnum & ->). now apply HP. }
  split; [exact H1|]. split; [exact H2|].
  unfold calc_pos. cbn [a_order M Nat.leb a_f0]. 
  rewrite (cores_1_get K Rth) by (auto; lia). cbn [a_f0 M].
  unfold calc_1_pos, calc_2_pos. rewrite L, HdM. f_equal.
  rewrite map_tab.
  rewrite <- (tab_nth (O, O) (pairs (dimI I))). fold np. rewrite map_tab. f_equal.
  apply tab_ext. intros num Hnum. destruct (HP num Hnum) as [_ ->].
  destruct (pair_num_bijection (dimI I)) as (_ & _ & Sj). destruct (Sj num Hnum) as (i & j & Hij & Epn & En).
  rewrite En. cbn [fst snd a_f2 M]. now rewrite Epn.
Qed.

Theorem anova_order2_get_partial I y (M : anova T) r g trunc idx err :
  ANOVA K I y 2 = Ok M -> (2 <= r)%nat -> (2 <= dimI I)%nat ->
  length idx = dimI I -> (forall k, (k < dimI I)%nat -> (nth k idx O < nth k (shapes (domain I)) O)%nat) ->
  (forall k Y, okY idx (shapes (domain I)) Y ->
               okY idx (shapes (domain I)) (trunc k Y) /\ get K (trunc k Y) idx = get K Y idx + err k) ->
  exists Y ncalls, cores K M r 0 false g skel trunc = Ok Y /\
     (1 <= ncalls <= S (length (pairs (dimI I))))%nat /\
     wf 1 Y idx /\ shape Y = shapes (domain I) /\
     get K Y idx = calc_pos K M idx + bsum K ncalls err.
Proof.
  intros HM Hr Hd L Hidx Htr.
  destruct (anova_order2_struct I y M r g HM Hr Hd) as (Ps & LP & HC & _ & HI).
  destruct (HI idx L Hidx) as (H1 & H2 & HS).
  assert (Hshp : (2 <= length (shapes (domain I)))%nat) by (unfold shapes; rewrite map_length, domain_length; exact Hd).
  destruct (add_many_get K Rth trunc idx (shapes (domain I)) err Htr Hshp _ _ H1 H2) as (nc & Hnc & Hok & G).
  exists (add_many K trunc (cores_1 K M r 0 g :: Ps)), nc.
  split; [apply HC|]. rewrite LP in Hnc. split; [exact Hnc|]. split; [apply Hok|]. split; [apply Hok|].
  rewrite G, HS. reflexivity.
Qed.

(* the same result seen from the last truncate call: it is truncate(e, r) applied to a TT-tensor Ypre whose entry is
   calc_pos plus the changes made by the earlier (intermediate) truncate calls; with fewer than 15 pairs (d <= 5)
   there is no intermediate call and Ypre denotes constant + univariate + pair terms exactly *)
Theorem anova_order2_pre I y (M : anova T) r g trunc idx err :
  ANOVA K I y 2 = Ok M -> (2 <= r)%nat -> (2 <= dimI I)%nat ->
  length idx = dimI I -> (forall k, (k < dimI I)%nat -> (nth k idx O < nth k (shapes (domain I)) O)%nat) ->
  (forall k Y, okY idx (shapes (domain I)) Y ->
               okY idx (shapes (domain I)) (trunc k Y) /\ get K (trunc k Y) idx = get K Y idx + err k) ->
  exists Ypre ncalls, cores K M r 0 false g skel trunc = Ok (trunc ncalls Ypre) /\
     (ncalls <= length (pairs (dimI I)))%nat /\ ((length (pairs (dimI I)) < 15)%nat -> ncalls = O) /\
     wf 1 Ypre idx /\ shape Ypre = shapes (domain I) /\
     get K Ypre idx = calc_pos K M idx + bsum K ncalls err.
Proof.
  intros HM Hr Hd L Hidx Htr.
  destruct (anova_order2_struct I y M r g HM Hr Hd) as (Ps & LP & HC & _ & HI).
  destruct (HI idx L Hidx) as (H1 & H2 & HS).
  assert (Hshp : (2 <= length (shapes (domain I)))%nat) by (unfold shapes; rewrite map_length, domain_length; exact Hd).
  destruct (add_many_pre K Rth trunc idx (shapes (domain I)) err Htr Hshp _ _ H1 H2) as (Ypre & nc & E & Hnc & Hsmall & Hok & G).
  exists Ypre, nc. rewrite HC, E. rewrite LP in Hnc, Hsmall.
  split; [reflexivity|]. split; [exact Hnc|]. split; [exact Hsmall|]. split; [apply Hok|]. split; [apply Hok|].
  rewrite G, HS. reflexivity.
Qed.
End Order2Top.
