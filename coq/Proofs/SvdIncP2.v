(* Lemmas about Model/SvdInc.v (C20), part 2: the consumer.  Given the block layout, svd_incomplete addresses
   exactly the blocks (incomplete_layout), never raises and returns a well-formed tensor (incomplete_wf). *)
From Coq Require Import List Arith Lia PeanoNat ZArith Bool.
From TV Require Import Num.Ops Lin.Tab Lin.BigSum Lin.Mat TT.Chain Model.Transformation Model.Svd Model.Sample
  Model.SvdInc Proofs.SvdIncP.
Import ListNotations.

Lemma nth_nonnil_lt {A} (l : list (list A)) t : nth t l [] <> [] -> t < length l.
Proof. intros H. destruct (Nat.lt_ge_cases t (length l)); auto. now rewrite nth_overflow in H. Qed.
Lemma hd_In_nonnil {A} (l : list (list A)) : l <> [] -> In (hd [] l) l.
Proof. destruct l; [congruence|now left]. Qed.
Lemma match_nonnil {A B} (l : list A) (a b : B) : l <> [] -> match l with [] => a | _ :: _ => b end = b.
Proof. destruct l; [congruence|reflexivity]. Qed.
Lemma last_block_index n P S : 0 < n -> 0 < P -> 0 < S -> ((n - 1) * P + (P - 1)) * S + (S - 1) + 1 = n * (P * S).
Proof. intros. destruct n, P, S; lia. Qed.
Lemma fold_max_le {A} (f : A -> nat) M l : (forall x, In x l -> f x <= M) ->
  fold_right (fun x acc => Nat.max (f x) acc) 0 l <= M.
Proof. induction l; intros H; simpl in *; [lia|]. apply Nat.max_lub; auto. Qed.
Lemma fold_max_eq {A} (f : A -> nat) M l : (forall x, In x l -> f x <= M) -> (exists x, In x l /\ f x = M) ->
  fold_right (fun x acc => Nat.max (f x) acc) 0 l = M.
Proof.
  induction l as [|y l IH]; intros H (x & Hx & E); simpl in *; [tauto|].
  pose proof (fold_max_le f M l (fun z Hz => H z (or_intror Hz))) as Hle.
  destruct Hx as [->|Hx].
  - lia.
  - rewrite IH; eauto. pose proof (H y (or_introl eq_refl)). lia.
Qed.
Lemma mkcore_ext {T} r1 n r2 (f g : nat -> nat -> nat -> T) :
  (forall a i b, a < r1 -> i < n -> b < r2 -> f a i b = g a i b) -> mkcore r1 n r2 f = mkcore r1 n r2 g.
Proof.
  intros H. unfold mkcore. f_equal. apply tab_ext; intros a Ha. apply tab_ext; intros i Hi.
  apply tab_ext; intros b Hb. auto.
Qed.
Lemma chain_app_one {T} (Y : list (core T)) (G : core T) : forall r r',
  chain r (Y ++ [G]) r' <-> chain r Y (cr1 G) /\ cr2 G = r'.
Proof.
  induction Y as [|H Y IH]; intros r r'; simpl.
  - split; [intros (A & B); auto | intros (A & B); auto].
  - rewrite IH. tauto.
Qed.
Lemma every_length {A} (d0 : A) q S (l : list A) : 0 < S -> length l = q * S -> length (every d0 S l) = q.
Proof.
  intros HS L. unfold every. rewrite tab_length, L.
  replace (q * S + S - 1) with (q * S + (S - 1)) by lia.
  rewrite Nat.div_add_l by lia. rewrite Nat.div_small by lia. lia.
Qed.
Lemma nth_every {A} (d0 : A) q S (l : list A) t : 0 < S -> length l = q * S -> t < q ->
  nth t (every d0 S l) d0 = nth (t * S) l d0.
Proof.
  intros HS L Ht. unfold every. rewrite nth_tab; auto.
  rewrite L. replace (q * S + S - 1) with (q * S + (S - 1)) by lia.
  rewrite Nat.div_add_l by lia. rewrite Nat.div_small by lia. lia.
Qed.

Section Consumer.
Context {T : Type} (K : ops T).
Notation "0" := (o0 K). Notation "1" := (o1 K).
Infix "+" := (oadd K). Infix "*" := (omul K).
Hypothesis Rth : rng K.
Add Ring RrInc : Rth.

Variable svdo : nat -> mat T -> mat T * list T * mat T.
Variable lstsq : nat -> mat T -> mat T -> mat T.
(* np.linalg.svd(A, full_matrices=False): the left factor has as many rows as A *)
Hypothesis svd_rows : forall c A, mr (fst (fst (svdo c A))) = mr A.

Variables (ns : list nat) (II : list (list nat)) (idx idm : list nat)
          (PS : list (list (list nat) * list (list nat))).
Hypothesis Hlay : layout ns II idx idm PS.
Hypothesis Hd : 2 <= length ns.
Hypothesis Hpos : Forall (fun n => (0 < n)%nat) ns.
Variable Y : list T.
Hypothesis HY : length Y = length II.
Variables (e : T) (rcap : Z).

Notation d := (length ns).
Notation Pk k := (fst (nth k PS dPS)).
Notation Sk k := (snd (nth k PS dPS)).
Notation nk k := (nth k ns O).

Lemma nk_pos k : (k < d)%nat -> (0 < nk k)%nat.
Proof. intros H. rewrite Forall_forall in Hpos. apply Hpos. now apply nth_In. Qed.

(* everything the layout says about mode k, unpacked *)
Lemma blockk k : (k < d)%nat ->
  nth k idm O = length (Sk k) /\
  nth (S k) idx O = (nth k idx O + nk k * (length (Pk k) * length (Sk k)))%nat /\
  (forall v i j, (v < nk k)%nat -> (i < length (Pk k))%nat -> (j < length (Sk k))%nat ->
     nth (nth k idx O + (v * length (Pk k) + i) * length (Sk k) + j) II [] = nth i (Pk k) [] ++ v :: nth j (Sk k) []) /\
  (0 < length (Pk k))%nat /\ (0 < length (Sk k))%nat /\
  (forall i, (i < length (Pk k))%nat -> inb (firstn k ns) (nth i (Pk k) [])) /\
  (forall j, (j < length (Sk k))%nat -> inb (skipn (S k) ns) (nth j (Sk k) [])).
Proof. intros H. exact (lay_block _ _ _ _ _ Hlay k H). Qed.

Lemma block_end_le k : (k < d)%nat -> (nth (S k) idx O <= length II)%nat.
Proof.
  intros Hk. destruct (blockk k Hk) as (_ & E & Hnth & HP & HS & _).
  pose proof (nk_pos k Hk) as Hn.
  specialize (Hnth (nk k - 1) (length (Pk k) - 1) (length (Sk k) - 1))%nat.
  assert (Hlt : (nth k idx O + ((nk k - 1) * length (Pk k) + (length (Pk k) - 1)) * length (Sk k) + (length (Sk k) - 1)
                 < length II)%nat).
  { apply nth_nonnil_lt. rewrite Hnth by lia. now destruct (nth (length (Pk k) - 1) (Pk k) []). }
  pose proof (last_block_index (nk k) (length (Pk k)) (length (Sk k)) Hn HP HS). lia.
Qed.

Lemma row_inb row : In row II -> inb ns row.
Proof.
  intros H. destruct (lay_cover _ _ _ _ _ Hlay row H) as (k & v & i & j & Hk & Hv & Hi & Hj & ->).
  destruct (blockk k Hk) as (_ & _ & _ & _ & _ & HPi & HSj).
  rewrite <- (firstn_skipn k ns). apply inb_app; [auto|]. rewrite (skipn_nth_S ns k Hk). constructor; auto.
  apply HSj; auto.
Qed.

Lemma II_nonnil : II <> [].
Proof.
  assert (H0 : (0 < d)%nat) by lia. pose proof (block_end_le O H0) as H.
  destruct (blockk O H0) as (_ & E & _ & HP & HS & _). pose proof (nk_pos O H0).
  intros EII. rewrite EII in H. simpl in H. assert (0 < nk O * (length (Pk O) * length (Sk O)))%nat by (repeat apply Nat.mul_pos_pos; auto). lia.
Qed.

(* shapes = np.max(I, axis=0) + 1 is the shape the samples were generated for *)
Lemma colmax1_layout : colmax1 II = ns.
Proof.
  unfold colmax1. pose proof (hd_In_nonnil II II_nonnil) as Hhd.
  rewrite (inb_length _ _ (row_inb _ Hhd)).
  rewrite <- (tab_nth O ns) at 2. apply tab_ext. intros j Hj.
  rewrite (fold_max_eq (fun row => nth j row O) (nk j - 1)).
  - pose proof (nk_pos j Hj). lia.
  - intros row Hrow. pose proof (inb_nth _ _ j (row_inb row Hrow) Hj). lia.
  - destruct (blockk j Hj) as (_ & E & Hnth & HP & HS & HPi & _). pose proof (nk_pos j Hj) as Hn.
    exists (nth O (Pk j) [] ++ (nk j - 1)%nat :: nth O (Sk j) []). split.
    + rewrite <- (Hnth (nk j - 1)%nat O O) by lia. apply nth_In.
      pose proof (block_end_le j Hj). rewrite E in H.
      pose proof (idx3_lt (nk j - 1) O O (nk j) (length (Pk j)) (length (Sk j))). lia.
    + pose proof (inb_length _ _ (HPi O HP)) as L. rewrite firstn_length in L.
      rewrite app_nth2 by lia. replace (j - length (nth O (Pk j) []))%nat with O by lia. reflexivity.
Qed.

(* ---- the blocks of values ---- *)
Definition blockmat (k : nat) : mat T :=
  mat_of K (nk k * length (Pk k)) (length (Sk k)) (slice (nth k idx O) (nth (S k) idx O) Y).
Lemma slice_block_length {A} (l : list A) k : length l = length II -> (k < d)%nat ->
  length (slice (nth k idx O) (nth (S k) idx O) l) = (nk k * length (Pk k) * length (Sk k))%nat.
Proof.
  intros L Hk. rewrite slice_length by (rewrite L; now apply block_end_le).
  destruct (blockk k Hk) as (_ & E & _). rewrite E. lia.
Qed.
Lemma mget_blockmat k v i j : (k < d)%nat -> (v < nk k)%nat -> (i < length (Pk k))%nat -> (j < length (Sk k))%nat ->
  mget K (blockmat k) (v * length (Pk k) + i) j =
  nth (nth k idx O + (v * length (Pk k) + i) * length (Sk k) + j) Y 0.
Proof.
  intros Hk Hv Hi Hj. unfold blockmat, mat_of. rewrite mget_mk by (auto using idx2_lt).
  destruct (blockk k Hk) as (_ & E & _).
  rewrite nth_slice. - f_equal. lia.
  - rewrite E. pose proof (idx3_lt v i j (nk k) _ _ Hv Hi Hj). lia.
Qed.

(* ---- the first core ---- *)
Lemma inc_first_ok :
  let A := blockmat O in
  let U := fst (matrix_skeleton K svdo O A e rcap false GiveM) in
  inc_first K svdo Y idx (nk O) e rcap =
  Ok (mk_st [mkcore 1 (nk O) (mc U) (fun _ i b => mget K U i b)] 1 O [CSvd A]).
Proof.
  assert (H0 : (0 < d)%nat) by lia. pose proof (nk_pos O H0) as Hn.
  assert (HP : length (Pk O) = 1%nat) by (now rewrite (lay_first _ _ _ _ _ Hlay)).
  unfold inc_first, blockmat. rewrite (slice_block_length Y O HY H0), HP, !Nat.mul_1_r.
  rewrite (Nat.mul_comm (nk O)), Nat.mod_mul, Nat.div_mul by lia. reflexivity.
Qed.

(* ---- one step of the loop ---- *)
Definition Phi (cs : list (core T)) (p : list nat) (a : nat) : T := nth a (run K [1] cs p) 0.
Definition step_r1 (k : nat) : Z := if (k <? d - 1)%nat then rcap else 1%Z.
Definition step_skel (k : nat) : bool := (step_r1 k <? Z.of_nat (length (Sk k)))%Z.
Definition step_Y1 (c k : nat) : mat T :=
  if step_skel k then fst (matrix_skeleton K svdo c (blockmat k) e (step_r1 k) false GiveM) else blockmat k.

Lemma skeleton_rows c A r : mr (fst (matrix_skeleton K svdo c A e r false GiveM)) = mr A.
Proof.
  unfold matrix_skeleton. pose proof (svd_rows c A) as H. destruct (svdo c A) as [[U s] V]. cbn [fst snd] in *.
  exact H.
Qed.
Lemma step_Y1_rows c k : (k < d)%nat -> mr (step_Y1 c k) = (nk k * length (Pk k))%nat.
Proof. intros Hk. unfold step_Y1. destruct (step_skel k); [rewrite skeleton_rows|]; reflexivity. Qed.

Lemma mrange_rows (A : mat T) q P v : mr A = (q * P)%nat -> (v < q)%nat -> mr (mrange K A (v * P) ((v + 1) * P)) = P.
Proof. intros E Hv. unfold mrange. cbn [mr mkmat]. rewrite E. rewrite Nat.min_l by nia. nia. Qed.
Lemma mget_mrange (A : mat T) q P v i j : mr A = (q * P)%nat -> (v < q)%nat -> (i < P)%nat -> (j < mc A)%nat ->
  mget K (mrange K A (v * P) ((v + 1) * P)) i j = mget K A (v * P + i) j.
Proof.
  intros E Hv Hi Hj. unfold mrange. rewrite mget_mk; auto. rewrite E. rewrite Nat.min_l by nia. nia.
Qed.

Lemma inc_step_ok k s : (1 <= k)%nat -> (k < d)%nat -> length (cores s) = k ->
  let P := Pk k in let n := nk k in
  let r0 := cr2 (last (cores s) dcore) in
  let Y1 := step_Y1 (nsvd s) k in
  exists s' A b, inc_step K svdo lstsq II Y idx idm ns d e rcap k s = Ok s' /\
    cores s' = cores s ++ [mkcore r0 n (mc Y1) (fun a v c => mget K (lstsq (nlsq s + v) (A v) (b v)) a c)] /\
    trace s' = trace s ++ (if step_skel k then [CSvd (blockmat k)] else []) ++ tab n (fun v => CLsq (A v) (b v)) /\
    (forall v, (v < n)%nat ->
       mr (A v) = length P /\ mc (A v) = r0 /\ mr (b v) = length P /\ mc (b v) = mc Y1 /\
       (forall i a, (i < length P)%nat -> (a < r0)%nat -> mget K (A v) i a = Phi (cores s) (nth i P []) a) /\
       (forall i c, (i < length P)%nat -> (c < mc Y1)%nat -> mget K (b v) i c = mget K Y1 (v * length P + i) c)).
Proof.
  intros H1 Hk Hlen. cbv zeta.
  destruct (blockk k Hk) as (Eidm & Eidx & Hnth & HP & HS & HPi & HSj).
  pose proof (nk_pos k Hk) as Hn.
  pose proof (slice_block_length II k eq_refl Hk) as LIc.
  pose proof (slice_block_length Y k HY Hk) as LYc.
  pose proof (step_Y1_rows (nsvd s) k Hk) as HY1r.
  unfold inc_step. rewrite Eidm.
  replace (length (Sk k) =? 0)%nat with false by (symmetry; apply Nat.eqb_neq; lia).
  rewrite LIc. replace (nk k * length (Pk k) * length (Sk k) =? 0)%nat with false
    by (symmetry; apply Nat.eqb_neq; pose proof (Nat.mul_pos_pos _ _ (Nat.mul_pos_pos _ _ Hn HP) HS); lia).
  rewrite LYc. rewrite Nat.mod_mul by lia. cbn [Nat.eqb negb]. rewrite Nat.div_mul by lia.
  fold (blockmat k). fold (step_r1 k). fold (step_skel k). fold (step_Y1 (nsvd s) k).
  set (Y1 := step_Y1 (nsvd s) k) in *.
  set (rows := map (fun i => run K [1] (firstn k (cores s)) (firstn k i))
                   (every [] (length (Sk k)) (slice (nth k idx O) (nth (S k) idx O) II))).
  set (r0 := cr2 (last (cores s) dcore)).
  set (M := mat_rows r0 rows).
  assert (Lrows : length rows = (nk k * length (Pk k))%nat).
  { unfold rows. rewrite map_length. apply every_length; auto. }
  assert (HMr : mr M = (nk k * length (Pk k))%nat) by exact Lrows.
  rewrite HY1r, (Nat.mul_comm (nk k) (length (Pk k))), Nat.div_mul by lia.
  pose (Ai := fun i => mrange K M (i * length (Pk k)) ((i + 1) * length (Pk k))).
  pose (bi := fun i => mrange K Y1 (i * length (Pk k)) ((i + 1) * length (Pk k))).
  assert (Hchk : forallb (fun i => (mr (mrange K M (i * length (Pk k)) ((i + 1) * length (Pk k))) =?
                                    mr (mrange K Y1 (i * length (Pk k)) ((i + 1) * length (Pk k))))%nat)
                         (seq 0 (nk k)) = true).
  { apply forallb_forall. intros v Hv. apply in_seq in Hv. apply Nat.eqb_eq.
    rewrite (mrange_rows M (nk k)), (mrange_rows Y1 (nk k)); auto; lia. }
  rewrite Hchk. cbn [negb].
  eexists _, Ai, bi. split; [reflexivity|]. cbn [cores trace]. split; [|split].
  - f_equal. f_equal. apply mkcore_ext. intros a v c Ha Hv Hc. now rewrite nth_tab.
  - reflexivity.
  - intros v Hv. unfold Ai, bi. rewrite (mrange_rows M (nk k)), (mrange_rows Y1 (nk k)) by (auto; lia).
    repeat split; auto.
    + intros i a Hi Ha. rewrite (mget_mrange M (nk k)) by (auto; lia).
      unfold M, mat_rows, mget. cbn [md]. unfold rows.
      rewrite nth_indep with (d' := (fun i0 => run K [1] (firstn k (cores s)) (firstn k i0)) [])
        by (fold rows; rewrite Lrows; now apply idx2_lt).
      rewrite (map_nth (fun i0 => run K [1] (firstn k (cores s)) (firstn k i0))).
      rewrite (nth_every [] (nk k * length (Pk k))) by (auto using idx2_lt).
      rewrite nth_slice by (rewrite Eidx; pose proof (idx3_lt v i O (nk k) _ _ Hv Hi HS); lia).
      replace (nth k idx O + (v * length (Pk k) + i) * length (Sk k))%nat
        with (nth k idx O + (v * length (Pk k) + i) * length (Sk k) + O)%nat by lia.
      rewrite Hnth by auto.
      pose proof (inb_length _ _ (HPi i Hi)) as Lp. rewrite firstn_length in Lp.
      rewrite firstn_app. replace (k - length (nth i (Pk k) []))%nat with O by lia.
      rewrite firstn_O, app_nil_r. rewrite !firstn_all2 by lia. reflexivity.
    + intros i c Hi Hc. now rewrite (mget_mrange Y1 (nk k)) by (auto; lia).
Qed.

(* a successful step only appends to the trace *)
Lemma inc_step_trace_incl k s s' :
  inc_step K svdo lstsq II Y idx idm ns d e rcap k s = Ok s' -> incl (trace s) (trace s').
Proof.
  unfold inc_step. repeat match goal with |- context [if ?c then _ else _] => destruct c; try discriminate end;
    intros H; injection H as <-; cbn [trace]; apply incl_appl, incl_refl.
Qed.

(* ---- the loop ---- *)
Lemma loop_gen (Inv : nat -> st -> Prop) (first : result (@st T)) :
  (exists s0, first = Ok s0 /\ Inv 1%nat s0) ->
  (forall k s, (1 <= k)%nat -> (k < d)%nat -> Inv k s ->
     exists s', inc_step K svdo lstsq II Y idx idm ns d e rcap k s = Ok s' /\ Inv (S k) s') ->
  forall j, (j <= d - 1)%nat ->
  exists s, inc_loop K svdo lstsq II Y idx idm ns d e rcap (seq 1 j) first = Ok s /\ Inv (S j) s.
Proof.
  intros (s0 & -> & H0) Hstep. induction j as [|j IH]; intros Hj.
  - exists s0. split; auto.
  - destruct IH as (s & Es & Hs); [lia|]. unfold inc_loop in *. rewrite seq_S, fold_left_app, Es. cbn [fold_left rbind].
    apply Hstep; auto; lia.
Qed.

Lemma svd_incomplete_unfold :
  svd_incomplete_st K svdo lstsq II Y idx idm e rcap =
  inc_loop K svdo lstsq II Y idx idm ns d e rcap (seq 1 (d - 1)) (inc_first K svdo Y idx (nk O) e rcap).
Proof.
  unfold svd_incomplete_st. rewrite match_nonnil by apply II_nonnil. rewrite colmax1_layout.
  replace (d =? 0)%nat with false by (symmetry; apply Nat.eqb_neq; lia).
  rewrite (lay_idx_len _ _ _ _ _ Hlay), (lay_idm_len _ _ _ _ _ Hlay).
  replace (S d <? d + 1)%nat with false by (symmetry; apply Nat.ltb_ge; lia).
  rewrite Nat.ltb_irrefl, andb_false_r. reflexivity.
Qed.

(* ---- well-formedness ---- *)
Lemma skeleton_cols_le c A r : (1 <= r)%Z -> (Z.of_nat (mc (fst (matrix_skeleton K svdo c A e r false GiveM))) <= r)%Z.
Proof.
  intros Hr. unfold matrix_skeleton. destruct (svdo c A) as [[U s] V]. cbn [fst snd mmul mc mkmat diagl].
  rewrite map_length. etransitivity; [apply inj_le, firstn_le_length|]. unfold rank_select. lia.
Qed.
Lemma step_Y1_cols c k : (k < d)%nat -> (1 <= rcap)%Z ->
  (Z.of_nat (mc (step_Y1 c k)) <= step_r1 k)%Z /\ (k = d - 1 -> mc (step_Y1 c k) = 1)%nat.
Proof.
  intros Hk Hr. unfold step_Y1. destruct (step_skel k) eqn:Es.
  - unfold step_skel in Es. apply Z.ltb_lt in Es. split.
    + apply skeleton_cols_le. unfold step_r1. destruct (k <? d - 1)%nat; lia.
    + intros ->. unfold step_r1 in Es. rewrite Nat.ltb_irrefl in Es. rewrite (lay_last _ _ _ _ _ Hlay) in Es.
      simpl in Es. lia.
  - unfold step_skel in Es. apply Z.ltb_ge in Es. unfold blockmat, mat_of. cbn [mc mkmat]. split; [lia|].
    intros ->. now rewrite (lay_last _ _ _ _ _ Hlay).
Qed.

Definition Inv_wf (k : nat) (s : @st T) : Prop :=
  length (cores s) = k /\ chain 1%nat (cores s) (cr2 (last (cores s) dcore)) /\ shape (cores s) = firstn k ns /\
  Forall (fun G => (Z.of_nat (cr2 G) <= rcap)%Z) (cores s) /\ (k = d -> cr2 (last (cores s) dcore) = 1%nat).

Theorem incomplete_wf : (1 <= rcap)%Z ->
  exists Yres, svd_incomplete K svdo lstsq II Y idx idm e rcap = Ok Yres /\
    shape Yres = ns /\ chain 1%nat Yres 1%nat /\ Forall (fun G => (Z.of_nat (cr2 G) <= rcap)%Z) Yres.
Proof.
  intros Hr. unfold svd_incomplete. rewrite svd_incomplete_unfold.
  destruct (loop_gen Inv_wf (inc_first K svdo Y idx (nk O) e rcap)) with (j := (d - 1)%nat) as (s & Es & Hs).
  - rewrite inc_first_ok. eexists. split; [reflexivity|]. unfold Inv_wf. cbn [cores length last].
    repeat split; auto.
    + cbn [shape map cn mkcore]. destruct ns as [|n0 ns']; [simpl in Hd; lia|reflexivity].
    + constructor; [|constructor]. cbn [cr2 mkcore]. now apply skeleton_cols_le.
    + lia.
  - intros k s H1 Hk (L & Hch & Hsh & Hrk & _).
    destruct (inc_step_ok k s H1 Hk L) as (s' & A & b & Es' & Ec & _ & _). exists s'. split; auto.
    unfold Inv_wf. rewrite Ec. rewrite last_last. cbn [cr2 cr1 mkcore].
    destruct (step_Y1_cols (nsvd s) k Hk Hr) as (Hc1 & Hc2).
    repeat split.
    + rewrite app_length. simpl. lia.
    + apply chain_app_one. cbn [cr1 cr2 mkcore]. auto.
    + unfold shape in *. rewrite map_app, Hsh. cbn [map cn mkcore]. now rewrite firstn_S_nth.
    + apply Forall_app. split; auto. constructor; [|constructor]. cbn [cr2 mkcore].
      unfold step_r1 in Hc1. destruct (k <? d - 1)%nat; lia.
    + intros E. apply Hc2. lia.
  - lia.
  - rewrite Es. cbn [rmap]. exists (cores s). destruct Hs as (L & Hch & Hsh & Hrk & Hl).
    replace (S (d - 1)) with d in * by lia. split; auto. rewrite Hl in Hch by auto.
    rewrite firstn_all in Hsh. auto.
Qed.

(* ---- the states the loop goes through ---- *)
Definition reach (j : nat) (s : @st T) : Prop :=
  inc_loop K svdo lstsq II Y idx idm ns d e rcap (seq 1 j) (inc_first K svdo Y idx (nk O) e rcap) = Ok s.
Lemma reach_S_inv j s' : reach (S j) s' ->
  exists s, reach j s /\ inc_step K svdo lstsq II Y idx idm ns d e rcap (S j) s = Ok s'.
Proof.
  unfold reach, inc_loop. rewrite seq_S, fold_left_app. cbn [fold_left Nat.add].
  destruct (fold_left _ (seq 1 j) _) as [s|er]; cbn [rbind]; intros H; [exists s; auto | discriminate].
Qed.
Lemma reach_incl m : forall j s s', reach j s -> reach (j + m) s' -> incl (trace s) (trace s').
Proof.
  induction m as [|m IH]; intros j s s' Hs Hs'.
  - rewrite Nat.add_0_r in Hs'. unfold reach in *. rewrite Hs in Hs'. injection Hs' as <-. apply incl_refl.
  - rewrite Nat.add_succ_r in Hs'. apply reach_S_inv in Hs' as (s1 & H1 & Hstep).
    eapply incl_tran; [exact (IH j s s1 Hs H1)|]. eapply inc_step_trace_incl; eauto.
Qed.
Lemma incomplete_runs :
  exists sfin, svd_incomplete_st K svdo lstsq II Y idx idm e rcap = Ok sfin /\ reach (d - 1) sfin.
Proof.
  rewrite svd_incomplete_unfold.
  destruct (loop_gen (fun k s => length (cores s) = k) (inc_first K svdo Y idx (nk O) e rcap)) with (j := (d - 1)%nat)
    as (s & Es & _).
  - rewrite inc_first_ok. eexists. split; reflexivity.
  - intros k s H1 Hk L. destruct (inc_step_ok k s H1 Hk L) as (s' & A & b & Es' & Ec & _). exists s'. split; auto.
    rewrite Ec, app_length. simpl. lia.
  - lia.
  - exists s. split; exact Es.
Qed.

End Consumer.
